(* The cubically interpolated mapping of the bit-exact model (Mapping/Glue.v) under accuracy hypotheses on the
   oracle only (math.Sqrt correctly rounded, math.Cbrt within kc units of 2^-53, and [libm_ok] of
   Mapping/GlueCtor.v for Log2 / Exp / Pow / Exp2 / Floor):
     A. Cardano's closed form over R is the inverse of P s = A s^3 + B s^2 + C s on [0,1)  (cardano_root)
     B. the rounded chain of approximateInverseLog against the ideal chain: conditioning of
        d1 - sqrt (d1^2 - 4 d0^3) (factor <= 1/0.1112), of the cube root (1/(3 * 0.3814^2)) and of
        -(B + p + d0/p)/(3A) (6.97): |s - Pinv u| <= (88 + 4.1 kc) 2^-53                      (chain_total)
     C.-D. the float chain, buildFloat64 (with repairs F7, F9, F11): [cub_inverse_ok L] DERIVED, relative 2^-45
        (cub_inverse_ok_proved); [cub_sp1_ok]: when the code before F11 was right; refutation witness in O.
     E. the generic argument of Mapping/GlueAccuracy.v with the inverse asked only at the index of v
        (nothing about index + 1, whose lower bound may be +Inf in the last binade)
     F.-I. NewCubicallyInterpolatedMappingWithGamma: multiplier, RelativeAccuracy() factor, adjusted gamma,
        Min/MaxIndexableValue, margins at both ends (the lower one is 0.1 s^2 of P s - 10/7 ln (1+s))
     J.-L. Value (Index v) on the whole indexable range; NewCubicallyInterpolatedMapping (a), 2.5e-6 <= a <= 0.32
     M. premises of Sketch/BridgeProofs, C01 end to end   N. satisfiability   O. the code before F11 refuted *)
From Coq Require Import Bool NArith ZArith QArith Qcanon Qcabs Qreals Reals Lra Lia Psatz.
From Flocq Require Import Core.Core Relative Mult_error IEEE754.BinarySingleNaN IEEE754.Binary IEEE754.Bits.
From SK Require Import Base.Prelude Base.F64 Base.F64Proofs Mapping.Glue Mapping.GlueProofs Mapping.GlueAccuracy Mapping.GlueCtor.
From SK.Real Require Import RBasics MapGeneric Binade MapLin.
From SK.Real Require MapCub.
#[local] Existing Instance prec53_gt_0.
#[local] Existing Instance fexp64_valid.
Local Open Scope R_scope.


(* ------------------------------------------------------------------ *)
(* A. Cardano's closed form over R computes the inverse of Pcub        *)
(* ------------------------------------------------------------------ *)
Definition kD0 : R := - 459 / 1225.                 (* B^2 - 3AC *)
Definition kD1c : R := 5454 / 6125.                 (* 2B^3 - 9ABC *)
Definition kC27 : R := 972 / 1225.                  (* 27 A^2 *)
Definition kA3 : R := 18 / 35.                      (* 3 A *)
Definition kB : R := - 3 / 5.
Definition kKK : R := 386810316 / 1838265625.       (* - 4 D0^3 *)

Definition Sof (p : R) : R := - (kB + p + kD0 / p) / kA3.

Lemma kKK_eq : kKK = - (4 * (kD0 * kD0 * kD0)).
Proof. unfold kKK, kD0. field. Qed.

(* the cubic identity behind Cardano's formula *)
Lemma Sof_identity (p : R) : p <> 0 ->
  MapCub.Pcub (Sof p) = (kD1c - (p * p * p + kD0 * kD0 * kD0 / (p * p * p))) / kC27.
Proof.
  intros Hp. unfold MapCub.Pcub, Sof, MapCub.cA, MapCub.cB, MapCub.cC, kB, kD0, kD1c, kC27, kA3. field. exact Hp.
Qed.

Lemma Pcub_inj_le (s t : R) : MapCub.Pcub s <= MapCub.Pcub t -> s <= t.
Proof.
  intros H. destruct (Rle_lt_dec s t) as [L|L]; [exact L|].
  pose proof (MapCub.Pcub_incr t s L). lra.
Qed.

(* global Lipschitz bound of the inverse: |t - s| <= 70/51 |P t - P s| *)
Lemma Pcub_lip (s t : R) : Rabs (t - s) <= 70 / 51 * Rabs (MapCub.Pcub t - MapCub.Pcub s).
Proof.
  rewrite MapCub.Pcub_diff.
  set (Q := (3 / 2 * ((t - s) * (t - s)) + 1 / 2 * ((3 * (t + s) - 7) * (3 * (t + s) - 7)) + 51 / 2) / 35).
  assert (HQ : 51 / 70 <= Q).
  { unfold Q. pose proof (Rle_0_sqr (t - s)) as H1. pose proof (Rle_0_sqr (3 * (t + s) - 7)) as H2.
    unfold Rsqr in H1, H2. lra. }
  rewrite Rabs_mult, (Rabs_pos_eq Q) by lra. pose proof (Rabs_pos (t - s)). nra.
Qed.

(* a real cube root of a negative number *)
Definition ncbrt (x : R) : R := - exp (ln (- x) / 3).
Lemma ncbrt_cube (x : R) : x < 0 -> ncbrt x * ncbrt x * ncbrt x = x.
Proof.
  intros Hx. unfold ncbrt.
  replace (- exp (ln (- x) / 3) * - exp (ln (- x) / 3) * - exp (ln (- x) / 3))
    with (- (exp (ln (- x) / 3) * exp (ln (- x) / 3) * exp (ln (- x) / 3))) by ring.
  rewrite <- !exp_plus. replace (ln (- x) / 3 + ln (- x) / 3 + ln (- x) / 3) with (ln (- x)) by field.
  rewrite exp_ln by lra. ring.
Qed.
Lemma ncbrt_neg (x : R) : ncbrt x < 0.
Proof. unfold ncbrt. pose proof (exp_pos (ln (- x) / 3)). lra. Qed.

Section Ideal.
Variable us : R.
Hypothesis Hus : 0 <= us <= 1.

Definition ds : R := kD1c - kC27 * us.
Definition discs : R := ds * ds + kKK.
Definition sqs : R := sqrt discs.
Definition ws : R := ds - sqs.
Definition hs : R := ws / 2.
Definition ps : R := ncbrt hs.

Lemma ds_range : 594 / 6125 <= ds <= 5454 / 6125.
Proof. unfold ds, kD1c, kC27. lra. Qed.

Lemma discs_range : 2198 / 10000 <= discs <= 10034 / 10000.
Proof. pose proof ds_range. unfold discs, kKK. nra. Qed.

Lemma sqs_props : sqs * sqs = discs /\ 4688 / 10000 <= sqs <= 10017 / 10000.
Proof.
  pose proof discs_range as Hd. assert (E : sqs * sqs = discs) by (apply sqrt_sqrt; lra).
  pose proof (sqrt_pos discs) as P. fold sqs in P. split; [exact E|]. split; nra.
Qed.

Lemma ws_props : ws * (ds + sqs) = - kKK /\ - 372 / 1000 <= ws <= - 1112 / 10000.
Proof.
  destruct sqs_props as (E & B). pose proof ds_range as Hd.
  assert (Ew : ws * (ds + sqs) = - kKK) by (unfold ws; unfold discs in E; nra).
  split; [exact Ew|]. unfold kKK in *.
  assert (W0 : ws < 0) by nra.
  (* ws is increasing in ds: compare with the end points via the product *)
  split.
  - (* ds + sqs >= 0.5658 -> |ws| <= 0.21042/0.5658 = 0.3719 *)
    assert (5657 / 10000 <= ds + sqs) by lra. nra.
  - assert (Hs : ds + sqs <= 18922 / 10000) by lra. nra.
Qed.

Lemma hs_props : hs * hs - ds * hs + kD0 * kD0 * kD0 = 0 /\ - 186 / 1000 <= hs <= - 556 / 10000.
Proof.
  destruct sqs_props as (E & _). destruct ws_props as (_ & B).
  split; [|unfold hs; lra].
  unfold hs, ws. unfold discs in E. pose proof kKK_eq. nra.
Qed.

Lemma ps_props : ps * ps * ps = hs /\ - 571 / 1000 <= ps <= - 3816 / 10000.
Proof.
  destruct hs_props as (_ & B). assert (E : ps * ps * ps = hs) by (apply ncbrt_cube; lra).
  pose proof (ncbrt_neg hs) as N. fold ps in N. split; [exact E|]. split.
  - destruct (Rle_lt_dec (- 571 / 1000) ps) as [H|H]; [exact H|exfalso].
    assert (ps * ps >= 571 / 1000 * (571 / 1000)) by nra. nra.
  - destruct (Rle_lt_dec ps (- 3816 / 10000)) as [H|H]; [exact H|exfalso].
    assert (ps * ps <= 3816 / 10000 * (3816 / 10000)) by nra. nra.
Qed.

(* Cardano: S (ps) is the root *)
Theorem cardano_root : us < 1 -> Sof ps = MapCub.Pinv_cub us.
Proof.
  intros H1. destruct ps_props as (E & B). destruct hs_props as (Q & Bh).
  assert (Hp : ps <> 0) by lra.
  assert (EP : MapCub.Pcub (Sof ps) = us).
  { rewrite (Sof_identity ps Hp), E.
    assert (hs + kD0 * kD0 * kD0 / hs = ds).
    { apply Rmult_eq_reg_r with hs; [|lra]. rewrite Rmult_plus_distr_r. unfold Rdiv at 1.
      rewrite Rmult_assoc, Rinv_l by lra. lra. }
    rewrite H. unfold ds, kC27. field. }
  destruct (MapCub.Pinv_cub_spec us ltac:(lra)) as (Bz & Ez).
  apply Rle_antisym; apply Pcub_inj_le; rewrite EP, Ez; lra.
Qed.
End Ideal.


(* ------------------------------------------------------------------ *)
(* B. the rounded chain against the ideal chain                        *)
(* ------------------------------------------------------------------ *)
(* the binary64 constants of approximateInverseLog, as rationals *)
Definition cd0r : R := - 6749884829267127 / 18014398509481984.
Definition cd1r : R := 8020451385364469 / 9007199254740992.
Definition c27r : R := 3573468439023773 / 4503599627370496.
Definition c3Ar : R := 289517118902389 / 562949953421312.
Definition cKr : R := - 3790613872792543 / 18014398509481984.   (* ((4 d0) d0) d0, rounded twice *)

Lemma rnd_err_2 (x : R) : Rabs x < 2 -> Rabs (rndR x - x) <= u53.
Proof. intros H. apply (rndR_err_lt x 1); [lia|exact H]. Qed.
Lemma rnd_err_1 (x : R) : Rabs x < 1 -> Rabs (rndR x - x) <= u53 / 2.
Proof.
  intros H. apply Rle_trans with (bpow radix2 (0 - 54)); [apply (rndR_err_lt x 0); [lia|exact H]|].
  change (bpow radix2 (0 - 54)) with (/ 18014398509481984). unfold u53. lra.
Qed.
Lemma rnd_err_h (x : R) : Rabs x < / 2 -> Rabs (rndR x - x) <= u53 / 4.
Proof.
  intros H. apply Rle_trans with (bpow radix2 (-1 - 54)); [apply (rndR_err_lt x (-1)); [lia|exact H]|].
  change (bpow radix2 (-1 - 54)) with (/ 36028797018963968). unfold u53. lra.
Qed.

Lemma sqrt_lip (a b c : R) : 0 < c -> c * c <= a -> c * c <= b ->
  Rabs (sqrt a - sqrt b) * (2 * c) <= Rabs (a - b).
Proof.
  intros Hc Ha Hb. assert (Pa : 0 <= a) by nra. assert (Pb : 0 <= b) by nra.
  pose proof (sqrt_sqrt a Pa) as Ea. pose proof (sqrt_sqrt b Pb) as Eb.
  pose proof (sqrt_pos a) as Qa. pose proof (sqrt_pos b) as Qb.
  set (x := sqrt a) in *. set (y := sqrt b) in *.
  assert (Hx : c <= x) by nra. assert (Hy : c <= y) by nra.
  replace (a - b) with ((x - y) * (x + y)) by nra.
  rewrite Rabs_mult, (Rabs_pos_eq (x + y)) by lra.
  apply Rmult_le_compat_l; [apply Rabs_pos|lra].
Qed.

Lemma cube_lip (a b x y al : R) : a * a * a = x -> b * b * b = y -> 0 < al -> a <= - al -> b <= - al ->
  Rabs (a - b) * (3 * (al * al)) <= Rabs (x - y).
Proof.
  intros Ea Eb Hal Ha Hb. replace (x - y) with ((a - b) * (a * a + a * b + b * b)) by nra.
  assert (Q : 3 * (al * al) <= a * a + a * b + b * b) by nra.
  rewrite Rabs_mult, (Rabs_pos_eq (a * a + a * b + b * b)) by nra.
  apply Rmult_le_compat_l; [apply Rabs_pos|exact Q].
Qed.

Lemma Sof_lip (p p' : R) : - 572 / 1000 <= p <= - 381 / 1000 -> - 572 / 1000 <= p' <= - 381 / 1000 ->
  Rabs (Sof p - Sof p') <= 697 / 100 * Rabs (p - p').
Proof.
  intros Hp Hp'.
  assert (E : Sof p - Sof p' = (p' - p) * ((1 - kD0 / (p * p')) / kA3)).
  { unfold Sof, kA3. field. lra. }
  rewrite E, Rabs_mult, (Rabs_minus_sym p p'), Rmult_comm.
  apply Rmult_le_compat_r; [apply Rabs_pos|].
  assert (Pp : 145161 / 1000000 <= p * p') by nra.
  assert (Hq : 0 <= - kD0 / (p * p') <= 25813 / 10000).
  { unfold kD0. split.
    - apply Rmult_le_pos; [lra|]. apply Rlt_le, Rinv_0_lt_compat. lra.
    - apply div_le_intro; [lra|]. nra. }
  unfold kA3. rewrite Rabs_pos_eq.
  - apply div_le_intro; [lra|]. unfold Rdiv in *. lra.
  - apply Rmult_le_pos; [|lra]. unfold Rdiv in *. lra.
Qed.

Lemma Rabs_triang3 (a b c : R) : Rabs (a + b + c) <= Rabs a + Rabs b + Rabs c.
Proof. apply Rle_trans with (1 := Rabs_triang _ _). pose proof (Rabs_triang a b). lra. Qed.

Lemma Rabs_le_mul (a b A B : R) : Rabs a <= A -> Rabs b <= B -> Rabs (a * b) <= A * B.
Proof.
  intros Ha Hb. rewrite Rabs_mult. pose proof (Rabs_pos a). pose proof (Rabs_pos b).
  apply Rmult_le_compat; assumption.
Qed.

Section Chain.
Variables us uh : R.
Hypothesis Hus : 0 <= us <= 1.
Hypothesis Huh : 0 <= uh <= 1.
Hypothesis Eu : Rabs (uh - us) <= u53 / 2.
Definition m1h : R := rndR (c27r * uh).
Definition d1h : R := rndR (cd1r - m1h).
Definition qh : R := rndR (d1h * d1h).
Definition dh : R := rndR (qh - cKr).
Definition sqh : R := rndR (sqrt dh).
Definition wh : R := rndR (d1h - sqh).
Definition hh : R := rndR (wh / 2).

Let e := u53.
Lemma e_val : e = / 9007199254740992.
Proof using. reflexivity. Qed.

Lemma m1h_err : Rabs (m1h - kC27 * us) <= 5 / 4 * e /\ - / 1000 <= m1h <= 8 / 10.
Proof using Hus Huh Eu.
  pose proof e_val as He. apply Rabs_le_inv in Eu. fold e in Eu.
  assert (B : 0 <= c27r * uh <= c27r) by (unfold c27r in *; nra).
  assert (R1 : Rabs (m1h - c27r * uh) <= e / 2).
  { unfold m1h. apply rnd_err_1. unfold c27r in *. apply Rabs_lt. lra. }
  apply Rabs_le_inv in R1.
  assert (D : Rabs (c27r * uh - kC27 * us) <= 3 / 4 * e).
  { replace (c27r * uh - kC27 * us) with ((c27r - kC27) * uh + kC27 * (uh - us)) by ring.
    assert (C1 : - (31 / 100 * e) <= c27r - kC27 <= 0) by (unfold c27r, kC27; rewrite He; lra).
    assert (T1 : - (31 / 100 * e) <= (c27r - kC27) * uh <= 0).
    { split.
      - apply Rle_trans with ((c27r - kC27) * 1); [lra|]. apply Rmult_le_compat_neg_l; lra.
      - rewrite <- (Rmult_0_l uh). apply Rmult_le_compat_r; lra. }
    assert (T2 : - (4 / 10 * e) <= kC27 * (uh - us) <= 4 / 10 * e) by (unfold kC27; rewrite He in *; lra).
    apply Rabs_le. rewrite He in *. lra. }
  apply Rabs_le_inv in D. split; [apply Rabs_le; lra|].
  unfold c27r in *. rewrite He in *. lra.
Qed.

Lemma d1h_err : Rabs (d1h - ds us) <= 17 / 8 * e /\ 9 / 100 <= d1h <= 891 / 1000.
Proof using Hus Huh Eu.
  pose proof e_val as He. destruct m1h_err as (E1 & B1). apply Rabs_le_inv in E1.
  pose proof (ds_range us Hus) as Bd.
  assert (R1 : Rabs (d1h - (cd1r - m1h)) <= e / 2).
  { unfold d1h. apply rnd_err_1. unfold cd1r. apply Rabs_lt. lra. }
  apply Rabs_le_inv in R1.
  assert (E : Rabs (d1h - ds us) <= 17 / 8 * e).
  { unfold ds in *. apply Rabs_le. unfold cd1r, kD1c in *. rewrite He in *. lra. }
  split; [exact E|]. apply Rabs_le_inv in E. rewrite He in *. lra.
Qed.

Lemma qh_err : Rabs (qh - ds us * ds us) <= 9 / 2 * e /\ 0 <= qh <= 8 / 10.
Proof using Hus Huh Eu.
  pose proof e_val as He. destruct d1h_err as (E1 & B1).
  pose proof (ds_range us Hus) as Bd.
  assert (R1 : Rabs (qh - d1h * d1h) <= e / 2).
  { unfold qh. apply rnd_err_1. apply Rabs_lt. nra. }
  assert (D : Rabs (d1h * d1h - ds us * ds us) <= 17 / 8 * e * (1782 / 1000)).
  { replace (d1h * d1h - ds us * ds us) with ((d1h - ds us) * (d1h + ds us)) by ring.
    apply Rabs_le_mul; [exact E1|]. apply Rabs_le. lra. }
  apply Rabs_le_inv in R1, D.
  assert (E : Rabs (qh - ds us * ds us) <= 9 / 2 * e) by (apply Rabs_le; rewrite He in *; lra).
  split; [exact E|]. apply Rabs_le_inv in E. rewrite He in *. nra.
Qed.

Lemma dh_err : Rabs (dh - discs us) <= 23 / 4 * e /\ 2197 / 10000 <= dh <= 10035 / 10000.
Proof using Hus Huh Eu.
  pose proof e_val as He. destruct qh_err as (E1 & B1). apply Rabs_le_inv in E1.
  pose proof (discs_range us Hus) as Bd.
  assert (R1 : Rabs (dh - (qh - cKr)) <= e).
  { unfold dh. apply rnd_err_2. unfold cKr. apply Rabs_lt. lra. }
  apply Rabs_le_inv in R1.
  assert (E : Rabs (dh - discs us) <= 23 / 4 * e).
  { unfold discs in *. apply Rabs_le. unfold cKr, kKK in *. rewrite He in *. lra. }
  split; [exact E|]. apply Rabs_le_inv in E. rewrite He in *. lra.
Qed.

Lemma sqh_err : Rabs (sqh - sqs us) <= 29 / 4 * e /\ 468 / 1000 <= sqh <= 1002 / 1000.
Proof using Hus Huh Eu.
  pose proof e_val as He. destruct dh_err as (E1 & B1).
  pose proof (discs_range us Hus) as Bd. destruct (sqs_props us Hus) as (Es & Bs).
  pose proof (sqrt_lip dh (discs us) (4687 / 10000) ltac:(lra) ltac:(lra) ltac:(lra)) as Lp.
  fold (sqs us) in Lp.
  assert (D : Rabs (sqrt dh - sqs us) <= 614 / 100 * e).
  { pose proof (Rabs_pos (sqrt dh - sqs us)). rewrite He in *. lra. }
  apply Rabs_le_inv in D.
  assert (R1 : Rabs (sqh - sqrt dh) <= e).
  { unfold sqh. apply rnd_err_2. apply Rabs_lt. rewrite He in *. lra. }
  apply Rabs_le_inv in R1.
  assert (E : Rabs (sqh - sqs us) <= 29 / 4 * e) by (apply Rabs_le; rewrite He in *; lra).
  split; [exact E|]. apply Rabs_le_inv in E. rewrite He in *. lra.
Qed.

Lemma hh_err : Rabs (hh - hs us) <= 39 / 8 * e /\ - 187 / 1000 <= hh <= - 555 / 10000.
Proof using Hus Huh Eu.
  pose proof e_val as He. destruct d1h_err as (E1 & B1). destruct sqh_err as (E2 & B2).
  destruct (ws_props us Hus) as (_ & Bw). apply Rabs_le_inv in E1, E2.
  assert (Bx : - 3721 / 10000 <= d1h - sqh <= - 1111 / 10000) by (unfold ws in Bw; rewrite He in *; lra).
  assert (R1 : Rabs (wh - (d1h - sqh)) <= e / 4).
  { unfold wh. apply rnd_err_h. apply Rabs_lt. lra. }
  apply Rabs_le_inv in R1.
  assert (Bwh : - 3722 / 10000 <= wh <= - 1110 / 10000) by (rewrite He in *; lra).
  (* halving is exact *)
  assert (Fw : generic_format radix2 (FLT_exp (-1074) 53) wh).
  { unfold wh, rndR. apply generic_format_round; [exact fexp64_valid|apply valid_rnd_N]. }
  assert (Eh : hh = wh / 2).
  { unfold hh. apply rndR_generic.
    replace (wh / 2) with (wh * bpow radix2 (-1)) by (change (bpow radix2 (-1)) with (/ 2); lra).
    apply mult_bpow_exact_FLT; [exact Fw|].
    assert (Hm : (-4 < mag radix2 wh)%Z).
    { apply mag_gt_bpow. change (bpow radix2 (-4)) with (/ 16). rewrite Rabs_left1 by lra. lra. }
    lia. }
  assert (E : Rabs (hh - hs us) <= 39 / 8 * e).
  { rewrite Eh. unfold hs, ws in *. apply Rabs_le. rewrite He in *. lra. }
  split; [exact E|]. rewrite Eh. lra.
Qed.

(* the oracle's cube root of hh *)
Variable kc : R.
Hypothesis Hkc : 0 <= kc <= 32.
Variables ph : R.
Hypothesis Hph : exists c, c * c * c = hh /\ Rabs (ph - c) <= kc * e * Rabs c.

Lemma ph_err : Rabs (ph - ps us) <= (23 / 2 + 58 / 100 * kc) * e /\ - 572 / 1000 <= ph <= - 381 / 1000.
Proof using Hus Huh Eu Hkc Hph.
  pose proof e_val as He. destruct hh_err as (E1 & B1). destruct Hph as (c & Ec & Epc).
  destruct (ps_props us Hus) as (Ep & Bp).
  assert (Bc : - 5719 / 10000 <= c <= - 3814 / 10000).
  { assert (N : c < 0).
    { destruct (Rlt_le_dec c 0) as [H|H]; [exact H|exfalso]. assert (0 <= c * c * c) by (apply Rmult_le_pos; nra). lra. }
    split.
    - destruct (Rle_lt_dec (- 5719 / 10000) c) as [H|H]; [exact H|exfalso].
      assert (c * c >= 5719 / 10000 * (5719 / 10000)) by nra. nra.
    - destruct (Rle_lt_dec c (- 3814 / 10000)) as [H|H]; [exact H|exfalso].
      assert (c * c <= 3814 / 10000 * (3814 / 10000)) by nra. nra. }
  pose proof (cube_lip c (ps us) hh (hs us) (3814 / 10000) Ec Ep ltac:(lra) ltac:(lra) ltac:(lra)) as Lp.
  assert (D : Rabs (c - ps us) <= 1118 / 100 * e).
  { pose proof (Rabs_pos (c - ps us)). rewrite He in *. lra. }
  assert (Epc' : Rabs (ph - c) <= 572 / 1000 * kc * e).
  { apply Rle_trans with (1 := Epc). rewrite (Rabs_left1 c) by lra.
    replace (572 / 1000 * kc * e) with (kc * e * (572 / 1000)) by ring.
    apply Rmult_le_compat_l; [apply Rmult_le_pos; [lra|rewrite He; lra]|lra]. }
  apply Rabs_le_inv in D, Epc'.
  assert (Hke : 0 <= kc * e <= 32 * e) by (rewrite He in *; nra).
  assert (E : Rabs (ph - ps us) <= (23 / 2 + 58 / 100 * kc) * e) by (apply Rabs_le; rewrite He in *; nra).
  split; [exact E|]. rewrite He in *. lra.
Qed.

Definition a1h : R := rndR (cBr + ph).
Definition rh : R := rndR (cd0r / ph).
Definition a2h : R := rndR (a1h + rh).
Definition sh : R := rndR (- a2h / c3Ar).

Lemma Sof_ph_err : Rabs (Sof ph - Sof (ps us)) <= (81 + 41 / 10 * kc) * e.
Proof using Hus Huh Eu Hkc Hph.
  pose proof e_val as He. destruct ph_err as (E1 & B1). destruct (ps_props us Hus) as (_ & Bp).
  apply Rle_trans with (1 := Sof_lip ph (ps us) B1 ltac:(lra)).
  assert (Hke : 0 <= kc * e) by (rewrite He in *; nra).
  apply Rle_trans with (697 / 100 * ((23 / 2 + 58 / 100 * kc) * e)); [apply Rmult_le_compat_l; [lra|exact E1]|].
  rewrite He in *. nra.
Qed.
Hypothesis Hus1 : us < 1.

Lemma Sof_ph_range : Rabs (Sof ph - MapCub.Pinv_cub us) <= (81 + 41 / 10 * kc) * e /\ - / 1000 <= Sof ph <= 1 + / 1000.
Proof using Hus Huh Eu Hkc Hph Hus1.
  pose proof e_val as He. pose proof Sof_ph_err as E. rewrite (cardano_root us Hus Hus1) in E.
  destruct (MapCub.Pinv_cub_spec us ltac:(lra)) as (Bz & _).
  split; [exact E|]. apply Rabs_le_inv in E.
  assert (Hke : 0 <= kc * e <= 32 * e) by (rewrite He in *; nra).
  rewrite He in *. lra.
Qed.

Lemma sh_err : Rabs (sh - Sof ph) <= 7 * e /\ - / 500 <= sh <= 1 + / 500.
Proof using Hus Huh Eu Hkc Hph Hus1.
  pose proof e_val as He. destruct ph_err as (_ & Bp). destruct Sof_ph_range as (_ & BS).
  set (N := kB + ph + kD0 / ph).
  assert (EN : Sof ph * kA3 = - N) by (unfold Sof, N, kA3; field; lra).
  assert (Iq : - (1 / 381 * 1000) <= / ph <= - (1 / 572 * 1000)).
  { assert (P : ph * / ph = 1) by (apply Rinv_r; lra).
    assert (Nq : / ph < 0) by (apply Rinv_lt_0_compat; lra). split; nra. }
  (* a1h *)
  assert (R1 : Rabs (a1h - (cBr + ph)) <= e).
  { unfold a1h. apply rnd_err_2. unfold cBr. apply Rabs_lt. lra. }
  (* rh *)
  assert (Bq : 65 / 100 <= cd0r / ph <= 985 / 1000) by (unfold Rdiv, cd0r; nra).
  assert (R2 : Rabs (rh - cd0r / ph) <= e / 2).
  { unfold rh. apply rnd_err_1. apply Rabs_lt. lra. }
  apply Rabs_le_inv in R1, R2.
  assert (Dq : Rabs (cd0r / ph - kD0 / ph) <= 9 / 100 * e).
  { replace (cd0r / ph - kD0 / ph) with ((cd0r - kD0) * / ph) by (unfold Rdiv; ring).
    assert (C : 0 <= cd0r - kD0 <= 34 / 1000 * e) by (unfold cd0r, kD0; rewrite He; lra).
    apply Rabs_le. rewrite He in *. nra. }
  apply Rabs_le_inv in Dq.
  assert (BN : - (515 / 1000) <= N <= / 1000) by (unfold kA3 in EN; nra).
  assert (CB : 0 <= cBr - kB <= 2 / 10 * e) by (unfold cBr, kB; rewrite He; lra).
  assert (R3 : Rabs (a2h - (a1h + rh)) <= e / 2).
  { unfold a2h. apply rnd_err_1. apply Rabs_lt. unfold N in BN. rewrite He in *. lra. }
  apply Rabs_le_inv in R3.
  assert (Eta : Rabs (a2h - N) <= 23 / 10 * e) by (apply Rabs_le; unfold N; rewrite He in *; lra).
  apply Rabs_le_inv in Eta.
  set (x := - a2h / c3Ar).
  assert (Ex : x * c3Ar = - a2h) by (unfold x, c3Ar; field).
  assert (C3 : 0 <= kA3 - c3Ar <= 46 / 100 * e) by (unfold kA3, c3Ar; rewrite He; lra).
  assert (Dx : Rabs (x - Sof ph) <= 54 / 10 * e).
  { assert (K : (x - Sof ph) * c3Ar = Sof ph * (kA3 - c3Ar) - (a2h - N)) by nra.
    assert (K2 : - (277 / 100 * e) <= (x - Sof ph) * c3Ar <= 277 / 100 * e).
    { rewrite K. rewrite He in *. nra. }
    apply Rabs_le. unfold c3Ar in *. rewrite He in *. lra. }
  apply Rabs_le_inv in Dx.
  assert (R4 : Rabs (sh - x) <= e).
  { unfold sh. fold x. apply rnd_err_2. apply Rabs_lt. rewrite He in *. lra. }
  apply Rabs_le_inv in R4.
  assert (E : Rabs (sh - Sof ph) <= 7 * e) by (apply Rabs_le; rewrite He in *; lra).
  split; [exact E|]. rewrite He in *. lra.
Qed.

Theorem chain_total : Rabs (sh - MapCub.Pinv_cub us) <= (88 + 41 / 10 * kc) * e.
Proof using Hus Huh Eu Hkc Hph Hus1.
  destruct sh_err as (E1 & _). destruct Sof_ph_range as (E2 & _). apply Rabs_le_inv in E1, E2.
  apply Rabs_le. lra.
Qed.
End Chain.


(* ------------------------------------------------------------------ *)
(* C. the float chain of approximateInverseLog (cubic)                 *)
(* ------------------------------------------------------------------ *)
(* IEEE square root is correctly rounded; math.Cbrt has a relative error of kc units of 2^-53 *)
Definition sqrt_accurate (L : libm) : Prop :=
  forall x : f64, fin x -> / 8 <= BR x <= 2 ->
    fin (l_sqrt L x) /\ BR (l_sqrt L x) = rndR (sqrt (BR x)).
Definition cbrt_accurate (L : libm) (kc : R) : Prop :=
  forall x : f64, fin x -> - / 4 <= BR x <= - / 32 ->
    fin (l_cbrt L x) /\
    exists c : R, c * c * c = BR x /\ Rabs (BR (l_cbrt L x) - c) <= kc * u53 * Rabs c.

(* significandPlusOne as a function of the fraction f = x - floor x *)
Definition c_K : f64 := fmul (fmul (fmul c_four c_d0) c_d0) c_d0.
Definition cub_p (L : libm) (f : f64) : f64 :=
  let d1 := fsub c_d1c (fmul c_27AA f) in
  l_cbrt L (fdiv (fsub d1 (l_sqrt L (fsub (fmul d1 d1) c_K))) c_two).
Definition cub_s (L : libm) (f : f64) : f64 :=
  let p := cub_p L f in fdiv (fneg (fadd (fadd cB p) (fdiv c_d0 p))) c_3A.
Definition cub_sp1 (L : libm) (f : f64) : f64 := fadd (cub_s L f) f64_one.

Lemma approx_inverse_log_cub_eq (L : libm) (x : f64) :
  approx_inverse_log L MCub x = build_float64 (int_of_f (l_floor L x)) (cub_sp1 L (fsub x (l_floor L x))).
Proof. reflexivity. Qed.

Lemma c_K_eq : c_K = fb 13820121284890896318.
Proof.
  rewrite <- (fb_of_bits c_K). apply f_equal. vm_compute. reflexivity.
Qed.
Ltac br_fb :=
  rewrite BR_fb;
  match goal with |- context [binary_float_of_bits_aux 52 11 ?z] =>
    let u := fresh "u" in set (u := binary_float_of_bits_aux 52 11 z); vm_compute in u; subst u end;
  unfold FF2R, F2R; cbn [Fnum Fexp cond_Zopp].
Lemma c_K_BR : BR c_K = cKr.
Proof.
  rewrite c_K_eq. br_fb. rewrite opp_IZR.
  change (bpow radix2 (-55)) with (/ 36028797018963968). unfold cKr. lra.
Qed.

Lemma c_d0_BR : BR c_d0 = cd0r.
Proof. unfold c_d0. br_fb. rewrite opp_IZR. change (bpow radix2 (-54)) with (/ 18014398509481984). unfold cd0r. lra. Qed.
Lemma c_d1c_BR : BR c_d1c = cd1r.
Proof. unfold c_d1c. br_fb. change (bpow radix2 (-53)) with (/ 9007199254740992). unfold cd1r. lra. Qed.
Lemma c_27AA_BR : BR c_27AA = c27r.
Proof. unfold c_27AA. br_fb. change (bpow radix2 (-53)) with (/ 9007199254740992). unfold c27r. lra. Qed.
Lemma c_3A_BR : BR c_3A = c3Ar.
Proof. unfold c_3A. br_fb. change (bpow radix2 (-53)) with (/ 9007199254740992). unfold c3Ar. lra. Qed.
Lemma cub_consts_fin : fin c_d0 /\ fin c_d1c /\ fin c_27AA /\ fin c_3A /\ fin c_K.
Proof. rewrite c_K_eq. repeat split; reflexivity. Qed.

Lemma fneg_R (x : f64) : fin x -> fin (fneg x) /\ BR (fneg x) = - BR x.
Proof.
  intros Fx. unfold fneg, b64_opp. split.
  - rewrite Binary.is_finite_Bopp. exact Fx.
  - apply Binary.B2R_Bopp.
Qed.

Ltac small z := apply (small_le_max z); [lia|apply Rabs_le; simpl (IZR z); lra].
Ltac smalln z := apply (small_le_max z); [lia|apply Rabs_le; simpl (IZR z); nra].

Section FloatChain.
Variable L : libm.
Variable kc : R.
Hypothesis Hkc : 0 <= kc <= 32.
Hypothesis HS : sqrt_accurate L.
Hypothesis HC : cbrt_accurate L kc.
Variable f : f64.
Hypothesis Ff : fin f.
Variable us : R.
Hypothesis Hus : 0 <= us <= 1.
Hypothesis Huh : 0 <= BR f <= 1.
Hypothesis Eu : Rabs (BR f - us) <= u53 / 2.

Local Notation uh := (BR f).

(* the float chain is the rounded real chain of part B, with the oracle's cube root *)
Lemma cub_chain_R :
  fin (cub_p L f) /\ fin (cub_s L f) /\
  (exists c : R, c * c * c = hh uh /\ Rabs (BR (cub_p L f) - c) <= kc * u53 * Rabs c) /\
  BR (cub_s L f) = sh (BR (cub_p L f)).
Proof.
  destruct cub_consts_fin as (Fd0 & Fd1 & F27 & F3A & FK).
  assert (He : u53 = / 9007199254740992) by reflexivity.
  destruct (m1h_err us uh Hus Huh Eu) as (_ & Bm).
  destruct (d1h_err us uh Hus Huh Eu) as (_ & Bd).
  destruct (qh_err us uh Hus Huh Eu) as (_ & Bq).
  destruct (dh_err us uh Hus Huh Eu) as (_ & Bdh).
  destruct (sqh_err us uh Hus Huh Eu) as (_ & Bsq).
  destruct (hh_err us uh Hus Huh Eu) as (_ & Bhh).
  (* m1 *)
  destruct (fmul_bounded c_27AA f F27 Ff) as (F1 & R1).
  { rewrite c_27AA_BR. fold uh. unfold c27r. smalln 1%Z. }
  rewrite c_27AA_BR in R1. fold uh in R1. change (rndR (c27r * uh)) with (m1h uh) in R1.
  (* d1 *)
  destruct (fsub_bounded c_d1c _ Fd1 F1) as (F2 & R2).
  { rewrite c_d1c_BR, R1. unfold cd1r. small 2%Z. }
  rewrite c_d1c_BR, R1 in R2. change (rndR (cd1r - m1h uh)) with (d1h uh) in R2.
  set (d1 := fsub c_d1c (fmul c_27AA f)) in *.
  (* q *)
  destruct (fmul_bounded d1 d1 F2 F2) as (F3 & R3).
  { rewrite R2. smalln 1%Z. }
  rewrite R2 in R3. change (rndR (d1h uh * d1h uh)) with (qh uh) in R3.
  (* disc *)
  destruct (fsub_bounded _ c_K F3 FK) as (F4 & R4).
  { rewrite R3, c_K_BR. unfold cKr. small 2%Z. }
  rewrite R3, c_K_BR in R4. change (rndR (qh uh - cKr)) with (dh uh) in R4.
  (* sqrt *)
  destruct (HS _ F4) as (F5 & R5).
  { rewrite R4. lra. }
  rewrite R4 in R5. change (rndR (sqrt (dh uh))) with (sqh uh) in R5.
  (* w *)
  destruct (fsub_bounded d1 _ F2 F5) as (F6 & R6).
  { rewrite R2, R5. small 2%Z. }
  rewrite R2, R5 in R6. change (rndR (d1h uh - sqh uh)) with (wh uh) in R6.
  (* h *)
  assert (Bw : Rabs (wh uh) <= 1).
  { unfold wh. apply (rndR_abs_le _ 1); [lia|]. apply Rabs_le. simpl (IZR 1). lra. }
  destruct (fdiv_bounded _ c_two F6) as (F7 & R7).
  { rewrite c_two_BR. lra. }
  { rewrite R6, c_two_BR. apply Rabs_le_inv in Bw. small 1%Z. }
  rewrite R6, c_two_BR in R7. change (rndR (wh uh / 2)) with (hh uh) in R7.
  (* p *)
  destruct (HC _ F7) as (F8 & c & Ec & Epc).
  { rewrite R7. lra. }
  rewrite R7 in Ec. fold (cub_p L f) in F8, Epc.
  assert (Hph : exists c, c * c * c = hh uh /\ Rabs (BR (cub_p L f) - c) <= kc * u53 * Rabs c).
  { exists c. split; assumption. }
  destruct (ph_err us uh Hus Huh Eu kc Hkc (BR (cub_p L f)) Hph) as (_ & Bp).
  set (p := cub_p L f) in *. set (ph := BR p) in *.
  split; [exact F8|].
  (* a1 *)
  destruct (fadd_bounded cB p cB_fin F8) as (F9 & R9).
  { rewrite cB_BR. fold ph. unfold cBr. small 2%Z. }
  rewrite cB_BR in R9. fold ph in R9. change (rndR (cBr + ph)) with (a1h ph) in R9.
  (* r *)
  assert (Iq : - (1 / 381 * 1000) <= / ph <= - (1 / 572 * 1000)).
  { assert (P : ph * / ph = 1) by (apply Rinv_r; lra).
    assert (Nq : / ph < 0) by (apply Rinv_lt_0_compat; lra). split; nra. }
  destruct (fdiv_bounded c_d0 p Fd0) as (F10 & R10).
  { fold ph. lra. }
  { rewrite c_d0_BR. fold ph. unfold Rdiv, cd0r. smalln 1%Z. }
  rewrite c_d0_BR in R10. fold ph in R10. change (rndR (cd0r / ph)) with (rh ph) in R10.
  assert (Ba1 : Rabs (a1h ph) <= 2).
  { unfold a1h. apply (rndR_abs_le _ 2); [lia|]. unfold cBr. apply Rabs_le. simpl (IZR 2). lra. }
  assert (Brh : Rabs (rh ph) <= 1).
  { unfold rh. apply (rndR_abs_le _ 1); [lia|]. unfold Rdiv, cd0r. apply Rabs_le. simpl (IZR 1). nra. }
  apply Rabs_le_inv in Ba1, Brh.
  (* a2 *)
  destruct (fadd_bounded _ _ F9 F10) as (F11 & R11).
  { rewrite R9, R10. small 3%Z. }
  rewrite R9, R10 in R11. change (rndR (a1h ph + rh ph)) with (a2h ph) in R11.
  assert (Ba2 : Rabs (a2h ph) <= 3).
  { unfold a2h. apply (rndR_abs_le _ 3); [lia|]. apply Rabs_le. simpl (IZR 3). lra. }
  apply Rabs_le_inv in Ba2.
  destruct (fneg_R _ F11) as (F12 & R12). rewrite R11 in R12.
  (* s *)
  destruct (fdiv_bounded _ c_3A F12) as (F13 & R13).
  { rewrite c_3A_BR. unfold c3Ar. lra. }
  { rewrite R12, c_3A_BR. unfold Rdiv. unfold c3Ar. smalln 8%Z. }
  rewrite R12, c_3A_BR in R13. change (rndR (- a2h ph / c3Ar)) with (sh ph) in R13.
  split; [exact F13|]. split; [exact Hph|exact R13].
Qed.
End FloatChain.


(* ------------------------------------------------------------------ *)
(* D. approximateInverseLog (cubic) against the ideal inverse          *)
(* ------------------------------------------------------------------ *)
(* P s >= s and P s <= (10/7 + 3/70) s on [0,1] *)
Lemma Pinv_cub_le (u : R) : 0 <= u <= 1 -> MapCub.Pinv_cub u <= u.
Proof.
  intros Hu. destruct (MapCub.Pinv_cub_spec u Hu) as (Bz & Ez).
  set (z := MapCub.Pinv_cub u) in *.
  pose proof (MapCub.Pcub_diff z 1) as D. rewrite MapCub.Pcub_1, Ez in D.
  set (Q := (3 / 2 * ((1 - z) * (1 - z)) + 1 / 2 * ((3 * (1 + z) - 7) * (3 * (1 + z) - 7)) + 51 / 2) / 35) in D.
  assert (HQ : Q <= 1).
  { unfold Q. assert ((1 - z) * (1 - z) <= 1) by nra. assert ((3 * (1 + z) - 7) * (3 * (1 + z) - 7) <= 16) by nra. lra. }
  assert ((1 - z) * Q <= (1 - z) * 1) by (apply Rmult_le_compat_l; lra). lra.
Qed.
Lemma Pinv_cub_ge (u : R) : 0 <= u <= 1 -> 67 / 100 * u <= MapCub.Pinv_cub u.
Proof.
  intros Hu. destruct (MapCub.Pinv_cub_spec u Hu) as (Bz & Ez).
  set (z := MapCub.Pinv_cub u) in *.
  pose proof (MapCub.Pcub_diff 0 z) as D. rewrite MapCub.Pcub_0, Ez in D.
  set (Q := (3 / 2 * ((z - 0) * (z - 0)) + 1 / 2 * ((3 * (z + 0) - 7) * (3 * (z + 0) - 7)) + 51 / 2) / 35) in D.
  assert (HQ : 0 <= Q <= 515 / 350).
  { unfold Q. assert (0 <= (z - 0) * (z - 0) <= 1) by nra.
    assert (0 <= (3 * (z + 0) - 7) * (3 * (z + 0) - 7) <= 49) by nra. lra. }
  assert ((z - 0) * Q <= (z - 0) * (515 / 350)) by (apply Rmult_le_compat_l; lra). lra.
Qed.

(* a float of magnitude at least 512 is a multiple of 2^-43 *)
Lemma multiple_43_of_ge_512 (t : f64) : 512 <= Rabs (BR t) ->
  exists k : Z, BR t = IZR k * bpow radix2 (-43).
Proof.
  intros Ht. pose proof (BR_format t) as Hg. unfold generic_format in Hg.
  set (M := Ztrunc (scaled_mantissa radix2 (FLT_exp (-1074) 53) (BR t))) in Hg.
  set (c := cexp radix2 (FLT_exp (-1074) 53) (BR t)) in Hg.
  assert (Hc : (-43 <= c)%Z).
  { unfold c, cexp, FLT_exp.
    assert (10 <= mag radix2 (BR t))%Z by (apply mag_ge_bpow; change (bpow radix2 (10 - 1)) with 512; exact Ht). lia. }
  exists (M * 2 ^ (c + 43))%Z. rewrite Hg at 1. unfold F2R. cbn [Fnum Fexp].
  rewrite mult_IZR. change 2%Z with (radix_val radix2) at 1. rewrite IZR_Zpower by lia.
  rewrite Rmult_assoc, <- bpow_plus. f_equal. f_equal. lia.
Qed.

(* the one way the closed form can go wrong: significandPlusOne below 1.  Before the repair F11 buildFloat64
   then took the fraction bits of a float in [0.5, 1) (nearly doubling the result); it now counts such a
   significand as 1.  [cub_sp1_ok] is the condition under which the unrepaired code was right. *)
Definition cub_sp1_ok (L : libm) (t : f64) : Prop := 1 <= BR (cub_sp1 L (fsub t (l_floor L t))).

(* the conclusion of inverse_ok at one argument *)
Definition inverse_ok_at (L : libm) (k : mkind) (Linvr : R -> R) (t : f64) : Prop :=
  fin (approx_inverse_log L k t) /\ pos_normal (approx_inverse_log L k t) /\
  Linvr (BR t) * (1 - q45) <= BR (approx_inverse_log L k t) <= Linvr (BR t) * (1 + q45).

Section CubInverse.
Variable L : libm.
Variable kc : R.
Hypothesis Hkc : 0 <= kc <= 32.
Hypothesis HS : sqrt_accurate L.
Hypothesis HC : cbrt_accurate L kc.
Hypothesis HF : floor_exact L.

Variable t : f64.
Hypothesis Ft : fin t.
Hypothesis Hn : (-1022 <= Zfloor (BR t) <= 1023)%Z.

Local Notation n := (Zfloor (BR t)).
Local Notation us := (BR t - IZR (Zfloor (BR t))).
Local Notation f := (fsub t (l_floor L t)).

Lemma cub_frac_props :
  fin (l_floor L t) /\ int_of_f (l_floor L t) = n /\ 0 <= us < 1 /\
  fin f /\ 0 <= BR f <= 1 /\ Rabs (BR f - us) <= u53 / 2.
Proof using HF Ft Hn.
  destruct (HF _ Ft) as (Fe & Re).
  pose proof (Zfloor_lb (BR t)) as Hlb. pose proof (Zfloor_ub (BR t)) as Hub.
  split; [exact Fe|]. split; [rewrite int_of_f_R, Re; apply Ztrunc_IZR|]. split; [lra|].
  destruct (fsub_bounded t _ Ft Fe) as (Fd & Rd).
  { rewrite Re. apply (small_le_max 1); [lia|]. apply Rabs_le. simpl (IZR 1). lra. }
  rewrite Re in Rd. split; [exact Fd|]. rewrite Rd. split.
  - split.
    + rewrite <- (rndR_IZR 0) by lia. apply rndR_le. lra.
    + rewrite <- (rndR_IZR 1) by lia. apply rndR_le. lra.
  - apply rnd_err_1. apply Rabs_lt. lra.
Qed.

(* the computed significand against 1 + Pinv (fraction) *)
Lemma cub_sp1_R :
  fin (cub_sp1 L f) /\
  Rabs (BR (cub_s L f) - MapCub.Pinv_cub us) <= (88 + 41 / 10 * kc) * u53 /\
  BR (cub_sp1 L f) = rndR (BR (cub_s L f) + 1).
Proof using HF Ft Hn Hkc HS HC.
  destruct cub_frac_props as (_ & _ & Bu & Ff & Bf & Ef).
  destruct (cub_chain_R L kc Hkc HS HC f Ff us ltac:(lra) Bf Ef) as (Fp & Fs & Hph & Rs).
  pose proof (chain_total us (BR f) ltac:(lra) Bf Ef kc Hkc (BR (cub_p L f)) Hph ltac:(lra)) as E.
  rewrite <- Rs in E.
  destruct (MapCub.Pinv_cub_spec us ltac:(lra)) as (Bz & _).
  assert (Hke : 0 <= kc * u53 <= 32 * u53) by (unfold u53; nra).
  assert (Bs : -1 <= BR (cub_s L f) <= 2) by (apply Rabs_le_inv in E; unfold u53 in *; lra).
  destruct (fadd_bounded _ f64_one Fs f64_one_fin) as (F1 & R1).
  { rewrite f64_one_BR. apply (small_le_max 3); [lia|]. apply Rabs_le. simpl (IZR 3). lra. }
  rewrite f64_one_BR in R1. split; [exact F1|]. split; [exact E|exact R1].
Qed.

(* the side condition holds as soon as the fraction is at least 2^-44 *)
Lemma cub_sp1_ok_of_frac : / 17592186044416 <= us -> cub_sp1_ok L t.
Proof using HF Ft Hn Hkc HS HC.
  intros Hu. destruct cub_frac_props as (_ & _ & Bu & _).
  destruct cub_sp1_R as (_ & E & R1). unfold cub_sp1_ok. rewrite R1.
  pose proof (Pinv_cub_ge us ltac:(lra)) as Hz. apply Rabs_le_inv in E.
  assert (Hke : 0 <= kc * u53 <= 32 * u53) by (unfold u53; nra).
  apply rndR_ge; [apply (fmt_IZR 1); lia|]. unfold u53 in *. lra.
Qed.

Theorem cub_inverse_ok_at : inverse_ok_at L MCub MapCub.Linv_cub t.
Proof using HF Ft Hn Hkc HS HC.
  destruct cub_frac_props as (Fe & Ei & Bu & Ff & Bf & Ef).
  destruct cub_sp1_R as (F1 & E & R1).
  destruct (MapCub.Pinv_cub_spec us ltac:(lra)) as (Bz & _).
  pose proof (Pinv_cub_le us ltac:(lra)) as Hzu.
  assert (Hke : 0 <= kc * u53 <= 32 * u53) by (unfold u53; nra).
  unfold inverse_ok_at. rewrite approx_inverse_log_cub_eq, Ei.
  set (z := MapCub.Pinv_cub us) in *. set (sp := cub_sp1 L f) in *. set (s := BR (cub_s L f)) in *.
  apply Rabs_le_inv in E.
  assert (Bs : - / 1000 <= s + 1 <= 3) by (unfold u53 in *; lra).
  assert (Er : Rabs (BR sp - (s + 1)) <= 2 * u53).
  { rewrite R1. apply Rle_trans with (bpow radix2 (2 - 54)).
    - apply rndR_err_lt; [lia|]. change (bpow radix2 2) with 4. apply Rabs_lt. lra.
    - change (bpow radix2 (2 - 54)) with (/ 4503599627370496). unfold u53. lra. }
  apply Rabs_le_inv in Er.
  assert (EL : MapCub.Linv_cub (BR t) = (1 + z) * bpow radix2 n).
  { unfold MapCub.Linv_cub, bval. rewrite floorZ_Zfloor, bpow_pow2. fold z. ring. }
  pose proof (bpow_gt_0 radix2 n) as Pn.
  destruct (Rlt_le_dec (BR sp) 1) as [Hlt1|Hok].
  { (* the significand came out below 1: buildFloat64 (repaired) takes 1; then the root is below 2^-45 *)
    rewrite (build_float64_lt1 n sp F1 Hlt1).
    destruct (build_float64_raw_normal n f64_one Hn f64_one_fin) as (Fb & Rb & Nb); [rewrite f64_one_BR; lra|].
    split; [exact Fb|]. split; [exact Nb|]. rewrite Rb, f64_one_BR, EL, Rmult_1_l.
    assert (Hz : z <= 222 * u53) by (unfold u53 in *; lra).
    split.
    - rewrite <- (Rmult_1_l (bpow radix2 n)) at 2. rewrite (Rmult_comm (1 + z)), Rmult_assoc.
      rewrite (Rmult_comm (bpow radix2 n)). apply Rmult_le_compat_r; [lra|]. unfold q45, u53 in *. nra.
    - rewrite <- (Rmult_1_l (bpow radix2 n)) at 1. rewrite (Rmult_comm (1 + z)), Rmult_assoc.
      rewrite (Rmult_comm (bpow radix2 n)). apply Rmult_le_compat_r; [lra|]. unfold q45, u53 in *. nra. }
  assert (Bsp : 1 <= BR sp < 4) by (unfold u53 in *; lra).
  (* relative error of the significand *)
  assert (Rel : (1 + z) * (1 - q45) <= BR sp <= (1 + z) * (1 + q45)).
  { unfold q45, u53 in *. split; nra. }
  assert (Fin : forall r : f64, BR r = BR sp * bpow radix2 n ->
            MapCub.Linv_cub (BR t) * (1 - q45) <= BR r <= MapCub.Linv_cub (BR t) * (1 + q45)).
  { intros r ->. rewrite EL. split.
    - replace ((1 + z) * bpow radix2 n * (1 - q45)) with ((1 + z) * (1 - q45) * bpow radix2 n) by ring.
      apply Rmult_le_compat_r; lra.
    - replace ((1 + z) * bpow radix2 n * (1 + q45)) with ((1 + z) * (1 + q45) * bpow radix2 n) by ring.
      apply Rmult_le_compat_r; lra. }
  destruct (Rlt_le_dec (BR sp) 2) as [Hlt|Hge].
  - destruct (build_float64_normal n sp Hn F1 (conj (proj1 Bsp) Hlt)) as (Fb & Rb & Nb).
    split; [exact Fb|]. split; [exact Nb|]. apply Fin. exact Rb.
  - (* the significand reached 2: impossible in the last binade *)
    assert (Hn1 : (n <= 1022)%Z).
    { destruct (Z_le_gt_dec n 1022) as [H0|H0]; [exact H0|exfalso].
      assert (H1023 : 1023 <= BR t).
      { apply Rle_trans with (IZR n); [apply IZR_le; lia|apply Zfloor_lb]. }
      destruct (multiple_43_of_ge_512 t) as (k & Hk); [rewrite Rabs_pos_eq; lra|].
      (* the fraction is a multiple of 2^-43 below 1 *)
      assert (Hfr : us <= 1 - bpow radix2 (-43)).
      { assert (Ek : us = IZR (k - n * 2 ^ 43) * bpow radix2 (-43)).
        { rewrite minus_IZR, mult_IZR, Hk. change (IZR (2 ^ 43)) with (bpow radix2 43).
          rewrite Rmult_minus_distr_r, Rmult_assoc, <- bpow_plus. change (bpow radix2 (43 + -43)) with 1. ring. }
        assert (Hlt : (k - n * 2 ^ 43 < 2 ^ 43)%Z).
        { apply lt_IZR. apply Rmult_lt_reg_r with (bpow radix2 (-43)); [apply bpow_gt_0|].
          rewrite <- Ek. change (IZR (2 ^ 43)) with (bpow radix2 43). rewrite <- bpow_plus.
          change (bpow radix2 (43 + -43)) with 1. lra. }
        rewrite Ek. assert (Hle : (k - n * 2 ^ 43 <= 2 ^ 43 - 1)%Z) by lia.
        apply IZR_le in Hle. rewrite (minus_IZR (2 ^ 43) 1) in Hle. change (IZR (2 ^ 43)) with (bpow radix2 43) in Hle.
        apply Rle_trans with ((bpow radix2 43 - 1) * bpow radix2 (-43)).
        - apply Rmult_le_compat_r; [apply bpow_ge_0|exact Hle].
        - rewrite Rmult_minus_distr_r, <- bpow_plus. change (bpow radix2 (43 + -43)) with 1. lra. }
      change (bpow radix2 (-43)) with (/ 8796093022208) in Hfr.
      (* then s + 1 <= 2 - 2^-44 and the rounding stays below 2 *)
      assert (Hs : s + 1 <= 2 - / 17592186044416) by (unfold u53 in *; lra).
      assert (Hr : BR sp <= 2 - / 17592186044416).
      { rewrite R1. apply rndR_le'; [|exact Hs].
        replace (2 - / 17592186044416) with (IZR (2 ^ 45 - 1) * bpow radix2 (-44)).
        - apply generic_format_FLT. exists (Float radix2 (2 ^ 45 - 1) (-44)); [reflexivity| |].
          + vm_compute. reflexivity.
          + cbn [Fexp]. lia.
        - rewrite minus_IZR. change (IZR (2 ^ 45)) with 35184372088832. change (bpow radix2 (-44)) with (/ 17592186044416). lra. }
      lra. }
    destruct (build_float64_two n sp ltac:(lia) F1 (conj Hge (proj2 Bsp))) as (Fb & Rb & Nb).
    split; [exact Fb|]. split; [exact Nb|]. apply Fin. exact Rb.
Qed.
End CubInverse.

(* Q1: the premise of Mapping/GlueAccuracy.v, section 3, derived *)
Theorem cub_inverse_ok_proved (L : libm) (kc : R) :
  0 <= kc <= 32 -> sqrt_accurate L -> cbrt_accurate L kc -> floor_exact L -> cub_inverse_ok L.
Proof.
  intros Hkc HS HC HF t Ft Hn.
  destruct (cub_inverse_ok_at L kc Hkc HS HC HF t Ft Hn) as (F & N & B).
  split; [exact F|]. split; [exact N|exact B].
Qed.



(* ------------------------------------------------------------------ *)
(* E. the kind-generic argument of Mapping/GlueAccuracy.v, with the    *)
(*    inverse premise asked only at the arguments that are used        *)
(* ------------------------------------------------------------------ *)
Section GenAt.
Variable L : libm.
Variable k : mkind.
Variables (Lr Linvr : R -> R) (c : R).
Hypothesis HLL : LogLike Lr Linvr c.
Hypothesis Hc : 1 <= c.
Hypothesis Hfwd : forward_ok L k Lr.
Variable m : gmap.
Hypothesis Hm : reasonable k m.

Definition inv_at (j : Z) : Prop := inverse_ok_at L k Linvr (lower_arg m j).

Lemma lower_vs_ideal_at (j : Z) : (Z.abs j <= 2 ^ 53)%Z -> in_range m j -> inv_at j ->
  let tau := (IZR j - BR (gm_off m)) / BR (gm_mult m) in
  fin (gm_lower L m j) /\ pos_normal (gm_lower L m j) /\
  Linvr (tau - q41) * (1 - q45) <= BR (gm_lower L m j) <= Linvr (tau + q41) * (1 + q45).
Proof using HLL Hc Hm.
  intros Hj Hr Hat tau. destruct (lower_arg_err k m Hm j Hj) as (Ft & _).
  assert (K : gm_kind m = k) by (destruct Hm as (K & _); exact K).
  assert (El : gm_lower L m j = approx_inverse_log L k (lower_arg m j)).
  { unfold gm_lower, lower_arg. rewrite K. reflexivity. }
  rewrite El. destruct Hat as (Fl & Nl & Bl).
  remember (BR (lower_arg m j)) as t eqn:Et.
  assert (Bt : Rabs t <= 1024).
  { pose proof (Zfloor_lb t). pose proof (Zfloor_ub t). unfold in_range in Hr. rewrite <- Et in Hr.
    assert (-1022 <= IZR (Zfloor t) <= 1023) by (split; apply IZR_le; lia).
    apply Rabs_le. lra. }
  destruct (lower_arg_close k m Hm j Hj) as (_ & Ec); [rewrite <- Et; exact Bt|].
  rewrite <- Et in Ec. fold tau in Ec. apply Rabs_le_inv in Ec.
  split; [exact Fl|]. split; [exact Nl|].
  assert (Hq : 0 < q45 < / 1000) by (unfold q45; lra).
  pose proof (ll_inv_pos _ _ _ HLL (tau - q41)). pose proof (ll_inv_pos _ _ _ HLL t).
  pose proof (Linvr_le Lr Linvr c HLL (tau - q41) t ltac:(lra)).
  pose proof (Linvr_le Lr Linvr c HLL t (tau + q41) ltac:(lra)).
  split.
  - apply Rle_trans with (2 := proj1 Bl). apply Rmult_le_compat_r; lra.
  - apply Rle_trans with (1 := proj2 Bl). apply Rmult_le_compat_r; lra.
Qed.

Theorem gen_containment_at (v : f64) : pos_normal v ->
  let i := gm_index L m v in
  in_range m i -> in_range m (i + 1) -> inv_at i -> inv_at (i + 1) ->
  BR (gm_lower L m i) <= BR v * (1 + q38) /\ BR v <= BR (gm_lower L m (i + 1)) * (1 + q38).
Proof using HLL Hc Hfwd Hm.
  intros Hv i Ri Rj Ai Aj. pose proof (index_small L k Lr Hfwd m Hm v Hv) as Hi. fold i in Hi.
  destruct (index_brackets L k Lr Hfwd m Hm v Hv) as (B1 & B2 & _). fold i in B1, B2.
  destruct (Hfwd v Hv) as (Pv & _).
  destruct (lower_vs_ideal_at i ltac:(lia) Ri Ai) as (_ & _ & _ & Ui).
  destruct (lower_vs_ideal_at (i + 1) ltac:(lia) Rj Aj) as (_ & _ & Lj & _).
  rewrite plus_IZR in Lj. simpl (IZR 1) in Lj.
  remember ((IZR i - BR (gm_off m)) / BR (gm_mult m)) as ti.
  remember ((IZR i + 1 - BR (gm_off m)) / BR (gm_mult m)) as tj.
  remember (Lr (BR v)) as Lv eqn:ELv.
  assert (Ev : Linvr Lv = BR v) by (rewrite ELv; apply (ll_inv_L Lr Linvr c HLL); exact Pv).
  assert (Hq : 0 < q45 /\ 0 < q41 /\ 0 < q40 /\ q40 + q41 <= q38) by (unfold q45, q41, q40, q38; lra).
  assert (HE : exp (q40 + q41) <= 1 + 2 * (q40 + q41)) by (apply exp_small; lra).
  split.
  - pose proof (Linvr_le Lr Linvr c HLL (ti + q41) (Lv + q40 + q41) ltac:(lra)) as H1.
    pose proof (Linvr_exp Lr Linvr c HLL Hc Lv (Lv + q40 + q41) ltac:(lra)) as H2.
    replace (Lv + q40 + q41 - Lv) with (q40 + q41) in H2 by ring. rewrite Ev in H2.
    apply Rle_trans with (1 := Ui).
    apply Rle_trans with (BR v * (1 + 2 * (q40 + q41)) * (1 + q45)).
    + apply Rmult_le_compat_r; [lra|]. apply Rle_trans with (1 := H1). apply Rle_trans with (1 := H2).
      apply Rmult_le_compat_l; lra.
    + rewrite Rmult_assoc. apply Rmult_le_compat_l; [lra|]. unfold q45, q41, q40, q38. lra.
  - pose proof (Linvr_le Lr Linvr c HLL Lv (tj + q40) ltac:(lra)) as H1. rewrite Ev in H1.
    pose proof (Linvr_exp Lr Linvr c HLL Hc (tj - q41) (tj + q40) ltac:(lra)) as H2.
    replace (tj + q40 - (tj - q41)) with (q40 + q41) in H2 by ring.
    pose proof (ll_inv_pos _ _ _ HLL (tj - q41)) as Pj.
    set (A := Linvr (tj - q41)) in *. set (lo := BR (gm_lower L m (i + 1))) in *.
    assert (H3 : BR v <= A * (1 + 2 * (q40 + q41))).
    { apply Rle_trans with (1 := H1). apply Rle_trans with (1 := H2). apply Rmult_le_compat_l; lra. }
    assert (H4 : (1 + 2 * (q40 + q41)) <= (1 - q45) * (1 + q38)) by (unfold q45, q41, q40, q38; lra).
    apply Rle_trans with (1 := H3).
    apply Rle_trans with (A * ((1 - q45) * (1 + q38))); [apply Rmult_le_compat_l; lra|].
    rewrite <- Rmult_assoc. apply Rmult_le_compat_r; [unfold q38; lra|exact Lj].
Qed.

Theorem gen_bin_ratio_at (i : Z) : (Z.abs i < 2 ^ 53)%Z -> in_range m i -> in_range m (i + 1) ->
  inv_at i -> inv_at (i + 1) ->
  BR (gm_lower L m (i + 1)) <= BR (gm_lower L m i) * exp (1 / (c * BR (gm_mult m))) * (1 + q38).
Proof using HLL Hc Hm.
  intros Hi Ri Rj Ai Aj.
  destruct (lower_vs_ideal_at i ltac:(lia) Ri Ai) as (_ & _ & Li & _).
  destruct (lower_vs_ideal_at (i + 1) ltac:(lia) Rj Aj) as (_ & _ & _ & Uj).
  rewrite plus_IZR in Uj. simpl (IZR 1) in Uj.
  destruct Hm as (_ & _ & _ & BM & _).
  remember (BR (gm_mult m)) as M eqn:EM. remember (BR (gm_off m)) as O eqn:EO.
  assert (Et : (IZR i + 1 - O) / M = (IZR i - O) / M + 1 / M) by (field; lra).
  rewrite Et in Uj. remember ((IZR i - O) / M) as ti.
  assert (Hq : 0 < q45 < / 1000 /\ 0 < q41 /\ 2 * q41 <= q38) by (unfold q45, q41, q38; lra).
  assert (HM : 0 < 1 / M) by (apply Rdiv_lt_0_compat; lra).
  pose proof (Linvr_exp_c Lr Linvr c HLL Hc (ti - q41) (ti + 1 / M + q41) ltac:(lra)) as H2.
  replace ((ti + 1 / M + q41 - (ti - q41)) / c) with (1 / (c * M) + 2 * q41 / c) in H2 by (field; lra).
  rewrite exp_plus in H2.
  assert (HE : exp (2 * q41 / c) <= 1 + 2 * (2 * q41)).
  { apply Rle_trans with (exp (2 * q41)); [|apply exp_small; lra].
    apply exp_le_mono. apply div_le_intro; [lra|]. nra. }
  pose proof (ll_inv_pos _ _ _ HLL (ti - q41)) as Pj. pose proof (exp_pos (1 / (c * M))) as PG.
  set (A := Linvr (ti - q41)) in *. set (G := exp (1 / (c * M))) in *.
  set (lo := BR (gm_lower L m i)) in *.
  apply Rle_trans with (1 := Uj).
  apply Rle_trans with (A * (G * (1 + 4 * q41)) * (1 + q45)).
  - apply Rmult_le_compat_r; [lra|]. apply Rle_trans with (1 := H2).
    apply Rmult_le_compat_l; [lra|]. apply Rmult_le_compat_l; lra.
  - assert (H4 : (1 + 4 * q41) * (1 + q45) <= (1 - q45) * (1 + q38)) by (unfold q45, q41, q38; lra).
    apply Rle_trans with (A * (1 - q45) * G * (1 + q38)).
    + replace (A * (G * (1 + 4 * q41)) * (1 + q45)) with (A * G * ((1 + 4 * q41) * (1 + q45))) by ring.
      replace (A * (1 - q45) * G * (1 + q38)) with (A * G * ((1 - q45) * (1 + q38))) by ring.
      apply Rmult_le_compat_l; [apply Rmult_le_pos; lra|exact H4].
    + apply Rmult_le_compat_r; [unfold q38; lra|]. apply Rmult_le_compat_r; [lra|exact Li].
Qed.

Theorem gen_value_accuracy_at (g0 eF : R) (v : f64) :
  exp (1 / (c * BR (gm_mult m))) <= g0 <= 4 -> 0 <= eF <= / 8 -> value_factor_ok L m g0 eF ->
  pos_normal v ->
  let i := gm_index L m v in
  in_range m i -> in_range m (i + 1) -> inv_at i -> inv_at (i + 1) -> fin (gm_value L m i) ->
  Rabs (BR (gm_value L m i) - BR v) <= (alpha_of g0 + eF + q35) * BR v.
Proof using HLL Hc Hfwd Hm.
  intros Hg HeF (FF & F1 & EF) Hv i Ri Rj Ai Aj FV.
  pose proof (index_small L k Lr Hfwd m Hm v Hv) as Hi. fold i in Hi.
  destruct (gen_containment_at v Hv Ri Rj Ai Aj) as (K1 & K2). fold i in K1, K2.
  pose proof (gen_bin_ratio_at i ltac:(lia) Ri Rj Ai Aj) as K3.
  destruct (lower_vs_ideal_at i ltac:(lia) Ri Ai) as (Fl & (_ & Nl) & _).
  destruct (Hfwd v Hv) as (Pv & _).
  destruct Hm as (_ & _ & _ & BM & _).
  assert (HG : 1 < exp (1 / (c * BR (gm_mult m)))).
  { pose proof (exp_ineq1_le (1 / (c * BR (gm_mult m)))) as He.
    assert (0 < 1 / (c * BR (gm_mult m))) by (apply Rdiv_lt_0_compat; nra). lra. }
  pose proof (bpow_gt_0 radix2 (-1022)) as Hp.
  unfold gm_value in *. rewrite (fmul_R _ _ FV).
  set (lo := BR (gm_lower L m i)) in *. set (F := BR (fadd f64_one (gm_accuracy L m))) in *.
  apply (accuracy_algebra (BR v) lo (BR (gm_lower L m (i + 1))) F (rndR (lo * F)) g0 eF);
    try assumption; try lra.
  - apply Rle_trans with (1 := K3). apply Rmult_le_compat_r; [unfold q38; lra|].
    apply Rmult_le_compat_l; lra.
  - assert (Hx : bpow radix2 (-1022) <= Rabs (lo * F)).
    { rewrite Rabs_pos_eq by (apply Rmult_le_pos; lra).
      apply Rle_trans with (lo * 1); [lra|apply Rmult_le_compat_l; lra]. }
    pose proof (rndR_err_normal (lo * F) Hx) as E.
    rewrite (Rabs_pos_eq (lo * F)) in E by (apply Rmult_le_pos; lra). exact E.
Qed.
(* Value (Index v) needs the inverse at the index itself only: the upper neighbour is replaced by the
   ideal inverse, so nothing is asked of LowerBound (i + 1) (which may be +Inf in the last binade) *)
Lemma gen_v_le_lower_at (v : f64) : pos_normal v ->
  let i := gm_index L m v in
  in_range m i -> inv_at i ->
  BR v <= BR (gm_lower L m i) * exp (1 / (c * BR (gm_mult m))) * (1 + q38).
Proof using HLL Hc Hfwd Hm.
  intros Hv i Ri Ai. pose proof (index_small L k Lr Hfwd m Hm v Hv) as Hi. fold i in Hi.
  destruct (index_brackets L k Lr Hfwd m Hm v Hv) as (_ & B2 & _). fold i in B2.
  destruct (Hfwd v Hv) as (Pv & _).
  destruct (lower_vs_ideal_at i ltac:(lia) Ri Ai) as (_ & _ & Li & _).
  destruct Hm as (_ & _ & _ & BM & _).
  remember (BR (gm_mult m)) as M eqn:EM. remember (BR (gm_off m)) as O eqn:EO.
  assert (Et : (IZR i + 1 - O) / M = (IZR i - O) / M + 1 / M) by (field; lra).
  rewrite Et in B2. remember ((IZR i - O) / M) as ti.
  remember (Lr (BR v)) as Lv eqn:ELv.
  assert (Ev : Linvr Lv = BR v) by (rewrite ELv; apply (ll_inv_L Lr Linvr c HLL); exact Pv).
  assert (Hq : 0 < q45 < / 1000 /\ 0 < q41 /\ 0 < q40 /\ q40 + q41 <= q38) by (unfold q45, q41, q40, q38; lra).
  assert (HM : 0 < 1 / M) by (apply Rdiv_lt_0_compat; lra).
  pose proof (Linvr_le Lr Linvr c HLL Lv (ti + 1 / M + q40) ltac:(lra)) as H1. rewrite Ev in H1.
  pose proof (Linvr_exp_c Lr Linvr c HLL Hc (ti - q41) (ti + 1 / M + q40) ltac:(lra)) as H2.
  replace ((ti + 1 / M + q40 - (ti - q41)) / c) with (1 / (c * M) + (q40 + q41) / c) in H2 by (field; lra).
  rewrite exp_plus in H2.
  assert (HE : exp ((q40 + q41) / c) <= 1 + 2 * (q40 + q41)).
  { apply Rle_trans with (exp (q40 + q41)); [|apply exp_small; lra].
    apply exp_le_mono. apply div_le_intro; [lra|]. nra. }
  pose proof (ll_inv_pos _ _ _ HLL (ti - q41)) as Pj. pose proof (exp_pos (1 / (c * M))) as PG.
  set (A := Linvr (ti - q41)) in *. set (G := exp (1 / (c * M))) in *.
  set (lo := BR (gm_lower L m i)) in *.
  apply Rle_trans with (1 := H1). apply Rle_trans with (1 := H2).
  apply Rle_trans with (A * (G * (1 + 2 * (q40 + q41)))).
  - apply Rmult_le_compat_l; [lra|]. apply Rmult_le_compat_l; lra.
  - assert (H4 : 1 + 2 * (q40 + q41) <= (1 - q45) * (1 + q38)) by (unfold q45, q41, q40, q38; lra).
    apply Rle_trans with (A * (1 - q45) * G * (1 + q38)).
    + replace (A * (G * (1 + 2 * (q40 + q41)))) with (A * G * (1 + 2 * (q40 + q41))) by ring.
      replace (A * (1 - q45) * G * (1 + q38)) with (A * G * ((1 - q45) * (1 + q38))) by ring.
      apply Rmult_le_compat_l; [apply Rmult_le_pos; lra|exact H4].
    + apply Rmult_le_compat_r; [unfold q38; lra|]. apply Rmult_le_compat_r; [lra|exact Li].
Qed.

Lemma gen_lower_le_at (v : f64) : pos_normal v ->
  let i := gm_index L m v in
  in_range m i -> inv_at i ->
  fin (gm_lower L m i) /\ bpow radix2 (-1022) <= BR (gm_lower L m i) /\ BR (gm_lower L m i) <= BR v * (1 + q38).
Proof using HLL Hc Hfwd Hm.
  intros Hv i Ri Ai. pose proof (index_small L k Lr Hfwd m Hm v Hv) as Hi. fold i in Hi.
  destruct (index_brackets L k Lr Hfwd m Hm v Hv) as (B1 & _ & _). fold i in B1.
  destruct (Hfwd v Hv) as (Pv & _).
  destruct (lower_vs_ideal_at i ltac:(lia) Ri Ai) as (Fl & (_ & Nl) & _ & Ui).
  split; [exact Fl|]. split; [exact Nl|].
  remember ((IZR i - BR (gm_off m)) / BR (gm_mult m)) as ti.
  remember (Lr (BR v)) as Lv eqn:ELv.
  assert (Ev : Linvr Lv = BR v) by (rewrite ELv; apply (ll_inv_L Lr Linvr c HLL); exact Pv).
  assert (Hq : 0 < q45 /\ 0 < q41 /\ 0 < q40 /\ q40 + q41 <= q38) by (unfold q45, q41, q40, q38; lra).
  assert (HE : exp (q40 + q41) <= 1 + 2 * (q40 + q41)) by (apply exp_small; lra).
  pose proof (Linvr_le Lr Linvr c HLL (ti + q41) (Lv + q40 + q41) ltac:(lra)) as H1.
  pose proof (Linvr_exp Lr Linvr c HLL Hc Lv (Lv + q40 + q41) ltac:(lra)) as H2.
  replace (Lv + q40 + q41 - Lv) with (q40 + q41) in H2 by ring. rewrite Ev in H2.
  apply Rle_trans with (1 := Ui).
  apply Rle_trans with (BR v * (1 + 2 * (q40 + q41)) * (1 + q45)).
  + apply Rmult_le_compat_r; [lra|]. apply Rle_trans with (1 := H1). apply Rle_trans with (1 := H2).
    apply Rmult_le_compat_l; lra.
  + rewrite Rmult_assoc. apply Rmult_le_compat_l; [lra|]. unfold q45, q41, q40, q38. lra.
Qed.

Theorem gen_value_accuracy_at1 (g0 eF : R) (v : f64) :
  exp (1 / (c * BR (gm_mult m))) <= g0 <= 4 -> 0 <= eF <= / 8 -> value_factor_ok L m g0 eF ->
  pos_normal v ->
  let i := gm_index L m v in
  in_range m i -> inv_at i -> fin (gm_value L m i) ->
  Rabs (BR (gm_value L m i) - BR v) <= (alpha_of g0 + eF + q35) * BR v.
Proof using HLL Hc Hfwd Hm.
  intros Hg HeF (FF & F1 & EF) Hv i Ri Ai FV.
  destruct (gen_lower_le_at v Hv Ri Ai) as (Fl & Nl & K1). fold i in Fl, Nl, K1.
  pose proof (gen_v_le_lower_at v Hv Ri Ai) as K3. fold i in K3.
  destruct (Hfwd v Hv) as (Pv & _).
  destruct Hm as (_ & _ & _ & BM & _).
  assert (HG : 1 < exp (1 / (c * BR (gm_mult m)))).
  { pose proof (exp_ineq1_le (1 / (c * BR (gm_mult m)))) as He.
    assert (0 < 1 / (c * BR (gm_mult m))) by (apply Rdiv_lt_0_compat; nra). lra. }
  pose proof (bpow_gt_0 radix2 (-1022)) as Hp.
  unfold gm_value in *. rewrite (fmul_R _ _ FV).
  set (lo := BR (gm_lower L m i)) in *. set (F := BR (fadd f64_one (gm_accuracy L m))) in *.
  assert (Hq : 0 < q38 < / 1000) by (unfold q38; lra).
  assert (P2 : BR v <= BR v / (1 + q38) * (1 + q38)) by (right; field; lra).
  assert (P3 : BR v / (1 + q38) <= lo * g0 * (1 + q38)).
  { apply div_le_intro; [lra|]. apply Rle_trans with (1 := K3).
    assert (T : lo * exp (1 / (c * BR (gm_mult m))) <= lo * g0) by (apply Rmult_le_compat_l; lra).
    assert (T0 : 0 <= lo * g0) by (apply Rmult_le_pos; lra).
    apply Rle_trans with (lo * g0 * (1 + q38)); [apply Rmult_le_compat_r; lra|].
    rewrite <- (Rmult_1_r (lo * g0 * (1 + q38))) at 1.
    apply Rmult_le_compat_l; [apply Rmult_le_pos; lra|lra]. }
  assert (P4 : Rabs (rndR (lo * F) - lo * F) <= u53 * (lo * F)).
  { assert (Hx : bpow radix2 (-1022) <= Rabs (lo * F)).
    { rewrite Rabs_pos_eq by (apply Rmult_le_pos; lra).
      apply Rle_trans with (lo * 1); [lra|apply Rmult_le_compat_l; lra]. }
    pose proof (rndR_err_normal (lo * F) Hx) as E.
    rewrite (Rabs_pos_eq (lo * F)) in E by (apply Rmult_le_pos; lra). exact E. }
  exact (accuracy_algebra (BR v) lo (BR v / (1 + q38)) F (rndR (lo * F)) g0 eF Pv ltac:(lra) ltac:(lra) HeF
           K1 P2 P3 F1 EF P4).
Qed.

Theorem gen_value_accuracy_Qc_at1 (g0 eF : R) (alpha : Qc) (v : f64) :
  exp (1 / (c * BR (gm_mult m))) <= g0 <= 4 -> 0 <= eF <= / 8 -> value_factor_ok L m g0 eF ->
  alpha_of g0 + eF + q35 <= qR alpha ->
  pos_normal v ->
  let i := gm_index L m v in
  in_range m i -> inv_at i -> fin (gm_value L m i) ->
  (Qcabs (f2q (gm_value L m i) - f2q v) <= alpha * f2q v)%Qc.
Proof using HLL Hc Hfwd Hm.
  intros Hg HeF HV Ha Hv i Ri Ai FV.
  pose proof (gen_value_accuracy_at1 g0 eF v Hg HeF HV Hv Ri Ai FV) as H. fold i in H.
  destruct (Hfwd v Hv) as (Pv & _). destruct Hv as (Fv & _).
  apply Rabs_le_inv in H.
  assert (Hb : (alpha_of g0 + eF + q35) * BR v <= qR alpha * BR v) by (apply Rmult_le_compat_r; lra).
  apply Qcabs_Qcle_condition. split; apply qR_le.
  - rewrite qR_opp, qR_mult, qR_minus, !f2q_B2R by assumption. lra.
  - rewrite qR_mult, qR_minus, !f2q_B2R by assumption. lra.
Qed.
End GenAt.


(* ------------------------------------------------------------------ *)
(* F. NewCubicallyInterpolatedMappingWithGamma: multiplier, factor     *)
(* ------------------------------------------------------------------ *)
Definition c_7_10ln2r : R := 4548124593989759 / 4503599627370496.
Definition c_10ln2_7r : R := 8919021097379085 / 9007199254740992.
Definition c_07r : R := 3152519739159347 / 4503599627370496.

Lemma c_7_10ln2_BR : BR c_7_10ln2 = c_7_10ln2r.
Proof. unfold c_7_10ln2. br_fb. change (bpow radix2 (-52)) with (/ 4503599627370496). unfold c_7_10ln2r. lra. Qed.
Lemma c_10ln2_7_BR : BR c_10ln2_7 = c_10ln2_7r.
Proof. unfold c_10ln2_7. br_fb. change (bpow radix2 (-53)) with (/ 9007199254740992). unfold c_10ln2_7r. lra. Qed.
Lemma c_07_BR : BR c_07 = c_07r.
Proof. unfold c_07. br_fb. change (bpow radix2 (-53)) with (/ 9007199254740992). unfold c_07r. lra. Qed.
Lemma cub_consts2_fin : fin c_7_10ln2 /\ fin c_10ln2_7 /\ fin c_07.
Proof. repeat split; reflexivity. Qed.

Lemma c_7_10ln2r_close : 7 / 10 <= c_7_10ln2r * ln 2 <= 7 / 10 + u53.
Proof. pose proof ln2_enclosure as H. unfold ln2_lo, ln2_hi, c_7_10ln2r, u53 in *. lra. Qed.
Lemma c_10ln2_7r_close : 10 / 7 * ln 2 <= c_10ln2_7r <= 10 / 7 * ln 2 * (1 + u53).
Proof. pose proof ln2_enclosure as H. unfold ln2_lo, ln2_hi, c_10ln2_7r, u53 in *. lra. Qed.

(* exp on [0, 0.6867] stays below 1.99 *)
Lemma exp_le_199 (x : R) : x <= 6867 / 10000 -> exp x <= 199 / 100.
Proof.
  intros Hx. apply Rle_trans with (exp (6867 / 10000)); [apply exp_le_mono; exact Hx|].
  pose proof exp_ln2_lo as H2. fold ln2_lo in H2.
  set (d := ln2_lo - 6867 / 10000).
  assert (Hd : 64 / 10000 <= d) by (unfold d, ln2_lo; lra).
  replace (6867 / 10000) with (ln2_lo + - d) by (unfold d; ring). rewrite exp_plus.
  pose proof (exp_pos ln2_lo) as P1. pose proof (exp_pos (- d)) as P2.
  assert (E : exp (- d) * (1 + d) <= 1).
  { pose proof (exp_ineq1_le d) as H. rewrite exp_Ropp.
    apply Rmult_le_reg_l with (exp d); [apply exp_pos|].
    rewrite <- Rmult_assoc, Rinv_r, Rmult_1_l, Rmult_1_r by (pose proof (exp_pos d); lra). exact H. }
  nra.
Qed.

Definition lminc : R := 7 / 1000000.      (* log2 gamma >= 7e-6: relative accuracy >= 2.5e-6 *)

Section CubFromGamma.
Variable L : libm.
Variable k : R.
Hypothesis HL : libm_ok L k.
Variable g : f64.
Hypothesis Fg : fin g.
Hypothesis Hlam : lminc <= ln (BR g) / ln 2 <= 98 / 100.
Hypothesis Hg1 : 1 <= BR g <= 2.

Local Notation lam := (ln (BR g) / ln 2).
Local Notation ell := (BR (l_log2 L g)).
Local Notation ku := (k * u53).

Lemma cell_props : fin (l_log2 L g) /\ Rabs (ell - lam) <= ku /\ 699 / 100000000 <= ell <= 981 / 1000.
Proof using HL Fg Hlam Hg1.
  destruct (lo_log2 _ _ HL g Fg Hg1) as (F & E).
  pose proof (ku_small L k HL) as Hk. unfold lminc in Hlam.
  split; [exact F|]. split; [exact E|]. apply Rabs_le_inv in E. lra.
Qed.

(* the ideal bin ratio bound exp (ell / (10/7)) *)
Definition Gc : R := exp (7 / 10 * ell).

Lemma Gc_props : 1 + 7 / 10 * ell <= Gc /\ Gc <= 199 / 100 /\
  exp (7 / 10 * lam) * (1 - ku) <= Gc <= exp (7 / 10 * lam) * (1 + 2 * ku).
Proof using HL Fg Hlam Hg1.
  destruct cell_props as (_ & E & B). apply Rabs_le_inv in E. pose proof (ku_small L k HL) as Hk.
  unfold Gc. pose proof (exp_pos (7 / 10 * lam)) as Pl.
  split; [apply exp_ineq1_le|]. split; [apply exp_le_199; lra|].
  replace (7 / 10 * ell) with (7 / 10 * lam + 7 / 10 * (ell - lam)) by ring. rewrite exp_plus. split.
  - apply Rmult_le_compat_l; [lra|]. apply Rle_trans with (2 := exp_ineq1_le _). lra.
  - apply Rmult_le_compat_l; [lra|]. apply Rle_trans with (exp ku); [apply exp_le_mono; lra|].
    apply exp_le_1p2x. lra.
Qed.

Lemma cmult_props :
  fin (multf L g) /\ 1 <= BR (multf L g) <= 262144 /\
  ell * (1 - u53) <= 1 / BR (multf L g) <= ell * (1 + 2 * u53) /\
  exp (1 / (10 / 7 * BR (multf L g))) <= Gc * (1 + 4 * u53).
Proof using HL Fg Hlam Hg1.
  destruct cell_props as (Fl & _ & B).
  assert (Hi : 1 <= 1 / ell <= 262144).
  { split.
    - apply le_div_intro; lra.
    - apply div_le_intro; lra. }
  destruct (fdiv_bounded f64_one (l_log2 L g) f64_one_fin) as (Fm & Rm).
  { lra. }
  { rewrite f64_one_BR. apply (small_le_max 262144); [lia|].
    rewrite Rabs_pos_eq by lra. simpl. lra. }
  rewrite f64_one_BR in Rm. fold (multf L g) in Fm, Rm.
  assert (M1 : 1 <= BR (multf L g)).
  { rewrite Rm. apply rndR_ge; [apply (fmt_IZR 1); lia|lra]. }
  assert (M2 : BR (multf L g) <= 262144).
  { rewrite Rm. apply rndR_le'; [apply (fmt_IZR 262144); lia|lra]. }
  assert (Er : Rabs (BR (multf L g) - 1 / ell) <= u53 * (1 / ell)).
  { rewrite Rm.
    assert (Hn : bpow radix2 (-1022) <= Rabs (1 / ell)).
    { rewrite Rabs_pos_eq by lra. apply Rle_trans with (bpow radix2 0); [apply bpow_le; lia|].
      change (bpow radix2 0) with 1. lra. }
    pose proof (rndR_err_normal (1 / ell) Hn) as E. rewrite (Rabs_pos_eq (1 / ell)) in E by lra. exact E. }
  apply Rabs_le_inv in Er.
  assert (Hu : 0 < u53 < / 1000) by (unfold u53; lra).
  set (M := BR (multf L g)) in *. set (r := 1 / ell) in *.
  assert (Er' : ell = 1 / r) by (unfold r; field; lra).
  assert (I1 : ell * (1 - u53) <= 1 / M).
  { apply le_div_intro; [lra|]. rewrite Er'. unfold Rdiv. rewrite Rmult_1_l.
    apply Rmult_le_reg_l with r; [lra|]. rewrite <- !Rmult_assoc, Rinv_r, Rmult_1_l by lra. nra. }
  assert (I2 : 1 / M <= ell * (1 + 2 * u53)).
  { apply div_le_intro; [lra|]. rewrite Er'. unfold Rdiv. rewrite Rmult_1_l.
    apply Rmult_le_reg_l with r; [lra|]. rewrite <- !Rmult_assoc, Rinv_r, Rmult_1_l by lra. nra. }
  split; [exact Fm|]. split; [lra|]. split; [lra|].
  replace (1 / (10 / 7 * M)) with (7 / 10 * (1 / M)) by (field; lra).
  apply Rle_trans with (exp (7 / 10 * (ell * (1 + 2 * u53)))); [apply exp_le_mono; lra|].
  replace (7 / 10 * (ell * (1 + 2 * u53))) with (7 / 10 * ell + 7 / 10 * (2 * u53 * ell)) by ring.
  rewrite exp_plus. fold Gc.
  pose proof (exp_pos (7 / 10 * ell)). apply Rmult_le_compat_l; [unfold Gc; lra|].
  apply Rle_trans with (1 + 2 * (7 / 10 * (2 * u53 * ell))); [apply exp_le_1p2x; nra|nra].
Qed.

(* 1 + RelativeAccuracy() = 1 + (1 - 2 / (1 + math.Exp (0.7 * math.Log2 gamma))) *)
Definition factorc : f64 :=
  fadd f64_one (fsub f64_one (fdiv c_two (fadd f64_one (l_exp L (fmul c_07 (l_log2 L g)))))).

Lemma cfactor_props :
  fin factorc /\ 1 <= BR factorc /\
  Rabs (BR factorc - (1 + alpha_of (Gc * (1 + 4 * u53)))) <= (k + 13) * u53.
Proof using HL Fg Hlam Hg1.
  destruct cell_props as (Fl & _ & B). destruct Gc_props as (G1 & G2 & _).
  pose proof (ku_small L k HL) as Hk. destruct (lo_k _ _ HL) as (K0 & K1).
  destruct cub_consts2_fin as (_ & _ & F07).
  set (G := Gc) in *.
  (* x = 0.7 * ell *)
  destruct (fmul_bounded c_07 (l_log2 L g) F07 Fl) as (Fx & Rx).
  { rewrite c_07_BR. unfold c_07r. apply (small_le_max 1); [lia|]. apply Rabs_le. simpl (IZR 1). nra. }
  rewrite c_07_BR in Rx. set (x := BR (fmul c_07 (l_log2 L g))) in *.
  assert (Ex : Rabs (x - 7 / 10 * ell) <= 2 * u53).
  { assert (R0 : Rabs (x - c_07r * ell) <= u53 / 2).
    { rewrite Rx. apply rnd_err_1. unfold c_07r. apply Rabs_lt. nra. }
    apply Rabs_le_inv in R0. unfold c_07r, u53 in *. apply Rabs_le. nra. }
  apply Rabs_le_inv in Ex.
  assert (Bx : 0 <= x <= 69 / 100) by (unfold u53 in *; lra).
  assert (EG : G * (1 - 2 * u53) <= exp x <= G * (1 + 4 * u53)).
  { unfold G, Gc. replace x with (7 / 10 * ell + (x - 7 / 10 * ell)) by ring. rewrite exp_plus.
    pose proof (exp_pos (7 / 10 * ell)). split.
    - apply Rmult_le_compat_l; [lra|]. apply Rle_trans with (2 := exp_ineq1_le _). lra.
    - apply Rmult_le_compat_l; [lra|]. apply Rle_trans with (exp (2 * u53)); [apply exp_le_mono; lra|].
      apply Rle_trans with (1 + 2 * (2 * u53)); [apply exp_le_1p2x; unfold u53; lra|lra]. }
  unfold u53 in *.
  (* E = math.Exp x *)
  destruct (lo_exp _ _ HL _ Fx) as (FE & EE).
  { fold x. lra. }
  { fold x. pose proof (pow2_le (0 + 1) 1023 ltac:(lia)) as Hp. rewrite pow2_succ, pow2_0 in Hp. nra. }
  fold x in EE.
  set (E := BR (l_exp L (fmul c_07 (l_log2 L g)))) in *.
  assert (PX : 0 < exp x <= 2) by (split; [apply exp_pos|nra]).
  assert (EE' : Rabs (E - exp x) <= k * / 9007199254740992 * 2).
  { apply Rle_trans with (1 := EE). apply Rmult_le_compat_l; [apply Rmult_le_pos; lra|lra]. }
  apply Rabs_le_inv in EE'.
  assert (EEG : Rabs (E - G) <= (2 * k + 8) * / 9007199254740992) by (apply Rabs_le; nra).
  apply Rabs_le_inv in EEG.
  assert (BE : 1 + / 1000000 <= E <= 2) by nra.
  (* s1 = 1 + E *)
  destruct (fadd_bounded f64_one _ f64_one_fin FE) as (F1 & R1).
  { rewrite f64_one_BR. fold E. apply (small_le_max 4); [lia|]. apply Rabs_le. simpl (IZR 4). lra. }
  rewrite f64_one_BR in R1. fold E in R1.
  set (s1f := fadd f64_one (l_exp L (fmul c_07 (l_log2 L g)))) in *.
  assert (E1 : Rabs (BR s1f - (1 + E)) <= bpow radix2 (2 - 54)).
  { rewrite R1. apply rndR_err_lt; [lia|]. change (bpow radix2 2) with 4. apply Rabs_lt. lra. }
  change (bpow radix2 (2 - 54)) with (/ 4503599627370496) in E1. apply Rabs_le_inv in E1.
  assert (S2 : 2 <= BR s1f).
  { rewrite R1. apply rndR_ge; [apply (fmt_IZR 2); lia|lra]. }
  (* d = 2 / s1 *)
  destruct (fdiv_bounded c_two s1f c_two_fin) as (F2 & R2).
  { lra. }
  { rewrite c_two_BR. apply (small_le_max 1); [lia|]. rewrite Rabs_pos_eq by (apply Rlt_le, Rdiv_lt_0_compat; lra).
    apply div_le_intro; lra. }
  rewrite c_two_BR in R2. set (df := fdiv c_two s1f) in *. set (s1 := BR s1f) in *.
  assert (Bd : 0 < 2 / s1 <= 1).
  { split; [apply Rdiv_lt_0_compat; lra|apply div_le_intro; lra]. }
  assert (E2 : Rabs (BR df - 2 / s1) <= bpow radix2 (1 - 54)).
  { rewrite R2. apply rndR_err_lt; [lia|]. change (bpow radix2 1) with 2. apply Rabs_lt. lra. }
  change (bpow radix2 (1 - 54)) with (/ 9007199254740992) in E2. apply Rabs_le_inv in E2.
  assert (D1 : 0 <= BR df <= 1).
  { rewrite R2. split.
    - apply rndR_ge; [apply (fmt_IZR 0); lia|lra].
    - apply rndR_le'; [apply (fmt_IZR 1); lia|lra]. }
  (* acc = 1 - d *)
  destruct (fsub_bounded f64_one df f64_one_fin F2) as (F3 & R3).
  { rewrite f64_one_BR. apply (small_le_max 1); [lia|]. apply Rabs_le. simpl (IZR 1). lra. }
  rewrite f64_one_BR in R3. set (accf := fsub f64_one df) in *. set (d := BR df) in *.
  assert (E3 : Rabs (BR accf - (1 - d)) <= bpow radix2 (1 - 54)).
  { rewrite R3. apply rndR_err_lt; [lia|]. change (bpow radix2 1) with 2. apply Rabs_lt. lra. }
  change (bpow radix2 (1 - 54)) with (/ 9007199254740992) in E3. apply Rabs_le_inv in E3.
  assert (A1 : 0 <= BR accf <= 1).
  { rewrite R3. split.
    - apply rndR_ge; [apply (fmt_IZR 0); lia|lra].
    - apply rndR_le'; [apply (fmt_IZR 1); lia|lra]. }
  (* F = 1 + acc *)
  destruct (fadd_bounded f64_one accf f64_one_fin F3) as (F4 & R4).
  { rewrite f64_one_BR. apply (small_le_max 2); [lia|]. apply Rabs_le. simpl (IZR 2). lra. }
  rewrite f64_one_BR in R4. set (acc := BR accf) in *.
  assert (E4 : Rabs (BR (fadd f64_one accf) - (1 + acc)) <= bpow radix2 (2 - 54)).
  { rewrite R4. apply rndR_err_lt; [lia|]. change (bpow radix2 2) with 4. apply Rabs_lt. lra. }
  change (bpow radix2 (2 - 54)) with (/ 4503599627370496) in E4. apply Rabs_le_inv in E4.
  assert (FF1 : 1 <= BR (fadd f64_one accf)).
  { rewrite R4. apply rndR_ge; [apply (fmt_IZR 1); lia|lra]. }
  change (fadd f64_one accf) with factorc in *.
  split; [exact F4|]. split; [exact FF1|].
  set (g0 := G * (1 + 4 * / 9007199254740992)).
  assert (HuG : 0 <= 4 * / 9007199254740992 * G <= 8 * / 9007199254740992).
  { split; [apply Rmult_le_pos; lra|].
    replace (8 * / 9007199254740992) with (4 * / 9007199254740992 * 2) by ring.
    apply Rmult_le_compat_l; lra. }
  assert (Eg0 : g0 = G + 4 * / 9007199254740992 * G) by (unfold g0; ring).
  assert (Hg0 : 1 <= g0 <= 2) by (rewrite Eg0; lra).
  assert (Ea : 1 + alpha_of g0 = 2 - 2 / (1 + g0)) by (unfold alpha_of; field; lra).
  rewrite Ea.
  pose proof (inv_diff (1 + g0) s1 ltac:(lra) S2) as ID.
  assert (Bs : Rabs (s1 - (1 + g0)) <= (2 * k + 18) * / 9007199254740992).
  { apply Rabs_le. rewrite Eg0. lra. }
  apply Rabs_le_inv in ID.
  assert (ID' : - ((2 * k + 18) * / 9007199254740992 / 2) <= 2 / (1 + g0) - 2 / s1 <= (2 * k + 18) * / 9007199254740992 / 2) by lra.
  apply Rabs_le. lra.
Qed.
End CubFromGamma.


(* ------------------------------------------------------------------ *)
(* G. the adjusted gamma, MinIndexableValue, MaxIndexableValue (cubic) *)
(* ------------------------------------------------------------------ *)
Section CubRange.
Variable L : libm.
Variable k : R.
Hypothesis HL : libm_ok L k.
Variable g : f64.
Hypothesis Fg : fin g.
Hypothesis Hlam : lminc <= ln (BR g) / ln 2 <= 98 / 100.
Hypothesis Hg1 : 1 <= BR g <= 2.
Variable off : f64.
Hypothesis Fo : fin off.
Hypothesis Bo : Rabs (BR off) <= 2048 * BR (multf L g).

Local Notation G := (Gc L g).
Local Notation lam := (ln (BR g) / ln 2).
Local Notation ell := (BR (l_log2 L g)).

(* adjustedGamma = math.Pow (gamma, 7 / (10 math.Ln2)) is the ideal bin ratio up to 2^-45 *)
Definition adjc : f64 := l_pow L g c_7_10ln2.

Lemma cadj_props : fin adjc /\ G * (1 - / 35184372088832) <= BR adjc <= G * (1 + / 35184372088832).
Proof using HL Fg Hlam Hg1.
  destruct cub_consts2_fin as (Fc & _).
  destruct (lo_pow _ _ HL g c_7_10ln2 Fg Fc) as (Fa & Ea).
  { lra. }
  { rewrite c_7_10ln2_BR. unfold c_7_10ln2r. lra. }
  rewrite c_7_10ln2_BR in Ea. fold adjc in Fa, Ea.
  destruct (cell_props L k HL g Fg Hlam Hg1) as (_ & El & Bl).
  pose proof (ku_small L k HL) as Hk.
  pose proof c_7_10ln2r_close as Hc. pose proof ln2_pos as H2.
  assert (Ep : Rpower (BR g) c_7_10ln2r = exp (c_7_10ln2r * ln 2 * lam)).
  { unfold Rpower. f_equal. field. lra. }
  rewrite Ep in Ea. set (w := c_7_10ln2r * ln 2) in *.
  assert (Hlam0 : 0 <= lam <= 1) by (unfold lminc in Hlam; lra).
  apply Rabs_le_inv in El.
  assert (Lw : 7 / 10 * ell - k * u53 <= w * lam) by nra.
  assert (Uw : w * lam <= 7 / 10 * ell + (k * u53 + u53)) by (unfold u53 in *; nra).
  pose proof (exp_pos (7 / 10 * ell)) as PG. change (exp (7 / 10 * ell)) with G in PG.
  assert (LE : G * (1 - k * u53) <= exp (w * lam)).
  { apply Rle_trans with (exp (7 / 10 * ell - k * u53)); [|apply exp_le_mono; exact Lw].
    unfold Rminus. rewrite exp_plus. change (exp (7 / 10 * ell)) with G. apply Rmult_le_compat_l; [lra|].
    pose proof (exp_ineq1_le (- (k * u53))). lra. }
  assert (UE : exp (w * lam) <= G * (1 + 2 * (k * u53 + u53))).
  { apply Rle_trans with (exp (7 / 10 * ell + (k * u53 + u53))); [apply exp_le_mono; exact Uw|].
    rewrite exp_plus. change (exp (7 / 10 * ell)) with G. apply Rmult_le_compat_l; [lra|].
    apply exp_le_1p2x. unfold u53 in *. lra. }
  destruct (Gc_props L k HL g Fg Hlam Hg1) as (G1 & G2 & _).
  set (X := exp (w * lam)) in *. apply Rabs_le_inv in Ea.
  assert (PX : 0 < X) by apply exp_pos.
  assert (KX : 0 <= k * u53 * X <= / 140737488355328 * X) by (split; [nra|apply Rmult_le_compat_r; lra]).
  split; [exact Fa|]. unfold u53 in *. split; nra.
Qed.

Definition minc : f64 :=
  fmax (l_exp2 L (fadd (fdiv (fsub c_min_int32 off) (multf L g)) f64_one)) (fmul c_min_normal adjc).
Definition maxc : f64 :=
  fmin (l_exp2 L (fsub (fdiv (fsub c_max_int32 off) (multf L g)) f64_one))
       (fmul (fdiv (l_exp L c_exp_overflow) (fmul c_two adjc)) (fadd adjc f64_one)).

Lemma cmin_props :
  fin minc /\ bpow radix2 (-1022) <= BR minc /\
  bpow radix2 (-1022) * BR adjc * (1 - u53) <= BR minc.
Proof using HL Fg Hlam Hg1 Fo Bo.
  destruct (cmult_props L k HL g Fg Hlam Hg1) as (Fm & BM & _).
  destruct cadj_props as (Fa & Ba).
  destruct (Gc_props L k HL g Fg Hlam Hg1) as (G1 & G2 & _).
  destruct (cell_props L k HL g Fg Hlam Hg1) as (_ & _ & Bl).
  destruct consts_fin as (_ & _ & _ & Fmi & _ & Fmn).
  set (M := BR (multf L g)) in *. set (O := BR off) in *. apply Rabs_le_inv in Bo.
  destruct (fsub_bounded c_min_int32 off Fmi Fo) as (F1 & R1).
  { rewrite c_min_int32_BR. fold O. apply (small_le_max 4294967296); [lia|]. apply Rabs_le. lra. }
  rewrite c_min_int32_BR in R1. fold O in R1.
  assert (B1 : -4294967296 <= BR (fsub c_min_int32 off) <= -1073741824).
  { rewrite R1. split.
    - apply rndR_ge; [apply (fmt_IZR (-4294967296)); lia|lra].
    - apply rndR_le'; [apply (fmt_IZR (-1073741824)); lia|lra]. }
  set (x1 := BR (fsub c_min_int32 off)) in *.
  assert (Q1 : -4294967296 <= x1 / M <= -2048).
  { split.
    - apply le_div_intro; [lra|]. nra.
    - apply div_le_intro; [lra|]. nra. }
  destruct (fdiv_bounded (fsub c_min_int32 off) (multf L g) F1) as (F2 & R2).
  { fold M. lra. }
  { fold x1 M. apply (small_le_max 4294967296); [lia|]. apply Rabs_le. lra. }
  fold x1 M in R2.
  assert (B2 : -4294967296 <= BR (fdiv (fsub c_min_int32 off) (multf L g)) <= -2048).
  { rewrite R2. split.
    - apply rndR_ge; [apply (fmt_IZR (-4294967296)); lia|lra].
    - apply rndR_le'; [apply (fmt_IZR (-2048)); lia|lra]. }
  destruct (fadd_bounded _ f64_one F2 f64_one_fin) as (F3 & R3).
  { rewrite f64_one_BR. apply (small_le_max 4294967296); [lia|]. apply Rabs_le. lra. }
  rewrite f64_one_BR in R3.
  assert (B3 : BR (fadd (fdiv (fsub c_min_int32 off) (multf L g)) f64_one) <= -1100).
  { rewrite R3. apply rndR_le'; [apply (fmt_IZR (-1100)); lia|lra]. }
  destruct (lo_exp2u _ _ HL _ F3 B3) as (Fe & Be).
  pose proof (bpow_gt_0 radix2 (-1022)) as Hp.
  assert (Ba' : 1 <= BR adjc <= 2) by (timeout 30 nra).
  destruct (fmul_bounded c_min_normal adjc Fmn Fa) as (Fy & Ry).
  { rewrite c_min_normal_BR'. apply Rle_trans with (bpow radix2 0); [|apply bpow_le_max; lia].
    rewrite Rabs_pos_eq by (timeout 30 nra).
    apply Rle_trans with (bpow radix2 (-1022) * 2); [nra|].
    apply Rle_trans with (bpow radix2 (-1022 + 1)); [rewrite bpow_plus; change (bpow radix2 1) with 2; lra|].
    apply bpow_le. lia. }
  rewrite c_min_normal_BR' in Ry.
  assert (Y1 : bpow radix2 (-1022) <= BR (fmul c_min_normal adjc)).
  { rewrite Ry. apply rndR_ge; [apply generic_format_bpow; unfold FLT_exp; lia|nra]. }
  assert (Y2 : bpow radix2 (-1022) * BR adjc * (1 - u53) <= BR (fmul c_min_normal adjc)).
  { rewrite Ry. set (x := bpow radix2 (-1022) * BR adjc).
    assert (Hx : bpow radix2 (-1022) <= Rabs x) by (unfold x; rewrite Rabs_pos_eq; nra).
    pose proof (rndR_err_normal x Hx) as E. rewrite (Rabs_pos_eq x) in E by (unfold x; nra).
    apply Rabs_le_inv in E. lra. }
  destruct (fmax_ge_r _ _ Fe Fy) as (Fmin & Bmin). fold minc in Fmin, Bmin.
  split; [exact Fmin|]. split; lra.
Qed.

(* MaxIndexableValue: finite, at most 2^1023 * 0.7072 * (1 + 1/adjustedGamma) *)
Lemma cmax_props :
  fin maxc /\ BR maxc <= bpow radix2 1023 * (7072 / 10000) * (1 + / BR adjc).
Proof using HL Fg Hlam Hg1 Fo Bo.
  destruct (cmult_props L k HL g Fg Hlam Hg1) as (Fm & BM & _).
  destruct cadj_props as (Fa & Ba).
  destruct (Gc_props L k HL g Fg Hlam Hg1) as (G1 & G2 & _).
  destruct (cell_props L k HL g Fg Hlam Hg1) as (_ & _ & Bl).
  destruct consts_fin as (_ & _ & Fov & _ & Fma & _).
  pose proof (ku_small L k HL) as Hk.
  set (M := BR (multf L g)) in *. set (O := BR off) in *. apply Rabs_le_inv in Bo.
  destruct (fsub_bounded c_max_int32 off Fma Fo) as (F1 & R1).
  { rewrite c_max_int32_BR. fold O. apply (small_le_max 4294967296); [lia|]. apply Rabs_le. lra. }
  rewrite c_max_int32_BR in R1. fold O in R1.
  assert (B1 : Rabs (BR (fsub c_max_int32 off)) <= 4294967296).
  { rewrite R1. apply (rndR_abs_le _ 4294967296); [lia|]. apply Rabs_le. lra. }
  set (x1 := BR (fsub c_max_int32 off)) in *. apply Rabs_le_inv in B1.
  assert (Q1 : Rabs (x1 / M) <= 4294967296).
  { apply Rabs_le. split.
    - apply le_div_intro; [lra|]. nra.
    - apply div_le_intro; [lra|]. nra. }
  destruct (fdiv_bounded (fsub c_max_int32 off) (multf L g) F1) as (F2 & R2).
  { fold M. lra. }
  { fold x1 M. apply (small_le_max 4294967296); [lia|exact Q1]. }
  fold x1 M in R2.
  assert (B2 : Rabs (BR (fdiv (fsub c_max_int32 off) (multf L g))) <= 4294967296).
  { rewrite R2. apply (rndR_abs_le _ 4294967296); [lia|exact Q1]. }
  apply Rabs_le_inv in B2.
  destruct (fsub_bounded _ f64_one F2 f64_one_fin) as (F3 & _).
  { rewrite f64_one_BR. apply (small_le_max 4294967297); [lia|]. apply Rabs_le. lra. }
  pose proof (lo_exp2s _ _ HL _ F3) as S2.
  pose proof exp_c_ov as Eov. rewrite <- bpow_pow2 in Eov.
  set (P := bpow radix2 1023) in *. assert (PP : 0 < P) by apply bpow_gt_0.
  destruct (lo_exp _ _ HL c_exp_overflow Fov) as (FE & EE).
  { rewrite c_exp_overflow_BR. unfold c_ovr. lra. }
  { rewrite c_exp_overflow_BR, <- bpow_pow2. fold P. nra. }
  rewrite c_exp_overflow_BR in EE. set (X := exp c_ovr) in *. assert (PX : 0 < X) by apply exp_pos.
  set (E := BR (l_exp L c_exp_overflow)) in *. apply Rabs_le_inv in EE.
  assert (KX : 0 <= k * u53 * X <= / 140737488355328 * X) by (split; [nra|apply Rmult_le_compat_r; lra]).
  assert (BE : 0 < E <= P * (141431 / 100000)) by (timeout 30 nra).
  set (A := BR adjc) in *. assert (BA : 1 <= A <= 1991 / 1000) by (timeout 30 nra).
  assert (Hu : 0 < u53 < / 1000000) by (unfold u53; lra).
  destruct (fmul_bounded c_two adjc c_two_fin Fa) as (Ft & Rt).
  { rewrite c_two_BR. fold A. apply (small_le_max 4); [lia|]. apply Rabs_le. lra. }
  rewrite c_two_BR in Rt. fold A in Rt.
  assert (Et : Rabs (BR (fmul c_two adjc) - 2 * A) <= u53 * (2 * A)).
  { rewrite Rt.
    assert (Hn : bpow radix2 (-1022) <= Rabs (2 * A)).
    { rewrite Rabs_pos_eq by lra. apply Rle_trans with (bpow radix2 0); [apply bpow_le; lia|].
      change (bpow radix2 0) with 1. lra. }
    pose proof (rndR_err_normal (2 * A) Hn) as Er. rewrite (Rabs_pos_eq (2 * A)) in Er by lra. exact Er. }
  set (TA := BR (fmul c_two adjc)) in *. apply Rabs_le_inv in Et.
  assert (BT : 2 * A * (1 - u53) <= TA <= 4) by (timeout 30 nra).
  destruct (fadd_bounded adjc f64_one Fa f64_one_fin) as (F5 & R5).
  { rewrite f64_one_BR. fold A. apply (small_le_max 4); [lia|]. apply Rabs_le. lra. }
  rewrite f64_one_BR in R5. fold A in R5.
  assert (E5 : Rabs (BR (fadd adjc f64_one) - (A + 1)) <= u53 * (A + 1)).
  { rewrite R5.
    assert (Hn : bpow radix2 (-1022) <= Rabs (A + 1)).
    { rewrite Rabs_pos_eq by lra. apply Rle_trans with (bpow radix2 0); [apply bpow_le; lia|].
      change (bpow radix2 0) with 1. lra. }
    pose proof (rndR_err_normal (A + 1) Hn) as Er. rewrite (Rabs_pos_eq (A + 1)) in Er by lra. exact Er. }
  set (A1 := BR (fadd adjc f64_one)) in *. apply Rabs_le_inv in E5.
  set (W := / A). assert (HW : W * A = 1) by (unfold W; field; lra).
  assert (BW : 1 / 2 <= W <= 1) by (split; nra).
  set (D := / TA). assert (HD : D * TA = 1) by (unfold D; field; nra).
  assert (PD : 0 < D) by (unfold D; apply Rinv_0_lt_compat; nra).
  assert (BD : D <= W * ((1 + 2 * u53) / 2)).
  { assert (D * (2 * A * (1 - u53)) <= 1).
    { apply Rle_trans with (D * TA); [apply Rmult_le_compat_l; lra|lra]. }
    assert (W * ((1 + 2 * u53) / 2) * (2 * A * (1 - u53)) >= 1).
    { replace (W * ((1 + 2 * u53) / 2) * (2 * A * (1 - u53))) with ((W * A) * ((1 + 2 * u53) * (1 - u53))) by field.
      rewrite HW. nra. }
    assert (0 < 2 * A * (1 - u53)) by (timeout 30 nra).
    apply Rmult_le_reg_r with (2 * A * (1 - u53)); lra. }
  assert (Bq : 0 <= E / TA <= P * (70717 / 100000) * W).
  { unfold Rdiv. fold D. split; [apply Rmult_le_pos; lra|].
    apply Rle_trans with (P * (141431 / 100000) * (W * ((1 + 2 * u53) / 2))).
    - apply Rmult_le_compat; lra.
    - rewrite Rmult_assoc. rewrite (Rmult_assoc P). apply Rmult_le_compat_l; [lra|]. nra. }
  destruct (fdiv_bounded (l_exp L c_exp_overflow) (fmul c_two adjc) FE) as (F6 & R6).
  { fold TA. nra. }
  { fold E TA. apply Rle_trans with (2 := max_3_1022). rewrite Rabs_pos_eq by lra.
    apply Rle_trans with (1 := proj2 Bq). unfold P. replace 1023%Z with (1 + 1022)%Z by lia.
    rewrite bpow_plus. change (bpow radix2 1) with 2. pose proof (bpow_gt_0 radix2 1022). nra. }
  fold E TA in R6.
  assert (Hq : Rabs (BR (fdiv (l_exp L c_exp_overflow) (fmul c_two adjc)) - E / TA) <= u53 * (E / TA) + u100).
  { rewrite R6. pose proof (rndR_err_rel (E / TA)) as Er. rewrite (Rabs_pos_eq (E / TA)) in Er by lra. exact Er. }
  set (Q := BR (fdiv (l_exp L c_exp_overflow) (fmul c_two adjc))) in *. apply Rabs_le_inv in Hq.
  assert (Hu100 : 0 < u100 < / 1000000) by (unfold u100; lra).
  assert (P1 : 2 <= P).
  { unfold P. apply Rle_trans with (bpow radix2 1); [change (bpow radix2 1) with 2; lra|apply bpow_le; lia]. }
  set (PW := P * W). assert (BPW : 1 <= PW <= P).
  { unfold PW. split.
    - apply Rle_trans with (2 * (1 / 2)); [lra|]. apply Rmult_le_compat; lra.
    - apply Rle_trans with (P * 1); [apply Rmult_le_compat_l; lra|lra]. }
  assert (Bq' : 0 <= E / TA <= 70717 / 100000 * PW).
  { split; [lra|]. apply Rle_trans with (1 := proj2 Bq). unfold PW. right. ring. }
  set (Rq := E / TA) in *.
  assert (BQ : - u100 <= Q <= 70718 / 100000 * PW) by (unfold u53, u100 in *; lra).
  assert (BA1 : 0 <= A1 <= (A + 1) * (1 + u53)).
  { split; [|lra]. assert (0 <= (A + 1) * (1 - u53)) by (apply Rmult_le_pos; lra). lra. }
  set (S := P + PW).
  assert (ES : PW * (A + 1) = S).
  { unfold S, PW. rewrite Rmult_plus_distr_l, Rmult_assoc, HW. ring. }
  assert (BS : 3 <= S <= 2 * P) by (unfold S; lra).
  assert (Up : Q * A1 <= 70718 / 100000 * (1 + u53) * S).
  { rewrite <- ES.
    replace (70718 / 100000 * (1 + u53) * (PW * (A + 1))) with ((70718 / 100000 * PW) * ((A + 1) * (1 + u53))) by ring.
    destruct (Rle_lt_dec 0 Q) as [Q0|Q0].
    - apply Rmult_le_compat; lra.
    - apply Rle_trans with 0.
      + rewrite <- (Rmult_0_l A1). apply Rmult_le_compat_r; lra.
      + apply Rmult_le_pos; [lra|]. apply Rmult_le_pos; lra. }
  assert (Lo : - (4 * u100) <= Q * A1).
  { assert (A1 <= 4) by (apply Rle_trans with (1 := proj2 BA1); unfold u53; nra).
    destruct (Rle_lt_dec 0 Q) as [Q0|Q0].
    - apply Rle_trans with 0; [lra|apply Rmult_le_pos; lra].
    - apply Rle_trans with (- u100 * 4); [lra|].
      apply Rle_trans with (- u100 * A1); [apply Rmult_le_compat_neg_l; lra|apply Rmult_le_compat_r; lra]. }
  assert (BQA : Rabs (Q * A1) <= 70719 / 100000 * S).
  { apply Rabs_le. unfold u53, u100 in *. lra. }
  assert (S3 : 70720 / 100000 * S <= 3 * bpow radix2 1022).
  { assert (P = 2 * bpow radix2 1022).
    { unfold P. replace 1023%Z with (1 + 1022)%Z by lia. rewrite bpow_plus. reflexivity. }
    pose proof (bpow_gt_0 radix2 1022). lra. }
  destruct (fmul_bounded _ _ F6 F5) as (F7 & R7).
  { fold Q A1. apply Rle_trans with (2 := max_3_1022). lra. }
  fold Q A1 in R7.
  assert (B7 : BR (fmul (fdiv (l_exp L c_exp_overflow) (fmul c_two adjc)) (fadd adjc f64_one))
               <= 7072 / 10000 * S).
  { rewrite R7. pose proof (rndR_err_rel (Q * A1)) as Er. apply Rabs_le_inv in Er.
    pose proof (Rle_abs (Q * A1)). unfold u53, u100 in *. lra. }
  destruct (fmin_le_r _ _ S2 F7) as (Fmax & Bmax). fold maxc in Fmax, Bmax.
  split; [exact Fmax|]. apply Rle_trans with (1 := Bmax). apply Rle_trans with (1 := B7).
  unfold S, PW, W. right. ring.
Qed.
End CubRange.


(* ------------------------------------------------------------------ *)
(* H. the margins at both ends of the indexable range (cubic)          *)
(* ------------------------------------------------------------------ *)
(* P s - (10/7) ln (1+s) grows quadratically near 0: this is the whole margin at MinIndexableValue *)
Lemma gcub_0 : MapCub.gcub 0 = 0.
Proof. unfold MapCub.gcub. rewrite MapCub.Pcub_0. replace (1 + 0) with 1 by ring. rewrite ln_1. ring. Qed.

Lemma gcub_quad (s : R) : 0 <= s <= / 100 -> s * s / 10 <= MapCub.gcub s.
Proof.
  intros Hs.
  pose (sqf := fun x : R => x * x / 10).
  pose (h := fun x : R => MapCub.gcub x - x * x / 10).
  pose (h' := fun x : R => MapCub.gcub' x - x / 5).
  assert (H : h 0 <= h s).
  { apply (nonneg_deriv_nondecr h h' 0 s (proj1 Hs)).
    - intros c Hc. unfold h, h'.
      apply (derivable_pt_lim_ext (MapCub.gcub - sqf)%F _ c (MapCub.gcub' c - c / 5)).
      + intros y. reflexivity.
      + reflexivity.
      + apply derivable_pt_lim_minus; [apply MapCub.gcub_deriv; lra|].
        apply (derivable_pt_lim_ext (mult_real_fct (/ 10) (fun y => y ^ 2)) sqf c (/ 10 * (INR 2 * c ^ Nat.pred 2))).
        * intros y. unfold mult_real_fct, sqf. simpl. field.
        * simpl. field.
        * apply derivable_pt_lim_scal. apply derivable_pt_lim_pow.
    - intros c Hc. unfold h', MapCub.gcub'.
      pose proof (MapCub.cubic_fact_eq c) as E.
      assert (Hp : 0 < 1 + c) by lra.
      assert (Q : MapCub.Pcub' c - 10 / 7 * / (1 + c) = 2 / 35 * (c * ((3 * c - 2) * (3 * c - 2))) * / (1 + c)).
      { apply Rmult_eq_reg_r with (1 + c); [|lra]. rewrite Rmult_minus_distr_r, E.
        rewrite !Rmult_assoc, Rinv_l by lra. ring. }
      rewrite Q.
      assert (Iv : / (1 + c) * (1 + c) = 1) by (apply Rinv_l; lra).
      assert (Pi : 0 < / (1 + c)) by (apply Rinv_0_lt_compat; exact Hp).
      assert (T : c / 5 * (1 + c) <= 2 / 35 * (c * ((3 * c - 2) * (3 * c - 2)))) by nra.
      apply Rmult_le_reg_r with (1 + c); [exact Hp|]. rewrite Rmult_0_l, Rmult_minus_distr_r.
      rewrite !Rmult_assoc, Iv. lra. }
  unfold h in H. rewrite gcub_0 in H. lra.
Qed.

Lemma gcub_ge (s l : R) : 0 <= l <= / 100 -> l <= s -> l * l / 10 <= MapCub.gcub s.
Proof.
  intros Hl Hs. apply Rle_trans with (1 := gcub_quad l Hl). apply MapCub.gcub_mono; lra.
Qed.

(* just above MinIndexableValue *)
Lemma margin_min_cub (ell G A iM : R) :
  G = exp (7 / 10 * ell) -> 699 / 100000000 <= ell <= 981 / 1000 ->
  G * (1 - / 35184372088832) <= A <= 1991 / 1000 -> iM <= ell * (1 + 2 * u53) ->
  0 <= A * (1 - u53) - 1 <= 1 /\ iM + q40 + q41 <= MapCub.Pcub (A * (1 - u53) - 1).
Proof.
  intros EG Bl BA BM. set (s0 := A * (1 - u53) - 1).
  assert (G1 : 1 + 7 / 10 * ell <= G) by (rewrite EG; apply exp_ineq1_le).
  assert (Hu : u53 = / 9007199254740992) by reflexivity.
  assert (B1 : G * (1 - / 17592186044416) <= 1 + s0) by (unfold s0; rewrite Hu; nra).
  assert (Hs0 : 69 / 100 * ell <= s0 <= 1) by (unfold s0 in *; rewrite Hu in *; nra).
  split; [lra|].
  assert (PG : 0 < G) by lra.
  assert (Ll : 7 / 10 * ell - / 8796093022208 <= ln (1 + s0)).
  { apply Rle_trans with (ln (G * (1 - / 17592186044416))); [|apply ln_le_mono; [nra|exact B1]].
    rewrite ln_mult by lra. rewrite EG, ln_exp.
    pose proof (ln_1p_ge' (- / 17592186044416) ltac:(lra)) as H.
    replace (1 + - / 17592186044416) with (1 - / 17592186044416) in H by ring.
    assert (- / 8796093022208 <= - / 17592186044416 / (1 - / 17592186044416)).
    { apply le_div_intro; lra. }
    lra. }
  assert (Hg : 2 / 1000000000000 <= MapCub.gcub s0).
  { destruct (Rle_lt_dec (69 / 100 * ell) (/ 100)) as [Hc|Hc].
    - apply Rle_trans with (2 := gcub_ge s0 (69 / 100 * ell) ltac:(lra) ltac:(lra)). nra.
    - apply Rle_trans with (2 := gcub_ge s0 (/ 100) ltac:(lra) ltac:(lra)). lra. }
  unfold MapCub.gcub in Hg. unfold q40, q41. rewrite Hu in *. lra.
Qed.

(* just below MaxIndexableValue *)
Lemma margin_max_cub (A : R) : 1 <= A <= 1991 / 1000 ->
  1 <= 7072 / 10000 * (1 + / A) <= 3 / 2 /\ MapCub.Pcub (7072 / 10000 * (1 + / A) - 1) <= 6 / 10.
Proof.
  intros BA. set (W := / A). assert (HW : W * A = 1) by (unfold W; field; lra).
  assert (BW : 502 / 1000 <= W <= 1) by (split; nra).
  split; [lra|].
  assert (Hm : MapCub.Pcub (7072 / 10000 * (1 + W) - 1) <= MapCub.Pcub (4144 / 10000)).
  { destruct (Req_dec W 1) as [->|Hn]; [right; f_equal; lra|].
    apply Rlt_le, MapCub.Pcub_incr. lra. }
  apply Rle_trans with (1 := Hm). unfold MapCub.Pcub, MapCub.cA, MapCub.cB, MapCub.cC. lra.
Qed.

Lemma L_cub_le (x y : R) : 0 < x -> x <= y -> MapCub.L_cub x <= MapCub.L_cub y.
Proof. intros Hx [H| ->]; [apply Rlt_le, MapCub.L_cub_incr; assumption|apply Rle_refl]. Qed.

Lemma div_plus_one (a o m : R) : (a + 1 - o) / m = (a - o) / m + 1 / m.
Proof. unfold Rdiv. ring. Qed.

Lemma L_cub_ge_bval (e : Z) (s x : R) : 0 <= s <= 1 -> bpow radix2 e * (1 + s) <= x ->
  IZR e + MapCub.Pcub s <= MapCub.L_cub x.
Proof.
  intros Hs Hx. change (IZR e + MapCub.Pcub s) with (MapCub.lcub e s).
  rewrite <- (MapCub.L_cub_bval e s) by exact Hs.
  apply L_cub_le; [apply bval_pos; lra|]. unfold bval. rewrite <- bpow_pow2. exact Hx.
Qed.
Lemma L_cub_le_bval (e : Z) (s x : R) : 0 <= s <= 1 -> 0 < x -> x <= bpow radix2 e * (1 + s) ->
  MapCub.L_cub x <= IZR e + MapCub.Pcub s.
Proof.
  intros Hs Px Hx. change (IZR e + MapCub.Pcub s) with (MapCub.lcub e s).
  rewrite <- (MapCub.L_cub_bval e s) by exact Hs.
  apply L_cub_le; [exact Px|]. unfold bval. rewrite <- bpow_pow2. exact Hx.
Qed.

(* ------------------------------------------------------------------ *)
(* I. NewCubicallyInterpolatedMappingWithGamma                         *)
(* ------------------------------------------------------------------ *)
Section CubWithGamma.
Variable L : libm.
Variable k : R.
Hypothesis HL : libm_ok L k.
Variable g : f64.
Hypothesis Fg : fin g.
Hypothesis Hlam : lminc <= ln (BR g) / ln 2 <= 98 / 100.
Hypothesis Hg1 : 1 <= BR g <= 2.
Variable off : f64.
Hypothesis Fo : fin off.
Hypothesis Bo : Rabs (BR off) <= 2048 * BR (multf L g).

Definition mk_cub : gmap :=
  {| gm_kind := MCub; gm_gamma := g; gm_off := off; gm_mult := multf L g;
     gm_min := minc L g off; gm_max := maxc L g off |}.

Lemma cgamma_gt_1 : 1 < BR g.
Proof using Hlam Hg1.
  destruct Hg1 as [[H|H] _]; [exact H|exfalso].
  destruct Hlam as (H1 & _). rewrite <- H, ln_1 in H1. unfold lminc, Rdiv in H1. rewrite Rmult_0_l in H1. lra.
Qed.

Lemma with_gamma_cub_eq : with_gamma L MCub g off = Some mk_cub.
Proof using Fg Hlam Hg1.
  unfold with_gamma.
  destruct (fle g f64_one) eqn:E.
  - apply (fle_spec g f64_one Fg f64_one_fin) in E. rewrite f64_one_BR in E. pose proof cgamma_gt_1. lra.
  - reflexivity.
Qed.

Lemma mk_cub_reasonable : reasonable MCub mk_cub.
Proof using HL Fg Hlam Hg1 Fo Bo.
  destruct (cmult_props L k HL g Fg Hlam Hg1) as (Fm & BM & _).
  unfold reasonable, mk_cub. cbn [gm_kind gm_mult gm_off]. repeat split; try assumption; lra.
Qed.

Definition g0c_of : R := Gc L g * (1 + 4 * u53).

Lemma mk_cub_g0 : exp (1 / (10 / 7 * BR (gm_mult mk_cub))) <= g0c_of <= 4.
Proof using HL Fg Hlam Hg1.
  destruct (cmult_props L k HL g Fg Hlam Hg1) as (_ & _ & _ & H).
  destruct (Gc_props L k HL g Fg Hlam Hg1) as (G1 & G2 & _).
  destruct (cell_props L k HL g Fg Hlam Hg1) as (_ & _ & Bl).
  split; [exact H|]. unfold g0c_of, u53. nra.
Qed.

Lemma mk_cub_factor : value_factor_ok L mk_cub g0c_of ((k + 13) * u53).
Proof using HL Fg Hlam Hg1.
  destruct (cfactor_props L k HL g Fg Hlam Hg1) as (F & F1 & E).
  unfold value_factor_ok.
  assert (Ef : fadd f64_one (gm_accuracy L mk_cub) = factorc L g) by reflexivity.
  rewrite Ef. split; [exact F|]. split; [exact F1|exact E].
Qed.

Lemma mk_cub_range_fin :
  fin (gm_min mk_cub) /\ fin (gm_max mk_cub) /\ bpow radix2 (-1022) <= BR (gm_min mk_cub).
Proof using HL Fg Hlam Hg1 Fo Bo.
  destruct (cmin_props L k HL g Fg Hlam Hg1 off Fo Bo) as (F1 & B1 & _).
  destruct (cmax_props L k HL g Fg Hlam Hg1 off Fo Bo) as (F2 & _).
  cbn [gm_min gm_max mk_cub]. split; [exact F1|]. split; [exact F2|exact B1].
Qed.

(* a finite v with MinIndexableValue < v <= MaxIndexableValue is a normal float whose index is in range *)
Lemma mk_cub_in_range (v : f64) :
  fin v -> BR (gm_min mk_cub) < BR v -> BR v <= BR (gm_max mk_cub) ->
  pos_normal v /\ in_range mk_cub (gm_index L mk_cub v).
Proof using HL Fg Hlam Hg1 Fo Bo.
  intros Fv Hlo Hhi. cbn [gm_min gm_max mk_cub] in Hlo, Hhi.
  destruct (cmin_props L k HL g Fg Hlam Hg1 off Fo Bo) as (_ & B1 & B1').
  destruct (cmax_props L k HL g Fg Hlam Hg1 off Fo Bo) as (_ & B2).
  destruct (cadj_props L k HL g Fg Hlam Hg1) as (_ & BA).
  destruct (cmult_props L k HL g Fg Hlam Hg1) as (Fm & BM & (_ & IM) & _).
  destruct (Gc_props L k HL g Fg Hlam Hg1) as (G1 & G2 & _).
  destruct (cell_props L k HL g Fg Hlam Hg1) as (_ & _ & Bl).
  assert (Hv : pos_normal v) by (split; [exact Fv|lra]).
  split; [exact Hv|].
  pose proof mk_cub_reasonable as Hm.
  destruct (index_brackets L MCub MapCub.L_cub (cub_forward_ok L) mk_cub Hm v Hv) as (I1 & I2 & I3).
  assert (Hi : (Z.abs (gm_index L mk_cub v) <= 2 ^ 52)%Z) by (apply (index_small L MCub MapCub.L_cub (cub_forward_ok L) mk_cub Hm v Hv)).
  destruct (lower_arg_err MCub mk_cub Hm (gm_index L mk_cub v) ltac:(lia)) as (_ & Ei).
  cbn [gm_off gm_mult mk_cub] in Ei.
  assert (EG : Gc L g = exp (7 / 10 * BR (l_log2 L g))) by reflexivity.
  remember (gm_index L mk_cub v) as i eqn:Eqi. cbn [gm_off gm_mult mk_cub] in I1, I2, I3.
  remember (BR (lower_arg mk_cub i)) as fti eqn:Efti.
  remember (BR (adjc L g)) as A eqn:EA. remember (BR (multf L g)) as M eqn:EM. remember (BR off) as O eqn:EO.
  remember (BR (l_log2 L g)) as ell eqn:Eell. remember (Gc L g) as G eqn:EGG.
  destruct (bval_float v Hv) as (_ & _ & Pv).
  assert (BA2 : A <= 1991 / 1000) by nra.
  destruct (margin_min_cub ell G A (1 / M) EG Bl (conj (proj1 BA) BA2) IM) as (S0 & Mmin).
  assert (Hu : 0 < u53 < / 1000000) by (unfold u53; lra).
  assert (Hq : 0 < q40 /\ 0 < q41) by (unfold q40, q41; lra).
  assert (Llo : IZR (-1022) + MapCub.Pcub (A * (1 - u53) - 1) <= MapCub.L_cub (BR v)).
  { apply L_cub_ge_bval; [exact S0|].
    replace (1 + (A * (1 - u53) - 1)) with (A * (1 - u53)) by ring. rewrite <- Rmult_assoc. lra. }
  assert (A1 : 1 <= A) by nra.
  destruct (margin_max_cub A (conj A1 BA2)) as (Y1 & Mmax).
  set (Y := 7072 / 10000 * (1 + / A)) in *.
  assert (Lhi : MapCub.L_cub (BR v) <= IZR 1023 + MapCub.Pcub (Y - 1)).
  { apply L_cub_le_bval; [lra|exact Pv|].
    replace (1 + (Y - 1)) with Y by ring.
    apply Rle_trans with (1 := Hhi). apply Rle_trans with (1 := B2). unfold Y. right. ring. }
  remember (MapCub.L_cub (BR v)) as Lv eqn:ELv.
  pose proof (div_plus_one (IZR i) O M) as Et.
  remember ((IZR i - O) / M) as ti eqn:Eti.
  assert (iM0 : 0 < 1 / M <= 1).
  { split; [apply Rdiv_lt_0_compat; lra|]. apply div_le_intro; lra. }
  rewrite Et in I2.
  assert (Bti : -1024 <= ti <= 1025) by (unfold q40 in *; lra).
  assert (Ci : Rabs (fti - ti) <= q41).
  { apply Rle_trans with (1 := Ei).
    assert (Rabs ti <= 1026) by (apply Rabs_le; lra). unfold u53, u100, q41 in *. nra. }
  apply Rabs_le_inv in Ci.
  unfold in_range. rewrite <- Efti. split.
  - apply Zfloor_lub. lra.
  - apply Z.lt_succ_r. apply lt_IZR. apply Rle_lt_trans with (1 := Zfloor_lb _). change (IZR (Z.succ 1023)) with 1024.
    unfold q40, q41 in *. lra.
Qed.
End CubWithGamma.


(* the oracle hypotheses of the cubic mapping: those of the linear one, IEEE sqrt, math.Cbrt *)
Record libm_cub_ok (L : libm) (k kc : R) : Prop := {
  lc_ok : libm_ok L k;
  lc_kc : 0 <= kc <= 32;
  lc_sqrt : sqrt_accurate L;
  lc_cbrt : cbrt_accurate L kc
}.

Lemma libm_cub_inverse (L : libm) (k kc : R) : libm_cub_ok L k kc -> cub_inverse_ok L.
Proof.
  intros H. exact (cub_inverse_ok_proved L kc (lc_kc _ _ _ H) (lc_sqrt _ _ _ H) (lc_cbrt _ _ _ H)
                     (lo_floor _ _ (lc_ok _ _ _ H))).
Qed.

(* ------------------------------------------------------------------ *)
(* J. Value (Index v) on the whole indexable range (cubic, with gamma) *)
(* ------------------------------------------------------------------ *)
Section CubHeadline.
Variable L : libm.
Variables k kc : R.
Hypothesis HLc : libm_cub_ok L k kc.
Variable g : f64.
Hypothesis Fg : fin g.
Hypothesis Hlam : lminc <= ln (BR g) / ln 2 <= 98 / 100.
Hypothesis Hg1 : 1 <= BR g <= 2.
Variable off : f64.
Hypothesis Fo : fin off.
Hypothesis Bo : Rabs (BR off) <= 2048 * BR (multf L g).

Local Notation HL := (lc_ok _ _ _ HLc).
Local Notation m := (mk_cub L g off).

Lemma mk_cub_inv_at (j : Z) : (Z.abs j <= 2 ^ 53)%Z -> in_range m j ->
  inv_at L MCub MapCub.Linv_cub m j.
Proof using HLc Fg Hlam Hg1 Fo Bo.
  intros Hj Rj. pose proof (mk_cub_reasonable L k HL g Fg Hlam Hg1 off Fo Bo) as Hm.
  destruct (lower_arg_err MCub m Hm j Hj) as (Ft & _).
  unfold inv_at, inverse_ok_at. exact (libm_cub_inverse L k kc HLc _ Ft Rj).
Qed.

Lemma mk_cub_value_fin (v : f64) :
  fin v -> BR (gm_min m) < BR v -> BR v <= BR (gm_max m) ->
  fin (gm_value L m (gm_index L m v)).
Proof using HLc Fg Hlam Hg1 Fo Bo.
  intros Fv Hlo Hhi.
  destruct (mk_cub_in_range L k HL g Fg Hlam Hg1 off Fo Bo v Fv Hlo Hhi) as (Hv & Ri).
  pose proof (mk_cub_reasonable L k HL g Fg Hlam Hg1 off Fo Bo) as Hm.
  pose proof (index_small L MCub MapCub.L_cub (cub_forward_ok L) m Hm v Hv) as Hi.
  pose proof (mk_cub_inv_at (gm_index L m v) ltac:(lia) Ri) as Ai.
  destruct (gen_lower_le_at L MCub MapCub.L_cub MapCub.Linv_cub (10 / 7) MapCub.loglike_cub cub_c_ge_1
              (cub_forward_ok L) m Hm v Hv Ri Ai) as (Fl & Nl & K1).
  destruct (mk_cub_factor L k HL g Fg Hlam Hg1 off) as (FF & F1 & EF).
  destruct (cmax_props L k HL g Fg Hlam Hg1 off Fo Bo) as (_ & B2).
  destruct (cadj_props L k HL g Fg Hlam Hg1) as (_ & BA).
  destruct (Gc_props L k HL g Fg Hlam Hg1) as (G1 & G2 & _).
  destruct (cell_props L k HL g Fg Hlam Hg1) as (_ & _ & Bl).
  destruct (lo_k _ _ HL) as (K0 & K64).
  cbn [gm_max mk_cub] in Hhi.
  unfold gm_value. apply fmul_bounded; [exact Fl|exact FF|].
  apply Rle_trans with (2 := max_3_1022).
  remember (BR (gm_lower L m (gm_index L m v))) as lo. remember (BR (fadd f64_one (gm_accuracy L m))) as F.
  remember (BR (adjc L g)) as A. remember (Gc L g) as G. remember (BR (l_log2 L g)) as ell.
  pose proof (bpow_gt_0 radix2 (-1022)) as Hp.
  rewrite Rabs_pos_eq by (apply Rmult_le_pos; lra).
  set (g0 := g0c_of L g) in *. assert (Eg0 : g0 = G * (1 + 4 * u53)) by (unfold g0, g0c_of; rewrite HeqG; reflexivity).
  assert (Hg0 : 1 <= g0 <= 2) by (rewrite Eg0; unfold u53; nra).
  set (Fr := 1 + alpha_of g0) in *.
  assert (EFr : Fr * (1 + g0) = 2 * g0) by (unfold Fr, alpha_of; field; lra).
  set (W := / A) in *. assert (HW : W * A = 1) by (unfold W; field; nra).
  assert (PW : 0 < W) by (unfold W; apply Rinv_0_lt_compat; nra).
  assert (WG : W * G <= 10002 / 10000).
  { assert (W * (9999 / 10000 * G) <= 1) by (apply Rle_trans with (W * A); [apply Rmult_le_compat_l; nra|lra]). lra. }
  assert (PFr : 0 < Fr <= 2) by (unfold Fr; pose proof (alpha_of_bounds g0 ltac:(unfold u53 in *; nra)); lra).
  assert (Key : (1 + W) * Fr <= 21 / 10).
  { apply Rmult_le_reg_r with (1 + g0); [lra|]. rewrite Rmult_assoc, EFr.
    rewrite Eg0. unfold u53. nra. }
  set (P := bpow radix2 1023) in *. assert (PP : 0 < P) by apply bpow_gt_0.
  assert (EP : P = 2 * bpow radix2 1022).
  { unfold P. replace 1023%Z with (1 + 1022)%Z by lia. rewrite bpow_plus. reflexivity. }
  apply Rabs_le_inv in EF.
  assert (BF : F <= Fr + 77 * u53) by (unfold u53 in *; nra).
  assert (Blo : lo <= P * (7072 / 10000) * (1 + W) * (1 + q38)).
  { apply Rle_trans with (1 := K1). apply Rmult_le_compat_r; [unfold q38; lra|]. lra. }
  apply Rle_trans with (P * (7072 / 10000) * (1 + W) * (1 + q38) * (Fr + 77 * u53)).
  - apply Rmult_le_compat; lra.
  - replace (P * (7072 / 10000) * (1 + W) * (1 + q38) * (Fr + 77 * u53))
      with (P * (7072 / 10000) * (1 + q38) * ((1 + W) * Fr + 77 * u53 * (1 + W))) by ring.
    assert (W <= 10002 / 10000).
    { apply Rle_trans with (W * G); [|exact WG]. rewrite <- (Rmult_1_r W) at 1. apply Rmult_le_compat_l; nra. }
    unfold q38, u53 in *. nra.
Qed.

(* accuracy, and the bin of v in terms of its own lower bound, on the whole indexable range of
   NewCubicallyInterpolatedMappingWithGamma; nothing is asked of index + 1 *)
Theorem with_gamma_cub_accuracy (v : f64) :
  fin v -> BR (gm_min m) < BR v -> BR v <= BR (gm_max m) ->
  let i := gm_index L m v in
  pos_normal v /\ in_range m i /\ fin (gm_value L m i) /\
  BR (gm_lower L m i) <= BR v * (1 + q38) /\
  BR v <= BR (gm_lower L m i) * exp (1 / (10 / 7 * BR (gm_mult m))) * (1 + q38) /\
  Rabs (BR (gm_value L m i) - BR v) <= (alpha_of (g0c_of L g) + (k + 13) * u53 + q35) * BR v.
Proof using HLc Fg Hlam Hg1 Fo Bo.
  intros Fv Hlo Hhi i.
  destruct (mk_cub_in_range L k HL g Fg Hlam Hg1 off Fo Bo v Fv Hlo Hhi) as (Hv & Ri).
  pose proof (mk_cub_value_fin v Fv Hlo Hhi) as FV.
  pose proof (mk_cub_reasonable L k HL g Fg Hlam Hg1 off Fo Bo) as Hm.
  pose proof (index_small L MCub MapCub.L_cub (cub_forward_ok L) m Hm v Hv) as Hi.
  fold i in Ri, FV, Hi.
  pose proof (mk_cub_inv_at i ltac:(lia) Ri) as Ai.
  destruct (gen_lower_le_at L MCub MapCub.L_cub MapCub.Linv_cub (10 / 7) MapCub.loglike_cub cub_c_ge_1
              (cub_forward_ok L) m Hm v Hv Ri Ai) as (_ & _ & K1).
  pose proof (gen_v_le_lower_at L MCub MapCub.L_cub MapCub.Linv_cub (10 / 7) MapCub.loglike_cub cub_c_ge_1
              (cub_forward_ok L) m Hm v Hv Ri Ai) as K3.
  destruct (lo_k _ _ HL) as (K0 & K64).
  split; [exact Hv|]. split; [exact Ri|]. split; [exact FV|]. split; [exact K1|]. split; [exact K3|].
  apply (gen_value_accuracy_at1 L MCub MapCub.L_cub MapCub.Linv_cub (10 / 7) MapCub.loglike_cub cub_c_ge_1
           (cub_forward_ok L) m Hm (g0c_of L g) ((k + 13) * u53) v); try assumption.
  - apply (mk_cub_g0 L k HL g Fg Hlam Hg1 off).
  - unfold u53. split; nra.
  - apply (mk_cub_factor L k HL g Fg Hlam Hg1 off).
Qed.

(* containment from above, when the next index is in range too *)
Theorem with_gamma_cub_upper (v : f64) :
  fin v -> BR (gm_min m) < BR v -> BR v <= BR (gm_max m) ->
  let i := gm_index L m v in
  in_range m (i + 1) -> BR v <= BR (gm_lower L m (i + 1)) * (1 + q38).
Proof using HLc Fg Hlam Hg1 Fo Bo.
  intros Fv Hlo Hhi i Rj.
  destruct (mk_cub_in_range L k HL g Fg Hlam Hg1 off Fo Bo v Fv Hlo Hhi) as (Hv & Ri).
  pose proof (mk_cub_reasonable L k HL g Fg Hlam Hg1 off Fo Bo) as Hm.
  pose proof (index_small L MCub MapCub.L_cub (cub_forward_ok L) m Hm v Hv) as Hi. fold i in Ri, Hi.
  exact (proj2 (cub_containment L m Hm (libm_cub_inverse L k kc HLc) v Hv Ri Rj)).
Qed.
End CubHeadline.


(* ------------------------------------------------------------------ *)
(* K. NewCubicallyInterpolatedMapping (relativeAccuracy)               *)
(* ------------------------------------------------------------------ *)
Section CubWithAccuracy.
Variable L : libm.
Variable k : R.
Hypothesis HL : libm_ok L k.
Variable a : f64.
Hypothesis Fa : fin a.
Hypothesis Ba : / 400000 <= BR a <= 32 / 100.

Local Notation ar := (BR a).
Local Notation gp := ((1 + BR a) / (1 - BR a)).

Definition gammac : f64 := l_pow L (g0f a) c_10ln2_7.

Lemma g0f_props_c : fin (g0f a) /\ gp * (1 - 4 * u53) <= BR (g0f a) <= gp * (1 + 4 * u53) /\ 1 <= BR (g0f a) <= 4.
Proof using Fa Ba.
  destruct (fadd_bounded f64_one a f64_one_fin Fa) as (F1 & R1).
  { rewrite f64_one_BR. apply (small_le_max 2); [lia|]. apply Rabs_le. simpl (IZR 2). lra. }
  destruct (fsub_bounded f64_one a f64_one_fin Fa) as (F2 & R2).
  { rewrite f64_one_BR. apply (small_le_max 2); [lia|]. apply Rabs_le. simpl (IZR 2). lra. }
  rewrite f64_one_BR in R1, R2.
  assert (E1 : Rabs (BR (fadd f64_one a) - (1 + ar)) <= bpow radix2 (1 - 54)).
  { rewrite R1. apply rndR_err_lt; [lia|]. change (bpow radix2 1) with 2. apply Rabs_lt. lra. }
  assert (E2 : Rabs (BR (fsub f64_one a) - (1 - ar)) <= bpow radix2 (0 - 54)).
  { rewrite R2. apply rndR_err_lt; [lia|]. change (bpow radix2 0) with 1. apply Rabs_lt. lra. }
  change (bpow radix2 (1 - 54)) with (/ 9007199254740992) in E1.
  change (bpow radix2 (0 - 54)) with (/ 18014398509481984) in E2.
  apply Rabs_le_inv in E1, E2.
  remember (BR (fadd f64_one a)) as s1. remember (BR (fsub f64_one a)) as s2.
  remember ((1 + ar) / (1 - ar)) as gpr eqn:Egp.
  assert (Hgp : gpr * (1 - ar) = 1 + ar) by (rewrite Egp; field; lra).
  assert (Bgp : 1 <= gpr <= 195 / 100).
  { rewrite Egp. split; [apply le_div_intro; lra|apply div_le_intro; lra]. }
  assert (Q : gpr * (1 - 2 * u53) <= s1 / s2 <= gpr * (1 + 2 * u53)).
  { unfold u53. split.
    - apply le_div_intro; [lra|]. nra.
    - apply div_le_intro; [lra|]. nra. }
  destruct (fdiv_bounded (fadd f64_one a) (fsub f64_one a) F1) as (F3 & R3).
  { rewrite <- Heqs2. lra. }
  { rewrite <- Heqs1, <- Heqs2. apply (small_le_max 2); [lia|]. unfold u53 in Q. apply Rabs_le. simpl (IZR 2). nra. }
  rewrite <- Heqs1, <- Heqs2 in R3. fold (g0f a) in F3, R3.
  assert (E3 : Rabs (BR (g0f a) - s1 / s2) <= bpow radix2 (1 - 54)).
  { rewrite R3. apply rndR_err_lt; [lia|]. change (bpow radix2 1) with 2. unfold u53 in Q. apply Rabs_lt. nra. }
  change (bpow radix2 (1 - 54)) with (/ 9007199254740992) in E3. apply Rabs_le_inv in E3.
  unfold u53 in *. split; [exact F3|]. split; nra.
Qed.

Lemma ln_gp_bounds_c : ar + ar / (1 + ar) <= ln gp <= 675 / 1000 /\ 1 <= gp <= 195 / 100.
Proof using Ba.
  assert (Bgp : 1 <= gp <= 195 / 100).
  { split; [apply le_div_intro; lra|apply div_le_intro; lra]. }
  split; [|exact Bgp]. rewrite ln_div by lra. split.
  - pose proof (ln_1p_ge' ar ltac:(lra)) as H1. pose proof (ln_1p_le (- ar) ltac:(lra)) as H2.
    replace (1 + - ar) with (1 - ar) in H2 by ring. lra.
  - (* ln (1+a) and - ln (1-a) = ln (1 + a/(1-a)) by the cubic bound *)
    pose proof (ln_cubic ar ltac:(lra)) as H1.
    set (x := ar / (1 - ar)).
    assert (Hx : 0 <= x <= 471 / 1000).
    { unfold x. split; [apply Rmult_le_pos; [lra|apply Rlt_le, Rinv_0_lt_compat; lra]|apply div_le_intro; lra]. }
    pose proof (ln_cubic x (proj1 Hx)) as H2.
    assert (E : 1 + x = / (1 - ar)) by (unfold x; field; lra).
    rewrite E, ln_Rinv in H2 by lra.
    assert (T1 : ar - ar ^ 2 / 2 + ar ^ 3 / 3 <= 2798 / 10000).
    { simpl. assert (0 <= ar * ar <= 1024 / 10000) by nra. nra. }
    assert (T2 : x - x ^ 2 / 2 + x ^ 3 / 3 <= 3951 / 10000).
    { simpl. assert (0 <= x * x <= 221841 / 1000000) by nra. nra. }
    lra.
Qed.

Definition lamc : R := ln (BR gammac) / ln 2.

Lemma gammac_props :
  fin gammac /\ 1 <= BR gammac <= 2 /\
  10 / 7 * ln gp - (14 * u53 + 3 * (k * u53)) <= lamc <= 10 / 7 * ln gp + (8 * u53 + 2 * (k * u53)) /\
  lminc <= lamc <= 98 / 100.
Proof using HL Fa Ba.
  destruct g0f_props_c as (F0 & B0 & B0'). destruct cub_consts2_fin as (_ & Fc & _).
  destruct ln_gp_bounds_c as ((L1 & L2) & Bgp).
  pose proof (ku_small L k HL) as Hk. destruct (lo_k _ _ HL) as (K0 & K1).
  destruct (lo_pow _ _ HL (g0f a) c_10ln2_7 F0 Fc B0') as (Fg & Eg).
  { rewrite c_10ln2_7_BR. unfold c_10ln2_7r. lra. }
  rewrite c_10ln2_7_BR in Eg. fold gammac in Fg, Eg.
  remember (BR (g0f a)) as x eqn:Ex. remember (BR gammac) as gr eqn:Egr.
  remember ((1 + ar) / (1 - ar)) as gpr eqn:Egp.
  pose proof c_10ln2_7r_close as Hc. pose proof ln2_pos as H2. pose proof ln2_ge_two_thirds as H23.
  pose proof ln2_le_1 as H21.
  unfold u53 in *.
  assert (Lx : ln gpr - 8 * / 9007199254740992 <= ln x <= ln gpr + 4 * / 9007199254740992).
  { split.
    - apply Rle_trans with (ln (gpr * (1 - 4 * / 9007199254740992))); [|apply ln_le_mono; [nra|lra]].
      rewrite ln_mult by (lra).
      pose proof (ln_1p_ge' (- (4 * / 9007199254740992)) ltac:(lra)) as H.
      replace (1 + - (4 * / 9007199254740992)) with (1 - 4 * / 9007199254740992) in H by ring.
      assert (- (8 * / 9007199254740992) <= - (4 * / 9007199254740992) / (1 - 4 * / 9007199254740992)).
      { apply le_div_intro; lra. }
      lra.
    - apply Rle_trans with (ln (gpr * (1 + 4 * / 9007199254740992))); [apply ln_le_mono; lra|].
      rewrite ln_mult by (lra). pose proof (ln_1p_le (4 * / 9007199254740992) ltac:(lra)). lra. }
  assert (Lx0 : 0 <= ln x <= 1).
  { split; [rewrite <- ln_1; apply ln_le_mono; lra|lra]. }
  set (Rp := Rpower x c_10ln2_7r) in *. assert (PR : 0 < Rp) by (unfold Rp, Rpower; apply exp_pos).
  assert (ERp : ln Rp = c_10ln2_7r * ln x) by (unfold Rp, Rpower; apply ln_exp).
  apply Rabs_le_inv in Eg.
  assert (KR : 0 <= k * / 9007199254740992 * Rp <= / 140737488355328 * Rp) by (split; [nra|apply Rmult_le_compat_r; lra]).
  assert (Pg : 0 < gr) by nra.
  assert (Lg : c_10ln2_7r * ln x - 2 * (k * / 9007199254740992) <= ln gr <= c_10ln2_7r * ln x + k * / 9007199254740992).
  { rewrite <- ERp. split.
    - apply Rle_trans with (ln (Rp * (1 - k * / 9007199254740992))); [|apply ln_le_mono; nra].
      rewrite ln_mult by lra.
      pose proof (ln_1p_ge' (- (k * / 9007199254740992)) ltac:(lra)) as H.
      replace (1 + - (k * / 9007199254740992)) with (1 - k * / 9007199254740992) in H by ring.
      assert (- (2 * (k * / 9007199254740992)) <= - (k * / 9007199254740992) / (1 - k * / 9007199254740992)).
      { apply le_div_intro; [lra|]. nra. }
      lra.
    - apply Rle_trans with (ln (Rp * (1 + k * / 9007199254740992))); [apply ln_le_mono; nra|].
      rewrite ln_mult by lra. pose proof (ln_1p_le (k * / 9007199254740992) ltac:(lra)). lra. }
  (* divide by ln 2: c_10ln2_7r / ln 2 is 10/7 up to 2^-53 *)
  assert (Cx : 10 / 7 * ln x * ln 2 <= c_10ln2_7r * ln x <= 10 / 7 * ln x * ln 2 + 2 * / 9007199254740992 * ln 2).
  { split; [nra|]. assert (c_10ln2_7r * ln x <= 10 / 7 * ln 2 * (1 + / 9007199254740992) * ln x) by (apply Rmult_le_compat_r; lra).
    nra. }
  assert (La : 10 / 7 * ln gpr - (14 * / 9007199254740992 + 3 * (k * / 9007199254740992)) <= lamc
               <= 10 / 7 * ln gpr + (8 * / 9007199254740992 + 2 * (k * / 9007199254740992))).
  { unfold lamc. rewrite <- Egr. split.
    - apply le_div_intro; [lra|]. nra.
    - apply div_le_intro; [lra|]. nra. }
  assert (Hl : lminc <= lamc <= 98 / 100).
  { unfold lminc. split; [|lra].
    assert (/ 400000 / (1 + / 400000) <= ar / (1 + ar)).
    { set (q := / 400000 / (1 + / 400000)).
      assert (Hq : q * (1 + / 400000) = / 400000) by (unfold q; field; lra).
      assert (Bq : 0 <= q <= 1) by (unfold q; lra).
      apply le_div_intro; [lra|]. nra. }
    assert (7 / 1000000 + / 10000000 <= 10 / 7 * (/ 400000 + / 400000 / (1 + / 400000))) by lra.
    lra. }
  split; [exact Fg|]. split; [|split; [exact La|exact Hl]].
  assert (Eg' : gr = exp (lamc * ln 2)).
  { unfold lamc. rewrite <- Egr. replace (ln gr / ln 2 * ln 2) with (ln gr) by (field; lra). symmetry. apply exp_ln. exact Pg. }
  assert (Hl0 : 0 <= lamc <= 1) by (unfold lminc in Hl; lra).
  rewrite Eg'. split.
  - rewrite <- exp_0. apply exp_le_mono. nra.
  - apply Rle_trans with (exp (ln 2)); [apply exp_le_mono; nra|rewrite exp_ln; lra].
Qed.

Definition acc_mapc : gmap := mk_cub L gammac f64_zero.

Lemma acc_hyps_c :
  fin gammac /\ lminc <= ln (BR gammac) / ln 2 <= 98 / 100 /\ 1 <= BR gammac <= 2 /\
  fin f64_zero /\ Rabs (BR f64_zero) <= 2048 * BR (multf L gammac).
Proof using HL Fa Ba.
  destruct gammac_props as (Fg & Hg1 & _ & Hl). fold lamc.
  destruct (cmult_props L k HL gammac Fg Hl Hg1) as (Fm & BM & _).
  repeat split; try assumption; try lra. change (BR f64_zero) with 0. rewrite Rabs_R0. lra.
Qed.

Lemma with_accuracy_cub_eq : with_accuracy L MCub a = Some acc_mapc.
Proof using HL Fa Ba.
  destruct acc_hyps_c as (Fg & Hl & Hg1 & _).
  unfold with_accuracy.
  assert (E1 : fle a f64_zero = false).
  { destruct (fle a f64_zero) eqn:E; [|reflexivity].
    apply (fle_spec a f64_zero Fa) in E; [|reflexivity]. change (BR f64_zero) with 0 in E. lra. }
  assert (E2 : fle f64_one a = false).
  { destruct (fle f64_one a) eqn:E; [|reflexivity].
    apply (fle_spec f64_one a f64_one_fin Fa) in E. rewrite f64_one_BR in E. lra. }
  rewrite E1, E2. cbn [orb]. cbv zeta. fold (g0f a). fold gammac.
  apply (with_gamma_cub_eq L gammac Fg Hl Hg1).
Qed.

(* the bin-ratio bound of the constructed mapping against (1+a)/(1-a), and the accuracy *)
Lemma acc_g0_c :
  gp * (1 - (10 + 4 * k) * u53) <= g0c_of L gammac <= gp * (1 + (17 + 6 * k) * u53) /\
  alpha_of (g0c_of L gammac) <= BR a + (9 + 3 * k) * u53.
Proof using HL Fa Ba.
  destruct acc_hyps_c as (Fg & Hl & Hg1 & _).
  destruct gammac_props as (_ & _ & La & _).
  destruct (Gc_props L k HL gammac Fg Hl Hg1) as (G1 & G4 & G3 & G2).
  destruct (cell_props L k HL gammac Fg Hl Hg1) as (_ & _ & Bl).
  fold lamc in G2, G3.
  destruct ln_gp_bounds_c as ((L1 & L2) & Bgp).
  pose proof (ku_small L k HL) as Hk. destruct (lo_k _ _ HL) as (K0 & K64).
  remember lamc as lam. remember (Gc L gammac) as G. remember ((1 + ar) / (1 - ar)) as gpr eqn:Egp.
  assert (Pgp : 0 < gpr) by lra.
  assert (Hu : u53 = / 9007199254740992) by reflexivity.
  remember (k * u53) as t eqn:Et.
  assert (U : exp (7 / 10 * lam) <= gpr * (1 + 2 * (6 * u53 + 2 * t))).
  { apply Rle_trans with (exp (ln gpr + (6 * u53 + 2 * t))); [apply exp_le_mono; try rewrite Hu in *; lra|].
    rewrite exp_plus, exp_ln by lra. apply Rmult_le_compat_l; [lra|]. apply exp_le_1p2x. try rewrite Hu in *. lra. }
  assert (Lo : gpr * (1 - (10 * u53 + 3 * t)) <= exp (7 / 10 * lam)).
  { apply Rle_trans with (exp (ln gpr - (10 * u53 + 3 * t))); [|apply exp_le_mono; try rewrite Hu in *; lra].
    unfold Rminus. rewrite exp_plus, exp_ln by lra. apply Rmult_le_compat_l; [lra|].
    pose proof (exp_ineq1_le (- (10 * u53 + 3 * t))). lra. }
  unfold g0c_of. rewrite <- HeqG.
  assert (Pe : 0 < exp (7 / 10 * lam)) by apply exp_pos.
  assert (Tt : t * t <= / 140737488355328 * t) by (apply Rmult_le_compat_r; lra).
  assert (G0 : 1 <= G) by lra.
  assert (B1 : gpr * (1 - (10 + 4 * k) * u53) <= G * (1 + 4 * u53)).
  { apply Rle_trans with (exp (7 / 10 * lam) * (1 - t)).
    - apply Rle_trans with (gpr * (1 - (10 * u53 + 3 * t)) * (1 - t)); [|apply Rmult_le_compat_r; lra].
      rewrite Rmult_assoc. apply Rmult_le_compat_l; [lra|].
      replace ((10 + 4 * k) * u53) with (10 * u53 + 4 * t) by (rewrite Et; ring).
      assert (0 <= (10 * u53 + 3 * t) * t) by (apply Rmult_le_pos; try rewrite Hu; lra). try rewrite Hu in *. lra.
    - apply Rle_trans with (1 := G3). rewrite <- (Rmult_1_r G) at 1. apply Rmult_le_compat_l; [lra|try rewrite Hu; lra]. }
  assert (B2 : G * (1 + 4 * u53) <= gpr * (1 + (17 + 6 * k) * u53)).
  { apply Rle_trans with (gpr * (1 + 2 * (6 * u53 + 2 * t)) * (1 + 2 * t) * (1 + 4 * u53)).
    - apply Rmult_le_compat_r; [try rewrite Hu; lra|]. apply Rle_trans with (1 := G2).
      apply Rmult_le_compat_r; lra.
    - rewrite !Rmult_assoc. apply Rmult_le_compat_l; [lra|].
      replace ((17 + 6 * k) * u53) with (17 * u53 + 6 * t) by (rewrite Et; ring).
      try rewrite Hu in *. nra. }
  split; [split; assumption|].
  apply Rle_trans with (alpha_of (gpr * (1 + (17 + 6 * k) * u53))).
  - apply alpha_of_mono; [apply Rmult_le_pos; [lra|try rewrite Hu; lra]|exact B2].
  - assert (Ea : alpha_of gpr = BR a) by (rewrite Egp; unfold alpha_of; field; lra).
    rewrite <- Ea.
    assert (He0 : 0 <= (17 + 6 * k) * u53) by (apply Rmult_le_pos; [lra|try rewrite Hu; lra]).
    apply Rle_trans with (1 := alpha_of_perturb gpr _ (proj1 Bgp) He0).
    replace ((17 + 6 * k) * u53) with (17 * u53 + 6 * t) by (rewrite Et; ring).
    replace ((9 + 3 * k) * u53) with (9 * u53 + 3 * t) by (rewrite Et; ring). try rewrite Hu. lra.
Qed.
End CubWithAccuracy.


(* ------------------------------------------------------------------ *)
(* L. the mapping built by NewCubicallyInterpolatedMapping (a)         *)
(* ------------------------------------------------------------------ *)
Section CubFromAccuracy.
Variable L : libm.
Variables k kc : R.
Hypothesis HLc : libm_cub_ok L k kc.
Variable a : f64.
Hypothesis Fa : fin a.
Hypothesis Ba : / 400000 <= BR a <= 32 / 100.

Local Notation HL := (lc_ok _ _ _ HLc).
Local Notation m := (acc_mapc L a).

(* the headline *)
Theorem with_accuracy_cub_accuracy (v : f64) :
  fin v -> BR (gm_min m) < BR v -> BR v <= BR (gm_max m) ->
  let i := gm_index L m v in
  pos_normal v /\ in_range m i /\ fin (gm_value L m i) /\
  BR (gm_lower L m i) <= BR v * (1 + q38) /\
  BR v <= BR (gm_lower L m i) * ((1 + BR a) / (1 - BR a)) * (1 + q35) /\
  Rabs (BR (gm_value L m i) - BR v) <= (BR a + q34) * BR v.
Proof using HLc Fa Ba.
  intros Fv Hlo Hhi i. unfold acc_mapc in *. destruct (acc_hyps_c L k HL a Fa Ba) as (Fg & Hl & Hg1 & Fo & Bo).
  destruct (with_gamma_cub_accuracy L k kc HLc (gammac L a) Fg Hl Hg1 _ Fo Bo v Fv Hlo Hhi)
    as (Hv & Ri & FV & K1 & K3 & Acc).
  fold i in Ri, FV, K1, K3, Acc.
  split; [exact Hv|]. split; [exact Ri|]. split; [exact FV|]. split; [exact K1|].
  destruct (acc_g0_c L k HL a Fa Ba) as ((_ & Gu) & Al). destruct (lo_k _ _ HL) as (K0 & K64).
  destruct (bval_float v Hv) as (_ & _ & Pv).
  destruct (mk_cub_g0 L k HL (gammac L a) Fg Hl Hg1 f64_zero) as (Gg & _).
  destruct (ln_gp_bounds_c a Ba) as (_ & Bgp).
  destruct (gen_lower_le_at L MCub MapCub.L_cub MapCub.Linv_cub (10 / 7) MapCub.loglike_cub cub_c_ge_1
              (cub_forward_ok L) (mk_cub L (gammac L a) f64_zero) (mk_cub_reasonable L k HL _ Fg Hl Hg1 _ Fo Bo) v Hv Ri
              (mk_cub_inv_at L k kc HLc _ Fg Hl Hg1 _ Fo Bo i
                 ltac:(pose proof (index_small L MCub MapCub.L_cub (cub_forward_ok L) (mk_cub L (gammac L a) f64_zero)
                                     (mk_cub_reasonable L k HL _ Fg Hl Hg1 _ Fo Bo) v Hv); lia) Ri))
    as (_ & Nl & _).
  fold i in Nl. pose proof (bpow_gt_0 radix2 (-1022)) as Hp.
  split.
  - apply Rle_trans with (1 := K3).
    set (lo := BR (gm_lower L (mk_cub L (gammac L a) f64_zero) i)) in *. set (gp := (1 + BR a) / (1 - BR a)) in *.
    set (E := exp (1 / (10 / 7 * BR (gm_mult (mk_cub L (gammac L a) f64_zero))))) in *. set (g0 := g0c_of L (gammac L a)) in *.
    assert (HE : E <= gp * (1 + (17 + 6 * k) * u53)) by lra.
    assert (PE : 0 < E) by apply exp_pos.
    apply Rle_trans with (lo * (gp * (1 + (17 + 6 * k) * u53)) * (1 + q38)).
    + apply Rmult_le_compat_r; [unfold q38; lra|]. apply Rmult_le_compat_l; lra.
    + rewrite !Rmult_assoc. apply Rmult_le_compat_l; [lra|]. apply Rmult_le_compat_l; [lra|].
      unfold u53, q38, q35 in *. nra.
  - apply Rle_trans with (1 := Acc). apply Rmult_le_compat_r; [lra|].
    unfold u53, q35, q34 in *. lra.
Qed.
End CubFromAccuracy.

From Coq Require Import List Permutation Sorted.
From SK Require Import Spec.Bins Spec.BinsProofs Spec.ASketch Store.Any Store.AnyProofs Stat.Summary
                       Sketch.Sketch Sketch.SketchProofs Sketch.RankProofs Sketch.RefineProofs
                       Sketch.RoundingInstance Sketch.BridgeProofs.
Import ListNotations.
Local Open Scope R_scope.


(* ------------------------------------------------------------------ *)
(* M. the premises of Sketch/BridgeProofs and C01 end to end (cubic)   *)
(* ------------------------------------------------------------------ *)
Section CubBridge.
Variable L : libm.
Variables k kc : R.
Hypothesis HLc : libm_cub_ok L k kc.
Variable a : f64.
Hypothesis Fa : fin a.
Hypothesis Ba : / 400000 <= BR a <= 32 / 100.

Local Notation HL := (lc_ok _ _ _ HLc).
Let g := acc_mapc L a.

Lemma acc_mapc_kind : gm_kind g = MCub.
Proof. reflexivity. Qed.

Lemma acc_mapc_reasonable : reasonable MCub g.
Proof using HLc Fa Ba.
  destruct (acc_hyps_c L k HL a Fa Ba) as (Fg & Hl & Hg1 & Fo & Bo).
  exact (mk_cub_reasonable L k HL _ Fg Hl Hg1 _ Fo Bo).
Qed.

Lemma acc_mapc_small : gm_small g.
Proof using HLc Fa Ba.
  destruct (acc_hyps_c L k HL a Fa Ba) as (Fg & Hl & Hg1 & Fo & Bo).
  destruct (cmult_props L k HL _ Fg Hl Hg1) as (Fm & BM & _).
  unfold gm_small, g, acc_mapc, mk_cub. cbn [gm_mult gm_off].
  change (bpow radix2 20) with 1048576. change (BR f64_zero) with 0. rewrite Rabs_R0.
  split; [exact Fm|]. split; [reflexivity|]. split; lra.
Qed.

Lemma acc_mapc_range_ok : gm_range_ok g.
Proof using HLc Fa Ba.
  destruct (acc_hyps_c L k HL a Fa Ba) as (Fg & Hl & Hg1 & Fo & Bo).
  exact (mk_cub_range_fin L k HL _ Fg Hl Hg1 _ Fo Bo).
Qed.

(* the accuracy premise of Bridge_C01_cub_accuracy_rnd64, for every finite value in the indexable range *)
Lemma acc_mapc_accuracy_Qc (alpha : Qc) (v : f64) :
  BR a + q34 <= qR alpha ->
  fin v -> (f2q (gm_min g) < f2q v)%Qc -> (f2q v <= f2q (gm_max g))%Qc ->
  (Qcabs (f2q (gm_value L g (gm_index L g v)) - f2q v) <= alpha * f2q v)%Qc.
Proof using HLc Fa Ba.
  intros Ha Fv Hlo Hhi. destruct acc_mapc_range_ok as (Fmin & Fmax & _).
  apply (f2q_lt_R _ _ Fmin Fv) in Hlo. apply (f2q_le_R _ _ Fv Fmax) in Hhi.
  destruct (with_accuracy_cub_accuracy L k kc HLc a Fa Ba v Fv Hlo Hhi) as (Hv & _ & FV & _ & _ & Acc).
  fold g in FV, Acc. destruct (bval_float v Hv) as (_ & _ & Pv).
  apply Rabs_le_inv in Acc.
  assert (Hb : (BR a + q34) * BR v <= qR alpha * BR v) by (apply Rmult_le_compat_r; lra).
  apply Qcabs_Qcle_condition. split; apply qR_le.
  - rewrite qR_opp, qR_mult, qR_minus, !f2q_B2R by assumption. lra.
  - rewrite qR_mult, qR_minus, !f2q_B2R by assumption. lra.
Qed.

(* C01 end to end for the mapping built by NewCubicallyInterpolatedMapping (a), under the hypotheses on
   the oracle only *)
Theorem C01_cub_end_to_end
  (fx : fixes) (m : mapid) (kp kn : kind) (exact : bool)
  (vs : list f64) (ys : list Qc) (q : f64) (alpha : Qc) :
  BR a + q34 <= qR alpha ->
  kind_limit kp = Exact -> kind_limit kn = Exact ->
  fD4 fx = true -> fD5 fx = true ->
  Forall (fun v => f_is_finite v = true) vs ->
  (forall v, In v vs -> (Qcabs (f2q v) <= f2q (gm_max g))%Qc) ->
  Permutation (map f2q vs) ys -> Sorted Qcle ys -> vs <> [] -> (Z.of_nat (length vs) <= 2 ^ 53)%Z ->
  fle f64_zero q = true -> fle q f64_one = true ->
  let mt := mt_of_gmap L g in
  exists s, plain_add_units mt (sk_new m kp kn exact) vs = ROk s /\ SkInv s /\
  exists (kk : nat) (s' : sketch) (y : Qc),
    (cfloor (f2q q * inj (Z.of_nat (length vs) - 1)) <= Z.of_nat kk <= cceil (f2q q * inj (Z.of_nat (length vs) - 1)))%Z /\
    (kk < length vs)%nat /\
    plain_quantile rnd64 fx mt s q = (s', ROk y) /\ SkInv s' /\ sk_abs s' = sk_abs s /\
    y = repr (am_of mt) (nth kk ys w0) /\
    (((Qcabs (nth kk ys w0) <= f2q (gm_min g))%Qc /\ y = w0) \/
     (Qcabs (y - nth kk ys w0) <= alpha * Qcabs (nth kk ys w0))%Qc).
Proof using HLc Fa Ba.
  intros Ha Hkp Hkn H4 H5 Hfin Hmax Hperm Hsort Hne Hlen Hq0 Hq1.
  apply (gmap_cub_quantile_accuracy_rnd64 L g fx m kp kn exact vs ys q alpha acc_mapc_kind
           acc_mapc_small acc_mapc_range_ok Hkp Hkn H4 H5 Hfin Hmax Hperm Hsort Hne Hlen Hq0 Hq1).
  intros v Hin Hlo.
  assert (Fv : fin v) by (rewrite Forall_forall in Hfin; exact (Hfin v Hin)).
  apply acc_mapc_accuracy_Qc; [exact Ha|apply fabs_fin; exact Fv|exact Hlo|].
  rewrite (f2q_fabs v Fv). exact (Hmax v Hin).
Qed.
End CubBridge.

(* ------------------------------------------------------------------ *)
(* N. satisfiability: a correctly rounded oracle                       *)
(* ------------------------------------------------------------------ *)
Definition L_ideal_c : libm :=
  {| l_log := l_log L_ideal; l_exp := l_exp L_ideal; l_exp2 := l_exp2 L_ideal; l_log2 := l_log2 L_ideal;
     l_pow := l_pow L_ideal; l_floor := l_floor L_ideal;
     l_cbrt := fun x => R2F (ncbrt (BR x)); l_sqrt := fun x => R2F (sqrt (BR x)) |}.

Theorem L_ideal_c_ok : libm_cub_ok L_ideal_c 1 1.
Proof.
  constructor.
  - destruct L_ideal_ok as [K1 K2 K3 K4 K5 K6 K7]. constructor; assumption.
  - lra.
  - intros x Fx Bx. cbn [l_sqrt L_ideal_c].
    assert (Bs : 0 <= sqrt (BR x) <= 2).
    { split; [apply sqrt_pos|]. apply Rle_trans with (sqrt 4); [apply sqrt_le_1_alt; lra|].
      replace 4 with (2 * 2) by ring. rewrite sqrt_square; lra. }
    destruct (R2F_correct (sqrt (BR x))) as (F & E).
    { apply (small_le_max 2); [lia|]. apply Rabs_le. simpl (IZR 2). lra. }
    split; assumption.
  - intros x Fx Bx. cbn [l_cbrt L_ideal_c].
    assert (Nx : BR x < 0) by lra.
    pose proof (ncbrt_cube (BR x) Nx) as Ec. pose proof (ncbrt_neg (BR x)) as Nc.
    set (c := ncbrt (BR x)) in *.
    assert (Bc : - 1 <= c <= - / 4).
    { split.
      - destruct (Rle_lt_dec (-1) c) as [H|H]; [exact H|exfalso]. assert (c * c >= 1) by nra. nra.
      - destruct (Rle_lt_dec c (- / 4)) as [H|H]; [exact H|exfalso]. assert (c * c <= / 16) by nra. nra. }
    destruct (R2F_correct c) as (F & E).
    { apply (small_le_max 1); [lia|]. apply Rabs_le. simpl (IZR 1). lra. }
    split; [exact F|]. exists c. split; [exact Ec|]. rewrite E, Rmult_1_l.
    assert (Hn : bpow radix2 (-1022) <= Rabs c).
    { rewrite Rabs_left1 by lra. apply Rle_trans with (bpow radix2 (-2)); [apply bpow_le; lia|].
      change (bpow radix2 (-2)) with (/ 4). lra. }
    exact (rndR_err_normal c Hn).
Qed.

Theorem ideal_instance_cub (a v : f64) :
  fin a -> / 400000 <= BR a <= 32 / 100 ->
  let m := acc_mapc L_ideal_c a in
  with_accuracy L_ideal_c MCub a = Some m /\
  (fin v -> BR (gm_min m) < BR v -> BR v <= BR (gm_max m) ->
   Rabs (BR (gm_value L_ideal_c m (gm_index L_ideal_c m v)) - BR v) <= (BR a + q34) * BR v).
Proof.
  intros Fa Ba m. split; [exact (with_accuracy_cub_eq L_ideal_c 1 (lc_ok _ _ _ L_ideal_c_ok) a Fa Ba)|].
  intros Fv Hlo Hhi.
  destruct (with_accuracy_cub_accuracy L_ideal_c 1 1 L_ideal_c_ok a Fa Ba v Fv Hlo Hhi) as (_ & _ & _ & _ & _ & H).
  exact H.
Qed.

(* ------------------------------------------------------------------ *)
(* O. the code before repair F11 is refuted by the values Go returns   *)
(* ------------------------------------------------------------------ *)
(* approximateInverseLog with buildFloat64 as it was before the clamp of significands below 1 *)
Definition approx_inverse_log_cub_f9 (L : libm) (x : f64) : f64 :=
  build_float64_f9 (int_of_f (l_floor L x)) (cub_sp1 L (fsub x (l_floor L x))).

(* math.Sqrt and math.Cbrt at the arguments met for the fraction 2^-53 (go1.23.5, amd64):
   d1 = 0x3fec7e8edbc34ff4, d1*d1 - 4 d0^3 = 0x3ff00d9a0c52e0dd, Sqrt = 0x3ff006cb8c163dc5,
   (d1 - Sqrt)/2 = 0xbfac7843c51edd30, Cbrt = 0xbfd86d8521b4e574 *)
Definition L_wit : libm :=
  {| l_log := fun x => x; l_exp := fun x => x; l_exp2 := fun x => x; l_log2 := fun x => x;
     l_pow := fun x _ => x; l_floor := fl_floor;
     l_sqrt := fun _ => fb 4607189890210937285; l_cbrt := fun _ => fb 13823919475046294260 |}.
Definition t_wit : f64 := fb 4368491638549381120.      (* 2^-53: floor 0, fraction 2^-53 *)

Theorem cub_unrepaired_refuted :
  bits_of_f64 (cub_sp1 L_wit (fsub t_wit (l_floor L_wit t_wit))) = 4607182418800017406%N /\   (* 0.9999999999999998 *)
  bits_of_f64 (approx_inverse_log_cub_f9 L_wit t_wit) = 4611686018427387902%N /\               (* 1.9999999999999996 *)
  bits_of_f64 (approx_inverse_log L_wit MCub t_wit) = 4607182418800017408%N.                   (* 1.0 *)
Proof. vm_compute. repeat split; reflexivity. Qed.


(* the same through the public API of the Go code: NewCubicallyInterpolatedMappingWithGamma (2, 0.9999999999999999)
   (multiplier 1, offset 0x3fefffffffffffff): LowerBound (0) has argument -(1 - 2^-53), floor -1, fraction 2^-53;
   before F11 it was 0.9999999999999998 (twice the bottom 0.5 of its bin), now 0.5 *)
Definition m_wit : gmap :=
  {| gm_kind := MCub; gm_gamma := c_two; gm_off := fb 4607182418800017407; gm_mult := f64_one;
     gm_min := f64_zero; gm_max := f64_zero |}.
Theorem cub_unrepaired_refuted_api :
  bits_of_f64 (approx_inverse_log_cub_f9 L_wit (lower_arg m_wit 0%Z)) = 4607182418800017406%N /\
  bits_of_f64 (gm_lower L_wit m_wit 0%Z) = 4602678819172646912%N.
Proof. vm_compute. split; reflexivity. Qed.

(* where the significand is at least 1 the code before F11 and the repaired code agree *)
Lemma f9_agrees (L : libm) (t : f64) :
  fin (cub_sp1 L (fsub t (l_floor L t))) -> cub_sp1_ok L t ->
  approx_inverse_log_cub_f9 L t = approx_inverse_log L MCub t.
Proof.
  intros Fs Hok. rewrite approx_inverse_log_cub_eq. unfold approx_inverse_log_cub_f9, build_float64_f9, build_float64.
  destruct (fle c_two _); [reflexivity|].
  destruct (flt _ f64_one) eqn:E; [|reflexivity].
  apply (flt_one _ Fs) in E. unfold cub_sp1_ok in Hok. lra.
Qed.

(* ... which holds for every argument whose fraction is at least 2^-44 *)
Theorem f9_agrees_of_frac (L : libm) (kc : R) (t : f64) :
  0 <= kc <= 32 -> sqrt_accurate L -> cbrt_accurate L kc -> floor_exact L ->
  fin t -> (-1022 <= Zfloor (BR t) <= 1023)%Z ->
  / 17592186044416 <= BR t - IZR (Zfloor (BR t)) ->
  approx_inverse_log_cub_f9 L t = approx_inverse_log L MCub t.
Proof.
  intros Hkc HS HC HF Ft Hn Hu. apply f9_agrees.
  - exact (proj1 (cub_sp1_R L kc Hkc HS HC HF t Ft Hn)).
  - exact (cub_sp1_ok_of_frac L kc Hkc HS HC HF t Ft Hn Hu).
Qed.

(* ------------------------------------------------------------------ *)
(* P. summaries (what Props/GlueCub.v restates)                        *)
(* ------------------------------------------------------------------ *)
Theorem with_gamma_cub_summary (L : libm) (k : R) (g off : f64) :
  libm_ok L k -> fin g ->
  lminc <= ln (BR g) / ln 2 <= 98 / 100 -> 1 <= BR g <= 2 ->
  fin off -> Rabs (BR off) <= 2048 * BR (multf L g) ->
  let m := mk_cub L g off in
  with_gamma L MCub g off = Some m /\ reasonable MCub m /\
  (fin (gm_min m) /\ fin (gm_max m) /\ bpow radix2 (-1022) <= BR (gm_min m)) /\
  exp (1 / (10 / 7 * BR (gm_mult m))) <= g0c_of L g <= 4 /\
  exp (7 / 10 * (ln (BR g) / ln 2)) * (1 - k * u53) <= g0c_of L g
     <= exp (7 / 10 * (ln (BR g) / ln 2)) * (1 + (2 * k + 5) * u53) /\
  value_factor_ok L m (g0c_of L g) ((k + 13) * u53).
Proof.
  intros HL Fg Hl Hg1 Fo Bo m.
  split; [exact (with_gamma_cub_eq L g Fg Hl Hg1 off)|].
  split; [exact (mk_cub_reasonable L k HL g Fg Hl Hg1 off Fo Bo)|].
  split; [exact (mk_cub_range_fin L k HL g Fg Hl Hg1 off Fo Bo)|].
  split; [exact (mk_cub_g0 L k HL g Fg Hl Hg1 off)|].
  split; [|exact (mk_cub_factor L k HL g Fg Hl Hg1 off)].
  destruct (Gc_props L k HL g Fg Hl Hg1) as (_ & _ & G3 & G2).
  pose proof (ku_small L k HL) as Hk. destruct (lo_k _ _ HL) as (K0 & K64).
  pose proof (exp_pos (7 / 10 * (ln (BR g) / ln 2))) as Pe.
  remember (exp (7 / 10 * (ln (BR g) / ln 2))) as X. remember (Gc L g) as G. remember (k * u53) as t.
  assert (Hu : u53 = / 9007199254740992) by reflexivity.
  unfold g0c_of. rewrite <- HeqG. split.
  - apply Rle_trans with (1 := G3). assert (0 <= G) by nra.
    rewrite <- (Rmult_1_r G) at 1. apply Rmult_le_compat_l; [lra|rewrite Hu; lra].
  - apply Rle_trans with (X * (1 + 2 * t) * (1 + 4 * u53)).
    + apply Rmult_le_compat_r; [rewrite Hu; lra|exact G2].
    + rewrite Rmult_assoc. apply Rmult_le_compat_l; [lra|].
      replace ((2 * k + 5) * u53) with (2 * t + 5 * u53) by (rewrite Heqt; ring).
      rewrite Hu in *. nra.
Qed.

Theorem with_accuracy_cub_summary (L : libm) (k : R) (a : f64) :
  libm_ok L k -> fin a -> / 400000 <= BR a <= 32 / 100 ->
  let m := acc_mapc L a in
  let g0 := g0c_of L (gammac L a) in
  let gp := (1 + BR a) / (1 - BR a) in
  with_accuracy L MCub a = Some m /\ gm_kind m = MCub /\ reasonable MCub m /\
  (fin (gm_min m) /\ fin (gm_max m) /\ bpow radix2 (-1022) <= BR (gm_min m)) /\
  exp (1 / (10 / 7 * BR (gm_mult m))) <= g0 <= 4 /\
  gp * (1 - (10 + 4 * k) * u53) <= g0 <= gp * (1 + (17 + 6 * k) * u53) /\
  alpha_of g0 <= BR a + (9 + 3 * k) * u53 /\
  value_factor_ok L m g0 ((k + 13) * u53).
Proof.
  intros HL Fa Ba m g0 gp.
  destruct (acc_hyps_c L k HL a Fa Ba) as (Fg & Hl & Hg1 & Fo & Bo).
  split; [exact (with_accuracy_cub_eq L k HL a Fa Ba)|].
  split; [reflexivity|].
  split; [exact (mk_cub_reasonable L k HL _ Fg Hl Hg1 _ Fo Bo)|].
  split; [exact (mk_cub_range_fin L k HL _ Fg Hl Hg1 _ Fo Bo)|].
  split; [exact (mk_cub_g0 L k HL _ Fg Hl Hg1 _)|].
  destruct (acc_g0_c L k HL a Fa Ba) as (B & Al).
  split; [exact B|]. split; [exact Al|].
  exact (mk_cub_factor L k HL _ Fg Hl Hg1 _).
Qed.
