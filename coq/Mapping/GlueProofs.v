(* Float-level theorems about the bit-exact model of the index mappings (Mapping/Glue.v).
   Every statement quantifies over ALL binary64 values satisfying the stated hypotheses; nothing is sampled.
   Proofs go through Flocq's [_correct] lemmas and [B2R]; the oracle [libm] stays abstract. *)
From Coq Require Import Bool NArith ZArith QArith Qcanon Qreals Reals Lra Lia Psatz.
From Flocq Require Import Core.Core IEEE754.BinarySingleNaN IEEE754.Binary IEEE754.Bits.
From SK Require Import Base.Prelude Base.F64 Base.F64Proofs Mapping.Glue.

#[local] Existing Instance prec53_gt_0.
#[local] Existing Instance fexp64_valid.

(* ------------------------------------------------------------------ *)
(* 0. notation and elementary facts                                    *)
(* ------------------------------------------------------------------ *)
(* abbreviations, not definitions: the statements below are literally about Flocq's B2R / is_finite
   (a defined wrapper would make the conversion test of a restated theorem normalise the float
   expression under it, which takes minutes on the cubic polynomial) *)
Notation BR x := (B2R 53 1024 x).
Notation fin x := (is_finite 53 1024 x = true).

(* finite, strictly positive, normal: 2^-1022 <= x (x < 2^1024 holds for every finite float) *)
Definition pos_normal (x : f64) : Prop := fin x /\ (bpow radix2 (-1022) <= BR x)%R.

(* Go: if index >= 0 { int(index) } else { int(index) - 1 } *)
Definition go_floor (a : f64) : Z := if fle f64_zero a then int_of_f a else int_of_f a - 1.

Lemma rndR_le (x y : R) : (x <= y)%R -> (rndR x <= rndR y)%R.
Proof. intros H. unfold rndR. apply round_le; [exact fexp64_valid|apply valid_rnd_N|exact H]. Qed.

Lemma rndR_generic (x : R) : generic_format radix2 (FLT_exp (-1074) 53) x -> rndR x = x.
Proof. intros H. unfold rndR. apply round_generic; [apply valid_rnd_N|exact H]. Qed.

Lemma rndR_IZR (z : Z) : Z.abs z <= 2 ^ 53 -> rndR (IZR z) = IZR z.
Proof. intros H. apply rndR_generic. apply int_format. exact H. Qed.

Lemma BR_format (x : f64) : generic_format radix2 (FLT_exp (-1074) 53) (BR x).
Proof. exact (generic_format_B2R 53 1024 x). Qed.

Lemma f64_zero_eq : f64_zero = B754_zero 53 1024 false.
Proof. reflexivity. Qed.
Lemma f64_pinf_eq : f64_pinf = B754_infinity 53 1024 false.
Proof. reflexivity. Qed.
Lemma f64_one_fin : fin f64_one.
Proof. reflexivity. Qed.
Lemma f64_one_BR : BR f64_one = 1%R.
Proof.
  unfold f64_one, f64_of_bits, b64_of_bits, binary_float_of_bits. rewrite B2R_FF2B.
  set (u := binary_float_of_bits_aux 52 11 _). vm_compute in u. subst u.
  unfold FF2R, F2R. cbn [Fnum Fexp cond_Zopp].
  change (bpow radix2 (-52)) with (/ IZR (Z.pow_pos 2 52))%R.
  change (Z.pow_pos 2 52) with 4503599627370496. field.
Qed.

(* the value of a float given by its bits *)
Lemma BR_fb (n : N) : BR (fb n) = FF2R radix2 (binary_float_of_bits_aux 52 11 (Z.of_N n)).
Proof. unfold fb, f64_of_bits, b64_of_bits, binary_float_of_bits. apply B2R_FF2B. Qed.

(* ---- the arithmetic operations, through Flocq's correctness theorems ---- *)
Lemma overflow_not_finite (z : f64) (s : bool) :
  B2FF 53 1024 z = binary_overflow 53 1024 mode_NE s -> is_finite 53 1024 z = false.
Proof. intros H. rewrite <- is_finite_B2FF, H. reflexivity. Qed.

Lemma fadd_R (a b : f64) : fin a -> fin b -> fin (fadd a b) -> BR (fadd a b) = rndR (BR a + BR b).
Proof.
  intros Ha Hb Hf.
  pose proof (Binary.Bplus_correct 53 1024 eq_refl eq_refl binop_nan_pl64 mode_NE a b Ha Hb) as H.
  change (Binary.Bplus 53 1024 eq_refl eq_refl binop_nan_pl64 mode_NE a b) with (fadd a b) in H.
  destruct (Rlt_bool _ _).
  - exact (proj1 H).
  - destruct H as (H & _). apply overflow_not_finite in H. congruence.
Qed.

Lemma fsub_R (a b : f64) : fin a -> fin b -> fin (fsub a b) -> BR (fsub a b) = rndR (BR a - BR b).
Proof.
  intros Ha Hb Hf.
  pose proof (Binary.Bminus_correct 53 1024 eq_refl eq_refl binop_nan_pl64 mode_NE a b Ha Hb) as H.
  change (Binary.Bminus 53 1024 eq_refl eq_refl binop_nan_pl64 mode_NE a b) with (fsub a b) in H.
  destruct (Rlt_bool _ _).
  - exact (proj1 H).
  - destruct H as (H & _). apply overflow_not_finite in H. congruence.
Qed.

Lemma fmul_R (a b : f64) : fin (fmul a b) -> BR (fmul a b) = rndR (BR a * BR b).
Proof.
  intros Hf.
  pose proof (Binary.Bmult_correct 53 1024 eq_refl eq_refl binop_nan_pl64 mode_NE a b) as H.
  change (Binary.Bmult 53 1024 eq_refl eq_refl binop_nan_pl64 mode_NE a b) with (fmul a b) in H.
  destruct (Rlt_bool _ _).
  - exact (proj1 H).
  - apply overflow_not_finite in H. congruence.
Qed.

(* no-overflow versions: the exact result is at most the largest float *)
Lemma fadd_bounded (a b : f64) : fin a -> fin b -> (Rabs (BR a + BR b) <= IZR f64max_Z)%R ->
  fin (fadd a b) /\ BR (fadd a b) = rndR (BR a + BR b).
Proof.
  intros Ha Hb Hr.
  pose proof (Binary.Bplus_correct 53 1024 eq_refl eq_refl binop_nan_pl64 mode_NE a b Ha Hb) as H.
  change (Binary.Bplus 53 1024 eq_refl eq_refl binop_nan_pl64 mode_NE a b) with (fadd a b) in H.
  rewrite Rlt_bool_true in H by (apply no_overflow_Rabs; exact Hr).
  destruct H as (H1 & H2 & _). split; assumption.
Qed.

Lemma fsub_bounded (a b : f64) : fin a -> fin b -> (Rabs (BR a - BR b) <= IZR f64max_Z)%R ->
  fin (fsub a b) /\ BR (fsub a b) = rndR (BR a - BR b).
Proof.
  intros Ha Hb Hr.
  pose proof (Binary.Bminus_correct 53 1024 eq_refl eq_refl binop_nan_pl64 mode_NE a b Ha Hb) as H.
  change (Binary.Bminus 53 1024 eq_refl eq_refl binop_nan_pl64 mode_NE a b) with (fsub a b) in H.
  rewrite Rlt_bool_true in H by (apply no_overflow_Rabs; exact Hr).
  destruct H as (H1 & H2 & _). split; assumption.
Qed.

Lemma fmul_bounded (a b : f64) : fin a -> fin b -> (Rabs (BR a * BR b) <= IZR f64max_Z)%R ->
  fin (fmul a b) /\ BR (fmul a b) = rndR (BR a * BR b).
Proof.
  intros Ha Hb Hr.
  pose proof (Binary.Bmult_correct 53 1024 eq_refl eq_refl binop_nan_pl64 mode_NE a b) as H.
  change (Binary.Bmult 53 1024 eq_refl eq_refl binop_nan_pl64 mode_NE a b) with (fmul a b) in H.
  rewrite Rlt_bool_true in H by (apply no_overflow_Rabs; exact Hr).
  destruct H as (H1 & H2 & _). split; [rewrite H2, Ha, Hb; reflexivity|exact H1].
Qed.

(* a finite result has finite operands *)
Lemma fadd_fin_inv (a b : f64) : fin (fadd a b) -> fin a /\ fin b.
Proof.
  unfold fadd, b64_plus, Binary.Bplus. rewrite is_finite_BSN2B.
  destruct a as [sa|sa|sa pa Ha|sa ma ea Ha]; destruct b as [sb|sb|sb pb Hb|sb mb eb Hb];
    cbn [B2BSN BinarySingleNaN.Bplus]; intros H; try (split; reflexivity);
    try discriminate H; try (destruct (Bool.eqb sa sb); discriminate H).
Qed.

Lemma fmul_fin_inv (a b : f64) : fin (fmul a b) -> fin a /\ fin b.
Proof.
  unfold fmul, b64_mult, Binary.Bmult. rewrite is_finite_BSN2B.
  destruct a as [sa|sa|sa pa Ha|sa ma ea Ha]; destruct b as [sb|sb|sb pb Hb|sb mb eb Hb];
    cbn [B2BSN BinarySingleNaN.Bmult]; intros H; try (split; reflexivity); try discriminate H.
Qed.

(* comparison with zero *)
Lemma fle_zero (a : f64) : fin a -> fle f64_zero a = true <-> (0 <= BR a)%R.
Proof.
  unfold fle, fcmp, b64_compare. intros Ha.
  rewrite (Binary.Bcompare_correct 53 1024 f64_zero a eq_refl Ha).
  change (B2R 53 1024 f64_zero) with 0%R.
  destruct (Rcompare_spec 0 (B2R 53 1024 a)); split; intros; try reflexivity; try discriminate; lra.
Qed.

Lemma int_of_f_R (a : f64) : int_of_f a = Ztrunc (BR a).
Proof.
  apply eq_IZR. unfold int_of_f. rewrite Binary.Btrunc_correct. rewrite round_FIX_IZR.
  - reflexivity.
  - reflexivity.
Qed.

(* ------------------------------------------------------------------ *)
(* 1. the "Go floor"                                                   *)
(* ------------------------------------------------------------------ *)
Lemma go_floor_R (a : f64) : fin a ->
  ((0 <= BR a)%R -> go_floor a = Zfloor (BR a)) /\ ((BR a < 0)%R -> go_floor a = Zceil (BR a) - 1).
Proof.
  intros Ha. unfold go_floor. rewrite int_of_f_R. split; intros H.
  - rewrite (proj2 (fle_zero a Ha) H). apply Ztrunc_floor. exact H.
  - destruct (fle f64_zero a) eqn:E.
    + apply (fle_zero a Ha) in E. lra.
    + rewrite Ztrunc_ceil by lra. reflexivity.
Qed.

Lemma go_floor_mono (a b : f64) : fin a -> fin b -> (BR a <= BR b)%R -> go_floor a <= go_floor b.
Proof.
  intros Ha Hb Hab.
  destruct (go_floor_R a Ha) as (Pa & Na). destruct (go_floor_R b Hb) as (Pb & Nb).
  destruct (Rle_lt_dec 0 (BR a)) as [A|A]; destruct (Rle_lt_dec 0 (BR b)) as [B|B].
  - rewrite (Pa A), (Pb B). apply Zfloor_le. exact Hab.
  - lra.
  - rewrite (Na A), (Pb B).
    assert (Zceil (BR a) <= 0) by (apply Zceil_glb; simpl; lra).
    assert (0 <= Zfloor (BR b)) by (apply Zfloor_lub; simpl; lra). lia.
  - rewrite (Na A), (Nb B). pose proof (Zceil_le _ _ Hab). lia.
Qed.

(* the common tail of the three Index methods *)
Definition index_of (al mult off : f64) : Z := go_floor (fadd (fmul al mult) off).

Lemma gm_index_eq (L : libm) (m : gmap) (v : f64) :
  gm_index L m v = index_of (approx_log L (gm_kind m) v) (gm_mult m) (gm_off m).
Proof. reflexivity. Qed.

Lemma index_of_mono (ax ay mult off : f64) :
  fin (fadd (fmul ax mult) off) -> fin (fadd (fmul ay mult) off) ->
  (0 <= BR mult)%R -> (BR ax <= BR ay)%R -> index_of ax mult off <= index_of ay mult off.
Proof.
  intros Fx Fy Hm Hxy. unfold index_of.
  destruct (fadd_fin_inv _ _ Fx) as (Fpx & Fo). destruct (fadd_fin_inv _ _ Fy) as (Fpy & _).
  apply go_floor_mono; [exact Fx|exact Fy|].
  rewrite (fadd_R _ _ Fpx Fo Fx), (fadd_R _ _ Fpy Fo Fy), (fmul_R _ _ Fpx), (fmul_R _ _ Fpy).
  apply rndR_le. apply Rplus_le_compat_r. apply rndR_le. apply Rmult_le_compat_r; assumption.
Qed.

(* ------------------------------------------------------------------ *)
(* 2. structure of positive normal floats                             *)
(* ------------------------------------------------------------------ *)
Lemma bounded_inv (mx : positive) (ex : Z) :
  SpecFloat.bounded 53 1024 mx ex = true -> -1021 <= Zdigits radix2 (Zpos mx) + ex ->
  2 ^ 52 <= Zpos mx < 2 ^ 53 /\ -1074 <= ex <= 971.
Proof.
  intros H Hd. unfold SpecFloat.bounded in H. apply andb_prop in H. destruct H as (Hc & He).
  unfold SpecFloat.canonical_mantissa in Hc. rewrite Zpos_digits2_pos in Hc.
  apply Zeq_bool_eq in Hc. apply Zle_bool_imp_le in He.
  unfold SpecFloat.fexp, SpecFloat.emin in Hc.
  pose proof (Zdigits_correct radix2 (Zpos mx)) as Hz.
  assert (Hd53 : Zdigits radix2 (Zpos mx) = 53) by lia.
  rewrite Hd53 in Hz. change (Z.abs (Zpos mx)) with (Zpos mx) in Hz.
  change (radix2 ^ (53 - 1)) with (2 ^ 52) in Hz. change (radix2 ^ 53) with (2 ^ 53) in Hz.
  split; [exact Hz|lia].
Qed.

Lemma bounded_53 (mx : positive) (ex : Z) :
  2 ^ 52 <= Zpos mx < 2 ^ 53 -> -1074 <= ex <= 971 -> SpecFloat.bounded 53 1024 mx ex = true.
Proof.
  intros Hm He. unfold SpecFloat.bounded, SpecFloat.canonical_mantissa. rewrite Zpos_digits2_pos.
  assert (Hd : Zdigits radix2 (Zpos mx) = 53).
  { apply Zdigits_unique. change (Z.abs (Zpos mx)) with (Zpos mx).
    change (radix2 ^ (53 - 1)) with (2 ^ 52). change (radix2 ^ 53) with (2 ^ 53). exact Hm. }
  rewrite Hd. apply andb_true_intro. split.
  - apply Zeq_bool_true. unfold SpecFloat.fexp, SpecFloat.emin. lia.
  - apply Zle_bool_true. lia.
Qed.

Lemma pos_normal_inv (x : f64) : pos_normal x ->
  exists mx ex H, x = B754_finite 53 1024 false mx ex H /\
                  2 ^ 52 <= Zpos mx < 2 ^ 53 /\ -1074 <= ex <= 971.
Proof.
  intros (Hf & Hb).
  pose proof (bpow_gt_0 radix2 (-1022)) as Hp.
  destruct x as [s|s|s pl Hpl|s m e H]; try discriminate Hf.
  - simpl in Hb. lra.
  - destruct s.
    + exfalso. simpl in Hb.
      assert (F2R (Float radix2 (Zneg m) e) < 0)%R by (apply F2R_lt_0; reflexivity). lra.
    + exists m, e, H. split; [reflexivity|].
      apply bounded_inv; [exact H|].
      simpl in Hb. rewrite <- (mag_F2R_Zdigits radix2 (Zpos m) e) by discriminate.
      apply mag_ge_bpow. rewrite Rabs_pos_eq by lra. exact Hb.
Qed.

(* ------------------------------------------------------------------ *)
(* 3. bit patterns of normal floats, masks                             *)
(* ------------------------------------------------------------------ *)
Lemma bits_of_normal (s : bool) (mx : positive) (ex : Z) (H : SpecFloat.bounded 53 1024 mx ex = true) :
  2 ^ 52 <= Zpos mx < 2 ^ 53 -> -1074 <= ex <= 971 ->
  bits_of_b64 (B754_finite 53 1024 s mx ex H) =
    ((if s then 2048 else 0) + (ex + 1075)) * 2 ^ 52 + (Zpos mx - 2 ^ 52).
Proof.
  intros Hm He. unfold bits_of_b64, bits_of_binary_float.
  change (SpecFloat.emin (52 + 1) (2 ^ (11 - 1))) with (-1074).
  rewrite Zle_bool_true by lia. unfold join_bits. rewrite Z.shiftl_mul_pow2 by lia.
  change (2 ^ 11) with 2048. destruct s; ring.
Qed.

Lemma of_bits_normal (E f : Z) : 1 <= E <= 2046 -> 0 <= f < 2 ^ 52 ->
  exists mx H, b64_of_bits (E * 2 ^ 52 + f) = B754_finite 53 1024 false mx (E - 1075) H /\
               Zpos mx = f + 2 ^ 52.
Proof.
  intros HE Hf.
  assert (Hm : Zpos (Z.to_pos (f + 2 ^ 52)) = f + 2 ^ 52) by (apply Z2Pos.id; lia).
  assert (Hm' : 2 ^ 52 <= Zpos (Z.to_pos (f + 2 ^ 52)) < 2 ^ 53)
    by (rewrite Hm; change (2 ^ 53) with (2 ^ 52 + 2 ^ 52); lia).
  assert (He : -1074 <= E - 1075 <= 971) by lia.
  exists (Z.to_pos (f + 2 ^ 52)), (bounded_53 _ _ Hm' He). split; [|exact Hm].
  rewrite <- (binary_float_of_bits_of_binary_float 52 11 eq_refl eq_refl eq_refl
                (B754_finite 53 1024 false _ _ (bounded_53 _ _ Hm' He))).
  unfold b64_of_bits. f_equal.
  change (bits_of_binary_float 52 11) with bits_of_b64.
  rewrite (bits_of_normal false _ _ _ Hm' He), Hm. ring.
Qed.

(* ---- masks ---- *)
Lemma land_disjoint (E f : Z) : 0 <= f < 2 ^ 52 -> Z.land (E * 2 ^ 52) f = 0.
Proof.
  intros Hf. apply Z.bits_inj'. intros n Hn. rewrite Z.land_spec, Z.bits_0.
  destruct (Z.lt_ge_cases n 52) as [Hlt|Hge].
  - rewrite <- Z.shiftl_mul_pow2 by lia. rewrite Z.shiftl_spec_low by exact Hlt. reflexivity.
  - rewrite <- (Z.mod_small f (2 ^ 52)) by exact Hf.
    rewrite Z.mod_pow2_bits_high by lia. apply andb_false_r.
Qed.

Lemma lor_disjoint (E f : Z) : 0 <= f < 2 ^ 52 -> Z.lor (E * 2 ^ 52) f = E * 2 ^ 52 + f.
Proof.
  intros Hf. pose proof (land_disjoint E f Hf) as H0.
  rewrite <- Z.lxor_lor by exact H0. symmetry. apply Z.add_nocarry_lxor. exact H0.
Qed.

Lemma N2Z_land (a b : N) : Z.of_N (N.land a b) = Z.land (Z.of_N a) (Z.of_N b).
Proof. destruct a, b; reflexivity. Qed.
Lemma N2Z_lor (a b : N) : Z.of_N (N.lor a b) = Z.lor (Z.of_N a) (Z.of_N b).
Proof. destruct a, b; reflexivity. Qed.
Lemma N2Z_shiftr (a n : N) : Z.of_N (N.shiftr a n) = Z.shiftr (Z.of_N a) (Z.of_N n).
Proof.
  rewrite N.shiftr_div_pow2, N2Z.inj_div, N2Z.inj_pow, Z.shiftr_div_pow2 by apply N2Z.is_nonneg.
  reflexivity.
Qed.

Lemma exponent_field (E f : Z) : 0 <= E < 2048 -> 0 <= f < 2 ^ 52 ->
  Z.of_N (N.shiftr (N.land (Z.to_N (E * 2 ^ 52 + f)) exponent_mask) 52) = E.
Proof.
  intros HE Hf. rewrite N2Z_shiftr, N2Z_land, Z2N.id by lia.
  rewrite Z.shiftr_land, !Z.shiftr_div_pow2 by lia.
  change (Z.of_N 52) with 52.
  rewrite Z.div_add_l by lia. rewrite (Z.div_small f) by lia. rewrite Z.add_0_r.
  change (Z.of_N exponent_mask / 2 ^ 52) with (Z.ones 11).
  rewrite Z.land_ones by lia. apply Z.mod_small. change (2 ^ 11) with 2048. exact HE.
Qed.

Lemma significand_field (E f : Z) : 0 <= E -> 0 <= f < 2 ^ 52 ->
  Z.of_N (N.land (Z.to_N (E * 2 ^ 52 + f)) significand_mask) = f.
Proof.
  intros HE Hf. rewrite N2Z_land, Z2N.id by lia.
  change (Z.of_N significand_mask) with (Z.ones 52).
  rewrite Z.land_ones by lia. rewrite Z.add_comm, Z_mod_plus_full. apply Z.mod_small. exact Hf.
Qed.

(* ------------------------------------------------------------------ *)
(* 4. getExponent / getSignificandPlusOne on positive normal floats    *)
(* ------------------------------------------------------------------ *)
Lemma f_of_int_correct (i : Z) : Z.abs i <= 2 ^ 53 -> fin (f_of_int i) /\ BR (f_of_int i) = IZR i.
Proof.
  intros Hi. unfold f_of_int, w_of_Z.
  destruct (q2f_correct (Q2Qc (inject_Z i)) (dyadic_of_Z i)) as (HF & HR).
  - rewrite qR_of_Z, rndR_IZR by exact Hi. apply int_lt_emax; exact Hi.
  - split; [exact HF|]. rewrite HR, qR_of_Z. apply rndR_IZR; exact Hi.
Qed.

(* the unbiased exponent of a nonzero real: 2^e <= |r| < 2^(e+1) *)
Definition x_exp (x : f64) : Z := mag radix2 (BR x) - 1.

Lemma Zdigits_53 (mx : positive) : 2 ^ 52 <= Zpos mx < 2 ^ 53 -> Zdigits radix2 (Zpos mx) = 53.
Proof.
  intros Hm. apply Zdigits_unique. change (Z.abs (Zpos mx)) with (Zpos mx).
  change (radix2 ^ (53 - 1)) with (2 ^ 52). change (radix2 ^ 53) with (2 ^ 53). exact Hm.
Qed.

Lemma x_exp_finite (mx : positive) (ex : Z) (H : SpecFloat.bounded 53 1024 mx ex = true) :
  2 ^ 52 <= Zpos mx < 2 ^ 53 -> x_exp (B754_finite 53 1024 false mx ex H) = ex + 52.
Proof.
  intros Hm. unfold x_exp. cbn [B2R cond_Zopp].
  rewrite mag_F2R_Zdigits by discriminate. rewrite (Zdigits_53 mx Hm). lia.
Qed.

Lemma F2R_52 (mx : positive) : 2 ^ 52 <= Zpos mx < 2 ^ 53 ->
  (1 <= F2R (Float radix2 (Zpos mx) (-52)) < 2)%R.
Proof.
  intros Hm.
  assert (H1 : F2R (Float radix2 (2 ^ 52) (-52)) = 1%R).
  { unfold F2R. cbn [Fnum Fexp]. change (bpow radix2 (-52)) with (/ IZR (Z.pow_pos 2 52))%R.
    change (Z.pow_pos 2 52) with (2 ^ 52). change (2 ^ 52) with 4503599627370496. field. }
  assert (H2 : F2R (Float radix2 (2 ^ 53) (-52)) = 2%R).
  { unfold F2R. cbn [Fnum Fexp]. change (bpow radix2 (-52)) with (/ IZR (Z.pow_pos 2 52))%R.
    change (Z.pow_pos 2 52) with 4503599627370496. change (2 ^ 53) with 9007199254740992. field. }
  rewrite <- H1, <- H2. split; [apply F2R_le|apply F2R_lt]; lia.
Qed.

Lemma F2R_split (m e : Z) :
  F2R (Float radix2 m e) = (F2R (Float radix2 m (-52)) * bpow radix2 (e + 52))%R.
Proof.
  unfold F2R. cbn [Fnum Fexp]. rewrite Rmult_assoc, <- bpow_plus. f_equal. f_equal. lia.
Qed.

Lemma decompose (x : f64) : pos_normal x ->
  exists mx ex H H', x = B754_finite 53 1024 false mx ex H /\
    2 ^ 52 <= Zpos mx < 2 ^ 53 /\ -1074 <= ex <= 971 /\
    bits_of_f64 x = Z.to_N ((ex + 1075) * 2 ^ 52 + (Zpos mx - 2 ^ 52)) /\
    get_exponent (bits_of_f64 x) = f_of_int (ex + 52) /\
    get_significand_plus_one (bits_of_f64 x) = B754_finite 53 1024 false mx (-52) H'.
Proof.
  intros Hx. destruct (pos_normal_inv x Hx) as (mx & ex & H & -> & Hm & He).
  assert (Hb : bits_of_f64 (B754_finite 53 1024 false mx ex H) =
               Z.to_N ((ex + 1075) * 2 ^ 52 + (Zpos mx - 2 ^ 52))).
  { unfold bits_of_f64. rewrite (bits_of_normal false mx ex H Hm He). f_equal. }
  destruct (of_bits_normal 1023 (Zpos mx - 2 ^ 52) ltac:(lia) ltac:(lia)) as (mx' & H' & Eb & Em).
  assert (mx' = mx) by lia. subst mx'. change (1023 - 1075) with (-52) in *.
  exists mx, ex, H, H'. repeat split; try lia; try exact Hb.
  - rewrite Hb. unfold get_exponent. rewrite exponent_field by lia. f_equal. lia.
  - rewrite Hb. unfold get_significand_plus_one, fb, f64_of_bits.
    rewrite N2Z_lor, significand_field by lia.
    change (Z.of_N one_mask) with (1023 * 2 ^ 52). rewrite Z.lor_comm, lor_disjoint by lia.
    exact Eb.
Qed.

(* ------------------------------------------------------------------ *)
(* 5. approximateLog of the linearly interpolated mapping              *)
(* ------------------------------------------------------------------ *)
Definition sp1_of (x : f64) : f64 := get_significand_plus_one (bits_of_f64 x).

(* the decomposition, in terms of real numbers *)
Lemma decompose_R (x : f64) : pos_normal x ->
  -1022 <= x_exp x <= 1023 /\
  get_exponent (bits_of_f64 x) = f_of_int (x_exp x) /\
  fin (get_exponent (bits_of_f64 x)) /\ BR (get_exponent (bits_of_f64 x)) = IZR (x_exp x) /\
  fin (sp1_of x) /\ (1 <= BR (sp1_of x) < 2)%R /\
  BR x = (BR (sp1_of x) * bpow radix2 (x_exp x))%R.
Proof.
  intros Hx. destruct (decompose x Hx) as (mx & ex & H & H' & -> & Hm & He & Hb & Hge & Hgs).
  rewrite (x_exp_finite mx ex H Hm). unfold sp1_of. rewrite Hge, Hgs.
  destruct (f_of_int_correct (ex + 52) ltac:(lia)) as (Ff & Rf).
  repeat split; try lia; try assumption.
  - cbn [B2R cond_Zopp]. apply (F2R_52 mx Hm).
  - cbn [B2R cond_Zopp]. apply (F2R_52 mx Hm).
  - cbn [B2R cond_Zopp]. apply F2R_split.
Qed.

Lemma x_exp_mono (x y : f64) : pos_normal x -> (BR x <= BR y)%R -> x_exp x <= x_exp y.
Proof.
  intros (_ & Hx) Hxy. unfold x_exp.
  pose proof (bpow_gt_0 radix2 (-1022)).
  assert (mag radix2 (BR x) <= mag radix2 (BR y)) by (apply mag_le; lra). lia.
Qed.

(* e + m is monotone in x = m * 2^e *)
Lemma lin_arg_mono (x y : f64) : pos_normal x -> pos_normal y -> (BR x <= BR y)%R ->
  (IZR (x_exp x) + BR (sp1_of x) <= IZR (x_exp y) + BR (sp1_of y))%R.
Proof.
  intros Hx Hy Hxy.
  destruct (decompose_R x Hx) as (_ & _ & _ & _ & _ & Mx & Ex).
  destruct (decompose_R y Hy) as (_ & _ & _ & _ & _ & My & Ey).
  pose proof (x_exp_mono x y Hx Hxy) as He.
  destruct (Z.eq_dec (x_exp x) (x_exp y)) as [E|E].
  - rewrite E in *. apply Rplus_le_compat_l.
    pose proof (bpow_gt_0 radix2 (x_exp y)) as Hp.
    apply Rmult_le_reg_r with (bpow radix2 (x_exp y)); [exact Hp|]. rewrite <- Ex, <- Ey. exact Hxy.
  - assert (IZR (x_exp x) + 1 <= IZR (x_exp y))%R by (rewrite <- plus_IZR; apply IZR_le; lia). lra.
Qed.

Lemma rndR_abs_le (r : R) (z : Z) : Z.abs z <= 2 ^ 53 -> (Rabs r <= IZR z)%R -> (Rabs (rndR r) <= IZR z)%R.
Proof.
  intros Hz Hr. unfold rndR. apply abs_round_le_generic.
  - exact fexp64_valid.
  - apply valid_rnd_N.
  - apply int_format. exact Hz.
  - exact Hr.
Qed.

Lemma small_le_max (z : Z) (r : R) : Z.abs z <= 2 ^ 53 -> (Rabs r <= IZR z)%R -> (Rabs r <= IZR f64max_Z)%R.
Proof.
  intros Hz Hr. apply Rle_trans with (IZR z); [exact Hr|]. apply IZR_le.
  apply Z.le_trans with (2 ^ 53); [lia|]. unfold f64max_Z.
  assert (1 <= 2 ^ 971) by (apply (Z.pow_le_mono_r 2 0 971); lia).
  change (2 ^ 53 - 1) with 9007199254740991. change (2 ^ 53) with 9007199254740992.
  assert (2 <= 2 ^ 971) by (apply (Z.pow_le_mono_r 2 1 971); lia). nia.
Qed.

Section Lin.
Variable L : libm.

(* the two roundings of  getExponent + getSignificandPlusOne - 1 *)
Lemma approx_log_lin_R (x : f64) : pos_normal x ->
  fin (approx_log L MLin x) /\
  BR (approx_log L MLin x) = rndR (rndR (IZR (x_exp x) + BR (sp1_of x)) - 1) /\
  (Rabs (BR (approx_log L MLin x)) <= 1026)%R.
Proof.
  intros Hx. destruct (decompose_R x Hx) as (Be & _ & Fe & Re & Fs & Ms & _).
  unfold approx_log. fold (sp1_of x).
  assert (B1 : (Rabs (IZR (x_exp x) + BR (sp1_of x)) <= IZR 1025)%R).
  { assert (-1022 <= IZR (x_exp x) <= 1023)%R by (split; apply IZR_le; lia).
    apply Rabs_le. lra. }
  destruct (fadd_bounded _ _ Fe Fs) as (F1 & R1).
  { rewrite Re. apply (small_le_max 1025); [lia|exact B1]. }
  rewrite Re in R1.
  assert (B2 : (Rabs (BR (fadd (get_exponent (bits_of_f64 x)) (sp1_of x))) <= IZR 1025)%R).
  { rewrite R1. apply rndR_abs_le; [lia|exact B1]. }
  assert (B3 : (Rabs (BR (fadd (get_exponent (bits_of_f64 x)) (sp1_of x)) - BR f64_one) <= IZR 1026)%R).
  { rewrite f64_one_BR. apply Rabs_le_inv in B2. apply Rabs_le. lra. }
  destruct (fsub_bounded _ _ F1 f64_one_fin) as (F2 & R2).
  { apply (small_le_max 1026); [lia|exact B3]. }
  split; [exact F2|]. split.
  - rewrite R2, R1, f64_one_BR. reflexivity.
  - rewrite R2. apply (rndR_abs_le _ 1026); [lia|exact B3].
Qed.

Lemma approx_log_lin_mono (x y : f64) : pos_normal x -> pos_normal y -> (BR x <= BR y)%R ->
  (BR (approx_log L MLin x) <= BR (approx_log L MLin y))%R.
Proof.
  intros Hx Hy Hxy.
  destruct (approx_log_lin_R x Hx) as (_ & -> & _). destruct (approx_log_lin_R y Hy) as (_ & -> & _).
  apply rndR_le. apply Rplus_le_compat_r. apply rndR_le. apply lin_arg_mono; assumption.
Qed.
End Lin.

(* ------------------------------------------------------------------ *)
(* 6. monotonicity of Index                                            *)
(* ------------------------------------------------------------------ *)
Lemma bpow40 : bpow radix2 40 = IZR 1099511627776.
Proof. reflexivity. Qed.

(* no overflow in  al * mult + off  when |al| <= 1026, |mult| <= 2^40, |off| <= 2^40 *)
Lemma index_arg_fin (al mult off : f64) : fin al -> fin mult -> fin off ->
  (Rabs (BR al) <= 1026)%R -> (Rabs (BR mult) <= bpow radix2 40)%R -> (Rabs (BR off) <= bpow radix2 40)%R ->
  fin (fadd (fmul al mult) off).
Proof.
  rewrite bpow40. intros Fa Fm Fo Ba Bm Bo.
  assert (B1 : (Rabs (BR al * BR mult) <= IZR 1128098930098176)%R).
  { rewrite Rabs_mult. replace (IZR 1128098930098176) with (1026 * IZR 1099511627776)%R by lra.
    apply Rmult_le_compat; try apply Rabs_pos; assumption. }
  destruct (fmul_bounded al mult Fa Fm) as (F1 & R1).
  { apply (small_le_max 1128098930098176); [lia|exact B1]. }
  assert (B2 : (Rabs (BR (fmul al mult)) <= IZR 1128098930098176)%R).
  { rewrite R1. apply rndR_abs_le; [lia|exact B1]. }
  destruct (fadd_bounded (fmul al mult) off F1 Fo) as (F2 & _); [|exact F2].
  apply (small_le_max 1129198441725952); [lia|].
  apply Rle_trans with (1 := Rabs_triang _ _). lra.
Qed.

Section Index.
Variable L : libm.

Theorem lin_index_mono (m : gmap) (x y : f64) :
  gm_kind m = MLin -> (0 <= BR (gm_mult m))%R ->
  pos_normal x -> pos_normal y -> (BR x <= BR y)%R ->
  fin (fadd (fmul (approx_log L MLin x) (gm_mult m)) (gm_off m)) ->
  fin (fadd (fmul (approx_log L MLin y) (gm_mult m)) (gm_off m)) ->
  gm_index L m x <= gm_index L m y.
Proof.
  intros K Hm Hx Hy Hxy Fx Fy. rewrite !gm_index_eq, K.
  apply index_of_mono; try assumption. apply approx_log_lin_mono; assumption.
Qed.

Theorem lin_index_mono_bounded (m : gmap) (x y : f64) :
  gm_kind m = MLin -> fin (gm_mult m) -> fin (gm_off m) ->
  (0 <= BR (gm_mult m) <= bpow radix2 40)%R -> (Rabs (BR (gm_off m)) <= bpow radix2 40)%R ->
  pos_normal x -> pos_normal y -> (BR x <= BR y)%R ->
  gm_index L m x <= gm_index L m y.
Proof.
  intros K Fm Fo Bm Bo Hx Hy Hxy.
  destruct (approx_log_lin_R L x Hx) as (Fax & _ & Bax).
  destruct (approx_log_lin_R L y Hy) as (Fay & _ & Bay).
  assert (Bm' : (Rabs (BR (gm_mult m)) <= bpow radix2 40)%R) by (apply Rabs_le; lra).
  apply lin_index_mono; try assumption; try lra; apply index_arg_fin; assumption.
Qed.

(* the logarithmic mapping, relative to a monotone oracle *)
Theorem log_index_mono (m : gmap) (x y : f64) :
  gm_kind m = MLog -> (0 <= BR (gm_mult m))%R ->
  (forall a b : f64, fin a -> fin b -> (0 < BR a)%R -> (BR a <= BR b)%R ->
                     (BR (l_log L a) <= BR (l_log L b))%R) ->
  fin x -> fin y -> (0 < BR x)%R -> (BR x <= BR y)%R ->
  fin (fadd (fmul (l_log L x) (gm_mult m)) (gm_off m)) ->
  fin (fadd (fmul (l_log L y) (gm_mult m)) (gm_off m)) ->
  gm_index L m x <= gm_index L m y.
Proof.
  intros K Hm Hlog Fx Fy Hx Hxy Fix_ Fiy. rewrite !gm_index_eq, K.
  change (approx_log L MLog x) with (l_log L x). change (approx_log L MLog y) with (l_log L y).
  apply index_of_mono; try assumption. apply Hlog; assumption.
Qed.

(* the oracle returns finite values of magnitude at most 1026 (|ln v| < 745 on finite positive v) *)
Theorem log_index_mono_bounded (m : gmap) (x y : f64) :
  gm_kind m = MLog -> fin (gm_mult m) -> fin (gm_off m) ->
  (0 <= BR (gm_mult m) <= bpow radix2 40)%R -> (Rabs (BR (gm_off m)) <= bpow radix2 40)%R ->
  (forall a b : f64, fin a -> fin b -> (0 < BR a)%R -> (BR a <= BR b)%R ->
                     (BR (l_log L a) <= BR (l_log L b))%R) ->
  (forall a : f64, fin a -> (0 < BR a)%R -> fin (l_log L a) /\ (Rabs (BR (l_log L a)) <= 1026)%R) ->
  fin x -> fin y -> (0 < BR x)%R -> (BR x <= BR y)%R ->
  gm_index L m x <= gm_index L m y.
Proof.
  intros K Fm Fo Bm Bo Hlog Hfin Fx Fy Hx Hxy.
  destruct (Hfin x Fx Hx) as (Fax & Bax). destruct (Hfin y Fy ltac:(lra)) as (Fay & Bay).
  assert (Bm' : (Rabs (BR (gm_mult m)) <= bpow radix2 40)%R) by (apply Rabs_le; lra).
  apply log_index_mono; try assumption; try lra; apply index_arg_fin; assumption.
Qed.

End Index.

(* ------------------------------------------------------------------ *)
(* 7. buildFloat64 (build_float64_raw = before the significand-2 repair, build_float64 = repaired) *)
(* ------------------------------------------------------------------ *)
Lemma exponent_field_shifted (E : Z) : 0 <= E < 2048 ->
  Z.land (E * 2 ^ 52) (Z.of_N exponent_mask) = E * 2 ^ 52.
Proof.
  intros HE. change (Z.of_N exponent_mask) with (2047 * 2 ^ 52).
  rewrite <- !Z.shiftl_mul_pow2 by lia. rewrite <- Z.shiftl_land.
  change 2047 with (Z.ones 11). rewrite Z.land_ones by lia. rewrite Z.mod_small; [reflexivity|].
  change (2 ^ 11) with 2048. exact HE.
Qed.

Lemma bpow_m52 : bpow radix2 (-52) = (/ IZR 4503599627370496)%R.
Proof. reflexivity. Qed.

(* multiples of 2^-52 below 2 in magnitude are binary64 values *)
Lemma format_52 (k : Z) : Z.abs k < 2 ^ 53 ->
  generic_format radix2 (FLT_exp (-1074) 53) (IZR k * bpow radix2 (-52)).
Proof.
  intros Hk. apply generic_format_FLT.
  apply (FLT_spec radix2 (-1074) 53 _ (Float radix2 k (-52))).
  - reflexivity.
  - cbn [Fnum]. change (radix2 ^ 53) with (2 ^ 53). exact Hk.
  - cbn [Fexp]. lia.
Qed.

(* every binary64 of magnitude at least 1 is a multiple of 2^-52 *)
Lemma multiple_52_of_ge_1 (t : f64) : (1 <= Rabs (BR t))%R ->
  exists k : Z, BR t = (IZR k * bpow radix2 (-52))%R.
Proof.
  intros Ht. pose proof (BR_format t) as Hg. unfold generic_format in Hg.
  set (M := Ztrunc (scaled_mantissa radix2 (FLT_exp (-1074) 53) (BR t))) in Hg.
  set (c := cexp radix2 (FLT_exp (-1074) 53) (BR t)) in Hg.
  assert (Hc : -52 <= c).
  { unfold c, cexp, FLT_exp.
    assert (1 <= mag radix2 (BR t)) by (apply mag_ge_bpow; exact Ht). lia. }
  exists (M * 2 ^ (c + 52)). rewrite Hg at 1. unfold F2R. cbn [Fnum Fexp].
  rewrite mult_IZR. change 2 with (radix_val radix2) at 1. rewrite IZR_Zpower by lia.
  rewrite Rmult_assoc, <- bpow_plus. f_equal. f_equal. lia.
Qed.

(* a finite float in [2^k, 2^(k+1)) for the two binades that matter *)
Lemma binade_inv (s : f64) (k : Z) : -1022 <= k <= 1023 -> fin s ->
  (bpow radix2 k <= BR s < bpow radix2 (k + 1))%R ->
  exists mx H, s = B754_finite 53 1024 false mx (k - 52) H /\ 2 ^ 52 <= Zpos mx < 2 ^ 53.
Proof.
  intros Hk Fs Bs.
  assert (Hn : pos_normal s).
  { split; [exact Fs|]. apply Rle_trans with (2 := proj1 Bs). apply bpow_le. lia. }
  destruct (pos_normal_inv s Hn) as (mx & ex & H & -> & Hm & He).
  assert (E : x_exp (B754_finite 53 1024 false mx ex H) = k).
  { unfold x_exp. rewrite (mag_unique radix2 _ (k + 1)); [lia|].
    pose proof (bpow_gt_0 radix2 k).
    rewrite Rabs_pos_eq by lra. replace (k + 1 - 1) with k by lia. exact Bs. }
  rewrite (x_exp_finite mx ex H Hm) in E. assert (ex = k - 52) by lia. subst ex.
  exists mx, H. split; [reflexivity|exact Hm].
Qed.

Lemma unit_binade_inv (s : f64) : fin s -> (1 <= BR s < 2)%R ->
  exists mx H, s = B754_finite 53 1024 false mx (-52) H /\ 2 ^ 52 <= Zpos mx < 2 ^ 53.
Proof. intros Fs Bs. exact (binade_inv s 0 ltac:(lia) Fs Bs). Qed.

Lemma build_float64_raw_bits (e : Z) (mx : positive) (H : SpecFloat.bounded 53 1024 mx (-52) = true) :
  -1022 <= e <= 1023 -> 2 ^ 52 <= Zpos mx < 2 ^ 53 ->
  build_float64_raw e (B754_finite 53 1024 false mx (-52) H) =
    b64_of_bits ((e + 1023) * 2 ^ 52 + (Zpos mx - 2 ^ 52)).
Proof.
  intros He Hm. unfold build_float64_raw.
  rewrite (proj2 (Z.ltb_ge 1023 e)) by lia.
  unfold fb, f64_of_bits. f_equal.
  change 4503599627370496 with (2 ^ 52).
  rewrite N2Z_lor, !N2Z_land.
  rewrite Z2N.id by (apply Z.mod_pos_bound; lia).
  rewrite Z.mod_small by lia.
  rewrite exponent_field_shifted by lia.
  unfold bits_of_f64. rewrite (bits_of_normal false mx (-52) H Hm ltac:(lia)).
  change (0 + (-52 + 1075)) with 1023. rewrite <- N2Z_land.
  rewrite significand_field by lia. apply lor_disjoint. lia.
Qed.

Lemma build_float64_raw_normal (e : Z) (s : f64) : -1022 <= e <= 1023 -> fin s -> (1 <= BR s < 2)%R ->
  fin (build_float64_raw e s) /\ BR (build_float64_raw e s) = (BR s * bpow radix2 e)%R /\
  pos_normal (build_float64_raw e s).
Proof.
  intros He Fs Bs. destruct (unit_binade_inv s Fs Bs) as (mx & H & -> & Hm).
  rewrite (build_float64_raw_bits e mx H He Hm).
  destruct (of_bits_normal (e + 1023) (Zpos mx - 2 ^ 52) ltac:(lia) ltac:(lia)) as (mx' & H' & -> & Em).
  assert (mx' = mx) by lia. subst mx'.
  assert (HR : BR (B754_finite 53 1024 false mx (e + 1023 - 1075) H') =
               (BR (B754_finite 53 1024 false mx (-52) H) * bpow radix2 e)%R).
  { cbn [B2R cond_Zopp]. rewrite F2R_split. f_equal. f_equal. lia. }
  split; [reflexivity|]. split; [exact HR|].
  split; [reflexivity|]. rewrite HR.
  apply Rle_trans with (1 * bpow radix2 e)%R.
  - rewrite Rmult_1_l. apply bpow_le. lia.
  - apply Rmult_le_compat_r; [apply bpow_ge_0|lra].
Qed.

Lemma build_float64_raw_saturates (e : Z) (s : f64) : 1023 < e -> build_float64_raw e s = f64_pinf.
Proof. intros He. unfold build_float64_raw. rewrite (proj2 (Z.ltb_lt 1023 e) He). reflexivity. Qed.

(* ---- the repaired function: the test  significandPlusOne >= 2  and the halving ---- *)
Lemma c_two_fin : fin c_two.
Proof. reflexivity. Qed.
Lemma c_two_BR : BR c_two = 2%R.
Proof.
  unfold c_two. rewrite BR_fb. set (u := binary_float_of_bits_aux 52 11 _). vm_compute in u. subst u.
  unfold FF2R, F2R. cbn [Fnum Fexp cond_Zopp].
  change (bpow radix2 (-51)) with (/ IZR (Z.pow_pos 2 51))%R.
  change (Z.pow_pos 2 51) with 2251799813685248. field.
Qed.

Lemma fle_two (s : f64) : fin s -> fle c_two s = true <-> (2 <= BR s)%R.
Proof.
  unfold fle, fcmp, b64_compare. intros Hs.
  rewrite (Binary.Bcompare_correct 53 1024 c_two s c_two_fin Hs). rewrite c_two_BR.
  destruct (Rcompare_spec 2 (B2R 53 1024 s)); split; intros; try reflexivity; try discriminate; lra.
Qed.

(* s < 1, decided on finite floats *)
Lemma flt_one (s : f64) : fin s -> (flt s f64_one = true <-> (BR s < 1)%R).
Proof.
  assert (F1 : fin f64_one) by reflexivity.
  assert (R1 : BR f64_one = 1%R) by (unfold f64_one, f64_of_bits; cbn; unfold F2R; cbn; lra).
  unfold flt, fcmp, b64_compare. intros Hs.
  rewrite (Binary.Bcompare_correct 53 1024 s f64_one Hs F1). rewrite R1.
  destruct (Rcompare_spec (B2R 53 1024 s) 1); split; intros; try reflexivity; try discriminate; lra.
Qed.

Lemma build_float64_lt2 (e : Z) (s : f64) : fin s -> (1 <= BR s < 2)%R ->
  build_float64 e s = build_float64_raw e s.
Proof.
  intros Fs Hs. unfold build_float64. destruct (fle c_two s) eqn:E.
  - apply (fle_two s Fs) in E. lra.
  - destruct (flt s f64_one) eqn:E1; [|reflexivity]. apply (flt_one s Fs) in E1. lra.
Qed.

(* the repaired case F11: a significand below 1 counts as 1 *)
Lemma build_float64_lt1 (e : Z) (s : f64) : fin s -> (BR s < 1)%R ->
  build_float64 e s = build_float64_raw e f64_one.
Proof.
  intros Fs Hs. unfold build_float64. destruct (fle c_two s) eqn:E.
  - apply (fle_two s Fs) in E. lra.
  - rewrite (proj2 (flt_one s Fs) Hs). reflexivity.
Qed.

Lemma build_float64_ge2 (e : Z) (s : f64) : fin s -> (2 <= BR s)%R ->
  build_float64 e s = build_float64_raw (e + 1) (fdiv s c_two).
Proof.
  intros Fs Hs. unfold build_float64. rewrite (proj2 (fle_two s Fs) Hs). reflexivity.
Qed.

(* s / 2 is exact on [2, 4) *)
Lemma fdiv_two_R (s : f64) : fin s -> (2 <= BR s < 4)%R ->
  fin (fdiv s c_two) /\ BR (fdiv s c_two) = (BR s / 2)%R.
Proof.
  intros Fs Bs.
  destruct (binade_inv s 1 ltac:(lia) Fs) as (mx & H & -> & Hm).
  { change (bpow radix2 1) with 2%R. change (bpow radix2 (1 + 1)) with 4%R. exact Bs. }
  change (1 - 52) with (-51) in *.
  assert (Eh : (BR (B754_finite 53 1024 false mx (-51) H) / 2 = IZR (Zpos mx) * bpow radix2 (-52))%R).
  { cbn [B2R cond_Zopp]. unfold F2R. cbn [Fnum Fexp]. rewrite bpow_m52.
    change (bpow radix2 (-51)) with (/ IZR (Z.pow_pos 2 51))%R.
    change (Z.pow_pos 2 51) with 2251799813685248. field. }
  assert (Er : rndR (BR (B754_finite 53 1024 false mx (-51) H) / 2) =
               (BR (B754_finite 53 1024 false mx (-51) H) / 2)%R).
  { rewrite Eh. apply rndR_generic. apply format_52. lia. }
  assert (Hz : BR c_two <> 0%R) by (rewrite c_two_BR; lra).
  pose proof (Binary.Bdiv_correct 53 1024 eq_refl eq_refl binop_nan_pl64 mode_NE
                (B754_finite 53 1024 false mx (-51) H) c_two Hz) as Hd.
  change (Binary.Bdiv 53 1024 eq_refl eq_refl binop_nan_pl64 mode_NE
            (B754_finite 53 1024 false mx (-51) H) c_two)
    with (fdiv (B754_finite 53 1024 false mx (-51) H) c_two) in Hd.
  rewrite c_two_BR in Hd.
  change (round radix2 (SpecFloat.fexp 53 1024) (round_mode mode_NE)) with rndR in Hd.
  rewrite Er in Hd. rewrite Rlt_bool_true in Hd.
  - destruct Hd as (H1 & H2 & _). split; [rewrite H2; reflexivity|exact H1].
  - apply Rlt_le_trans with (bpow radix2 2); [|apply bpow_le; lia].
    change (bpow radix2 2) with 4%R. apply Rabs_lt. lra.
Qed.

(* buildFloat64 on its documented domain: -1022 <= e <= 1023, 1 <= s < 2 *)
Lemma build_float64_normal (e : Z) (s : f64) : -1022 <= e <= 1023 -> fin s -> (1 <= BR s < 2)%R ->
  fin (build_float64 e s) /\ BR (build_float64 e s) = (BR s * bpow radix2 e)%R /\
  pos_normal (build_float64 e s).
Proof.
  intros He Fs Bs. rewrite (build_float64_lt2 e s Fs Bs).
  exact (build_float64_raw_normal e s He Fs Bs).
Qed.

(* the repaired case: a significand in [2, 4) is halved into the next binade *)
Lemma build_float64_two (e : Z) (s : f64) : -1022 <= e + 1 <= 1023 -> fin s -> (2 <= BR s < 4)%R ->
  fin (build_float64 e s) /\ BR (build_float64 e s) = (BR s * bpow radix2 e)%R /\
  pos_normal (build_float64 e s).
Proof.
  intros He Fs Bs. rewrite (build_float64_ge2 e s Fs (proj1 Bs)).
  destruct (fdiv_two_R s Fs Bs) as (Fh & Rh).
  destruct (build_float64_raw_normal (e + 1) (fdiv s c_two) He Fh) as (F & R_ & N_).
  { rewrite Rh. lra. }
  split; [exact F|]. split; [|exact N_].
  rewrite R_, Rh, bpow_plus. change (bpow radix2 1) with 2%R. field.
Qed.

(* saturation holds for EVERY significand (NaN and infinities included): both branches saturate *)
Lemma build_float64_saturates (e : Z) (s : f64) : 1023 < e -> build_float64 e s = f64_pinf.
Proof.
  intros He. unfold build_float64. destruct (fle c_two s).
  - apply build_float64_raw_saturates. lia.
  - destruct (flt s f64_one); apply build_float64_raw_saturates; exact He.
Qed.

(* ... and at e = 1023 for a finite significand that is at least 2 *)
Lemma build_float64_saturates_two (s : f64) : fin s -> (2 <= BR s)%R ->
  build_float64 1023 s = f64_pinf.
Proof.
  intros Fs Hs. rewrite (build_float64_ge2 1023 s Fs Hs). apply build_float64_raw_saturates. lia.
Qed.

(* buildFloat64 (getExponent x) (getSignificandPlusOne x) = x *)
Lemma build_float64_roundtrip (x : f64) : pos_normal x ->
  build_float64 (x_exp x) (sp1_of x) = x.
Proof.
  intros Hx. destruct (decompose_R x Hx) as (_ & _ & _ & _ & Fs & Ms & _).
  rewrite (build_float64_lt2 _ _ Fs Ms).
  destruct (decompose x Hx) as (mx & ex & H & H' & -> & Hm & He & Hb & Hge & Hgs).
  unfold sp1_of. rewrite Hgs, (x_exp_finite mx ex H Hm).
  rewrite (build_float64_raw_bits (ex + 52) mx H' ltac:(lia) Hm).
  rewrite <- (binary_float_of_bits_of_binary_float 52 11 eq_refl eq_refl eq_refl
                (B754_finite 53 1024 false mx ex H)).
  unfold b64_of_bits. f_equal. change (bits_of_binary_float 52 11) with bits_of_b64.
  rewrite (bits_of_normal false mx ex H Hm He). ring.
Qed.

(* same 52 fraction bits *)
Lemma sp1_fraction_bits (x : f64) : pos_normal x ->
  N.land (bits_of_f64 (sp1_of x)) significand_mask = N.land (bits_of_f64 x) significand_mask.
Proof.
  intros Hx. destruct (decompose x Hx) as (mx & ex & H & H' & -> & Hm & He & Hb & Hge & Hgs).
  unfold sp1_of. rewrite Hgs. apply N2Z.inj. rewrite Hb. unfold bits_of_f64.
  rewrite (bits_of_normal false mx (-52) H' Hm ltac:(lia)).
  rewrite !significand_field by lia. reflexivity.
Qed.

(* ------------------------------------------------------------------ *)
(* 8. approximateInverseLog / LowerBound of the linear mapping         *)
(* ------------------------------------------------------------------ *)
(* the significand  rnd (rnd (r - floor r) + 1)  as a function of the real r *)
Definition lin_sig (r : R) : R := rndR (rndR (r - IZR (Zfloor r)) + 1).

Lemma lin_sig_range (r : R) : (1 <= lin_sig r <= 2)%R.
Proof.
  pose proof (Zfloor_lb r) as Hlb. pose proof (Zfloor_ub r) as Hub. unfold lin_sig.
  assert (0 <= rndR (r - IZR (Zfloor r)) <= 1)%R.
  { split.
    - rewrite <- (rndR_IZR 0) by lia. apply rndR_le. lra.
    - rewrite <- (rndR_IZR 1) by lia. apply rndR_le. lra. }
  split.
  - rewrite <- (rndR_IZR 1) at 1 by lia. apply rndR_le. lra.
  - rewrite <- (rndR_IZR 2) by lia. apply rndR_le. lra.
Qed.

(* no rounding when r is a multiple of 2^-52 *)
Lemma lin_sig_exact (r : R) (k : Z) : r = (IZR k * bpow radix2 (-52))%R ->
  lin_sig r = (1 + (r - IZR (Zfloor r)))%R.
Proof.
  intros Hk. unfold lin_sig. set (n := Zfloor r).
  pose proof (Zfloor_lb r) as Hlb. pose proof (Zfloor_ub r) as Hub. fold n in Hlb, Hub.
  set (k' := k - n * 2 ^ 52).
  assert (Ek : (r - IZR n = IZR k' * bpow radix2 (-52))%R).
  { unfold k'. rewrite minus_IZR, mult_IZR, Hk, bpow_m52.
    change (2 ^ 52) with 4503599627370496. field. }
  assert (Bk : 0 <= k' < 2 ^ 52).
  { assert (Eu : IZR k' = ((r - IZR n) * IZR 4503599627370496)%R)
      by (rewrite Ek, bpow_m52; field).
    change (2 ^ 52) with 4503599627370496. split.
    - apply le_IZR. rewrite Eu. apply Rmult_le_pos; lra.
    - apply lt_IZR. rewrite Eu.
      replace (IZR 4503599627370496) with (1 * IZR 4503599627370496)%R at 2 by lra.
      apply Rmult_lt_compat_r; lra. }
  assert (E1 : rndR (r - IZR n) = (r - IZR n)%R).
  { rewrite Ek. apply rndR_generic. apply format_52. lia. }
  rewrite E1.
  replace (r - IZR n + 1)%R with (IZR (k' + 2 ^ 52) * bpow radix2 (-52))%R.
  - rewrite rndR_generic by (apply format_52; change (2 ^ 53) with (2 ^ 52 + 2 ^ 52); lia).
    rewrite plus_IZR, Ek, bpow_m52. change (2 ^ 52) with 4503599627370496. field.
  - rewrite plus_IZR, Ek, bpow_m52. change (2 ^ 52) with 4503599627370496. field.
Qed.

(* hence the significand is below 2 whenever |t| >= 1 *)
Lemma lin_sig_lt_2_of_ge_1 (t : f64) : (1 <= Rabs (BR t))%R -> (lin_sig (BR t) < 2)%R.
Proof.
  intros H1. destruct (multiple_52_of_ge_1 t H1) as (k & Hk).
  rewrite (lin_sig_exact _ k Hk). pose proof (Zfloor_ub (BR t)). lra.
Qed.

(* the real function  2^floor r * lin_sig r  is non-decreasing *)
Lemma lin_inv_mono (r r' : R) : (r <= r')%R ->
  (lin_sig r * bpow radix2 (Zfloor r) <= lin_sig r' * bpow radix2 (Zfloor r'))%R.
Proof.
  intros Hr. pose proof (Zfloor_le r r' Hr) as Hn.
  pose proof (lin_sig_range r) as S. pose proof (lin_sig_range r') as S'.
  destruct (Z.eq_dec (Zfloor r) (Zfloor r')) as [E|E].
  - apply Rle_trans with (lin_sig r' * bpow radix2 (Zfloor r))%R; [|rewrite E; apply Rle_refl].
    apply Rmult_le_compat_r; [apply bpow_ge_0|].
    unfold lin_sig. rewrite E. apply rndR_le. apply Rplus_le_compat_r. apply rndR_le. lra.
  - apply Rle_trans with (2 * bpow radix2 (Zfloor r))%R.
    + apply Rmult_le_compat_r; [apply bpow_ge_0|lra].
    + apply Rle_trans with (1 * bpow radix2 (Zfloor r'))%R.
      * rewrite Rmult_1_l. change 2%R with (bpow radix2 1). rewrite <- bpow_plus. apply bpow_le. lia.
      * apply Rmult_le_compat_r; [apply bpow_ge_0|lra].
Qed.

Section Lower.
Variable L : libm.

(* approximateInverseLog of the linear mapping: floor from the oracle, then x - floor (rounded),
   + 1 (rounded), buildFloat64.  With the repaired buildFloat64 no proviso on the significand. *)
Lemma approx_inverse_log_lin_R (t : f64) :
  fin t -> fin (l_floor L t) -> BR (l_floor L t) = IZR (Zfloor (BR t)) ->
  -1022 <= Zfloor (BR t) <= 1023 ->
  fin (approx_inverse_log L MLin t) /\
  BR (approx_inverse_log L MLin t) = (lin_sig (BR t) * bpow radix2 (Zfloor (BR t)))%R /\
  pos_normal (approx_inverse_log L MLin t).
Proof.
  intros Ft Fe Re Hn. unfold approx_inverse_log.
  pose proof (lin_sig_range (BR t)) as HS. unfold lin_sig in *.
  set (e := l_floor L t) in *. set (n := Zfloor (BR t)) in *.
  assert (Hi : int_of_f e = n) by (rewrite int_of_f_R, Re; apply Ztrunc_IZR).
  rewrite Hi.
  pose proof (Zfloor_lb (BR t)) as Hlb. pose proof (Zfloor_ub (BR t)) as Hub. fold n in Hlb, Hub.
  destruct (fsub_bounded t e Ft Fe) as (Fd & Rd).
  { rewrite Re. apply (small_le_max 1); [lia|]. apply Rabs_le. lra. }
  rewrite Re in Rd.
  assert (Bd : (0 <= BR (fsub t e) <= 1)%R).
  { rewrite Rd. split.
    - rewrite <- (rndR_IZR 0) by lia. apply rndR_le. lra.
    - rewrite <- (rndR_IZR 1) by lia. apply rndR_le. lra. }
  destruct (fadd_bounded (fsub t e) f64_one Fd f64_one_fin) as (Fs & Rs).
  { rewrite f64_one_BR. apply (small_le_max 2); [lia|]. apply Rabs_le. lra. }
  rewrite f64_one_BR, Rd in Rs. rewrite <- Rs in HS |- *.
  destruct (Rlt_le_dec (BR (fadd (fsub t e) f64_one)) 2) as [Hlt|Hge].
  - destruct (build_float64_normal n _ Hn Fs (conj (proj1 HS) Hlt)) as (Fb & Rb & Nb).
    split; [exact Fb|]. split; [exact Rb|exact Nb].
  - (* the significand has rounded up to 2: then |t| < 1, so n + 1 <= 1023 *)
    assert (Hn1 : n <= 0).
    { destruct (Z_le_gt_dec n 0) as [H0|H0]; [exact H0|exfalso].
      assert (1 <= BR t)%R by (apply Rle_trans with (IZR n); [apply IZR_le; lia|exact Hlb]).
      pose proof (lin_sig_lt_2_of_ge_1 t) as Hc. unfold lin_sig in Hc. fold n in Hc.
      rewrite <- Rs in Hc. rewrite Rabs_pos_eq in Hc by lra. specialize (Hc H). lra. }
    destruct (build_float64_two n _ ltac:(lia) Fs) as (Fb & Rb & Nb); [lra|].
    split; [exact Fb|]. split; [exact Rb|exact Nb].
Qed.

(* exact when t is a multiple of 2^-52 (in particular whenever |t| >= 1) *)
Lemma approx_inverse_log_lin_exact (t : f64) (k : Z) :
  fin t -> fin (l_floor L t) -> BR (l_floor L t) = IZR (Zfloor (BR t)) ->
  -1022 <= Zfloor (BR t) <= 1023 ->
  BR t = (IZR k * bpow radix2 (-52))%R ->
  fin (approx_inverse_log L MLin t) /\
  BR (approx_inverse_log L MLin t) =
    ((1 + (BR t - IZR (Zfloor (BR t)))) * bpow radix2 (Zfloor (BR t)))%R.
Proof.
  intros Ft Fe Re Hn Hk. destruct (approx_inverse_log_lin_R t Ft Fe Re Hn) as (F & R_ & _).
  split; [exact F|]. rewrite R_, (lin_sig_exact _ k Hk). reflexivity.
Qed.

Lemma approx_inverse_log_lin_exact_ge_1 (t : f64) :
  fin t -> fin (l_floor L t) -> BR (l_floor L t) = IZR (Zfloor (BR t)) ->
  -1022 <= Zfloor (BR t) <= 1023 -> (1 <= Rabs (BR t))%R ->
  fin (approx_inverse_log L MLin t) /\
  BR (approx_inverse_log L MLin t) =
    ((1 + (BR t - IZR (Zfloor (BR t)))) * bpow radix2 (Zfloor (BR t)))%R.
Proof.
  intros Ft Fe Re Hn H1. destruct (multiple_52_of_ge_1 t H1) as (k & Hk).
  exact (approx_inverse_log_lin_exact t k Ft Fe Re Hn Hk).
Qed.

(* beyond the largest finite binade buildFloat64 saturates *)
Lemma approx_inverse_log_lin_saturates (t : f64) :
  BR (l_floor L t) = IZR (Zfloor (BR t)) -> 1023 < Zfloor (BR t) ->
  approx_inverse_log L MLin t = f64_pinf.
Proof.
  intros Re Hn. unfold approx_inverse_log. apply build_float64_saturates.
  rewrite int_of_f_R, Re, Ztrunc_IZR. exact Hn.
Qed.

(* float-level "LowerBound is non-decreasing": approximateInverseLog is monotone in t *)
Lemma approx_inverse_log_lin_mono (t t' : f64) :
  fin t -> fin t' -> (BR t <= BR t')%R ->
  fin (l_floor L t) -> BR (l_floor L t) = IZR (Zfloor (BR t)) ->
  fin (l_floor L t') -> BR (l_floor L t') = IZR (Zfloor (BR t')) ->
  -1022 <= Zfloor (BR t) -> Zfloor (BR t') <= 1023 ->
  (BR (approx_inverse_log L MLin t) <= BR (approx_inverse_log L MLin t'))%R.
Proof.
  intros Ft Ft' Htt Fe Re Fe' Re' Hlo Hhi.
  pose proof (Zfloor_le _ _ Htt) as Hn.
  destruct (approx_inverse_log_lin_R t Ft Fe Re ltac:(lia)) as (_ & -> & _).
  destruct (approx_inverse_log_lin_R t' Ft' Fe' Re' ltac:(lia)) as (_ & -> & _).
  apply lin_inv_mono. exact Htt.
Qed.

(* LowerBound *)
Lemma gm_lower_lin_eq (m : gmap) (i : Z) : gm_kind m = MLin ->
  gm_lower L m i = approx_inverse_log L MLin (fdiv (fsub (f_of_int i) (gm_off m)) (gm_mult m)).
Proof. intros K. unfold gm_lower. rewrite K. reflexivity. Qed.
End Lower.

(* division: a finite quotient by a nonzero divisor is the rounded exact quotient, of a finite dividend *)
Lemma fdiv_R (a b : f64) : BR b <> 0%R -> fin (fdiv a b) ->
  fin a /\ BR (fdiv a b) = rndR (BR a / BR b).
Proof.
  intros Hb Hf.
  pose proof (Binary.Bdiv_correct 53 1024 eq_refl eq_refl binop_nan_pl64 mode_NE a b Hb) as H.
  change (Binary.Bdiv 53 1024 eq_refl eq_refl binop_nan_pl64 mode_NE a b) with (fdiv a b) in H.
  destruct (Rlt_bool _ _).
  - destruct H as (H1 & H2 & _). split; [rewrite <- H2; exact Hf|exact H1].
  - apply overflow_not_finite in H. congruence.
Qed.

Section LowerIndex.
Variable L : libm.

(* LowerBound is non-decreasing in the index (linear mapping), relative to an exact math.Floor *)
Lemma gm_lower_lin_mono (m : gmap) (i j : Z) :
  gm_kind m = MLin -> Z.abs i <= 2 ^ 53 -> Z.abs j <= 2 ^ 53 -> i <= j ->
  fin (gm_off m) -> (0 < BR (gm_mult m))%R ->
  let ti := fdiv (fsub (f_of_int i) (gm_off m)) (gm_mult m) in
  let tj := fdiv (fsub (f_of_int j) (gm_off m)) (gm_mult m) in
  fin ti -> fin tj ->
  fin (l_floor L ti) -> BR (l_floor L ti) = IZR (Zfloor (BR ti)) ->
  fin (l_floor L tj) -> BR (l_floor L tj) = IZR (Zfloor (BR tj)) ->
  -1022 <= Zfloor (BR ti) -> Zfloor (BR tj) <= 1023 ->
  (BR (gm_lower L m i) <= BR (gm_lower L m j))%R.
Proof.
  intros K Hi Hj Hij Fo Hm ti tj Fti Ftj Fei Rei Fej Rej Hlo Hhi.
  subst ti tj. rewrite !(gm_lower_lin_eq L m _ K).
  apply approx_inverse_log_lin_mono; try assumption.
  destruct (f_of_int_correct i Hi) as (Fi & Ri). destruct (f_of_int_correct j Hj) as (Fj & Rj).
  assert (Hz : BR (gm_mult m) <> 0%R) by lra.
  destruct (fdiv_R _ _ Hz Fti) as (Fsi & ->). destruct (fdiv_R _ _ Hz Ftj) as (Fsj & ->).
  rewrite (fsub_R _ _ Fi Fo Fsi), (fsub_R _ _ Fj Fo Fsj), Ri, Rj.
  apply rndR_le. unfold Rdiv. apply Rmult_le_compat_r.
  - apply Rlt_le. apply Rinv_0_lt_compat. exact Hm.
  - apply rndR_le. apply Rplus_le_compat_r. apply IZR_le. exact Hij.
Qed.
End LowerIndex.

(* ---- a witness against the code before the repair ---- *)
Lemma fb_of_bits (r : f64) : fb (bits_of_f64 r) = r.
Proof.
  unfold fb, f64_of_bits, bits_of_f64.
  rewrite Z2N.id by apply (bits_of_binary_float_range 52 11 eq_refl eq_refl r).
  apply (binary_float_of_bits_of_binary_float 52 11 eq_refl eq_refl eq_refl).
Qed.

(* approximateInverseLog (linear) as it was before the repair of buildFloat64 *)
Definition approx_inverse_log_lin_raw (L : libm) (t : f64) : f64 :=
  let e := l_floor L t in build_float64_raw (int_of_f e) (fadd (fsub t e) f64_one).

Definition t_tiny : f64 := fb 13560338478012563456.     (* -2^-60 = 0xbc30000000000000 *)
Definition f_m1 : f64 := fb 13830554455654793216.       (* -1.0 *)
Definition L_floor_m1 : libm :=
  {| l_log := fun x => x; l_exp := fun x => x; l_exp2 := fun x => x; l_log2 := fun x => x;
     l_pow := fun x _ => x; l_cbrt := fun x => x; l_sqrt := fun x => x; l_floor := fun _ => f_m1 |}.

Lemma t_tiny_BR : BR t_tiny = (- / IZR (2 ^ 60))%R.
Proof.
  unfold t_tiny. rewrite BR_fb. set (u := binary_float_of_bits_aux 52 11 _). vm_compute in u. subst u.
  unfold FF2R, F2R. cbn [Fnum Fexp cond_Zopp].
  change (bpow radix2 (-112)) with (/ IZR (Z.pow_pos 2 112))%R.
  change (Z.pow_pos 2 112) with (2 ^ 52 * 2 ^ 60). rewrite mult_IZR.
  change (Z.neg 4503599627370496) with (- 2 ^ 52). rewrite opp_IZR.
  change (2 ^ 52) with 4503599627370496. change (2 ^ 60) with 1152921504606846976. field.
Qed.
Lemma f_m1_BR : BR f_m1 = (-1)%R.
Proof.
  unfold f_m1. rewrite BR_fb. set (u := binary_float_of_bits_aux 52 11 _). vm_compute in u. subst u.
  unfold FF2R, F2R. cbn [Fnum Fexp cond_Zopp].
  change (bpow radix2 (-52)) with (/ IZR (Z.pow_pos 2 52))%R.
  change (Z.pow_pos 2 52) with 4503599627370496. change (Z.neg 4503599627370496) with (- 4503599627370496).
  rewrite opp_IZR. field.
Qed.
Lemma half_BR : BR (fb 4602678819172646912) = (/ 2)%R.
Proof.
  rewrite BR_fb. set (u := binary_float_of_bits_aux 52 11 _). vm_compute in u. subst u.
  unfold FF2R, F2R. cbn [Fnum Fexp cond_Zopp].
  change (bpow radix2 (-53)) with (/ IZR (Z.pow_pos 2 53))%R.
  change (Z.pow_pos 2 53) with 9007199254740992. field.
Qed.

Theorem lower_lin_unrepaired_witness :
  exists (L : libm) (t : f64),
    fin t /\ fin (l_floor L t) /\ BR (l_floor L t) = IZR (Zfloor (BR t)) /\ Zfloor (BR t) = -1 /\
    BR (approx_inverse_log_lin_raw L t) = (/ 2)%R /\
    BR (approx_inverse_log L MLin t) = 1%R.
Proof.
  exists L_floor_m1, t_tiny.
  assert (Hfl : Zfloor (BR t_tiny) = -1).
  { apply Zfloor_imp. rewrite t_tiny_BR. change (2 ^ 60) with 1152921504606846976.
    change (-1 + 1) with 0. simpl IZR. lra. }
  split; [reflexivity|]. split; [reflexivity|]. split.
  - rewrite Hfl. exact f_m1_BR.
  - split; [exact Hfl|]. split.
    + rewrite <- (fb_of_bits (approx_inverse_log_lin_raw L_floor_m1 t_tiny)).
      replace (bits_of_f64 (approx_inverse_log_lin_raw L_floor_m1 t_tiny)) with 4602678819172646912%N
        by (vm_compute; reflexivity).
      exact half_BR.
    + rewrite <- (fb_of_bits (approx_inverse_log L_floor_m1 MLin t_tiny)).
      replace (bits_of_f64 (approx_inverse_log L_floor_m1 MLin t_tiny)) with 4607182418800017408%N
        by (vm_compute; reflexivity).
      exact f64_one_BR.
Qed.

(* ------------------------------------------------------------------ *)
(* 9. special values                                                   *)
(* ------------------------------------------------------------------ *)
(* on a power of two the linear approximateLog is the exponent, exactly *)
Lemma approx_log_lin_pow2 (L : libm) (x : f64) : pos_normal x -> BR (sp1_of x) = 1%R ->
  BR (approx_log L MLin x) = IZR (x_exp x).
Proof.
  intros Hx Hs. destruct (approx_log_lin_R L x Hx) as (_ & -> & _).
  destruct (decompose_R x Hx) as (Be & _).
  rewrite Hs, <- plus_IZR, rndR_IZR by lia. rewrite <- minus_IZR, rndR_IZR by lia.
  f_equal. lia.
Qed.

(* one rounding of a real of magnitude at most 1026 moves it by at most 2^-43 *)
Lemma rndR_err_1026 (r : R) : (Rabs r <= 1026)%R -> (Rabs (rndR r - r) <= bpow radix2 (-43))%R.
Proof.
  intros Hr. unfold rndR.
  apply Rle_trans with (/ 2 * ulp radix2 (FLT_exp (-1074) 53) r)%R.
  - apply error_le_half_ulp. exact fexp64_valid.
  - assert (Hu : (ulp radix2 (FLT_exp (-1074) 53) r <= bpow radix2 (-42))%R).
    { apply Rle_trans with (ulp radix2 (FLT_exp (-1074) 53) 1026).
      - apply ulp_le.
        + exact fexp64_valid.
        + apply FLT_exp_monotone.
        + rewrite (Rabs_pos_eq 1026) by lra. exact Hr.
      - rewrite ulp_neq_0 by lra. apply bpow_le. unfold cexp, FLT_exp.
        rewrite (mag_unique radix2 1026 11); [lia|].
        rewrite Rabs_pos_eq by lra.
        change (bpow radix2 (11 - 1)) with (IZR (Z.pow_pos 2 10)).
        change (bpow radix2 11) with (IZR (Z.pow_pos 2 11)).
        change (Z.pow_pos 2 10) with 1024. change (Z.pow_pos 2 11) with 2048. lra. }
    change (bpow radix2 (-43)) with (/ IZR (Z.pow_pos 2 43))%R.
    change (bpow radix2 (-42)) with (/ IZR (Z.pow_pos 2 42))%R in Hu.
    change (Z.pow_pos 2 43) with 8796093022208. change (Z.pow_pos 2 42) with 4398046511104 in Hu.
    lra.
Qed.

(* the linear approximateLog is  e + (m - 1)  up to 2^-42 *)
Lemma approx_log_lin_err (L : libm) (x : f64) : pos_normal x ->
  (Rabs (BR (approx_log L MLin x) - (IZR (x_exp x) + (BR (sp1_of x) - 1))) <= bpow radix2 (-42))%R.
Proof.
  intros Hx. destruct (approx_log_lin_R L x Hx) as (_ & -> & _).
  destruct (decompose_R x Hx) as (Be & _ & _ & _ & _ & Ms & _).
  set (u := (IZR (x_exp x) + BR (sp1_of x))%R).
  assert (Bu : (Rabs u <= 1025)%R).
  { assert (-1022 <= IZR (x_exp x) <= 1023)%R by (split; apply IZR_le; lia).
    unfold u. apply Rabs_le. lra. }
  assert (E1 : (Rabs (rndR u - u) <= bpow radix2 (-43))%R) by (apply rndR_err_1026; lra).
  assert (B1 : (Rabs (rndR u) <= 1025)%R) by (apply (rndR_abs_le u 1025); [lia|exact Bu]).
  assert (E2 : (Rabs (rndR (rndR u - 1) - (rndR u - 1)) <= bpow radix2 (-43))%R).
  { apply rndR_err_1026. apply Rabs_le_inv in B1. apply Rabs_le. lra. }
  replace (rndR (rndR u - 1) - (IZR (x_exp x) + (BR (sp1_of x) - 1)))%R
    with ((rndR (rndR u - 1) - (rndR u - 1)) + (rndR u - u))%R by (unfold u; ring).
  apply Rle_trans with (1 := Rabs_triang _ _).
  change (bpow radix2 (-42)) with (/ IZR (Z.pow_pos 2 42))%R.
  change (bpow radix2 (-43)) with (/ IZR (Z.pow_pos 2 43))%R in E1, E2.
  change (Z.pow_pos 2 43) with 8796093022208 in E1, E2. change (Z.pow_pos 2 42) with 4398046511104.
  lra.
Qed.

(* ------------------------------------------------------------------ *)
(* 10. cubic mapping: constants, rounding-error lemma *)
(* ------------------------------------------------------------------ *)

(* rounding error of a real below 2^e: half an ulp, at most 2^(e-54) *)
Lemma rndR_err_lt (r : R) (e : Z) : -1021 <= e -> (Rabs r < bpow radix2 e)%R ->
  (Rabs (rndR r - r) <= bpow radix2 (e - 54))%R.
Proof.
  intros He Hr. destruct (Req_dec r 0) as [->|Hn].
  - unfold rndR. rewrite round_0 by apply valid_rnd_N. rewrite Rminus_0_r, Rabs_R0. apply bpow_ge_0.
  - unfold rndR. apply Rle_trans with (/ 2 * ulp radix2 (FLT_exp (-1074) 53) r)%R.
    + apply error_le_half_ulp. exact fexp64_valid.
    + rewrite ulp_neq_0 by exact Hn.
      replace (e - 54) with (-1 + (e - 53)) by lia. rewrite bpow_plus.
      change (bpow radix2 (-1)) with (/ 2)%R.
      apply Rmult_le_compat_l; [lra|]. apply bpow_le. unfold cexp, FLT_exp.
      pose proof (mag_le_bpow radix2 r e Hn Hr). lia.
Qed.

Definition cAr : R := (IZR 6176365203250966 / IZR 36028797018963968)%R.   (* * 2^-55 *)
Definition cBr : R := (- IZR 5404319552844595 / IZR 9007199254740992)%R.   (* * 2^-53 *)
Definition cCr : R := (IZR 6433713753386423 / IZR 4503599627370496)%R.     (* * 2^-52 *)

Lemma cA_BR : BR cA = cAr.
Proof.
  unfold cA. rewrite BR_fb. set (u := binary_float_of_bits_aux 52 11 _). vm_compute in u. subst u.
  unfold FF2R, F2R. cbn [Fnum Fexp cond_Zopp].
  change (bpow radix2 (-55)) with (/ IZR (Z.pow_pos 2 55))%R.
  change (Z.pow_pos 2 55) with 36028797018963968. reflexivity.
Qed.
Lemma cB_BR : BR cB = cBr.
Proof.
  unfold cB. rewrite BR_fb. set (u := binary_float_of_bits_aux 52 11 _). vm_compute in u. subst u.
  unfold FF2R, F2R. cbn [Fnum Fexp cond_Zopp].
  change (bpow radix2 (-53)) with (/ IZR (Z.pow_pos 2 53))%R.
  change (Z.pow_pos 2 53) with 9007199254740992. unfold cBr. rewrite opp_IZR. field.
Qed.
Lemma cC_BR : BR cC = cCr.
Proof.
  unfold cC. rewrite BR_fb. set (u := binary_float_of_bits_aux 52 11 _). vm_compute in u. subst u.
  unfold FF2R, F2R. cbn [Fnum Fexp cond_Zopp].
  change (bpow radix2 (-52)) with (/ IZR (Z.pow_pos 2 52))%R.
  change (Z.pow_pos 2 52) with 4503599627370496. reflexivity.
Qed.
Lemma cA_fin : fin cA. Proof. reflexivity. Qed.
Lemma cB_fin : fin cB. Proof. reflexivity. Qed.
Lemma cC_fin : fin cC. Proof. reflexivity. Qed.

(* the three float constants sum to 1 + 2^-54 *)
Lemma cABC : (cAr + cBr + cCr = 1 + / IZR 18014398509481984)%R.
Proof. unfold cAr, cBr, cCr. field. Qed.

(* ------------------------------------------------------------------ *)
(* 11. cubic mapping: the Horner evaluation as a function of the real significand;
   monotone on the grid j * 2^-52 although the individual steps are not *)
(* ------------------------------------------------------------------ *)
Section CubReal.
Local Open Scope R_scope.

Definition d52 : R := / IZR 4503599627370496.
Definition e53 : R := / IZR 9007199254740992.
Definition e54 : R := / IZR 18014398509481984.
Definition e55 : R := / IZR 36028797018963968.
Definition e56 : R := / IZR 72057594037927936.

Lemma bpow_d52 : bpow radix2 (-52) = d52. Proof. reflexivity. Qed.
Lemma bpow_e53 : bpow radix2 (-53) = e53. Proof. reflexivity. Qed.
Lemma bpow_e54 : bpow radix2 (-54) = e54. Proof. reflexivity. Qed.
Lemma bpow_e55 : bpow radix2 (-55) = e55. Proof. reflexivity. Qed.
Lemma bpow_e56 : bpow radix2 (-56) = e56. Proof. reflexivity. Qed.

(* dyadic constants are fixed by the rounding *)
Lemma rndR_52 (k : Z) (r : R) : (Z.abs k < 2 ^ 53)%Z -> r = IZR k * d52 -> rndR r = r.
Proof. intros Hk ->. rewrite <- bpow_d52. apply rndR_generic. apply format_52. exact Hk. Qed.

Lemma rndR_quarter : rndR (/ 4) = / 4.
Proof. apply (rndR_52 1125899906842624); [lia|unfold d52; lra]. Qed.
Lemma rndR_eighth : rndR (/ 8) = / 8.
Proof. apply (rndR_52 562949953421312); [lia|unfold d52; lra]. Qed.
Lemma rndR_mhalf : rndR (- / 2) = - / 2.
Proof. apply (rndR_52 (-2251799813685248)); [lia|unfold d52; lra]. Qed.
Lemma rndR_0 : rndR 0 = 0.
Proof. apply (rndR_IZR 0). lia. Qed.
Lemma rndR_1 : rndR 1 = 1.
Proof. apply (rndR_IZR 1). lia. Qed.
Lemma rndR_2 : rndR 2 = 2.
Proof. apply (rndR_IZR 2). lia. Qed.
Lemma rndR_m1 : rndR (-1) = -1.
Proof. apply (rndR_IZR (-1)). lia. Qed.
Lemma rndR_cBr : rndR cBr = cBr.
Proof. rewrite <- cB_BR. apply rndR_generic. apply BR_format. Qed.

(* the Horner evaluation of approximateLog (cubic), as a function of the real s *)
Definition Ga (s : R) : R := rndR (cAr * s).
Definition Gb (s : R) : R := rndR (Ga s + cBr).
Definition Gc (s : R) : R := rndR (Gb s * s).
Definition Gd (s : R) : R := rndR (Gc s + cCr).
Definition Gg (s : R) : R := rndR (Gd s * s).

Lemma cAr_bounds : 17 / 100 <= cAr <= 18 / 100.
Proof. unfold cAr. lra. Qed.
Lemma cBr_bounds : - 6 / 10 <= cBr <= - 59 / 100.
Proof. unfold cBr. lra. Qed.
Lemma cCr_bounds : 142 / 100 <= cCr <= 143 / 100.
Proof. unfold cCr. lra. Qed.

Lemma Ga_props (s : R) : 0 <= s < 1 ->
  0 <= Ga s <= / 4 /\ Rabs (Ga s - cAr * s) <= e56.
Proof.
  intros Hs. pose proof cAr_bounds as HA.
  assert (H0 : 0 <= cAr * s) by (apply Rmult_le_pos; lra).
  assert (H1 : cAr * s < / 4) by nra.
  unfold Ga. repeat split.
  - rewrite <- rndR_0. apply rndR_le. exact H0.
  - rewrite <- rndR_quarter. apply rndR_le. lra.
  - rewrite <- bpow_e56. apply (rndR_err_lt _ (-2)); [lia|].
    rewrite Rabs_pos_eq by exact H0. change (bpow radix2 (-2)) with (/ 4). exact H1.
Qed.

Lemma Gb_props (s : R) : 0 <= s < 1 ->
  cBr <= Gb s <= 0 /\ Rabs (Gb s - (Ga s + cBr)) <= e54.
Proof.
  intros Hs. destruct (Ga_props s Hs) as ((A0 & A1) & _). pose proof cBr_bounds as HB.
  unfold Gb. repeat split.
  - rewrite <- rndR_cBr at 1. apply rndR_le. lra.
  - rewrite <- rndR_0. apply rndR_le. lra.
  - rewrite <- bpow_e54. apply (rndR_err_lt _ 0); [lia|].
    change (bpow radix2 0) with 1. apply Rabs_lt. lra.
Qed.

Lemma Gb_half (s : R) : 0 <= s < 1 -> Rabs (Gb s * s) < / 2.
Proof.
  intros Hs. destruct (Gb_props s Hs) as ((B0 & B1) & _). pose proof cBr_bounds as HB.
  rewrite Rabs_left1 by (rewrite <- (Rmult_0_l s); apply Rmult_le_compat_r; lra).
  destruct (Rle_lt_dec s (4 / 5)) as [Hle|Hgt].
  - nra.
  - assert (B2 : - / 2 <= Gb s).
    { unfold Gb. rewrite <- rndR_mhalf. apply rndR_le.
      assert (/ 8 <= Ga s).
      { unfold Ga. rewrite <- rndR_eighth. apply rndR_le. pose proof cAr_bounds. nra. }
      lra. }
    nra.
Qed.

Lemma Gc_props (s : R) : 0 <= s < 1 ->
  -1 <= Gc s <= 0 /\ Rabs (Gc s - Gb s * s) <= e55.
Proof.
  intros Hs. pose proof (Gb_half s Hs) as Hh. destruct (Gb_props s Hs) as ((B0 & B1) & _).
  assert (Hn : Gb s * s <= 0) by (rewrite <- (Rmult_0_l s); apply Rmult_le_compat_r; lra).
  apply Rabs_lt_inv in Hh.
  unfold Gc. repeat split.
  - rewrite <- rndR_m1. apply rndR_le. lra.
  - rewrite <- rndR_0. apply rndR_le. exact Hn.
  - rewrite <- bpow_e55. apply (rndR_err_lt _ (-1)); [lia|].
    change (bpow radix2 (-1)) with (/ 2). apply Rabs_lt. lra.
Qed.

Lemma Gd_props (s : R) : 0 <= s < 1 ->
  Gd s <= 2 /\ Rabs (Gd s - (Gc s + cCr)) <= e53.
Proof.
  intros Hs. destruct (Gc_props s Hs) as ((C0 & C1) & _). pose proof cCr_bounds as HC.
  unfold Gd. split.
  - rewrite <- rndR_2. apply rndR_le. lra.
  - rewrite <- bpow_e53. apply (rndR_err_lt _ 1); [lia|].
    change (bpow radix2 1) with 2. apply Rabs_lt. lra.
Qed.

Lemma pred_one : pred radix2 (FLT_exp (-1074) 53) 1 = 1 - e53.
Proof.
  change 1 with (bpow radix2 0) at 1. rewrite pred_bpow.
  change (FLT_exp (-1074) 53 0) with (-53)%Z. rewrite bpow_e53. reflexivity.
Qed.

(* a real slightly below 1 still rounds to at least 1 *)
Lemma rndR_ge_1 (z : R) : 1 - e54 < z -> 1 <= rndR z.
Proof.
  intros Hz. unfold rndR. apply (round_N_ge_midp radix2 (FLT_exp (-1074) 53)).
  - change 1 with (IZR 1). apply int_format. lia.
  - rewrite pred_one. unfold e53, e54 in *. lra.
Qed.

Lemma poly_low (s : R) : 0 <= s <= 1 -> cAr + cBr <= (cAr * s + cBr) * s.
Proof.
  intros Hs. pose proof cAr_bounds. pose proof cBr_bounds.
  assert (0 <= (1 - s) * (- (cAr * (s + 1) + cBr))) by (apply Rmult_le_pos; nra).
  nra.
Qed.

Lemma Gd_ge_1 (s : R) : 0 <= s < 1 -> 1 <= Gd s.
Proof.
  intros Hs.
  destruct (Ga_props s Hs) as (_ & EA). destruct (Gb_props s Hs) as (_ & EB).
  destruct (Gc_props s Hs) as (_ & EC).
  apply Rabs_le_inv in EA, EB, EC.
  pose proof (poly_low s ltac:(lra)) as HP. pose proof cABC as HS. fold e54 in HS.
  unfold Gd. apply rndR_ge_1.
  assert (HB : cAr * s + cBr - e56 - e54 <= Gb s) by lra.
  assert (HBs : (cAr * s + cBr - e56 - e54) * s <= Gb s * s) by (apply Rmult_le_compat_r; lra).
  assert (He : 0 < e56 /\ 0 < e54 /\ e55 + e56 < e54) by (unfold e54, e55, e56; lra).
  nra.
Qed.

Lemma multiple_52_R (r : R) : generic_format radix2 (FLT_exp (-1074) 53) r -> 1 <= Rabs r ->
  exists k : Z, r = IZR k * d52.
Proof.
  intros Hg Hr. unfold generic_format in Hg.
  set (M := Ztrunc (scaled_mantissa radix2 (FLT_exp (-1074) 53) r)) in Hg.
  set (c := cexp radix2 (FLT_exp (-1074) 53) r) in Hg.
  assert (Hc : (-52 <= c)%Z).
  { unfold c, cexp, FLT_exp.
    assert (1 <= mag radix2 r)%Z by (apply mag_ge_bpow; exact Hr). lia. }
  exists (M * 2 ^ (c + 52))%Z. rewrite Hg at 1. unfold F2R. cbn [Fnum Fexp].
  rewrite mult_IZR. change 2%Z with (radix_val radix2) at 1. rewrite IZR_Zpower by lia.
  rewrite <- bpow_d52, Rmult_assoc, <- bpow_plus. f_equal. f_equal. lia.
Qed.

Lemma Gd_multiple (s : R) : 0 <= s < 1 -> exists k : Z, Gd s = IZR k * d52.
Proof.
  intros Hs. apply multiple_52_R.
  - unfold Gd, rndR. apply generic_format_round; [exact fexp64_valid|apply valid_rnd_N].
  - pose proof (Gd_ge_1 s Hs). rewrite Rabs_pos_eq; lra.
Qed.

(* monotonicity of the Horner evaluation on the grid of significands *)
Lemma Gg_mono (j j' : Z) : (0 <= j)%Z -> (j <= j')%Z -> (j' < 2 ^ 52)%Z ->
  Gg (IZR j * d52) <= Gg (IZR j' * d52).
Proof.
  intros Hj Hjj Hj'.
  destruct (Z.eq_dec j j') as [->|Hne]; [apply Rle_refl|].
  set (s := IZR j * d52). set (s' := IZR j' * d52).
  assert (Hd : 0 < d52) by (unfold d52; lra).
  assert (Hs : 0 <= s < 1).
  { unfold s. split.
    - apply Rmult_le_pos; [apply IZR_le; lia|lra].
    - apply Rlt_le_trans with (IZR (2 ^ 52) * d52).
      + apply Rmult_lt_compat_r; [exact Hd|apply IZR_lt; lia].
      + change (2 ^ 52)%Z with 4503599627370496%Z. unfold d52. lra. }
  assert (Hs' : 0 <= s' < 1).
  { unfold s'. split.
    - apply Rmult_le_pos; [apply IZR_le; lia|lra].
    - apply Rlt_le_trans with (IZR (2 ^ 52) * d52).
      + apply Rmult_lt_compat_r; [exact Hd|apply IZR_lt; lia].
      + change (2 ^ 52)%Z with 4503599627370496%Z. unfold d52. lra. }
  assert (HD : s + d52 <= s').
  { unfold s, s'. replace (IZR j * d52 + d52) with (IZR (j + 1) * d52) by (rewrite plus_IZR; ring).
    apply Rmult_le_compat_r; [lra|apply IZR_le; lia]. }
  (* b <= b' *)
  assert (Hbb : Gb s <= Gb s').
  { unfold Gb, Ga. apply rndR_le. apply Rplus_le_compat_r. apply rndR_le.
    pose proof cAr_bounds. apply Rmult_le_compat_l; lra. }
  destruct (Gb_props s Hs) as ((B0 & B1) & _). destruct (Gb_props s' Hs') as ((B0' & B1') & _).
  destruct (Gc_props s Hs) as (_ & EC). destruct (Gc_props s' Hs') as (_ & EC').
  destruct (Gd_props s Hs) as (_ & ED). destruct (Gd_props s' Hs') as (_ & ED').
  apply Rabs_le_inv in EC, EC', ED, ED'.
  pose proof cBr_bounds as HB.
  (* b s - b' s' <= 0.6 (s' - s) *)
  assert (H1 : Gb s * s - Gb s' * s' <= 6 / 10 * (s' - s)).
  { replace (Gb s * s - Gb s' * s') with ((Gb s - Gb s') * s + (- Gb s') * (s' - s)) by ring.
    assert ((Gb s - Gb s') * s <= 0).
    { rewrite <- (Rmult_0_l s). apply Rmult_le_compat_r; lra. }
    assert (- Gb s' * (s' - s) <= 6 / 10 * (s' - s)) by (apply Rmult_le_compat_r; lra).
    lra. }
  (* d - d' < (s' - s) + d52 *)
  assert (He : e55 + e55 = e54 /\ e53 + e53 = d52 /\ 4 * e54 = d52 /\ 0 < e54)
    by (unfold e53, e54, e55, d52; lra).
  assert (H2 : Gd s - Gd s' < (s' - s) + d52) by lra.
  (* integrality *)
  destruct (Gd_multiple s Hs) as (k & Hk). destruct (Gd_multiple s' Hs') as (k' & Hk').
  assert (H3 : Gd s - Gd s' <= s' - s).
  { rewrite Hk, Hk' in *. unfold s, s' in *.
    assert (IZR (k - k') < IZR (j' - j + 1)).
    { rewrite !minus_IZR, plus_IZR, minus_IZR.
      apply Rmult_lt_reg_r with d52; [exact Hd|]. simpl (IZR 1). lra. }
    apply lt_IZR in H.
    assert (IZR (k - k') <= IZR (j' - j)) by (apply IZR_le; lia).
    rewrite !minus_IZR in H0.
    replace (IZR k * d52 - IZR k' * d52) with ((IZR k - IZR k') * d52) by ring.
    replace (IZR j' * d52 - IZR j * d52) with ((IZR j' - IZR j) * d52) by ring.
    apply Rmult_le_compat_r; lra. }
  pose proof (Gd_ge_1 s' Hs') as H4.
  unfold Gg. apply rndR_le.
  (* d s <= d' s' *)
  replace (Gd s' * s') with (Gd s * s + ((Gd s' - Gd s) * s + Gd s' * (s' - s))) by ring.
  assert ((Gd s - Gd s') * s <= (s' - s) * s) by (apply Rmult_le_compat_r; lra).
  assert (1 * (s' - s) <= Gd s' * (s' - s)) by (apply Rmult_le_compat_r; lra).
  assert ((s' - s) * s <= (s' - s) * 1) by (apply Rmult_le_compat_l; lra).
  lra.
Qed.

Lemma Gg_nonneg (s : R) : 0 <= s < 1 -> 0 <= Gg s.
Proof.
  intros Hs. pose proof (Gd_ge_1 s Hs). unfold Gg. rewrite <- rndR_0. apply rndR_le.
  apply Rmult_le_pos; lra.
Qed.

(* at the largest significand the polynomial value is still at most 1 *)
Lemma Gg_top : Gg (1 - d52) <= 1.
Proof.
  assert (Hd : 0 < d52 < / 1000) by (unfold d52; lra).
  remember (1 - d52) as s eqn:Es.
  assert (Hs : 0 <= s < 1) by lra.
  destruct (Ga_props _ Hs) as (_ & EA). destruct (Gb_props _ Hs) as (_ & EB).
  destruct (Gc_props _ Hs) as (_ & EC).
  apply Rabs_le_inv in EA, EB, EC.
  assert (H1 : Gb s * s <= (Ga s + cBr + e54) * s) by (apply Rmult_le_compat_r; lra).
  assert (H2 : Ga s * s <= (cAr * s + e56) * s) by (apply Rmult_le_compat_r; lra).
  assert (N : cAr * (s * s) + (cBr + e56 + e54) * s + e55 + cCr <= 1 + d52).
  { rewrite Es. unfold cAr, cBr, cCr, e54, e55, e56, d52. lra. }
  assert (HD : Gd s <= 1 + d52).
  { unfold Gd. rewrite <- (rndR_52 4503599627370497 (1 + d52)) by (try lia; unfold d52; lra).
    apply rndR_le. lra. }
  unfold Gg. rewrite <- rndR_1. apply rndR_le.
  assert (Gd s * s <= (1 + d52) * s) by (apply Rmult_le_compat_r; lra).
  assert ((1 + d52) * s <= 1) by (rewrite Es; nra).
  lra.
Qed.

Lemma Gg_le_1 (j : Z) : (0 <= j < 2 ^ 52)%Z -> Gg (IZR j * d52) <= 1.
Proof.
  intros Hj. apply Rle_trans with (2 := Gg_top).
  replace (1 - d52) with (IZR (2 ^ 52 - 1) * d52).
  - apply Gg_mono; lia.
  - change (2 ^ 52 - 1)%Z with 4503599627370495%Z. unfold d52. field.
Qed.
End CubReal.

(* ------------------------------------------------------------------ *)
(* 12. cubic mapping: approximateLog and Index are monotone *)
(* ------------------------------------------------------------------ *)

(* the significand of a positive normal float lies on the grid j * 2^-52 *)
Lemma sp1_grid (x : f64) : pos_normal x ->
  exists j : Z, 0 <= j < 2 ^ 52 /\ (BR (sp1_of x) - 1 = IZR j * d52)%R.
Proof.
  intros Hx. destruct (decompose x Hx) as (mx & ex & H & H' & -> & Hm & He & Hb & Hge & Hgs).
  exists (Zpos mx - 2 ^ 52). split; [change (2 ^ 53) with (2 ^ 52 + 2 ^ 52) in Hm; lia|].
  unfold sp1_of. rewrite Hgs. cbn [B2R cond_Zopp]. unfold F2R. cbn [Fnum Fexp].
  rewrite bpow_d52, minus_IZR. change (2 ^ 52) with 4503599627370496. unfold d52. field.
Qed.

Section Cub.
Variable L : libm.

(* the float evaluation of  ((A s + B) s + C) s + e  is the real Horner chain Gg, then one addition *)
Lemma approx_log_cub_R (x : f64) : pos_normal x ->
  fin (approx_log L MCub x) /\
  BR (approx_log L MCub x) = rndR (Gg (BR (sp1_of x) - 1) + IZR (x_exp x)) /\
  (Rabs (BR (approx_log L MCub x)) <= 1026)%R.
Proof.
  intros Hx. destruct (sp1_grid x Hx) as (j & Hj & Es).
  destruct (decompose_R x Hx) as (Be & _ & Fe & Re & Fs & Ms & _).
  set (s := (BR (sp1_of x) - 1)%R) in *.
  assert (Hs : (0 <= s < 1)%R) by (unfold s; lra).
  unfold approx_log. fold (sp1_of x).
  (* s = sp1 - 1, exact *)
  destruct (fsub_bounded (sp1_of x) f64_one Fs f64_one_fin) as (FS & RS).
  { rewrite f64_one_BR. apply (small_le_max 1); [lia|]. apply Rabs_le. fold s. lra. }
  rewrite f64_one_BR in RS. fold s in RS.
  rewrite (rndR_52 j s) in RS by (try lia; exact Es).
  set (S := fsub (sp1_of x) f64_one) in *.
  destruct (Ga_props s Hs) as ((A0 & A1) & _). destruct (Gb_props s Hs) as ((B0 & B1) & _).
  pose proof (Gb_half s Hs) as Bh. destruct (Gc_props s Hs) as ((C0 & C1) & _).
  destruct (Gd_props s Hs) as (D1 & _). pose proof (Gd_ge_1 s Hs) as D0.
  pose proof cAr_bounds as HA. pose proof cBr_bounds as HB. pose proof cCr_bounds as HC.
  (* a = A * s *)
  destruct (fmul_bounded cA S cA_fin FS) as (Fa & Ra).
  { rewrite cA_BR, RS. apply (small_le_max 1); [lia|]. apply Rabs_le. simpl (IZR 1). nra. }
  rewrite cA_BR, RS in Ra. fold (Ga s) in Ra.
  (* b = a + B *)
  destruct (fadd_bounded (fmul cA S) cB Fa cB_fin) as (Fb & Rb).
  { rewrite Ra, cB_BR. apply (small_le_max 1); [lia|]. apply Rabs_le. simpl (IZR 1). lra. }
  rewrite Ra, cB_BR in Rb. fold (Gb s) in Rb.
  (* c = b * s *)
  destruct (fmul_bounded (fadd (fmul cA S) cB) S Fb FS) as (Fc & Rc).
  { rewrite Rb, RS. apply (small_le_max 1); [lia|]. simpl (IZR 1). lra. }
  rewrite Rb, RS in Rc. fold (Gc s) in Rc.
  (* d = c + C *)
  destruct (fadd_bounded _ cC Fc cC_fin) as (Fd & Rd).
  { rewrite Rc, cC_BR. apply (small_le_max 2); [lia|]. apply Rabs_le. simpl (IZR 2). lra. }
  rewrite Rc, cC_BR in Rd. fold (Gd s) in Rd.
  (* g = d * s *)
  destruct (fmul_bounded _ S Fd FS) as (Fg & Rg).
  { rewrite Rd, RS. apply (small_le_max 2); [lia|]. apply Rabs_le. simpl (IZR 2). nra. }
  rewrite Rd, RS in Rg. fold (Gg s) in Rg.
  (* + e *)
  pose proof (Gg_nonneg s Hs) as G0.
  assert (G1 : (Gg s <= 1)%R) by (rewrite Es; apply Gg_le_1; exact Hj).
  assert (Bx : (-1022 <= IZR (x_exp x) <= 1023)%R) by (split; apply IZR_le; lia).
  destruct (fadd_bounded _ (get_exponent (bits_of_f64 x)) Fg Fe) as (Fl & Rl).
  { rewrite Rg, Re. apply (small_le_max 1024); [lia|]. apply Rabs_le. simpl (IZR 1024). lra. }
  rewrite Rg, Re in Rl.
  split; [exact Fl|]. split; [exact Rl|].
  rewrite Rl. apply Rle_trans with (IZR 1024); [|simpl; lra].
  apply rndR_abs_le; [lia|]. apply Rabs_le. simpl (IZR 1024). lra.
Qed.

Theorem approx_log_cub_mono (x y : f64) : pos_normal x -> pos_normal y -> (BR x <= BR y)%R ->
  (BR (approx_log L MCub x) <= BR (approx_log L MCub y))%R.
Proof.
  intros Hx Hy Hxy.
  destruct (approx_log_cub_R x Hx) as (_ & -> & _). destruct (approx_log_cub_R y Hy) as (_ & -> & _).
  destruct (sp1_grid x Hx) as (jx & Hjx & Esx). destruct (sp1_grid y Hy) as (jy & Hjy & Esy).
  destruct (decompose_R x Hx) as (_ & _ & _ & _ & _ & Mx & Ex).
  destruct (decompose_R y Hy) as (_ & _ & _ & _ & _ & My & Ey).
  pose proof (x_exp_mono x y Hx Hxy) as He.
  assert (Hd : (0 < d52)%R) by (unfold d52; lra).
  apply rndR_le. rewrite Esx, Esy.
  destruct (Z.eq_dec (x_exp x) (x_exp y)) as [E|E].
  - rewrite E in *. apply Rplus_le_compat_r. apply Gg_mono; try lia.
    apply le_IZR. apply Rmult_le_reg_r with d52; [exact Hd|]. rewrite <- Esx, <- Esy.
    pose proof (bpow_gt_0 radix2 (x_exp y)) as Hp.
    assert (BR (sp1_of x) <= BR (sp1_of y))%R; [|lra].
    apply Rmult_le_reg_r with (bpow radix2 (x_exp y)); [exact Hp|]. rewrite <- Ex, <- Ey. exact Hxy.
  - assert (IZR (x_exp x) + 1 <= IZR (x_exp y))%R by (rewrite <- plus_IZR; apply IZR_le; lia).
    pose proof (Gg_le_1 jx Hjx). 
    assert (0 <= Gg (IZR jy * d52))%R.
    { apply Gg_nonneg. rewrite <- Esy. lra. }
    lra.
Qed.

Theorem cub_index_mono (m : gmap) (x y : f64) :
  gm_kind m = MCub -> (0 <= BR (gm_mult m))%R ->
  pos_normal x -> pos_normal y -> (BR x <= BR y)%R ->
  fin (fadd (fmul (approx_log L MCub x) (gm_mult m)) (gm_off m)) ->
  fin (fadd (fmul (approx_log L MCub y) (gm_mult m)) (gm_off m)) ->
  gm_index L m x <= gm_index L m y.
Proof.
  intros K Hm Hx Hy Hxy Fx Fy. rewrite !gm_index_eq, K.
  apply index_of_mono; try assumption. apply approx_log_cub_mono; assumption.
Qed.

Theorem cub_index_mono_bounded (m : gmap) (x y : f64) :
  gm_kind m = MCub -> fin (gm_mult m) -> fin (gm_off m) ->
  (0 <= BR (gm_mult m) <= bpow radix2 40)%R -> (Rabs (BR (gm_off m)) <= bpow radix2 40)%R ->
  pos_normal x -> pos_normal y -> (BR x <= BR y)%R ->
  gm_index L m x <= gm_index L m y.
Proof.
  intros K Fm Fo Bm Bo Hx Hy Hxy.
  destruct (approx_log_cub_R x Hx) as (Fax & _ & Bax).
  destruct (approx_log_cub_R y Hy) as (Fay & _ & Bay).
  assert (Bm' : (Rabs (BR (gm_mult m)) <= bpow radix2 40)%R) by (apply Rabs_le; lra).
  apply cub_index_mono; try assumption; try lra; apply index_arg_fin; assumption.
Qed.
End Cub.

Lemma rndR_eq (r : R) : rndR r = round radix2 (FLT_exp (-1074) 53) ZnearestE r.
Proof. reflexivity. Qed.
Lemma Gg_eq (s : R) : Gg s = rndR (rndR (rndR (rndR (rndR (cAr * s) + cBr) * s) + cCr) * s).
Proof. reflexivity. Qed.
Lemma sp1_of_eq (x : f64) : sp1_of x = get_significand_plus_one (bits_of_f64 x).
Proof. reflexivity. Qed.
Lemma x_exp_eq (x : f64) : x_exp x = mag radix2 (BR x) - 1.
Proof. reflexivity. Qed.

(* the same value, written with the float constants A = cA, B = cB, C = cC of the model and with every
   definition of this file unfolded (so that Props/Glue.v can restate it verbatim) *)
Lemma approx_log_cub_value (L : libm) (x : f64) : pos_normal x ->
  fin (approx_log L MCub x) /\
  BR (approx_log L MCub x) =
    round radix2 (FLT_exp (-1074) 53) ZnearestE
      (round radix2 (FLT_exp (-1074) 53) ZnearestE
         (round radix2 (FLT_exp (-1074) 53) ZnearestE
            (round radix2 (FLT_exp (-1074) 53) ZnearestE
               (round radix2 (FLT_exp (-1074) 53) ZnearestE
                  (round radix2 (FLT_exp (-1074) 53) ZnearestE
                     (BR cA * (BR (get_significand_plus_one (bits_of_f64 x)) - 1)) + BR cB)
                * (BR (get_significand_plus_one (bits_of_f64 x)) - 1)) + BR cC)
          * (BR (get_significand_plus_one (bits_of_f64 x)) - 1))
       + IZR (mag radix2 (BR x) - 1)) /\
  (Rabs (BR (approx_log L MCub x)) <= 1026)%R.
Proof.
  intros Hx. pose proof (approx_log_cub_R L x Hx) as H.
  rewrite Gg_eq, <- cA_BR, <- cB_BR, <- cC_BR, !rndR_eq, sp1_of_eq, x_exp_eq in H. exact H.
Qed.
