(* Float-level accuracy of the interpolated mappings of the bit-exact model (Mapping/Glue.v):
   containment, bin ratio and relative accuracy of Value(Index(v)), by comparison with the ideal
   log-like pairs of SK.Real (L_lin / Linv_lin, growth constant 1; L_cub / Linv_cub, growth constant 10/7).
   Section 1 is generic in the kind: it needs an absolute error 2^-42 of approximateLog and a relative error
   2^-45 of approximateInverseLog against the ideal pair.  Section 2 proves both for the linear mapping
   (math.Floor exact is the only premise on the oracle).  Section 3 proves the forward one for the cubic
   mapping; its Cardano inverse stays a named premise. *)
From Coq Require Import Bool NArith ZArith QArith Qcanon Qcabs Qreals Reals Lra Lia Psatz.
From Flocq Require Import Core.Core Relative IEEE754.BinarySingleNaN IEEE754.Binary IEEE754.Bits.
From SK Require Import Base.Prelude Base.F64 Base.F64Proofs Mapping.Glue Mapping.GlueProofs.
From SK.Real Require Import RBasics MapGeneric Binade MapLin.
From SK.Real Require MapCub.
#[local] Existing Instance prec53_gt_0.
#[local] Existing Instance fexp64_valid.
Local Open Scope R_scope.

(* ------------------------------------------------------------------ *)
(* 0. constants, rounding error in relative form, elementary analysis  *)
(* ------------------------------------------------------------------ *)
Definition u53 : R := / 9007199254740992.                   (* 2^-53 *)
Definition q51 : R := / 2251799813685248.                   (* 2^-51 *)
Definition q45 : R := / 35184372088832.                     (* 2^-45 *)
Definition q41 : R := / 2199023255552.                      (* 2^-41 *)
Definition q40 : R := / 1099511627776.                      (* 2^-40 *)
Definition q38 : R := / 274877906944.                       (* 2^-38 *)
Definition q35 : R := / 34359738368.                        (* 2^-35 *)
Definition u100 : R := / 1267650600228229401496703205376.   (* 2^-100 *)

Lemma u53_bpow : bpow radix2 (-53) = u53. Proof. reflexivity. Qed.
Lemma u100_bpow : bpow radix2 (-100) = u100. Proof. reflexivity. Qed.

(* |rnd x - x| <= 2^-53 |x| + 2^-100 (in fact + 2^-1075), for every real x *)
Lemma rndR_err_rel (x : R) : Rabs (rndR x - x) <= u53 * Rabs x + u100.
Proof.
  destruct (error_N_FLT radix2 (-1074) 53 ltac:(lia) (fun z => negb (Z.even z)) x)
    as (eps & eta & He & Ht & _ & E).
  change (round radix2 (FLT_exp (-1074) 53) (Znearest (fun z => negb (Z.even z))) x) with (rndR x) in E.
  rewrite E. replace (x * (1 + eps) + eta - x) with (x * eps + eta) by ring.
  apply Rle_trans with (1 := Rabs_triang _ _). rewrite Rabs_mult.
  change (- (53) + 1)%Z with (-52)%Z in He.
  assert (H1 : / 2 * bpow radix2 (-52) = u53) by (unfold u53; change (bpow radix2 (-52)) with (/ 4503599627370496); lra).
  rewrite H1 in He.
  assert (H2 : / 2 * bpow radix2 (-1074) <= u100).
  { rewrite <- u100_bpow. apply Rle_trans with (1 * bpow radix2 (-1074)).
    - apply Rmult_le_compat_r; [apply bpow_ge_0|lra].
    - rewrite Rmult_1_l. apply bpow_le. lia. }
  pose proof (Rabs_pos x). apply Rplus_le_compat; [|lra].
  rewrite Rmult_comm. apply Rmult_le_compat_r; assumption.
Qed.

(* relative form in the normal range *)
Lemma rndR_err_normal (x : R) : bpow radix2 (-1022) <= Rabs x -> Rabs (rndR x - x) <= u53 * Rabs x.
Proof.
  intros Hx. unfold rndR.
  pose proof (relative_error_N_FLT radix2 (-1074) 53 ltac:(lia) (fun z => negb (Z.even z)) x Hx) as H.
  change (- (53) + 1)%Z with (-52)%Z in H.
  replace (/ 2 * bpow radix2 (-52)) with u53 in H
    by (unfold u53; change (bpow radix2 (-52)) with (/ 4503599627370496); lra).
  exact H.
Qed.

Lemma exp_le_1p2x (x : R) : 0 <= x <= / 2 -> exp x <= 1 + 2 * x.
Proof.
  intros Hx. pose proof (exp_ineq1_le (- x)) as H. rewrite exp_Ropp in H.
  pose proof (exp_pos x) as Hp.
  assert (H1 : (1 - x) * exp x <= 1).
  { apply Rmult_le_reg_r with (/ exp x); [apply Rinv_0_lt_compat; exact Hp|].
    rewrite Rmult_assoc, Rinv_r, Rmult_1_r, Rmult_1_l by lra. lra. }
  nra.
Qed.

(* Flocq's powers of two and the development over R *)
Lemma bpow_pow2 (e : Z) : bpow radix2 e = pow2 e.
Proof. unfold pow2. rewrite bpow_powerRZ. reflexivity. Qed.

Lemma floorZ_Zfloor (r : R) : floorZ r = Zfloor r.
Proof. reflexivity. Qed.

Lemma div_le_intro (a b M : R) : 0 < M -> a <= b * M -> a / M <= b.
Proof.
  intros HM H. apply Rmult_le_reg_r with M; [exact HM|]. unfold Rdiv.
  rewrite Rmult_assoc, Rinv_l, Rmult_1_r by lra. exact H.
Qed.
Lemma le_div_intro (a b M : R) : 0 < M -> b * M <= a -> b <= a / M.
Proof.
  intros HM H. apply Rmult_le_reg_r with M; [exact HM|]. unfold Rdiv.
  rewrite Rmult_assoc, Rinv_l, Rmult_1_r by lra. exact H.
Qed.

Lemma go_floor_bounds (a : f64) : fin a -> IZR (go_floor a) <= BR a <= IZR (go_floor a) + 1.
Proof.
  intros Ha. destruct (go_floor_R a Ha) as (P & N).
  destruct (Rle_lt_dec 0 (BR a)) as [H|H].
  - rewrite (P H). pose proof (Zfloor_lb (BR a)). pose proof (Zfloor_ub (BR a)). lra.
  - rewrite (N H). rewrite minus_IZR. pose proof (Zceil_ub (BR a)). pose proof (Zceil_lb (BR a)).
    simpl (IZR 1). lra.
Qed.

Lemma bpow_le_max (e : Z) : (e <= 1023)%Z -> bpow radix2 e <= IZR f64max_Z.
Proof.
  intros He. apply Rle_trans with (bpow radix2 1023); [apply bpow_le; exact He|].
  unfold f64max_Z. rewrite mult_IZR. change 2%Z with (radix_val radix2) at 2.
  rewrite IZR_Zpower by lia. replace 1023%Z with (52 + 971)%Z by lia. rewrite bpow_plus.
  apply Rmult_le_compat_r; [apply bpow_ge_0|].
  change (bpow radix2 52) with 4503599627370496. change (2 ^ 53 - 1)%Z with 9007199254740991%Z. lra.
Qed.

Lemma fdiv_bounded (a b : f64) : fin a -> BR b <> 0 -> Rabs (BR a / BR b) <= IZR f64max_Z ->
  fin (fdiv a b) /\ BR (fdiv a b) = rndR (BR a / BR b).
Proof.
  intros Fa Hb Hr.
  pose proof (Binary.Bdiv_correct 53 1024 eq_refl eq_refl binop_nan_pl64 mode_NE a b Hb) as H.
  change (Binary.Bdiv 53 1024 eq_refl eq_refl binop_nan_pl64 mode_NE a b) with (fdiv a b) in H.
  rewrite Rlt_bool_true in H by (apply no_overflow_Rabs; exact Hr).
  destruct H as (H1 & H2 & _). split; [rewrite H2; exact Fa|exact H1].
Qed.

(* math.Floor is exact (as in GlueProofs, now for every argument) *)
Definition floor_exact (L : libm) : Prop :=
  forall u : f64, fin u -> fin (l_floor L u) /\ BR (l_floor L u) = IZR (Zfloor (BR u)).

Lemma accuracy_algebra (v lo lo' F Val g eF : R) :
  0 < v -> 0 < lo -> 1 < g <= 4 -> 0 <= eF <= / 8 ->
  lo <= v * (1 + q38) -> v <= lo' * (1 + q38) -> lo' <= lo * g * (1 + q38) ->
  1 <= F -> Rabs (F - (1 + alpha_of g)) <= eF ->
  Rabs (Val - lo * F) <= u53 * (lo * F) ->
  Rabs (Val - v) <= (alpha_of g + eF + q35) * v.
Proof.
  intros Hv Hlo Hg HeF K1 K2 K3 HF EF EV.
  pose proof (alpha_of_bounds g ltac:(lra)) as Ha.
  set (a := alpha_of g) in *.
  assert (Ea : 1 + a = g * (1 - a)) by (unfold a, alpha_of; field; lra).
  assert (Ha' : a <= 3 / 5).
  { unfold a, alpha_of. apply div_le_intro; lra. }
  apply Rabs_le_inv in EF, EV.
  assert (Hq : 0 < q38 /\ q38 = / 274877906944 /\ q35 = 8 * q38 /\ 0 < u53 <= q38 / 1000)
    by (unfold q38, q35, u53; lra).
  destruct Hq as (Q1 & Q2 & Q3 & Q4).
  assert (PF : 0 < lo * F) by (apply Rmult_lt_0_compat; lra).
  apply Rabs_le. split.
  - (* Val >= v (1 - a - eF - q35) *)
    set (c := (1 + q38) * (1 + q38)).
    assert (K : v <= lo * (g * c)).
    { unfold c. apply Rle_trans with (1 := K2).
      replace (lo * (g * ((1 + q38) * (1 + q38)))) with (lo * g * (1 + q38) * (1 + q38)) by ring.
      apply Rmult_le_compat_r; lra. }
    set (Y := 1 - a - eF - q35).
    assert (HY : 0 <= Y) by (unfold Y; lra).
    assert (Hc : 1 <= c <= 1 + 3 * q38) by (unfold c; nra).
    assert (Key : g * c * Y <= (1 + a - eF) * (1 - u53)).
    { rewrite Ea. unfold Y.
      assert (Hgc : 1 <= g * c) by (replace 1 with (1 * 1) by ring; apply Rmult_le_compat; lra).
      assert (T1 : g * (1 - a) * (c - (1 - u53)) <= g * 1 * (u53 + 3 * q38)).
      { apply Rmult_le_compat; try lra. apply Rmult_le_compat_l; lra. }
      assert (T2 : 0 <= eF * (g * c - (1 - u53))) by (apply Rmult_le_pos; lra).
      assert (T3 : g * 1 * q35 <= g * c * q35).
      { apply Rmult_le_compat_r; [lra|]. apply Rmult_le_compat_l; lra. }
      assert (T4 : g * (u53 + 3 * q38) <= g * q35) by (apply Rmult_le_compat_l; lra).
      lra. }
    assert (H1 : v * Y <= lo * ((1 + a - eF) * (1 - u53))).
    { apply Rle_trans with (lo * (g * c) * Y); [apply Rmult_le_compat_r; assumption|].
      rewrite Rmult_assoc. apply Rmult_le_compat_l; [lra|]. lra. }
    assert (H2 : lo * ((1 + a - eF) * (1 - u53)) <= lo * F * (1 - u53)).
    { rewrite Rmult_assoc. apply Rmult_le_compat_l; [lra|]. apply Rmult_le_compat_r; lra. }
    unfold Y in H1. lra.
  - (* Val <= v (1 + a + eF + q35) *)
    assert (H1 : lo * F <= v * (1 + q38) * (1 + a + eF)).
    { apply Rmult_le_compat; lra. }
    assert (H2 : (1 + q38) * (1 + a + eF) * (1 + u53) <= 1 + a + eF + q35) by nra.
    assert (H3 : Val <= v * ((1 + q38) * (1 + a + eF) * (1 + u53))).
    { apply Rle_trans with (lo * F * (1 + u53)); [lra|].
      replace (v * ((1 + q38) * (1 + a + eF) * (1 + u53))) with (v * (1 + q38) * (1 + a + eF) * (1 + u53)) by ring.
      apply Rmult_le_compat_r; lra. }
    assert (H4 : v * ((1 + q38) * (1 + a + eF) * (1 + u53)) <= v * (1 + a + eF + q35))
      by (apply Rmult_le_compat_l; lra).
    lra.
Qed.

(* ------------------------------------------------------------------ *)
(* 1. the kind-generic argument                                        *)
(* ------------------------------------------------------------------ *)
(* "reasonable" mapping of kind k: multiplier in [1, 2^20] (gamma between 2^(2^-20) and 2),
   |indexOffset| <= 2^11 * multiplier (the constructors use indexOffset = 0 or = multiplier) *)
Definition reasonable (k : mkind) (m : gmap) : Prop :=
  gm_kind m = k /\ fin (gm_mult m) /\ fin (gm_off m) /\
  1 <= BR (gm_mult m) <= 1048576 /\ Rabs (BR (gm_off m)) <= 2048 * BR (gm_mult m).

(* the float whose Go floor is Index(v), and the float argument of approximateInverseLog in LowerBound(k) *)
Definition index_float (L : libm) (m : gmap) (v : f64) : f64 :=
  fadd (fmul (approx_log L (gm_kind m) v) (gm_mult m)) (gm_off m).
Definition lower_arg (m : gmap) (k : Z) : f64 := fdiv (fsub (f_of_int k) (gm_off m)) (gm_mult m).
(* index k is "in range": that argument has its floor in [-1022, 1023] (the binades of normal floats) *)
Definition in_range (m : gmap) (k : Z) : Prop := (-1022 <= Zfloor (BR (lower_arg m k)) <= 1023)%Z.

(* what the argument needs from approximateLog / approximateInverseLog of kind k, relative to an ideal
   log-like pair (Lr, Linvr): absolute error 2^-42 forward, relative error 2^-45 backward *)
Definition forward_ok (L : libm) (k : mkind) (Lr : R -> R) : Prop :=
  forall v : f64, pos_normal v ->
    0 < BR v /\ fin (approx_log L k v) /\ Rabs (BR (approx_log L k v)) <= 1026 /\
    Rabs (BR (approx_log L k v) - Lr (BR v)) <= / 4398046511104.
Definition inverse_ok (L : libm) (k : mkind) (Linvr : R -> R) : Prop :=
  forall t : f64, fin t -> (-1022 <= Zfloor (BR t) <= 1023)%Z ->
    fin (approx_inverse_log L k t) /\ pos_normal (approx_inverse_log L k t) /\
    Linvr (BR t) * (1 - q45) <= BR (approx_inverse_log L k t) <= Linvr (BR t) * (1 + q45).

(* the factor  1 + RelativeAccuracy()  used by Value: finite, at least 1, within eF of 1 + alpha_of g0.
   RelativeAccuracy() goes through math.Exp and math.Log2: this is where libm enters. *)
Definition value_factor_ok (L : libm) (m : gmap) (g0 eF : R) : Prop :=
  fin (fadd f64_one (gm_accuracy L m)) /\ 1 <= BR (fadd f64_one (gm_accuracy L m)) /\
  Rabs (BR (fadd f64_one (gm_accuracy L m)) - (1 + alpha_of g0)) <= eF.

Section Gen.
Variable L : libm.
Variable k : mkind.
Variables (Lr Linvr : R -> R) (c : R).
Hypothesis HLL : LogLike Lr Linvr c.
Hypothesis Hc : 1 <= c.
Hypothesis Hfwd : forward_ok L k Lr.
Hypothesis Hinv : inverse_ok L k Linvr.
Variable m : gmap.
Hypothesis Hm : reasonable k m.

(* the ideal inverse is monotone and Lipschitz for ln *)
Lemma Linvr_le (s t : R) : s <= t -> Linvr s <= Linvr t.
Proof.
  intros [H| ->]; [|apply Rle_refl]. apply Rlt_le. exact (ll_inv_incr Lr Linvr c HLL s t H).
Qed.

Lemma Linvr_exp_c (s t : R) : s <= t -> Linvr t <= Linvr s * exp ((t - s) / c).
Proof.
  intros Hst. pose proof (ll_inv_pos _ _ _ HLL s) as Ps. pose proof (ll_inv_pos _ _ _ HLL t) as Pt.
  pose proof (ll_growth _ _ _ HLL _ _ Ps (Linvr_le s t Hst)) as Hg.
  rewrite !(ll_L_inv _ _ _ HLL) in Hg.
  apply ln_le_inv; [exact Pt|apply Rmult_lt_0_compat; [exact Ps|apply exp_pos]|].
  rewrite ln_mult by (try apply exp_pos; exact Ps). rewrite ln_exp.
  assert (ln (Linvr t) - ln (Linvr s) <= (t - s) / c); [|lra].
  apply le_div_intro; lra.
Qed.

Lemma Linvr_exp (s t : R) : s <= t -> Linvr t <= Linvr s * exp (t - s).
Proof.
  intros Hst. apply Rle_trans with (1 := Linvr_exp_c s t Hst).
  pose proof (ll_inv_pos _ _ _ HLL s) as Ps.
  apply Rmult_le_compat_l; [lra|]. apply exp_le_mono.
  apply div_le_intro; [lra|]. nra.
Qed.

Lemma index_float_err (v : f64) : pos_normal v ->
  fin (index_float L m v) /\
  Rabs (BR (index_float L m v) - (Lr (BR v) * BR (gm_mult m) + BR (gm_off m))) <= BR (gm_mult m) * q40 /\
  Rabs (BR (index_float L m v)) <= 4096 * BR (gm_mult m).
Proof.
  intros Hv. destruct Hm as (K & Fm & Fo & BM & BO). unfold index_float. rewrite K.
  destruct (Hfwd v Hv) as (_ & Fa & Ba & Ea).
  assert (FT : fin (fadd (fmul (approx_log L k v) (gm_mult m)) (gm_off m))).
  { apply index_arg_fin; try assumption.
    - change (bpow radix2 40) with 1099511627776. apply Rabs_le. lra.
    - change (bpow radix2 40) with 1099511627776. apply Rabs_le_inv in BO. apply Rabs_le. lra. }
  remember (BR (gm_mult m)) as M eqn:EM. remember (BR (gm_off m)) as O eqn:EO.
  remember (BR (approx_log L k v)) as al eqn:Eal. remember (Lr (BR v)) as Lv eqn:ELv.
  destruct (fadd_fin_inv _ _ FT) as (Fp & _).
  pose proof (fadd_R _ _ Fp Fo FT) as RT. pose proof (fmul_R _ _ Fp) as Rp.
  rewrite <- Eal, <- EM in Rp. rewrite <- EO, Rp in RT.
  remember (rndR (al * M)) as p eqn:Ep.
  apply Rabs_le_inv in Ba. apply Rabs_le_inv in BO. apply Rabs_le_inv in Ea.
  assert (BaM : Rabs (al * M) <= 1026 * M).
  { rewrite Rabs_mult, (Rabs_pos_eq M) by lra. apply Rmult_le_compat_r; [lra|apply Rabs_le; lra]. }
  pose proof (rndR_err_rel (al * M)) as E1. rewrite <- Ep in E1.
  assert (E1' : Rabs (p - al * M) <= u53 * (1026 * M) + u100).
  { apply Rle_trans with (1 := E1). apply Rplus_le_compat_r. apply Rmult_le_compat_l; [unfold u53; lra|exact BaM]. }
  apply Rabs_le_inv in E1'. apply Rabs_le_inv in BaM.
  assert (Bp : Rabs (p + O) <= 3075 * M) by (apply Rabs_le; unfold u53, u100 in *; lra).
  pose proof (rndR_err_rel (p + O)) as E2.
  assert (E2' : Rabs (rndR (p + O) - (p + O)) <= u53 * (3075 * M) + u100).
  { apply Rle_trans with (1 := E2). apply Rplus_le_compat_r. apply Rmult_le_compat_l; [unfold u53; lra|exact Bp]. }
  apply Rabs_le_inv in E2'. apply Rabs_le_inv in Bp.
  assert (EaM : - (/ 4398046511104 * M) <= al * M - Lv * M <= / 4398046511104 * M).
  { replace (al * M - Lv * M) with ((al - Lv) * M) by ring.
    replace (- (/ 4398046511104 * M)) with ((- / 4398046511104) * M) by ring.
    split; apply Rmult_le_compat_r; lra. }
  split; [exact FT|]. rewrite RT. split.
  - apply Rabs_le. unfold u53, u100, q40 in *. lra.
  - apply Rabs_le. unfold u53, u100 in *. lra.
Qed.

(* the index brackets the index float, hence (i - off)/mult and (i + 1 - off)/mult bracket Lr v
   up to 2^-40 *)
Lemma index_brackets (v : f64) : pos_normal v ->
  let i := gm_index L m v in
  (IZR i - BR (gm_off m)) / BR (gm_mult m) <= Lr (BR v) + q40 /\
  Lr (BR v) - q40 <= (IZR i + 1 - BR (gm_off m)) / BR (gm_mult m) /\
  Rabs (IZR i) <= 4096 * BR (gm_mult m) + 1.
Proof.
  intros Hv i. destruct (index_float_err v Hv) as (FT & ET & BT).
  destruct Hm as (K & Fm & Fo & BM & BO).
  pose proof (go_floor_bounds _ FT) as HB.
  assert (Ei : go_floor (index_float L m v) = i) by reflexivity. rewrite Ei in HB.
  remember (BR (gm_mult m)) as M eqn:EM. remember (BR (gm_off m)) as O eqn:EO.
  apply Rabs_le_inv in ET. apply Rabs_le_inv in BT.
  repeat split.
  - apply div_le_intro; [lra|]. nra.
  - apply le_div_intro; [lra|]. nra.
  - apply Rabs_le. lra.
Qed.

Lemma index_small (v : f64) : pos_normal v -> (Z.abs (gm_index L m v) <= 2 ^ 52)%Z.
Proof.
  intros Hv. destruct (index_brackets v Hv) as (_ & _ & B).
  destruct Hm as (_ & _ & _ & BM & _).
  apply le_IZR. rewrite abs_IZR. change (IZR (2 ^ 52)) with 4503599627370496.
  apply Rle_trans with (1 := B). lra.
Qed.

Lemma lower_arg_err (j : Z) : (Z.abs j <= 2 ^ 53)%Z ->
  fin (lower_arg m j) /\
  Rabs (BR (lower_arg m j) - (IZR j - BR (gm_off m)) / BR (gm_mult m))
    <= (2 * u53 + u53 * u53) * Rabs ((IZR j - BR (gm_off m)) / BR (gm_mult m)) + 3 * u100.
Proof.
  intros Hk. destruct Hm as (_ & Fm & Fo & BM & BO). unfold lower_arg.
  destruct (f_of_int_correct j Hk) as (Fk & Rk).
  assert (Bk : Rabs (IZR j) <= 9007199254740992).
  { rewrite <- abs_IZR. change 9007199254740992 with (IZR (2 ^ 53)). apply IZR_le. exact Hk. }
  remember (BR (gm_mult m)) as M eqn:EM. remember (BR (gm_off m)) as O eqn:EO.
  apply Rabs_le_inv in BO. apply Rabs_le_inv in Bk.
  assert (Bx : Rabs (IZR j - O) <= bpow radix2 54).
  { change (bpow radix2 54) with 18014398509481984. apply Rabs_le. lra. }
  destruct (fsub_bounded (f_of_int j) (gm_off m) Fk Fo) as (Fd & Rd).
  { rewrite Rk, <- EO. apply Rle_trans with (1 := Bx). apply bpow_le_max. lia. }
  rewrite Rk, <- EO in Rd.
  remember (IZR j - O) as x eqn:Ex. remember (rndR x) as d eqn:Ed.
  pose proof (rndR_err_rel x) as E1. rewrite <- Ed in E1.
  assert (HM : 0 < M) by lra. assert (HiM : 0 < / M <= 1).
  { split; [apply Rinv_0_lt_compat; exact HM|]. rewrite <- Rinv_1. apply Rinv_le_contravar; lra. }
  (* divide by M *)
  assert (Ex' : Rabs (x / M) = Rabs x * / M).
  { unfold Rdiv. rewrite Rabs_mult, (Rabs_pos_eq (/ M)) by lra. reflexivity. }
  assert (E1' : Rabs (d / M - x / M) <= u53 * Rabs (x / M) + u100).
  { replace (d / M - x / M) with ((d - x) * / M) by (unfold Rdiv; ring).
    rewrite Rabs_mult, (Rabs_pos_eq (/ M)) by lra. rewrite Ex'.
    apply Rle_trans with ((u53 * Rabs x + u100) * / M).
    - apply Rmult_le_compat_r; lra.
    - assert (u100 * / M <= u100) by (unfold u100 in *; nra). lra. }
  remember (x / M) as tau eqn:Etau.
  assert (Bd : Rabs (d / M) <= Rabs tau * (1 + u53) + u100).
  { replace (d / M) with (tau + (d / M - tau)) by ring.
    apply Rle_trans with (1 := Rabs_triang _ _). lra. }
  assert (Btau : Rabs tau <= bpow radix2 54).
  { rewrite Ex'. apply Rle_trans with (Rabs x * 1); [apply Rmult_le_compat_l; [apply Rabs_pos|lra]|lra]. }
  assert (Hu : 0 < u53 < / 1000 /\ 0 < u100 < / 1000) by (unfold u53, u100; lra).
  destruct (fdiv_bounded (fsub (f_of_int j) (gm_off m)) (gm_mult m) Fd) as (Ft & Rt).
  { rewrite <- EM. lra. }
  { rewrite Rd, <- EM. apply Rle_trans with (bpow radix2 56); [|apply bpow_le_max; lia].
    change (bpow radix2 54) with 18014398509481984 in Btau.
    change (bpow radix2 56) with 72057594037927936.
    pose proof (Rabs_pos tau). nra. }
  rewrite Rd, <- EM in Rt. split; [exact Ft|]. rewrite Rt.
  pose proof (rndR_err_rel (d / M)) as E2.
  replace (rndR (d / M) - tau) with ((rndR (d / M) - d / M) + (d / M - tau)) by ring.
  apply Rle_trans with (1 := Rabs_triang _ _).
  pose proof (Rabs_pos tau). nra.
Qed.

(* when the float argument is within [-1024, 1024] it is within 2^-41 of the exact quotient *)
Lemma lower_arg_close (j : Z) : (Z.abs j <= 2 ^ 53)%Z -> Rabs (BR (lower_arg m j)) <= 1024 ->
  Rabs ((IZR j - BR (gm_off m)) / BR (gm_mult m)) <= 1025 /\
  Rabs (BR (lower_arg m j) - (IZR j - BR (gm_off m)) / BR (gm_mult m)) <= q41.
Proof.
  intros Hk Bt. destruct (lower_arg_err j Hk) as (_ & E).
  remember ((IZR j - BR (gm_off m)) / BR (gm_mult m)) as tau. remember (BR (lower_arg m j)) as t.
  assert (B : Rabs tau <= 1025).
  { assert (Rabs tau <= Rabs t + Rabs (t - tau)).
    { replace tau with (t - (t - tau)) at 1 by ring. apply Rle_trans with (1 := Rabs_triang _ _).
      rewrite Rabs_Ropp. lra. }
    unfold u53, u100 in *. pose proof (Rabs_pos tau). lra. }
  split; [exact B|]. unfold u53, u100, q41 in *. lra.
Qed.

Lemma lower_vs_ideal (j : Z) : (Z.abs j <= 2 ^ 53)%Z -> in_range m j ->
  let tau := (IZR j - BR (gm_off m)) / BR (gm_mult m) in
  fin (gm_lower L m j) /\ pos_normal (gm_lower L m j) /\
  Linvr (tau - q41) * (1 - q45) <= BR (gm_lower L m j) <= Linvr (tau + q41) * (1 + q45).
Proof.
  intros Hj Hr tau. destruct (lower_arg_err j Hj) as (Ft & _).
  assert (K : gm_kind m = k) by (destruct Hm as (K & _); exact K).
  assert (El : gm_lower L m j = approx_inverse_log L k (lower_arg m j)).
  { unfold gm_lower, lower_arg. rewrite K. reflexivity. }
  rewrite El. destruct (Hinv _ Ft Hr) as (Fl & Nl & Bl).
  remember (BR (lower_arg m j)) as t eqn:Et.
  assert (Bt : Rabs t <= 1024).
  { pose proof (Zfloor_lb t). pose proof (Zfloor_ub t). unfold in_range in Hr. rewrite <- Et in Hr.
    assert (-1022 <= IZR (Zfloor t) <= 1023) by (split; apply IZR_le; lia).
    apply Rabs_le. lra. }
  destruct (lower_arg_close j Hj) as (_ & Ec); [rewrite <- Et; exact Bt|].
  rewrite <- Et in Ec. fold tau in Ec. apply Rabs_le_inv in Ec.
  split; [exact Fl|]. split; [exact Nl|].
  assert (Hq : 0 < q45 < / 1000) by (unfold q45; lra).
  pose proof (ll_inv_pos _ _ _ HLL (tau - q41)). pose proof (ll_inv_pos _ _ _ HLL t).
  pose proof (Linvr_le (tau - q41) t ltac:(lra)). pose proof (Linvr_le t (tau + q41) ltac:(lra)).
  split.
  - apply Rle_trans with (2 := proj1 Bl). apply Rmult_le_compat_r; lra.
  - apply Rle_trans with (1 := proj2 Bl). apply Rmult_le_compat_r; lra.
Qed.

Lemma exp_small (x : R) : 0 <= x <= q38 -> exp x <= 1 + 2 * x.
Proof. intros Hx. apply exp_le_1p2x. unfold q38 in Hx. lra. Qed.

(* T1. containment at float level, eps = 2^-38 *)
Theorem gen_containment_f (v : f64) : pos_normal v ->
  let i := gm_index L m v in
  in_range m i -> in_range m (i + 1) ->
  BR (gm_lower L m i) <= BR v * (1 + q38) /\ BR v <= BR (gm_lower L m (i + 1)) * (1 + q38).
Proof.
  intros Hv i Ri Rj. pose proof (index_small v Hv) as Hi. fold i in Hi.
  destruct (index_brackets v Hv) as (B1 & B2 & _). fold i in B1, B2.
  destruct (Hfwd v Hv) as (Pv & _).
  destruct (lower_vs_ideal i ltac:(lia) Ri) as (_ & _ & _ & Ui).
  destruct (lower_vs_ideal (i + 1) ltac:(lia) Rj) as (_ & _ & Lj & _).
  rewrite plus_IZR in Lj. simpl (IZR 1) in Lj.
  remember ((IZR i - BR (gm_off m)) / BR (gm_mult m)) as ti.
  remember ((IZR i + 1 - BR (gm_off m)) / BR (gm_mult m)) as tj.
  remember (Lr (BR v)) as Lv eqn:ELv.
  assert (Ev : Linvr Lv = BR v) by (rewrite ELv; apply (ll_inv_L Lr Linvr c HLL); exact Pv).
  assert (Hq : 0 < q45 /\ 0 < q41 /\ 0 < q40 /\ q40 + q41 <= q38) by (unfold q45, q41, q40, q38; lra).
  assert (HE : exp (q40 + q41) <= 1 + 2 * (q40 + q41)) by (apply exp_small; lra).
  split.
  - pose proof (Linvr_le (ti + q41) (Lv + q40 + q41) ltac:(lra)) as H1.
    pose proof (Linvr_exp Lv (Lv + q40 + q41) ltac:(lra)) as H2.
    replace (Lv + q40 + q41 - Lv) with (q40 + q41) in H2 by ring. rewrite Ev in H2.
    apply Rle_trans with (1 := Ui).
    apply Rle_trans with (BR v * (1 + 2 * (q40 + q41)) * (1 + q45)).
    + apply Rmult_le_compat_r; [lra|]. apply Rle_trans with (1 := H1). apply Rle_trans with (1 := H2).
      apply Rmult_le_compat_l; lra.
    + rewrite Rmult_assoc. apply Rmult_le_compat_l; [lra|]. unfold q45, q41, q40, q38. lra.
  - pose proof (Linvr_le Lv (tj + q40) ltac:(lra)) as H1. rewrite Ev in H1.
    pose proof (Linvr_exp (tj - q41) (tj + q40) ltac:(lra)) as H2.
    replace (tj + q40 - (tj - q41)) with (q40 + q41) in H2 by ring.
    pose proof (ll_inv_pos _ _ _ HLL (tj - q41)) as Pj.
    set (A := Linvr (tj - q41)) in *. set (lo := BR (gm_lower L m (i + 1))) in *.
    assert (H3 : BR v <= A * (1 + 2 * (q40 + q41))).
    { apply Rle_trans with (1 := H1). apply Rle_trans with (1 := H2). apply Rmult_le_compat_l; lra. }
    assert (H4 : (1 + 2 * (q40 + q41)) <= (1 - q45) * (1 + q38)) by (unfold q45, q41, q40, q38; lra).
    apply Rle_trans with (1 := H3).
    apply Rle_trans with (A * ((1 - q45) * (1 + q38))); [apply Rmult_le_compat_l; lra|].
    rewrite <- Rmult_assoc. apply Rmult_le_compat_r; [unfold q38; lra|exact Lj].
Qed.

(* T2. bin ratio: exp (1 / (c * multiplier)) is the ideal bound gamma0 (Real.MapGeneric.gen_bin_ratio) *)
Theorem gen_bin_ratio_f (i : Z) : (Z.abs i < 2 ^ 53)%Z -> in_range m i -> in_range m (i + 1) ->
  BR (gm_lower L m (i + 1)) <= BR (gm_lower L m i) * exp (1 / (c * BR (gm_mult m))) * (1 + q38).
Proof.
  intros Hi Ri Rj.
  destruct (lower_vs_ideal i ltac:(lia) Ri) as (_ & _ & Li & _).
  destruct (lower_vs_ideal (i + 1) ltac:(lia) Rj) as (_ & _ & _ & Uj).
  rewrite plus_IZR in Uj. simpl (IZR 1) in Uj.
  destruct Hm as (_ & _ & _ & BM & _).
  remember (BR (gm_mult m)) as M eqn:EM. remember (BR (gm_off m)) as O eqn:EO.
  assert (Et : (IZR i + 1 - O) / M = (IZR i - O) / M + 1 / M) by (field; lra).
  rewrite Et in Uj. remember ((IZR i - O) / M) as ti.
  assert (Hq : 0 < q45 < / 1000 /\ 0 < q41 /\ 2 * q41 <= q38) by (unfold q45, q41, q38; lra).
  assert (HM : 0 < 1 / M) by (apply Rdiv_lt_0_compat; lra).
  pose proof (Linvr_exp_c (ti - q41) (ti + 1 / M + q41) ltac:(lra)) as H2.
  replace ((ti + 1 / M + q41 - (ti - q41)) / c) with (1 / (c * M) + 2 * q41 / c) in H2 by (field; lra).
  rewrite exp_plus in H2.
  assert (HE : exp (2 * q41 / c) <= 1 + 2 * (2 * q41)).
  { apply Rle_trans with (exp (2 * q41)); [|apply exp_small; lra].
    apply exp_le_mono. apply div_le_intro; [lra|]. nra. }
  pose proof (ll_inv_pos _ _ _ HLL (ti - q41)) as Pj. pose proof (exp_pos (1 / (c * M))) as PG.
  set (A := Linvr (ti - q41)) in *. set (G := exp (1 / (c * M))) in *.
  set (lo := BR (gm_lower L m i)) in *.
  apply Rle_trans with (1 := Uj).
  apply Rle_trans with (A * (G * (1 + 4 * q41)) * (1 + q45)).
  - apply Rmult_le_compat_r; [lra|]. apply Rle_trans with (1 := H2).
    apply Rmult_le_compat_l; [lra|]. apply Rmult_le_compat_l; lra.
  - assert (H4 : (1 + 4 * q41) * (1 + q45) <= (1 - q45) * (1 + q38)) by (unfold q45, q41, q38; lra).
    apply Rle_trans with (A * (1 - q45) * G * (1 + q38)).
    + replace (A * (G * (1 + 4 * q41)) * (1 + q45)) with (A * G * ((1 + 4 * q41) * (1 + q45))) by ring.
      replace (A * (1 - q45) * G * (1 + q38)) with (A * G * ((1 - q45) * (1 + q38))) by ring.
      apply Rmult_le_compat_l; [apply Rmult_le_pos; lra|exact H4].
    + apply Rmult_le_compat_r; [unfold q38; lra|]. apply Rmult_le_compat_r; [lra|exact Li].
Qed.

(* T3. |Value (Index v) - v| <= (alpha_of g0 + eF + 2^-35) v *)
Theorem gen_value_accuracy_f (g0 eF : R) (v : f64) :
  exp (1 / (c * BR (gm_mult m))) <= g0 <= 4 -> 0 <= eF <= / 8 -> value_factor_ok L m g0 eF ->
  pos_normal v ->
  let i := gm_index L m v in
  in_range m i -> in_range m (i + 1) -> fin (gm_value L m i) ->
  Rabs (BR (gm_value L m i) - BR v) <= (alpha_of g0 + eF + q35) * BR v.
Proof.
  intros Hg HeF (FF & F1 & EF) Hv i Ri Rj FV.
  pose proof (index_small v Hv) as Hi. fold i in Hi.
  destruct (gen_containment_f v Hv Ri Rj) as (K1 & K2). fold i in K1, K2.
  pose proof (gen_bin_ratio_f i ltac:(lia) Ri Rj) as K3.
  destruct (lower_vs_ideal i ltac:(lia) Ri) as (Fl & (_ & Nl) & _).
  destruct (Hfwd v Hv) as (Pv & _).
  destruct Hm as (_ & _ & _ & BM & _).
  assert (HG : 1 < exp (1 / (c * BR (gm_mult m)))).
  { pose proof (exp_ineq1_le (1 / (c * BR (gm_mult m)))) as He.
    assert (0 < 1 / (c * BR (gm_mult m))) by (apply Rdiv_lt_0_compat; nra). lra. }
  pose proof (bpow_gt_0 radix2 (-1022)) as Hp.
  unfold gm_value in *. rewrite (fmul_R _ _ FV).
  set (lo := BR (gm_lower L m i)) in *. set (F := BR (fadd f64_one (gm_accuracy L m))) in *.
  apply (accuracy_algebra (BR v) lo (BR (gm_lower L m (i + 1))) F (rndR (lo * F)) g0 eF);
    try assumption; try lra.
  - apply Rle_trans with (1 := K3). apply Rmult_le_compat_r; [unfold q38; lra|].
    apply Rmult_le_compat_l; lra.
  - assert (Hx : bpow radix2 (-1022) <= Rabs (lo * F)).
    { rewrite Rabs_pos_eq by (apply Rmult_le_pos; lra).
      apply Rle_trans with (lo * 1); [lra|apply Rmult_le_compat_l; lra]. }
    pose proof (rndR_err_normal (lo * F) Hx) as E.
    rewrite (Rabs_pos_eq (lo * F)) in E by (apply Rmult_le_pos; lra). exact E.
Qed.

(* Value (Index v) does not overflow for v <= 2^1021 *)
Lemma gen_value_finite (g0 eF : R) (v : f64) :
  1 < g0 -> 0 <= eF <= / 8 -> value_factor_ok L m g0 eF ->
  pos_normal v -> BR v <= bpow radix2 1021 ->
  let i := gm_index L m v in
  in_range m i -> in_range m (i + 1) -> fin (gm_value L m i).
Proof.
  intros Hg HeF (FF & F1 & EF) Hv Bv i Ri Rj.
  pose proof (index_small v Hv) as Hi. fold i in Hi.
  destruct (gen_containment_f v Hv Ri Rj) as (K1 & _). fold i in K1.
  destruct (lower_vs_ideal i ltac:(lia) Ri) as (Fl & (_ & Nl) & _).
  pose proof (alpha_of_bounds g0 Hg) as Ha. apply Rabs_le_inv in EF.
  pose proof (bpow_gt_0 radix2 (-1022)) as Hp. pose proof (bpow_gt_0 radix2 1021) as Hp'.
  unfold gm_value. apply fmul_bounded; [exact Fl|exact FF|].
  set (lo := BR (gm_lower L m i)) in *. set (F := BR (fadd f64_one (gm_accuracy L m))) in *.
  apply Rle_trans with (bpow radix2 1023); [|apply bpow_le_max; lia].
  replace 1023%Z with (1021 + 2)%Z by lia. rewrite bpow_plus. change (bpow radix2 2) with 4.
  rewrite Rabs_pos_eq by (apply Rmult_le_pos; lra).
  assert (Hq : 0 < q38 < / 1000) by (unfold q38; lra).
  apply Rle_trans with (bpow radix2 1021 * (1 + q38) * (17 / 8 + 1)); [|nra].
  apply Rmult_le_compat; try lra.
  apply Rle_trans with (1 := K1). apply Rmult_le_compat_r; lra.
Qed.

(* T3 over the exact rationals of the sketch model: the premise "libm accuracy" of Props/Bridge *)
Theorem gen_value_accuracy_Qc (g0 eF : R) (alpha : Qc) (v : f64) :
  exp (1 / (c * BR (gm_mult m))) <= g0 <= 4 -> 0 <= eF <= / 8 -> value_factor_ok L m g0 eF ->
  alpha_of g0 + eF + q35 <= qR alpha ->
  pos_normal v ->
  let i := gm_index L m v in
  in_range m i -> in_range m (i + 1) -> fin (gm_value L m i) ->
  (Qcabs (f2q (gm_value L m i) - f2q v) <= alpha * f2q v)%Qc.
Proof.
  intros Hg HeF HV Ha Hv i Ri Rj FV.
  pose proof (gen_value_accuracy_f g0 eF v Hg HeF HV Hv Ri Rj FV) as H. fold i in H.
  destruct (Hfwd v Hv) as (Pv & _). destruct Hv as (Fv & _).
  apply Rabs_le_inv in H.
  assert (Hb : (alpha_of g0 + eF + q35) * BR v <= qR alpha * BR v) by (apply Rmult_le_compat_r; lra).
  apply Qcabs_Qcle_condition. split; apply qR_le.
  - rewrite qR_opp, qR_mult, qR_minus, !f2q_B2R by assumption. lra.
  - rewrite qR_mult, qR_minus, !f2q_B2R by assumption. lra.
Qed.
End Gen.

(* ------------------------------------------------------------------ *)
(* 2. the linearly interpolated mapping: both premises discharged      *)
(* ------------------------------------------------------------------ *)
(* the binade decomposition of SK.Real.Binade, read off the exponent and significand fields *)
Lemma bval_float (x : f64) : pos_normal x ->
  BR x = bval (x_exp x) (BR (sp1_of x) - 1) /\ 0 <= BR (sp1_of x) - 1 < 1 /\ 0 < BR x.
Proof.
  intros Hx. destruct (decompose_R x Hx) as (_ & _ & _ & _ & _ & Ms & Ex).
  assert (E : BR x = bval (x_exp x) (BR (sp1_of x) - 1)).
  { rewrite Ex. unfold bval. rewrite bpow_pow2. ring. }
  split; [exact E|]. split; [lra|]. rewrite E. apply bval_pos. lra.
Qed.

Lemma lin_forward_ok (L : libm) : forward_ok L MLin L_lin.
Proof.
  intros v Hv. destruct (bval_float v Hv) as (E & Hs & Pv).
  destruct (approx_log_lin_R L v Hv) as (Fa & _ & Ba). pose proof (approx_log_lin_err L v Hv) as Ea.
  split; [exact Pv|]. split; [exact Fa|]. split; [exact Ba|].
  rewrite E at 1. rewrite L_lin_bval by lra. exact Ea.
Qed.

(* the two roundings of the significand cost at most 2^-51 *)
Lemma lin_sig_err (r : R) : Rabs (lin_sig r - (1 + (r - IZR (Zfloor r)))) <= q51.
Proof.
  pose proof (Zfloor_lb r) as Hlb. pose proof (Zfloor_ub r) as Hub. unfold lin_sig.
  set (f := r - IZR (Zfloor r)).
  assert (Hf : 0 <= f < 1) by (unfold f; lra).
  assert (E1 : Rabs (rndR f - f) <= bpow radix2 (0 - 54)).
  { apply rndR_err_lt; [lia|]. change (bpow radix2 0) with 1. apply Rabs_lt. lra. }
  assert (B1 : 0 <= rndR f <= 1).
  { split.
    - rewrite <- (rndR_IZR 0) by lia. apply rndR_le. lra.
    - rewrite <- (rndR_IZR 1) by lia. apply rndR_le. lra. }
  assert (E2 : Rabs (rndR (rndR f + 1) - (rndR f + 1)) <= bpow radix2 (2 - 54)).
  { apply rndR_err_lt; [lia|]. change (bpow radix2 2) with 4. apply Rabs_lt. lra. }
  change (bpow radix2 (0 - 54)) with (/ 18014398509481984) in E1.
  change (bpow radix2 (2 - 54)) with (/ 4503599627370496) in E2.
  apply Rabs_le_inv in E1, E2. apply Rabs_le. unfold q51. lra.
Qed.

Lemma Linv_lin_eq (r : R) : Linv_lin r = (1 + (r - IZR (Zfloor r))) * bpow radix2 (Zfloor r).
Proof. unfold Linv_lin, bval. rewrite floorZ_Zfloor, bpow_pow2. ring. Qed.

Lemma lin_inverse_ok (L : libm) : floor_exact L -> inverse_ok L MLin Linv_lin.
Proof.
  intros HF t Ft Hr. destruct (HF _ Ft) as (Fe & Re).
  destruct (approx_inverse_log_lin_R L t Ft Fe Re Hr) as (Fl & Rl & Nl).
  split; [exact Fl|]. split; [exact Nl|]. rewrite Rl.
  remember (BR t) as r. pose proof (lin_sig_err r) as Es. apply Rabs_le_inv in Es.
  pose proof (Zfloor_lb r) as Hlb. pose proof (Zfloor_ub r) as Hub.
  pose proof (bpow_gt_0 radix2 (Zfloor r)) as Hp.
  assert (Hq : 0 < q51 /\ q51 <= q45 /\ q45 < / 1000) by (unfold q51, q45; lra).
  rewrite Linv_lin_eq. set (w := 1 + (r - IZR (Zfloor r))) in *. assert (1 <= w) by (unfold w; lra).
  split.
  - rewrite (Rmult_comm w), Rmult_assoc, (Rmult_comm (bpow radix2 (Zfloor r))).
    apply Rmult_le_compat_r; [lra|]. nra.
  - rewrite (Rmult_comm w), Rmult_assoc, (Rmult_comm (bpow radix2 (Zfloor r))).
    apply Rmult_le_compat_r; [lra|]. nra.
Qed.

Section Lin.
Variable L : libm.
Variable m : gmap.
Hypothesis Hm : reasonable MLin m.
Hypothesis HF : floor_exact L.

Theorem lin_containment (v : f64) : pos_normal v ->
  let i := gm_index L m v in
  in_range m i -> in_range m (i + 1) ->
  BR (gm_lower L m i) <= BR v * (1 + q38) /\ BR v <= BR (gm_lower L m (i + 1)) * (1 + q38).
Proof.
  exact (gen_containment_f L MLin L_lin Linv_lin 1 loglike_lin (Rle_refl 1)
           (lin_forward_ok L) (lin_inverse_ok L HF) m Hm v).
Qed.

Theorem lin_bin_ratio (i : Z) : (Z.abs i < 2 ^ 53)%Z -> in_range m i -> in_range m (i + 1) ->
  BR (gm_lower L m (i + 1)) <= BR (gm_lower L m i) * exp (1 / BR (gm_mult m)) * (1 + q38).
Proof.
  intros Hi Ri Rj.
  pose proof (gen_bin_ratio_f L MLin L_lin Linv_lin 1 loglike_lin (Rle_refl 1)
                (lin_inverse_ok L HF) m Hm i Hi Ri Rj) as H.
  rewrite Rmult_1_l in H. exact H.
Qed.

Theorem lin_value_accuracy (g0 eF : R) (v : f64) :
  exp (1 / BR (gm_mult m)) <= g0 <= 4 -> 0 <= eF <= / 8 -> value_factor_ok L m g0 eF ->
  pos_normal v ->
  let i := gm_index L m v in
  in_range m i -> in_range m (i + 1) -> fin (gm_value L m i) ->
  Rabs (BR (gm_value L m i) - BR v) <= (alpha_of g0 + eF + q35) * BR v.
Proof.
  intros Hg. rewrite <- (Rmult_1_l (BR (gm_mult m))) in Hg. revert Hg.
  exact (gen_value_accuracy_f L MLin L_lin Linv_lin 1 loglike_lin (Rle_refl 1)
           (lin_forward_ok L) (lin_inverse_ok L HF) m Hm g0 eF v).
Qed.

Theorem lin_value_finite (g0 eF : R) (v : f64) :
  1 < g0 -> 0 <= eF <= / 8 -> value_factor_ok L m g0 eF ->
  pos_normal v -> BR v <= bpow radix2 1021 ->
  let i := gm_index L m v in
  in_range m i -> in_range m (i + 1) -> fin (gm_value L m i).
Proof.
  exact (gen_value_finite L MLin L_lin Linv_lin 1 loglike_lin (Rle_refl 1)
           (lin_forward_ok L) (lin_inverse_ok L HF) m Hm g0 eF v).
Qed.

Theorem lin_value_accuracy_Qc (g0 eF : R) (alpha : Qc) (v : f64) :
  exp (1 / BR (gm_mult m)) <= g0 <= 4 -> 0 <= eF <= / 8 -> value_factor_ok L m g0 eF ->
  alpha_of g0 + eF + q35 <= qR alpha ->
  pos_normal v ->
  let i := gm_index L m v in
  in_range m i -> in_range m (i + 1) -> fin (gm_value L m i) ->
  (Qcabs (f2q (gm_value L m i) - f2q v) <= alpha * f2q v)%Qc.
Proof.
  intros Hg. rewrite <- (Rmult_1_l (BR (gm_mult m))) in Hg. revert Hg.
  exact (gen_value_accuracy_Qc L MLin L_lin Linv_lin 1 loglike_lin (Rle_refl 1)
           (lin_forward_ok L) (lin_inverse_ok L HF) m Hm g0 eF alpha v).
Qed.
End Lin.

(* ------------------------------------------------------------------ *)
(* 3. the cubically interpolated mapping: forward side proved,         *)
(*    the Cardano inverse is a named premise                           *)
(* ------------------------------------------------------------------ *)
Lemma mul_unit_bound (x y e : R) : Rabs x <= e -> 0 <= y <= 1 -> Rabs (x * y) <= e.
Proof.
  intros Hx Hy. rewrite Rabs_mult, (Rabs_pos_eq y) by lra.
  pose proof (Rabs_pos x). nra.
Qed.

(* the floating-point Horner evaluation against the real cubic with the exact coefficients 6/35, -3/5, 10/7 *)
Lemma Gg_vs_Pcub (s : R) : 0 <= s < 1 -> Rabs (Gg s - MapCub.Pcub s) <= / 1125899906842624.   (* 2^-50 *)
Proof.
  intros Hs.
  destruct (Ga_props s Hs) as (_ & EA). destruct (Gb_props s Hs) as (_ & EB).
  destruct (Gc_props s Hs) as (_ & EC). destruct (Gd_props s Hs) as (D2 & ED).
  pose proof (Gd_ge_1 s Hs) as D1.
  assert (EG : Rabs (Gg s - Gd s * s) <= bpow radix2 (1 - 54)).
  { unfold Gg. apply rndR_err_lt; [lia|]. change (bpow radix2 1) with 2. apply Rabs_lt. nra. }
  change (bpow radix2 (1 - 54)) with (/ 9007199254740992) in EG.
  set (d1 := Ga s - cAr * s) in *. set (d2 := Gb s - (Ga s + cBr)) in *.
  set (d3 := Gc s - Gb s * s) in *. set (d4 := Gd s - (Gc s + cCr)) in *.
  assert (s2 : 0 <= s * s <= 1) by nra.
  assert (s3 : 0 <= s * s * s <= 1) by nra.
  assert (E : Gd s * s = ((cAr * s + cBr) * s + cCr) * s + (d1 + d2) * (s * s) + (d3 + d4) * s)
    by (unfold d1, d2, d3, d4; ring).
  assert (E12 : Rabs ((d1 + d2) * (s * s)) <= e56 + e54).
  { apply mul_unit_bound; [|exact s2]. apply Rle_trans with (1 := Rabs_triang _ _). lra. }
  assert (E34 : Rabs ((d3 + d4) * s) <= e55 + e53).
  { apply mul_unit_bound; [|lra]. apply Rle_trans with (1 := Rabs_triang _ _). lra. }
  rewrite MapCub.Pcub_horner.
  assert (EK : ((cAr * s + cBr) * s + cCr) * s - ((MapCub.cA * s + MapCub.cB) * s + MapCub.cC) * s =
               (cAr - MapCub.cA) * (s * s * s) + (cBr - MapCub.cB) * (s * s) + (cCr - MapCub.cC) * s) by ring.
  remember (s * s) as ss. remember (ss * s) as sss.
  apply Rabs_le_inv in EG, E12, E34.
  assert (K : - / 9007199254740992 <=
              (cAr - MapCub.cA) * sss + (cBr - MapCub.cB) * ss + (cCr - MapCub.cC) * s <= / 9007199254740992).
  { unfold cAr, cBr, cCr, MapCub.cA, MapCub.cB, MapCub.cC.
    assert (0 <= (IZR 6176365203250966 / IZR 36028797018963968 - 6 / 35) * sss <= / 72057594037927936) by nra.
    assert (0 <= (- IZR 5404319552844595 / IZR 9007199254740992 - - 3 / 5) * ss <= / 36028797018963968) by nra.
    assert (0 <= (IZR 6433713753386423 / IZR 4503599627370496 - 10 / 7) * s <= / 27021597764222976) by nra.
    lra. }
  apply Rabs_le. unfold e53, e54, e55, e56 in *. lra.
Qed.

Lemma cub_forward_ok (L : libm) : forward_ok L MCub MapCub.L_cub.
Proof.
  intros v Hv. destruct (bval_float v Hv) as (E & Hs & Pv).
  destruct (approx_log_cub_R L v Hv) as (Fa & Ra & Ba).
  destruct (decompose_R v Hv) as (Be & _).
  split; [exact Pv|]. split; [exact Fa|]. split; [exact Ba|].
  rewrite E at 1. rewrite MapCub.L_cub_bval by lra. unfold MapCub.lcub. rewrite Ra.
  set (s := BR (sp1_of v) - 1) in *.
  pose proof (Gg_vs_Pcub s Hs) as EP.
  destruct (sp1_grid v Hv) as (j & Hj & Es). fold s in Es.
  pose proof (Gg_nonneg s Hs) as G0.
  assert (G1 : Gg s <= 1) by (rewrite Es; apply Gg_le_1; exact Hj).
  assert (Bx : -1022 <= IZR (x_exp v) <= 1023) by (split; apply IZR_le; lia).
  assert (ER : Rabs (rndR (Gg s + IZR (x_exp v)) - (Gg s + IZR (x_exp v))) <= bpow radix2 (11 - 54)).
  { apply rndR_err_lt; [lia|]. change (bpow radix2 11) with 2048. apply Rabs_lt. lra. }
  change (bpow radix2 (11 - 54)) with (/ 8796093022208) in ER.
  apply Rabs_le_inv in EP, ER. apply Rabs_le. lra.
Qed.

(* The inverse side.  approximateInverseLog (cubic) is math.Floor followed by Cardano's formula
   through math.Sqrt and math.Cbrt and by buildFloat64; its accuracy relative to the ideal inverse
   Linv_cub of SK.Real.MapCub is NOT derived here (it needs a conditioning analysis of
   d1 - sqrt (d1^2 - 4 d0^3) and of B + p + d0/p under relative-error premises on the two oracles):
   it is the premise  inverse_ok L MCub MapCub.Linv_cub  (relative error 2^-45). *)
Definition cub_inverse_ok (L : libm) : Prop := inverse_ok L MCub MapCub.Linv_cub.

Lemma cub_c_ge_1 : 1 <= 10 / 7.
Proof. lra. Qed.

Section Cub.
Variable L : libm.
Variable m : gmap.
Hypothesis Hm : reasonable MCub m.
Hypothesis HI : cub_inverse_ok L.

Theorem cub_containment (v : f64) : pos_normal v ->
  let i := gm_index L m v in
  in_range m i -> in_range m (i + 1) ->
  BR (gm_lower L m i) <= BR v * (1 + q38) /\ BR v <= BR (gm_lower L m (i + 1)) * (1 + q38).
Proof.
  exact (gen_containment_f L MCub MapCub.L_cub MapCub.Linv_cub (10 / 7) MapCub.loglike_cub cub_c_ge_1
           (cub_forward_ok L) HI m Hm v).
Qed.

Theorem cub_bin_ratio (i : Z) : (Z.abs i < 2 ^ 53)%Z -> in_range m i -> in_range m (i + 1) ->
  BR (gm_lower L m (i + 1)) <= BR (gm_lower L m i) * exp (1 / (10 / 7 * BR (gm_mult m))) * (1 + q38).
Proof.
  exact (gen_bin_ratio_f L MCub MapCub.L_cub MapCub.Linv_cub (10 / 7) MapCub.loglike_cub cub_c_ge_1
           HI m Hm i).
Qed.

Theorem cub_value_accuracy (g0 eF : R) (v : f64) :
  exp (1 / (10 / 7 * BR (gm_mult m))) <= g0 <= 4 -> 0 <= eF <= / 8 -> value_factor_ok L m g0 eF ->
  pos_normal v ->
  let i := gm_index L m v in
  in_range m i -> in_range m (i + 1) -> fin (gm_value L m i) ->
  Rabs (BR (gm_value L m i) - BR v) <= (alpha_of g0 + eF + q35) * BR v.
Proof.
  exact (gen_value_accuracy_f L MCub MapCub.L_cub MapCub.Linv_cub (10 / 7) MapCub.loglike_cub cub_c_ge_1
           (cub_forward_ok L) HI m Hm g0 eF v).
Qed.

Theorem cub_value_accuracy_Qc (g0 eF : R) (alpha : Qc) (v : f64) :
  exp (1 / (10 / 7 * BR (gm_mult m))) <= g0 <= 4 -> 0 <= eF <= / 8 -> value_factor_ok L m g0 eF ->
  alpha_of g0 + eF + q35 <= qR alpha ->
  pos_normal v ->
  let i := gm_index L m v in
  in_range m i -> in_range m (i + 1) -> fin (gm_value L m i) ->
  (Qcabs (f2q (gm_value L m i) - f2q v) <= alpha * f2q v)%Qc.
Proof.
  exact (gen_value_accuracy_Qc L MCub MapCub.L_cub MapCub.Linv_cub (10 / 7) MapCub.loglike_cub cub_c_ge_1
           (cub_forward_ok L) HI m Hm g0 eF alpha v).
Qed.
End Cub.

(* ------------------------------------------------------------------ *)
(* 4. the premises are simultaneously satisfiable                      *)
(* ------------------------------------------------------------------ *)
(* ---- the premises are simultaneously satisfiable ---- *)
(* an exact math.Floor exists: Flocq's round-to-integral toward -oo *)
Definition fl_floor (x : f64) : f64 := Binary.Bnearbyint 53 1024 eq_refl unop_nan_pl64 mode_DN x.

Lemma fl_floor_exact (u : f64) : fin u -> fin (fl_floor u) /\ BR (fl_floor u) = IZR (Zfloor (BR u)).
Proof.
  intros Fu. destruct (Binary.Bnearbyint_correct 53 1024 eq_refl unop_nan_pl64 mode_DN u) as (H1 & H2 & _).
  fold (fl_floor u) in H1, H2. split; [rewrite H2; exact Fu|].
  rewrite H1. apply round_FIX_IZR.
Qed.

(* a stub oracle: exact floor, math.Exp constantly 3.0 (an upper bound of e = exp (1/multiplier) below) *)
Definition f_three : f64 := fb 4613937818241073152.
Definition L_stub : libm :=
  {| l_log := fun x => x; l_exp := fun _ => f_three; l_exp2 := fun x => x; l_log2 := fun x => x;
     l_pow := fun x _ => x; l_cbrt := fun x => x; l_sqrt := fun x => x; l_floor := fl_floor |}.
(* multiplier 1.0 (gamma = 2), offset 0 *)
Definition m_stub : gmap :=
  {| gm_kind := MLin; gm_gamma := c_two; gm_off := f64_zero; gm_mult := f64_one;
     gm_min := f64_zero; gm_max := f64_zero |}.

Lemma stub_floor_exact : floor_exact L_stub.
Proof. intros u Fu. exact (fl_floor_exact u Fu). Qed.

Lemma stub_reasonable : reasonable MLin m_stub.
Proof.
  unfold reasonable, m_stub. cbn [gm_kind gm_mult gm_off].
  rewrite f64_one_BR. change (BR f64_zero) with 0. rewrite Rabs_R0.
  repeat split; try reflexivity; lra.
Qed.

Lemma stub_factor_ok : value_factor_ok L_stub m_stub 3 0.
Proof.
  unfold value_factor_ok.
  assert (E : fadd f64_one (gm_accuracy L_stub m_stub) = fb 4609434218613702656).   (* 1.5 *)
  { rewrite <- (fb_of_bits (fadd f64_one (gm_accuracy L_stub m_stub))).
    replace (bits_of_f64 (fadd f64_one (gm_accuracy L_stub m_stub))) with 4609434218613702656%N
      by (vm_compute; reflexivity).
    reflexivity. }
  rewrite E.
  assert (R15 : BR (fb 4609434218613702656) = 3 / 2).
  { rewrite BR_fb. set (u := binary_float_of_bits_aux 52 11 _). vm_compute in u. subst u.
    unfold FF2R, F2R. cbn [Fnum Fexp cond_Zopp].
    change (bpow radix2 (-52)) with (/ 4503599627370496). lra. }
  rewrite R15. split; [reflexivity|]. split; [lra|].
  unfold alpha_of. replace (3 / 2 - (1 + (3 - 1) / (3 + 1))) with 0 by field. rewrite Rabs_R0. lra.
Qed.

Lemma stub_g0 : exp (1 / BR (gm_mult m_stub)) <= 3 <= 4.
Proof.
  cbn [gm_mult m_stub]. rewrite f64_one_BR. replace (1 / 1) with 1 by field.
  split; [exact exp_le_3|lra].
Qed.

Lemma BR_of_bits (r : f64) (n : N) : bits_of_f64 r = n ->
  BR r = FF2R radix2 (binary_float_of_bits_aux 52 11 (Z.of_N n)).
Proof. intros <-. rewrite <- (fb_of_bits r) at 1. apply BR_fb. Qed.

(* a complete instance: v = 3.75, index 1, all premises of T3 discharged by computation *)
Definition v_375 : f64 := fb 4615626668101337088.

Lemma stub_instance :
  gm_index L_stub m_stub v_375 = 1%Z /\
  Rabs (BR (gm_value L_stub m_stub 1) - BR v_375) <= (alpha_of 3 + 0 + q35) * BR v_375.
Proof.
  assert (Ei : gm_index L_stub m_stub v_375 = 1%Z) by (vm_compute; reflexivity).
  split; [exact Ei|].
  assert (Rv : BR v_375 = 15 / 4).
  { unfold v_375. rewrite BR_fb. set (u := binary_float_of_bits_aux 52 11 _). vm_compute in u. subst u.
    unfold FF2R, F2R. cbn [Fnum Fexp cond_Zopp]. change (bpow radix2 (-51)) with (/ 2251799813685248). lra. }
  assert (Nv : pos_normal v_375).
  { split; [reflexivity|]. rewrite Rv. apply Rle_trans with (bpow radix2 0); [apply bpow_le; lia|].
    change (bpow radix2 0) with 1. lra. }
  assert (R1 : in_range m_stub 1).
  { unfold in_range.
    rewrite (BR_of_bits (lower_arg m_stub 1) 4607182418800017408) by (vm_compute; reflexivity).
    set (u := binary_float_of_bits_aux 52 11 _). vm_compute in u. subst u.
    unfold FF2R, F2R. cbn [Fnum Fexp cond_Zopp].
    replace (IZR 4503599627370496 * bpow radix2 (-52)) with (IZR 1)
      by (change (bpow radix2 (-52)) with (/ 4503599627370496); simpl; lra).
    rewrite Zfloor_IZR. lia. }
  assert (R2 : in_range m_stub (1 + 1)).
  { unfold in_range. change (1 + 1)%Z with 2%Z.
    rewrite (BR_of_bits (lower_arg m_stub 2) 4611686018427387904) by (vm_compute; reflexivity).
    set (u := binary_float_of_bits_aux 52 11 _). vm_compute in u. subst u.
    unfold FF2R, F2R. cbn [Fnum Fexp cond_Zopp].
    replace (IZR 4503599627370496 * bpow radix2 (-51)) with (IZR 2)
      by (change (bpow radix2 (-51)) with (/ 2251799813685248); simpl; lra).
    rewrite Zfloor_IZR. lia. }
  pose proof (lin_value_accuracy L_stub m_stub stub_reasonable stub_floor_exact 3 0 v_375
                stub_g0 ltac:(lra) stub_factor_ok Nv) as H.
  rewrite Ei in H. apply H; [exact R1|exact R2|]. vm_compute. reflexivity.
Qed.
