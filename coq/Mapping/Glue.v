(* Layer B, bit-exact: the three index mappings of ddsketch/mapping/*.go on Flocq binary64.
   The Go standard library functions (math.Log, Exp, Exp2, Log2, Pow, Cbrt, Sqrt, Floor) are not part
   of sketches-go: they enter as the record [libm] (in executions: answered by the implementation's
   own runtime through `vrun --libm`). Go constant expressions are folded exactly by the compiler and
   rounded once; their bit patterns are written down here. Definitions only. *)
From Flocq Require Import IEEE754.BinarySingleNaN IEEE754.Binary IEEE754.Bits.
From SK Require Import Base.Prelude Base.F64.

Record libm := { l_log : f64 -> f64; l_exp : f64 -> f64; l_exp2 : f64 -> f64; l_log2 : f64 -> f64;
                 l_pow : f64 -> f64 -> f64; l_cbrt : f64 -> f64; l_sqrt : f64 -> f64; l_floor : f64 -> f64 }.

Definition fb (b : N) : f64 := f64_of_bits b.
Definition cA : f64 := fb 4595344385493786390.        (* 6.0/35.0  = 0x3fc5f15f15f15f16 *)
Definition cB : f64 := fb 13826951575952896819.       (* -3.0/5.0  = 0xbfe3333333333333 *)
Definition cC : f64 := fb 4609112532926033335.        (* 10.0/7.0  = 0x3ff6db6db6db6db7 *)
Definition c_d0 : f64 := fb 13823793541601948855.     (* B*B - 3*A*C         = 0xbfd7fafc0785f4b7 *)
Definition c_d1c : f64 := fb 4606195670930640885.     (* 2*B*B*B - 9*A*B*C   = 0x3fec7e8edbc34ff5 *)
Definition c_27AA : f64 := fb 4605322156423323962.    (* 27*A*A              = 0x3fe96419e9d9213a *)
Definition c_3A : f64 := fb 4602807493447714640.      (* 3*A                 = 0x3fe0750750750750 *)
Definition c_ln2 : f64 := fb 4604418534313441775.     (* math.Ln2            = 0x3fe62e42fefa39ef *)
Definition c_10ln2_7 : f64 := fb 4607094240642655501. (* 10*math.Ln2/7       = 0x3fefafcd6c40e50d *)
Definition c_inv_ln2 : f64 := fb 4609176140021203710. (* 1/math.Ln2          = 0x3ff71547652b82fe *)
Definition c_7_10ln2 : f64 := fb 4607226943766636671. (* 7/(10*math.Ln2)     = 0x3ff0287ec6d1a87f *)
Definition c_07 : f64 := fb 4604480259023595110.      (* 7.0/10              = 0x3fe6666666666666 *)
Definition c_exp_overflow : f64 := fb 4649451482093607557.   (* 7.094361393031e+02 = 0x40862b7d369a5a85 *)
Definition c_min_normal : f64 := fb 4503599627370496.        (* 2^-1022 *)
Definition c_min_int32 : f64 := fb 13970166044103278592.     (* -2147483648 = 0xc1e0000000000000 *)
Definition c_max_int32 : f64 := fb 4746794007244308480.      (* 2147483647  = 0x41dfffffffc00000 *)
Definition c_two : f64 := fb 4611686018427387904.
Definition c_four : f64 := fb 4616189618054758400.

Inductive mkind := MLog | MLin | MCub.
Record gmap := { gm_kind : mkind; gm_gamma : f64; gm_off : f64; gm_mult : f64; gm_min : f64; gm_max : f64 }.

(* float64(int) for |i| < 2^53, int(x) truncating toward zero *)
Definition f_of_int (i : Z) : f64 := q2f (w_of_Z i).
Definition int_of_f (x : f64) : Z := Binary.Btrunc 53 1024 x.

(* bit_operation_helper.go *)
Definition exponent_mask : N := 9218868437227405312.     (* 0x7FF0000000000000 *)
Definition significand_mask : N := 4503599627370495.     (* 0x000fffffffffffff *)
Definition one_mask : N := 4607182418800017408.          (* 0x3ff0000000000000 *)
Definition get_exponent (bits : N) : f64 := f_of_int (Z.of_N (N.shiftr (N.land bits exponent_mask) 52) - 1023).
Definition get_significand_plus_one (bits : N) : f64 := fb (N.lor (N.land bits significand_mask) one_mask).
Definition build_float64_raw (exponent : Z) (sp1 : f64) : f64 :=
  if 1023 <? exponent then f64_pinf          (* repaired (F7): saturate beyond the largest finite binade *)
  else fb (N.lor (N.land (Z.to_N (((exponent + 1023) * 4503599627370496) mod 18446744073709551616)) exponent_mask)
                 (N.land (bits_of_f64 sp1) significand_mask)).
(* repaired (F9): a significand that rounding has brought up to 2 is the first value of the next binade
   (`if significandPlusOne >= 2 { exponent++; significandPlusOne /= 2 }`); build_float64_raw is the code before that repair *)
(* repaired (F11): a significand that rounding errors have brought below 1 (its fraction bits would be all ones) counts as 1
   (`else if significandPlusOne < 1 { significandPlusOne = 1 }`); build_float64_f9 is the code before that repair *)
Definition build_float64_f9 (exponent : Z) (sp1 : f64) : f64 :=
  if fle c_two sp1 then build_float64_raw (exponent + 1) (fdiv sp1 c_two)
  else build_float64_raw exponent sp1.
Definition build_float64 (exponent : Z) (sp1 : f64) : f64 :=
  if fle c_two sp1 then build_float64_raw (exponent + 1) (fdiv sp1 c_two)
  else if flt sp1 f64_one then build_float64_raw exponent f64_one
  else build_float64_raw exponent sp1.

Section Libm.
Variable L : libm.

Definition approx_log (k : mkind) (x : f64) : f64 :=
  let bits := bits_of_f64 x in
  match k with
  | MLog => l_log L x
  | MLin => fsub (fadd (get_exponent bits) (get_significand_plus_one bits)) f64_one
  | MCub => let e := get_exponent bits in
            let s := fsub (get_significand_plus_one bits) f64_one in
            fadd (fmul (fadd (fmul (fadd (fmul cA s) cB) s) cC) s) e
  end.
Definition approx_inverse_log (k : mkind) (x : f64) : f64 :=
  match k with
  | MLog => l_exp L x
  | MLin => let e := l_floor L x in build_float64 (int_of_f e) (fadd (fsub x e) f64_one)
  | MCub => let e := l_floor L x in
            let d1 := fsub c_d1c (fmul c_27AA (fsub x e)) in
            let p := l_cbrt L (fdiv (fsub d1 (l_sqrt L (fsub (fmul d1 d1) (fmul (fmul (fmul c_four c_d0) c_d0) c_d0)))) c_two) in
            let sp1 := fadd (fdiv (fneg (fadd (fadd cB p) (fdiv c_d0 p))) c_3A) f64_one in
            build_float64 (int_of_f e) sp1
  end.

(* New*MappingWithGamma: None = "Gamma must be greater than 1." *)
Definition with_gamma (k : mkind) (gamma off : f64) : option gmap :=
  if fle gamma f64_one then None else
  match k with
  | MLog =>
    let mult := fdiv f64_one (l_log L gamma) in
    Some {| gm_kind := k; gm_gamma := gamma; gm_off := off; gm_mult := mult;
            gm_min := fmax (l_exp L (fadd (fdiv (fsub c_min_int32 off) mult) f64_one)) (fmul c_min_normal gamma);
            gm_max := fmin (l_exp L (fsub (fdiv (fsub c_max_int32 off) mult) f64_one))
                           (fmul (fdiv (l_exp L c_exp_overflow) (fmul c_two gamma)) (fadd gamma f64_one)) |}
  | _ =>
    let mult := fdiv f64_one (l_log2 L gamma) in
    let adj := l_pow L gamma (match k with MLin => c_inv_ln2 | _ => c_7_10ln2 end) in
    Some {| gm_kind := k; gm_gamma := gamma; gm_off := off; gm_mult := mult;
            gm_min := fmax (l_exp2 L (fadd (fdiv (fsub c_min_int32 off) mult) f64_one)) (fmul c_min_normal adj);
            gm_max := fmin (l_exp2 L (fsub (fdiv (fsub c_max_int32 off) mult) f64_one))
                           (fmul (fdiv (l_exp L c_exp_overflow) (fmul c_two adj)) (fadd adj f64_one)) |}
  end.
(* New*Mapping(relativeAccuracy): None = "The relative accuracy must be between 0 and 1." *)
Definition with_accuracy (k : mkind) (a : f64) : option gmap :=
  if fle a f64_zero || fle f64_one a then None else
  let g0 := fdiv (fadd f64_one a) (fsub f64_one a) in
  match k with
  | MLog => with_gamma k g0 f64_zero
  | MLin => let gamma := l_pow L g0 c_ln2 in with_gamma k gamma (fdiv f64_one (l_log2 L gamma))
  | MCub => with_gamma k (l_pow L g0 c_10ln2_7) f64_zero
  end.

Definition gm_index (m : gmap) (v : f64) : Z :=
  let index := fadd (fmul (approx_log (gm_kind m) v) (gm_mult m)) (gm_off m) in
  if fle f64_zero index then int_of_f index else int_of_f index - 1.
Definition gm_lower (m : gmap) (i : Z) : f64 :=
  approx_inverse_log (gm_kind m) (fdiv (fsub (f_of_int i) (gm_off m)) (gm_mult m)).
Definition gm_accuracy (m : gmap) : f64 :=
  match gm_kind m with
  | MLog => fsub f64_one (fdiv c_two (fadd f64_one (gm_gamma m)))
  | MLin => fsub f64_one (fdiv c_two (fadd f64_one (l_exp L (l_log2 L (gm_gamma m)))))
  | MCub => fsub f64_one (fdiv c_two (fadd f64_one (l_exp L (fmul c_07 (l_log2 L (gm_gamma m))))))
  end.
Definition gm_value (m : gmap) (i : Z) : f64 := fmul (gm_lower m i) (fadd f64_one (gm_accuracy m)).
End Libm.
