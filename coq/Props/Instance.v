(* Props/Instance — the abstract-rounding theorems of Props/Rank (C01, C11), Props/Sketch (C12) and
   Props/C20 instantiated at the rounding operator that is actually executed, binary64 round to
   nearest even: statements only.  Every proof is a one-line reference to Sketch/RoundingInstance.v.
   Every result depends on the four stdlib real-number axioms Flocq brings
   (ClassicalDedekindReals.sig_forall_dec, sig_not_dec, FunctionalExtensionality.
   functional_extensionality_dep, Classical_Prop.classic) and on nothing else.

   Reading aid.
     rnd64 q   = f2q (q2f q)      the EXECUTED operator (Base/F64.v): exact rational -> binary64 by
                                  Flocq's binary_normalize in mode_NE -> exact rational
     rndQ q                       the total specification operator (Props/Rounding, section 8): the
                                  rational whose value is Flocq's round-to-nearest-even of q, for
                                  ANY rational q.  R_rnd64_rndQ : dyadic q -> in_range q ->
                                  rnd64 q = rndQ q.
     dyadic q                     q = n / 2^k; every binary64 value is dyadic (R_dyadic_f2q)
     dy_bins b                    every weight of the store b is dyadic
     dy_sketch s                  both stores and the zero weight of s are dyadic
     dyw l                        every item of l has a dyadic weight >= 0
     small s                      a_count s <= 2^1000
     dy_q q / dy_op o             the argument of a dataset query is None (NaN) or Some dyadic

   Three layers.
     1. I_*_rndQ    the abstract theorems with rnd := rndQ.  The premises on the rounding operator
                    (monotone on all of Qc, exact on integers |z| <= B, rnd 0 = 0, idempotent) are
                    discharged by R_rndQ_mono, R_rndQ_int (B = 2^53), R_rndQ_w0, R_rndQ_idem; none
                    is left.
     2. I_*_eq_rndQ congruence.  rnd64 is NOT monotone on all of Qc (it overflows to 0 beyond the
                    largest float, Props/Rounding R_ex_overflow), so it cannot be plugged into the
                    abstract theorems directly.  But on a sketch with dyadic non-negative weights
                    of total <= 2^1000 and a dyadic q in [0,1], every one of the seven arguments
                    [a_quantile] passes to the rounding operator is dyadic (sums, differences,
                    products of dyadic numbers and of results of the rounding) and at most
                    2 * 2^1000 in absolute value, hence in range; so a_quantile rnd64 = a_quantile rndQ.
     3. I_*_rnd64   the theorems about the executed model.  No premise on the rounding operator,
                    only: the weights are dyadic (automatic for unit and integer weights) and q is
                    dyadic (automatic for a binary64 q: I_C01_quantile_selects_order_statistic_rnd64_f2q). *)
From Coq Require Import Permutation Sorted Qround Qcabs.
From SK Require Import Base.Prelude Base.F64 Base.F64Proofs.
From SK Require Import Spec.Bins Spec.BinsProofs Spec.ASketch Sketch.SketchProofs Sketch.RankProofs.
From SK Require Import Data.Dataset.
From SK Require Data.DatasetProofs.
From SK Require Import Sketch.RoundingInstance.
Module DP := Data.DatasetProofs.
Local Open Scope Qc_scope.

Example rnd64_def q : rnd64 q = f2q (q2f q) := eq_refl.
Example dyadic_def q :
  dyadic q = exists n k : Z, (0 <= k)%Z /\ q = Q2Qc (inject_Z n / inject_Z (2 ^ k)) := eq_refl.
Example dy_bins_def b : dy_bins b = Forall (fun kw : Z * W => dyadic (snd kw)) b := eq_refl.
Example dy_sketch_def s :
  dy_sketch s = (dy_bins (a_pos s) /\ dy_bins (a_neg s) /\ dyadic (a_zero s)) := eq_refl.
Example dyw_def l : dyw l = Forall (fun a : item => dyadic (snd a) /\ w0 <= snd a) l := eq_refl.
Example small_def s : small s = (a_count s <= inj (2 ^ 1000)) := eq_refl.
Example dy_q_def q : dy_q q = match q with Some q' => dyadic q' | None => True end := eq_refl.
Example dy_op_def o :
  dy_op o = match o with DP.OLower q => dy_q q | DP.OUpper q => dy_q q | _ => True end := eq_refl.

(* ================================================================== *)
(** * 1. rnd := rndQ: no premise on the rounding operator is left      *)
(* ================================================================== *)

Theorem I_C01_quantile_selects_order_statistic_rndQ
  (m : amapping) (xs ys : list Qc) (s : asketch) (q : Qc) :
  0 <= am_min m ->
  (forall x y, am_min m < x /\ x <= y -> y <= am_max m -> (am_index m x <= am_index m y)%Z) ->
  a_add_list m a_new (map unit_item xs) = Some s ->
  Permutation xs ys -> Sorted Qcle ys -> xs <> [] ->
  (Z.of_nat (length xs) <= 2 ^ 53)%Z -> 0 <= q -> q <= 1 ->
  exists k : nat,
    (cfloor (q * inj (Z.of_nat (length xs) - 1)) <= Z.of_nat k
     <= cceil (q * inj (Z.of_nat (length xs) - 1)))%Z /\
    (k < length xs)%nat /\
    a_quantile rndQ m s q = Some (repr m (nth k ys 0)).
Proof. intros; eapply quantile_selects_order_statistic_rndQ; eauto. Qed.
Print Assumptions I_C01_quantile_selects_order_statistic_rndQ.

Theorem I_C01_quantile_selects_order_statistic_inrange_rndQ
  (m : amapping) (xs ys : list Qc) (q : Qc) :
  0 <= am_min m ->
  (forall x y, am_min m < x /\ x <= y -> y <= am_max m -> (am_index m x <= am_index m y)%Z) ->
  (forall x, In x xs -> Qcabs x <= am_max m) ->
  Permutation xs ys -> Sorted Qcle ys -> xs <> [] ->
  (Z.of_nat (length xs) <= 2 ^ 53)%Z -> 0 <= q -> q <= 1 ->
  exists s, a_add_list m a_new (map unit_item xs) = Some s /\
  exists k : nat,
    (cfloor (q * inj (Z.of_nat (length xs) - 1)) <= Z.of_nat k
     <= cceil (q * inj (Z.of_nat (length xs) - 1)))%Z /\
    (k < length xs)%nat /\
    a_quantile rndQ m s q = Some (repr m (nth k ys 0)).
Proof. intros; eapply quantile_selects_order_statistic_inrange_rndQ; eauto. Qed.
Print Assumptions I_C01_quantile_selects_order_statistic_inrange_rndQ.

Theorem I_C01_quantile_accuracy_rndQ
  (m : amapping) (xs ys : list Qc) (s : asketch) (q alpha : Qc) :
  0 <= am_min m ->
  (forall x y, am_min m < x /\ x <= y -> y <= am_max m -> (am_index m x <= am_index m y)%Z) ->
  a_add_list m a_new (map unit_item xs) = Some s ->
  Permutation xs ys -> Sorted Qcle ys -> xs <> [] ->
  (Z.of_nat (length xs) <= 2 ^ 53)%Z -> 0 <= q -> q <= 1 ->
  (forall x, am_min m < x -> x <= am_max m ->
             Qcabs (am_value m (am_index m x) - x) <= alpha * x) ->
  exists (k : nat) (y : Qc),
    (cfloor (q * inj (Z.of_nat (length xs) - 1)) <= Z.of_nat k
     <= cceil (q * inj (Z.of_nat (length xs) - 1)))%Z /\
    (k < length xs)%nat /\
    a_quantile rndQ m s q = Some y /\
    ((Qcabs (nth k ys 0) <= am_min m /\ y = 0) \/
     Qcabs (y - nth k ys 0) <= alpha * Qcabs (nth k ys 0)).
Proof. intros; eapply quantile_accuracy_rndQ; eauto. Qed.
Print Assumptions I_C01_quantile_accuracy_rndQ.

Theorem I_C01_quantile_0_min_rndQ (m : amapping) (xs ys : list Qc) (s : asketch) :
  0 <= am_min m ->
  (forall x y, am_min m < x /\ x <= y -> y <= am_max m -> (am_index m x <= am_index m y)%Z) ->
  a_add_list m a_new (map unit_item xs) = Some s ->
  Permutation xs ys -> Sorted Qcle ys -> xs <> [] -> (Z.of_nat (length xs) <= 2 ^ 53)%Z ->
  a_quantile rndQ m s 0 = Some (repr m (nth 0 ys 0)) /\
  In (nth 0 ys 0) xs /\ forall x, In x xs -> nth 0 ys 0 <= x.
Proof. intros; eapply quantile_0_min_rndQ; eauto. Qed.
Print Assumptions I_C01_quantile_0_min_rndQ.

Theorem I_C01_quantile_1_max_rndQ (m : amapping) (xs ys : list Qc) (s : asketch) :
  0 <= am_min m ->
  (forall x y, am_min m < x /\ x <= y -> y <= am_max m -> (am_index m x <= am_index m y)%Z) ->
  a_add_list m a_new (map unit_item xs) = Some s ->
  Permutation xs ys -> Sorted Qcle ys -> xs <> [] -> (Z.of_nat (length xs) <= 2 ^ 53)%Z ->
  a_quantile rndQ m s 1 = Some (repr m (nth (length xs - 1) ys 0)) /\
  In (nth (length xs - 1) ys 0) xs /\ forall x, In x xs -> x <= nth (length xs - 1) ys 0.
Proof. intros; eapply quantile_1_max_rndQ; eauto. Qed.
Print Assumptions I_C01_quantile_1_max_rndQ.

Theorem I_C11_weighted_quantile_integer_rndQ
  (m : amapping) (xs ys : list item) (s : asketch) (q : Qc) (n : Z) :
  0 <= am_min m ->
  (forall x y, am_min m < x /\ x <= y -> y <= am_max m -> (am_index m x <= am_index m y)%Z) ->
  a_add_list m a_new xs = Some s ->
  Permutation xs ys -> StronglySorted vle ys -> intw ys -> ys <> [] ->
  wsum ys = inj n -> (n <= 2 ^ 53)%Z -> 0 <= q -> q <= 1 ->
  exists l1 a l2 (k : Z),
    ys = l1 ++ a :: l2 /\
    a_quantile rndQ m s q = Some (repr m (fst a)) /\
    (cfloor (q * inj (n - 1)) <= k <= cceil (q * inj (n - 1)))%Z /\
    wsum l1 <= inj k /\ inj k < wsum l1 + snd a.
Proof. intros; eapply weighted_quantile_integer_rndQ; eauto. Qed.
Print Assumptions I_C11_weighted_quantile_integer_rndQ.

Theorem I_C12_rank_mono_rndQ s q1 q2 :
  w0 <= q1 -> q1 <= q2 -> a_rank rndQ s q1 <= a_rank rndQ s q2.
Proof. exact (rank_mono_rndQ s q1 q2). Qed.
Print Assumptions I_C12_rank_mono_rndQ.

Theorem I_C12_quantile_mono_rndQ m s q1 q2 y1 y2 :
  (forall i, w0 < am_value m i) ->
  (forall i j, (i <= j)%Z -> am_value m i <= am_value m j) ->
  awf s -> w0 <= q1 -> q1 <= q2 ->
  a_quantile rndQ m s q1 = Some y1 -> a_quantile rndQ m s q2 = Some y2 -> y1 <= y2.
Proof. exact (quantile_mono_rndQ m s q1 q2 y1 y2). Qed.
Print Assumptions I_C12_quantile_mono_rndQ.

Theorem I_C12_quantile_ge_min_rndQ m s q y lo :
  (forall i, w0 < am_value m i) ->
  (forall i j, (i <= j)%Z -> am_value m i <= am_value m j) ->
  awf s -> a_quantile rndQ m s q = Some y -> a_min m s = Some lo -> lo <= y.
Proof. exact (quantile_ge_min_rndQ m s q y lo). Qed.
Print Assumptions I_C12_quantile_ge_min_rndQ.

Theorem I_C12_quantile_le_max_rndQ m s q y hi :
  (forall i, w0 < am_value m i) ->
  (forall i j, (i <= j)%Z -> am_value m i <= am_value m j) ->
  awf s -> a_quantile rndQ m s q = Some y -> a_max m s = Some hi -> y <= hi.
Proof. exact (quantile_le_max_rndQ m s q y hi). Qed.
Print Assumptions I_C12_quantile_le_max_rndQ.

Theorem I_C12_quantile_bounds_rndQ m s q y lo hi :
  (forall i, w0 < am_value m i) ->
  (forall i j, (i <= j)%Z -> am_value m i <= am_value m j) ->
  awf s -> a_quantile rndQ m s q = Some y -> a_min m s = Some lo -> a_max m s = Some hi ->
  lo <= y /\ y <= hi.
Proof. exact (quantile_bounds_rndQ m s q y lo hi). Qed.
Print Assumptions I_C12_quantile_bounds_rndQ.

(* the two premises left are about the count of this sketch, not about the operator *)
Theorem I_C12_quantile_some_rndQ m s q :
  awf s -> a_count s <> w0 -> w0 <= q -> q <= w1 ->
  w0 < rndQ (a_count s) -> rndQ (wsub (a_count s) w1) < rndQ (a_count s) ->
  exists y, a_quantile rndQ m s q = Some y.
Proof. exact (quantile_some_rndQ m s q). Qed.
Print Assumptions I_C12_quantile_some_rndQ.

(* the reference dataset; the premises on [sort] (it sorts) stay *)
Theorem I_C20_queries_are_order_statistics_rndQ (sort : list Qc -> list Qc) :
  (forall l, Sorted Qcle (sort l)) -> (forall l, Permutation l (sort l)) ->
  forall (pre : list DP.op) (q : Qc) (s : list Qc),
  let xs := DP.adds pre in
  let rho := rndQ (q * (Q2Qc (inject_Z (Z.of_nat (length xs))) - 1)) in
  Sorted Qcle s -> Permutation xs s ->
  xs <> [] -> 0 <= q -> q <= 1 -> (Z.of_nat (length xs) - 1 <= 2 ^ 53)%Z ->
  (exists v, nth_error s (Z.to_nat (qfloor rho)) = Some v /\
     snd (DP.run sort rndQ (pre ++ [DP.OLower (Some q)]) d_new) = snd (DP.run sort rndQ pre d_new) ++ [Some v]) /\
  (exists v, nth_error s (Z.to_nat (qceil rho)) = Some v /\
     snd (DP.run sort rndQ (pre ++ [DP.OUpper (Some q)]) d_new) = snd (DP.run sort rndQ pre d_new) ++ [Some v]).
Proof. exact (queries_are_order_statistics_rndQ sort). Qed.
Print Assumptions I_C20_queries_are_order_statistics_rndQ.

Theorem I_C20_lower_is_order_statistic_rndQ (sort : list Qc -> list Qc) :
  (forall l, Sorted Qcle (sort l)) -> (forall l, Permutation l (sort l)) ->
  forall (pre : list DP.op) (q : Qc),
  let xs := DP.adds pre in
  let k := Z.to_nat (qfloor (rndQ (q * (Q2Qc (inject_Z (Z.of_nat (length xs))) - 1)))) in
  xs <> [] -> 0 <= q -> q <= 1 -> (Z.of_nat (length xs) - 1 <= 2 ^ 53)%Z ->
  snd (DP.run sort rndQ (pre ++ [DP.OLower (Some q)]) d_new) =
    snd (DP.run sort rndQ pre d_new) ++ [nth_error (sort xs) k] /\
  (k < length xs)%nat /\ exists v, nth_error (sort xs) k = Some v.
Proof. exact (lower_is_order_statistic_rndQ sort). Qed.
Print Assumptions I_C20_lower_is_order_statistic_rndQ.

Theorem I_C20_upper_is_order_statistic_rndQ (sort : list Qc -> list Qc) :
  (forall l, Sorted Qcle (sort l)) -> (forall l, Permutation l (sort l)) ->
  forall (pre : list DP.op) (q : Qc),
  let xs := DP.adds pre in
  let k := Z.to_nat (qceil (rndQ (q * (Q2Qc (inject_Z (Z.of_nat (length xs))) - 1)))) in
  xs <> [] -> 0 <= q -> q <= 1 -> (Z.of_nat (length xs) - 1 <= 2 ^ 53)%Z ->
  snd (DP.run sort rndQ (pre ++ [DP.OUpper (Some q)]) d_new) =
    snd (DP.run sort rndQ pre d_new) ++ [nth_error (sort xs) k] /\
  (k < length xs)%nat /\ exists v, nth_error (sort xs) k = Some v.
Proof. exact (upper_is_order_statistic_rndQ sort). Qed.
Print Assumptions I_C20_upper_is_order_statistic_rndQ.

Theorem I_C20_quantile_position_bracket_rndQ (xs : list Qc) (q : Qc) :
  let r := q * (Q2Qc (inject_Z (Z.of_nat (length xs))) - 1) in
  xs <> [] -> 0 <= q -> q <= 1 -> (Z.of_nat (length xs) - 1 <= 2 ^ 53)%Z ->
  (0 <= qfloor r /\ qfloor r <= qfloor (rndQ r) /\ qfloor (rndQ r) <= qceil (rndQ r) /\
   qceil (rndQ r) <= qceil r /\ qceil r <= qfloor r + 1 /\ qceil r <= Z.of_nat (length xs) - 1)%Z.
Proof. exact (quantile_position_bracket_rndQ xs q). Qed.
Print Assumptions I_C20_quantile_position_bracket_rndQ.

Theorem I_C20_quantile_none_iff_rndQ (sort : list Qc -> list Qc) :
  (forall l, Sorted Qcle (sort l)) -> (forall l, Permutation l (sort l)) ->
  forall (pick : Qc -> Z) (d : dataset) (q : option Qc),
  pick = qfloor \/ pick = qceil -> DP.DInv d -> (Z.of_nat (length (ds_values d)) - 1 <= 2 ^ 53)%Z ->
  (snd (d_quantile_at sort rndQ pick d q) = None <->
   q = None \/ exists q', q = Some q' /\ (q' < 0 \/ 1 < q' \/ ds_values d = [])).
Proof. exact (quantile_none_iff_rndQ sort). Qed.
Print Assumptions I_C20_quantile_none_iff_rndQ.

(* ================================================================== *)
(** * 2. congruence: the executed operator agrees with rndQ            *)
(* ================================================================== *)

Theorem I_dyadic_total b : dy_bins b -> dyadic (total b).
Proof. exact (dyadic_total b). Qed.
Print Assumptions I_dyadic_total.

Theorem I_a_rank_rnd64_eq_rndQ (s : asketch) (q : Qc) :
  dy_bins (a_pos s) -> dy_bins (a_neg s) -> dyadic (a_zero s) ->
  nonneg (a_pos s) -> nonneg (a_neg s) -> w0 <= a_zero s ->
  small s -> dyadic q -> 0 <= q -> q <= 1 ->
  a_rank rnd64 s q = a_rank rndQ s q.
Proof. exact (a_rank_rnd64_eq_rndQ s q). Qed.
Print Assumptions I_a_rank_rnd64_eq_rndQ.

Theorem I_a_quantile_rnd64_eq_rndQ (m : amapping) (s : asketch) (q : Qc) :
  dy_bins (a_pos s) -> dy_bins (a_neg s) -> dyadic (a_zero s) ->
  nonneg (a_pos s) -> nonneg (a_neg s) -> w0 <= a_zero s ->
  small s -> dyadic q -> 0 <= q -> q <= 1 ->
  a_quantile rnd64 m s q = a_quantile rndQ m s q.
Proof. exact (a_quantile_rnd64_eq_rndQ m s q). Qed.
Print Assumptions I_a_quantile_rnd64_eq_rndQ.

Theorem I_a_quantile_rnd64_eq_rndQ_awf (m : amapping) (s : asketch) (q : Qc) :
  awf s -> dy_sketch s -> small s -> dyadic q -> 0 <= q -> q <= 1 ->
  a_quantile rnd64 m s q = a_quantile rndQ m s q.
Proof. exact (a_quantile_rnd64_eq_rndQ_awf m s q). Qed.
Print Assumptions I_a_quantile_rnd64_eq_rndQ_awf.

(* the sketch of a list of items with dyadic non-negative weights: dyadic, canonical, and its
   count is the total weight *)
Theorem I_built_sketch_facts (m : amapping) (xs : list item) (s : asketch) :
  dyw xs -> a_add_list m a_new xs = Some s ->
  dy_sketch s /\ awf s /\ a_count s = wsum xs.
Proof. exact (built_sketch_facts m xs s). Qed.
Print Assumptions I_built_sketch_facts.

Theorem I_dyw_units (xs : list Qc) : dyw (map unit_item xs).
Proof. exact (dyw_units xs). Qed.
Print Assumptions I_dyw_units.

Theorem I_dyw_intw (l : list item) : intw l -> dyw l.
Proof. exact (dyw_intw l). Qed.
Print Assumptions I_dyw_intw.

Theorem I_a_quantile_rnd64_eq_rndQ_built (m : amapping) (xs : list item) (s : asketch) (q : Qc) :
  dyw xs -> a_add_list m a_new xs = Some s -> wsum xs <= inj (2 ^ 1000) ->
  dyadic q -> 0 <= q -> q <= 1 ->
  a_quantile rnd64 m s q = a_quantile rndQ m s q.
Proof. exact (a_quantile_rnd64_eq_rndQ_built m xs s q). Qed.
Print Assumptions I_a_quantile_rnd64_eq_rndQ_built.

Theorem I_a_quantile_rnd64_eq_rndQ_units (m : amapping) (xs : list Qc) (s : asketch) (q : Qc) :
  a_add_list m a_new (map unit_item xs) = Some s -> (Z.of_nat (length xs) <= 2 ^ 53)%Z ->
  dyadic q -> 0 <= q -> q <= 1 ->
  a_quantile rnd64 m s q = a_quantile rndQ m s q.
Proof. exact (a_quantile_rnd64_eq_rndQ_units m xs s q). Qed.
Print Assumptions I_a_quantile_rnd64_eq_rndQ_units.

(* ================================================================== *)
(** * 3. the executed model: a_quantile rnd64                          *)
(* ================================================================== *)

(* THE HEADLINE: Theorem A (C01) for the operator that is executed *)
Theorem I_C01_quantile_selects_order_statistic_rnd64
  (m : amapping) (xs ys : list Qc) (s : asketch) (q : Qc) :
  0 <= am_min m ->
  (forall x y, am_min m < x /\ x <= y -> y <= am_max m -> (am_index m x <= am_index m y)%Z) ->
  a_add_list m a_new (map unit_item xs) = Some s ->
  Permutation xs ys -> Sorted Qcle ys -> xs <> [] ->
  (Z.of_nat (length xs) <= 2 ^ 53)%Z -> dyadic q -> 0 <= q -> q <= 1 ->
  exists k : nat,
    (cfloor (q * inj (Z.of_nat (length xs) - 1)) <= Z.of_nat k
     <= cceil (q * inj (Z.of_nat (length xs) - 1)))%Z /\
    (k < length xs)%nat /\
    a_quantile rnd64 m s q = Some (repr m (nth k ys 0)).
Proof. intros; eapply quantile_selects_order_statistic_rnd64; eauto. Qed.
Print Assumptions I_C01_quantile_selects_order_statistic_rnd64.

(* the quantile given as a binary64 value *)
Theorem I_C01_quantile_selects_order_statistic_rnd64_f2q
  (m : amapping) (xs ys : list Qc) (s : asketch) (x : f64) :
  0 <= am_min m ->
  (forall x y, am_min m < x /\ x <= y -> y <= am_max m -> (am_index m x <= am_index m y)%Z) ->
  a_add_list m a_new (map unit_item xs) = Some s ->
  Permutation xs ys -> Sorted Qcle ys -> xs <> [] ->
  (Z.of_nat (length xs) <= 2 ^ 53)%Z -> 0 <= f2q x -> f2q x <= 1 ->
  exists k : nat,
    (cfloor (f2q x * inj (Z.of_nat (length xs) - 1)) <= Z.of_nat k
     <= cceil (f2q x * inj (Z.of_nat (length xs) - 1)))%Z /\
    (k < length xs)%nat /\
    a_quantile rnd64 m s (f2q x) = Some (repr m (nth k ys 0)).
Proof. exact (quantile_selects_order_statistic_rnd64_f2q m xs ys s x). Qed.
Print Assumptions I_C01_quantile_selects_order_statistic_rnd64_f2q.

Theorem I_C01_quantile_selects_order_statistic_inrange_rnd64
  (m : amapping) (xs ys : list Qc) (q : Qc) :
  0 <= am_min m ->
  (forall x y, am_min m < x /\ x <= y -> y <= am_max m -> (am_index m x <= am_index m y)%Z) ->
  (forall x, In x xs -> Qcabs x <= am_max m) ->
  Permutation xs ys -> Sorted Qcle ys -> xs <> [] ->
  (Z.of_nat (length xs) <= 2 ^ 53)%Z -> dyadic q -> 0 <= q -> q <= 1 ->
  exists s, a_add_list m a_new (map unit_item xs) = Some s /\
  exists k : nat,
    (cfloor (q * inj (Z.of_nat (length xs) - 1)) <= Z.of_nat k
     <= cceil (q * inj (Z.of_nat (length xs) - 1)))%Z /\
    (k < length xs)%nat /\
    a_quantile rnd64 m s q = Some (repr m (nth k ys 0)).
Proof. intros; eapply quantile_selects_order_statistic_inrange_rnd64; eauto. Qed.
Print Assumptions I_C01_quantile_selects_order_statistic_inrange_rnd64.

Theorem I_C01_quantile_accuracy_rnd64
  (m : amapping) (xs ys : list Qc) (s : asketch) (q alpha : Qc) :
  0 <= am_min m ->
  (forall x y, am_min m < x /\ x <= y -> y <= am_max m -> (am_index m x <= am_index m y)%Z) ->
  a_add_list m a_new (map unit_item xs) = Some s ->
  Permutation xs ys -> Sorted Qcle ys -> xs <> [] ->
  (Z.of_nat (length xs) <= 2 ^ 53)%Z -> dyadic q -> 0 <= q -> q <= 1 ->
  (forall x, am_min m < x -> x <= am_max m ->
             Qcabs (am_value m (am_index m x) - x) <= alpha * x) ->
  exists (k : nat) (y : Qc),
    (cfloor (q * inj (Z.of_nat (length xs) - 1)) <= Z.of_nat k
     <= cceil (q * inj (Z.of_nat (length xs) - 1)))%Z /\
    (k < length xs)%nat /\
    a_quantile rnd64 m s q = Some y /\
    ((Qcabs (nth k ys 0) <= am_min m /\ y = 0) \/
     Qcabs (y - nth k ys 0) <= alpha * Qcabs (nth k ys 0)).
Proof. intros; eapply quantile_accuracy_rnd64; eauto. Qed.
Print Assumptions I_C01_quantile_accuracy_rnd64.

Theorem I_C01_quantile_0_min_rnd64 (m : amapping) (xs ys : list Qc) (s : asketch) :
  0 <= am_min m ->
  (forall x y, am_min m < x /\ x <= y -> y <= am_max m -> (am_index m x <= am_index m y)%Z) ->
  a_add_list m a_new (map unit_item xs) = Some s ->
  Permutation xs ys -> Sorted Qcle ys -> xs <> [] -> (Z.of_nat (length xs) <= 2 ^ 53)%Z ->
  a_quantile rnd64 m s 0 = Some (repr m (nth 0 ys 0)) /\
  In (nth 0 ys 0) xs /\ forall x, In x xs -> nth 0 ys 0 <= x.
Proof. intros; eapply quantile_0_min_rnd64; eauto. Qed.
Print Assumptions I_C01_quantile_0_min_rnd64.

Theorem I_C01_quantile_1_max_rnd64 (m : amapping) (xs ys : list Qc) (s : asketch) :
  0 <= am_min m ->
  (forall x y, am_min m < x /\ x <= y -> y <= am_max m -> (am_index m x <= am_index m y)%Z) ->
  a_add_list m a_new (map unit_item xs) = Some s ->
  Permutation xs ys -> Sorted Qcle ys -> xs <> [] -> (Z.of_nat (length xs) <= 2 ^ 53)%Z ->
  a_quantile rnd64 m s 1 = Some (repr m (nth (length xs - 1) ys 0)) /\
  In (nth (length xs - 1) ys 0) xs /\ forall x, In x xs -> x <= nth (length xs - 1) ys 0.
Proof. intros; eapply quantile_1_max_rnd64; eauto. Qed.
Print Assumptions I_C01_quantile_1_max_rnd64.

(* Theorem B (C11), positive integer weights of total n <= 2^53 *)
Theorem I_C11_weighted_quantile_integer_rnd64
  (m : amapping) (xs ys : list item) (s : asketch) (q : Qc) (n : Z) :
  0 <= am_min m ->
  (forall x y, am_min m < x /\ x <= y -> y <= am_max m -> (am_index m x <= am_index m y)%Z) ->
  a_add_list m a_new xs = Some s ->
  Permutation xs ys -> StronglySorted vle ys -> intw ys -> ys <> [] ->
  wsum ys = inj n -> (n <= 2 ^ 53)%Z -> dyadic q -> 0 <= q -> q <= 1 ->
  exists l1 a l2 (k : Z),
    ys = l1 ++ a :: l2 /\
    a_quantile rnd64 m s q = Some (repr m (fst a)) /\
    (cfloor (q * inj (n - 1)) <= k <= cceil (q * inj (n - 1)))%Z /\
    wsum l1 <= inj k /\ inj k < wsum l1 + snd a.
Proof. intros; eapply weighted_quantile_integer_rnd64; eauto. Qed.
Print Assumptions I_C11_weighted_quantile_integer_rnd64.

(* C12 on any canonical sketch with dyadic weights of total <= 2^1000 (e.g. binary64 weights) *)
Theorem I_C12_quantile_mono_rnd64 m s q1 q2 y1 y2 :
  (forall i, w0 < am_value m i) ->
  (forall i j, (i <= j)%Z -> am_value m i <= am_value m j) ->
  awf s -> dy_sketch s -> small s -> dyadic q1 -> dyadic q2 ->
  w0 <= q1 -> q1 <= q2 -> q2 <= 1 ->
  a_quantile rnd64 m s q1 = Some y1 -> a_quantile rnd64 m s q2 = Some y2 -> y1 <= y2.
Proof. exact (quantile_mono_rnd64 m s q1 q2 y1 y2). Qed.
Print Assumptions I_C12_quantile_mono_rnd64.

Theorem I_C12_quantile_bounds_rnd64 m s q y lo hi :
  (forall i, w0 < am_value m i) ->
  (forall i j, (i <= j)%Z -> am_value m i <= am_value m j) ->
  awf s -> dy_sketch s -> small s -> dyadic q -> 0 <= q -> q <= 1 ->
  a_quantile rnd64 m s q = Some y -> a_min m s = Some lo -> a_max m s = Some hi ->
  lo <= y /\ y <= hi.
Proof. exact (quantile_bounds_rnd64 m s q y lo hi). Qed.
Print Assumptions I_C12_quantile_bounds_rnd64.

(* ================================================================== *)
(** * 4. the reference dataset with the executed operator              *)
(* ================================================================== *)

(* the only rounded quantity is q * (count - 1), count a natural number *)
Theorem I_C20_d_lower_rnd64_eq_rndQ (sort : list Qc -> list Qc) (d : dataset) (q : option Qc) :
  DP.DInv d -> (Z.of_nat (length (ds_values d)) <= 2 ^ 1000)%Z -> dy_q q ->
  d_lower sort rnd64 d q = d_lower sort rndQ d q.
Proof. exact (d_lower_rnd64_eq_rndQ sort d q). Qed.
Print Assumptions I_C20_d_lower_rnd64_eq_rndQ.

Theorem I_C20_d_upper_rnd64_eq_rndQ (sort : list Qc -> list Qc) (d : dataset) (q : option Qc) :
  DP.DInv d -> (Z.of_nat (length (ds_values d)) <= 2 ^ 1000)%Z -> dy_q q ->
  d_upper sort rnd64 d q = d_upper sort rndQ d q.
Proof. exact (d_upper_rnd64_eq_rndQ sort d q). Qed.
Print Assumptions I_C20_d_upper_rnd64_eq_rndQ.

(* whole histories: final state and every answer *)
Theorem I_C20_run_rnd64_eq_rndQ (sort : list Qc -> list Qc) :
  (forall l, Sorted Qcle (sort l)) -> (forall l, Permutation l (sort l)) ->
  forall ops : list DP.op,
  Forall dy_op ops -> (Z.of_nat (length (DP.adds ops)) <= 2 ^ 1000)%Z ->
  DP.run sort rnd64 ops d_new = DP.run sort rndQ ops d_new.
Proof. exact (run_rnd64_eq_rndQ sort). Qed.
Print Assumptions I_C20_run_rnd64_eq_rndQ.

Theorem I_C20_queries_are_order_statistics_rnd64 (sort : list Qc -> list Qc) :
  (forall l, Sorted Qcle (sort l)) -> (forall l, Permutation l (sort l)) ->
  forall (pre : list DP.op) (q : Qc) (s : list Qc),
  let xs := DP.adds pre in
  let rho := rnd64 (q * (Q2Qc (inject_Z (Z.of_nat (length xs))) - 1)) in
  Forall dy_op pre -> dyadic q ->
  Sorted Qcle s -> Permutation xs s ->
  xs <> [] -> 0 <= q -> q <= 1 -> (Z.of_nat (length xs) - 1 <= 2 ^ 53)%Z ->
  (exists v, nth_error s (Z.to_nat (qfloor rho)) = Some v /\
     snd (DP.run sort rnd64 (pre ++ [DP.OLower (Some q)]) d_new) = snd (DP.run sort rnd64 pre d_new) ++ [Some v]) /\
  (exists v, nth_error s (Z.to_nat (qceil rho)) = Some v /\
     snd (DP.run sort rnd64 (pre ++ [DP.OUpper (Some q)]) d_new) = snd (DP.run sort rnd64 pre d_new) ++ [Some v]).
Proof. exact (queries_are_order_statistics_rnd64 sort). Qed.
Print Assumptions I_C20_queries_are_order_statistics_rnd64.

(* ================================================================== *)
(** * 5. a concrete instance, computed with the executed operator      *)
(* ================================================================== *)
(* bins (k-1, k], represented by their upper edge (the instance of Props/Rank, section 5) *)
Definition I_ex_m : amapping :=
  {| am_index := cceil; am_value := inj; am_min := 0; am_max := inj 1000 |}.
Definition I_ex_xs : list Qc := [inj 3; inj (-2); inj 7; Q2Qc (1 # 2)].
Definition I_ex_ys : list Qc := [inj (-2); Q2Qc (1 # 2); inj 3; inj 7].
Definition I_ex_q : Qc := Q2Qc (1 # 2).

(* n = 4, q = 1/2: the ranks rnd64 (4 - 1) = 3, rnd64 (1/2 * 3) = 3/2 are computed by q2f / f2q;
   the answer is the representative 1 of the value 1/2 = ys[1]; at q = 0 and q = 1 the
   representatives -2 and 7 of the minimum and the maximum *)
Example I_ex_value :
  match a_add_list I_ex_m a_new (map unit_item I_ex_xs) with
  | Some s => (option_map this (a_quantile rnd64 I_ex_m s I_ex_q),
               option_map this (a_quantile rnd64 I_ex_m s 0),
               option_map this (a_quantile rnd64 I_ex_m s 1),
               this (a_rank rnd64 s I_ex_q))
  | None => (None, None, None, 0%Q)
  end = (Some (1 # 1)%Q, Some (-2 # 1)%Q, Some (7 # 1)%Q, (3 # 2)%Q)
  /\ this (repr I_ex_m (nth 1 I_ex_ys 0)) = (1 # 1)%Q.
Proof. split; vm_compute; reflexivity. Qed.

(* the premises of the headline theorem are satisfiable: it applies to the instance (k is 1 or 2) *)
Example I_ex_dyadic_q : dyadic I_ex_q.
Proof. apply dyadic_iff. vm_compute. reflexivity. Qed.
Example I_ex_idx_mono x y :
  am_min I_ex_m < x /\ x <= y -> y <= am_max I_ex_m -> (am_index I_ex_m x <= am_index I_ex_m y)%Z.
Proof.
  intros [_ Hxy] _. cbn [am_index I_ex_m]. apply cceil_spec.
  eapply Qcle_trans; [exact Hxy|apply cceil_ge].
Qed.
Example I_ex_perm : Permutation I_ex_xs I_ex_ys.
Proof.
  unfold I_ex_xs, I_ex_ys.
  apply (Permutation_cons_app [inj (-2); Q2Qc (1 # 2)] [inj 7]). cbn [app].
  apply perm_skip. apply perm_swap.
Qed.
Example I_ex_sorted : Sorted Qcle I_ex_ys.
Proof. unfold I_ex_ys. repeat constructor; vm_compute; discriminate. Qed.
Example I_ex_headline :
  exists s, a_add_list I_ex_m a_new (map unit_item I_ex_xs) = Some s /\
  exists k : nat, (1 <= Z.of_nat k <= 2)%Z /\
    a_quantile rnd64 I_ex_m s I_ex_q = Some (repr I_ex_m (nth k I_ex_ys 0)).
Proof.
  destruct (I_C01_quantile_selects_order_statistic_inrange_rnd64 I_ex_m I_ex_xs I_ex_ys I_ex_q)
    as [s [Hs [k [K1 [_ K3]]]]].
  - apply Qcle_refl.
  - exact I_ex_idx_mono.
  - intros x Hx. cbn [I_ex_xs In] in Hx.
    destruct Hx as [<-|[<-|[<-|[<-|[]]]]]; vm_compute; discriminate.
  - exact I_ex_perm.
  - exact I_ex_sorted.
  - discriminate.
  - vm_compute. discriminate.
  - exact I_ex_dyadic_q.
  - vm_compute. discriminate.
  - vm_compute. discriminate.
  - exists s. split; [exact Hs|]. exists k. split; [|exact K3].
    assert (E1 : cfloor (I_ex_q * inj (Z.of_nat (length I_ex_xs) - 1)) = 1%Z) by (vm_compute; reflexivity).
    assert (E2 : cceil (I_ex_q * inj (Z.of_nat (length I_ex_xs) - 1)) = 2%Z) by (vm_compute; reflexivity).
    rewrite E1, E2 in K1. exact K1.
Qed.
Print Assumptions I_ex_headline.
