(* C05, collapsing dense stores (ddsketch/store/collapsing_lowest_dense_store.go and
   collapsing_highest_dense_store.go; model Store/Dense.v with lim = Lowest n / Highest n,
   n = maxNumBins, collapsed = isCollapsed): the final statements only.  Every proof is a reference
   to Store/CollapsingProofs.v.
     CI n s     representation invariant of a collapsing store of capacity n (either kind), see
                C05_inv_meaning: the plain-store invariant on the cells, len s <= n (memory bound),
                an empty store has a zero-length array and is not collapsed, a collapsed store has
                the full capacity and its window is exactly its array
     WInv o     invariant of ANY member of the dense family as the argument of MergeWith
                (DenseStore: C05_winv_of_exact, collapsing with any capacity: C05_winv_of_collapsing)
     dget s i   weight stored for index i (= bins[i - offset], 0 outside the array)
     dabs s     the Layer A content (canonical association list) of the store
     clampf F lo e / clamph F hi e   the clamp as a function on contents (fold below / above e into e)
   [grow] is any array growth policy with d <= grow d.  The [fixD1] argument of the model is [true]
   (the current Go code, where adjust treats an empty receiver like the single-bucket case); the
   behaviour for [false] (the code before that repair) is refuted by the examples at the end.
   Option results: [None] = the Go code would panic, so "exists s', f ... = Some s'" is the
   no-panic statement. *)
From SK Require Import Store.Dense Spec.BinsProofs Store.DenseProofs Store.CollapsingProofs.
Local Open Scope Z_scope.

Definition grow_ok (grow : Z -> Z) : Prop := forall d, d <= grow d.

(* ================= I: invariant ================= *)
Theorem C05_inv_new : forall n l, 0 <= n -> CI n (new_dense l).
Proof. exact CI_new. Qed.
Print Assumptions C05_inv_new.

Theorem C05_inv_meaning :
  forall n s, CI n s ->
  (forall i, (w0 <= dget s i)%Qc) /\
  (forall i, i < minI s \/ maxI s < i -> dget s i = w0) /\
  count s = rsum (dget s) (minI s) (maxI s) /\ count s = sumW (bins s) /\
  (count s = w0 -> minI s = MaxInt32 /\ maxI s = MinInt32 /\ bins s = [] /\ collapsed s = false) /\
  (count s <> w0 ->
     offset s <= minI s /\ minI s <= maxI s /\ maxI s < offset s + len s /\
     (w0 < dget s (minI s))%Qc /\ (w0 < dget s (maxI s))%Qc /\ idx_ok (minI s) /\ idx_ok (maxI s) /\
     maxI s - minI s + 1 <= n) /\
  len s <= n /\
  (collapsed s = true -> len s = n /\ offset s = minI s /\ maxI s = minI s + n - 1).
Proof. exact CI_meaning. Qed.
Print Assumptions C05_inv_meaning.

(* executable checker, used by the examples *)
Theorem C05_inv_checker : forall n s, ci_checkb n s = true -> CI n s.
Proof. exact ci_checkb_sound. Qed.
Print Assumptions C05_inv_checker.

Theorem C05_abs_get : forall n s i, CI n s -> get (dabs s) i = dget s i.
Proof. intros; eapply ci_get_dabs; eauto. Qed.
Print Assumptions C05_abs_get.

(* the content of a store satisfying the invariant is a fixpoint of its clamp *)
Theorem C05_low_abs_clamped : forall n s, 1 <= n -> CI n s -> clamp_low n (dabs s) = dabs s.
Proof. exact clamp_low_fix. Qed.
Print Assumptions C05_low_abs_clamped.
Theorem C05_high_abs_clamped : forall n s, 1 <= n -> CI n s -> clamp_high n (dabs s) = dabs s.
Proof. exact clamp_high_fix. Qed.
Print Assumptions C05_high_abs_clamped.

Theorem C05_winv_of_exact : forall o, Inv o -> WInv o.
Proof. exact WInv_of_Inv. Qed.
Print Assumptions C05_winv_of_exact.
Theorem C05_winv_of_collapsing : forall n o, CI n o -> WInv o.
Proof. exact WInv_of_CI. Qed.
Print Assumptions C05_winv_of_collapsing.

(* ================= II: when a collapse happens ================= *)
(* in extendRange the array has length l <= n and is grown to l' = max l (min (grow d) n) for the
   requested width d; adjust collapses iff l' < d, and then the array has the full capacity *)
Theorem C05_collapse_full_capacity :
  forall grow n l d, grow_ok grow -> l <= n ->
  let l' := Z.max l (Z.min (grow d) n) in l' < d -> l' = n.
Proof. exact collapse_full_capacity. Qed.
Print Assumptions C05_collapse_full_capacity.

(* ================= III: adjust realises the clamp ================= *)
Theorem C05_low_adjust_fits :
  forall fx s lo hi, hi - lo + 1 <= len s -> adjust_lowest fx s lo hi = center_counts s lo hi.
Proof. exact adjust_lowest_fits. Qed.
Print Assumptions C05_low_adjust_fits.

(* the three collapsing branches (single bucket; collapse then shift; shift then mark) *)
Theorem C05_low_adjust_collapse :
  forall s lo hi,
  count s <> w0 ->
  (forall i, i < minI s \/ maxI s < i -> dget s i = w0) ->
  count s = rsum (dget s) (minI s) (maxI s) ->
  offset s <= minI s -> minI s <= maxI s -> maxI s < offset s + len s ->
  lo <= minI s -> maxI s <= hi -> len s < hi - lo + 1 ->
  exists s', adjust_lowest true s lo hi = Some s' /\
    (forall j, dget s' j = clampf (dget s) lo (hi - len s + 1) j) /\
    len s' = len s /\ offset s' = hi - len s + 1 /\ minI s' = hi - len s + 1 /\ maxI s' = hi /\
    count s' = count s /\ lim s' = lim s /\ collapsed s' = true.
Proof. exact adjust_lowest_collapse. Qed.
Print Assumptions C05_low_adjust_collapse.

Theorem C05_high_adjust_fits :
  forall fx s lo hi, hi - lo + 1 <= len s -> adjust_highest fx s lo hi = center_counts s lo hi.
Proof. exact adjust_highest_fits. Qed.
Print Assumptions C05_high_adjust_fits.

Theorem C05_high_adjust_collapse :
  forall s lo hi,
  count s <> w0 ->
  (forall i, i < minI s \/ maxI s < i -> dget s i = w0) ->
  count s = rsum (dget s) (minI s) (maxI s) ->
  offset s <= minI s -> minI s <= maxI s -> maxI s < offset s + len s ->
  lo <= minI s -> maxI s <= hi -> len s < hi - lo + 1 ->
  exists s', adjust_highest true s lo hi = Some s' /\
    (forall j, dget s' j = clamph (dget s) hi (lo + len s - 1) j) /\
    len s' = len s /\ offset s' = lo /\ minI s' = lo /\ maxI s' = lo + len s - 1 /\
    count s' = count s /\ lim s' = lim s /\ collapsed s' = true.
Proof. exact adjust_highest_collapse. Qed.
Print Assumptions C05_high_adjust_collapse.

(* extendRange on any state satisfying the invariant, the empty / cleared receiver included *)
Theorem C05_low_extend_range :
  forall grow, grow_ok grow -> forall n, 1 <= n ->
  forall s lo hi, CI n s -> lim s = Lowest n -> lo <= hi -> idx_ok lo -> idx_ok hi ->
  exists s1, extend_range grow true s lo hi = Some s1 /\ lext_post n s lo hi s1.
Proof. exact extend_range_low. Qed.
Print Assumptions C05_low_extend_range.
Theorem C05_high_extend_range :
  forall grow, grow_ok grow -> forall n, 1 <= n ->
  forall s lo hi, CI n s -> lim s = Highest n -> lo <= hi -> idx_ok lo -> idx_ok hi ->
  exists s1, extend_range grow true s lo hi = Some s1 /\ hext_post n s lo hi s1.
Proof. exact extend_range_high. Qed.
Print Assumptions C05_high_extend_range.

(* ================= IV: AddWithCount refines the stepwise clamp ================= *)
Theorem C05_low_add_with_count :
  forall grow, grow_ok grow -> forall n, 1 <= n ->
  forall s i c, CI n s -> lim s = Lowest n -> idx_ok i -> (w0 <= c)%Qc ->
  exists s', add_with_count grow true s i c = Some s' /\ CI n s' /\ lim s' = Lowest n /\
             dabs s' = sadd (Lowest n) (dabs s) i c.
Proof. exact add_with_count_low0. Qed.
Print Assumptions C05_low_add_with_count.
Theorem C05_high_add_with_count :
  forall grow, grow_ok grow -> forall n, 1 <= n ->
  forall s i c, CI n s -> lim s = Highest n -> idx_ok i -> (w0 <= c)%Qc ->
  exists s', add_with_count grow true s i c = Some s' /\ CI n s' /\ lim s' = Highest n /\
             dabs s' = sadd (Highest n) (dabs s) i c.
Proof. exact add_with_count_high0. Qed.
Print Assumptions C05_high_add_with_count.

Theorem C05_add_with_count_zero : forall grow fx s i, add_with_count grow fx s i w0 = Some s.
Proof. exact add_with_count_zero_c. Qed.
Print Assumptions C05_add_with_count_zero.

(* after ANY sequence of additions from a new store: the content is the clamp of the exact content,
   no weight is lost, the array never exceeds n cells and the content never exceeds n bins *)
Theorem C05_low_history_is_clamp :
  forall grow, grow_ok grow -> forall n, 1 <= n ->
  forall l, bins_ok l ->
  exists s, add_list grow true (new_dense (Lowest n)) l = Some s /\ CI n s /\ lim s = Lowest n /\
            dabs s = clamp_low n (bins_of_list l) /\ total (dabs s) = total l /\
            Z.of_nat (length (bins s)) <= n /\ Z.of_nat (length (dabs s)) <= n.
Proof. exact history_is_clamp_low. Qed.
Print Assumptions C05_low_history_is_clamp.
Theorem C05_high_history_is_clamp :
  forall grow, grow_ok grow -> forall n, 1 <= n ->
  forall l, bins_ok l ->
  exists s, add_list grow true (new_dense (Highest n)) l = Some s /\ CI n s /\ lim s = Highest n /\
            dabs s = clamp_high n (bins_of_list l) /\ total (dabs s) = total l /\
            Z.of_nat (length (bins s)) <= n /\ Z.of_nat (length (dabs s)) <= n.
Proof. exact history_is_clamp_high. Qed.
Print Assumptions C05_high_history_is_clamp.

(* ================= V: bounds, for every state satisfying the invariant ================= *)
Theorem C05_bounds :
  forall n s, CI n s ->
  Z.of_nat (length (bins s)) <= n /\ (count s <> w0 -> maxI s - minI s + 1 <= n) /\
  Z.of_nat (length (dabs s)) <= Z.max 0 n /\ total (dabs s) = count s.
Proof. exact ci_bounds. Qed.
Print Assumptions C05_bounds.

(* ================= VI: MergeWith ================= *)
(* same Go type (fast path): the argument may have ANY capacity (in particular a wider one) and
   the receiver may be empty or cleared *)
Theorem C05_low_merge_same :
  forall grow, grow_ok grow -> forall n, 1 <= n ->
  forall s o, CI n s -> lim s = Lowest n -> WInv o -> count o <> w0 ->
  exists s', merge_same grow true s o = Some s' /\ CI n s' /\ lim s' = Lowest n /\
             dabs s' = clamp_low n (bmerge (dabs s) (dabs o)).
Proof. exact merge_same_low. Qed.
Print Assumptions C05_low_merge_same.
Theorem C05_high_merge_same :
  forall grow, grow_ok grow -> forall n, 1 <= n ->
  forall s o, CI n s -> lim s = Highest n -> WInv o -> count o <> w0 ->
  exists s', merge_same grow true s o = Some s' /\ CI n s' /\ lim s' = Highest n /\
             dabs s' = clamp_high n (bmerge (dabs s) (dabs o)).
Proof. exact merge_same_high. Qed.
Print Assumptions C05_high_merge_same.

(* the generic path: a sequence of AddWithCount *)
Theorem C05_low_add_list :
  forall grow, grow_ok grow -> forall n, 1 <= n ->
  forall l s, CI n s -> lim s = Lowest n -> bins_ok l ->
  exists s', add_list grow true s l = Some s' /\ CI n s' /\ lim s' = Lowest n /\
             dabs s' = smerge_list (Lowest n) (dabs s) l.
Proof. exact add_list_low. Qed.
Print Assumptions C05_low_add_list.
Theorem C05_high_add_list :
  forall grow, grow_ok grow -> forall n, 1 <= n ->
  forall l s, CI n s -> lim s = Highest n -> bins_ok l ->
  exists s', add_list grow true s l = Some s' /\ CI n s' /\ lim s' = Highest n /\
             dabs s' = smerge_list (Highest n) (dabs s) l.
Proof. exact add_list_high. Qed.
Print Assumptions C05_high_add_list.

(* MergeWith, ANY member of the dense family as the argument (DenseStore, lowest- or
   highest-collapsing with any capacity), through whichever path the Go code takes *)
Theorem C05_low_merge :
  forall grow, grow_ok grow -> forall n, 1 <= n ->
  forall s o, CI n s -> lim s = Lowest n -> WInv o ->
  exists s', merge_dense grow true s o = Some s' /\ CI n s' /\ lim s' = Lowest n /\
             dabs s' = norm (Lowest n) (bmerge (dabs s) (dabs o)).
Proof. exact merge_dense_low. Qed.
Print Assumptions C05_low_merge.
Theorem C05_low_merge_stepwise :
  forall grow, grow_ok grow -> forall n, 1 <= n ->
  forall s o, CI n s -> lim s = Lowest n -> WInv o ->
  exists s', merge_dense grow true s o = Some s' /\ CI n s' /\ lim s' = Lowest n /\
             dabs s' = smerge_list (Lowest n) (dabs s) (dabs o).
Proof. exact merge_dense_low_stepwise. Qed.
Print Assumptions C05_low_merge_stepwise.
Theorem C05_high_merge :
  forall grow, grow_ok grow -> forall n, 1 <= n ->
  forall s o, CI n s -> lim s = Highest n -> WInv o ->
  exists s', merge_dense grow true s o = Some s' /\ CI n s' /\ lim s' = Highest n /\
             dabs s' = norm (Highest n) (bmerge (dabs s) (dabs o)).
Proof. exact merge_dense_high. Qed.
Print Assumptions C05_high_merge.
Theorem C05_high_merge_stepwise :
  forall grow, grow_ok grow -> forall n, 1 <= n ->
  forall s o, CI n s -> lim s = Highest n -> WInv o ->
  exists s', merge_dense grow true s o = Some s' /\ CI n s' /\ lim s' = Highest n /\
             dabs s' = smerge_list (Highest n) (dabs s) (dabs o).
Proof. exact merge_dense_high_stepwise. Qed.
Print Assumptions C05_high_merge_stepwise.

(* ================= VII: observers, Reweight, Clear (both kinds) ================= *)
Theorem C05_foreach : forall n s, CI n s -> foreach s = Some (dabs s).
Proof. exact foreach_ci. Qed.
Print Assumptions C05_foreach.
Theorem C05_foreach_abs : forall n s, CI n s -> exists l, foreach s = Some l /\ bins_of_list l = dabs s.
Proof. exact foreach_abs_ci. Qed.
Print Assumptions C05_foreach_abs.
(* any rank, negative or beyond the total included *)
Theorem C05_key_at_rank :
  forall n s r, CI n s -> count s <> w0 -> key_at_rank (dabs s) r = Some (key_at_rank_d s r).
Proof. exact key_at_rank_ci. Qed.
Print Assumptions C05_key_at_rank.
Theorem C05_total : forall n s, CI n s -> total_d s = total (dabs s).
Proof. exact total_ci. Qed.
Print Assumptions C05_total.
Theorem C05_is_empty : forall n s, CI n s -> is_empty s = is_emptyb (dabs s).
Proof. exact is_empty_ci. Qed.
Print Assumptions C05_is_empty.
Theorem C05_min_index : forall n s, CI n s -> min_index_d s = min_key (dabs s).
Proof. exact min_index_ci. Qed.
Print Assumptions C05_min_index.
Theorem C05_max_index : forall n s, CI n s -> max_index_d s = max_key (dabs s).
Proof. exact max_index_ci. Qed.
Print Assumptions C05_max_index.

(* Reweight scales the content; it commutes with the clamp (C05_history_* below use it) *)
Theorem C05_reweight :
  forall n s w, CI n s -> (w0 < w)%Qc ->
  exists s', reweight_d s w = Some (Some s') /\ CI n s' /\ lim s' = lim s /\ collapsed s' = collapsed s /\
             dabs s' = bscale w (dabs s).
Proof. exact reweight_ci. Qed.
Print Assumptions C05_reweight.
Theorem C05_reweight_commutes_low :
  forall n f b, (w0 < f)%Qc -> clamp_low n (bscale f b) = bscale f (clamp_low n b).
Proof. exact clamp_low_bscale. Qed.
Print Assumptions C05_reweight_commutes_low.
Theorem C05_reweight_commutes_high :
  forall n f b, (w0 < f)%Qc -> clamp_high n (bscale f b) = bscale f (clamp_high n b).
Proof. exact clamp_high_bscale. Qed.
Print Assumptions C05_reweight_commutes_high.

(* Clear resets isCollapsed *)
Theorem C05_clear :
  forall n s, 0 <= n ->
  CI n (clear_d s) /\ lim (clear_d s) = lim s /\ collapsed (clear_d s) = false /\ dabs (clear_d s) = [].
Proof. exact clear_ci. Qed.
Print Assumptions C05_clear.

(* ================= histories ================= *)
(* op = OAdd i c | OClear | OReweight w | OMerge o (DenseProofs.op); cop_ok: int32 index and c >= 0,
   w > 0, WInv o; run = the store; arun = the same history on an exact (never collapsing) Layer A
   content (badd0, [], bscale, bmerge).  After ANY history the content is the clamp of the exact
   content of that history and no weight was lost. *)
Theorem C05_low_history :
  forall grow, grow_ok grow -> forall n, 1 <= n ->
  forall ops, Forall cop_ok ops ->
  exists s, run grow true (new_dense (Lowest n)) ops = Some s /\ CI n s /\ lim s = Lowest n /\
            dabs s = clamp_low n (arun [] ops) /\ total (dabs s) = total (arun [] ops).
Proof. exact history_low. Qed.
Print Assumptions C05_low_history.
Theorem C05_high_history :
  forall grow, grow_ok grow -> forall n, 1 <= n ->
  forall ops, Forall cop_ok ops ->
  exists s, run grow true (new_dense (Highest n)) ops = Some s /\ CI n s /\ lim s = Highest n /\
            dabs s = clamp_high n (arun [] ops) /\ total (dabs s) = total (arun [] ops).
Proof. exact history_high. Qed.
Print Assumptions C05_high_history.

(* a cleared store cannot be told from a new one: no earlier collapsed state (nor the retained
   offset) leaks into any later history *)
Theorem C05_low_clear_like_new :
  forall grow, grow_ok grow -> forall n, 1 <= n ->
  forall s ops, lim s = Lowest n -> Forall cop_ok ops ->
  exists s1 s2, run grow true (clear_d s) ops = Some s1 /\
                run grow true (new_dense (Lowest n)) ops = Some s2 /\
                CI n s1 /\ CI n s2 /\ dabs s1 = dabs s2.
Proof. exact clear_like_new_low. Qed.
Print Assumptions C05_low_clear_like_new.
Theorem C05_high_clear_like_new :
  forall grow, grow_ok grow -> forall n, 1 <= n ->
  forall s ops, lim s = Highest n -> Forall cop_ok ops ->
  exists s1 s2, run grow true (clear_d s) ops = Some s1 /\
                run grow true (new_dense (Highest n)) ops = Some s2 /\
                CI n s1 /\ CI n s2 /\ dabs s1 = dabs s2.
Proof. exact clear_like_new_high. Qed.
Print Assumptions C05_high_clear_like_new.

(* ================= concrete stores: the hypotheses are not vacuous ================= *)
Lemma grow63_ok : grow_ok grow63.
Proof. intros d. unfold grow63. lia. Qed.

Definition ones (a b : Z) : list (Z * W) := map (fun k => (k, w1)) (zrange a b).
Definition getd (o : option dense) : dense := match o with Some s => s | None => new_dense Exact end.
Definition same_bins (o : option dense) (b : list (Z * W)) : bool :=
  match o with Some s => bins_eqb (dabs s) b | None => false end.
Definition checked (n : Z) (o : option dense) : bool :=
  match o with Some s => ci_checkb n s | None => false end.

(* stores of capacity 64 (and a plain one) holding one unit at each of the indexes 0..11 *)
Definition argL : dense := getd (add_list grow63 true (new_dense (Lowest 64)) (ones 0 11)).
Definition argH : dense := getd (add_list grow63 true (new_dense (Highest 64)) (ones 0 11)).
Definition argE : dense := getd (add_list grow63 true (new_dense Exact) (ones 0 11)).
Example argL_built : add_list grow63 true (new_dense (Lowest 64)) (ones 0 11) = Some argL.
Proof. vm_compute. reflexivity. Qed.
Example argH_built : add_list grow63 true (new_dense (Highest 64)) (ones 0 11) = Some argH.
Proof. vm_compute. reflexivity. Qed.
Example argE_built : add_list grow63 true (new_dense Exact) (ones 0 11) = Some argE.
Proof. vm_compute. reflexivity. Qed.
Example args_inv : (ci_checkb 64 argL && ci_checkb 64 argH && inv_checkb argE)%bool = true.
Proof. vm_compute. reflexivity. Qed.
Example argL_content : bins_eqb (dabs argL) (ones 0 11) = true.
Proof. vm_compute. reflexivity. Qed.

Definition low_expected : list (Z * W) := (4, w_of_Z 5) :: ones 5 11.
Definition high_expected : list (Z * W) := ones 0 6 ++ [(7, w_of_Z 5)].
Example low_expected_is_clamp : bins_eqb (clamp_low 8 (dabs argL)) low_expected = true.
Proof. vm_compute. reflexivity. Qed.
Example high_expected_is_clamp : bins_eqb (clamp_high 8 (dabs argH)) high_expected = true.
Proof. vm_compute. reflexivity. Qed.

(* THE REFUTATION WITNESS (defect D1): before the repair of adjust, merging a store wider than the
   capacity into an empty receiver of the same type panics ... *)
Example merge_into_empty_refuted_legacy :
  merge_dense grow63 false (new_dense (Lowest 8)) argL = None.
Proof. vm_compute. reflexivity. Qed.
Example merge_into_empty_refuted_legacy_high :
  merge_dense grow63 false (new_dense (Highest 8)) argH = None.
Proof. vm_compute. reflexivity. Qed.
(* ... and so does merging into a cleared receiver ... *)
Definition usedL : dense := getd (add_list grow63 true (new_dense (Lowest 8)) (ones 100 120)).
Example usedL_inv : (ci_checkb 8 usedL && collapsed usedL)%bool = true.
Proof. vm_compute. reflexivity. Qed.
Example merge_into_cleared_refuted_legacy :
  merge_dense grow63 false (clear_d usedL) argL = None.
Proof. vm_compute. reflexivity. Qed.
(* ... while the current code gives the clamped content, within the capacity *)
Example merge_into_empty_fixed :
  let r := merge_dense grow63 true (new_dense (Lowest 8)) argL in
  (same_bins r low_expected && checked 8 r && (zlen (bins (getd r)) =? 8))%bool = true.
Proof. vm_compute. reflexivity. Qed.
Example merge_into_empty_fixed_high :
  let r := merge_dense grow63 true (new_dense (Highest 8)) argH in
  (same_bins r high_expected && checked 8 r && (zlen (bins (getd r)) =? 8))%bool = true.
Proof. vm_compute. reflexivity. Qed.
Example merge_into_cleared_fixed :
  let r := merge_dense grow63 true (clear_d usedL) argL in
  (same_bins r low_expected && checked 8 r)%bool = true.
Proof. vm_compute. reflexivity. Qed.
(* cross-kind arguments take the ForEach + AddWithCount path *)
Example merge_cross_kind :
  (same_bins (merge_dense grow63 true (new_dense (Lowest 8)) argE) low_expected &&
   same_bins (merge_dense grow63 true (new_dense (Lowest 8)) argH) low_expected &&
   same_bins (merge_dense grow63 true (new_dense (Highest 8)) argL) high_expected)%bool = true.
Proof. vm_compute. reflexivity. Qed.

(* additions: capacity 4, indexes 10..14 (collapse), then 5 (below the edge), then 13 *)
Definition ex_adds : list (Z * W) :=
  [(10, w1); (11, w1); (12, w1); (13, w1); (14, w1); (5, w_of_Z 3); (13, w1)].
Example adds_low :
  let r := add_list grow63 true (new_dense (Lowest 4)) ex_adds in
  (same_bins r [(11, w_of_Z 5); (12, w1); (13, w_of_Z 2); (14, w1)] && checked 4 r)%bool = true.
Proof. vm_compute. reflexivity. Qed.
Example adds_high :
  let r := add_list grow63 true (new_dense (Highest 4)) ex_adds in
  (same_bins r [(5, w_of_Z 3); (8, w_of_Z 6)] && checked 4 r)%bool = true.
Proof. vm_compute. reflexivity. Qed.
Example adds_low_is_clamp :
  bins_eqb (clamp_low 4 (bins_of_list ex_adds)) [(11, w_of_Z 5); (12, w1); (13, w_of_Z 2); (14, w1)] = true.
Proof. vm_compute. reflexivity. Qed.
