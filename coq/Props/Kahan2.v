(* Props/Kahan2 — follow-up to Props/Kahan: Reweight / Rescale, histories of Add / Merge / Reweight / Rescale,
   and the overflow fallback of Sum(), on the bit-exact binary64 model (SK.Stat.Summary).  Statements only;
   proofs: SK.Stat.KahanProofs2.  Conventions of Props/Kahan: a state stands for real_sum = sum - comp.

   Reading aid (local notations unfold to Flocq / Summary terms; the history vocabulary is defined in
   KahanProofs2 section 5/6 and repeated here):
     finite, val, rnd, u = 2^-53, eta = 2^-1075, alpha = 2u + 5u^2, real_sum s, well_formed s   as in Props/Kahan
     scaled s s' f       s' = su_reweight s f \/ s' = su_rescale s f     (both multiply sum and comp by f separately)
     fop                 FAdd v w | FReweight f | FRescale f;  su_history ops = the operations applied to su_new
     hist_ideal ops      the same history in exact arithmetic: Add adds val v * val w, a scaling multiplies by val f
     hist_mag ops        idem on absolute values: Add adds |val v * val w|, a scaling multiplies by |val f|
     hist_uflow ops      absolute (underflow) slack W: Add: (1 + alpha) W + 2 eta;  scaling: |val f| (1 + 3u) W + 2 eta
     hist_scales ops     number of scalings;   length ops = number of operations
     tracks s I G E C    |real_sum s - I| <= E, |comp s| <= C, |I| <= G   (sum, comp are floats)

   1. Scaling (K2_scale): real_sum' = rnd(sum f) - rnd(comp f), |real_sum' - f real_sum| <= u |f| (|sum| + |comp|) + 2 eta
      (constant c = 1), exact for a power of two when neither product underflows (K2_scale_pow2_exact).
      well_formed (|comp| <= 2u |sum|) is NOT preserved: the true invariant is two-parameter,
          |comp| <= k u |sum| + e,
      every Add / Merge re-establishes (k, e) = (2, 0) from ANY state of floats (K_step / K_merge),
      a scaling maps (k, e) to (k (1 + 3u), (1 + u) |f| e + 2 eta)   (K2_scale_wfK; from (2, 0): K2_scale_wf).
      The additive e is genuinely needed: comp f can round up on the subnormal grid while sum f does not.
   2. Histories.  Composable per-operation rules K2_track_new / add / scale / merge / sum: each maps (I, G, E, C)
      by explicit formulas, side condition = the outcome is finite.  Closed form for Add + Reweight + Rescale
      (K2_history): with N operations of which S scalings, theta = (2S + 20) u and (N + 1) theta <= 1/4,
          |Sum() - ideal| <= (8 + S + (3N + 3) theta) u mag + 4 uflow.
      Compared with the test oracle (5 + 2 #scale + 2 #merge): a = 8 (5 is not proved, see Props/Kahan),
      b = 1 per scaling (the oracle's 2 is safe), and per merge the rule K2_track_merge gives, to first order,
      E' = E + Eo + 2 Co + alpha (Go + ...) with Co <= (2u+..) Go: c = 6 u Go on top of the merged summary's own
      error (the oracle's 2 is NOT covered by this analysis; the sign of MergeWith costs 4 of the 6).
      No closed form is given for histories with merges (tree-shaped); the rules compose mechanically.
   3. Overflow fallback: if simpleSum is +Inf and the sum field is +Inf or NaN then Sum() = +Inf (K2_sum_pinf, and
      K2_sum_ninf); Sum() is never NaN while simpleSum is infinite (K2_sum_not_nan); the situation persists under
      further Adds (K2_overflow_persists); with finite non-negative products the sum field can only be finite,
      +Inf or NaN (K2_nonneg_never_ninf), hence K2_overflow_fallback.  Not claimed: that the compensated and the
      simple sum overflow at the same step (they need not: near the threshold one can overflow without the
      other; if only simpleSum overflowed Sum() returns the finite compensated value, if only the compensated sum
      overflowed and a further Add turns it into NaN, Sum() returns NaN -- simpleSum is then finite). *)
From Coq Require Import Bool NArith ZArith QArith Qcanon Qcabs Reals List Lia Lra.
From Flocq Require Import Core.Core IEEE754.BinarySingleNaN IEEE754.Binary IEEE754.Bits.
From SK Require Import Base.Prelude Base.F64 Base.F64Proofs Stat.Summary Mapping.Glue Mapping.GlueProofs Stat.KahanProofs Stat.KahanProofs2.
Import ListNotations.
Local Open Scope R_scope.

Local Notation finite x := (is_finite 53 1024 x = true).
Local Notation val x := (B2R 53 1024 x).
Local Notation rnd r := (round radix2 (FLT_exp (-1074) 53) ZnearestE r).
Local Notation representable r := (generic_format radix2 (FLT_exp (-1074) 53) r).
Local Notation u := (bpow radix2 (-53)).
Local Notation eta := (bpow radix2 (-1075)).
Local Notation alpha := (2 * u + 5 * u ^ 2).
Local Notation real_sum s := (val (su_sum s) - val (su_comp s)).
Local Notation well_formed s :=
  ((finite (su_sum s) /\ finite (su_comp s)) /\ Rabs (val (su_comp s)) <= 2 * u * Rabs (val (su_sum s))).
Local Notation scaled s s' f := (s' = su_reweight s f \/ s' = su_rescale s f).
Local Notation tracks s I G E C :=
  (representable (val (su_sum s)) /\ representable (val (su_comp s)) /\
   Rabs (real_sum s - I) <= E /\ Rabs (val (su_comp s)) <= C /\ Rabs I <= G).
Local Notation add_list s l := (fold_left (fun (s0 : summary) (vw : f64 * f64) => su_add s0 (fst vw) (snd vw)) l s).
Local Notation products_f l := (map (fun vw : f64 * f64 => fmul (fst vw) (snd vw)) l).
Local Notation pinf_or_nan x := (x = f64_pinf \/ f_is_nan x = true).
Local Notation ninf_or_nan x := (x = f64_ninf \/ f_is_nan x = true).

(* ------------------------------------------------------------------ *)
(* 1  Reweight / Rescale                                               *)
(* ------------------------------------------------------------------ *)
Theorem K2_scale (s s' : summary) (f : f64) : scaled s s' f -> finite (su_sum s') -> finite (su_comp s') ->
  su_sum s' = fmul (su_sum s) f /\ su_comp s' = fmul (su_comp s) f /\
  val (su_sum s') = rnd (val (su_sum s) * val f) /\ val (su_comp s') = rnd (val (su_comp s) * val f) /\
  Rabs (real_sum s' - val f * real_sum s) <=
    u * Rabs (val f) * (Rabs (val (su_sum s)) + Rabs (val (su_comp s))) + 2 * eta /\
  Rabs (val (su_comp s')) <= (1 + u) * Rabs (val f) * Rabs (val (su_comp s)) + eta.
Proof. exact (su_scale_summary s s' f). Qed.
Print Assumptions K2_scale.

Theorem K2_scale_pow2_exact (s s' : summary) (f : f64) (e : Z) : scaled s s' f ->
  finite (su_sum s') -> finite (su_comp s') -> val f = bpow radix2 e ->
  (val (su_sum s) = 0 \/ bpow radix2 (-1022) <= Rabs (val (su_sum s) * bpow radix2 e)) ->
  (val (su_comp s) = 0 \/ bpow radix2 (-1022) <= Rabs (val (su_comp s) * bpow radix2 e)) ->
  val (su_sum s') = val (su_sum s) * bpow radix2 e /\ val (su_comp s') = val (su_comp s) * bpow radix2 e /\
  real_sum s' = bpow radix2 e * real_sum s.
Proof. exact (su_scale_pow2_summary s s' f e). Qed.
Print Assumptions K2_scale_pow2_exact.

(* the two-parameter invariant |comp| <= k u |sum| + e under a scaling *)
Theorem K2_scale_wfK (s s' : summary) (f : f64) (k e : R) : 0 <= k -> k * u <= / 2 -> 0 <= e ->
  (representable (val (su_sum s)) /\ representable (val (su_comp s)) /\
   Rabs (val (su_comp s)) <= k * u * Rabs (val (su_sum s)) + e) ->
  scaled s s' f -> finite (su_sum s') /\ finite (su_comp s') ->
  representable (val (su_sum s')) /\ representable (val (su_comp s')) /\
  Rabs (val (su_comp s')) <= k * (1 + 3 * u) * u * Rabs (val (su_sum s')) + ((1 + u) * Rabs (val f) * e + 2 * eta).
Proof. exact (su_scale_wfK s s' f k e). Qed.
Print Assumptions K2_scale_wfK.

Theorem K2_scale_wf (s s' : summary) (f : f64) : well_formed s -> scaled s s' f ->
  finite (su_sum s') /\ finite (su_comp s') ->
  Rabs (val (su_comp s')) <= 2 * (1 + 3 * u) * u * Rabs (val (su_sum s')) + 2 * eta.
Proof. exact (su_scale_wf s s' f). Qed.
Print Assumptions K2_scale_wf.

(* ------------------------------------------------------------------ *)
(* 2  histories: composable rules, and the closed form for Add + scalings *)
(* ------------------------------------------------------------------ *)
Theorem K2_track_new : tracks su_new 0 0 0 0.
Proof. exact tracks_new. Qed.
Print Assumptions K2_track_new.

Theorem K2_track_add (s : summary) (v w : f64) (I G E C : R) : tracks s I G E C ->
  finite (su_sum (su_add s v w)) /\ finite (su_comp (su_add s v w)) ->
  let q := val v * val w in
  let E' := E + alpha * (Rabs (val (fmul v w)) + C) + u * Rabs q + eta in
  tracks (su_add s v w) (I + q) (G + Rabs q) E' (alpha * (G + Rabs q + E')).
Proof. exact (tracks_add s v w I G E C). Qed.
Print Assumptions K2_track_add.

Theorem K2_track_scale (s s' : summary) (f : f64) (I G E C : R) : tracks s I G E C -> scaled s s' f ->
  finite (su_sum s') /\ finite (su_comp s') ->
  tracks s' (val f * I) (Rabs (val f) * G)
    (Rabs (val f) * E + u * Rabs (val f) * (G + E + 2 * C) + 2 * eta) ((1 + u) * Rabs (val f) * C + eta).
Proof. exact (tracks_scale s s' f I G E C). Qed.
Print Assumptions K2_track_scale.

Theorem K2_track_merge (s o : summary) (I G E C Io Go Eo Co : R) : tracks s I G E C -> tracks o Io Go Eo Co ->
  finite (su_sum (su_merge s o)) /\ finite (su_comp (su_merge s o)) ->
  let So := Go + Eo + Co in
  let D1 := alpha * (So + C) in
  let C1 := alpha * (G + E + So + D1) in
  let D2 := alpha * (Co + C1) in
  let E' := E + Eo + 2 * Co + D1 + D2 in
  tracks (su_merge s o) (I + Io) (G + Go) E' (alpha * (G + Go + E')).
Proof. exact (tracks_merge s o I G E C Io Go Eo Co). Qed.
Print Assumptions K2_track_merge.

Theorem K2_track_sum (s : summary) (I G E C : R) : tracks s I G E C -> finite (fadd (su_sum s) (su_comp s)) ->
  Rabs (val (su_get_sum s) - I) <= E + 2 * C + u * (G + E + 2 * C).
Proof. exact (tracks_sum s I G E C). Qed.
Print Assumptions K2_track_sum.

Theorem K2_history (ops : list fop) :
  let s := su_history ops in
  let N := INR (length ops) in
  let S := INR (hist_scales ops) in
  let theta := (2 * S + 20) * u in
  finite (fadd (su_sum s) (su_comp s)) -> (N + 1) * theta <= / 4 ->
  su_get_sum s = fadd (su_sum s) (su_comp s) /\
  Rabs (val (su_get_sum s) - hist_ideal ops) <=
    (8 + S + (3 * N + 3) * theta) * u * hist_mag ops + 4 * hist_uflow ops.
Proof. exact (su_history_err ops). Qed.
Print Assumptions K2_history.

(* ------------------------------------------------------------------ *)
(* 3  the overflow fallback of Sum()                                   *)
(* ------------------------------------------------------------------ *)
Theorem K2_sum_pinf (s : summary) : su_simple s = f64_pinf -> pinf_or_nan (su_sum s) -> su_get_sum s = f64_pinf.
Proof. exact (su_get_sum_pinf s). Qed.
Print Assumptions K2_sum_pinf.

Theorem K2_sum_ninf (s : summary) : su_simple s = f64_ninf -> ninf_or_nan (su_sum s) -> su_get_sum s = f64_ninf.
Proof. exact (su_get_sum_ninf s). Qed.
Print Assumptions K2_sum_ninf.

Theorem K2_sum_not_nan (s : summary) : f_is_inf (su_simple s) = true -> f_is_nan (su_get_sum s) = false.
Proof. exact (su_get_sum_not_nan s). Qed.
Print Assumptions K2_sum_not_nan.

Theorem K2_overflow_persists (l : list (f64 * f64)) (s : summary) :
  su_simple s = f64_pinf /\ pinf_or_nan (su_sum s) ->
  Forall (fun vw : f64 * f64 => finite (fmul (fst vw) (snd vw)) \/ fmul (fst vw) (snd vw) = f64_pinf) l ->
  su_get_sum (add_list s l) = f64_pinf.
Proof. exact (overflowed_pos_add_list l s). Qed.
Print Assumptions K2_overflow_persists.

Theorem K2_nonneg_never_ninf (l : list (f64 * f64)) :
  Forall (fun p : f64 => finite p) (products_f l) -> Forall (fun p : f64 => 0 <= val p) (products_f l) ->
  (Z.of_nat (length l) <= 2 ^ 50)%Z ->
  let s := add_list su_new l in
  (finite (su_sum s) /\ finite (su_comp s)) \/ pinf_or_nan (su_sum s).
Proof. exact (su_nonneg_never_ninf l). Qed.
Print Assumptions K2_nonneg_never_ninf.

Theorem K2_overflow_fallback (l : list (f64 * f64)) :
  Forall (fun p : f64 => finite p) (products_f l) -> Forall (fun p : f64 => 0 <= val p) (products_f l) ->
  (Z.of_nat (length l) <= 2 ^ 50)%Z ->
  let s := add_list su_new l in
  su_simple s = f64_pinf -> is_finite 53 1024 (su_sum s) = false -> su_get_sum s = f64_pinf.
Proof. exact (su_overflow_fallback l). Qed.
Print Assumptions K2_overflow_fallback.

(* ------------------------------------------------------------------ *)
(* examples                                                            *)
(* ------------------------------------------------------------------ *)
Definition y_one : f64 := fb 0x3FF0000000000000.
Definition y_1e16 : f64 := fb 0x4341C37937E08000.
Definition y_1e308 : f64 := fb 0x7FE1CCF385EBC8A0.
Definition y_12e307 : f64 := fb 0x7FE55C576D815726.       (* 1.2e308 *)
Definition y_42 : f64 := fb 0x4045000000000000.
Definition y_tenth : f64 := fb 0x3FB999999999999A.        (* 0.1 *)
Definition y_three : f64 := fb 0x4008000000000000.
Definition y_third : f64 := fb 0x3FD5555555555555.
Definition y_m7e5 : f64 := fb 0xC1255CC000000000.         (* -700000 *)
Definition y_1p : f64 := fb 0x3FF0000000000001.           (* 1 + 2^-52 *)
Definition y_2m53 : f64 := fb 0x3CA0000000000000.         (* 2^-53 *)
Definition y_tiny : f64 := fb 0x0018000000000000.         (* 1.5 * 2^-1022 *)
Definition y_two : f64 := B754_finite 53 1024 false 4503599627370496%positive (-51) eq_refl.

(* the fallback: 1e308 + 1.2e308 + 42.  After the second Add sum = +Inf, comp = +Inf; after the third both are NaN,
   sum + comp is NaN, simpleSum is +Inf, and Sum() returns +Inf *)
Definition l_over : list (f64 * f64) := [(y_1e308, y_one); (y_12e307, y_one); (y_42, y_one)].
Example E2_overflow_state :
  let s := add_list su_new l_over in
  (f_is_nan (su_sum s), f_is_nan (su_comp s), f_is_nan (fadd (su_sum s) (su_comp s)), bits_of_f64 (su_simple s),
   bits_of_f64 (su_get_sum s)) = (true, true, true, 0x7FF0000000000000%N, 0x7FF0000000000000%N).
Proof. vm_compute. reflexivity. Qed.
Example E2_overflow_two :
  let s := add_list su_new [(y_1e308, y_one); (y_12e307, y_one)] in
  (bits_of_f64 (su_sum s), bits_of_f64 (su_comp s), bits_of_f64 (su_get_sum s))
  = (0x7FF0000000000000%N, 0x7FF0000000000000%N, 0x7FF0000000000000%N).
Proof. vm_compute. reflexivity. Qed.
Example E2_overflow_negative :
  bits_of_f64 (su_get_sum (add_list su_new [(fb 0xFFE1CCF385EBC8A0, y_one); (fb 0xFFE55C576D815726, y_one); (y_42, y_one)]))
  = 0xFFF0000000000000%N.
Proof. vm_compute. reflexivity. Qed.
(* the same outcome through the theorem: its premises hold for this list *)
Example E2_overflow_by_theorem : su_get_sum (add_list su_new l_over) = f64_pinf.
Proof.
  destruct (nonneg_b_ok (products_f l_over)) as (F & P); [vm_compute; reflexivity|].
  apply (K2_overflow_fallback l_over F P); [vm_compute; discriminate|vm_compute; reflexivity|vm_compute; reflexivity].
Qed.

(* a state with a non-zero compensation: sum = 1e16, comp = -1 *)
Definition s_k : summary := add_list su_new [(y_1e16, y_one); (y_one, y_one)].

Example E2_scale_premises :
  let s' := su_reweight s_k y_tenth in
  Rabs (real_sum s' - val y_tenth * real_sum s_k) <=
    u * Rabs (val y_tenth) * (Rabs (val (su_sum s_k)) + Rabs (val (su_comp s_k))) + 2 * eta.
Proof.
  intros s'.
  destruct (K2_scale s_k s' y_tenth) as (_ & _ & _ & _ & H & _);
    [left; reflexivity|vm_compute; reflexivity|vm_compute; reflexivity|exact H].
Qed.

Lemma val_y_two : val y_two = bpow radix2 1.
Proof.
  change (val y_two) with (IZR 4503599627370496 * bpow radix2 (-51)).
  change (IZR 4503599627370496) with (bpow radix2 52). rewrite <- bpow_plus. reflexivity.
Qed.
Lemma val_y_one : val y_one = 1.
Proof. exact f64_one_BR. Qed.

Example E2_pow2_premises : real_sum (su_rescale s_k y_two) = bpow radix2 1 * real_sum s_k.
Proof.
  assert (L : forall x : f64, finite x -> abs_ge_b x y_one = true ->
              val x = 0 \/ bpow radix2 (-1022) <= Rabs (val x * bpow radix2 1)).
  { intros x Fx H. right. pose proof (abs_ge_b_ok x y_one eq_refl Fx H) as G. rewrite val_y_one in G.
    rewrite Rabs_mult, (Rabs_pos_eq (bpow radix2 1)) by apply bpow_ge_0.
    assert (bpow radix2 (-1022) <= 1) by (change 1 with (bpow radix2 0); apply bpow_le; lia).
    change (bpow radix2 1) with 2. lra. }
  destruct (K2_scale_pow2_exact s_k (su_rescale s_k y_two) y_two 1) as (_ & _ & H);
    [right; reflexivity|vm_compute; reflexivity|vm_compute; reflexivity|exact val_y_two| | |exact H].
  - apply L; vm_compute; reflexivity.
  - apply L; vm_compute; reflexivity.
Qed.

(* well_formed is not preserved by a scaling that underflows: sum = 1 + 2^-51, comp = 2^-52 scaled by 1.5 * 2^-1022
   gives comp' = 2^-1073 > 2u sum' (exact rational arithmetic on the denoted values) *)
Example E2_wf_not_preserved :
  let s := add_list su_new [(y_2m53, y_one); (y_1p, y_one)] in
  let s' := su_reweight s y_tiny in
  (wleb (Qcabs (f2q (su_comp s))) (Q2Qc (2 # 2 ^ 53) * Qcabs (f2q (su_sum s)))%Qc,
   wltb (Q2Qc (2 # 2 ^ 53) * Qcabs (f2q (su_sum s')))%Qc (Qcabs (f2q (su_comp s')))) = (true, true).
Proof. vm_compute. reflexivity. Qed.

(* a history with two scalings *)
Definition ops_one : list fop :=
  [FAdd y_third y_1p; FAdd y_m7e5 y_third; FReweight y_tenth; FAdd y_1e16 y_one; FRescale y_three; FAdd y_one y_one].

Example E2_history_premises :
  Rabs (val (su_get_sum (su_history ops_one)) - hist_ideal ops_one) <=
    (8 + 2 + (3 * 6 + 3) * ((2 * 2 + 20) * u)) * u * hist_mag ops_one + 4 * hist_uflow ops_one.
Proof.
  destruct (K2_history ops_one) as (_ & H).
  - vm_compute. reflexivity.
  - assert (E1 : INR (length ops_one) = 6) by (unfold ops_one; cbn [length INR]; lra).
    assert (E2 : hist_scales ops_one = 2%nat) by reflexivity.
    rewrite E1, E2. cbn [INR]. pose proof u53_bounds. lra.
  - assert (E1 : INR (length ops_one) = 6) by (unfold ops_one; cbn [length INR]; lra).
    assert (E2 : hist_scales ops_one = 2%nat) by reflexivity.
    rewrite E1, E2 in H. cbn [INR] in H. replace (1 + 1) with 2 in H by lra. exact H.
Qed.
