(* Refinement keystones: final statements only.  Every proof is a reference to
   Store/AnyProofs.v (Part 1, axiom-free) or Sketch/RefineProofs.v (Part 2; the statements that
   compare floats depend on the four stdlib real-number axioms Flocq brings, nothing else).

   Part 1: the five store kinds behind the one interface of Store/Any.v, with the EXECUTABLE
           policies plugged in (grow63, pgrow8, worth32, x_full, x_visit, ZSort.sort), refine the
           Layer A stores of Spec/Bins.v.
   Part 2: the executable sketch (Sketch/Sketch.v) refines the Layer A sketch (Spec/ASketch.v), so
           the Layer A theorems (C01 accuracy, C02 mergeability, C12, C16 ...) apply to the model
           that is run against the Go code.

   Vocabulary (restated below as checked equations):
     StInv s      representation invariant of whichever kind s is
     st_kind s    kind of s (Go type and capacity); kind_limit / kind_ok: its limit, capacity >= 1
     keys_ok b    every key of b is an int32
     sop / st_step / st_run / abs_step / abs_run   store histories and their Layer A image
     sk_abs, am_of, SkInv, sk_lp, sk_ln, sk_same, mt_ok
     kop / sk_step / sk_run / a_step / a_run       sketch histories and their Layer A image
   Option / result values: [None], [RPanic] = the Go code would panic; "exists s', f .. = Some s'"
   is the no-panic statement. *)
From Coq Require Import Permutation Sorted Qcabs.
From SK Require Import Spec.Bins Spec.BinsProofs Spec.ASketch Base.F64 Store.Any Store.AnyProofs
                       Store.DenseProofs Store.CollapsingProofs Store.PaginatedProofs
                       Stat.Summary Sketch.Sketch Sketch.SketchProofs Sketch.RankProofs Sketch.RefineProofs.
Local Open Scope Z_scope.

(* ---------------- vocabulary ---------------- *)
Example keys_ok_def b : keys_ok b = (forall k w, In (k, w) b -> idx_ok k) := eq_refl.
Example StInv_def s :
  StInv s = match s with
            | SD d => match lim d with
                      | Exact => DenseProofs.Inv d
                      | Lowest n => 1 <= n /\ CI n d
                      | Highest n => 1 <= n /\ CI n d
                      end
            | SS m => wf m = true /\ BinsProofs.pos m /\ keys_ok m
            | SP p => PInv p
            end := eq_refl.
Example st_kind_def s :
  st_kind s = match s with
              | SD d => match lim d with Exact => KDense | Lowest n => KLow n | Highest n => KHigh n end
              | SS _ => KSparse | SP _ => KPag end := eq_refl.
Example kind_limit_def k :
  kind_limit k = match k with KLow n => Lowest n | KHigh n => Highest n | _ => Exact end := eq_refl.
Example kind_ok_def k : kind_ok k = match k with KLow n => 1 <= n | KHigh n => 1 <= n | _ => True end := eq_refl.
Example sop_ok_def x :
  sop_ok x = match x with
             | OpAddW i c => idx_ok i /\ (w0 <= c)%Qc | OpAdd i => idx_ok i | OpMerge o => StInv o
             | OpReweight w => (w0 < w)%Qc | _ => True end := eq_refl.
Example st_step_def s x :
  st_step s x = match x with
                | OpAddW i c => st_addw s i c
                | OpAdd i => st_add s i
                | OpMerge o => option_map fst (st_merge s o)
                | OpReweight w => match st_reweight s w with RwOk s' => Some s' | _ => None end
                | OpClear => Some (st_clear s)
                | OpForeach => option_map fst (st_foreach s)
                | OpKeyAtRank r => Some (fst (st_key_at_rank s r))
                | OpCopy => Some (st_copy s)
                end := eq_refl.
Example abs_step_def l b x :
  abs_step l b x = match x with
                   | OpAddW i c => sadd l b i c | OpAdd i => sadd l b i w1
                   | OpMerge o => smerge_list l b (st_abs o)
                   | OpReweight w => bscale w b | OpClear => [] | _ => b end := eq_refl.
Example st_run_def s ops :
  st_run s ops = fold_left (fun acc x => match acc with Some s' => st_step s' x | None => None end) ops (Some s)
  := eq_refl.
Example abs_run_def l b ops : abs_run l b ops = fold_left (abs_step l) ops b := eq_refl.
Example sk_abs_def s :
  sk_abs s = {| a_pos := st_abs (sk_pos s); a_neg := st_abs (sk_neg s); a_zero := sk_zero s |} := eq_refl.
Example am_of_def mt :
  am_of mt = {| am_index := mt_index mt; am_value := mt_value mt;
                am_min := f2q (mt_min mt); am_max := f2q (mt_max mt) |} := eq_refl.
Example SkInv_def s : SkInv s = (StInv (sk_pos s) /\ StInv (sk_neg s) /\ (w0 <= sk_zero s)%Qc) := eq_refl.
Example sk_lp_def s : sk_lp s = st_limit (sk_pos s) := eq_refl.
Example sk_ln_def s : sk_ln s = st_limit (sk_neg s) := eq_refl.
Example sk_same_def s s' :
  sk_same s s' = (sk_map s' = sk_map s /\ st_kind (sk_pos s') = st_kind (sk_pos s) /\
                  st_kind (sk_neg s') = st_kind (sk_neg s)) := eq_refl.
Example mt_ok_def mt :
  mt_ok mt = (f_is_finite (mt_min mt) = true /\ f_is_finite (mt_max mt) = true /\
              forall x : Qc, (f2q (mt_min mt) < x)%Qc -> (x <= f2q (mt_max mt))%Qc -> idx_ok (mt_index mt x))
  := eq_refl.
Example kop_ok_def m x :
  kop_ok m x = match x with
               | KAdd v c => f_is_finite v = true /\ f_is_finite c = true /\ (w0 <= f2q c)%Qc
               | KMerge o => SkInv o /\ map_equals m (sk_map o) = true
               | KReweight w => f_is_finite w = true /\ fle w f64_zero = false
               | _ => True end := eq_refl.
Example sk_step_def rnd fx mt s x :
  sk_step rnd fx mt s x =
  match x with
  | KAdd v c => match plain_add mt s v c with ROk s' => Some s' | RErr _ => Some s | RPanic => None end
  | KMerge o => match sk_merge s o with ROk (s', _) => Some s' | _ => None end
  | KReweight w => match sk_reweight s w with ROk s' => Some s' | _ => None end
  | KClear => Some (sk_clear s)
  | KQuantile q => Some (fst (plain_quantile rnd fx mt s q))
  | KForeach => option_map fst (sk_foreach mt s)
  | KCopy => Some (sk_copy s)
  end := eq_refl.
Example a_step_def m lp ln a x :
  a_step m lp ln a x =
  match x with
  | KAdd v c => match a_add m lp ln a (f2q v) (f2q c) with AAdded a' => a' | _ => a end
  | KMerge o => a_merge lp ln a (sk_abs o)
  | KReweight w => a_reweight (f2q w) a
  | KClear => a_new
  | _ => a
  end := eq_refl.
Example a_run_def m lp ln a ops : a_run m lp ln a ops = fold_left (a_step m lp ln) ops a := eq_refl.

(* ================================================================== *)
(* Part 1: stores                                                      *)
(* ================================================================== *)
Theorem Rf_StInv_new : forall k, kind_ok k -> StInv (st_new k) /\ st_kind (st_new k) = k /\ st_abs (st_new k) = [].
Proof. exact st_new_spec. Qed.
Print Assumptions Rf_StInv_new.

(* the abstraction is the canonical positive content: dabs / the map itself / pabs *)
Theorem Rf_st_abs_spec :
  forall s, StInv s ->
  st_abs s = match s with SD d => dabs d | SS m => m | SP p => pabs p end /\
  wf (st_abs s) = true /\ BinsProofs.pos (st_abs s) /\ keys_ok (st_abs s).
Proof. exact st_abs_spec. Qed.
Print Assumptions Rf_st_abs_spec.

Theorem Rf_st_abs_normalised : forall s, StInv s -> norm (st_limit s) (st_abs s) = st_abs s.
Proof. exact st_abs_norm. Qed.
Print Assumptions Rf_st_abs_normalised.

(* AddWithCount / Add never panic on an int32 index and a weight >= 0 *)
Theorem Rf_st_addw :
  forall s i c, StInv s -> idx_ok i -> (w0 <= c)%Qc ->
  exists s', st_addw s i c = Some s' /\ StInv s' /\ st_kind s' = st_kind s /\
             st_abs s' = sadd (st_limit s) (st_abs s) i c.
Proof. exact st_addw_spec. Qed.
Print Assumptions Rf_st_addw.

Theorem Rf_st_add :
  forall s i, StInv s -> idx_ok i ->
  exists s', st_add s i = Some s' /\ StInv s' /\ st_kind s' = st_kind s /\
             st_abs s' = sadd (st_limit s) (st_abs s) i w1.
Proof. exact st_add_spec. Qed.
Print Assumptions Rf_st_add.

Theorem Rf_st_observers :
  forall s, StInv s ->
  st_total s = total (st_abs s) /\ st_is_empty s = is_emptyb (st_abs s) /\
  st_min s = min_key (st_abs s) /\ st_max s = max_key (st_abs s).
Proof. exact st_observers_spec. Qed.
Print Assumptions Rf_st_observers.

Theorem Rf_st_foreach :
  forall s, StInv s ->
  exists s' l, st_foreach s = Some (s', l) /\ StInv s' /\ st_kind s' = st_kind s /\
               st_abs s' = st_abs s /\ l = st_abs s /\ bins_of_list l = st_abs s.
Proof. exact st_foreach_spec. Qed.
Print Assumptions Rf_st_foreach.

(* any rank, negative or beyond the total included *)
Theorem Rf_st_key_at_rank :
  forall s r, StInv s ->
  exists s' k, st_key_at_rank s r = (s', k) /\ StInv s' /\ st_kind s' = st_kind s /\
               st_abs s' = st_abs s /\ (st_abs s <> [] -> key_at_rank (st_abs s) r = Some k).
Proof. exact st_key_at_rank_spec. Qed.
Print Assumptions Rf_st_key_at_rank.

Theorem Rf_st_add_list :
  forall l s, StInv s -> bins_ok l ->
  exists s', st_add_list s l = Some s' /\ StInv s' /\ st_kind s' = st_kind s /\
             st_abs s' = smerge_list (st_limit s) (st_abs s) l.
Proof. exact st_add_list_spec. Qed.
Print Assumptions Rf_st_add_list.

(* MergeWith: all 25 pairs of kinds, through whichever path the code takes *)
Theorem Rf_st_merge :
  forall s o, StInv s -> StInv o ->
  exists s' o', st_merge s o = Some (s', o') /\
    StInv s' /\ StInv o' /\ st_kind s' = st_kind s /\ st_kind o' = st_kind o /\
    st_abs s' = smerge_list (st_limit s) (st_abs s) (st_abs o) /\ st_abs o' = st_abs o.
Proof. exact st_merge_spec. Qed.
Print Assumptions Rf_st_merge.

Theorem Rf_st_merge_norm :
  forall s o, StInv s -> StInv o ->
  exists s' o', st_merge s o = Some (s', o') /\
    StInv s' /\ StInv o' /\ st_kind s' = st_kind s /\ st_kind o' = st_kind o /\
    st_abs s' = norm (st_limit s) (bmerge (st_abs s) (st_abs o)) /\ st_abs o' = st_abs o.
Proof. exact st_merge_norm. Qed.
Print Assumptions Rf_st_merge_norm.

Theorem Rf_st_reweight :
  forall s w, StInv s -> (w0 < w)%Qc ->
  exists s', st_reweight s w = RwOk s' /\ StInv s' /\ st_kind s' = st_kind s /\
             st_abs s' = bscale w (st_abs s).
Proof. exact st_reweight_spec. Qed.
Print Assumptions Rf_st_reweight.
Theorem Rf_st_reweight_refused : forall s w, (w <= w0)%Qc -> st_reweight s w = RwRefused.
Proof. exact AnyProofs.st_reweight_refused. Qed.
Print Assumptions Rf_st_reweight_refused.
Theorem Rf_st_reweight_one : forall s, st_reweight s w1 = RwOk s.
Proof. exact st_reweight_one. Qed.
Print Assumptions Rf_st_reweight_one.

Theorem Rf_st_clear :
  forall s, StInv s -> StInv (st_clear s) /\ st_kind (st_clear s) = st_kind s /\ st_abs (st_clear s) = [].
Proof. exact st_clear_spec. Qed.
Print Assumptions Rf_st_clear.
Theorem Rf_st_clear_like_new :
  forall s l, StInv s -> bins_ok l ->
  exists s1 s2, st_add_list (st_clear s) l = Some s1 /\ st_add_list (st_new (st_kind s)) l = Some s2 /\
                StInv s1 /\ StInv s2 /\ st_kind s1 = st_kind s /\ st_kind s2 = st_kind s /\
                st_abs s1 = st_abs s2.
Proof. exact st_clear_like_new. Qed.
Print Assumptions Rf_st_clear_like_new.
Theorem Rf_st_copy : forall s, st_copy s = s.
Proof. exact st_copy_spec. Qed.
Print Assumptions Rf_st_copy.

(* every store reachable from a new one *)
Theorem Rf_st_reachable :
  forall k ops, kind_ok k -> Forall sop_ok ops ->
  exists s, st_run (st_new k) ops = Some s /\ StInv s /\ st_kind s = k /\
            st_abs s = abs_run (kind_limit k) [] ops.
Proof. exact st_reachable. Qed.
Print Assumptions Rf_st_reachable.
Theorem Rf_st_reads_pure :
  forall s x, StInv s -> sop_is_read x = true ->
  exists s', st_step s x = Some s' /\ StInv s' /\ st_kind s' = st_kind s /\ st_abs s' = st_abs s.
Proof. exact st_reads_pure. Qed.
Print Assumptions Rf_st_reads_pure.
Theorem Rf_st_clear_then_history :
  forall s ops, StInv s -> Forall sop_ok ops ->
  exists s1 s2, st_run (st_clear s) ops = Some s1 /\ st_run (st_new (st_kind s)) ops = Some s2 /\
                StInv s1 /\ StInv s2 /\ st_kind s1 = st_kind s /\ st_kind s2 = st_kind s /\
                st_abs s1 = st_abs s2.
Proof. exact st_clear_then_history. Qed.
Print Assumptions Rf_st_clear_then_history.

(* ================================================================== *)
(* Part 2: sketch                                                      *)
(* ================================================================== *)
Theorem Rf_sk_new :
  forall m kp kn exact, kind_ok kp -> kind_ok kn ->
  SkInv (sk_new m kp kn exact) /\ sk_abs (sk_new m kp kn exact) = a_new.
Proof. exact sk_new_spec. Qed.
Print Assumptions Rf_sk_new.
(* the invariant gives the well-formedness premise of every Layer A theorem *)
Theorem Rf_SkInv_awf : forall s, SkInv s -> awf (sk_abs s).
Proof. exact SkInv_awf. Qed.
Print Assumptions Rf_SkInv_awf.

(* binary64 < on finite arguments is < on the exact values *)
Theorem Rf_flt_iff :
  forall a b, f_is_finite a = true -> f_is_finite b = true -> (flt a b = true <-> (f2q a < f2q b)%Qc).
Proof. exact flt_iff. Qed.
Print Assumptions Rf_flt_iff.

Theorem Rf_plain_count : forall s, SkInv s -> plain_count s = a_count (sk_abs s).
Proof. exact plain_count_refines. Qed.
Print Assumptions Rf_plain_count.
Theorem Rf_plain_is_empty : forall s, SkInv s -> plain_is_empty s = a_is_empty (sk_abs s).
Proof. exact plain_is_empty_refines. Qed.
Print Assumptions Rf_plain_is_empty.

(* AddWithCount on a finite value x with a finite weight cq >= 0 *)
Theorem Rf_plain_add :
  forall mt s v c x cq,
  mt_ok mt -> SkInv s -> f2v v = FFin x -> f2v c = FFin cq -> (w0 <= cq)%Qc ->
  match a_add (am_of mt) (sk_lp s) (sk_ln s) (sk_abs s) x cq with
  | AAdded a' => exists s', plain_add mt s v c = ROk s' /\ SkInv s' /\ sk_same s s' /\ sk_abs s' = a' /\
                            sk_stats s' = sk_stats s
  | ATooHigh => plain_add mt s v c = RErr ETooHigh
  | ATooLow => plain_add mt s v c = RErr ETooLow
  end.
Proof. exact plain_add_refines_fv. Qed.
Print Assumptions Rf_plain_add.
Theorem Rf_plain_add_no_panic :
  forall mt s v c,
  mt_ok mt -> SkInv s -> f_is_finite v = true -> f_is_finite c = true -> (w0 <= f2q c)%Qc ->
  plain_add mt s v c <> RPanic.
Proof. exact plain_add_no_panic. Qed.
Print Assumptions Rf_plain_add_no_panic.
Theorem Rf_plain_add_too_high_iff :
  forall mt s v c,
  mt_ok mt -> SkInv s -> f_is_finite v = true -> f_is_finite c = true -> (w0 <= f2q c)%Qc ->
  (plain_add mt s v c = RErr ETooHigh <->
   a_add (am_of mt) (sk_lp s) (sk_ln s) (sk_abs s) (f2q v) (f2q c) = ATooHigh).
Proof. exact plain_add_too_high_iff. Qed.
Print Assumptions Rf_plain_add_too_high_iff.
Theorem Rf_plain_add_too_low_iff :
  forall mt s v c,
  mt_ok mt -> SkInv s -> f_is_finite v = true -> f_is_finite c = true -> (w0 <= f2q c)%Qc ->
  (plain_add mt s v c = RErr ETooLow <->
   a_add (am_of mt) (sk_lp s) (sk_ln s) (sk_abs s) (f2q v) (f2q c) = ATooLow).
Proof. exact plain_add_too_low_iff. Qed.
Print Assumptions Rf_plain_add_too_low_iff.
(* the variant with exact summary statistics, repaired weight-0 shortcut *)
Theorem Rf_sk_add :
  forall fx mt s v c unit,
  fD7 fx = true -> mt_ok mt -> SkInv s -> f_is_finite v = true -> f_is_finite c = true -> (w0 <= f2q c)%Qc ->
  match a_add (am_of mt) (sk_lp s) (sk_ln s) (sk_abs s) (f2q v) (f2q c) with
  | AAdded a' => exists s', sk_add fx mt s v c unit = ROk s' /\ SkInv s' /\ sk_same s s' /\ sk_abs s' = a'
  | ATooHigh => sk_add fx mt s v c unit = RErr ETooHigh
  | ATooLow => sk_add fx mt s v c unit = RErr ETooLow
  end.
Proof. exact sk_add_refines. Qed.
Print Assumptions Rf_sk_add.

(* GetValueAtQuantile: repaired code, q in [0, 1] as tested by the code, non-empty sketch.
   Layer A is None only when the rank arithmetic sends the query to an empty positive store *)
Theorem Rf_plain_quantile :
  forall rnd fx mt s q,
  fD4 fx = true -> fD5 fx = true -> SkInv s ->
  fle f64_zero q = true -> fle q f64_one = true -> plain_count s <> w0 ->
  exists s' y, plain_quantile rnd fx mt s q = (s', ROk y) /\ SkInv s' /\ sk_same s s' /\ sk_abs s' = sk_abs s /\
    match a_quantile rnd (am_of mt) (sk_abs s) (f2q q) with
    | Some y' => y' = y
    | None => st_abs (sk_pos s) = []
    end.
Proof. exact plain_quantile_refines. Qed.
Print Assumptions Rf_plain_quantile.
(* under the premises of C12_quantile_some both sides answer the same value *)
Theorem Rf_plain_quantile_some :
  forall rnd fx mt s q,
  (forall x y : Qc, (x <= y)%Qc -> (rnd x <= rnd y)%Qc) -> rnd w0 = w0 -> (forall x : Qc, rnd (rnd x) = rnd x) ->
  fD4 fx = true -> fD5 fx = true -> SkInv s ->
  fle f64_zero q = true -> fle q f64_one = true -> plain_count s <> w0 ->
  (w0 < rnd (plain_count s))%Qc -> (rnd (wsub (plain_count s) w1) < rnd (plain_count s))%Qc ->
  exists s' y, plain_quantile rnd fx mt s q = (s', ROk y) /\ SkInv s' /\ sk_same s s' /\ sk_abs s' = sk_abs s /\
               a_quantile rnd (am_of mt) (sk_abs s) (f2q q) = Some y.
Proof. exact plain_quantile_refines_some. Qed.
Print Assumptions Rf_plain_quantile_some.
(* whatever the flags, the argument and the outcome, the sketch handed back is the same abstractly *)
Theorem Rf_plain_quantile_pure :
  forall rnd fx mt s q, SkInv s ->
  SkInv (fst (plain_quantile rnd fx mt s q)) /\ sk_same s (fst (plain_quantile rnd fx mt s q)) /\
  sk_abs (fst (plain_quantile rnd fx mt s q)) = sk_abs s /\
  sk_stats (fst (plain_quantile rnd fx mt s q)) = sk_stats s /\
  sk_zero (fst (plain_quantile rnd fx mt s q)) = sk_zero s.
Proof. exact plain_quantile_pure. Qed.
Print Assumptions Rf_plain_quantile_pure.

(* C01 carried to the executable model *)
Theorem Rf_executable_quantile_selects_order_statistic :
  forall (rnd : Qc -> Qc) (fx : fixes) (mt : mtable) (B : Z) (m : mapid) (kp kn : kind) (exact : bool)
         (vs : list f64) (ys : list Qc) (q : f64),
  (forall x y : Qc, (x <= y)%Qc -> (rnd x <= rnd y)%Qc) ->
  (forall z : Z, Z.abs z <= B -> rnd (inj z) = inj z) ->
  mt_ok mt -> (w0 <= f2q (mt_min mt))%Qc ->
  (forall x y : Qc, (f2q (mt_min mt) < x)%Qc -> (x <= y)%Qc -> (y <= f2q (mt_max mt))%Qc -> mt_index mt x <= mt_index mt y) ->
  kind_limit kp = Exact -> kind_limit kn = Exact ->
  fD4 fx = true -> fD5 fx = true ->
  Forall (fun v => f_is_finite v = true) vs ->
  (forall v, In v vs -> (Qcabs (f2q v) <= f2q (mt_max mt))%Qc) ->
  Permutation (map f2q vs) ys -> Sorted Qcle ys -> vs <> [] -> Z.of_nat (length vs) <= B ->
  fle f64_zero q = true -> fle q f64_one = true ->
  exists s, plain_add_units mt (sk_new m kp kn exact) vs = ROk s /\ SkInv s /\
  exists (k : nat) s',
    cfloor (f2q q * inj (Z.of_nat (length vs) - 1)) <= Z.of_nat k <= cceil (f2q q * inj (Z.of_nat (length vs) - 1)) /\
    (k < length vs)%nat /\
    plain_quantile rnd fx mt s q = (s', ROk (repr (am_of mt) (nth k ys w0))) /\
    SkInv s' /\ sk_abs s' = sk_abs s.
Proof. exact executable_quantile_selects_order_statistic. Qed.
Print Assumptions Rf_executable_quantile_selects_order_statistic.

Theorem Rf_plain_max : forall mt s, SkInv s -> plain_max mt s = res_of_opt (a_max (am_of mt) (sk_abs s)).
Proof. exact plain_max_refines. Qed.
Print Assumptions Rf_plain_max.
Theorem Rf_plain_min : forall mt s, SkInv s -> plain_min mt s = res_of_opt (a_min (am_of mt) (sk_abs s)).
Proof. exact plain_min_refines. Qed.
Print Assumptions Rf_plain_min.

(* ForEach: exactly the Layer A items, in the same order *)
Theorem Rf_sk_foreach :
  forall mt s, SkInv s ->
  exists s', sk_foreach mt s = Some (s', a_items (am_of mt) (sk_abs s)) /\
             SkInv s' /\ sk_same s s' /\ sk_abs s' = sk_abs s /\ sk_stats s' = sk_stats s.
Proof. exact sk_foreach_refines. Qed.
Print Assumptions Rf_sk_foreach.

Theorem Rf_sk_merge :
  forall s o, SkInv s -> SkInv o -> map_equals (sk_map s) (sk_map o) = true ->
  exists s' o', sk_merge s o = ROk (s', o') /\ SkInv s' /\ SkInv o' /\ sk_same s s' /\ sk_same o o' /\
    sk_abs s' = a_merge (sk_lp s) (sk_ln s) (sk_abs s) (sk_abs o) /\ sk_abs o' = sk_abs o.
Proof. exact sk_merge_refines. Qed.
Print Assumptions Rf_sk_merge.

Theorem Rf_sk_reweight :
  forall s w, SkInv s -> f_is_finite w = true -> fle w f64_zero = false ->
  exists s', sk_reweight s w = ROk s' /\ SkInv s' /\ sk_same s s' /\
             sk_abs s' = a_reweight (f2q w) (sk_abs s).
Proof. exact sk_reweight_refines. Qed.
Print Assumptions Rf_sk_reweight.

Theorem Rf_sk_clear :
  forall s, SkInv s -> SkInv (sk_clear s) /\ sk_same s (sk_clear s) /\ sk_abs (sk_clear s) = a_new.
Proof. exact sk_clear_refines. Qed.
Print Assumptions Rf_sk_clear.

(* histories *)
Theorem Rf_sketch_history_refines :
  forall rnd fx mt m kp kn exact ops,
  mt_ok mt -> kind_ok kp -> kind_ok kn -> Forall (kop_ok m) ops ->
  exists s, sk_run rnd fx mt (sk_new m kp kn exact) ops = Some s /\ SkInv s /\ awf (sk_abs s) /\
            sk_map s = m /\ st_kind (sk_pos s) = kp /\ st_kind (sk_neg s) = kn /\
            sk_abs s = a_run (am_of mt) (kind_limit kp) (kind_limit kn) a_new ops.
Proof. exact sketch_history_refines. Qed.
Print Assumptions Rf_sketch_history_refines.
Theorem Rf_sk_run_from :
  forall rnd fx mt ops s,
  mt_ok mt -> SkInv s -> Forall (kop_ok (sk_map s)) ops ->
  exists s', sk_run rnd fx mt s ops = Some s' /\ SkInv s' /\ sk_same s s' /\
             sk_abs s' = a_run (am_of mt) (sk_lp s) (sk_ln s) (sk_abs s) ops.
Proof. exact sk_run_spec. Qed.
Print Assumptions Rf_sk_run_from.
(* C14 at sketch level *)
Theorem Rf_sk_reads_pure :
  forall rnd fx mt s x,
  mt_ok mt -> SkInv s -> kop_is_read x = true ->
  exists s', sk_step rnd fx mt s x = Some s' /\ SkInv s' /\ sk_same s s' /\ sk_abs s' = sk_abs s.
Proof. exact sk_reads_pure. Qed.
Print Assumptions Rf_sk_reads_pure.
(* C15 at sketch level *)
Theorem Rf_sk_clear_then_history :
  forall rnd fx mt s exact ops,
  mt_ok mt -> SkInv s -> Forall (kop_ok (sk_map s)) ops ->
  exists s1 s2, sk_run rnd fx mt (sk_clear s) ops = Some s1 /\
                sk_run rnd fx mt (sk_new (sk_map s) (st_kind (sk_pos s)) (st_kind (sk_neg s)) exact) ops = Some s2 /\
                SkInv s1 /\ SkInv s2 /\ sk_same s s1 /\ sk_same s s2 /\ sk_abs s1 = sk_abs s2.
Proof. exact sk_clear_then_history. Qed.
Print Assumptions Rf_sk_clear_then_history.

(* ================================================================== *)
(* Concrete runs: one store of each kind, the hypotheses are not vacuous *)
(* ================================================================== *)
Definition rf_f (b : N) : f64 := f64_of_bits b.
Definition rf_2p5 := rf_f 4612811918334230528.     (* 2.5 *)
Definition rf_2 := rf_f 4611686018427387904.       (* 2 *)
Definition rf_half := rf_f 4602678819172646912.    (* 0.5 *)
Definition rf_7 := rf_f 4619567317775286272.       (* 7 *)
Definition rf_100 := rf_f 4636737291354636288.     (* 100 *)
Definition rf_m3 := rf_f 13837309855095848960.     (* -3 *)
Definition rf_m40 := rf_f 13854198353698488320.    (* -40 *)
Definition rf_2048 := rf_f 4656722014701092864.    (* 2048: too high *)
Definition rf_m2048 := rf_f 13880094051555868672.  (* -2048: too low *)
(* floor as the index, indexable range (2^-10, 1024] *)
Definition rf_mt : mtable :=
  {| mt_index := fun q => Qnum (this q) / Zpos (Qden (this q)); mt_value := fun i => w_of_Z (Z.max 1 i);
     mt_min := rf_f 4562146422526312448; mt_max := rf_f 4652218415073722368 |}.
Definition rf_map : mapid := {| mk_kind := 0%N; mk_gamma := f64_one; mk_off := f64_zero |}.

Example rf_values :
  map (fun v => this (f2q v)) [rf_2p5; rf_2; rf_half; rf_7; rf_100; rf_m3; rf_m40; rf_2048; rf_m2048; mt_min rf_mt; mt_max rf_mt]
  = [5 # 2; 2 # 1; 1 # 2; 7 # 1; 100 # 1; -3 # 1; -40 # 1; 2048 # 1; -2048 # 1; 1 # 1024; 1024 # 1]%Q.
Proof. vm_compute. reflexivity. Qed.

Lemma rf_mt_ok : mt_ok rf_mt.
Proof.
  split; [vm_compute; reflexivity|]. split; [vm_compute; reflexivity|].
  assert (Emin : f2q (mt_min rf_mt) = Q2Qc (1 # 1024)) by (apply Qc_is_canon; vm_compute; reflexivity).
  assert (Emax : f2q (mt_max rf_mt) = Q2Qc (1024 # 1)) by (apply Qc_is_canon; vm_compute; reflexivity).
  rewrite Emin, Emax. intros x Hlo Hhi. cbn [rf_mt mt_index].
  unfold Qclt, Qcle in Hlo, Hhi. change (this (Q2Qc (1 # 1024))) with (1 # 1024)%Q in Hlo.
  change (this (Q2Qc (1024 # 1))) with (1024 # 1)%Q in Hhi.
  unfold Qlt in Hlo. unfold Qle in Hhi. cbn [Qnum Qden] in Hlo, Hhi.
  set (n := Qnum (this x)) in *. set (d := Qden (this x)) in *.
  assert (H0 : 0 <= n / Z.pos d) by (apply Z.div_pos; lia).
  assert (H1 : n / Z.pos d <= 1024) by (apply Z.div_le_upper_bound; lia).
  unfold idx_ok, MinInt32, MaxInt32. lia.
Qed.

(* an argument sketch for MergeWith: paginated positive store, dense negative store *)
Definition rf_arg_ops : list kop := [KAdd rf_7 f64_one; KAdd rf_7 rf_2; KAdd rf_100 f64_one; KAdd rf_m3 rf_half].
Definition rf_getk (o : option sketch) : sketch := match o with Some s => s | None => sk_new rf_map KSparse KSparse false end.
Definition rf_arg : sketch := rf_getk (sk_run rnd64 fx_all rf_mt (sk_new rf_map KPag KDense false) rf_arg_ops).

(* a history using every operation: accepted and rejected values, zero bucket, merge, reweight,
   quantile, foreach, clear, further additions *)
Definition rf_ops : list kop :=
  [KAdd rf_2p5 f64_one; KAdd rf_2048 f64_one; KAdd rf_m2048 f64_one; KAdd rf_m3 rf_2; KAdd f64_zero rf_half;
   KAdd rf_100 rf_2; KAdd rf_7 f64_one; KAdd rf_m40 f64_one; KQuantile rf_half; KMerge rf_arg; KForeach;
   KReweight rf_2p5; KQuantile f64_one; KAdd rf_2 f64_one; KCopy].
Definition rf_ops2 : list kop := rf_ops ++ [KClear; KAdd rf_7 rf_2; KMerge rf_arg; KQuantile f64_zero].

Definition rf_check (kp kn : kind) (ops : list kop) : bool :=
  match sk_run rnd64 fx_all rf_mt (sk_new rf_map kp kn false) ops with
  | Some s => asketch_eqb (sk_abs s) (a_run (am_of rf_mt) (kind_limit kp) (kind_limit kn) a_new ops)
              && awfb (sk_abs s)
  | None => false
  end.
(* by computation: the run does not panic and its abstraction is the Layer A run, for the five kinds *)
Example rf_runs_agree :
  forallb (fun kk => rf_check (fst kk) (snd kk) rf_ops && rf_check (fst kk) (snd kk) rf_ops2)
          [(KDense, KSparse); (KSparse, KPag); (KPag, KLow 2); (KLow 2, KHigh 2); (KHigh 3, KDense)] = true.
Proof. vm_compute. reflexivity. Qed.
(* the collapsing stores did collapse, the others did not *)
Example rf_contents :
  let show (s : asketch) := (map (fun kw => (fst kw, this (snd kw))) (a_pos s),
                             map (fun kw => (fst kw, this (snd kw))) (a_neg s), this (a_zero s)) in
  (show (sk_abs (rf_getk (sk_run rnd64 fx_all rf_mt (sk_new rf_map KDense KSparse false) rf_ops))),
   show (sk_abs (rf_getk (sk_run rnd64 fx_all rf_mt (sk_new rf_map (KLow 2) (KHigh 2) false) rf_ops))))
  = (([(2, Qmake 7 2); (7, Qmake 10 1); (100, Qmake 15 2)], [(3, Qmake 25 4); (40, Qmake 5 2)], Qmake 5 4),
     ([(99, Qmake 27 2); (100, Qmake 15 2)], [(3, Qmake 25 4); (4, Qmake 5 2)], Qmake 5 4)).
Proof. vm_compute. reflexivity. Qed.
(* quantiles on the executable model and on Layer A *)
Example rf_quantiles :
  let s := rf_getk (sk_run rnd64 fx_all rf_mt (sk_new rf_map KPag (KHigh 2) false) rf_ops) in
  forallb (fun q => match snd (plain_quantile rnd64 fx_all rf_mt s q) with
                    | ROk y => oq_eqb (a_quantile rnd64 (am_of rf_mt) (sk_abs s) (f2q q)) (Some y)
                    | _ => false end)
          [f64_zero; rf_half; f64_one] = true.
Proof. vm_compute. reflexivity. Qed.

(* and through the theorems *)
Lemma rf_arg_ops_ok : Forall (kop_ok rf_map) rf_arg_ops.
Proof.
  repeat constructor; try (vm_compute; reflexivity); apply BinsProofs.wleb_le; vm_compute; reflexivity.
Qed.
Lemma rf_arg_inv : SkInv rf_arg /\ sk_map rf_arg = rf_map.
Proof.
  destruct (Rf_sketch_history_refines rnd64 fx_all rf_mt rf_map KPag KDense false rf_arg_ops rf_mt_ok I I rf_arg_ops_ok)
    as (s & E & Is & _ & M & _).
  unfold rf_arg. rewrite E. cbn [rf_getk]. auto.
Qed.
Lemma rf_ops_ok : Forall (kop_ok rf_map) rf_ops2.
Proof.
  destruct rf_arg_inv as [Ia Ma].
  assert (Hm : SkInv rf_arg /\ map_equals rf_map (sk_map rf_arg) = true).
  { split; [exact Ia|]. rewrite Ma. vm_compute. reflexivity. }
  unfold rf_ops2, rf_ops. cbn [app].
  repeat (constructor; [first [exact I | exact Hm
                              | split; [vm_compute; reflexivity|]; first [vm_compute; reflexivity
                                  | split; [vm_compute; reflexivity|apply BinsProofs.wleb_le; vm_compute; reflexivity]]]|]).
  constructor.
Qed.
Example rf_by_theorem :
  forall kp kn, kind_ok kp -> kind_ok kn ->
  exists s, sk_run rnd64 fx_all rf_mt (sk_new rf_map kp kn false) rf_ops2 = Some s /\ SkInv s /\ awf (sk_abs s) /\
            sk_abs s = a_run (am_of rf_mt) (kind_limit kp) (kind_limit kn) a_new rf_ops2.
Proof.
  intros kp kn Hp Hn.
  destruct (Rf_sketch_history_refines rnd64 fx_all rf_mt rf_map kp kn false rf_ops2 rf_mt_ok Hp Hn rf_ops_ok)
    as (s & E & Is & Aw & _ & _ & _ & A).
  exists s. auto.
Qed.
Print Assumptions rf_by_theorem.
