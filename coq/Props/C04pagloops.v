(* C04, buffered paginated store: the LOOPS of MinIndex, MaxIndex and minIndexWithCumulCount / KeyAtRank
   (ddsketch/store/buffered_paginated.go) transcribed one by one in Store/PaginatedLoops.v
   (buffer scan, page loop with its early exit on the page of the buffered extreme, line loop cut at
   the line of that extreme, 64-bit wrap-around of the loop bound in the sentinel state
   minPage = MaxInt64; merged walk over the sorted buffer and ALL cells, zero cells included, one
   buffered entry at a time) compute the same results as the scan-based observers of
   Store/Paginated.v, which C04pag.v relates to the Layer A content [pabs s].
   Final statements only; every proof is a reference to Store/PaginatedLoopsProofs.v.
     PInv s    representation invariant of Store/PaginatedProofs.v
     sort_ok   [sort] returns a sorted permutation of its argument (sort.Ints) *)
From Coq Require Import Sorting.Sorted Permutation.
From SK Require Import Spec.BinsProofs Store.Paginated Store.PaginatedLoops Store.PaginatedProofs
                       Store.PaginatedLoopsProofs Store.Any Props.C04pag.
Local Open Scope Z_scope.

(* ---------------- MinIndex ---------------- *)
Theorem C04pl_min : forall s, PInv s -> p_min_go s = min_key (pabs s).
Proof. exact p_min_go_spec. Qed.
Print Assumptions C04pl_min.

(* the same, spelled out on the content function: the answer has content and nothing below it has;
   no answer iff the store has no content at all *)
Theorem C04pl_min_content :
  forall s, PInv s ->
  match p_min_go s with
  | Some k => pget s k <> w0 /\ forall j, j < k -> pget s j = w0
  | None => forall j, pget s j = w0
  end.
Proof. exact p_min_go_content. Qed.
Print Assumptions C04pl_min_content.

(* ---------------- MaxIndex ---------------- *)
Theorem C04pl_max : forall s, PInv s -> p_max_go s = max_key (pabs s).
Proof. exact p_max_go_spec. Qed.
Print Assumptions C04pl_max.

Theorem C04pl_max_content :
  forall s, PInv s ->
  match p_max_go s with
  | Some k => pget s k <> w0 /\ forall j, k < j -> pget s j = w0
  | None => forall j, pget s j = w0
  end.
Proof. exact p_max_go_content. Qed.
Print Assumptions C04pl_max_content.

(* ---------------- KeyAtRank, every rank ---------------- *)
(* the store returned is the argument with its buffer sorted (sortBuffer); the key is the one the
   scan-based model returns *)
Theorem C04pl_key_at_rank :
  forall sort, sort_ok sort -> forall s r, PInv s ->
  p_key_at_rank_go sort s r = (with_buffer s (sort (buffer s)), snd (p_key_at_rank sort s r)).
Proof. intros; eapply p_key_at_rank_go_spec; eauto. Qed.
Print Assumptions C04pl_key_at_rank.

(* and directly against Layer A: key_at_rank of the content (negative ranks clamp to 0, ranks >= the
   total fall back to the maximum index: see key_at_rank_spec, key_at_rank_neg, key_at_rank_ge_total
   in Spec/BinsProofs.v), 0 on an empty store *)
Theorem C04pl_key_at_rank_abs :
  forall sort, sort_ok sort -> forall s r, PInv s ->
  exists k, p_key_at_rank_go sort s r = (with_buffer s (sort (buffer s)), k) /\
            (pabs s <> [] -> key_at_rank (pabs s) r = Some k) /\ (pabs s = [] -> k = 0).
Proof. intros; eapply p_key_at_rank_go_key; eauto. Qed.
Print Assumptions C04pl_key_at_rank_abs.

(* ---------------- loop-style = scan-style ---------------- *)
Theorem C04pl_observers_agree :
  forall sort, sort_ok sort -> forall s, PInv s ->
  p_min_go s = p_min sort s /\ p_max_go s = p_max sort s /\
  forall r, p_key_at_rank_go sort s r = p_key_at_rank sort s r.
Proof. intros; eapply p_observers_agree; eauto. Qed.
Print Assumptions C04pl_observers_agree.

(* ---------------- the pieces, for reference ---------------- *)
Theorem C04pl_buf_min :
  forall b, match buf_min b with None => b = [] | Some m => In m b /\ Forall (fun x => m <= x) b end.
Proof. exact buf_min_spec. Qed.
Print Assumptions C04pl_buf_min.
Theorem C04pl_buf_max :
  forall b, match buf_max b with None => b = [] | Some m => In m b /\ Forall (fun x => x <= m) b end.
Proof. exact buf_max_spec. Qed.
Print Assumptions C04pl_buf_max.

(* ---------------- concrete runs ---------------- *)
(* exp_store (C04pag.v): minPage = -3, 8 page slots of which pages number -2, 1 and 3 are allocated,
   29 buffered entries, one of them (120) equal to the index of an allocated, non-zero cell *)
Definition pl_ranks : list W :=
  map w_of_Z [-5; -1; 0; 1; 2; 3; 4; 5; 6; 7; 8; 9; 10; 11; 50; 51; 88; 89; 90; 91; 1000]
  ++ [Q2Qc (Qmake 1 2); Q2Qc (Qmake 9 2); Q2Qc (Qmake 179 2); Q2Qc (Qmake 181 2)].
Definition pl_view (x : pag * Z) : list Z * Z := (buffer (fst x), snd x).

Example C04pl_exp_store_min_max :
  (p_min_go exp_store, p_max_go exp_store) = (p_min ZSort.sort exp_store, p_max ZSort.sort exp_store) /\
  (p_min_go exp_store, p_max_go exp_store) = (Some (-33), Some 139).
Proof. vm_compute. split; reflexivity. Qed.
Example C04pl_exp_store_key_at_rank :
  map (fun r => pl_view (p_key_at_rank_go ZSort.sort exp_store r)) pl_ranks =
  map (fun r => pl_view (p_key_at_rank ZSort.sort exp_store r)) pl_ranks.
Proof. vm_compute. reflexivity. Qed.
Example C04pl_exp_store_keys :
  map (fun r => snd (p_key_at_rank_go ZSort.sort exp_store r)) pl_ranks =
  [-33; -33; -33; -33; -3; 5; 5; 40; 40; 40; 41; 70; 100; 100; 120; 120; 139; 139; 139; 139; 139;
   -33; 5; 139; 139].
Proof. vm_compute. reflexivity. Qed.

(* sentinel state with allocated (cleared) pages and a non-empty buffer; the empty store *)
Definition pl_cleared : pag :=
  fold_left (fun acc i => p_add_with_count pgrow8 worth32 (fun _ => true) ZSort.sort acc i w1)
            [7; -2; 7; 300] (p_clear exp_store).
Example C04pl_cleared :
  minPage pl_cleared = MaxInt64 /\ zlen (pages pl_cleared) = 8 /\
  (p_min_go pl_cleared, p_max_go pl_cleared) = (p_min ZSort.sort pl_cleared, p_max ZSort.sort pl_cleared) /\
  (p_min_go pl_cleared, p_max_go pl_cleared) = (Some (-2), Some 300) /\
  map (fun r => pl_view (p_key_at_rank_go ZSort.sort pl_cleared r)) pl_ranks =
  map (fun r => pl_view (p_key_at_rank ZSort.sort pl_cleared r)) pl_ranks.
Proof. vm_compute. repeat split; reflexivity. Qed.
Example C04pl_empty :
  (p_min_go new_pag, p_max_go new_pag, p_min_go (p_clear exp_store), p_max_go (p_clear exp_store)) =
  (None, None, None, None) /\
  map (fun r => snd (p_key_at_rank_go ZSort.sort (p_clear exp_store) r)) pl_ranks =
  map (fun r => snd (p_key_at_rank ZSort.sort (p_clear exp_store) r)) pl_ranks /\
  snd (p_key_at_rank_go ZSort.sort new_pag w1) = 0.
Proof. vm_compute. repeat split; reflexivity. Qed.

(* sentinel state with exactly one (nil) page slot: the only case in which the MaxIndex loop is entered
   in the sentinel state (minPage + len - 1 = MaxInt64 does not wrap); the nil page is skipped *)
Definition pl_sent1 : pag := {| buffer := [3; 9; 3]; trigger := 64; pages := [[]]; minPage := MaxInt64 |}.
Example C04pl_sent1 :
  (p_min_go pl_sent1, p_max_go pl_sent1) = (Some 3, Some 9) /\
  (p_min ZSort.sort pl_sent1, p_max ZSort.sort pl_sent1) = (Some 3, Some 9) /\
  map (fun r => pl_view (p_key_at_rank_go ZSort.sort pl_sent1 r)) pl_ranks =
  map (fun r => pl_view (p_key_at_rank ZSort.sort pl_sent1 r)) pl_ranks.
Proof. vm_compute. repeat split; reflexivity. Qed.

(* and through the theorems *)
Example C04pl_exp_store_by_theorem :
  p_min_go exp_store = p_min ZSort.sort exp_store /\ p_max_go exp_store = p_max ZSort.sort exp_store /\
  forall r, p_key_at_rank_go ZSort.sort exp_store r = p_key_at_rank ZSort.sort exp_store r.
Proof. exact (C04pl_observers_agree ZSort.sort zsort_ok exp_store (proj1 exp_store_by_theorem)). Qed.
Print Assumptions C04pl_exp_store_by_theorem.
