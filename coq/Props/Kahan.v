(* Props/Kahan — float-level theorems about the compensated summation of ddsketch/stat/summary.go, stated on the
   bit-exact binary64 model (SK.Stat.Summary: su_add_to_sum = AddToSum, su_add = Add, su_merge = MergeWith,
   su_get_sum = Sum; replayed bit for bit against the Go code by the C10 check).  Statements only; proofs:
   SK.Stat.KahanProofs.  Every theorem quantifies over ALL binary64 values satisfying its premises.

   Reading aid (notations local to this file; they unfold to Flocq / Summary terms only):
     finite x          is_finite 53 1024 x = true
     val x             B2R 53 1024 x                    the real number x denotes
     rnd r             round radix2 (FLT_exp (-1074) 53) ZnearestE r     binary64 round to nearest even
     representable r   generic_format radix2 (FLT_exp (-1074) 53) r
     u                 2^-53   (unit roundoff)          eta  2^-1075 (half the smallest subnormal)
     real_sum s        val (sum s) - val (comp s)       THE number a state stands for (see below)
     well_formed s     sum, comp finite and |comp| <= 2u |sum|
     total rs / total_abs rs                            sum of a list of reals / of their absolute values
     vals xs           the reals denoted by a list of floats
     products l        the exact products value*count of a list of (value, count) pairs
     add_to_sum_list s xs   AddToSum(x) for x in xs     add_list s l   Add(v, w) for (v, w) in l

   Sign convention (a finding).  sumWithCompensation makes sumCompensation the amount by which the new sum
   EXCEEDS old sum + addend, and subtracts it from the next addend: the state stands for sum - comp (K_step,
   K_add_to_sum_list).  Sum() returns sum + comp and MergeWith feeds +o.sumCompensation to the recurrence:
   both have the opposite sign (the same slip was repaired in OpenJDK's DoubleSummaryStatistics, from which
   this code derives, as JDK-8214761).  Consequences, all proved below:
     - the state itself is accurate: |real_sum - exact| <= (3u + O(n u^2)) sum|v w|        (K_add_list, first bound)
     - Sum() = rnd(real_sum + 2 comp) with |comp| <= 2u|sum|: up to 4u extra                 (K_sum_sign, K_sum_reported)
       so that the reported sum is within (8u + O(n u^2)) sum|v w| + 2n eta                  (K_add_list, K_add_list_new)
       -- with the intended sign the same analysis gives 4u; plain `sum` alone gives 5u
     - MergeWith(o) moves the represented number by real_sum o + 2 comp o: 6u|real_sum o| instead of 2u (K_merge)
     - concretely: E_sign_* (Sum() off by 3u where the sum field is correctly rounded) and E_merge_* (merging
       {1e16, 1} into an EMPTY summary and adding 1 reports 1e16, adding directly reports the exact 1e16 + 2).
   The property "at most a few ulps of the total of |value*weight|" therefore holds with the constant 8 (+ n u^2
   and subnormal terms); the test oracle's constant 5 is NOT proved here (the worst case found by hand is 3u).

   No-overflow premises are explicit bounds (2^999 / 2^1000 on the total of the absolute values); the length
   premise n <= 2^50 only serves to keep the second-order term small (n u <= 1/8). *)
From Coq Require Import Bool NArith ZArith QArith Qcanon Qcabs Reals List Lia Lra.
From Flocq Require Import Core.Core IEEE754.BinarySingleNaN IEEE754.Binary IEEE754.Bits.
From SK Require Import Base.Prelude Base.F64 Base.F64Proofs Stat.Summary Mapping.Glue Stat.KahanProofs.
Import ListNotations.
Local Open Scope R_scope.

Local Notation finite x := (is_finite 53 1024 x = true).
Local Notation val x := (B2R 53 1024 x).
Local Notation rnd r := (round radix2 (FLT_exp (-1074) 53) ZnearestE r).
Local Notation representable r := (generic_format radix2 (FLT_exp (-1074) 53) r).
Local Notation u := (bpow radix2 (-53)).
Local Notation eta := (bpow radix2 (-1075)).
Local Notation real_sum s := (val (su_sum s) - val (su_comp s)).
Local Notation well_formed s :=
  ((finite (su_sum s) /\ finite (su_comp s)) /\ Rabs (val (su_comp s)) <= 2 * u * Rabs (val (su_sum s))).
Local Notation total rs := (fold_right Rplus 0 rs).
Local Notation total_abs rs := (fold_right (fun x a => Rabs x + a) 0 rs).
Local Notation vals xs := (map (fun x : f64 => val x) xs).
Local Notation products l := (map (fun vw : f64 * f64 => val (fst vw) * val (snd vw)) l).
Local Notation add_to_sum_list s xs := (fold_left su_add_to_sum xs s).
Local Notation add_list s l := (fold_left (fun (s0 : summary) (vw : f64 * f64) => su_add s0 (fst vw) (snd vw)) l s).
Local Notation all_finite xs := (Forall (fun x : f64 => finite x) xs).
Local Notation pairs_finite l := (Forall (fun vw : f64 * f64 => finite (fst vw) /\ finite (snd vw)) l).

(* every partial sum s + x1 + ... + xk is a binary64 number *)
Fixpoint partial_sums_representable (s : R) (xs : list R) : Prop :=
  match xs with [] => True | x :: xs' => representable (s + x) /\ partial_sums_representable (s + x) xs' end.

(* ------------------------------------------------------------------ *)
(* T0  exactness                                                       *)
(* ------------------------------------------------------------------ *)
Theorem K_new_sum : su_get_sum su_new = f64_zero.
Proof. exact su_get_sum_new. Qed.
Print Assumptions K_new_sum.

(* the fields after AddToSum / Add / MergeWith are these expressions of the binary64 operations *)
Theorem K_add_to_sum_fields (s : summary) (x : f64) :
  let y := fsub x (su_comp s) in
  let t := fadd (su_sum s) y in
  su_sum (su_add_to_sum s x) = t /\ su_comp (su_add_to_sum s x) = fsub (fsub t (su_sum s)) y.
Proof. exact (su_add_to_sum_fields s x). Qed.
Print Assumptions K_add_to_sum_fields.

Theorem K_add_fields (s : summary) (v w : f64) :
  su_sum (su_add s v w) = su_sum (su_add_to_sum s (fmul v w)) /\
  su_comp (su_add s v w) = su_comp (su_add_to_sum s (fmul v w)).
Proof. exact (su_add_fields s v w). Qed.
Print Assumptions K_add_fields.

Theorem K_merge_fields (s o : summary) :
  su_sum (su_merge s o) = su_sum (su_add_to_sum (su_add_to_sum s (su_sum o)) (su_comp o)) /\
  su_comp (su_merge s o) = su_comp (su_add_to_sum (su_add_to_sum s (su_sum o)) (su_comp o)).
Proof. exact (su_merge_fields s o). Qed.
Print Assumptions K_merge_fields.

(* while every partial sum is representable the compensation stays 0 and the sum is exact *)
Theorem K_exact_list (s : summary) (xs : list f64) :
  finite (su_sum s) -> finite (su_comp s) -> val (su_comp s) = 0 -> all_finite xs ->
  partial_sums_representable (val (su_sum s)) (vals xs) ->
  Rabs (val (su_sum s)) + total_abs (vals xs) <= bpow radix2 1000 ->
  let s' := add_to_sum_list s xs in
  finite (su_sum s') /\ finite (su_comp s') /\
  val (su_sum s') = val (su_sum s) + total (vals xs) /\ val (su_comp s') = 0.
Proof. exact (su_add_to_sum_list_exact s xs). Qed.
Print Assumptions K_exact_list.

(* integer values and counts with sum |v w| <= 2^53: Sum() is the exact integer *)
Theorem K_exact_int (zl : list (Z * Z)) :
  Forall (fun zz => (Z.abs (fst zz) <= 2 ^ 53 /\ Z.abs (snd zz) <= 2 ^ 53)%Z) zl ->
  (fold_right (fun z a => Z.abs z + a) 0 (map (fun zz => fst zz * snd zz) zl) <= 2 ^ 53)%Z ->
  let s := add_list su_new (map (fun zz => (f_of_int (fst zz), f_of_int (snd zz))) zl) in
  finite (su_get_sum s) /\
  val (su_get_sum s) = IZR (fold_right Z.add 0%Z (map (fun zz => (fst zz * snd zz)%Z) zl)) /\
  val (su_comp s) = 0.
Proof. exact (su_add_list_exact_int zl). Qed.
Print Assumptions K_exact_int.

(* ------------------------------------------------------------------ *)
(* T1  one step  tmp := x - comp; velvel := sum + tmp; comp' := (velvel - sum) - tmp *)
(* ------------------------------------------------------------------ *)
Theorem K_step (s c x : f64) :
  let y := fsub x c in
  let t := fadd s y in
  let c' := fsub (fsub t s) y in
  finite t -> finite c' ->
  val y = rnd (val x - val c) /\
  val t = rnd (val s + val y) /\
  val c' = rnd (rnd (val t - val s) - val y) /\
  (Rabs (val y) <= Rabs (val s) -> val t - val c' = val s + val y) /\
  Rabs ((val t - val c') - (val s + val y)) <= u * (1 + 3 * u) * Rabs (val y) /\
  Rabs (val c') <= 2 * u * Rabs (val t) /\
  Rabs ((val t - val c') - ((val s - val c) + val x)) <= (2 * u + 5 * u ^ 2) * Rabs (val x - val c).
Proof. exact (kahan_step_float s c x). Qed.
Print Assumptions K_step.

(* ------------------------------------------------------------------ *)
(* T2  the invariant over a list of addends                            *)
(* ------------------------------------------------------------------ *)
Theorem K_wf_new : well_formed su_new.
Proof. exact wfS_new. Qed.
Print Assumptions K_wf_new.

(* e.g. what NewSummaryStatisticsFromData / Clear produce *)
Theorem K_wf_comp0 (s : summary) : finite (su_sum s) -> su_comp s = f64_zero -> well_formed s.
Proof. exact (wfS_comp0 s). Qed.
Print Assumptions K_wf_comp0.

Theorem K_add_to_sum_list (s : summary) (xs : list f64) :
  well_formed s -> all_finite xs -> (Z.of_nat (length xs) <= 2 ^ 50)%Z ->
  Rabs (real_sum s) + total_abs (vals xs) <= bpow radix2 1000 ->
  well_formed (add_to_sum_list s xs) /\
  Rabs (real_sum (add_to_sum_list s xs) - (real_sum s + total (vals xs))) <=
    (2 * u + 5 * u ^ 2) * total_abs (vals xs)
    + 9 * INR (length xs) * u ^ 2 * (Rabs (real_sum s) + total_abs (vals xs)).
Proof. exact (su_add_to_sum_list_err s xs). Qed.
Print Assumptions K_add_to_sum_list.

(* ------------------------------------------------------------------ *)
(* T3  the reported number                                             *)
(* ------------------------------------------------------------------ *)
(* Sum() adds the compensation instead of subtracting it *)
Theorem K_sum_sign (s : summary) : well_formed s -> Rabs (real_sum s) <= bpow radix2 1000 ->
  val (su_get_sum s) = rnd (real_sum s + 2 * val (su_comp s)).
Proof. exact (su_get_sum_sign s). Qed.
Print Assumptions K_sum_sign.

Theorem K_sum_reported (s : summary) : well_formed s -> Rabs (real_sum s) <= bpow radix2 1000 ->
  finite (su_get_sum s) /\
  val (su_get_sum s) = rnd (val (su_sum s) + val (su_comp s)) /\
  Rabs (val (su_get_sum s) - real_sum s) <= (5 * u + 15 * u ^ 2) * Rabs (real_sum s).
Proof. exact (su_get_sum_err s). Qed.
Print Assumptions K_sum_reported.

(* Add(v, w) for (v, w) in l from any well-formed state, then Sum() *)
Theorem K_add_list (s0 : summary) (l : list (f64 * f64)) :
  well_formed s0 -> pairs_finite l -> (Z.of_nat (length l) <= 2 ^ 50)%Z ->
  Rabs (real_sum s0) + total_abs (products l) <= bpow radix2 999 ->
  let s := add_list s0 l in
  let n := INR (length l) in
  well_formed s /\ finite (su_get_sum s) /\
  Rabs (real_sum s - (real_sum s0 + total (products l))) <=
    9 * n * u ^ 2 * Rabs (real_sum s0) + (3 * u + (10 * n + 8) * u ^ 2) * total_abs (products l) + 2 * n * eta /\
  Rabs (val (su_get_sum s) - (real_sum s0 + total (products l))) <=
    (5 * u + (9 * n + 36) * u ^ 2) * Rabs (real_sum s0)
    + (8 * u + (10 * n + 49) * u ^ 2) * total_abs (products l) + 2 * n * eta.
Proof. exact (su_add_list_err s0 l). Qed.
Print Assumptions K_add_list.

Theorem K_add_list_new (l : list (f64 * f64)) :
  pairs_finite l -> (Z.of_nat (length l) <= 2 ^ 50)%Z -> total_abs (products l) <= bpow radix2 999 ->
  let s := add_list su_new l in
  let n := INR (length l) in
  finite (su_get_sum s) /\
  Rabs (val (su_get_sum s) - total (products l)) <=
    (8 * u + (10 * n + 49) * u ^ 2) * total_abs (products l) + 2 * n * eta.
Proof. exact (su_add_list_new_err l). Qed.
Print Assumptions K_add_list_new.

(* MergeWith: absorbs sum o + comp o = real_sum o + 2 comp o *)
Theorem K_merge (s o : summary) : well_formed s -> well_formed o ->
  Rabs (real_sum s) + 2 * Rabs (real_sum o) <= bpow radix2 1000 ->
  well_formed (su_merge s o) /\
  Rabs (real_sum (su_merge s o) - (real_sum s + (val (su_sum o) + val (su_comp o)))) <=
    (2 * u + 5 * u ^ 2) * (Rabs (val (su_sum o)) + Rabs (val (su_comp o)))
    + 4 * (2 * u + 5 * u ^ 2) ^ 2 * (Rabs (real_sum s) + (Rabs (val (su_sum o)) + Rabs (val (su_comp o)))) /\
  Rabs (real_sum (su_merge s o) - (real_sum s + real_sum o)) <=
    (6 * u + 44 * u ^ 2) * Rabs (real_sum o) + 17 * u ^ 2 * Rabs (real_sum s).
Proof. exact (su_merge_err s o). Qed.
Print Assumptions K_merge.

(* ------------------------------------------------------------------ *)
(* examples                                                            *)
(* ------------------------------------------------------------------ *)
Definition x_one : f64 := fb 0x3FF0000000000000.          (* 1 *)
Definition x_1e16 : f64 := fb 0x4341C37937E08000.         (* 1e16, ulp = 2 *)
Definition x_2m53 : f64 := fb 0x3CA0000000000000.         (* 2^-53 *)
Definition x_1p : f64 := fb 0x3FF0000000000001.           (* 1 + 2^-52 *)
Definition x_third : f64 := fb 0x3FD5555555555555.        (* 0.333... *)
Definition x_m7e5 : f64 := fb 0xC1255CC000000000.         (* -700000 *)
Definition x_sub : f64 := fb 0x0000000000000003.          (* 3 * 2^-1074, subnormal *)

(* (i) the compensation recovers the low part: 1e16 + 1 + 1 *)
Example E_recover_kahan :
  bits_of_f64 (su_get_sum (add_list su_new [(x_1e16, x_one); (x_one, x_one); (x_one, x_one)])) = 0x4341C37937E08001%N.
Proof. vm_compute. reflexivity. Qed.
Example E_recover_naive : bits_of_f64 (fadd (fadd x_1e16 x_one) x_one) = 0x4341C37937E08000%N.
Proof. vm_compute. reflexivity. Qed.
(* after the first +1 the lost unit sits in the compensation with a MINUS sign: comp = -1 *)
Example E_recover_state :
  let s := add_list su_new [(x_1e16, x_one); (x_one, x_one)] in
  (bits_of_f64 (su_sum s), bits_of_f64 (su_comp s)) = (0x4341C37937E08000%N, 0xBFF0000000000000%N).
Proof. vm_compute. reflexivity. Qed.

(* the sign in Sum(): 2^-53 + (1 + 2^-52) = 1 + 3*2^-53 exactly; the sum field holds the correctly rounded
   1 + 2^-51, the state stands for 1 + 2^-52 (error u), Sum() reports 1 + 3*2^-52 (error 3u) *)
Example E_sign_state :
  let s := add_list su_new [(x_2m53, x_one); (x_1p, x_one)] in
  (bits_of_f64 (su_sum s), bits_of_f64 (su_comp s), bits_of_f64 (su_get_sum s))
  = (0x3FF0000000000002%N, 0x3CB0000000000000%N, 0x3FF0000000000003%N).
Proof. vm_compute. reflexivity. Qed.

(* the sign in MergeWith: {1e16, 1} merged into an EMPTY summary, then Add(1): Sum() = 1e16;
   the same three values added directly: Sum() = 1e16 + 2, the exact total *)
Example E_merge_sign :
  let o := add_list su_new [(x_1e16, x_one); (x_one, x_one)] in
  bits_of_f64 (su_get_sum (su_add (su_merge su_new o) x_one x_one)) = 0x4341C37937E08000%N /\
  bits_of_f64 (su_get_sum (su_add o x_one x_one)) = 0x4341C37937E08001%N /\
  bits_of_f64 (su_comp (su_merge su_new o)) = 0x3FF0000000000000%N.
Proof. vm_compute. repeat split; reflexivity. Qed.

(* (ii) the premises are satisfiable by concrete, non-trivial data (mixed signs, magnitudes from subnormal to
   1e16, non-dyadic values); each example is the theorem's conclusion for that data *)
Definition l_one : list (f64 * f64) :=
  [(x_third, x_1p); (x_m7e5, x_third); (x_1e16, x_one); (x_sub, x_third); (x_one, x_one); (x_m7e5, x_m7e5)].
Definition l_two : list (f64 * f64) := [(x_1p, x_1p); (x_third, x_m7e5); (x_2m53, x_third)].

Example E_step_premises :
  let y := fsub x_one (fb 0xBFF0000000000000) in
  let t := fadd x_1e16 y in
  let c' := fsub (fsub t x_1e16) y in
  val t - val c' = val x_1e16 + val y.
Proof.
  intros y t c'.
  assert (Ft : finite t) by (vm_compute; reflexivity).
  assert (Fc : finite c') by (vm_compute; reflexivity).
  destruct (K_step x_1e16 (fb 0xBFF0000000000000) x_one Ft Fc) as (_ & _ & _ & H & _).
  apply H. fold y.
  destruct (abs_le_b_ok y x_1e16) as (_ & Hy); [reflexivity|vm_compute; reflexivity|].
  eapply Rle_trans; [exact Hy|]. apply Rle_abs.
Qed.

Lemma new_real_sum : Rabs (real_sum su_new) = 0.
Proof. change (val (su_sum su_new) - val (su_comp su_new)) with (KahanProofs.real_sum su_new). rewrite real_sum_new. apply Rabs_R0. Qed.

Lemma l_one_premises : pairs_finite l_one /\ total_abs (products l_one) <= bpow radix2 950.
Proof. apply (pairs_small_450 l_one); [vm_compute; reflexivity|vm_compute; discriminate]. Qed.
Lemma l_two_premises : pairs_finite l_two /\ total_abs (products l_two) <= bpow radix2 950.
Proof. apply (pairs_small_450 l_two); [vm_compute; reflexivity|vm_compute; discriminate]. Qed.
Lemma bpow_950_999 : bpow radix2 950 <= bpow radix2 999.
Proof. apply bpow_le. lia. Qed.

Example E_add_list_new_premises :
  Rabs (val (su_get_sum (add_list su_new l_one)) - total (products l_one)) <=
    (8 * u + (10 * 6 + 49) * u ^ 2) * total_abs (products l_one) + 2 * 6 * eta.
Proof.
  destruct l_one_premises as (F & B).
  destruct (K_add_list_new l_one F) as (_ & H).
  - vm_compute. discriminate.
  - eapply Rle_trans; [exact B|exact bpow_950_999].
  - replace (INR (length l_one)) with 6 in H by (unfold l_one; cbn [length INR]; lra). exact H.
Qed.

(* a non-trivial state: the summary after l_one (sum = about 1.0000490e16, comp <> 0) *)
Definition s_one : summary := add_list su_new l_one.
Example E_s_one_comp_nonzero : bits_of_f64 (su_comp s_one) <> 0%N /\ bits_of_f64 (su_comp s_one) <> 0x8000000000000000%N.
Proof. vm_compute. split; discriminate. Qed.

Lemma s_one_premises : well_formed s_one /\ Rabs (real_sum s_one) <= bpow radix2 901.
Proof.
  destruct l_one_premises as (F & B).
  assert (W : well_formed s_one).
  { destruct (K_add_list su_new l_one K_wf_new F) as (W & _); [vm_compute; discriminate| |exact W].
    rewrite new_real_sum, Rplus_0_l. eapply Rle_trans; [exact B|exact bpow_950_999]. }
  split; [exact W|]. apply (real_sum_small s_one W). vm_compute. reflexivity.
Qed.

Lemma bpow_sum_999 : bpow radix2 901 + bpow radix2 950 <= bpow radix2 999.
Proof.
  assert (bpow radix2 901 <= bpow radix2 998) by (apply bpow_le; lia).
  assert (bpow radix2 950 <= bpow radix2 998) by (apply bpow_le; lia).
  change 999%Z with (998 + 1)%Z. rewrite bpow_plus_1. change (IZR radix2) with 2.
  pose proof (bpow_ge_0 radix2 998). lra.
Qed.

Example E_add_list_premises :
  let s := add_list s_one l_two in
  well_formed s /\
  Rabs (val (su_get_sum s) - (real_sum s_one + total (products l_two))) <=
    (5 * u + (9 * 3 + 36) * u ^ 2) * Rabs (real_sum s_one)
    + (8 * u + (10 * 3 + 49) * u ^ 2) * total_abs (products l_two) + 2 * 3 * eta.
Proof.
  destruct s_one_premises as (W & B1). destruct l_two_premises as (F & B2).
  destruct (K_add_list s_one l_two W F) as (W' & _ & _ & H).
  - vm_compute. discriminate.
  - pose proof bpow_sum_999. lra.
  - replace (INR (length l_two)) with 3 in H by (unfold l_two; cbn [length INR]; lra). split; [exact W'|exact H].
Qed.

Example E_merge_premises :
  let o := add_list su_new l_two in
  Rabs (real_sum (su_merge s_one o) - (real_sum s_one + real_sum o)) <=
    (6 * u + 44 * u ^ 2) * Rabs (real_sum o) + 17 * u ^ 2 * Rabs (real_sum s_one).
Proof.
  intros o. destruct s_one_premises as (W & B1). destruct l_two_premises as (F & B2).
  assert (Wo : well_formed o).
  { destruct (K_add_list su_new l_two K_wf_new F) as (Wo & _); [vm_compute; discriminate| |exact Wo].
    rewrite new_real_sum, Rplus_0_l. eapply Rle_trans; [exact B2|exact bpow_950_999]. }
  assert (Bo : Rabs (real_sum o) <= bpow radix2 901) by (apply (real_sum_small o Wo); vm_compute; reflexivity).
  destruct (K_merge s_one o W Wo) as (_ & _ & H); [|exact H].
  assert (bpow radix2 901 <= bpow radix2 998) by (apply bpow_le; lia).
  assert (E : bpow radix2 1000 = 4 * bpow radix2 998).
  { change 1000%Z with (998 + 1 + 1)%Z. rewrite !bpow_plus_1. change (IZR radix2) with 2. lra. }
  pose proof (bpow_ge_0 radix2 998). lra.
Qed.

Example E_add_to_sum_list_premises :
  let xs := [x_third; x_m7e5; x_sub; x_1p] in
  Rabs (real_sum (add_to_sum_list s_one xs) - (real_sum s_one + total (vals xs))) <=
    (2 * u + 5 * u ^ 2) * total_abs (vals xs) + 9 * 4 * u ^ 2 * (Rabs (real_sum s_one) + total_abs (vals xs)).
Proof.
  intros xs. destruct s_one_premises as (W & B1).
  assert (FB : all_finite xs /\ total_abs (vals xs) <= bpow radix2 950).
  { apply (all_small_900 xs); [vm_compute; reflexivity|vm_compute; discriminate]. }
  destruct FB as (F & B2).
  destruct (K_add_to_sum_list s_one xs W F) as (_ & H).
  - vm_compute. discriminate.
  - pose proof bpow_sum_999. assert (bpow radix2 999 <= bpow radix2 1000) by (apply bpow_le; lia). lra.
  - replace (INR (length xs)) with 4 in H by (unfold xs; cbn [length INR]; lra). exact H.
Qed.

(* T0 on concrete integers: 3*2 - 7*1 + 2^40*5 + 1*1 *)
Example E_exact_int :
  let s := add_list su_new (map (fun zz => (f_of_int (fst zz), f_of_int (snd zz)))
                                [(3, 2); (-7, 1); (2 ^ 40, 5); (1, 1)]%Z) in
  val (su_get_sum s) = IZR 5497558138880 /\ val (su_comp s) = 0.
Proof.
  destruct (K_exact_int [(3, 2); (-7, 1); (2 ^ 40, 5); (1, 1)]%Z) as (_ & H1 & H2).
  - repeat constructor; vm_compute; discriminate.
  - vm_compute. discriminate.
  - split; [exact H1|exact H2].
Qed.

(* how tight: two additions whose reported sum is off by more than 3.99 u * sum|v w| (exact rational arithmetic
   on the denoted values; a search over short inputs converges to 4 from below, so no constant below 4 can be
   proved; the proved constant is 8, the test oracle uses 5) *)
Example E_ratio_almost_4 :
  let l := [(fb 0x3CEDF87FFFFFF011, fb 0x3FE003FFFFFFFF77); (fb 0x3FE0000000000002, fb 0x3FFFFFFFFFFFFFFD)] in
  let exact := fold_right Qcplus w0 (map (fun vw => f2q (fst vw) * f2q (snd vw))%Qc l) in
  let mass := fold_right Qcplus w0 (map (fun vw => Qcabs (f2q (fst vw) * f2q (snd vw)))%Qc l) in
  wltb (Q2Qc (399 # 100) * mass)%Qc (Qcabs (f2q (su_get_sum (add_list su_new l)) - exact) * Q2Qc (2 ^ 53 # 1))%Qc = true.
Proof. vm_compute. reflexivity. Qed.
