(* Sketch level, third series: statements only.  Every proof is a one-line reference to
   Sketch/SketchProofs3.v.
     C11  weighted quantiles in ROUNDED rank arithmetic, weights on a dyadic grid 2^-k.
     C12  the Layer A results on minimum, maximum, sum and quantiles carried to the executed sketch
          (Layer B), built by AddWithCount from a new sketch with stores of any kind.
     C20  floor / ceiling of the rounded rank of the reference dataset against the literal
          floor / ceiling of q (n - 1).
   The abstract-rounding theorems (C11_*, C20_floor/ceil_of_rounded) are axiom-free; everything about
   rnd64 / rndQ / the Layer B model depends on the four stdlib real-number axioms Flocq brings.

   Vocabulary (Sketch/SketchProofs3.v, Sketch/MiscProofs.v; restated below as checked equations):
     gridv k z          z / 2^k                       gridw k l   every weight of l is z / 2^k, z > 0
     gfl k x, gcl k x   floor / ceiling of x on the grid 2^-k, as numerators
     plain_add_list     AddWithCount for each (value, weight) in turn, on the Layer B model
     qitems l           the exact values and weights of a list of binary64 pairs
     adds_ok mt l       finite values within the indexable range, finite weights >= 0
     quantile_ready s   invariant, dyadic weights of total <= 2^1000, rounding separates count, count-1, 0
     eps53              2^-53 *)
From SK Require Import Spec.Bins Spec.BinsProofs Spec.ASketch Sketch.SketchProofs Sketch.RankProofs.
From SK Require Import Sketch.SketchProofs2.
From Coq Require Import Permutation Sorted Qround Qcabs.
From SK Require Import Base.F64 Base.F64Proofs Sketch.MiscProofs Sketch.RoundingInstance.
From SK Require Import Store.Any Store.AnyProofs Stat.Summary Sketch.Sketch Sketch.RefineProofs.
From SK Require Import Sketch.SketchProofs3.
From SK Require Data.Dataset Data.DatasetProofs.
Import Data.Dataset.
Local Open Scope Z_scope.

Example gridv_def k z : gridv k z = Q2Qc (inject_Z z / inject_Z (2 ^ k)) := eq_refl.
Example gridw_def k l :
  gridw k l = Forall (fun a : item => exists z : Z, 0 < z /\ snd a = gridv k z) l := eq_refl.
Example gfl_def k x : gfl k x = cfloor (x * inj (2 ^ k))%Qc := eq_refl.
Example gcl_def k x : gcl k x = cceil (x * inj (2 ^ k))%Qc := eq_refl.
Example eps53_def : eps53 = Q2Qc (pow2Q (-53)) := eq_refl.
Example plain_add_list_nil mt s : plain_add_list mt s [] = ROk s := eq_refl.
Example plain_add_list_cons mt s vc tl :
  plain_add_list mt s (vc :: tl) =
  match plain_add mt s (fst vc) (snd vc) with ROk s' => plain_add_list mt s' tl | r => r end := eq_refl.
Example qitems_def l : qitems l = map (fun vc => (f2q (fst vc), f2q (snd vc))) l := eq_refl.
Example adds_ok_def mt l :
  adds_ok mt l =
  Forall (fun vc => f_is_finite (fst vc) = true /\ f_is_finite (snd vc) = true /\ (w0 <= f2q (snd vc))%Qc /\
                    (Qcabs (f2q (fst vc)) <= f2q (mt_max mt))%Qc) l := eq_refl.
Example wpos_adds_def l : wpos_adds l = Forall (fun vc => (w0 < f2q (snd vc))%Qc) l := eq_refl.
Example quantile_ready_def s :
  quantile_ready s =
  (SkInv s /\ dy_sketch (sk_abs s) /\ small (sk_abs s) /\ plain_count s <> w0 /\
   (w0 < rnd64 (plain_count s))%Qc /\ (rnd64 (wsub (plain_count s) w1) < rnd64 (plain_count s))%Qc) := eq_refl.

(* ================================================================== *)
(** * C11  rounded rank arithmetic, weights on the grid 2^-k            *)
(* ================================================================== *)

(* 1. the grid inside Qc *)
Theorem C11_grid_floor_ceil k x :
  0 <= k ->
  (gridv k (gfl k x) <= x)%Qc /\ (x < gridv k (gfl k x + 1))%Qc /\
  (gridv k (gcl k x - 1) < x)%Qc /\ (x <= gridv k (gcl k x))%Qc /\ gfl k x <= gcl k x.
Proof.
  intros Hk. split; [apply gfl_le; exact Hk|]. split; [apply gfl_lt; exact Hk|].
  split; [apply gcl_gt; exact Hk|]. split; [apply gcl_ge; exact Hk|apply gfl_le_gcl; exact Hk].
Qed.
Print Assumptions C11_grid_floor_ceil.
Theorem C11_grid_point k z : 0 <= k -> gfl k (gridv k z) = z /\ gcl k (gridv k z) = z.
Proof. intros Hk. split; [apply gfl_grid|apply gcl_grid]; exact Hk. Qed.
Print Assumptions C11_grid_point.

(* 2. the rank the sketch computes (with the repaired clamp at 0) lies between the grid neighbours
   of max 0 (q (W - 1)), W = n / 2^k the total weight.  rnd: any monotone operator that fixes the
   grid points z / 2^k with |z| <= B; 2^k <= B makes W - 1 exact *)
Theorem C11_grid_rank_bracket (rnd : Qc -> Qc) (B k n : Z) (q : Qc) :
  0 <= k -> 2 ^ k <= B ->
  (forall x y, (x <= y)%Qc -> (rnd x <= rnd y)%Qc) ->
  (forall z : Z, Z.abs z <= B -> rnd (gridv k z) = gridv k z) ->
  1 <= n <= B -> (w0 <= q)%Qc -> (q <= w1)%Qc ->
  let r := (q * gridv k (n - 2 ^ k))%Qc in
  let r0 := rnd (wmul q (rnd (wsub (gridv k n) w1))) in
  let rho := if wltb r0 w0 then w0 else r0 in
  let f := Z.max 0 (gfl k r) in
  let c := Z.max 0 (gcl k r) in
  0 <= f /\ f <= c /\ c <= Z.max 0 (n - 2 ^ k) /\ (gridv k f <= rho)%Qc /\ (rho <= gridv k c)%Qc.
Proof. intros Hk HU Hm Hg. exact (grid_rank_bracket rnd B k Hk HU Hm Hg n q). Qed.
Print Assumptions C11_grid_rank_bracket.

(* 3. THEOREM B under rounding.  Positive weights z_i / 2^k of total W = n / 2^k, n <= B: the answer
   represents the value a of a split ys = l1 ++ a :: l2 of the sorted input, and some grid point
   t / 2^k between the grid neighbours of max 0 (q (W - 1)) satisfies  C - 1 < t / 2^k < C + c
   (C = weight before a, c = weight of a); C <= t / 2^k unless a comes from the negative store *)
Theorem C11_weighted_quantile_grid
  (rnd : Qc -> Qc) (B k : Z) (m : amapping) (xs ys : list item) (s : asketch) (q : Qc) (n : Z) :
  0 <= k -> 2 ^ k <= B ->
  (forall x y, (x <= y)%Qc -> (rnd x <= rnd y)%Qc) ->
  (forall z : Z, Z.abs z <= B -> rnd (gridv k z) = gridv k z) ->
  (w0 <= am_min m)%Qc ->
  (forall x y, (am_min m < x)%Qc /\ (x <= y)%Qc -> (y <= am_max m)%Qc -> am_index m x <= am_index m y) ->
  a_add_list m a_new xs = Some s -> Permutation xs ys -> StronglySorted vle ys -> gridw k ys ->
  ys <> [] -> wsum ys = gridv k n -> n <= B -> (w0 <= q)%Qc -> (q <= w1)%Qc ->
  exists l1 a l2 (t : Z),
    ys = l1 ++ a :: l2 /\
    a_quantile rnd m s q = Some (repr m (fst a)) /\
    Z.max 0 (gfl k (q * (wsum ys - 1))%Qc) <= t <= Z.max 0 (gcl k (q * (wsum ys - 1))%Qc) /\
    (wsum l1 - 1 < gridv k t)%Qc /\ (gridv k t < wsum l1 + snd a)%Qc /\
    (isN m a = false -> (wsum l1 <= gridv k t)%Qc).
Proof.
  intros Hk HU Hm Hg M0 Im.
  exact (weighted_quantile_grid rnd B k Hk HU Hm Hg m M0 (fun x y a b c => Im x y (conj a b) c) xs ys s q n).
Qed.
Print Assumptions C11_weighted_quantile_grid.
(* in the form of the property: within one unit of weight, plus one grid step, of q (W - 1); W < 1
   (negative exact rank) included *)
Theorem C11_weighted_quantile_grid_unit
  (rnd : Qc -> Qc) (B k : Z) (m : amapping) (xs ys : list item) (s : asketch) (q : Qc) (n : Z) :
  0 <= k -> 2 ^ k <= B ->
  (forall x y, (x <= y)%Qc -> (rnd x <= rnd y)%Qc) ->
  (forall z : Z, Z.abs z <= B -> rnd (gridv k z) = gridv k z) ->
  (w0 <= am_min m)%Qc ->
  (forall x y, (am_min m < x)%Qc /\ (x <= y)%Qc -> (y <= am_max m)%Qc -> am_index m x <= am_index m y) ->
  a_add_list m a_new xs = Some s -> Permutation xs ys -> StronglySorted vle ys -> gridw k ys ->
  ys <> [] -> wsum ys = gridv k n -> n <= B -> (w0 <= q)%Qc -> (q <= w1)%Qc ->
  exists l1 a l2,
    ys = l1 ++ a :: l2 /\
    a_quantile rnd m s q = Some (repr m (fst a)) /\
    (wsum l1 - 1 - gridv k 1 < q * (wsum ys - 1))%Qc /\
    (q * (wsum ys - 1) < wsum l1 + snd a + gridv k 1)%Qc.
Proof.
  intros Hk HU Hm Hg M0 Im.
  exact (weighted_quantile_grid_unit rnd B k Hk HU Hm Hg m M0 (fun x y a b c => Im x y (conj a b) c) xs ys s q n).
Qed.
Print Assumptions C11_weighted_quantile_grid_unit.
Theorem C11_weighted_quantile_grid_absorbed
  (rnd : Qc -> Qc) (B k : Z) (m : amapping) (xs ys : list item) (s : asketch) (q : Qc) (n : Z) :
  0 <= k -> 2 ^ k <= B ->
  (forall x y, (x <= y)%Qc -> (rnd x <= rnd y)%Qc) ->
  (forall z : Z, Z.abs z <= B -> rnd (gridv k z) = gridv k z) ->
  (w0 <= am_min m)%Qc ->
  (forall x y, (am_min m < x)%Qc /\ (x <= y)%Qc -> (y <= am_max m)%Qc -> am_index m x <= am_index m y) ->
  a_add_list m a_new xs = Some s -> Permutation xs ys -> StronglySorted vle ys -> gridw k ys ->
  ys <> [] -> wsum ys = gridv k n -> n <= B -> (w0 <= q)%Qc -> (q <= w1)%Qc ->
  exists a, In a xs /\ a_quantile rnd m s q = Some (repr m (fst a)).
Proof.
  intros Hk HU Hm Hg M0 Im.
  exact (weighted_quantile_grid_absorbed rnd B k Hk HU Hm Hg m M0 (fun x y a b c => Im x y (conj a b) c) xs ys s q n).
Qed.
Print Assumptions C11_weighted_quantile_grid_absorbed.
Theorem C11_weighted_quantile_grid_between
  (rnd : Qc -> Qc) (B k : Z) (m : amapping) (xs ys : list item) (s : asketch) (q : Qc) (n : Z) :
  0 <= k -> 2 ^ k <= B ->
  (forall x y, (x <= y)%Qc -> (rnd x <= rnd y)%Qc) ->
  (forall z : Z, Z.abs z <= B -> rnd (gridv k z) = gridv k z) ->
  (w0 <= am_min m)%Qc ->
  (forall x y, (am_min m < x)%Qc /\ (x <= y)%Qc -> (y <= am_max m)%Qc -> am_index m x <= am_index m y) ->
  vals_mono_on m s -> vals_nonneg_on m s ->
  a_add_list m a_new xs = Some s -> Permutation xs ys -> StronglySorted vle ys -> gridw k ys ->
  ys <> [] -> wsum ys = gridv k n -> n <= B -> (w0 <= q)%Qc -> (q <= w1)%Qc ->
  exists lo hi y, a_min m s = Some lo /\ a_max m s = Some hi /\
    a_quantile rnd m s q = Some y /\ (lo <= y)%Qc /\ (y <= hi)%Qc.
Proof.
  intros Hk HU Hm Hg M0 Im.
  exact (weighted_quantile_grid_between rnd B k Hk HU Hm Hg m M0 (fun x y a b c => Im x y (conj a b) c) xs ys s q n).
Qed.
Print Assumptions C11_weighted_quantile_grid_between.

(* 4. the executed operator.  Round-to-nearest-even fixes the bounded grid points (k <= 1074); with
   k <= 53 and total * 2^k <= 2^53 the theorems hold for a_quantile rnd64, q any dyadic number in
   [0, 1] (every binary64 q is: I_C11_weighted_quantile_grid_rnd64_f2q) *)
Theorem I_C11_rndQ_grid (k z : Z) : 0 <= k <= 1074 -> Z.abs z <= 2 ^ 53 -> rndQ (gridv k z) = gridv k z.
Proof. exact (rndQ_grid k z). Qed.
Print Assumptions I_C11_rndQ_grid.
Theorem I_C11_weighted_quantile_grid_rnd64
  (m : amapping) (k : Z) (xs ys : list item) (s : asketch) (q : Qc) (n : Z) :
  0 <= k <= 53 -> (w0 <= am_min m)%Qc ->
  (forall x y, (am_min m < x)%Qc /\ (x <= y)%Qc -> (y <= am_max m)%Qc -> am_index m x <= am_index m y) ->
  a_add_list m a_new xs = Some s -> Permutation xs ys -> StronglySorted vle ys -> gridw k ys ->
  ys <> [] -> wsum ys = gridv k n -> n <= 2 ^ 53 -> dyadic q -> (w0 <= q)%Qc -> (q <= w1)%Qc ->
  exists l1 a l2 (t : Z),
    ys = l1 ++ a :: l2 /\
    a_quantile rnd64 m s q = Some (repr m (fst a)) /\
    Z.max 0 (gfl k (q * (wsum ys - 1))%Qc) <= t <= Z.max 0 (gcl k (q * (wsum ys - 1))%Qc) /\
    (wsum l1 - 1 < gridv k t)%Qc /\ (gridv k t < wsum l1 + snd a)%Qc /\
    (isN m a = false -> (wsum l1 <= gridv k t)%Qc).
Proof.
  intros Hk M0 Im.
  exact (weighted_quantile_grid_rnd64 m k Hk M0 (fun x y a b c => Im x y (conj a b) c) xs ys s q n).
Qed.
Print Assumptions I_C11_weighted_quantile_grid_rnd64.
Theorem I_C11_weighted_quantile_grid_rnd64_f2q
  (m : amapping) (k : Z) (xs ys : list item) (s : asketch) (x : f64) (n : Z) :
  0 <= k <= 53 -> (w0 <= am_min m)%Qc ->
  (forall x y, (am_min m < x)%Qc /\ (x <= y)%Qc -> (y <= am_max m)%Qc -> am_index m x <= am_index m y) ->
  a_add_list m a_new xs = Some s -> Permutation xs ys -> StronglySorted vle ys -> gridw k ys ->
  ys <> [] -> wsum ys = gridv k n -> n <= 2 ^ 53 ->
  fle f64_zero x = true -> fle x f64_one = true ->
  exists l1 a l2 (t : Z),
    ys = l1 ++ a :: l2 /\
    a_quantile rnd64 m s (f2q x) = Some (repr m (fst a)) /\
    Z.max 0 (gfl k (f2q x * (wsum ys - 1))%Qc) <= t <= Z.max 0 (gcl k (f2q x * (wsum ys - 1))%Qc) /\
    (wsum l1 - 1 < gridv k t)%Qc /\ (gridv k t < wsum l1 + snd a)%Qc /\
    (isN m a = false -> (wsum l1 <= gridv k t)%Qc).
Proof.
  intros Hk M0 Im.
  exact (weighted_quantile_grid_rnd64_f2q m k xs ys s x n Hk M0 (fun x y a b c => Im x y (conj a b) c)).
Qed.
Print Assumptions I_C11_weighted_quantile_grid_rnd64_f2q.
Theorem I_C11_weighted_quantile_grid_unit_rnd64
  (m : amapping) (k : Z) (xs ys : list item) (s : asketch) (q : Qc) (n : Z) :
  0 <= k <= 53 -> (w0 <= am_min m)%Qc ->
  (forall x y, (am_min m < x)%Qc /\ (x <= y)%Qc -> (y <= am_max m)%Qc -> am_index m x <= am_index m y) ->
  a_add_list m a_new xs = Some s -> Permutation xs ys -> StronglySorted vle ys -> gridw k ys ->
  ys <> [] -> wsum ys = gridv k n -> n <= 2 ^ 53 -> dyadic q -> (w0 <= q)%Qc -> (q <= w1)%Qc ->
  exists l1 a l2,
    ys = l1 ++ a :: l2 /\
    a_quantile rnd64 m s q = Some (repr m (fst a)) /\
    (wsum l1 - 1 - gridv k 1 < q * (wsum ys - 1))%Qc /\
    (q * (wsum ys - 1) < wsum l1 + snd a + gridv k 1)%Qc.
Proof.
  intros Hk M0 Im.
  exact (weighted_quantile_grid_unit_rnd64 m k Hk M0 (fun x y a b c => Im x y (conj a b) c) xs ys s q n).
Qed.
Print Assumptions I_C11_weighted_quantile_grid_unit_rnd64.
Theorem I_C11_weighted_quantile_grid_absorbed_rnd64
  (m : amapping) (k : Z) (xs ys : list item) (s : asketch) (q : Qc) (n : Z) :
  0 <= k <= 53 -> (w0 <= am_min m)%Qc ->
  (forall x y, (am_min m < x)%Qc /\ (x <= y)%Qc -> (y <= am_max m)%Qc -> am_index m x <= am_index m y) ->
  a_add_list m a_new xs = Some s -> Permutation xs ys -> StronglySorted vle ys -> gridw k ys ->
  ys <> [] -> wsum ys = gridv k n -> n <= 2 ^ 53 -> dyadic q -> (w0 <= q)%Qc -> (q <= w1)%Qc ->
  exists a, In a xs /\ a_quantile rnd64 m s q = Some (repr m (fst a)).
Proof.
  intros Hk M0 Im.
  exact (weighted_quantile_grid_absorbed_rnd64 m k Hk M0 (fun x y a b c => Im x y (conj a b) c) xs ys s q n).
Qed.
Print Assumptions I_C11_weighted_quantile_grid_absorbed_rnd64.
Theorem I_C11_weighted_quantile_grid_between_rnd64
  (m : amapping) (k : Z) (xs ys : list item) (s : asketch) (q : Qc) (n : Z) :
  0 <= k <= 53 -> (w0 <= am_min m)%Qc ->
  (forall x y, (am_min m < x)%Qc /\ (x <= y)%Qc -> (y <= am_max m)%Qc -> am_index m x <= am_index m y) ->
  vals_mono_on m s -> vals_nonneg_on m s ->
  a_add_list m a_new xs = Some s -> Permutation xs ys -> StronglySorted vle ys -> gridw k ys ->
  ys <> [] -> wsum ys = gridv k n -> n <= 2 ^ 53 -> dyadic q -> (w0 <= q)%Qc -> (q <= w1)%Qc ->
  exists lo hi y, a_min m s = Some lo /\ a_max m s = Some hi /\
    a_quantile rnd64 m s q = Some y /\ (lo <= y)%Qc /\ (y <= hi)%Qc.
Proof.
  intros Hk M0 Im.
  exact (weighted_quantile_grid_between_rnd64 m k Hk M0 (fun x y a b c => Im x y (conj a b) c) xs ys s q n).
Qed.
Print Assumptions I_C11_weighted_quantile_grid_between_rnd64.

(* a concrete instance: values 3, -2, 7, 5 with weights 1/4, 1/4, 1/2, 3/4 (k = 2, W = 7/4), q = 1/2:
   q (W - 1) = 3/8 lies between the grid points 1/4 and 1/2; the answer is the representative 3 of
   ys[1] whose cumulative interval [1/4, 1/2) contains t / 4 = 1/4.  And a total below one
   (weights 1/4, 1/4): q (W - 1) < 0, the rank is clamped at 0 and the first value is answered *)
Definition ex3_m : amapping :=
  {| am_index := cceil; am_value := inj; am_min := w0; am_max := inj 1000 |}.
Definition ex3_q (z : Z) (d : positive) : Qc := Q2Qc (z # d).
Definition ex3_xs : list item :=
  [(inj 3, ex3_q 1 4); (inj (-2), ex3_q 1 4); (inj 7, ex3_q 1 2); (inj 5, ex3_q 3 4)].
Definition ex3_ys : list item :=
  [(inj (-2), ex3_q 1 4); (inj 3, ex3_q 1 4); (inj 5, ex3_q 3 4); (inj 7, ex3_q 1 2)].
Definition ex3_half : f64 := f64_of_bits 4602678819172646912.     (* 0.5 *)
Definition ex3_p9 : f64 := f64_of_bits 4606281698874543309.       (* 0.9 *)
Example C11_example_grid :
  gridw 2 ex3_ys /\ wsum ex3_ys = gridv 2 7 /\ Permutation ex3_xs ex3_ys /\ StronglySorted vle ex3_ys /\
  fle f64_zero ex3_half = true /\ fle ex3_half f64_one = true /\
  gfl 2 (f2q ex3_half * (wsum ex3_ys - 1))%Qc = 1 /\ gcl 2 (f2q ex3_half * (wsum ex3_ys - 1))%Qc = 2 /\
  match a_add_list ex3_m a_new ex3_xs with
  | Some s => option_map this (a_quantile rnd64 ex3_m s (f2q ex3_half))
  | None => None
  end = Some (3 # 1)%Q /\
  (* W = 1/2 < 1 *)
  match a_add_list ex3_m a_new [(inj 5, ex3_q 1 4); (inj 9, ex3_q 1 4)] with
  | Some s => option_map this (a_quantile rnd64 ex3_m s (f2q ex3_p9))
  | None => None
  end = Some (5 # 1)%Q.
Proof.
  split.
  { unfold ex3_ys. repeat constructor; cbn [snd];
      [exists 1|exists 1|exists 3|exists 2]; (split; [lia|apply Qc_is_canon; vm_compute; reflexivity]). }
  split; [apply Qc_is_canon; vm_compute; reflexivity|].
  split.
  { unfold ex3_xs, ex3_ys. apply perm_trans with ([(inj (-2), ex3_q 1 4); (inj 3, ex3_q 1 4); (inj 7, ex3_q 1 2); (inj 5, ex3_q 3 4)]).
    - apply perm_swap.
    - do 2 apply perm_skip. apply perm_swap. }
  split; [unfold ex3_ys; repeat constructor; vm_compute; discriminate|].
  repeat split; vm_compute; reflexivity.
Qed.

(* ================================================================== *)
(** * C12  on the executed sketch                                      *)
(* ================================================================== *)

(* 5. a run of AddWithCount never panics, keeps the invariant and the kinds; its abstraction is the
   Layer A build with the limits of the two stores *)
Theorem C12_exec_add_list_refines mt l s :
  mt_ok mt -> SkInv s -> adds_ok mt l ->
  exists s', plain_add_list mt s l = ROk s' /\ SkInv s' /\ sk_same s s' /\
             sk_abs s' = a_build (am_of mt) (sk_lp s) (sk_ln s) (sk_abs s) (qitems l).
Proof. exact (plain_add_list_refines mt l s). Qed.
Print Assumptions C12_exec_add_list_refines.
Theorem C12_exec_built_refines mt mid kp kn exact l :
  mt_ok mt -> kind_ok kp -> kind_ok kn -> adds_ok mt l ->
  exists s ax, plain_add_list mt (sk_new mid kp kn exact) l = ROk s /\ SkInv s /\
    a_add_list (am_of mt) a_new (qitems l) = Some ax /\ awf ax /\
    sk_abs s = a_norm (kind_limit kp) (kind_limit kn) ax /\
    sk_abs s = a_build (am_of mt) (kind_limit kp) (kind_limit kn) a_new (qitems l) /\
    st_kind (sk_pos s) = kp /\ st_kind (sk_neg s) = kn.
Proof. intros Hm Hp Hn. exact (built_refines mt mid kp kn exact Hm Hp Hn l). Qed.
Print Assumptions C12_exec_built_refines.

(* 6. GetMinValue / GetMaxValue, stores of ANY kind (collapsing included): the representative of the
   true extreme with its key clamped to the retained window ([ax] = the exact Layer A sketch of the
   same input; repr_c_def in Props/Sketch2.v) *)
Theorem C12_exec_min mt mid kp kn exact l vc :
  mt_ok mt -> kind_ok kp -> kind_ok kn -> (w0 <= f2q (mt_min mt))%Qc ->
  (forall x y : Qc, (f2q (mt_min mt) < x)%Qc -> (x <= y)%Qc -> (y <= f2q (mt_max mt))%Qc -> mt_index mt x <= mt_index mt y) ->
  adds_ok mt l -> wpos_adds l -> In vc l -> (forall b, In b l -> (f2q (fst vc) <= f2q (fst b))%Qc) ->
  exists s ax, plain_add_list mt (sk_new mid kp kn exact) l = ROk s /\
    a_add_list (am_of mt) a_new (qitems l) = Some ax /\
    plain_min mt s = ROk (repr_c (am_of mt) (kind_limit kp) (kind_limit kn) ax (f2q (fst vc))).
Proof. intros Hm Hp Hn M0 Im. exact (built_min mt mid kp kn exact Hm Hp Hn M0 Im l vc). Qed.
Print Assumptions C12_exec_min.
Theorem C12_exec_max mt mid kp kn exact l vc :
  mt_ok mt -> kind_ok kp -> kind_ok kn -> (w0 <= f2q (mt_min mt))%Qc ->
  (forall x y : Qc, (f2q (mt_min mt) < x)%Qc -> (x <= y)%Qc -> (y <= f2q (mt_max mt))%Qc -> mt_index mt x <= mt_index mt y) ->
  adds_ok mt l -> wpos_adds l -> In vc l -> (forall b, In b l -> (f2q (fst b) <= f2q (fst vc))%Qc) ->
  exists s ax, plain_add_list mt (sk_new mid kp kn exact) l = ROk s /\
    a_add_list (am_of mt) a_new (qitems l) = Some ax /\
    plain_max mt s = ROk (repr_c (am_of mt) (kind_limit kp) (kind_limit kn) ax (f2q (fst vc))).
Proof. intros Hm Hp Hn M0 Im. exact (built_max mt mid kp kn exact Hm Hp Hn M0 Im l vc). Qed.
Print Assumptions C12_exec_max.
(* when the bin of the extreme is retained (always, for non-collapsing stores: retained Exact = True):
   the representative itself, hence within alpha of the true extreme *)
Theorem C12_exec_min_exact mt mid kp kn exact l vc alpha :
  mt_ok mt -> kind_ok kp -> kind_ok kn -> (w0 <= f2q (mt_min mt))%Qc ->
  (forall x y : Qc, (f2q (mt_min mt) < x)%Qc -> (x <= y)%Qc -> (y <= f2q (mt_max mt))%Qc -> mt_index mt x <= mt_index mt y) ->
  adds_ok mt l -> wpos_adds l -> In vc l -> (forall b, In b l -> (f2q (fst vc) <= f2q (fst b))%Qc) ->
  retained (kind_limit kn) (a_neg (a_build (am_of mt) Exact Exact a_new (qitems l))) (mt_index mt (- f2q (fst vc))%Qc) ->
  retained (kind_limit kp) (a_pos (a_build (am_of mt) Exact Exact a_new (qitems l))) (mt_index mt (f2q (fst vc))) ->
  (forall x, (f2q (mt_min mt) < x)%Qc -> (x <= f2q (mt_max mt))%Qc ->
             (Qcabs (mt_value mt (mt_index mt x) - x) <= alpha * x)%Qc) ->
  exists s lo, plain_add_list mt (sk_new mid kp kn exact) l = ROk s /\
    plain_min mt s = ROk lo /\ lo = repr (am_of mt) (f2q (fst vc)) /\
    (((Qcabs (f2q (fst vc)) <= f2q (mt_min mt))%Qc /\ lo = w0) \/
     (Qcabs (lo - f2q (fst vc)) <= alpha * Qcabs (f2q (fst vc)))%Qc).
Proof. intros Hm Hp Hn M0 Im. exact (built_min_exact mt mid kp kn exact Hm Hp Hn M0 Im l vc alpha). Qed.
Print Assumptions C12_exec_min_exact.
Theorem C12_exec_max_exact mt mid kp kn exact l vc alpha :
  mt_ok mt -> kind_ok kp -> kind_ok kn -> (w0 <= f2q (mt_min mt))%Qc ->
  (forall x y : Qc, (f2q (mt_min mt) < x)%Qc -> (x <= y)%Qc -> (y <= f2q (mt_max mt))%Qc -> mt_index mt x <= mt_index mt y) ->
  adds_ok mt l -> wpos_adds l -> In vc l -> (forall b, In b l -> (f2q (fst b) <= f2q (fst vc))%Qc) ->
  retained (kind_limit kn) (a_neg (a_build (am_of mt) Exact Exact a_new (qitems l))) (mt_index mt (- f2q (fst vc))%Qc) ->
  retained (kind_limit kp) (a_pos (a_build (am_of mt) Exact Exact a_new (qitems l))) (mt_index mt (f2q (fst vc))) ->
  (forall x, (f2q (mt_min mt) < x)%Qc -> (x <= f2q (mt_max mt))%Qc ->
             (Qcabs (mt_value mt (mt_index mt x) - x) <= alpha * x)%Qc) ->
  exists s hi, plain_add_list mt (sk_new mid kp kn exact) l = ROk s /\
    plain_max mt s = ROk hi /\ hi = repr (am_of mt) (f2q (fst vc)) /\
    (((Qcabs (f2q (fst vc)) <= f2q (mt_min mt))%Qc /\ hi = w0) \/
     (Qcabs (hi - f2q (fst vc)) <= alpha * Qcabs (f2q (fst vc)))%Qc).
Proof. intros Hm Hp Hn M0 Im. exact (built_max_exact mt mid kp kn exact Hm Hp Hn M0 Im l vc alpha). Qed.
Print Assumptions C12_exec_max_exact.

(* 7. the sum of value * weight over what ForEach reports (= GetSum): non-collapsing stores, same-signed
   data beyond the minimum indexable magnitude (or exact zeros): within alpha of the true weighted sum *)
Theorem C12_exec_sum mt mid kp kn exact l alpha :
  mt_ok mt -> kind_ok kp -> kind_ok kn -> (w0 <= f2q (mt_min mt))%Qc ->
  kind_limit kp = Exact -> kind_limit kn = Exact ->
  adds_ok mt l -> (forall vc, In vc l -> sum_ok (am_of mt) (f2q (fst vc), f2q (snd vc))) ->
  (forall x, (f2q (mt_min mt) < x)%Qc -> (x <= f2q (mt_max mt))%Qc ->
             (Qcabs (mt_value mt (mt_index mt x) - x) <= alpha * x)%Qc) ->
  (forall vc, In vc l -> (w0 <= f2q (fst vc))%Qc) \/ (forall vc, In vc l -> (f2q (fst vc) <= w0)%Qc) ->
  exists s s' its, plain_add_list mt (sk_new mid kp kn exact) l = ROk s /\
    sk_foreach mt s = Some (s', its) /\ sk_abs s' = sk_abs s /\
    isum its = rsum (am_of mt) (qitems l) /\
    (Qcabs (isum its - isum (qitems l)) <= alpha * Qcabs (isum (qitems l)))%Qc.
Proof. intros Hm Hp Hn M0. exact (built_sum mt mid kp kn exact Hm Hp Hn M0 l alpha). Qed.
Print Assumptions C12_exec_sum.

(* 8. GetValueAtQuantile with binary64 rank arithmetic (repaired code: fD4, fD5) *)
Theorem C12_exec_quantile_is_layerA fx mt s q :
  fD4 fx = true -> fD5 fx = true ->
  quantile_ready s -> fle f64_zero q = true -> fle q f64_one = true ->
  exists s' y, plain_quantile rnd64 fx mt s q = (s', ROk y) /\ SkInv s' /\ sk_abs s' = sk_abs s /\
               a_quantile rndQ (am_of mt) (sk_abs s) (f2q q) = Some y.
Proof. intros F4 F5. exact (exec_quantile_is_layerA fx F4 F5 mt s q). Qed.
Print Assumptions C12_exec_quantile_is_layerA.
(* non-decreasing in q; value premises on the keys the sketch holds only *)
Theorem C12_exec_quantile_mono fx mt s q1 q2 s1 s2 y1 y2 :
  fD4 fx = true -> fD5 fx = true ->
  quantile_ready s -> vals_pos_on (am_of mt) (sk_abs s) -> vals_mono_on (am_of mt) (sk_abs s) ->
  fle f64_zero q1 = true -> fle q1 f64_one = true -> fle f64_zero q2 = true -> fle q2 f64_one = true ->
  fle q1 q2 = true ->
  plain_quantile rnd64 fx mt s q1 = (s1, ROk y1) -> plain_quantile rnd64 fx mt s q2 = (s2, ROk y2) ->
  (y1 <= y2)%Qc.
Proof. intros F4 F5. exact (exec_quantile_mono fx F4 F5 mt s q1 q2 s1 s2 y1 y2). Qed.
Print Assumptions C12_exec_quantile_mono.
(* between GetMinValue and GetMaxValue *)
Theorem C12_exec_quantile_bounds fx mt s q s' y lo hi :
  fD4 fx = true -> fD5 fx = true ->
  quantile_ready s -> vals_pos_on (am_of mt) (sk_abs s) -> vals_mono_on (am_of mt) (sk_abs s) ->
  fle f64_zero q = true -> fle q f64_one = true ->
  plain_quantile rnd64 fx mt s q = (s', ROk y) -> plain_min mt s = ROk lo -> plain_max mt s = ROk hi ->
  (lo <= y <= hi)%Qc.
Proof. intros F4 F5. exact (exec_quantile_bounds fx F4 F5 mt s q s' y lo hi). Qed.
Print Assumptions C12_exec_quantile_bounds.
(* every sketch built from a new one (stores of any kind) by additions with weights on a grid 2^-k,
   k <= 53, of total * 2^k <= 2^53 is ready *)
Theorem C12_exec_built_quantile_ready mt mid kp kn exact l k n :
  mt_ok mt -> kind_ok kp -> kind_ok kn ->
  adds_ok mt l -> l <> [] -> 0 <= k <= 53 -> gridw k (qitems l) ->
  wsum (qitems l) = gridv k n -> n <= 2 ^ 53 ->
  exists s, plain_add_list mt (sk_new mid kp kn exact) l = ROk s /\ quantile_ready s /\
            plain_count s = gridv k n.
Proof. exact (built_quantile_ready mt mid kp kn exact l k n). Qed.
Print Assumptions C12_exec_built_quantile_ready.

(* a concrete run: floor as the index, indexable range (2^-10, 1024]; values 2.5, 7, -3, 0 with
   weights 1, 0.5, 2, 0.5 (grid 2^-1, total 4 = 8 / 2); stores of two pairs of kinds *)
Definition x3_f (b : N) : f64 := f64_of_bits b.
Definition x3_2p5 := x3_f 4612811918334230528.     (* 2.5 *)
Definition x3_2 := x3_f 4611686018427387904.       (* 2 *)
Definition x3_half := x3_f 4602678819172646912.    (* 0.5 *)
Definition x3_7 := x3_f 4619567317775286272.       (* 7 *)
Definition x3_m3 := x3_f 13837309855095848960.     (* -3 *)
Definition x3_mt : mtable :=
  {| mt_index := fun q => Qfloor (this q); mt_value := fun i => w_of_Z (Z.max 1 i);
     mt_min := x3_f 4562146422526312448; mt_max := x3_f 4652218415073722368 |}.
Definition x3_map : mapid := {| mk_kind := 0%N; mk_gamma := f64_one; mk_off := f64_zero |}.
Definition x3_l : list (f64 * f64) := [(x3_2p5, f64_one); (x3_7, x3_half); (x3_m3, x3_2); (f64_zero, x3_half)].
Lemma x3_mt_ok : mt_ok x3_mt.
Proof.
  split; [vm_compute; reflexivity|]. split; [vm_compute; reflexivity|].
  assert (Emin : f2q (mt_min x3_mt) = Q2Qc (1 # 1024)) by (apply Qc_is_canon; vm_compute; reflexivity).
  assert (Emax : f2q (mt_max x3_mt) = Q2Qc (1024 # 1)) by (apply Qc_is_canon; vm_compute; reflexivity).
  rewrite Emin, Emax. intros x Hlo Hhi. cbn [x3_mt mt_index].
  assert (H0 : 0 <= Qfloor (this x)).
  { change 0 with (Qfloor 0). apply Qfloor_resp_le. apply Qlt_le_weak. eapply Qle_lt_trans; [|exact Hlo]. discriminate. }
  assert (H1 : Qfloor (this x) <= 1024).
  { change 1024 with (Qfloor (this (Q2Qc (1024 # 1)))). apply Qfloor_resp_le. exact Hhi. }
  unfold idx_ok, MinInt32, MaxInt32. lia.
Qed.
Lemma x3_idx_mono (x y : Qc) :
  (f2q (mt_min x3_mt) < x)%Qc -> (x <= y)%Qc -> (y <= f2q (mt_max x3_mt))%Qc -> mt_index x3_mt x <= mt_index x3_mt y.
Proof. intros _ H _. cbn [x3_mt mt_index]. apply Qfloor_resp_le. exact H. Qed.
Lemma x3_adds_ok : adds_ok x3_mt x3_l.
Proof.
  unfold adds_ok, x3_l.
  repeat (apply Forall_cons; [cbn [fst snd]; split; [vm_compute; reflexivity|]; split; [vm_compute; reflexivity|];
                              split; apply wleb_le; vm_compute; reflexivity|]).
  apply Forall_nil.
Qed.
Example C12_example_exec :
  mt_ok x3_mt /\ (w0 <= f2q (mt_min x3_mt))%Qc /\ adds_ok x3_mt x3_l /\ wpos_adds x3_l /\
  gridw 1 (qitems x3_l) /\ wsum (qitems x3_l) = gridv 1 8 /\
  forallb (fun kk =>
    match plain_add_list x3_mt (sk_new x3_map (fst kk) (snd kk) false) x3_l with
    | ROk s =>
      match plain_min x3_mt s, plain_max x3_mt s, snd (plain_quantile rnd64 fx_all x3_mt s x3_half) with
      | ROk lo, ROk hi, ROk y =>
        weqb lo (repr (am_of x3_mt) (f2q x3_m3)) && weqb hi (repr (am_of x3_mt) (f2q x3_7)) &&
        weqb lo (Qcopp (w_of_Z 3)) && weqb hi (w_of_Z 7) && wleb lo y && wleb y hi
      | _, _, _ => false
      end
    | _ => false
    end) [(KDense, KSparse); (KPag, KLow 2); (KLow 1, KHigh 1)] = true.
Proof.
  split; [exact x3_mt_ok|]. split; [apply wleb_le; vm_compute; reflexivity|]. split; [exact x3_adds_ok|].
  split.
  { unfold wpos_adds, x3_l. repeat (apply Forall_cons; [apply wltb_lt; vm_compute; reflexivity|]). apply Forall_nil. }
  split.
  { unfold x3_l, qitems. cbn [map fst snd]. repeat constructor; cbn [snd];
      [exists 2|exists 1|exists 4|exists 1]; (split; [lia|apply Qc_is_canon; vm_compute; reflexivity]). }
  split; [apply Qc_is_canon; vm_compute; reflexivity|].
  vm_compute. reflexivity.
Qed.

(* ================================================================== *)
(** * C20  the rounded rank against the literal rank                   *)
(* ================================================================== *)
Module DP := Data.DatasetProofs.

(* 9. any monotone rounding that fixes the integers 0 .. B: floor (rnd r) is floor r unless the
   rounding carries r up to the next integer, ceil (rnd r) is ceil r unless it carries r down to the
   previous one; in both cases r is not an integer and the index moves to the other neighbour *)
Theorem C20_floor_of_rounded (rnd : Qc -> Qc) (B : Z) (r : Qc) :
  (forall x y : Qc, (x <= y)%Qc -> (rnd x <= rnd y)%Qc) ->
  (forall z : Z, 0 <= z <= B -> rnd (DP.inj z) = DP.inj z) ->
  0 <= qfloor r -> qceil r <= B ->
  (qfloor (rnd r) = qfloor r /\ (rnd r < DP.inj (qfloor r + 1))%Qc) \/
  (qfloor (rnd r) = qfloor r + 1 /\ rnd r = DP.inj (qfloor r + 1) /\ (r < rnd r)%Qc /\
   qceil r = qfloor r + 1).
Proof. intros Hm Hi. exact (floor_of_rounded rnd B Hm Hi r). Qed.
Print Assumptions C20_floor_of_rounded.
Theorem C20_ceil_of_rounded (rnd : Qc -> Qc) (B : Z) (r : Qc) :
  (forall x y : Qc, (x <= y)%Qc -> (rnd x <= rnd y)%Qc) ->
  (forall z : Z, 0 <= z <= B -> rnd (DP.inj z) = DP.inj z) ->
  0 <= qfloor r -> qceil r <= B ->
  (qceil (rnd r) = qceil r /\ (DP.inj (qceil r - 1) < rnd r)%Qc) \/
  (qceil (rnd r) = qceil r - 1 /\ rnd r = DP.inj (qceil r - 1) /\ (rnd r < r)%Qc /\
   qfloor r = qceil r - 1).
Proof. intros Hm Hi. exact (ceil_of_rounded rnd B Hm Hi r). Qed.
Print Assumptions C20_ceil_of_rounded.
Theorem C20_literal_when_exact (rnd : Qc -> Qc) (r : Qc) :
  rnd r = r -> qfloor (rnd r) = qfloor r /\ qceil (rnd r) = qceil r.
Proof. exact (literal_when_exact rnd r). Qed.
Print Assumptions C20_literal_when_exact.

(* 10. binary64: the index moves only when r is within RELATIVE distance 2^-53 of the integer it is
   carried to *)
Theorem I_C20_rndQ_floor_crossing (r : Qc) :
  0 <= qfloor r -> qceil r <= 2 ^ 53 -> qfloor (rndQ r) <> qfloor r ->
  qfloor (rndQ r) = qfloor r + 1 /\ (r < DP.inj (qfloor r + 1))%Qc /\
  (DP.inj (qfloor r + 1) - r <= eps53 * r)%Qc.
Proof. exact (rndQ_floor_crossing r). Qed.
Print Assumptions I_C20_rndQ_floor_crossing.
Theorem I_C20_rndQ_ceil_crossing (r : Qc) :
  0 <= qfloor r -> qceil r <= 2 ^ 53 -> ((w0 < r)%Qc -> (gridv 1074 1 <= r)%Qc) ->
  qceil (rndQ r) <> qceil r ->
  qceil (rndQ r) = qceil r - 1 /\ (DP.inj (qceil r - 1) < r)%Qc /\
  (r - DP.inj (qceil r - 1) <= eps53 * r)%Qc.
Proof. exact (rndQ_ceil_crossing r). Qed.
Print Assumptions I_C20_rndQ_ceil_crossing.
(* the premise on tiny ranks holds for a binary64 q and n >= 2 values *)
Theorem I_C20_float_pos_ge_min (x : f64) : (w0 < f2q x)%Qc -> (gridv 1074 1 <= f2q x)%Qc.
Proof. exact (float_pos_ge_min x). Qed.
Print Assumptions I_C20_float_pos_ge_min.
Theorem I_C20_rank_min_of_float (x : f64) (n : nat) :
  (2 <= n)%nat -> (w0 < f2q x * (DP.inj (Z.of_nat n) - 1))%Qc ->
  (gridv 1074 1 <= f2q x * (DP.inj (Z.of_nat n) - 1))%Qc.
Proof. exact (rank_min_of_float x n). Qed.
Print Assumptions I_C20_rank_min_of_float.

(* 11. the dataset: LowerQuantile returns the order statistic at floor (q (n - 1)), except that it
   returns the one at ceil (q (n - 1)) when q (n - 1) is a non-integer within 2^-53 (relative) below
   that integer; UpperQuantile symmetrically *)
Theorem I_C20_lower_vs_literal_rndQ (sort : list Qc -> list Qc) (pre : list DP.op) (q : Qc) :
  (forall l, Sorted Qcle (sort l)) -> (forall l, Permutation l (sort l)) ->
  let xs := DP.adds pre in
  let r := (q * (DP.inj (Z.of_nat (length xs)) - 1))%Qc in
  xs <> [] -> (w0 <= q)%Qc -> (q <= w1)%Qc -> Z.of_nat (length xs) - 1 <= 2 ^ 53 ->
  exists j : Z,
    snd (DP.run sort rndQ (pre ++ [DP.OLower (Some q)]) d_new) =
      snd (DP.run sort rndQ pre d_new) ++ [nth_error (sort xs) (Z.to_nat j)] /\
    0 <= j <= Z.of_nat (length xs) - 1 /\
    (j = qfloor r \/
     (j = qfloor r + 1 /\ j = qceil r /\ (r < DP.inj j)%Qc /\ (DP.inj j - r <= eps53 * r)%Qc)).
Proof. intros Hs Hp. exact (lower_vs_literal_rndQ sort Hs Hp pre q). Qed.
Print Assumptions I_C20_lower_vs_literal_rndQ.
Theorem I_C20_upper_vs_literal_rndQ (sort : list Qc -> list Qc) (pre : list DP.op) (q : Qc) :
  (forall l, Sorted Qcle (sort l)) -> (forall l, Permutation l (sort l)) ->
  let xs := DP.adds pre in
  let r := (q * (DP.inj (Z.of_nat (length xs)) - 1))%Qc in
  xs <> [] -> (w0 <= q)%Qc -> (q <= w1)%Qc -> Z.of_nat (length xs) - 1 <= 2 ^ 53 ->
  ((w0 < r)%Qc -> (gridv 1074 1 <= r)%Qc) ->
  exists j : Z,
    snd (DP.run sort rndQ (pre ++ [DP.OUpper (Some q)]) d_new) =
      snd (DP.run sort rndQ pre d_new) ++ [nth_error (sort xs) (Z.to_nat j)] /\
    0 <= j <= Z.of_nat (length xs) - 1 /\
    (j = qceil r \/
     (j = qceil r - 1 /\ j = qfloor r /\ (DP.inj j < r)%Qc /\ (r - DP.inj j <= eps53 * r)%Qc)).
Proof. intros Hs Hp. exact (upper_vs_literal_rndQ sort Hs Hp pre q). Qed.
Print Assumptions I_C20_upper_vs_literal_rndQ.
(* THE LITERAL STATEMENT, under the condition that makes it true: the rank is farther than 2^-53
   (relative) from the next / previous integer, or exactly representable *)
Theorem I_C20_lower_literal_rndQ (sort : list Qc -> list Qc) (pre : list DP.op) (q : Qc) :
  (forall l, Sorted Qcle (sort l)) -> (forall l, Permutation l (sort l)) ->
  let xs := DP.adds pre in
  let r := (q * (DP.inj (Z.of_nat (length xs)) - 1))%Qc in
  xs <> [] -> (w0 <= q)%Qc -> (q <= w1)%Qc -> Z.of_nat (length xs) - 1 <= 2 ^ 53 ->
  (eps53 * r < DP.inj (qfloor r + 1) - r)%Qc ->
  snd (DP.run sort rndQ (pre ++ [DP.OLower (Some q)]) d_new) =
    snd (DP.run sort rndQ pre d_new) ++ [nth_error (sort xs) (Z.to_nat (qfloor r))].
Proof. intros Hs Hp. exact (lower_literal_rndQ sort Hs Hp pre q). Qed.
Print Assumptions I_C20_lower_literal_rndQ.
Theorem I_C20_upper_literal_rndQ (sort : list Qc -> list Qc) (pre : list DP.op) (q : Qc) :
  (forall l, Sorted Qcle (sort l)) -> (forall l, Permutation l (sort l)) ->
  let xs := DP.adds pre in
  let r := (q * (DP.inj (Z.of_nat (length xs)) - 1))%Qc in
  xs <> [] -> (w0 <= q)%Qc -> (q <= w1)%Qc -> Z.of_nat (length xs) - 1 <= 2 ^ 53 ->
  ((w0 < r)%Qc -> (gridv 1074 1 <= r)%Qc) ->
  (eps53 * r < r - DP.inj (qceil r - 1))%Qc ->
  snd (DP.run sort rndQ (pre ++ [DP.OUpper (Some q)]) d_new) =
    snd (DP.run sort rndQ pre d_new) ++ [nth_error (sort xs) (Z.to_nat (qceil r))].
Proof. intros Hs Hp. exact (upper_literal_rndQ sort Hs Hp pre q). Qed.
Print Assumptions I_C20_upper_literal_rndQ.
Theorem I_C20_literal_exact_rank_rndQ (sort : list Qc -> list Qc) (pre : list DP.op) (q : Qc) :
  (forall l, Sorted Qcle (sort l)) -> (forall l, Permutation l (sort l)) ->
  let xs := DP.adds pre in
  let r := (q * (DP.inj (Z.of_nat (length xs)) - 1))%Qc in
  xs <> [] -> (w0 <= q)%Qc -> (q <= w1)%Qc -> Z.of_nat (length xs) - 1 <= 2 ^ 53 ->
  rndQ r = r ->
  snd (DP.run sort rndQ (pre ++ [DP.OLower (Some q)]) d_new) =
    snd (DP.run sort rndQ pre d_new) ++ [nth_error (sort xs) (Z.to_nat (qfloor r))] /\
  snd (DP.run sort rndQ (pre ++ [DP.OUpper (Some q)]) d_new) =
    snd (DP.run sort rndQ pre d_new) ++ [nth_error (sort xs) (Z.to_nat (qceil r))].
Proof. intros Hs Hp. exact (literal_exact_rank_rndQ sort Hs Hp pre q). Qed.
Print Assumptions I_C20_literal_exact_rank_rndQ.
(* the executed operator, histories whose quantile arguments are binary64 values *)
Theorem I_C20_lower_vs_literal_rnd64 (sort : list Qc -> list Qc) (pre : list DP.op) (q : Qc) :
  (forall l, Sorted Qcle (sort l)) -> (forall l, Permutation l (sort l)) ->
  let xs := DP.adds pre in
  let r := (q * (DP.inj (Z.of_nat (length xs)) - 1))%Qc in
  Forall dy_op pre -> dyadic q ->
  xs <> [] -> (w0 <= q)%Qc -> (q <= w1)%Qc -> Z.of_nat (length xs) - 1 <= 2 ^ 53 ->
  exists j : Z,
    snd (DP.run sort rnd64 (pre ++ [DP.OLower (Some q)]) d_new) =
      snd (DP.run sort rnd64 pre d_new) ++ [nth_error (sort xs) (Z.to_nat j)] /\
    0 <= j <= Z.of_nat (length xs) - 1 /\
    (j = qfloor r \/
     (j = qfloor r + 1 /\ j = qceil r /\ (r < DP.inj j)%Qc /\ (DP.inj j - r <= eps53 * r)%Qc)).
Proof. intros Hs Hp. exact (lower_vs_literal_rnd64 sort Hs Hp pre q). Qed.
Print Assumptions I_C20_lower_vs_literal_rnd64.
Theorem I_C20_upper_vs_literal_rnd64 (sort : list Qc -> list Qc) (pre : list DP.op) (q : Qc) :
  (forall l, Sorted Qcle (sort l)) -> (forall l, Permutation l (sort l)) ->
  let xs := DP.adds pre in
  let r := (q * (DP.inj (Z.of_nat (length xs)) - 1))%Qc in
  Forall dy_op pre -> dyadic q ->
  xs <> [] -> (w0 <= q)%Qc -> (q <= w1)%Qc -> Z.of_nat (length xs) - 1 <= 2 ^ 53 ->
  ((w0 < r)%Qc -> (gridv 1074 1 <= r)%Qc) ->
  exists j : Z,
    snd (DP.run sort rnd64 (pre ++ [DP.OUpper (Some q)]) d_new) =
      snd (DP.run sort rnd64 pre d_new) ++ [nth_error (sort xs) (Z.to_nat j)] /\
    0 <= j <= Z.of_nat (length xs) - 1 /\
    (j = qceil r \/
     (j = qceil r - 1 /\ j = qfloor r /\ (DP.inj j < r)%Qc /\ (r - DP.inj j <= eps53 * r)%Qc)).
Proof. intros Hs Hp. exact (upper_vs_literal_rnd64 sort Hs Hp pre q). Qed.
Print Assumptions I_C20_upper_vs_literal_rnd64.

(* 12. the literal reading IS false for the executed arithmetic.
   n = 4, q = 0.3333333333333333 (the binary64 nearest 1/3): q * 3 = 1 - 2^-54 exactly, which binary64
   rounds to 1.0; LowerQuantile reads Values[1] where floor (q (n - 1)) = 0.
   n = 6, q = 0.2 (the binary64 nearest 1/5, slightly above it): q * 5 = 1 + 2^-54 * ... > 1 exactly,
   rounded to 1.0; UpperQuantile reads Values[1] where ceil (q (n - 1)) = 2. *)
Definition c20_third : f64 := f64_of_bits 4599676419421066581.    (* 0x3FD5555555555555 *)
Definition c20_fifth : f64 := f64_of_bits 4596373779694328218.    (* 0x3FC999999999999A *)
Definition c20_vals (n : nat) : list DP.op := map (fun i => DP.OAdd (DP.inj (10 * Z.of_nat (S i)))) (seq 0 n).
Example C20_example_lower_not_literal :
  let q := f2q c20_third in
  let r := (q * (DP.inj 4 - 1))%Qc in
  fle f64_zero c20_third = true /\ fle c20_third f64_one = true /\
  weqb (DP.inj 1 - r)%Qc (Q2Qc (pow2Q (-54))) = true /\
  qfloor r = 0 /\ weqb (rnd64 r) (DP.inj 1) = true /\ qfloor (rnd64 r) = 1 /\
  map (option_map this) (snd (DP.run (fun l => l) rnd64 (c20_vals 4 ++ [DP.OLower (Some q)]) d_new))
    = [Some (20 # 1)%Q] /\
  option_map this (nth_error (map (fun i => DP.inj (10 * Z.of_nat (S i))) (seq 0 4)) (Z.to_nat (qfloor r)))
    = Some (10 # 1)%Q.
Proof. cbv zeta. repeat split; vm_compute; reflexivity. Qed.
Example C20_example_upper_not_literal :
  let q := f2q c20_fifth in
  let r := (q * (DP.inj 6 - 1))%Qc in
  fle f64_zero c20_fifth = true /\ fle c20_fifth f64_one = true /\
  wltb (DP.inj 1) r = true /\
  qceil r = 2 /\ weqb (rnd64 r) (DP.inj 1) = true /\ qceil (rnd64 r) = 1 /\
  map (option_map this) (snd (DP.run (fun l => l) rnd64 (c20_vals 6 ++ [DP.OUpper (Some q)]) d_new))
    = [Some (20 # 1)%Q] /\
  option_map this (nth_error (map (fun i => DP.inj (10 * Z.of_nat (S i))) (seq 0 6)) (Z.to_nat (qceil r)))
    = Some (30 # 1)%Q.
Proof. cbv zeta. repeat split; vm_compute; reflexivity. Qed.
