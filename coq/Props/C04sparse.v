(* C04, sparse store: the model is the Layer A finite map; Go's hash map is trusted, its iteration order is not. *)
From Coq Require Import Permutation.
From SK Require Import Spec.Bins Spec.BinsProofs Store.Sparse Store.SparseProofs.

Theorem C04s_add_with_count s i c : sp_add_with_count s i c = badd0 s i c.
Proof. exact (sp_add_with_count_badd0 s i c). Qed.
Print Assumptions C04s_add_with_count.
Theorem C04s_add s i : sp_add s i = badd0 s i w1.
Proof. exact (sp_add_badd s i). Qed.
Print Assumptions C04s_add.
Theorem C04s_merge_list s l : sp_merge_list s l = bmerge_list s l.
Proof. exact (sp_merge_list_bmerge_list s l). Qed.
Print Assumptions C04s_merge_list.
Theorem C04s_visit_order_irrelevant (visit : list (Z * W) -> list (Z * W)) (r s : bins) :
  (forall l, Permutation l (visit l)) -> wf r = true -> pos r -> nonneg s ->
  bmerge_list r (sp_foreach visit s) = bmerge_list r s.
Proof. exact (sp_visit_order_irrelevant visit r s). Qed.
Print Assumptions C04s_visit_order_irrelevant.
Theorem C04s_observers s : sp_total s = total s /\ sp_is_empty s = is_emptyb s /\ sp_min s = min_key s /\ sp_max s = max_key s.
Proof. exact (sp_observers s). Qed.
Print Assumptions C04s_observers.
Theorem C04s_clear s : sp_clear s = [].
Proof. exact (sp_clear_empty s). Qed.
Print Assumptions C04s_clear.
Theorem C04s_reweight s w : wltb w0 w = true -> weqb w w1 = false -> sp_reweight s w = Some (bscale w s).
Proof. exact (sp_reweight_spec s w). Qed.
Print Assumptions C04s_reweight.
