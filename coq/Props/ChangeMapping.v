(* Props/ChangeMapping — C17, change of mapping / unit ([DDSketch.ChangeMapping] and
   [changeStoreMapping], ddsketch/ddsketch.go): statements only.
   Model and all proofs: SK.Sketch.ChangeMapping (Part I = the model, exact rational arithmetic).

   Reading aid (plain definitions, unfold them to read the statements):
     lower1, lower2 : Z -> Qc   LowerBound of the old / the new mapping;  index2 : Qc -> Z  Index of
                                the new mapping;  scale : Qc  scaleFactor;
     guard : bool               true = the repaired loop body (skip when intersectionSize <= 0),
                                false = the legacy body;
     convert_bin l1 l2 ix sc g fuel i c acc   the inner loop for the source bin (i, c), adding into acc
                                              (None = fuel exhausted)
     bin_adds    l1 l2 ix sc g fuel i c       the list of (out, weight) it passes to AddWithCount
     bin_fuel    l1 ix sc i                   = Z.to_nat (ix inHigh - ix inLow + 2)
     convert_store l1 l2 ix sc g b            changeStoreMapping of the store b into an empty store,
                                              each bin with fuel bin_fuel
     convert_sketch l1 l2 ix sc g s           both stores converted, zero weight kept
     change_mapping l1 l2 ix sc g same s      ChangeMapping; same = IndexMapping.Equals(newMapping)
     gsum P b                                 sum of the weights of the bins of b whose index satisfies P
   Hypotheses are explicit premises:
     scale_pos    : 0 < scale
     lower1_incr  : forall i j, i < j -> lower1 i < lower1 j          (same for lower2)
     lower1_pos   : forall i, 0 < lower1 i
     index2_spec  : forall x, 0 < x -> lower2 (index2 x) <= x < lower2 (index2 x + 1)
   Source stores: [nonneg b] (no negative weight; canonical stores are [wf] and [pos]). *)
From Coq Require Import List ZArith QArith Qcanon Lia.
From SK Require Import Spec.Bins Spec.ASketch Spec.BinsProofs Sketch.ChangeMapping.
Import ListNotations.
Local Open Scope Z_scope.

(* ------------------------------------------------------------------ *)
(** * 1. no negative bin: the guard alone, NO hypothesis on the mappings, the index or the scale *)

(** every weight the repaired loop passes to AddWithCount is > 0 *)
Theorem C17_no_negative_bin_adds :
  forall (lower1 lower2 : Z -> Qc) (index2 : Qc -> Z) (scale : Qc) (fuel : nat) (i : Z) (c : W)
         (l : list (Z * W)),
  (w0 < c)%Qc -> bin_adds lower1 lower2 index2 scale true fuel i c = Some l ->
  Forall (fun kw => (w0 < snd kw)%Qc) l.
Proof. exact repaired_adds_pos. Qed.
Print Assumptions C17_no_negative_bin_adds.

(** one source bin: canonical, positive accumulator in, canonical, positive accumulator out *)
Theorem C17_no_negative_bin_step :
  forall (lower1 lower2 : Z -> Qc) (index2 : Qc -> Z) (scale : Qc) (fuel : nat) (i : Z) (c : W)
         (acc r : bins),
  (w0 <= c)%Qc -> wf acc = true -> pos acc ->
  convert_bin lower1 lower2 index2 scale true fuel i c acc = Some r ->
  wf r = true /\ pos r.
Proof. exact repaired_bin. Qed.
Print Assumptions C17_no_negative_bin_step.

Theorem C17_no_negative_bin :
  forall (lower1 lower2 : Z -> Qc) (index2 : Qc -> Z) (scale : Qc) (b r : bins),
  nonneg b -> convert_store lower1 lower2 index2 scale true b = Some r ->
  wf r = true /\ pos r.
Proof. exact repaired_store. Qed.
Print Assumptions C17_no_negative_bin.

Theorem C17_no_negative_bin_content :
  forall (lower1 lower2 : Z -> Qc) (index2 : Qc -> Z) (scale : Qc) (b r : bins) (j : Z),
  nonneg b -> convert_store lower1 lower2 index2 scale true b = Some r -> (w0 <= get r j)%Qc.
Proof. exact repaired_store_get. Qed.
Print Assumptions C17_no_negative_bin_content.

Theorem C17_no_negative_bin_sketch :
  forall (lower1 lower2 : Z -> Qc) (index2 : Qc -> Z) (scale : Qc) (s s' : asketch),
  nonneg (a_pos s) -> nonneg (a_neg s) ->
  convert_sketch lower1 lower2 index2 scale true s = Some s' ->
  (wf (a_pos s') = true /\ pos (a_pos s')) /\ (wf (a_neg s') = true /\ pos (a_neg s')).
Proof. exact repaired_sketch. Qed.
Print Assumptions C17_no_negative_bin_sketch.

(* ------------------------------------------------------------------ *)
(** * 2. the legacy body: kernel-checked witness of the old defect (D6)

    Tables: ex_lower k = 2^k on both sides, ex_scale = 1001/1000, source bins 1, 2, 3 of weight 1,
    and ex_index_off = the exact index except on [2, 201/100) where it answers 0 instead of 1
    (one bin too low just above an edge, as float64 rounding makes it). *)

Theorem C17_no_negative_bin_refuted_legacy :
  exists r : bins,
    convert_store ex_lower ex_lower ex_index_off ex_scale false ex_src = Some r /\
    (get r 0 < w0)%Qc.
Proof. exact legacy_witness. Qed.   (* legacy_witness is proved by vm_compute *)
Print Assumptions C17_no_negative_bin_refuted_legacy.

Example C17_legacy_witness_bins :
  option_map bins_Q (convert_store ex_lower ex_lower ex_index_off ex_scale false ex_src)
  = Some [(0, (-1 # 1001)%Q); (1, (999 # 1001)%Q); (2, 1%Q); (3, 1%Q); (4, (2 # 1001)%Q)].
Proof. vm_compute. reflexivity. Qed.

(** the legacy body also loses weight on this input (3002/1001 instead of 3) *)
Example C17_legacy_witness_total :
  option_map (fun r => this (total r))
    (convert_store ex_lower ex_lower ex_index_off ex_scale false ex_src) = Some (3002 # 1001)%Q.
Proof. vm_compute. reflexivity. Qed.

(** the repaired body on the same tables: no negative bin, weight 3 *)
Example C17_repaired_witness_bins :
  option_map bins_Q (convert_store ex_lower ex_lower ex_index_off ex_scale true ex_src)
  = Some [(1, (999 # 1001)%Q); (2, 1%Q); (3, 1%Q); (4, (2 # 1001)%Q)].
Proof. vm_compute. reflexivity. Qed.
Example C17_repaired_witness_total :
  option_map (fun r => this (total r))
    (convert_store ex_lower ex_lower ex_index_off ex_scale true ex_src) = Some 3%Q.
Proof. vm_compute. reflexivity. Qed.

(** the legacy body with the exact index: same result as the repaired body *)
Example C17_legacy_exact_index_bins :
  option_map bins_Q (convert_store ex_lower ex_lower ex_index_exact ex_scale false ex_src)
  = Some [(1, (999 # 1001)%Q); (2, 1%Q); (3, 1%Q); (4, (2 # 1001)%Q)].
Proof. vm_compute. reflexivity. Qed.

(** the index of the witness is off by exactly one bin, and only within 1/100 above the edge 2 *)
Theorem C17_legacy_witness_index_off_by_one :
  forall x : Qc,
    ex_index_off x = ex_index_exact x \/
    ((Q2Qc 2 <= x)%Qc /\ (x < Q2Qc (201 # 100))%Qc /\ ex_index_off x = ex_index_exact x - 1).
Proof. exact ex_index_off_spec. Qed.
Print Assumptions C17_legacy_witness_index_off_by_one.

(** hence "no negative bin" is false for the legacy body without a hypothesis on the index *)
Theorem C17_no_negative_bin_legacy_needs_index_spec :
  ~ (forall (lower1 lower2 : Z -> Qc) (index2 : Qc -> Z) (scale : Qc) (b r : bins),
       nonneg b -> convert_store lower1 lower2 index2 scale false b = Some r -> nonneg r).
Proof. exact legacy_not_nonneg. Qed.
Print Assumptions C17_no_negative_bin_legacy_needs_index_spec.

(* ------------------------------------------------------------------ *)
(** * 3. weight conserved (guard either way) *)

(** one source bin, whenever the loop returns (any fuel) *)
Theorem C17_weight_conserved_bin :
  forall (lower1 lower2 : Z -> Qc) (index2 : Qc -> Z) (scale : Qc) (guard : bool)
         (fuel : nat) (i : Z) (c : W) (acc r : bins),
  (w0 < scale)%Qc ->
  (forall i j, i < j -> (lower1 i < lower1 j)%Qc) -> (forall i, (0 < lower1 i)%Qc) ->
  (forall i j, i < j -> (lower2 i < lower2 j)%Qc) ->
  (forall x, (0 < x)%Qc -> (lower2 (index2 x) <= x)%Qc /\ (x < lower2 (index2 x + 1)%Z)%Qc) ->
  convert_bin lower1 lower2 index2 scale guard fuel i c acc = Some r ->
  total r = wadd (total acc) c.
Proof. exact convert_bin_total. Qed.
Print Assumptions C17_weight_conserved_bin.

(** the proportions of one source bin sum to 1: the weights passed to AddWithCount sum to c,
    are >= 0, and go only to overlapping target bins *)
Theorem C17_weight_conserved_bin_adds :
  forall (lower1 lower2 : Z -> Qc) (index2 : Qc -> Z) (scale : Qc) (guard : bool)
         (fuel : nat) (i : Z) (c : W) (l : list (Z * W)),
  (w0 < scale)%Qc ->
  (forall i j, i < j -> (lower1 i < lower1 j)%Qc) -> (forall i, (0 < lower1 i)%Qc) ->
  (forall i j, i < j -> (lower2 i < lower2 j)%Qc) ->
  (forall x, (0 < x)%Qc -> (lower2 (index2 x) <= x)%Qc /\ (x < lower2 (index2 x + 1)%Z)%Qc) ->
  bin_adds lower1 lower2 index2 scale guard fuel i c = Some l ->
  ((w0 <= c)%Qc -> nonneg l) /\ ((w0 < c)%Qc -> pos l) /\
  Forall (fun kw => (lower2 (fst kw) < lower1 (i + 1)%Z * scale)%Qc /\
                    (lower1 i * scale < lower2 (fst kw + 1)%Z)%Qc) l /\
  gsum (fun _ => true) l = c.
Proof. exact bin_adds_exact. Qed.
Print Assumptions C17_weight_conserved_bin_adds.

Theorem C17_weight_conserved :
  forall (lower1 lower2 : Z -> Qc) (index2 : Qc -> Z) (scale : Qc) (guard : bool),
  (w0 < scale)%Qc ->
  (forall i j, i < j -> (lower1 i < lower1 j)%Qc) -> (forall i, (0 < lower1 i)%Qc) ->
  (forall i j, i < j -> (lower2 i < lower2 j)%Qc) ->
  (forall x, (0 < x)%Qc -> (lower2 (index2 x) <= x)%Qc /\ (x < lower2 (index2 x + 1)%Z)%Qc) ->
  forall b r : bins,
  nonneg b -> convert_store lower1 lower2 index2 scale guard b = Some r ->
  total r = total b.
Proof. exact convert_store_total. Qed.
Print Assumptions C17_weight_conserved.

Theorem C17_weight_conserved_sketch :
  forall (lower1 lower2 : Z -> Qc) (index2 : Qc -> Z) (scale : Qc) (guard : bool),
  (w0 < scale)%Qc ->
  (forall i j, i < j -> (lower1 i < lower1 j)%Qc) -> (forall i, (0 < lower1 i)%Qc) ->
  (forall i j, i < j -> (lower2 i < lower2 j)%Qc) ->
  (forall x, (0 < x)%Qc -> (lower2 (index2 x) <= x)%Qc /\ (x < lower2 (index2 x + 1)%Z)%Qc) ->
  forall s s' : asketch,
  nonneg (a_pos s) -> nonneg (a_neg s) ->
  convert_sketch lower1 lower2 index2 scale guard s = Some s' ->
  a_count s' = a_count s /\ total (a_pos s') = total (a_pos s) /\
  total (a_neg s') = total (a_neg s) /\ a_zero s' = a_zero s.
Proof. exact convert_sketch_count. Qed.
Print Assumptions C17_weight_conserved_sketch.

(* ------------------------------------------------------------------ *)
(** * 4. the fuel index2 inHigh - index2 inLow + 2 suffices: None never occurs *)

Theorem C17_fuel_suffices :
  forall (lower1 lower2 : Z -> Qc) (index2 : Qc -> Z) (scale : Qc) (guard : bool)
         (i : Z) (c : W) (acc : bins) (fuel : nat),
  (w0 < scale)%Qc ->
  (forall i j, i < j -> (lower1 i < lower1 j)%Qc) -> (forall i, (0 < lower1 i)%Qc) ->
  (forall i j, i < j -> (lower2 i < lower2 j)%Qc) ->
  (forall x, (0 < x)%Qc -> (lower2 (index2 x) <= x)%Qc /\ (x < lower2 (index2 x + 1)%Z)%Qc) ->
  (Z.to_nat (index2 (lower1 (i + 1)%Z * scale)%Qc - index2 (lower1 i * scale)%Qc + 2) <= fuel)%nat ->
  exists r, convert_bin lower1 lower2 index2 scale guard fuel i c acc = Some r.
Proof. exact convert_bin_terminates. Qed.
Print Assumptions C17_fuel_suffices.

(** the store, with the concrete fuel: returns, canonical, positive, same total weight *)
Theorem C17_fuel_suffices_store :
  forall (lower1 lower2 : Z -> Qc) (index2 : Qc -> Z) (scale : Qc) (guard : bool),
  (w0 < scale)%Qc ->
  (forall i j, i < j -> (lower1 i < lower1 j)%Qc) -> (forall i, (0 < lower1 i)%Qc) ->
  (forall i j, i < j -> (lower2 i < lower2 j)%Qc) ->
  (forall x, (0 < x)%Qc -> (lower2 (index2 x) <= x)%Qc /\ (x < lower2 (index2 x + 1)%Z)%Qc) ->
  forall b : bins,
  nonneg b ->
  exists r, convert_store lower1 lower2 index2 scale guard b = Some r /\
            wf r = true /\ pos r /\ total r = total b.
Proof. exact convert_store_correct. Qed.
Print Assumptions C17_fuel_suffices_store.

(** the sketch, with the concrete fuel *)
Theorem C17_fuel_suffices_sketch :
  forall (lower1 lower2 : Z -> Qc) (index2 : Qc -> Z) (scale : Qc) (guard : bool),
  (w0 < scale)%Qc ->
  (forall i j, i < j -> (lower1 i < lower1 j)%Qc) -> (forall i, (0 < lower1 i)%Qc) ->
  (forall i j, i < j -> (lower2 i < lower2 j)%Qc) ->
  (forall x, (0 < x)%Qc -> (lower2 (index2 x) <= x)%Qc /\ (x < lower2 (index2 x + 1)%Z)%Qc) ->
  forall s : asketch,
  nonneg (a_pos s) -> nonneg (a_neg s) ->
  exists s', convert_sketch lower1 lower2 index2 scale guard s = Some s' /\
    a_count s' = a_count s /\ a_zero s' = a_zero s /\
    total (a_pos s') = total (a_pos s) /\ total (a_neg s') = total (a_neg s) /\
    wf (a_pos s') = true /\ pos (a_pos s') /\ wf (a_neg s') = true /\ pos (a_neg s').
Proof. exact convert_sketch_correct. Qed.
Print Assumptions C17_fuel_suffices_sketch.

(* ------------------------------------------------------------------ *)
(** * 5. support: weight only where the scaled source range meets the target bin *)

Theorem C17_support_overlaps :
  forall (lower1 lower2 : Z -> Qc) (index2 : Qc -> Z) (scale : Qc) (guard : bool),
  (w0 < scale)%Qc ->
  (forall i j, i < j -> (lower1 i < lower1 j)%Qc) -> (forall i, (0 < lower1 i)%Qc) ->
  (forall i j, i < j -> (lower2 i < lower2 j)%Qc) ->
  (forall x, (0 < x)%Qc -> (lower2 (index2 x) <= x)%Qc /\ (x < lower2 (index2 x + 1)%Z)%Qc) ->
  forall (b r : bins) (out : Z),
  wf b = true -> nonneg b ->
  convert_store lower1 lower2 index2 scale guard b = Some r -> get r out <> w0 ->
  exists i, get b i <> w0 /\
    (lower2 out < lower1 (i + 1)%Z * scale)%Qc /\ (lower1 i * scale < lower2 (out + 1)%Z)%Qc.
Proof. exact convert_store_support. Qed.
Print Assumptions C17_support_overlaps.

(** with the guard, per source bin and with no hypothesis on mappings, index or scale *)
Theorem C17_support_overlaps_guard :
  forall (lower1 lower2 : Z -> Qc) (index2 : Qc -> Z) (scale : Qc) (fuel : nat) (i : Z) (c : W)
         (l : list (Z * W)),
  (w0 <= c)%Qc -> bin_adds lower1 lower2 index2 scale true fuel i c = Some l ->
  Forall (fun kw => (lower2 (fst kw) < lower1 (i + 1)%Z * scale)%Qc /\
                    (lower1 i * scale < lower2 (fst kw + 1)%Z)%Qc) l.
Proof. exact repaired_adds_overlap. Qed.
Print Assumptions C17_support_overlaps_guard.

(* ------------------------------------------------------------------ *)
(** * 6. identity shortcut; zero weight *)

Theorem C17_identity_is_copy :
  forall (lower1 lower2 : Z -> Qc) (index2 : Qc -> Z) (scale : Qc) (guard : bool) (s : asketch),
  scale = w1 -> change_mapping lower1 lower2 index2 scale guard true s = Some s.
Proof. exact change_mapping_identity. Qed.
Print Assumptions C17_identity_is_copy.

(** the shortcut is consistent: the loop itself is the identity between equal mappings at scale 1 *)
Theorem C17_identity_consistent :
  forall (lower1 lower2 : Z -> Qc) (index2 : Qc -> Z) (scale : Qc) (guard : bool) (b : bins),
  (forall k, lower1 k = lower2 k) -> scale = w1 -> (forall i, (0 < lower1 i)%Qc) ->
  (forall i j, i < j -> (lower2 i < lower2 j)%Qc) ->
  (forall x, (0 < x)%Qc -> (lower2 (index2 x) <= x)%Qc /\ (x < lower2 (index2 x + 1)%Z)%Qc) ->
  wf b = true -> pos b ->
  convert_store lower1 lower2 index2 scale guard b = Some b.
Proof. exact convert_store_same. Qed.
Print Assumptions C17_identity_consistent.

Theorem C17_zero_weight_kept :
  forall (lower1 lower2 : Z -> Qc) (index2 : Qc -> Z) (scale : Qc) (guard : bool) (same : bool)
         (s s' : asketch),
  change_mapping lower1 lower2 index2 scale guard same s = Some s' -> a_zero s' = a_zero s.
Proof. exact change_mapping_zero. Qed.
Print Assumptions C17_zero_weight_kept.

(* ------------------------------------------------------------------ *)
(** * 7. mass transport (monotone coupling), from which quantile bounds follow *)

(** for every threshold t:
    result weight in target bins entirely below t <= source weight in bins starting below t, and
    source weight in bins entirely below t <= result weight in target bins starting below t *)
Theorem C17_mass_transport :
  forall (lower1 lower2 : Z -> Qc) (index2 : Qc -> Z) (scale : Qc) (guard : bool),
  (w0 < scale)%Qc ->
  (forall i j, i < j -> (lower1 i < lower1 j)%Qc) -> (forall i, (0 < lower1 i)%Qc) ->
  (forall i j, i < j -> (lower2 i < lower2 j)%Qc) ->
  (forall x, (0 < x)%Qc -> (lower2 (index2 x) <= x)%Qc /\ (x < lower2 (index2 x + 1)%Z)%Qc) ->
  forall (b r : bins) (t : Qc),
  nonneg b -> convert_store lower1 lower2 index2 scale guard b = Some r ->
  (gsum (fun out => wleb (lower2 (out + 1)%Z) t) r <= gsum (fun i => wltb (lower1 i * scale)%Qc t) b)%Qc /\
  (gsum (fun i => wleb (lower1 (i + 1)%Z * scale)%Qc t) b <= gsum (fun out => wltb (lower2 out) t) r)%Qc.
Proof. exact convert_store_transport. Qed.
Print Assumptions C17_mass_transport.

(** the general form: any pair of predicates compatible with "overlaps" *)
Theorem C17_coupling :
  forall (lower1 lower2 : Z -> Qc) (index2 : Qc -> Z) (scale : Qc) (guard : bool),
  (w0 < scale)%Qc ->
  (forall i j, i < j -> (lower1 i < lower1 j)%Qc) -> (forall i, (0 < lower1 i)%Qc) ->
  (forall i j, i < j -> (lower2 i < lower2 j)%Qc) ->
  (forall x, (0 < x)%Qc -> (lower2 (index2 x) <= x)%Qc /\ (x < lower2 (index2 x + 1)%Z)%Qc) ->
  forall b r : bins,
  nonneg b -> convert_store lower1 lower2 index2 scale guard b = Some r ->
  wf r = true /\ pos r /\
  (forall out, get r out <> w0 -> exists i, In i (map fst b) /\ overlap lower1 lower2 scale i out) /\
  (forall P P' : Z -> bool,
     (forall i out, overlap lower1 lower2 scale i out -> P out = true -> P' i = true) ->
     (gsum P r <= gsum P' b)%Qc) /\
  (forall P P' : Z -> bool,
     (forall i out, overlap lower1 lower2 scale i out -> P' i = true -> P out = true) ->
     (gsum P' b <= gsum P r)%Qc).
Proof. exact convert_store_facts. Qed.
Print Assumptions C17_coupling.
