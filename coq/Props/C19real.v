(* Props/C19real — separation of the constructor gammas over R: statements only.
   Proofs: SK.Real.Separation.  gamma formulas of the three constructors, for alpha = a:
     log:  (1+a)/(1-a)
     lin:  Rpower ((1+a)/(1-a)) (ln 2)
     cub:  Rpower ((1+a)/(1-a)) (10 * ln 2 / 7)
   ([gamma_log_ctor], [gamma_lin_ctor], [gamma_cub_ctor] of SK.Real.Ctor unfold to these.)
   Two accuracies in [1e-6, 0.99] at relative distance >= 1e-3 give gammas at relative
   distance > 1e-9 (the Equals gate of the Go code is 1e-12). *)
From Coq Require Import Reals.
From SK.Real Require Import Ctor Separation.
Open Scope R_scope.

Theorem C19_sep_log : forall a1 a2 : R,
  1 / 10 ^ 6 <= a1 <= 99 / 100 -> 1 / 10 ^ 6 <= a2 <= 99 / 100 ->
  1 / 1000 * Rmax a1 a2 <= Rabs (a1 - a2) ->
  let g1 := (1 + a1) / (1 - a1) in
  let g2 := (1 + a2) / (1 - a2) in
  1 / 10 ^ 9 * Rmax g1 g2 < Rabs (g1 - g2).
Proof. exact sep_log. Qed.
Print Assumptions C19_sep_log.

Theorem C19_sep_lin : forall a1 a2 : R,
  1 / 10 ^ 6 <= a1 <= 99 / 100 -> 1 / 10 ^ 6 <= a2 <= 99 / 100 ->
  1 / 1000 * Rmax a1 a2 <= Rabs (a1 - a2) ->
  let g1 := Rpower ((1 + a1) / (1 - a1)) (ln 2) in
  let g2 := Rpower ((1 + a2) / (1 - a2)) (ln 2) in
  1 / 10 ^ 9 * Rmax g1 g2 < Rabs (g1 - g2).
Proof. exact sep_lin. Qed.
Print Assumptions C19_sep_lin.

Theorem C19_sep_cub : forall a1 a2 : R,
  1 / 10 ^ 6 <= a1 <= 99 / 100 -> 1 / 10 ^ 6 <= a2 <= 99 / 100 ->
  1 / 1000 * Rmax a1 a2 <= Rabs (a1 - a2) ->
  let g1 := Rpower ((1 + a1) / (1 - a1)) (10 * ln 2 / 7) in
  let g2 := Rpower ((1 + a2) / (1 - a2)) (10 * ln 2 / 7) in
  1 / 10 ^ 9 * Rmax g1 g2 < Rabs (g1 - g2).
Proof. exact sep_cub. Qed.
Print Assumptions C19_sep_cub.

(** the same with the constant 1e-10 and a non-strict inequality *)
Theorem C19_sep_log_1e10 : forall a1 a2 : R,
  1 / 10 ^ 6 <= a1 <= 99 / 100 -> 1 / 10 ^ 6 <= a2 <= 99 / 100 ->
  1 / 1000 * Rmax a1 a2 <= Rabs (a1 - a2) ->
  1 / 10 ^ 10 * Rmax (gamma_log_ctor a1) (gamma_log_ctor a2)
    <= Rabs (gamma_log_ctor a1 - gamma_log_ctor a2).
Proof. exact sep_log_1e10. Qed.
Print Assumptions C19_sep_log_1e10.

Theorem C19_sep_lin_1e10 : forall a1 a2 : R,
  1 / 10 ^ 6 <= a1 <= 99 / 100 -> 1 / 10 ^ 6 <= a2 <= 99 / 100 ->
  1 / 1000 * Rmax a1 a2 <= Rabs (a1 - a2) ->
  1 / 10 ^ 10 * Rmax (gamma_lin_ctor a1) (gamma_lin_ctor a2)
    <= Rabs (gamma_lin_ctor a1 - gamma_lin_ctor a2).
Proof. exact sep_lin_1e10. Qed.
Print Assumptions C19_sep_lin_1e10.

Theorem C19_sep_cub_1e10 : forall a1 a2 : R,
  1 / 10 ^ 6 <= a1 <= 99 / 100 -> 1 / 10 ^ 6 <= a2 <= 99 / 100 ->
  1 / 1000 * Rmax a1 a2 <= Rabs (a1 - a2) ->
  1 / 10 ^ 10 * Rmax (gamma_cub_ctor a1) (gamma_cub_ctor a2)
    <= Rabs (gamma_cub_ctor a1 - gamma_cub_ctor a2).
Proof. exact sep_cub_1e10. Qed.
Print Assumptions C19_sep_cub_1e10.
