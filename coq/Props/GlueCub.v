(* Props/GlueCub — the CUBICALLY interpolated mapping of the bit-exact model (SK.Mapping.Glue, kind MCub) under
   explicit ACCURACY HYPOTHESES ON THE ORACLE only.  Statements only; proofs: SK.Mapping.GlueCub.

   1. The named premise [cub_inverse_ok L] of Props/GlueAcc.v (Cardano inverse within 2^-45 of the ideal inverse)
      is DERIVED from: math.Sqrt correctly rounded, math.Cbrt within kc units of 2^-53 (kc <= 32), math.Floor exact.
   2. NewCubicallyInterpolatedMappingWithGamma / NewCubicallyInterpolatedMapping: every per-mapping premise
      (reasonable, exp (1/(10/7 mult)) <= g0, value_factor_ok, in_range, gm_small, gm_range_ok) is a consequence of
      [libm_ok L k] (Props/GlueCtor.v: Log2, Exp, Pow, Exp2, Floor).
   3. Headline: |Value (Index v) - v| <= (a + 2^-34) v for every finite v in (MinIndexableValue, MaxIndexableValue],
      the Qc form of the last premise of Bridge_C01_cub_accuracy_rnd64, and C01 end to end.

   Hypotheses (plain definitions of GlueCub; u53 = 2^-53):
     sqrt_accurate L       forall x, finite x -> 1/8 <= val x <= 2 ->
                             finite (l_sqrt L x) /\ val (l_sqrt L x) = rnd (sqrt (val x))           (IEEE 754)
     cbrt_accurate L kc    forall x, finite x -> -1/4 <= val x <= -1/32 ->
                             finite (l_cbrt L x) /\ exists c, c*c*c = val x /\ |val (l_cbrt L x) - c| <= kc u53 |c|
     libm_cub_ok L k kc    = libm_ok L k, 0 <= kc <= 32, sqrt_accurate L, cbrt_accurate L kc   (Record: lc_ok, lc_kc, ...)
   Definitions: kD0 = -459/1225, kD1c = 5454/6125, kC27 = 972/1225, kA3 = 18/35, kB = -3/5 (the exact rationals
     B^2-3AC, 2B^3-9ABC, 27A^2, 3A, B); Sof p = -(kB + p + kD0/p)/kA3; ds, discs, sqs, hs, ps: the ideal chain
     d1, d1^2 - 4 d0^3, its square root, (d1 - sqrt)/2, its (negative) cube root, as functions of the fraction;
     m1h .. hh, a1h, rh, a2h, sh: the same chain with every operation rounded (rnd = round to nearest even) and
     the binary64 constants of the Go code (c27r, cd1r, cKr, cBr, cd0r, c3Ar);
     cub_p / cub_s / cub_sp1 L f: the float chain of approximateInverseLog from the fraction f = x - floor x up to
     the cube root / the root s / significandPlusOne;  cub_sp1_ok L t: 1 <= val (cub_sp1 ...) at argument t;
     approx_inverse_log_cub_f9: approximateInverseLog with buildFloat64 as it was before repair F11;
     inverse_ok_at L k Linv t: the conclusion of inverse_ok at the single argument t; inv_at L k Linv m j: the same at
     the argument (j - offset)/multiplier of LowerBound (j);
     lminc = 7e-6; Gc L g = exp (0.7 * val (l_log2 L g)); g0c_of L g = Gc L g * (1 + 4 u53);
     adjc L g = l_pow L g c_7_10ln2; minc, maxc: the two expressions of the constructor; mk_cub L g off: the
     record with_gamma builds; gammac L a = l_pow L (fdiv (fadd 1 a) (fsub 1 a)) c_10ln2_7;
     acc_mapc L a = mk_cub L (gammac L a) 0; L_ideal_c: L_ideal with rounded exact sqrt and cube root.

   RANGE.  relativeAccuracy a with 2.5e-6 <= val a <= 0.32.
     Upper end: the cubic multiplier 7/(10 ln ((1+a)/(1-a))) drops below 1 (outside [reasonable]) at
     a = tanh 0.35 = 0.3364 (gamma = 2); the proof stops at 0.32 (log2 gamma <= 0.98 through the cubic Taylor bound of
     ln, adjusted gamma <= 1.99 < 2 so that MinIndexableValue stays in the binade of 2^-1022).
     Lower end: just above MinIndexableValue the index of v is in range because P s - 10/7 ln (1+s) >= 0.1 s^2
     (s = adjustedGamma - 1 = 1.4 a) exceeds the 2^-40 + 2^-41 of the float errors bounded in GlueAccuracy:
     this needs a >= 2.3e-6 (for the linear mapping the margin was x - ln (1+x) = 2 a^2, hence 1e-6 there).
     Value (Index v) needs nothing about Index v + 1 here (whose LowerBound is +Inf near MaxIndexableValue as soon
     as a > 0.296): GCU_gen_value_accuracy_at1. *)
From Coq Require Import Bool NArith ZArith QArith Qcanon Qcabs Reals List Permutation Sorted.
From Flocq Require Import Core.Core IEEE754.BinarySingleNaN IEEE754.Binary IEEE754.Bits.
From SK Require Import Base.Prelude Base.F64 Base.F64Proofs Mapping.Glue Mapping.GlueProofs Mapping.GlueAccuracy.
From SK.Real Require Import RBasics MapGeneric Binade MapLin.
From SK.Real Require MapCub.
From SK Require Import Spec.Bins Spec.BinsProofs Spec.ASketch Store.Any Store.AnyProofs Stat.Summary
                       Sketch.Sketch Sketch.SketchProofs Sketch.RankProofs Sketch.RefineProofs
                       Sketch.RoundingInstance Sketch.BridgeProofs.
From SK Require Import Mapping.GlueCtor Mapping.GlueCub.
Import ListNotations.
Local Open Scope R_scope.

Local Notation finite x := (is_finite 53 1024 x = true).
Local Notation val x := (B2R 53 1024 x).
Local Notation normal_pos x := (is_finite 53 1024 x = true /\ Rle (bpow radix2 (-1022)) (B2R 53 1024 x)).
Local Notation rnd := (round radix2 (FLT_exp (-1074) 53) ZnearestE).

(* ------------------------------------------------------------------ *)
(* 1. Cardano's closed form: exact over R, then rounded                *)
(* ------------------------------------------------------------------ *)
(* the cubic identity: P (S p) = (D1c - (p^3 + D0^3/p^3)) / (27 A^2) *)
Theorem GCU_Sof_identity (p : R) : p <> 0 ->
  MapCub.Pcub (Sof p) = (kD1c - (p * p * p + kD0 * kD0 * kD0 / (p * p * p))) / kC27.
Proof. exact (Sof_identity p). Qed.
Print Assumptions GCU_Sof_identity.

(* the ideal chain stays away from every singularity: d1 in [0.097, 0.8905], discriminant >= 0.2198,
   d1 - sqrt in [-0.372, -0.1112] (this is where cancellation costs a factor 9), p in [-0.571, -0.3816] *)
Theorem GCU_ideal_chain_ranges (u : R) : 0 <= u <= 1 ->
  594 / 6125 <= ds u <= 5454 / 6125 /\ 2198 / 10000 <= discs u <= 10034 / 10000 /\
  - 372 / 1000 <= ws u <= - 1112 / 10000 /\
  (ps u * ps u * ps u = hs u /\ - 571 / 1000 <= ps u <= - 3816 / 10000).
Proof.
  intros Hu. exact (conj (ds_range u Hu) (conj (discs_range u Hu) (conj (proj2 (ws_props u Hu)) (ps_props u Hu)))).
Qed.
Print Assumptions GCU_ideal_chain_ranges.

(* Cardano's formula computes the inverse of P on [0, 1) (the ideal inverse of SK.Real.MapCub comes from the
   intermediate value theorem) *)
Theorem GCU_cardano_root (u : R) : 0 <= u <= 1 -> u < 1 -> Sof (ps u) = MapCub.Pinv_cub u.
Proof. exact (cardano_root u). Qed.
Print Assumptions GCU_cardano_root.

(* the rounded chain: u' the rounded fraction, p' any real within kc u53 (relative) of a cube root of the rounded
   (d1 - sqrt)/2; the root computed from p' is within (88 + 4.1 kc) 2^-53 of the ideal one *)
Theorem GCU_chain_total (u u' kc p' : R) :
  0 <= u <= 1 -> 0 <= u' <= 1 -> Rabs (u' - u) <= u53 / 2 -> 0 <= kc <= 32 ->
  (exists c, c * c * c = hh u' /\ Rabs (p' - c) <= kc * u53 * Rabs c) -> u < 1 ->
  Rabs (sh p' - MapCub.Pinv_cub u) <= (88 + 41 / 10 * kc) * u53.
Proof. intros H1 H2 H3 H4 H5 H6. exact (chain_total u u' H1 H2 H3 kc H4 p' H5 H6). Qed.
Print Assumptions GCU_chain_total.

(* the three conditionings *)
Theorem GCU_conditioning :
  (forall a b c, 0 < c -> c * c <= a -> c * c <= b -> Rabs (sqrt a - sqrt b) * (2 * c) <= Rabs (a - b)) /\
  (forall a b x y al, a * a * a = x -> b * b * b = y -> 0 < al -> a <= - al -> b <= - al ->
     Rabs (a - b) * (3 * (al * al)) <= Rabs (x - y)) /\
  (forall p p', - 572 / 1000 <= p <= - 381 / 1000 -> - 572 / 1000 <= p' <= - 381 / 1000 ->
     Rabs (Sof p - Sof p') <= 697 / 100 * Rabs (p - p')) /\
  (forall s t, Rabs (t - s) <= 70 / 51 * Rabs (MapCub.Pcub t - MapCub.Pcub s)).
Proof. exact (conj sqrt_lip (conj cube_lip (conj Sof_lip Pcub_lip))). Qed.
Print Assumptions GCU_conditioning.

(* ------------------------------------------------------------------ *)
(* 2. approximateInverseLog (cubic): the premise of Props/GlueAcc.v    *)
(* ------------------------------------------------------------------ *)
(* the float chain is the rounded chain *)
Theorem GCU_cub_chain (L : libm) (kc : R) (f : f64) (u : R) :
  0 <= kc <= 32 -> sqrt_accurate L -> cbrt_accurate L kc ->
  finite f -> 0 <= u <= 1 -> 0 <= val f <= 1 -> Rabs (val f - u) <= u53 / 2 ->
  finite (cub_p L f) /\ finite (cub_s L f) /\
  (exists c, c * c * c = hh (val f) /\ Rabs (val (cub_p L f) - c) <= kc * u53 * Rabs c) /\
  val (cub_s L f) = sh (val (cub_p L f)).
Proof. intros H1 H2 H3 H4 H5 H6 H7. exact (cub_chain_R L kc H1 H2 H3 f H4 u H5 H6 H7). Qed.
Print Assumptions GCU_cub_chain.

(* significandPlusOne - 1 against the ideal root of the fraction of t *)
Theorem GCU_cub_significand (L : libm) (kc : R) (t : f64) :
  0 <= kc <= 32 -> sqrt_accurate L -> cbrt_accurate L kc -> floor_exact L ->
  finite t -> (-1022 <= Zfloor (val t) <= 1023)%Z ->
  let f := fsub t (l_floor L t) in
  finite (cub_sp1 L f) /\
  Rabs (val (cub_s L f) - MapCub.Pinv_cub (val t - IZR (Zfloor (val t)))) <= (88 + 41 / 10 * kc) * u53 /\
  val (cub_sp1 L f) = rnd (val (cub_s L f) + 1).
Proof. intros H1 H2 H3 H4 H5 H6. exact (cub_sp1_R L kc H1 H2 H3 H4 t H5 H6). Qed.
Print Assumptions GCU_cub_significand.

(* Q1.  cub_inverse_ok L: relative error 2^-45 of approximateInverseLog against the ideal inverse, for EVERY finite
   argument with floor in [-1022, 1023].  A significand that comes out below 1 (possible only when the root is
   below 222 * 2^-53) is counted as 1 by the repaired buildFloat64: still within 2^-45. *)
Theorem GCU_cub_inverse_ok (L : libm) (kc : R) :
  0 <= kc <= 32 -> sqrt_accurate L -> cbrt_accurate L kc -> floor_exact L -> cub_inverse_ok L.
Proof. exact (cub_inverse_ok_proved L kc). Qed.
Print Assumptions GCU_cub_inverse_ok.

Theorem GCU_cub_inverse_ok_unfolded (L : libm) (kc : R) (t : f64) :
  0 <= kc <= 32 -> sqrt_accurate L -> cbrt_accurate L kc -> floor_exact L ->
  finite t -> (-1022 <= Zfloor (val t) <= 1023)%Z ->
  finite (approx_inverse_log L MCub t) /\ normal_pos (approx_inverse_log L MCub t) /\
  MapCub.Linv_cub (val t) * (1 - / 35184372088832) <= val (approx_inverse_log L MCub t)
    <= MapCub.Linv_cub (val t) * (1 + / 35184372088832).
Proof. intros H1 H2 H3 H4 H5 H6. exact (cub_inverse_ok_at L kc H1 H2 H3 H4 t H5 H6). Qed.
Print Assumptions GCU_cub_inverse_ok_unfolded.

(* so the cubic theorems of Props/GlueAcc.v hold without their named premise *)
Theorem GCU_cub_containment (L : libm) (kc : R) (m : gmap) (v : f64) :
  0 <= kc <= 32 -> sqrt_accurate L -> cbrt_accurate L kc -> floor_exact L ->
  reasonable MCub m -> normal_pos v ->
  let i := gm_index L m v in
  GlueAccuracy.in_range m i -> GlueAccuracy.in_range m (i + 1) ->
  val (gm_lower L m i) <= val v * (1 + q38) /\ val v <= val (gm_lower L m (i + 1)) * (1 + q38).
Proof.
  intros H1 H2 H3 H4 Hm. exact (cub_containment L m Hm (cub_inverse_ok_proved L kc H1 H2 H3 H4) v).
Qed.
Print Assumptions GCU_cub_containment.

(* when the code before repair F11 was right: significandPlusOne >= 1, e.g. whenever the fraction is >= 2^-44 *)
Theorem GCU_f9_agrees_of_frac (L : libm) (kc : R) (t : f64) :
  0 <= kc <= 32 -> sqrt_accurate L -> cbrt_accurate L kc -> floor_exact L ->
  finite t -> (-1022 <= Zfloor (val t) <= 1023)%Z ->
  / 17592186044416 <= val t - IZR (Zfloor (val t)) ->
  approx_inverse_log_cub_f9 L t = approx_inverse_log L MCub t.
Proof. exact (f9_agrees_of_frac L kc t). Qed.
Print Assumptions GCU_f9_agrees_of_frac.

(* ... and wrong otherwise: with the values Go's math.Sqrt and math.Cbrt return for the fraction 2^-53
   (t = 2^-53, floor 0) significandPlusOne is 0.9999999999999998; the unrepaired code answers 1.9999999999999996,
   the repaired one 1.0 (the ideal value is 1 + 0.7 * 2^-53) *)
Example GCU_ex_unrepaired_refuted :
  bits_of_f64 (cub_sp1 L_wit (fsub t_wit (l_floor L_wit t_wit))) = 4607182418800017406%N /\
  bits_of_f64 (approx_inverse_log_cub_f9 L_wit t_wit) = 4611686018427387902%N /\
  bits_of_f64 (approx_inverse_log L_wit MCub t_wit) = 4607182418800017408%N.
Proof. exact cub_unrepaired_refuted. Qed.
Print Assumptions GCU_ex_unrepaired_refuted.

(* the same through NewCubicallyInterpolatedMappingWithGamma (2, 0.9999999999999999): LowerBound (0) was
   0.9999999999999998 before F11 (the bin of 0.6 .. 1), it is 0.5 now *)
Example GCU_ex_unrepaired_refuted_api :
  bits_of_f64 (approx_inverse_log_cub_f9 L_wit (lower_arg m_wit 0%Z)) = 4607182418800017406%N /\
  bits_of_f64 (gm_lower L_wit m_wit 0%Z) = 4602678819172646912%N.
Proof. exact cub_unrepaired_refuted_api. Qed.
Print Assumptions GCU_ex_unrepaired_refuted_api.

(* ------------------------------------------------------------------ *)
(* 3. the generic argument with the inverse asked at the index only    *)
(* ------------------------------------------------------------------ *)
Theorem GCU_gen_value_accuracy_at1 (L : libm) (k : mkind) (Lr Linvr : R -> R) (c : R) (m : gmap)
  (g0 eF : R) (v : f64) :
  LogLike Lr Linvr c -> 1 <= c -> forward_ok L k Lr -> reasonable k m ->
  exp (1 / (c * val (gm_mult m))) <= g0 <= 4 -> 0 <= eF <= / 8 -> value_factor_ok L m g0 eF ->
  normal_pos v ->
  let i := gm_index L m v in
  GlueAccuracy.in_range m i -> inv_at L k Linvr m i -> finite (gm_value L m i) ->
  Rabs (val (gm_value L m i) - val v) <= (alpha_of g0 + eF + q35) * val v.
Proof. intros H1 H2 H3 H4. exact (gen_value_accuracy_at1 L k Lr Linvr c H1 H2 H3 m H4 g0 eF v). Qed.
Print Assumptions GCU_gen_value_accuracy_at1.

Theorem GCU_gen_bin_of_v (L : libm) (k : mkind) (Lr Linvr : R -> R) (c : R) (m : gmap) (v : f64) :
  LogLike Lr Linvr c -> 1 <= c -> forward_ok L k Lr -> reasonable k m ->
  normal_pos v ->
  let i := gm_index L m v in
  GlueAccuracy.in_range m i -> inv_at L k Linvr m i ->
  (finite (gm_lower L m i) /\ bpow radix2 (-1022) <= val (gm_lower L m i) /\
   val (gm_lower L m i) <= val v * (1 + q38)) /\
  val v <= val (gm_lower L m i) * exp (1 / (c * val (gm_mult m))) * (1 + q38).
Proof.
  intros H1 H2 H3 H4 Hv i Ri Ai.
  exact (conj (gen_lower_le_at L k Lr Linvr c H1 H2 H3 m H4 v Hv Ri Ai)
              (gen_v_le_lower_at L k Lr Linvr c H1 H2 H3 m H4 v Hv Ri Ai)).
Qed.
Print Assumptions GCU_gen_bin_of_v.

(* ------------------------------------------------------------------ *)
(* 4. NewCubicallyInterpolatedMappingWithGamma                         *)
(* ------------------------------------------------------------------ *)
Theorem GCU_constants :
  val c_7_10ln2 = c_7_10ln2r /\ 7 / 10 <= c_7_10ln2r * ln 2 <= 7 / 10 + u53 /\
  val c_10ln2_7 = c_10ln2_7r /\ 10 / 7 * ln 2 <= c_10ln2_7r <= 10 / 7 * ln 2 * (1 + u53) /\
  val c_07 = c_07r /\
  val c_d0 = cd0r /\ val c_d1c = cd1r /\ val c_27AA = c27r /\ val c_3A = c3Ar /\ val c_K = cKr.
Proof.
  exact (conj c_7_10ln2_BR (conj c_7_10ln2r_close (conj c_10ln2_7_BR (conj c_10ln2_7r_close (conj c_07_BR
        (conj c_d0_BR (conj c_d1c_BR (conj c_27AA_BR (conj c_3A_BR c_K_BR))))))))).
Qed.
Print Assumptions GCU_constants.

Theorem GCU_with_gamma_cub (L : libm) (k : R) (g off : f64) :
  libm_ok L k -> finite g ->
  lminc <= ln (val g) / ln 2 <= 98 / 100 -> 1 <= val g <= 2 ->
  finite off -> Rabs (val off) <= 2048 * val (multf L g) ->
  let m := mk_cub L g off in
  with_gamma L MCub g off = Some m /\ reasonable MCub m /\
  (finite (gm_min m) /\ finite (gm_max m) /\ bpow radix2 (-1022) <= val (gm_min m)) /\
  exp (1 / (10 / 7 * val (gm_mult m))) <= g0c_of L g <= 4 /\
  exp (7 / 10 * (ln (val g) / ln 2)) * (1 - k * u53) <= g0c_of L g
     <= exp (7 / 10 * (ln (val g) / ln 2)) * (1 + (2 * k + 5) * u53) /\
  value_factor_ok L m (g0c_of L g) ((k + 13) * u53).
Proof. exact (with_gamma_cub_summary L k g off). Qed.
Print Assumptions GCU_with_gamma_cub.

(* every finite v in (MinIndexableValue, MaxIndexableValue] is a normal float whose index is in range *)
Theorem GCU_with_gamma_cub_in_range (L : libm) (k : R) (g off v : f64) :
  libm_ok L k -> finite g ->
  lminc <= ln (val g) / ln 2 <= 98 / 100 -> 1 <= val g <= 2 ->
  finite off -> Rabs (val off) <= 2048 * val (multf L g) ->
  let m := mk_cub L g off in
  finite v -> val (gm_min m) < val v -> val v <= val (gm_max m) ->
  normal_pos v /\ GlueAccuracy.in_range m (gm_index L m v).
Proof. intros HL Fg Hl Hg Fo Bo. exact (mk_cub_in_range L k HL g Fg Hl Hg off Fo Bo v). Qed.
Print Assumptions GCU_with_gamma_cub_in_range.

Theorem GCU_with_gamma_cub_accuracy (L : libm) (k kc : R) (g off v : f64) :
  libm_cub_ok L k kc -> finite g ->
  lminc <= ln (val g) / ln 2 <= 98 / 100 -> 1 <= val g <= 2 ->
  finite off -> Rabs (val off) <= 2048 * val (multf L g) ->
  let m := mk_cub L g off in
  finite v -> val (gm_min m) < val v -> val v <= val (gm_max m) ->
  let i := gm_index L m v in
  normal_pos v /\ GlueAccuracy.in_range m i /\ finite (gm_value L m i) /\
  val (gm_lower L m i) <= val v * (1 + q38) /\
  val v <= val (gm_lower L m i) * exp (1 / (10 / 7 * val (gm_mult m))) * (1 + q38) /\
  Rabs (val (gm_value L m i) - val v) <= (alpha_of (g0c_of L g) + (k + 13) * u53 + q35) * val v.
Proof. intros HL Fg Hl Hg Fo Bo. exact (with_gamma_cub_accuracy L k kc HL g Fg Hl Hg off Fo Bo v). Qed.
Print Assumptions GCU_with_gamma_cub_accuracy.

(* containment from above, when Index v + 1 is in range too *)
Theorem GCU_with_gamma_cub_upper (L : libm) (k kc : R) (g off v : f64) :
  libm_cub_ok L k kc -> finite g ->
  lminc <= ln (val g) / ln 2 <= 98 / 100 -> 1 <= val g <= 2 ->
  finite off -> Rabs (val off) <= 2048 * val (multf L g) ->
  let m := mk_cub L g off in
  finite v -> val (gm_min m) < val v -> val v <= val (gm_max m) ->
  let i := gm_index L m v in
  GlueAccuracy.in_range m (i + 1) -> val v <= val (gm_lower L m (i + 1)) * (1 + q38).
Proof. intros HL Fg Hl Hg Fo Bo. exact (with_gamma_cub_upper L k kc HL g Fg Hl Hg off Fo Bo v). Qed.
Print Assumptions GCU_with_gamma_cub_upper.

(* ------------------------------------------------------------------ *)
(* 5. NewCubicallyInterpolatedMapping (relativeAccuracy)               *)
(* ------------------------------------------------------------------ *)
Theorem GCU_with_accuracy_cub (L : libm) (k : R) (a : f64) :
  libm_ok L k -> finite a -> / 400000 <= val a <= 32 / 100 ->
  let m := acc_mapc L a in
  let g0 := g0c_of L (gammac L a) in
  let gp := (1 + val a) / (1 - val a) in
  with_accuracy L MCub a = Some m /\ gm_kind m = MCub /\ reasonable MCub m /\
  (finite (gm_min m) /\ finite (gm_max m) /\ bpow radix2 (-1022) <= val (gm_min m)) /\
  exp (1 / (10 / 7 * val (gm_mult m))) <= g0 <= 4 /\
  gp * (1 - (10 + 4 * k) * u53) <= g0 <= gp * (1 + (17 + 6 * k) * u53) /\
  alpha_of g0 <= val a + (9 + 3 * k) * u53 /\
  value_factor_ok L m g0 ((k + 13) * u53).
Proof. exact (with_accuracy_cub_summary L k a). Qed.
Print Assumptions GCU_with_accuracy_cub.

(* Q3, the headline: under the oracle hypotheses only *)
Theorem GCU_with_accuracy_cub_accuracy (L : libm) (k kc : R) (a v : f64) :
  libm_cub_ok L k kc -> finite a -> / 400000 <= val a <= 32 / 100 ->
  let m := acc_mapc L a in
  finite v -> val (gm_min m) < val v -> val v <= val (gm_max m) ->
  let i := gm_index L m v in
  normal_pos v /\ GlueAccuracy.in_range m i /\ finite (gm_value L m i) /\
  val (gm_lower L m i) <= val v * (1 + q38) /\
  val v <= val (gm_lower L m i) * ((1 + val a) / (1 - val a)) * (1 + q35) /\
  Rabs (val (gm_value L m i) - val v) <= (val a + q34) * val v.
Proof. intros HL Fa Ba. exact (with_accuracy_cub_accuracy L k kc HL a Fa Ba v). Qed.
Print Assumptions GCU_with_accuracy_cub_accuracy.

(* the Qc form: the last premise of Bridge_C01_cub_accuracy_rnd64 *)
Theorem GCU_acc_accuracy_Qc (L : libm) (k kc : R) (a : f64) (alpha : Qc) (v : f64) :
  libm_cub_ok L k kc -> finite a -> / 400000 <= val a <= 32 / 100 ->
  let g := acc_mapc L a in
  val a + q34 <= qR alpha ->
  finite v -> (f2q (gm_min g) < f2q v)%Qc -> (f2q v <= f2q (gm_max g))%Qc ->
  (Qcabs (f2q (gm_value L g (gm_index L g v)) - f2q v) <= alpha * f2q v)%Qc.
Proof. intros HL Fa Ba. exact (acc_mapc_accuracy_Qc L k kc HL a Fa Ba alpha v). Qed.
Print Assumptions GCU_acc_accuracy_Qc.

Theorem GCU_acc_bridge_premises (L : libm) (k kc : R) (a : f64) :
  libm_cub_ok L k kc -> finite a -> / 400000 <= val a <= 32 / 100 ->
  let g := acc_mapc L a in gm_kind g = MCub /\ gm_small g /\ gm_range_ok g.
Proof.
  intros HL Fa Ba g.
  exact (conj (acc_mapc_kind L a) (conj (acc_mapc_small L k kc HL a Fa Ba) (acc_mapc_range_ok L k kc HL a Fa Ba))).
Qed.
Print Assumptions GCU_acc_bridge_premises.

(* C01 end to end for the mapping built by NewCubicallyInterpolatedMapping (a): plain_add of the values then
   plain_quantile (binary64 rank arithmetic) answers within alpha of an order statistic, for every rational
   alpha >= a + 2^-34, under the hypotheses on the oracle ONLY *)
Theorem GCU_C01_cub_end_to_end (L : libm) (k kc : R) (a : f64)
  (fx : fixes) (m : mapid) (kp kn : kind) (exact : bool)
  (vs : list f64) (ys : list Qc) (q : f64) (alpha : Qc) :
  libm_cub_ok L k kc -> finite a -> / 400000 <= val a <= 32 / 100 ->
  let g := acc_mapc L a in
  val a + q34 <= qR alpha ->
  kind_limit kp = Exact -> kind_limit kn = Exact ->
  fD4 fx = true -> fD5 fx = true ->
  Forall (fun v => f_is_finite v = true) vs ->
  (forall v, In v vs -> (Qcabs (f2q v) <= f2q (gm_max g))%Qc) ->
  Permutation (map f2q vs) ys -> Sorted Qcle ys -> vs <> [] -> (Z.of_nat (length vs) <= 2 ^ 53)%Z ->
  fle f64_zero q = true -> fle q f64_one = true ->
  let mt := mt_of_gmap L g in
  exists s, plain_add_units mt (sk_new m kp kn exact) vs = ROk s /\ SkInv s /\
  exists (kk : nat) (s' : sketch) (y : Qc),
    (cfloor (f2q q * inj (Z.of_nat (length vs) - 1)) <= Z.of_nat kk <= cceil (f2q q * inj (Z.of_nat (length vs) - 1)))%Z /\
    (kk < length vs)%nat /\
    plain_quantile rnd64 fx mt s q = (s', ROk y) /\ SkInv s' /\ sk_abs s' = sk_abs s /\
    y = repr (am_of mt) (nth kk ys w0) /\
    (((Qcabs (nth kk ys w0) <= f2q (gm_min g))%Qc /\ y = w0) \/
     (Qcabs (y - nth kk ys w0) <= alpha * Qcabs (nth kk ys w0))%Qc).
Proof.
  intros HL Fa Ba g. exact (C01_cub_end_to_end L k kc HL a Fa Ba fx m kp kn exact vs ys q alpha).
Qed.
Print Assumptions GCU_C01_cub_end_to_end.

(* ------------------------------------------------------------------ *)
(* 6. the hypotheses are satisfiable                                   *)
(* ------------------------------------------------------------------ *)
Theorem GCU_ideal_oracle : libm_cub_ok L_ideal_c 1 1.
Proof. exact L_ideal_c_ok. Qed.
Print Assumptions GCU_ideal_oracle.

Theorem GCU_ideal_instance (a v : f64) :
  finite a -> / 400000 <= val a <= 32 / 100 ->
  let m := acc_mapc L_ideal_c a in
  with_accuracy L_ideal_c MCub a = Some m /\
  (finite v -> val (gm_min m) < val v -> val v <= val (gm_max m) ->
   Rabs (val (gm_value L_ideal_c m (gm_index L_ideal_c m v)) - val v) <= (val a + q34) * val v).
Proof. exact (ideal_instance_cub a v). Qed.
Print Assumptions GCU_ideal_instance.
