(* Props/SketchBatchHist — GetValuesAtQuantiles after a history of unit additions (C11/C12): statements only.
   Every executed sketch reached from [sk_new m kp kn false] (each store of any of the five kinds, collapsing ones
   included: kind_ok = capacity >= 1) by the unit additions Add(v) of the extracted [xk_add], at most 2^53 of them,
   satisfies batch_ready64 (Props/SketchBatchExec64.v); so the batch entry point the driver runs,
   xk_quantiles mt = quantiles_with (xk_quantile mt), answers what the single queries answer on that sketch, with no
   premise other than the history.  Proofs in Sketch/SketchBatchHist.v (on SketchProofs3.built_quantile_ready).
     xk_add_units mt s vs : xk_add mt _ v f64_one true for each v in turn, stopping at the first refusal
     unit_adds_ok mt vs   : every v finite with |v| <= mt_max   (the values Add accepts)
     mt_ok mt             : finite bounds, int32 indexes on the indexable range (all that is asked of the table) *)
From Coq Require Import Bool ZArith QArith Qcanon Qcabs List.
From SK Require Import Base.Prelude Base.F64 Spec.Bins Spec.ASketch Store.Any Store.AnyProofs Stat.Summary
                       Sketch.Sketch Sketch.SketchProofs Sketch.RankProofs Sketch.RefineProofs
                       Sketch.SketchBatch Sketch.SketchBatchExec Sketch.SketchBatchExec64 Sketch.SketchBatchHist
                       Extract.Instances Extract.Instances2.
Import ListNotations.

Theorem C12_hist_batch_ready :
  forall (mt : mtable) (m : mapid) (kp kn : kind) (vs : list f64),
  mt_ok mt -> kind_ok kp -> kind_ok kn ->
  Forall (fun v => f_is_finite v = true /\ (Qcabs (f2q v) <= f2q (mt_max mt))%Qc) vs ->
  (Z.of_nat (length vs) <= 2 ^ 53)%Z ->
  exists s, xk_add_units mt (sk_new m kp kn false) vs = ROk s /\ batch_ready64 s /\
            plain_count s = inj (Z.of_nat (length vs)).
Proof. exact hist_batch_ready. Qed.
Print Assumptions C12_hist_batch_ready.

Theorem C12_hist_batch_ready_any :
  forall (mt : mtable) (m : mapid) (kp kn : kind) (vs : list f64) (s : sketch),
  mt_ok mt -> kind_ok kp -> kind_ok kn -> unit_adds_ok mt vs -> (Z.of_nat (length vs) <= 2 ^ 53)%Z ->
  xk_add_units mt (sk_new m kp kn false) vs = ROk s ->
  batch_ready64 s /\ plain_count s = inj (Z.of_nat (length vs)).
Proof. exact hist_batch_ready_any. Qed.
Print Assumptions C12_hist_batch_ready_any.

Theorem C12_hist_batch_answers :
  forall (mt : mtable) (m : mapid) (kp kn : kind) (vs : list f64) (s : sketch),
  mt_ok mt -> kind_ok kp -> kind_ok kn -> unit_adds_ok mt vs -> (Z.of_nat (length vs) <= 2 ^ 53)%Z ->
  xk_add_units mt (sk_new m kp kn false) vs = ROk s ->
  forall (qs : list f64) (ys : list fval),
  snd (xk_quantiles mt s qs) = ROk ys -> Forall2 (fun q y => snd (xk_quantile mt s q) = ROk y) qs ys.
Proof. exact hist_batch_answers. Qed.
Print Assumptions C12_hist_batch_answers.

Theorem C12_hist_batch_refused :
  forall (mt : mtable) (m : mapid) (kp kn : kind) (vs : list f64) (s : sketch),
  mt_ok mt -> kind_ok kp -> kind_ok kn -> unit_adds_ok mt vs -> (Z.of_nat (length vs) <= 2 ^ 53)%Z ->
  xk_add_units mt (sk_new m kp kn false) vs = ROk s ->
  forall (qs : list f64) (e : err),
  snd (xk_quantiles mt s qs) = RErr e ->
  exists pre q post, qs = pre ++ q :: post /\ snd (xk_quantile mt s q) = RErr e /\
                     Forall (fun q' => exists y, snd (xk_quantile mt s q') = ROk y) pre.
Proof. exact hist_batch_refused. Qed.
Print Assumptions C12_hist_batch_refused.

Theorem C12_hist_batch_total :
  forall (mt : mtable) (m : mapid) (kp kn : kind) (vs : list f64) (s : sketch),
  mt_ok mt -> kind_ok kp -> kind_ok kn -> unit_adds_ok mt vs -> (Z.of_nat (length vs) <= 2 ^ 53)%Z ->
  xk_add_units mt (sk_new m kp kn false) vs = ROk s ->
  forall (qs : list f64),
  Forall (fun q => exists y, snd (xk_quantile mt s q) = ROk y) qs -> exists ys, snd (xk_quantiles mt s qs) = ROk ys.
Proof. exact hist_batch_total. Qed.
Print Assumptions C12_hist_batch_total.

Theorem C12_hist_batch_keeps :
  forall (mt : mtable) (m : mapid) (kp kn : kind) (vs : list f64) (s : sketch),
  mt_ok mt -> kind_ok kp -> kind_ok kn -> unit_adds_ok mt vs -> (Z.of_nat (length vs) <= 2 ^ 53)%Z ->
  xk_add_units mt (sk_new m kp kn false) vs = ROk s ->
  forall (qs : list f64),
  let s' := fst (xk_quantiles mt s qs) in
  SkInv s' /\ sk_same s s' /\ sk_abs s' = sk_abs s /\ sk_stats s' = sk_stats s.
Proof. exact hist_batch_keeps. Qed.
Print Assumptions C12_hist_batch_keeps.

(* the history run is the plain run of the model (no statistics: exact = false) *)
Theorem C12_hist_run_is_plain_run :
  forall (mt : mtable) (vs : list f64) (s : sketch), sk_stats s = None ->
  xk_add_units mt s vs = SketchProofs3.plain_add_list mt s (map (fun v => (v, f64_one)) vs).
Proof. exact xk_add_units_plain. Qed.
Print Assumptions C12_hist_run_is_plain_run.
