(* Props/GlueAcc — float-level ACCURACY of the interpolated index mappings of the bit-exact model
   (SK.Mapping.Glue): containment, bin ratio, relative accuracy of Value(Index(v)).  Statements only;
   proofs: SK.Mapping.GlueAccuracy (on top of SK.Mapping.GlueProofs and the ideal development SK.Real).
   Every theorem quantifies over ALL binary64 values satisfying its premises.

   Reading aid.  Notations local to this file: finite x = (is_finite 53 1024 x = true), val x = B2R 53 1024 x,
   normal_pos x = finite x /\ 2^-1022 <= val x.  Plain definitions of GlueAccuracy (unfold to read):
     q45, q41, q40, q38, q35   = 2^-45, 2^-41, 2^-40, 2^-38, 2^-35        (as / <integer literal>)
     reasonable k m   = gm_kind m = k /\ finite (gm_mult m) /\ finite (gm_off m) /\
                        1 <= val (gm_mult m) <= 2^20 /\ |val (gm_off m)| <= 2^11 * val (gm_mult m)
                        (multiplier = 1/log2 gamma: gamma between 2^(2^-20) and 2; the constructors use
                         indexOffset = 0 or = multiplier.  The bound on the offset is NEEDED: with
                         indexOffset = 2^52 the index float has no fraction bits and containment fails by half a
                         bin, with 2^40 by a relative 2^-18 — observed on the real code.)
     index_float L m v = fadd (fmul (approx_log L (gm_kind m) v) (gm_mult m)) (gm_off m)   (its Go floor is Index v)
     lower_arg m k    = fdiv (fsub (f_of_int k) (gm_off m)) (gm_mult m)      (the argument of approximateInverseLog
                                                                              in LowerBound(k))
     in_range m k     = -1022 <= Zfloor (val (lower_arg m k)) <= 1023        (LowerBound(k) is a normal float)
     floor_exact L    = forall u, finite u -> finite (l_floor L u) /\ val (l_floor L u) = IZR (Zfloor (val u))
     forward_ok L k Lr   = forall v, normal_pos v -> 0 < val v /\ finite (approx_log L k v) /\
                           |val (approx_log L k v)| <= 1026 /\ |val (approx_log L k v) - Lr (val v)| <= 2^-42
     inverse_ok L k Linvr = forall t, finite t -> -1022 <= Zfloor (val t) <= 1023 ->
                           finite (approx_inverse_log L k t) /\ normal_pos (approx_inverse_log L k t) /\
                           Linvr (val t) (1 - 2^-45) <= val (approx_inverse_log L k t) <= Linvr (val t) (1 + 2^-45)
     cub_inverse_ok L = inverse_ok L MCub MapCub.Linv_cub
     value_factor_ok L m g0 eF = finite F /\ 1 <= val F /\ |val F - (1 + alpha_of g0)| <= eF
                           where F = fadd f64_one (gm_accuracy L m) is the factor Value multiplies LowerBound by
                           (gm_accuracy = RelativeAccuracy() goes through math.Exp, math.Log2: libm enters here)
   From SK.Real: L_lin v = bexp v + bsig v, Linv_lin t = 2^floor t (1 + frac t), L_cub / Linv_cub with the cubic
   Pcub, LogLike (growth c (ln y - ln x) <= L y - L x), alpha_of g = (g - 1)/(g + 1).  For the linear mapping the
   ideal bin ratio is exp (1 / multiplier), for the cubic one exp (1 / (10/7 * multiplier)).

   WHAT IS ASSUMED.  Linear mapping: floor_exact (math.Floor), reasonable, in_range of i and i + 1, and for Value
   the factor premise value_factor_ok (the only place where math.Exp/math.Log2 enter).  Cubic mapping: the same
   plus cub_inverse_ok (Cardano through math.Cbrt and math.Sqrt: NOT derived; measured on the real code: worst
   relative error 2^-48.9 over 3*10^5 arguments). *)
From Coq Require Import Bool NArith ZArith QArith Qcanon Qcabs Reals.
From Flocq Require Import Core.Core IEEE754.BinarySingleNaN IEEE754.Binary IEEE754.Bits.
From SK Require Import Base.Prelude Base.F64 Base.F64Proofs Mapping.Glue Mapping.GlueProofs Mapping.GlueAccuracy.
From SK.Real Require Import RBasics MapGeneric Binade MapLin.
From SK.Real Require MapCub.
Local Open Scope R_scope.

Local Notation finite x := (is_finite 53 1024 x = true).
Local Notation val x := (B2R 53 1024 x).
Local Notation normal_pos x := (is_finite 53 1024 x = true /\ Rle (bpow radix2 (-1022)) (B2R 53 1024 x)).

(* ------------------------------------------------------------------ *)
(* 0. rounding error in relative form (every real x)                   *)
(* ------------------------------------------------------------------ *)
Theorem GA_round_error (x : R) :
  Rabs (round radix2 (FLT_exp (-1074) 53) ZnearestE x - x) <= u53 * Rabs x + u100.
Proof. exact (rndR_err_rel x). Qed.
Print Assumptions GA_round_error.

(* ------------------------------------------------------------------ *)
(* 1. the two approximations against the ideal pairs                   *)
(* ------------------------------------------------------------------ *)
(* linear: no premise at all forward, math.Floor exact backward *)
Theorem GA_lin_forward (L : libm) : forward_ok L MLin L_lin.
Proof. exact (lin_forward_ok L). Qed.
Print Assumptions GA_lin_forward.

Theorem GA_lin_inverse (L : libm) : floor_exact L -> inverse_ok L MLin Linv_lin.
Proof. exact (lin_inverse_ok L). Qed.
Print Assumptions GA_lin_inverse.

(* cubic: the Horner evaluation with the rounded constants is within 2^-50 of the real cubic with the exact
   coefficients 6/35, -3/5, 10/7 on [0, 1); no premise on the oracle forward *)
Theorem GA_cub_horner (s : R) : 0 <= s < 1 -> Rabs (Gg s - MapCub.Pcub s) <= / 1125899906842624.
Proof. exact (Gg_vs_Pcub s). Qed.
Print Assumptions GA_cub_horner.

Theorem GA_cub_forward (L : libm) : forward_ok L MCub MapCub.L_cub.
Proof. exact (cub_forward_ok L). Qed.
Print Assumptions GA_cub_forward.

(* ------------------------------------------------------------------ *)
(* 2. the index float and the argument of LowerBound (any kind)        *)
(* ------------------------------------------------------------------ *)
(* (i - off)/mult <= Lr v + 2^-40  and  Lr v - 2^-40 <= (i + 1 - off)/mult  for i = Index v *)
Theorem GA_index_brackets (L : libm) (k : mkind) (Lr : R -> R) (m : gmap) (v : f64) :
  forward_ok L k Lr -> reasonable k m -> normal_pos v ->
  let i := gm_index L m v in
  (IZR i - val (gm_off m)) / val (gm_mult m) <= Lr (val v) + q40 /\
  Lr (val v) - q40 <= (IZR i + 1 - val (gm_off m)) / val (gm_mult m) /\
  Rabs (IZR i) <= 4096 * val (gm_mult m) + 1.
Proof. intros Hf Hm. exact (index_brackets L k Lr Hf m Hm v). Qed.
Print Assumptions GA_index_brackets.

(* the float argument of approximateInverseLog is within 2^-41 of the exact quotient *)
Theorem GA_lower_arg_close (k : mkind) (m : gmap) (j : Z) :
  reasonable k m -> (Z.abs j <= 2 ^ 53)%Z -> Rabs (val (lower_arg m j)) <= 1024 ->
  Rabs ((IZR j - val (gm_off m)) / val (gm_mult m)) <= 1025 /\
  Rabs (val (lower_arg m j) - (IZR j - val (gm_off m)) / val (gm_mult m)) <= q41.
Proof. intros Hm. exact (lower_arg_close k m Hm j). Qed.
Print Assumptions GA_lower_arg_close.

(* ------------------------------------------------------------------ *)
(* 3. T1-T3, generic in the kind                                       *)
(* ------------------------------------------------------------------ *)
Theorem GA_gen_containment (L : libm) (k : mkind) (Lr Linvr : R -> R) (c : R) (m : gmap) (v : f64) :
  LogLike Lr Linvr c -> 1 <= c -> forward_ok L k Lr -> inverse_ok L k Linvr -> reasonable k m ->
  normal_pos v ->
  let i := gm_index L m v in
  in_range m i -> in_range m (i + 1) ->
  val (gm_lower L m i) <= val v * (1 + q38) /\ val v <= val (gm_lower L m (i + 1)) * (1 + q38).
Proof. intros H1 H2 H3 H4 H5. exact (gen_containment_f L k Lr Linvr c H1 H2 H3 H4 m H5 v). Qed.
Print Assumptions GA_gen_containment.

Theorem GA_gen_bin_ratio (L : libm) (k : mkind) (Lr Linvr : R -> R) (c : R) (m : gmap) (i : Z) :
  LogLike Lr Linvr c -> 1 <= c -> inverse_ok L k Linvr -> reasonable k m ->
  (Z.abs i < 2 ^ 53)%Z -> in_range m i -> in_range m (i + 1) ->
  val (gm_lower L m (i + 1)) <= val (gm_lower L m i) * exp (1 / (c * val (gm_mult m))) * (1 + q38).
Proof. intros H1 H2 H4 H5. exact (gen_bin_ratio_f L k Lr Linvr c H1 H2 H4 m H5 i). Qed.
Print Assumptions GA_gen_bin_ratio.

Theorem GA_gen_value_accuracy (L : libm) (k : mkind) (Lr Linvr : R -> R) (c : R) (m : gmap)
  (g0 eF : R) (v : f64) :
  LogLike Lr Linvr c -> 1 <= c -> forward_ok L k Lr -> inverse_ok L k Linvr -> reasonable k m ->
  exp (1 / (c * val (gm_mult m))) <= g0 <= 4 -> 0 <= eF <= / 8 -> value_factor_ok L m g0 eF ->
  normal_pos v ->
  let i := gm_index L m v in
  in_range m i -> in_range m (i + 1) -> finite (gm_value L m i) ->
  Rabs (val (gm_value L m i) - val v) <= (alpha_of g0 + eF + q35) * val v.
Proof. intros H1 H2 H3 H4 H5. exact (gen_value_accuracy_f L k Lr Linvr c H1 H2 H3 H4 m H5 g0 eF v). Qed.
Print Assumptions GA_gen_value_accuracy.

(* ------------------------------------------------------------------ *)
(* 4. the linearly interpolated mapping                                *)
(* ------------------------------------------------------------------ *)
(* T1 containment: LowerBound(Index v) <= v (1 + 2^-38) and v <= LowerBound(Index v + 1) (1 + 2^-38) *)
Theorem GA_lin_containment (L : libm) (m : gmap) (v : f64) :
  reasonable MLin m -> floor_exact L -> normal_pos v ->
  let i := gm_index L m v in
  in_range m i -> in_range m (i + 1) ->
  val (gm_lower L m i) <= val v * (1 + q38) /\ val v <= val (gm_lower L m (i + 1)) * (1 + q38).
Proof. intros Hm HF. exact (lin_containment L m Hm HF v). Qed.
Print Assumptions GA_lin_containment.

(* T2 bin ratio: exp (1/multiplier) = gamma^(1/ln 2) is the ideal ratio gamma0_lin of SK.Real.MapLin *)
Theorem GA_lin_bin_ratio (L : libm) (m : gmap) (i : Z) :
  reasonable MLin m -> floor_exact L ->
  (Z.abs i < 2 ^ 53)%Z -> in_range m i -> in_range m (i + 1) ->
  val (gm_lower L m (i + 1)) <= val (gm_lower L m i) * exp (1 / val (gm_mult m)) * (1 + q38).
Proof. intros Hm HF. exact (lin_bin_ratio L m Hm HF i). Qed.
Print Assumptions GA_lin_bin_ratio.

(* T3 accuracy: g0 is any real bound of the ideal bin ratio (e.g. (1+a)/(1-a) (1 + tiny) for the configured
   accuracy a), eF the error of the stored factor 1 + RelativeAccuracy() against 1 + alpha_of g0 *)
Theorem GA_lin_value_accuracy (L : libm) (m : gmap) (g0 eF : R) (v : f64) :
  reasonable MLin m -> floor_exact L ->
  exp (1 / val (gm_mult m)) <= g0 <= 4 -> 0 <= eF <= / 8 -> value_factor_ok L m g0 eF ->
  normal_pos v ->
  let i := gm_index L m v in
  in_range m i -> in_range m (i + 1) -> finite (gm_value L m i) ->
  Rabs (val (gm_value L m i) - val v) <= (alpha_of g0 + eF + q35) * val v.
Proof. intros Hm HF. exact (lin_value_accuracy L m Hm HF g0 eF v). Qed.
Print Assumptions GA_lin_value_accuracy.

(* the finiteness premise of T3 holds up to 2^1021 *)
Theorem GA_lin_value_finite (L : libm) (m : gmap) (g0 eF : R) (v : f64) :
  reasonable MLin m -> floor_exact L ->
  1 < g0 -> 0 <= eF <= / 8 -> value_factor_ok L m g0 eF ->
  normal_pos v -> val v <= bpow radix2 1021 ->
  let i := gm_index L m v in
  in_range m i -> in_range m (i + 1) -> finite (gm_value L m i).
Proof. intros Hm HF. exact (lin_value_finite L m Hm HF g0 eF v). Qed.
Print Assumptions GA_lin_value_finite.

(* T3 over the exact rationals of the sketch model: the "libm accuracy" premise of Props/Bridge *)
Theorem GA_lin_value_accuracy_Qc (L : libm) (m : gmap) (g0 eF : R) (alpha : Qc) (v : f64) :
  reasonable MLin m -> floor_exact L ->
  exp (1 / val (gm_mult m)) <= g0 <= 4 -> 0 <= eF <= / 8 -> value_factor_ok L m g0 eF ->
  alpha_of g0 + eF + q35 <= qR alpha ->
  normal_pos v ->
  let i := gm_index L m v in
  in_range m i -> in_range m (i + 1) -> finite (gm_value L m i) ->
  (Qcabs (f2q (gm_value L m i) - f2q v) <= alpha * f2q v)%Qc.
Proof. intros Hm HF. exact (lin_value_accuracy_Qc L m Hm HF g0 eF alpha v). Qed.
Print Assumptions GA_lin_value_accuracy_Qc.

(* ------------------------------------------------------------------ *)
(* 5. the cubically interpolated mapping, under cub_inverse_ok         *)
(* ------------------------------------------------------------------ *)
Theorem GA_cub_containment (L : libm) (m : gmap) (v : f64) :
  reasonable MCub m -> cub_inverse_ok L -> normal_pos v ->
  let i := gm_index L m v in
  in_range m i -> in_range m (i + 1) ->
  val (gm_lower L m i) <= val v * (1 + q38) /\ val v <= val (gm_lower L m (i + 1)) * (1 + q38).
Proof. intros Hm HI. exact (cub_containment L m Hm HI v). Qed.
Print Assumptions GA_cub_containment.

Theorem GA_cub_bin_ratio (L : libm) (m : gmap) (i : Z) :
  reasonable MCub m -> cub_inverse_ok L ->
  (Z.abs i < 2 ^ 53)%Z -> in_range m i -> in_range m (i + 1) ->
  val (gm_lower L m (i + 1)) <= val (gm_lower L m i) * exp (1 / (10 / 7 * val (gm_mult m))) * (1 + q38).
Proof. intros Hm HI. exact (cub_bin_ratio L m Hm HI i). Qed.
Print Assumptions GA_cub_bin_ratio.

Theorem GA_cub_value_accuracy (L : libm) (m : gmap) (g0 eF : R) (v : f64) :
  reasonable MCub m -> cub_inverse_ok L ->
  exp (1 / (10 / 7 * val (gm_mult m))) <= g0 <= 4 -> 0 <= eF <= / 8 -> value_factor_ok L m g0 eF ->
  normal_pos v ->
  let i := gm_index L m v in
  in_range m i -> in_range m (i + 1) -> finite (gm_value L m i) ->
  Rabs (val (gm_value L m i) - val v) <= (alpha_of g0 + eF + q35) * val v.
Proof. intros Hm HI. exact (cub_value_accuracy L m Hm HI g0 eF v). Qed.
Print Assumptions GA_cub_value_accuracy.

Theorem GA_cub_value_accuracy_Qc (L : libm) (m : gmap) (g0 eF : R) (alpha : Qc) (v : f64) :
  reasonable MCub m -> cub_inverse_ok L ->
  exp (1 / (10 / 7 * val (gm_mult m))) <= g0 <= 4 -> 0 <= eF <= / 8 -> value_factor_ok L m g0 eF ->
  alpha_of g0 + eF + q35 <= qR alpha ->
  normal_pos v ->
  let i := gm_index L m v in
  in_range m i -> in_range m (i + 1) -> finite (gm_value L m i) ->
  (Qcabs (f2q (gm_value L m i) - f2q v) <= alpha * f2q v)%Qc.
Proof. intros Hm HI. exact (cub_value_accuracy_Qc L m Hm HI g0 eF alpha v). Qed.
Print Assumptions GA_cub_value_accuracy_Qc.

(* ------------------------------------------------------------------ *)
(* 6. the premises are simultaneously satisfiable                      *)
(* ------------------------------------------------------------------ *)
(* an exact math.Floor exists as a function on binary64: Flocq's round-to-integral toward -oo *)
Theorem GA_ex_floor_exact (u : f64) :
  finite u -> finite (fl_floor u) /\ val (fl_floor u) = IZR (Zfloor (val u)).
Proof. exact (fl_floor_exact u). Qed.
Print Assumptions GA_ex_floor_exact.

(* a stub oracle (exact floor, math.Exp constantly 3.0) and the mapping with multiplier 1.0, offset 0:
   e = exp (1/multiplier) <= 3 = g0, the stored factor is exactly 1 + alpha_of 3 = 1.5 (eF = 0) *)
Theorem GA_ex_stub_premises :
  floor_exact L_stub /\ reasonable MLin m_stub /\ value_factor_ok L_stub m_stub 3 0 /\
  exp (1 / val (gm_mult m_stub)) <= 3 <= 4.
Proof. exact (conj stub_floor_exact (conj stub_reasonable (conj stub_factor_ok stub_g0))). Qed.
Print Assumptions GA_ex_stub_premises.

(* and a complete instance of T3 at v = 3.75 (index 1): every premise discharged by computation *)
Theorem GA_ex_stub_instance :
  gm_index L_stub m_stub v_375 = 1%Z /\
  Rabs (val (gm_value L_stub m_stub 1) - val v_375) <= (alpha_of 3 + 0 + q35) * val v_375.
Proof. exact stub_instance. Qed.
Print Assumptions GA_ex_stub_instance.
