(* Props/ChangeMappingQ — C17, the quantile clause of the change of mapping: statements only.
   "Every quantile of the result is within the combined relative error of the two mappings of the
   scaled source quantile."  In exact arithmetic the conversion is a monotone coupling
   (Props/ChangeMapping.v, C17_coupling), so the statement holds at the SAME rank.
   All proofs: SK.Sketch.ChangeMappingQ (which builds on SK.Sketch.ChangeMapping).

   Reading aid (see also Props/ChangeMapping.v):
     key_at_rank b t     the first key of b whose cumulative weight exceeds the rank t
                         (what the quantile query selects for rank t; Spec/Bins.v)
     total b             the total weight of b;  ranks considered: 0 <= t < total b
     value1, value2      the representative value of a bin of the old / the new mapping
     a1, a2              their relative accuracies: |value k - x| <= a * x for every x in the closed
                         range [lower k, lower (k + 1)] of bin k (written as two inequalities)
   Hypotheses on mappings, index and scale: exactly those of C17_mass_transport. *)
From Coq Require Import List ZArith QArith Qcanon Lia.
From SK Require Import Spec.Bins Spec.ASketch Spec.BinsProofs Sketch.ChangeMapping
                       Sketch.ChangeMappingQ.
Import ListNotations.
Local Open Scope Z_scope.

(* ------------------------------------------------------------------ *)
(** * 1. key level: the bins selected by one rank overlap *)

(** the source bin i and the result bin out selected by the same rank t: the scaled range of i
    meets the range of out *)
Theorem C17_rank_bins_overlap :
  forall (lower1 lower2 : Z -> Qc) (index2 : Qc -> Z) (scale : Qc) (guard : bool),
  (w0 < scale)%Qc ->
  (forall i j, i < j -> (lower1 i < lower1 j)%Qc) -> (forall i, (0 < lower1 i)%Qc) ->
  (forall i j, i < j -> (lower2 i < lower2 j)%Qc) ->
  (forall x, (0 < x)%Qc -> (lower2 (index2 x) <= x)%Qc /\ (x < lower2 (index2 x + 1)%Z)%Qc) ->
  forall (b r : bins) (t : W) (i out : Z),
  wf b = true -> pos b -> convert_store lower1 lower2 index2 scale guard b = Some r ->
  (w0 <= t)%Qc -> (t < total b)%Qc ->
  key_at_rank b t = Some i -> key_at_rank r t = Some out ->
  overlap lower1 lower2 scale i out.
Proof. exact convert_store_rank_overlap. Qed.
Print Assumptions C17_rank_bins_overlap.

(** the same with [overlap] spelled out *)
Theorem C17_rank_bins_overlap_explicit :
  forall (lower1 lower2 : Z -> Qc) (index2 : Qc -> Z) (scale : Qc) (guard : bool),
  (w0 < scale)%Qc ->
  (forall i j, i < j -> (lower1 i < lower1 j)%Qc) -> (forall i, (0 < lower1 i)%Qc) ->
  (forall i j, i < j -> (lower2 i < lower2 j)%Qc) ->
  (forall x, (0 < x)%Qc -> (lower2 (index2 x) <= x)%Qc /\ (x < lower2 (index2 x + 1)%Z)%Qc) ->
  forall (b r : bins) (t : W) (i out : Z),
  wf b = true -> pos b -> convert_store lower1 lower2 index2 scale guard b = Some r ->
  (w0 <= t)%Qc -> (t < total b)%Qc ->
  key_at_rank b t = Some i -> key_at_rank r t = Some out ->
  (lower2 out < lower1 (i + 1)%Z * scale)%Qc /\ (lower1 i * scale < lower2 (out + 1)%Z)%Qc.
Proof. exact convert_store_rank_overlap. Qed.
Print Assumptions C17_rank_bins_overlap_explicit.

(* ------------------------------------------------------------------ *)
(** * 2. value level: within the combined relative accuracy *)

(** overlapping bins have representatives within (1 - a2) / (1 + a1) and (1 + a2) / (1 - a1)
    of each other, after scaling (stated without division) *)
Theorem C17_overlap_value_ratio :
  forall (lower1 lower2 value1 value2 : Z -> Qc) (scale a1 a2 : Qc) (i out : Z),
  (w0 < scale)%Qc ->
  (forall i j, i < j -> (lower1 i < lower1 j)%Qc) -> (forall i, (0 < lower1 i)%Qc) ->
  (forall i j, i < j -> (lower2 i < lower2 j)%Qc) ->
  (0 <= a1)%Qc -> (a1 < 1)%Qc -> (0 <= a2)%Qc -> (a2 < 1)%Qc ->
  (forall (k : Z) (x : Qc), (lower1 k <= x)%Qc -> (x <= lower1 (k + 1)%Z)%Qc ->
     (value1 k - x <= a1 * x)%Qc /\ (x - value1 k <= a1 * x)%Qc) ->
  (forall (k : Z) (x : Qc), (lower2 k <= x)%Qc -> (x <= lower2 (k + 1)%Z)%Qc ->
     (value2 k - x <= a2 * x)%Qc /\ (x - value2 k <= a2 * x)%Qc) ->
  overlap lower1 lower2 scale i out ->
  ((1 - a2) * (scale * value1 i) <= (1 + a1) * value2 out)%Qc /\
  ((1 - a1) * value2 out <= (1 + a2) * (scale * value1 i))%Qc.
Proof. exact overlap_value_ratio. Qed.
Print Assumptions C17_overlap_value_ratio.

(** the quantile clause: the values answered for one rank before and after the conversion *)
Theorem C17_quantile_ratio :
  forall (lower1 lower2 : Z -> Qc) (index2 : Qc -> Z) (scale : Qc) (guard : bool)
         (value1 value2 : Z -> Qc) (a1 a2 : Qc),
  (w0 < scale)%Qc ->
  (forall i j, i < j -> (lower1 i < lower1 j)%Qc) -> (forall i, (0 < lower1 i)%Qc) ->
  (forall i j, i < j -> (lower2 i < lower2 j)%Qc) ->
  (forall x, (0 < x)%Qc -> (lower2 (index2 x) <= x)%Qc /\ (x < lower2 (index2 x + 1)%Z)%Qc) ->
  (0 <= a1)%Qc -> (a1 < 1)%Qc -> (0 <= a2)%Qc -> (a2 < 1)%Qc ->
  (forall (k : Z) (x : Qc), (lower1 k <= x)%Qc -> (x <= lower1 (k + 1)%Z)%Qc ->
     (value1 k - x <= a1 * x)%Qc /\ (x - value1 k <= a1 * x)%Qc) ->
  (forall (k : Z) (x : Qc), (lower2 k <= x)%Qc -> (x <= lower2 (k + 1)%Z)%Qc ->
     (value2 k - x <= a2 * x)%Qc /\ (x - value2 k <= a2 * x)%Qc) ->
  forall (b r : bins) (t : W) (i out : Z),
  wf b = true -> pos b -> convert_store lower1 lower2 index2 scale guard b = Some r ->
  (w0 <= t)%Qc -> (t < total b)%Qc ->
  key_at_rank b t = Some i -> key_at_rank r t = Some out ->
  ((1 - a2) * (scale * value1 i) <= (1 + a1) * value2 out)%Qc /\
  ((1 - a1) * value2 out <= (1 + a2) * (scale * value1 i))%Qc.
Proof. exact rank_value_ratio. Qed.
Print Assumptions C17_quantile_ratio.

(* ------------------------------------------------------------------ *)
(** * 3. non-vacuity: tables on all of Z satisfying every premise

    hz_lower k = k + 1 for k >= 0, 1 / (1 - k) for k < 0   (..., 1/3, 1/2, 1, 2, 3, ...)
    hz_index = its exact index;  hz_value k = 4/3 * hz_lower k;  hz_acc = 1/3;  hz_scale = 3/2;
    hz_src = bins 0, 1, 2 of weight 1 (ranges [1,2] [2,3] [3,4]). *)

Theorem C17_quantile_premises_hold :
  (w0 < hz_scale)%Qc /\
  (forall i j, i < j -> (hz_lower i < hz_lower j)%Qc) /\ (forall i, (0 < hz_lower i)%Qc) /\
  (forall x, (0 < x)%Qc -> (hz_lower (hz_index x) <= x)%Qc /\ (x < hz_lower (hz_index x + 1)%Z)%Qc) /\
  (0 <= hz_acc)%Qc /\ (hz_acc < 1)%Qc /\
  (forall (k : Z) (x : Qc), (hz_lower k <= x)%Qc -> (x <= hz_lower (k + 1)%Z)%Qc ->
     (hz_value k - x <= hz_acc * x)%Qc /\ (x - hz_value k <= hz_acc * x)%Qc) /\
  wf hz_src = true /\ pos hz_src /\ total hz_src = Q2Qc 3.
Proof. exact hz_tables_ok. Qed.
Print Assumptions C17_quantile_premises_hold.

Example C17_quantile_example_tables :
  map (fun k => this (hz_lower k)) [-3; -2; -1; 0; 1; 2; 3]
  = [(1 # 4)%Q; (1 # 3)%Q; (1 # 2)%Q; 1%Q; 2%Q; 3%Q; 4%Q] /\
  map (fun q => hz_index (Q2Qc q)) [(1 # 4)%Q; (2 # 7)%Q; (1 # 2)%Q; (99 # 100)%Q; 1%Q; (7 # 2)%Q]
  = [-3; -3; -1; -1; 0; 2].
Proof. vm_compute. split; reflexivity. Qed.

(** the converted store: scaled ranges [3/2,3] [3,9/2] [9/2,6] spread over target bins 0..4 *)
Example C17_quantile_example_store :
  option_map bins_Q (convert_store hz_lower hz_lower hz_index hz_scale true hz_src)
  = Some [(0, (1 # 3)%Q); (1, (2 # 3)%Q); (2, (2 # 3)%Q); (3, (2 # 3)%Q); (4, (2 # 3)%Q)].
Proof. vm_compute. reflexivity. Qed.

(** rank 1 selects source bin 1 and result bin 2 *)
Theorem C17_quantile_example_ranks :
  key_at_rank hz_src (Q2Qc 1) = Some 1 /\
  (exists r, convert_store hz_lower hz_lower hz_index hz_scale true hz_src = Some r /\
             key_at_rank r (Q2Qc 1) = Some 2).
Proof. exact hz_ranks. Qed.
Print Assumptions C17_quantile_example_ranks.

(** theorem 1 on these tables, every premise discharged: all ranks 0 <= t < 3 *)
Theorem C17_rank_bins_overlap_example :
  forall (t : W) (i out : Z) (r : bins),
  convert_store hz_lower hz_lower hz_index hz_scale true hz_src = Some r ->
  (w0 <= t)%Qc -> (t < Q2Qc 3)%Qc ->
  key_at_rank hz_src t = Some i -> key_at_rank r t = Some out ->
  overlap hz_lower hz_lower hz_scale i out.
Proof. exact hz_rank_overlap. Qed.
Print Assumptions C17_rank_bins_overlap_example.

(** theorem 2 on these tables at rank 1 (i = 1, out = 2):
    2/3 * (3/2 * 8/3) <= 4/3 * 4  and  2/3 * 4 <= 4/3 * (3/2 * 8/3) *)
Theorem C17_quantile_ratio_example :
  ((1 - hz_acc) * (hz_scale * hz_value 1) <= (1 + hz_acc) * hz_value 2)%Qc /\
  ((1 - hz_acc) * hz_value 2 <= (1 + hz_acc) * (hz_scale * hz_value 1))%Qc.
Proof. exact hz_quantile_ratio. Qed.
Print Assumptions C17_quantile_ratio_example.

Example C17_quantile_example_values :
  this (hz_scale * hz_value 1)%Qc = 4%Q /\ this (hz_value 2) = 4%Q /\
  this ((1 - hz_acc) * (hz_scale * hz_value 1))%Qc = (8 # 3)%Q /\
  this ((1 + hz_acc) * hz_value 2)%Qc = (16 # 3)%Q.
Proof. vm_compute. repeat split; reflexivity. Qed.
