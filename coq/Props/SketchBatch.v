(* Props/SketchBatch — GetValuesAtQuantiles against GetValueAtQuantile (C11/C12: "every quantile answer"): statements only.
   Model: Sketch/SketchBatch.v [quantiles_with quant] = the loop of the batch entry point over the single query [quant]
   (the extracted driver runs it over the executed [xk_quantile] at every `qs`).  The theorems hold for ANY single query
   whose reads are pure up to a relation R (paginated stores sort and compact while answering: R = same abstraction,
   Props/Refine.v Rf_plain_quantile gives `sk_abs s' = sk_abs s`). *)
From Coq Require Import List Arith.
From SK Require Import Base.Prelude Base.F64 Sketch.Sketch Sketch.SketchBatch Sketch.SketchBatchProofs.
Import ListNotations.

Theorem C12_batch_answers_are_single_answers :
  forall (S A Q : Type) (quant : S -> Q -> S * result A) (R : S -> S -> Prop),
  (forall s, R s s) -> (forall a b c, R a b -> R b c -> R a c) ->
  (forall s q, R s (fst (quant s q))) -> (forall s s' q, R s s' -> snd (quant s q) = snd (quant s' q)) ->
  forall (qs : list Q) (s : S) (vs : list A),
  snd (quantiles_with quant s qs) = ROk vs -> Forall2 (fun q v => snd (quant s q) = ROk v) qs vs.
Proof. intros S A Q quant R Rr Rt K Rs qs s vs. exact (batch_ok quant R Rt K Rs qs s s vs (Rr s)). Qed.
Print Assumptions C12_batch_answers_are_single_answers.

Theorem C12_batch_refused_iff_a_single_query_is :
  forall (S A Q : Type) (quant : S -> Q -> S * result A) (R : S -> S -> Prop),
  (forall s, R s s) -> (forall a b c, R a b -> R b c -> R a c) ->
  (forall s q, R s (fst (quant s q))) -> (forall s s' q, R s s' -> snd (quant s q) = snd (quant s' q)) ->
  forall (qs : list Q) (s : S),
  (forall e, snd (quantiles_with quant s qs) = RErr e ->
     exists pre q post, qs = pre ++ q :: post /\ snd (quant s q) = RErr e /\
                        Forall (fun q' => exists v, snd (quant s q') = ROk v) pre) /\
  (Forall (fun q => exists v, snd (quant s q) = ROk v) qs -> exists vs, snd (quantiles_with quant s qs) = ROk vs).
Proof.
  intros S A Q quant R Rr Rt K Rs qs s. split.
  - intros e. exact (batch_err quant R Rt K Rs qs s s e (Rr s)).
  - exact (batch_total quant R Rt K Rs qs s s (Rr s)).
Qed.
Print Assumptions C12_batch_refused_iff_a_single_query_is.

Theorem C12_batch_keeps_the_sketch :
  forall (S A Q : Type) (quant : S -> Q -> S * result A) (R : S -> S -> Prop),
  (forall s, R s s) -> (forall a b c, R a b -> R b c -> R a c) -> (forall s q, R s (fst (quant s q))) ->
  forall (qs : list Q) (s : S), R s (fst (quantiles_with quant s qs)).
Proof. intros S A Q quant R Rr Rt K qs s. exact (batch_keeps quant R Rr Rt K qs s). Qed.
Print Assumptions C12_batch_keeps_the_sketch.

(* non-vacuity: a query that reorganises its state while answering (a counter of reads beside the content), pure up to
   R = same content; refused above 10 *)
Definition toy_quant (s : nat * nat) (q : nat) : (nat * nat) * result nat :=
  ((Datatypes.S (fst s), snd s), if Nat.ltb 10 q then RErr EBadQuantile else ROk (Nat.add q (snd s))).
Example C12_batch_example :
  (forall s q, snd s = snd (fst (toy_quant s q))) /\
  (forall s s' q, snd s = snd s' -> snd (toy_quant s q) = snd (toy_quant s' q)) /\
  quantiles_with toy_quant (0, 5)%nat [1; 2; 3]%nat = ((3, 5)%nat, ROk [6; 7; 8]%nat) /\
  snd (quantiles_with toy_quant (0, 5)%nat [1; 20; 3]%nat) = RErr EBadQuantile.
Proof. repeat split; intros; cbn; try reflexivity. destruct s, s'; cbn in *; subst; reflexivity. Qed.
