(* C18: the variable-length integer / float codecs of ddsketch/encoding/encoding.go and the flag byte.
   Statements only; the proofs are in Codec/CodecProofs.v (stdlib, axiom-free) and
   Codec/VarfloatProofs.v (Flocq; only the four stdlib axioms of the real numbers). *)
From Coq Require Import Bool NArith ZArith List Reals.
From Flocq Require Import Core.Core IEEE754.Binary IEEE754.Bits IEEE754.BinarySingleNaN.
From SK Require Import Codec.Codec Codec.Varfloat Codec.CodecProofs Codec.VarfloatProofs.
Import ListNotations.
Open Scope N_scope.

(* ---- a. uvarint round trip and framing ---- *)
Theorem uvarint_roundtrip : forall (v : N) (rest : list byte),
  v < 2^64 -> dec_uv (enc_uv v ++ rest) = Ok v rest.
Proof. exact CodecProofs.uvarint_roundtrip. Qed.
Print Assumptions uvarint_roundtrip.

(* ---- b. zig-zag ---- *)
Theorem zigzag_u : forall u : N, u < 2^64 -> zz_dec_u (zz_enc_u u) = u /\ zz_enc_u u < 2^64.
Proof. intros u Hu. split; [exact (zz_dec_enc_u u Hu)|exact (zz_enc_u_lt u Hu)]. Qed.
Print Assumptions zigzag_u.

Theorem twos_complement : forall v : Z, (- 2^63 <= v < 2^63)%Z -> of_u64 (to_u64 v) = v /\ to_u64 v < 2^64.
Proof. intros v Hv. split; [exact (of_to_u64 v Hv)|exact (to_u64_lt v)]. Qed.
Print Assumptions twos_complement.

Theorem varint_roundtrip : forall (v : Z) (rest : list byte),
  (- 2^63 <= v < 2^63)%Z -> dec_sv (enc_sv v ++ rest) = Ok v rest.
Proof. exact CodecProofs.varint_roundtrip. Qed.
Print Assumptions varint_roundtrip.

(* ---- c. DecodeVarint32 ---- *)
Theorem varint32_range : forall (v : Z) (rest : list byte),
  (- 2^63 <= v < 2^63)%Z ->
  dec_sv32 (enc_sv v ++ rest) =
  if ((- 2^31 <=? v) && (v <=? 2^31 - 1))%Z then Ok v rest else Overflow32.
Proof. exact CodecProofs.varint32_range. Qed.
Print Assumptions varint32_range.

(* ---- d. float64 little endian, on bit patterns ---- *)
Theorem f64le_roundtrip : forall (bits : N) (rest : list byte),
  bits < 2^64 ->
  dec_f64le_bits (enc_f64le_bits bits ++ rest) = Ok bits rest /\ length (enc_f64le_bits bits) = 8%nat.
Proof. intros bits rest Hb. split; [exact (CodecProofs.f64le_roundtrip bits rest Hb)|exact (f64le_length bits)]. Qed.
Print Assumptions f64le_roundtrip.

(* ---- e. varfloat on the rotated bit pattern ---- *)
Theorem varfloat_raw_roundtrip : forall (x : N) (rest : list byte),
  x < 2^64 -> dec_vf_raw (enc_vf_raw x ++ rest) = Ok x rest.
Proof. exact CodecProofs.varfloat_raw_roundtrip. Qed.
Print Assumptions varfloat_raw_roundtrip.

Theorem vf_fold_bijection : forall b : N, b < 2^64 -> vf_unfold (vf_fold b) = b /\ vf_fold b < 2^64.
Proof. intros b Hb. split; [exact (vf_unfold_fold b Hb)|exact (vf_fold_lt b)]. Qed.
Print Assumptions vf_fold_bijection.

(* ---- f. size functions ---- *)
Theorem uvarint_size : forall v : N, v < 2^64 ->
  length (enc_uv v) = uv_size v /\ (1 <= uv_size v <= 9)%nat.
Proof. exact CodecProofs.uvarint_size. Qed.
Print Assumptions uvarint_size.

Theorem varint_size : forall v : Z,
  length (enc_sv v) = sv_size v /\ (1 <= sv_size v <= 9)%nat.
Proof. exact CodecProofs.varint_size. Qed.
Print Assumptions varint_size.

Theorem varfloat_raw_size : forall x : N, x < 2^64 ->
  length (enc_vf_raw x) = vf_size_raw x /\ (1 <= vf_size_raw x <= 9)%nat.
Proof. exact CodecProofs.varfloat_raw_size. Qed.
Print Assumptions varfloat_raw_size.

(* ---- g. every strict prefix of an encoding decodes to Eof ---- *)
Theorem uvarint_prefix_eof : forall (v : N) (p s : list byte),
  enc_uv v = p ++ s -> s <> [] -> dec_uv p = Eof.
Proof. exact CodecProofs.uvarint_prefix_eof. Qed.
Print Assumptions uvarint_prefix_eof.

Theorem varint_prefix_eof : forall (v : Z) (p s : list byte),
  enc_sv v = p ++ s -> s <> [] -> dec_sv p = Eof /\ dec_sv32 p = Eof.
Proof.
  intros v p s H Hs. split;
  [exact (CodecProofs.varint_prefix_eof v p s H Hs)|exact (varint32_prefix_eof v p s H Hs)].
Qed.
Print Assumptions varint_prefix_eof.

Theorem varfloat_raw_prefix_eof : forall (x : N) (p s : list byte),
  enc_vf_raw x = p ++ s -> s <> [] -> dec_vf_raw p = Eof.
Proof. exact CodecProofs.varfloat_raw_prefix_eof. Qed.
Print Assumptions varfloat_raw_prefix_eof.

Theorem f64le_prefix_eof : forall (bits : N) (p s : list byte),
  enc_f64le_bits bits = p ++ s -> s <> [] -> dec_f64le_bits p = Eof.
Proof. exact CodecProofs.f64le_prefix_eof. Qed.
Print Assumptions f64le_prefix_eof.

(* ---- h. the decoders read at most 9 bytes; decoded values are 64-bit ---- *)
Theorem uvarint_reads_at_most_9 : forall b : list byte,
  dec_uv b = match dec_uv (firstn 9 b) with
             | Ok v r => Ok v (r ++ skipn 9 b) | Eof => Eof | Overflow32 => Overflow32 end.
Proof. exact CodecProofs.uvarint_reads_at_most_9. Qed.
Print Assumptions uvarint_reads_at_most_9.

Theorem varfloat_raw_reads_at_most_9 : forall b : list byte,
  dec_vf_raw b = match dec_vf_raw (firstn 9 b) with
                 | Ok v r => Ok v (r ++ skipn 9 b) | Eof => Eof | Overflow32 => Overflow32 end.
Proof. exact CodecProofs.varfloat_raw_reads_at_most_9. Qed.
Print Assumptions varfloat_raw_reads_at_most_9.

Theorem uvarint_decoded_lt : forall (b : list byte) (v : N) (r : list byte),
  dec_uv b = Ok v r -> v < 2^64.
Proof. exact CodecProofs.uvarint_decoded_lt. Qed.
Print Assumptions uvarint_decoded_lt.

Theorem varfloat_raw_decoded_lt : forall (b : list byte) (v : N) (r : list byte),
  Forall (fun c => c < 256) b -> dec_vf_raw b = Ok v r -> v < 2^64.
Proof. exact CodecProofs.varfloat_raw_decoded_lt. Qed.
Print Assumptions varfloat_raw_decoded_lt.

(* the encoders emit bytes *)
Theorem encoders_emit_bytes : forall (v : N) (z : Z) (x bits : N), x < 2^64 ->
  Forall (fun c => c < 256) (enc_uv v) /\ Forall (fun c => c < 256) (enc_sv z) /\
  Forall (fun c => c < 256) (enc_vf_raw x) /\ Forall (fun c => c < 256) (enc_f64le_bits bits).
Proof.
  intros v z x bits Hx.
  exact (conj (enc_uv_bytes v) (conj (enc_sv_bytes z) (conj (enc_vf_raw_bytes x Hx) (enc_f64le_bytes bits)))).
Qed.
Print Assumptions encoders_emit_bytes.

(* ---- i. flags ---- *)
Theorem flag_roundtrip : forall t s : N, t < 4 -> s < 64 ->
  flag_type (mk_flag t s) = t /\ flag_sub (mk_flag t s) = s * 4 /\ mk_flag t s < 256.
Proof. exact CodecProofs.flag_roundtrip. Qed.
Print Assumptions flag_roundtrip.

Theorem dec_flag_cons : forall (f : byte) (rest : list byte), dec_flag (f :: rest) = Ok f rest.
Proof. exact CodecProofs.dec_flag_cons. Qed.
Print Assumptions dec_flag_cons.

(* ---- j. floats (Flocq binary64) ---- *)
Theorem varfloat_value : forall (v : f64) (rest : list byte),
  dec_vf (enc_vf v ++ rest) = Ok (fsub (fadd v f64_one) f64_one) rest.
Proof. exact VarfloatProofs.varfloat_value. Qed.
Print Assumptions varfloat_value.

Theorem f64le_float_roundtrip : forall (v : f64) (rest : list byte),
  dec_f64le (enc_f64le v ++ rest) = Ok v rest.
Proof. exact VarfloatProofs.f64le_float_roundtrip. Qed.
Print Assumptions f64le_float_roundtrip.

Theorem varfloat_prefix_eof : forall (v : f64) (p s : list byte),
  enc_vf v = p ++ s -> s <> [] -> dec_vf p = Eof.
Proof. exact VarfloatProofs.varfloat_prefix_eof. Qed.
Print Assumptions varfloat_prefix_eof.

Theorem f64le_float_prefix_eof : forall (v : f64) (p s : list byte),
  enc_f64le v = p ++ s -> s <> [] -> dec_f64le p = Eof.
Proof. exact VarfloatProofs.f64le_float_prefix_eof. Qed.
Print Assumptions f64le_float_prefix_eof.

(* Varfloat64Size, with the table built through floats exactly as initVarfloat64Sizes does *)
Theorem varfloat_size : forall v : f64,
  length (enc_vf v) = vf_size v /\ (1 <= vf_size v <= 9)%nat.
Proof. exact VarfloatProofs.varfloat_size. Qed.
Print Assumptions varfloat_size.

(* ---- k. (v+1)-1 is exact on the integers below 2^53, so those round-trip through varfloat ---- *)
Theorem varfloat_exact_int : forall (v : f64) (n : Z),
  (0 <= n < 2^53)%Z ->
  Binary.is_finite 53 1024 v = true -> Binary.Bsign 53 1024 v = false ->
  Binary.B2R 53 1024 v = IZR n ->
  fsub (fadd v f64_one) f64_one = v.
Proof. exact VarfloatProofs.varfloat_exact_int. Qed.
Print Assumptions varfloat_exact_int.

Theorem varfloat_int_roundtrip : forall (n : Z) (rest : list byte),
  (0 <= n < 2^53)%Z ->
  Binary.B2R 53 1024 (f64_of_int n) = IZR n /\
  dec_vf (enc_vf (f64_of_int n) ++ rest) = Ok (f64_of_int n) rest.
Proof.
  intros n rest Hn. split;
  [exact (proj2 (proj2 (f64_of_int_spec n Hn)))|exact (VarfloatProofs.varfloat_int_roundtrip n rest Hn)].
Qed.
Print Assumptions varfloat_int_roundtrip.
