(* Props/ChangeMappingW — C17, change of mapping at the float level: the clause "keeps the total weight up to
   rounding", for ONE source bin of [changeStoreMapping] (ddsketch/ddsketch.go, the code with the guard
   `if intersectionSize <= 0 { continue }`), on the binary64 instance [cmf_adds_loop] / [cmf_bin_adds] of the
   skeleton SK.Sketch.ChangeMappingG (the instance that runs bit for bit against the implementation).
   Statements only; proofs: SK.Sketch.ChangeMappingW.

   Reading aid (see the header of Props/ChangeMappingF.v for the skeleton):
     cmf_adds_loop lower2 true fuel inLow inHigh inSize c out0
         the for loop of one source bin started at outIndex = out0: the list of (outIndex, weight) passed to
         AddWithCount, in call order; None = fuel exhausted (one unit of fuel per evaluation of the loop condition,
         so only lower2 out0 .. lower2 (out0 + fuel) are ever read)
     cmf_bin_adds lower1 lower2 index2 scale true fuel i c
         the same with inLow = lower1 i * scale, inHigh = lower1 (i+1) * scale, out0 = index2 inLow
   Floats: [finite x] = neither NaN nor an infinity; [val x] = the real number x denotes.
   u = 2^-53 = [bpow radix2 (-53)] is the unit roundoff of binary64; 2^-1075 = [bpow radix2 (-1075)] is half the
   smallest subnormal: the absolute error of a rounding that underflows.  Sums are [fold_right Rplus 0].

   Premises, all explicit: the scaled source bounds, their float difference and the count are finite; count >= 0;
   inLow < inHigh; on the indexes the loop can read (out0 .. out0 + fuel) LowerBound of the target mapping is finite
   and strictly increasing; the start index is right: LowerBound(out0) <= inLow < LowerBound(out0 + 1).
   No premise on fuel (if it is too small the loop answers None and the statement is about nothing), none on the
   size of count (count * 2^-1075 appears in the bound instead: a proportion that underflows loses at most 2^-1075,
   which the multiplication by count scales). *)
From Coq Require Import Bool NArith ZArith Reals List.
From Flocq Require Import Core.Core IEEE754.BinarySingleNaN IEEE754.Binary IEEE754.Bits.
From SK Require Import Base.Prelude Base.F64 Sketch.ChangeMappingG Sketch.ChangeMappingGProofs Sketch.ChangeMappingW.
Import ListNotations.
Local Open Scope R_scope.

Local Notation finite x := (is_finite 53 1024 x = true).
Local Notation val x := (B2R 53 1024 x).

(* ------------------------------------------------------------------ *)
(** * a. the weights of one source bin sum to its count, up to rounding *)

(** the loop.  With m = the number of AddWithCount calls:
      | sum of the weights - count |  <=  5 u * count  +  m * (2 count + 1) * 2^-1075 *)
Theorem C17_float_total_weight_loop :
  forall (lower2 : Z -> f64) (fuel : nat) (inLow inHigh c : f64) (out0 : Z) (l : list (Z * f64)),
  finite inLow -> finite inHigh -> finite (fsub inHigh inLow) -> finite c -> fle f64_zero c = true ->
  val inLow < val inHigh ->
  (forall j, (out0 <= j <= out0 + Z.of_nat fuel)%Z -> finite (lower2 j)) ->
  (forall j, (out0 <= j < out0 + Z.of_nat fuel)%Z -> val (lower2 j) < val (lower2 (j + 1)%Z)) ->
  val (lower2 out0) <= val inLow < val (lower2 (out0 + 1)%Z) ->
  cmf_adds_loop lower2 true fuel inLow inHigh (fsub inHigh inLow) c out0 = Some l ->
  Rabs (fold_right Rplus 0 (map (fun jw => val (snd jw)) l) - val c) <=
    5 * bpow radix2 (-53) * val c + INR (length l) * ((2 * val c + 1) * bpow radix2 (-1075)).
Proof. exact cmw_loop_total. Qed.
Print Assumptions C17_float_total_weight_loop.

(** the same for the ForEach callback of the source bin (i, c) *)
Theorem C17_float_total_weight_bin :
  forall (lower1 lower2 : Z -> f64) (index2 : f64 -> Z) (scale : f64) (fuel : nat) (i : Z) (c : f64) (l : list (Z * f64)),
  let inLow := fmul (lower1 i) scale in
  let inHigh := fmul (lower1 (i + 1)%Z) scale in
  let out0 := index2 inLow in
  finite inLow -> finite inHigh -> finite (fsub inHigh inLow) -> finite c -> fle f64_zero c = true ->
  val inLow < val inHigh ->
  (forall j, (out0 <= j <= out0 + Z.of_nat fuel)%Z -> finite (lower2 j)) ->
  (forall j, (out0 <= j < out0 + Z.of_nat fuel)%Z -> val (lower2 j) < val (lower2 (j + 1)%Z)) ->
  val (lower2 out0) <= val inLow < val (lower2 (out0 + 1)%Z) ->
  cmf_bin_adds lower1 lower2 index2 scale true fuel i c = Some l ->
  Rabs (fold_right Rplus 0 (map (fun jw => val (snd jw)) l) - val c) <=
    5 * bpow radix2 (-53) * val c + INR (length l) * ((2 * val c + 1) * bpow radix2 (-1075)).
Proof. exact cmw_bin_adds_total. Qed.
Print Assumptions C17_float_total_weight_bin.

(* ------------------------------------------------------------------ *)
(** * b. where the bound comes from: nothing is skipped, the exact intersections telescope, each share is accurate *)

(** Under the same premises, write e_j = min(LowerBound(j+1), inHigh) - max(LowerBound(j), inLow) for the EXACT
    intersection of target bin j with the scaled source range (real numbers).  Then
      - the e_j of the calls made sum to inHigh - inLow exactly: the guard skips no target bin that carries part
        of the source range (every visited bin has e_j > 0 and the difference of two distinct floats does not
        round to zero);
      - every call (j, w) has 0 < e_j <= inHigh - inLow and
          | w - count * e_j / (inHigh - inLow) |  <=  5 u * count * e_j / (inHigh - inLow)  +  (2 count + 1) * 2^-1075. *)
Theorem C17_float_total_weight_shares :
  forall (lower2 : Z -> f64) (fuel : nat) (inLow inHigh c : f64) (out0 : Z) (l : list (Z * f64)),
  finite inLow -> finite inHigh -> finite (fsub inHigh inLow) -> finite c -> fle f64_zero c = true ->
  val inLow < val inHigh ->
  (forall j, (out0 <= j <= out0 + Z.of_nat fuel)%Z -> finite (lower2 j)) ->
  (forall j, (out0 <= j < out0 + Z.of_nat fuel)%Z -> val (lower2 j) < val (lower2 (j + 1)%Z)) ->
  val (lower2 out0) <= val inLow < val (lower2 (out0 + 1)%Z) ->
  cmf_adds_loop lower2 true fuel inLow inHigh (fsub inHigh inLow) c out0 = Some l ->
  fold_right Rplus 0
    (map (fun jw => Rmin (val (lower2 (fst jw + 1)%Z)) (val inHigh) - Rmax (val (lower2 (fst jw))) (val inLow)) l)
    = val inHigh - val inLow /\
  Forall (fun jw =>
            let e := Rmin (val (lower2 (fst jw + 1)%Z)) (val inHigh) - Rmax (val (lower2 (fst jw))) (val inLow) in
            0 < e <= val inHigh - val inLow /\
            Rabs (val (snd jw) - val c * (e / (val inHigh - val inLow))) <=
              5 * bpow radix2 (-53) * (val c * (e / (val inHigh - val inLow))) + (2 * val c + 1) * bpow radix2 (-1075)) l.
Proof. exact cmw_loop_exact_total. Qed.
Print Assumptions C17_float_total_weight_shares.

(* ------------------------------------------------------------------ *)
(** * c. the premises are satisfiable *)

(** the base-2 tables of Props/ChangeMappingF.v (LowerBound(k) = 2^k on both sides, Index exact), scale 1.001, source
    bin (1, 1.0): inLow = 2.002, inHigh = 4.004, out0 = 1, fuel 6.  All the premises of
    [C17_float_total_weight_bin] hold, the loop makes the two calls (1, 0.9980019980019982) and
    (2, 0.001998001998001778) (bit patterns below), and the conclusion holds of them. *)
Theorem C17_float_total_weight_example :
  let inLow := fmul (exf_lower 1) exf_scale in
  let inHigh := fmul (exf_lower 2) exf_scale in
  let out0 := exf_index_exact inLow in
  exists l : list (Z * f64),
    (finite inLow /\ finite inHigh /\ finite (fsub inHigh inLow) /\ finite f64_one /\ fle f64_zero f64_one = true /\
     val inLow < val inHigh /\
     (forall j, (out0 <= j <= out0 + Z.of_nat 6)%Z -> finite (exf_lower j)) /\
     (forall j, (out0 <= j < out0 + Z.of_nat 6)%Z -> val (exf_lower j) < val (exf_lower (j + 1)%Z)) /\
     val (exf_lower out0) <= val inLow < val (exf_lower (out0 + 1)%Z)) /\
    cmf_bin_adds exf_lower exf_lower exf_index_exact exf_scale true 6 1 f64_one = Some l /\
    bits_of_adds (Some l) = Some [(1%Z, 4607164422397910035%N); (2%Z, 4566753501465799841%N)] /\
    Rabs (fold_right Rplus 0 (map (fun jw => val (snd jw)) l) - val f64_one) <=
      5 * bpow radix2 (-53) * val f64_one + INR (length l) * ((2 * val f64_one + 1) * bpow radix2 (-1075)).
Proof. exact cmw_example. Qed.
Print Assumptions C17_float_total_weight_example.
