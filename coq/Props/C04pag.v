(* C04, buffered paginated store (ddsketch/store/buffered_paginated.go, model Store/Paginated.v):
   the final statements only.  Every proof is a reference to Store/PaginatedProofs.v.
     PInv s   representation invariant (pages of length 0 or 32, cells >= 0, buffered indexes in
              int32, allocated pages at int32-range page numbers, every page empty in the sentinel
              state minPage = MaxInt64, bounds on minPage / len(pages) that keep the 64-bit
              wrap-around of the range test inert outside the sentinel state)
     pget s i weight stored for index i = multiplicity of i in the buffer + its page cell
              (a buffered index may lie in an allocated page: no disjointness)
     pabs s   the Layer A content (canonical association list) of the store
   Policies are universally quantified:
     pgrow    newPagesLen, any function with r <= pgrow r <= r + 2^20   (pgrow_ok)
     worth    ARBITRARY "is a new page worth creating for n buffered entries"
     full     ARBITRARY "len(buffer) == cap(buffer)"
     sort     any function returning a sorted permutation                 (sort_ok)
   The model is total (no panic result); out-of-range accesses would read the default. *)
From Coq Require Import Sorting.Sorted Permutation.
From SK Require Import Spec.BinsProofs Store.Paginated Store.PaginatedProofs Store.Any.
Local Open Scope Z_scope.

(* ---------------- A: index <-> (page, line), every integer ---------------- *)
Theorem C04p_index_roundtrip : forall i, index_of (page_index i) (line_index i) = i /\ 0 <= line_index i < 32.
Proof. intros i. split; [apply index_of_page_line|apply line_index_range]. Qed.
Print Assumptions C04p_index_roundtrip.

Theorem C04p_page_line_of_index :
  forall p l, 0 <= l < 32 -> page_index (index_of p l) = p /\ line_index (index_of p l) = l.
Proof. intros p l H. split; [apply page_index_index_of|apply line_index_index_of]; exact H. Qed.
Print Assumptions C04p_page_line_of_index.

(* ---------------- B: invariant and abstraction ---------------- *)
Theorem C04p_inv_new : PInv new_pag /\ pabs new_pag = [].
Proof. split; [exact PInv_new|exact pabs_new]. Qed.
Print Assumptions C04p_inv_new.

Theorem C04p_clear : forall s, PInv s -> PInv (p_clear s) /\ pabs (p_clear s) = [].
Proof. exact p_clear_spec. Qed.
Print Assumptions C04p_clear.

Theorem C04p_abs_wf : forall s, PInv s -> wf (pabs s) = true /\ pos (pabs s).
Proof. intros s H. split; [apply wf_pabs|apply pos_pabs]; exact H. Qed.
Print Assumptions C04p_abs_wf.

Theorem C04p_abs_get : forall s i, PInv s -> get (pabs s) i = pget s i.
Proof. exact get_pabs. Qed.
Print Assumptions C04p_abs_get.

(* the range test never sees a wrap-around outside the sentinel state, and is false in it *)
Theorem C04p_in_range :
  forall s p, PInv s ->
  (in_range s p = true <-> minPage s <> MaxInt64 /\ 0 <= p - minPage s < zlen (pages s)).
Proof. exact in_range_spec. Qed.
Print Assumptions C04p_in_range.

(* ---------------- C: page(pageIndex, true) ---------------- *)
Theorem C04p_ensure_page :
  forall pgrow, pgrow_ok pgrow ->
  forall s p s' off, PInv s -> page_ok p -> ensure_page pgrow s p = (s', off) ->
  PInv s' /\ buffer s' = buffer s /\ trigger s' = trigger s /\
  off = p - minPage s' /\ 0 <= off < zlen (pages s') /\ zlen (pgat (pages s') off) = 32 /\
  minPage s' <> MaxInt64 /\ forall i, cell s' i = cell s i.
Proof. intros; eapply ensure_page_spec; eauto. Qed.
Print Assumptions C04p_ensure_page.

(* ---------------- D: operations ---------------- *)
(* AddWithCount, content-function form: all three paths (existing page / buffer, possibly after a
   compaction / page creation), for every worth, full *)
Theorem C04p_add_with_count_get :
  forall pgrow worth full sort, pgrow_ok pgrow -> sort_ok sort ->
  forall s i c, PInv s -> idx_ok i -> (w0 <= c)%Qc ->
  PInv (p_add_with_count pgrow worth full sort s i c) /\
  forall j, pget (p_add_with_count pgrow worth full sort s i c) j
            = wadd (pget s j) (if j =? i then c else w0).
Proof. intros; eapply p_add_with_count_spec; eauto. Qed.
Print Assumptions C04p_add_with_count_get.

Theorem C04p_add_with_count :
  forall pgrow worth full sort, pgrow_ok pgrow -> sort_ok sort ->
  forall s i c, PInv s -> idx_ok i -> (w0 <= c)%Qc ->
  PInv (p_add_with_count pgrow worth full sort s i c) /\
  pabs (p_add_with_count pgrow worth full sort s i c) = badd0 (pabs s) i c.
Proof. exact p_add_with_count_abs. Qed.
Print Assumptions C04p_add_with_count.

Theorem C04p_add :
  forall pgrow worth full sort, pgrow_ok pgrow -> sort_ok sort ->
  forall s i, PInv s -> idx_ok i ->
  PInv (p_add pgrow worth full sort s i) /\ pabs (p_add pgrow worth full sort s i) = badd (pabs s) i w1.
Proof. exact p_add_abs. Qed.
Print Assumptions C04p_add.

(* compaction is lossless, for every worth *)
Theorem C04p_compact :
  forall pgrow worth sort, pgrow_ok pgrow -> sort_ok sort ->
  forall s, PInv s ->
  PInv (compact pgrow worth sort s) /\
  (forall j, pget (compact pgrow worth sort s) j = pget s j) /\
  pabs (compact pgrow worth sort s) = pabs s.
Proof.
  intros pgrow worth sort Hg Hs s H.
  destruct (compact_spec pgrow worth sort s Hg Hs H) as [H1 H2].
  destruct (compact_abs pgrow worth sort Hg Hs s H) as [_ H3]. auto.
Qed.
Print Assumptions C04p_compact.

(* the loop is lossless whatever the fuel, and the fuel the model gives it is never exhausted *)
Theorem C04p_compact_fuel :
  forall pgrow worth k s todo kept,
  compact_loop pgrow worth (S (length todo) + k) s todo kept =
  compact_loop pgrow worth (S (length todo)) s todo kept.
Proof. exact compact_loop_fuel_enough. Qed.
Print Assumptions C04p_compact_fuel.

(* ForEach / Bins: the merged scan yields exactly the canonical content, ascending, each index once;
   the store it leaves (sorted buffer) has the same content *)
Theorem C04p_foreach :
  forall sort, sort_ok sort ->
  forall s, PInv s ->
  p_foreach sort s = (with_buffer s (sort (buffer s)), pabs s) /\
  PInv (with_buffer s (sort (buffer s))) /\
  (forall i, pget (with_buffer s (sort (buffer s))) i = pget s i) /\
  pabs (with_buffer s (sort (buffer s))) = pabs s.
Proof. intros; eapply p_foreach_spec; eauto. Qed.
Print Assumptions C04p_foreach.

Theorem C04p_total : forall s, p_total s = total (pabs s).
Proof. exact p_total_spec. Qed.
Print Assumptions C04p_total.

Theorem C04p_is_empty : forall s, PInv s -> p_is_empty s = is_emptyb (pabs s).
Proof. exact p_is_empty_spec. Qed.
Print Assumptions C04p_is_empty.

(* MinIndex / MaxIndex / KeyAtRank AS MODELLED (through the merged scan, see the report) *)
Theorem C04p_min_index : forall sort, sort_ok sort -> forall s, PInv s -> p_min sort s = min_key (pabs s).
Proof. intros; eapply p_min_spec; eauto. Qed.
Print Assumptions C04p_min_index.

Theorem C04p_max_index : forall sort, sort_ok sort -> forall s, PInv s -> p_max sort s = max_key (pabs s).
Proof. intros; eapply p_max_spec; eauto. Qed.
Print Assumptions C04p_max_index.

(* any rank, negative or beyond the total included; 0 on the empty store as in Go *)
Theorem C04p_key_at_rank :
  forall sort, sort_ok sort ->
  forall s r, PInv s ->
  let s' := fst (p_key_at_rank sort s r) in
  let k := snd (p_key_at_rank sort s r) in
  PInv s' /\ (forall i, pget s' i = pget s i) /\ pabs s' = pabs s /\
  (pabs s <> [] -> key_at_rank (pabs s) r = Some k) /\
  (pabs s = [] -> k = 0).
Proof. intros; eapply p_key_at_rank_spec; eauto. Qed.
Print Assumptions C04p_key_at_rank.

(* MergeWith, fallback path / MergeWithProto: a sequence of AddWithCount *)
Theorem C04p_merge_list :
  forall pgrow worth full sort, pgrow_ok pgrow -> sort_ok sort ->
  forall l s, PInv s -> adds_ok l ->
  PInv (p_merge_list pgrow worth full sort s l) /\
  pabs (p_merge_list pgrow worth full sort s l) = bmerge_list (pabs s) l.
Proof. exact p_merge_list_spec. Qed.
Print Assumptions C04p_merge_list.

(* MergeWith, argument of the same Go type: pages added cell-wise, buffer replayed through Add *)
Theorem C04p_merge_same :
  forall pgrow worth full sort, pgrow_ok pgrow -> sort_ok sort ->
  forall s o, PInv s -> PInv o ->
  PInv (p_merge_same pgrow worth full sort s o) /\
  pabs (p_merge_same pgrow worth full sort s o) = bmerge (pabs s) (pabs o).
Proof. exact p_merge_same_spec. Qed.
Print Assumptions C04p_merge_same.

Theorem C04p_reweight_refused :
  forall pgrow worth full sort s w, (w <= w0)%Qc -> p_reweight pgrow worth full sort s w = None.
Proof. exact p_reweight_refused. Qed.
Print Assumptions C04p_reweight_refused.

Theorem C04p_reweight_one : forall pgrow worth full sort s, p_reweight pgrow worth full sort s w1 = Some s.
Proof. exact p_reweight_one. Qed.
Print Assumptions C04p_reweight_one.

(* every buffer/page split: pages scaled AND buffered unit entries re-added with weight w *)
Theorem C04p_reweight :
  forall pgrow worth full sort, pgrow_ok pgrow -> sort_ok sort ->
  forall s w, PInv s -> (w0 < w)%Qc ->
  exists s', p_reweight pgrow worth full sort s w = Some s' /\ PInv s' /\ pabs s' = bscale w (pabs s).
Proof. exact p_reweight_spec. Qed.
Print Assumptions C04p_reweight.

(* a cleared store (recycled pages, stale trigger) is indistinguishable from a new one *)
Theorem C04p_clear_like_new :
  forall pgrow worth full sort, pgrow_ok pgrow -> sort_ok sort ->
  forall s l, PInv s -> adds_ok l ->
  PInv (p_merge_list pgrow worth full sort (p_clear s) l) /\
  PInv (p_merge_list pgrow worth full sort new_pag l) /\
  pabs (p_merge_list pgrow worth full sort (p_clear s) l) =
  pabs (p_merge_list pgrow worth full sort new_pag l).
Proof. exact clear_like_new. Qed.
Print Assumptions C04p_clear_like_new.

(* specialised decoders *)
Theorem C04p_dec_indexes :
  forall pgrow worth full sort, pgrow_ok pgrow -> sort_ok sort ->
  forall s l, PInv s -> Forall idx_ok l ->
  PInv (p_dec_indexes pgrow worth full sort s l) /\
  pabs (p_dec_indexes pgrow worth full sort s l) = bmerge_list (pabs s) (unit_bins l) /\
  pabs (p_dec_indexes pgrow worth full sort s l) = pabs (fold_left (p_add pgrow worth full sort) l s).
Proof.
  intros pgrow worth full sort Hg Hs s l H Hl.
  destruct (p_dec_indexes_spec pgrow worth full sort Hg Hs s l H Hl) as [H1 H2].
  pose proof (p_dec_indexes_as_adds pgrow worth full sort Hg Hs s l H Hl) as H3. auto.
Qed.
Print Assumptions C04p_dec_indexes.

Theorem C04p_dec_contiguous :
  forall pgrow, pgrow_ok pgrow ->
  forall l s, PInv s -> adds_ok l ->
  PInv (p_dec_contiguous pgrow s l) /\ pabs (p_dec_contiguous pgrow s l) = bmerge_list (pabs s) l.
Proof. exact p_dec_contiguous_spec. Qed.
Print Assumptions C04p_dec_contiguous.

(* a zero count still creates the page, and leaves the content unchanged *)
Theorem C04p_dec_contiguous_zero :
  forall pgrow, pgrow_ok pgrow ->
  forall s i, PInv s -> idx_ok i ->
  pabs (p_dec_contiguous pgrow s [(i, w0)]) = pabs s /\
  existing_page (p_dec_contiguous pgrow s [(i, w0)]) (page_index i) <> None.
Proof. exact p_dec_contiguous_zero. Qed.
Print Assumptions C04p_dec_contiguous_zero.

(* ---------------- E: histories ---------------- *)
(* pop = OAdd i c | OClear | OReweight w | OForeach | OCompact | OKeyAtRank r | OMerge o
       | OMergeList l | ODecIdx l | ODecCont l;   pop_ok: int32 indexes, c >= 0, w > 0, PInv o;
   prun = the store, arun = the same history on Layer A, where the reads are the identity *)
Theorem C04p_history :
  forall pgrow worth full sort, pgrow_ok pgrow -> sort_ok sort ->
  forall ops, Forall pop_ok ops ->
  PInv (prun pgrow worth full sort new_pag ops) /\
  pabs (prun pgrow worth full sort new_pag ops) = arun [] ops.
Proof. exact prun_refines. Qed.
Print Assumptions C04p_history.

(* queries are pure (C14 for this store): ForEach / compact / KeyAtRank reorganise the store and
   leave the abstract content unchanged; TotalCount / IsEmpty / MinIndex / MaxIndex return no store *)
Theorem C04p_reads_pure :
  forall pgrow worth full sort, pgrow_ok pgrow -> sort_ok sort ->
  forall s op, PInv s -> is_read op = true ->
  PInv (pstep pgrow worth full sort s op) /\ pabs (pstep pgrow worth full sort s op) = pabs s.
Proof. exact reads_pure. Qed.
Print Assumptions C04p_reads_pure.

(* ---------------- a concrete store: the hypotheses are not vacuous ---------------- *)
Lemma pgrow8_ok : pgrow_ok pgrow8.
Proof.
  intros r. unfold pgrow8, PSLACK.
  pose proof (Z.div_mod (r + 7) 8 ltac:(lia)) as H. pose proof (Z.mod_pos_bound (r + 7) 8 ltac:(lia)) as H1.
  lia.
Qed.
Lemma zsort_ok : sort_ok ZSort.sort.
Proof.
  intros l. split; [|apply ZSort.Permuted_sort].
  pose proof (ZSort.Sorted_sort l) as H. induction H as [|a l' Hs IH Hd]; constructor; [exact IH|].
  destruct Hd as [|b l'' Hab]; constructor. apply Z.leb_le. exact Hab.
Qed.

(* unit adds (buffer), weighted adds creating pages, 80 more unit adds triggering a compaction:
   the page of 96..127 is created (48 buffered entries), the group 128..139 (12 entries) is not worth
   a page and stays buffered; the add of 120 that triggered the compaction is appended to the buffer
   although its page now exists (no disjointness between buffer and pages) *)
Definition exp_adds : list (Z * W) :=
  [(5, w1); (-3, w1); (70, w1); (5, w1); (40, w_of_Z 3); (41, w1); (-33, w_of_Z 2); (9, w0)]
  ++ map (fun k => (100 + Z.of_nat k mod 40, w1)) (seq 0 80).
Definition exp_store : pag := p_merge_list pgrow8 worth32 x_full ZSort.sort new_pag exp_adds.

Lemma exp_adds_ok : adds_ok exp_adds.
Proof. apply adds_okb_sound. vm_compute. reflexivity. Qed.

Example exp_store_layout :
  (minPage exp_store, zlen (pages exp_store), map zlen (pages exp_store), buffer exp_store, trigger exp_store)
  = (-3, 8, [0; 32; 0; 0; 32; 0; 32; 0],
     [-3; 5; 5; 70] ++ map (fun k => 128 + Z.of_nat k) (seq 0 12) ++ [120] ++ map (fun k => 128 + Z.of_nat k) (seq 0 12), 48).
Proof. vm_compute. reflexivity. Qed.
Example exp_store_content :
  map (fun kw => (fst kw, this (snd kw))) (pabs exp_store)
  = [(-33, Qmake 2 1); (-3, Qmake 1 1); (5, Qmake 2 1); (40, Qmake 3 1); (41, Qmake 1 1); (70, Qmake 1 1)]
    ++ map (fun k => (100 + k, Qmake 2 1)) (map Z.of_nat (seq 0 40)).
Proof. vm_compute. reflexivity. Qed.
Example exp_store_foreach : snd (p_foreach ZSort.sort exp_store) = pabs exp_store.
Proof. vm_compute. reflexivity. Qed.
Example exp_store_observers :
  (this (p_total exp_store), p_is_empty exp_store, p_min ZSort.sort exp_store, p_max ZSort.sort exp_store,
   snd (p_key_at_rank ZSort.sort exp_store (w_of_Z 4)), snd (p_key_at_rank ZSort.sort exp_store (w_of_Z 1000)))
  = (Qmake 90 1, false, Some (-33), Some 139, 5, 139).
Proof. vm_compute. reflexivity. Qed.
(* and through the theorems *)
Example exp_store_by_theorem :
  PInv exp_store /\ pabs exp_store = bmerge_list [] exp_adds /\
  p_foreach ZSort.sort exp_store = (with_buffer exp_store (ZSort.sort (buffer exp_store)), pabs exp_store).
Proof.
  destruct (C04p_merge_list pgrow8 worth32 x_full ZSort.sort pgrow8_ok zsort_ok exp_adds new_pag
              PInv_new exp_adds_ok) as [I A].
  split; [exact I|]. split; [exact A|].
  apply (C04p_foreach ZSort.sort zsort_ok exp_store I).
Qed.
Print Assumptions exp_store_by_theorem.
