(* Props/SketchBatchExec64 — GetValuesAtQuantiles on the executed sketch with binary64 rank arithmetic: statements only.
   Props/SketchBatchExec.v at rnd := rnd64, with its premise [answerable rnd64 mt (sk_abs s)] discharged
   (proofs in Sketch/SketchBatchExec64.v) under
     batch_ready64 s := SkInv s /\ dy_sketch (sk_abs s) /\ small (sk_abs s) /\ ready64 s
       dy_sketch : every bin weight and the zero count dyadic;  small : total count <= 2^1000;
       ready64 s := plain_count s <> w0 ->
                    w0 < rnd64 (plain_count s) /\ rnd64 (wsub (plain_count s) w1) < rnd64 (plain_count s)
   i.e. SketchProofs3.quantile_ready without its non-emptiness (the premises of C12_quantile_some at binary64).
   ready64 holds whenever the total is an integer <= 2^53 (C12_exec64_ready_integer).
   The last three are about [xk_quantiles mt = quantiles_with (xk_quantile mt)], xk_quantile = sk_quantile rnd64 x_fixes:
   the functions the extracted driver runs (Extract/Instances.v, Extract/Instances2.v). *)
From Coq Require Import Bool ZArith QArith Qcanon List.
From SK Require Import Base.Prelude Base.F64 Spec.Bins Spec.ASketch Store.Any Stat.Summary
                       Sketch.Sketch Sketch.SketchProofs Sketch.RankProofs Sketch.RefineProofs
                       Sketch.RoundingInstance Sketch.SketchProofs3
                       Sketch.SketchBatch Sketch.SketchBatchExec Sketch.SketchBatchExec64
                       Extract.Instances Extract.Instances2.
Import ListNotations.

Theorem C12_exec64_answerable :
  forall (mt : mtable) (s : sketch),
  SkInv s -> dy_sketch (sk_abs s) -> small (sk_abs s) ->
  (plain_count s <> w0 ->
   (w0 < rnd64 (plain_count s))%Qc /\ (rnd64 (wsub (plain_count s) w1) < rnd64 (plain_count s))%Qc) ->
  answerable rnd64 mt (sk_abs s).
Proof. exact answerable_rnd64. Qed.
Print Assumptions C12_exec64_answerable.

Theorem C12_exec64_answerable_ready :
  forall (mt : mtable) (s : sketch), quantile_ready s -> answerable rnd64 mt (sk_abs s).
Proof. exact answerable_rnd64_ready. Qed.
Print Assumptions C12_exec64_answerable_ready.

Theorem C12_exec64_ready_integer :
  forall (s : sketch) (n : Z),
  SkInv s -> dy_sketch (sk_abs s) -> plain_count s = inj n -> (n <= 2 ^ 53)%Z -> ready64 s.
Proof. exact ready64_integer. Qed.
Print Assumptions C12_exec64_ready_integer.

Theorem C12_exec64_batch_answers :
  forall (fx : fixes) (mt : mtable), fD4 fx = true -> fD5 fx = true ->
  forall (s : sketch) (qs : list f64) (vs : list Qc),
  batch_ready64 s ->
  snd (quantiles_with (plain_quantile rnd64 fx mt) s qs) = ROk vs ->
  Forall2 (fun q v => snd (plain_quantile rnd64 fx mt s q) = ROk v) qs vs.
Proof. exact batch_exec64_answers. Qed.
Print Assumptions C12_exec64_batch_answers.

Theorem C12_exec64_batch_refused :
  forall (fx : fixes) (mt : mtable), fD4 fx = true -> fD5 fx = true ->
  forall (s : sketch) (qs : list f64) (e : err),
  batch_ready64 s ->
  snd (quantiles_with (plain_quantile rnd64 fx mt) s qs) = RErr e ->
  exists pre q post, qs = pre ++ q :: post /\ snd (plain_quantile rnd64 fx mt s q) = RErr e /\
                     Forall (fun q' => exists v, snd (plain_quantile rnd64 fx mt s q') = ROk v) pre.
Proof. exact batch_exec64_refused. Qed.
Print Assumptions C12_exec64_batch_refused.

Theorem C12_exec64_batch_total :
  forall (fx : fixes) (mt : mtable), fD4 fx = true -> fD5 fx = true ->
  forall (s : sketch) (qs : list f64),
  batch_ready64 s ->
  Forall (fun q => exists v, snd (plain_quantile rnd64 fx mt s q) = ROk v) qs ->
  exists vs, snd (quantiles_with (plain_quantile rnd64 fx mt) s qs) = ROk vs.
Proof. exact batch_exec64_total. Qed.
Print Assumptions C12_exec64_batch_total.

Theorem C12_exec64_batch_keeps :
  forall (fx : fixes) (mt : mtable) (s : sketch) (qs : list f64),
  batch_ready64 s ->
  let s' := fst (quantiles_with (plain_quantile rnd64 fx mt) s qs) in
  SkInv s' /\ sk_same s s' /\ sk_abs s' = sk_abs s /\ sk_stats s' = sk_stats s.
Proof. exact batch_exec64_keeps. Qed.
Print Assumptions C12_exec64_batch_keeps.

Theorem C12_exec64_batch_ready_kept :
  forall (fx : fixes) (mt : mtable) (s : sketch) (qs : list f64),
  batch_ready64 s -> batch_ready64 (fst (quantiles_with (plain_quantile rnd64 fx mt) s qs)).
Proof. exact batch_exec64_ready_kept. Qed.
Print Assumptions C12_exec64_batch_ready_kept.

(* the driver's functions *)
Theorem C12_exec64_driver_batch_answers :
  forall (mt : mtable) (s : sketch) (qs : list f64) (vs : list fval),
  batch_ready64 s ->
  snd (xk_quantiles mt s qs) = ROk vs -> Forall2 (fun q v => snd (xk_quantile mt s q) = ROk v) qs vs.
Proof. exact xk_quantiles_answers. Qed.
Print Assumptions C12_exec64_driver_batch_answers.

Theorem C12_exec64_driver_batch_refused :
  forall (mt : mtable) (s : sketch) (qs : list f64) (e : err),
  batch_ready64 s ->
  snd (xk_quantiles mt s qs) = RErr e ->
  exists pre q post, qs = pre ++ q :: post /\ snd (xk_quantile mt s q) = RErr e /\
                     Forall (fun q' => exists v, snd (xk_quantile mt s q') = ROk v) pre.
Proof. exact xk_quantiles_refused. Qed.
Print Assumptions C12_exec64_driver_batch_refused.

Theorem C12_exec64_driver_batch_total :
  forall (mt : mtable) (s : sketch) (qs : list f64),
  batch_ready64 s ->
  Forall (fun q => exists v, snd (xk_quantile mt s q) = ROk v) qs -> exists vs, snd (xk_quantiles mt s qs) = ROk vs.
Proof. exact xk_quantiles_total. Qed.
Print Assumptions C12_exec64_driver_batch_total.

Theorem C12_exec64_driver_batch_keeps :
  forall (mt : mtable) (s : sketch) (qs : list f64),
  batch_ready64 s ->
  let s' := fst (xk_quantiles mt s qs) in
  SkInv s' /\ sk_same s s' /\ sk_abs s' = sk_abs s /\ sk_stats s' = sk_stats s.
Proof. exact xk_quantiles_keeps. Qed.
Print Assumptions C12_exec64_driver_batch_keeps.

(* non-vacuity: a one-bin sparse sketch of weight 2 satisfies batch_ready64; the driver's batch answered and refused *)
Theorem C12_exec64_batch_example :
  batch_ready64 ex_sk1 /\
  snd (xk_quantiles ex_mt ex_sk1 [f64_zero; f64_one]) = ROk [FFin (w_of_Z 3); FFin (w_of_Z 3)] /\
  snd (xk_quantiles ex_mt ex_sk1 [f64_zero; f64_nan; f64_one]) = RErr EBadQuantile.
Proof. exact batch_exec64_example. Qed.
Print Assumptions C12_exec64_batch_example.
