(* Props/Glue — float-level theorems about the bit-exact model of the index mappings
   (SK.Mapping.Glue: getExponent, getSignificandPlusOne, buildFloat64, approximateLog,
   approximateInverseLog, Index, LowerBound).  Statements only; proofs: SK.Mapping.GlueProofs.
   Every theorem quantifies over ALL binary64 values satisfying its premises (nothing is sampled);
   the Go standard library functions stay the abstract record [libm]; where a theorem needs a
   property of an oracle function it is an explicit premise.

   Reading aid (notations local to this file; they unfold to Flocq / Glue terms only):
     finite x       is_finite 53 1024 x = true                     x is neither NaN nor an infinity
     val x          B2R 53 1024 x                                  the real number x denotes (0 for NaN/inf)
     normal_pos x   finite x /\ 2^-1022 <= val x                   positive normal (val x < 2^1024 always)
     expo x         mag radix2 (val x) - 1                         the e with 2^e <= |val x| < 2^(e+1)
     sig1 x         get_significand_plus_one (bits_of_f64 x)       getSignificandPlusOne(Float64bits(x))
     gofloor a      if fle f64_zero a then int_of_f a else int_of_f a - 1
                                                                   Go: if a >= 0 {int(a)} else {int(a) - 1}
     rnd r          round radix2 (FLT_exp (-1074) 53) ZnearestE r  binary64 round to nearest even
   [int_of_f] is Flocq's Btrunc (truncation toward zero; 0 on NaN/infinities, where Go's int() is
   implementation-specific: the theorems below only use it on finite values).
   In the model every  x*y + z  of the Go source is two roundings (what the amd64 compiler emits; the
   Go specification allows an architecture to fuse them, arm64/ppc64le/s390x do).

   Contents: G_go_floor_* (the Go floor), G_decompose / G_fraction_bits / G_build_float64* (section 1),
   G_lin_approx_log_* (2), G_lin_index_mono* (3), G_log_index_mono* (4, relative to a monotone
   math.Log), G_cub_* (5, full monotonicity of the cubic mapping, by a rounding-error analysis of the
   Horner evaluation), G_lower_lin_* (6: value for every finite t since the buildFloat64 repair, monotonicity of LowerBound,
   refutation witness for the unrepaired code), examples by vm_compute.  Nothing is partial. *)
From Coq Require Import Bool NArith ZArith Reals.
From Flocq Require Import Core.Core IEEE754.BinarySingleNaN IEEE754.Binary IEEE754.Bits.
From SK Require Import Base.Prelude Base.F64 Base.F64Proofs Mapping.Glue Mapping.GlueProofs.

Local Notation finite x := (is_finite 53 1024 x = true).
Local Notation val x := (B2R 53 1024 x).
Local Notation normal_pos x := (is_finite 53 1024 x = true /\ Rle (bpow radix2 (-1022)) (B2R 53 1024 x)).
Local Notation expo x := (mag radix2 (B2R 53 1024 x) - 1)%Z.
Local Notation sig1 x := (get_significand_plus_one (bits_of_f64 x)).
Local Notation gofloor a := (if fle f64_zero a then int_of_f a else int_of_f a - 1).
Local Notation rnd r := (round radix2 (FLT_exp (-1074) 53) ZnearestE r).

(* ------------------------------------------------------------------ *)
(* the "Go floor" at the end of every Index method                     *)
(* ------------------------------------------------------------------ *)
Theorem G_index_is_go_floor (L : libm) (m : gmap) (v : f64) :
  gm_index L m v = gofloor (fadd (fmul (approx_log L (gm_kind m) v) (gm_mult m)) (gm_off m)).
Proof. exact (gm_index_eq L m v). Qed.
Print Assumptions G_index_is_go_floor.

(* the floor on non-negative values; on negative values ceil - 1, which is the floor except at
   negative integers, where it is n - 1 *)
Theorem G_go_floor_spec (a : f64) :
  finite a ->
  ((0 <= val a)%R -> gofloor a = Zfloor (val a)) /\
  ((val a < 0)%R -> gofloor a = Zceil (val a) - 1).
Proof. exact (go_floor_R a). Qed.
Print Assumptions G_go_floor_spec.

Theorem G_go_floor_mono (a b : f64) :
  finite a -> finite b -> (val a <= val b)%R -> gofloor a <= gofloor b.
Proof. exact (go_floor_mono a b). Qed.
Print Assumptions G_go_floor_mono.

(* ------------------------------------------------------------------ *)
(* 1. decomposition: getExponent, getSignificandPlusOne, buildFloat64  *)
(* ------------------------------------------------------------------ *)
(* for every positive normal x: getExponent is the float of the integer e = expo x (so
   2^e <= x < 2^(e+1)), getSignificandPlusOne is a float m in [1, 2), and x = m * 2^e EXACTLY *)
Theorem G_decompose (x : f64) :
  normal_pos x ->
  -1022 <= expo x <= 1023 /\
  get_exponent (bits_of_f64 x) = f_of_int (expo x) /\
  finite (get_exponent (bits_of_f64 x)) /\
  val (get_exponent (bits_of_f64 x)) = IZR (expo x) /\
  finite (sig1 x) /\ (1 <= val (sig1 x) < 2)%R /\
  val x = (val (sig1 x) * bpow radix2 (expo x))%R.
Proof. exact (decompose_R x). Qed.
Print Assumptions G_decompose.

(* ... and m has the 52 fraction bits of x *)
Theorem G_fraction_bits (x : f64) :
  normal_pos x ->
  N.land (bits_of_f64 (sig1 x)) significand_mask = N.land (bits_of_f64 x) significand_mask.
Proof. exact (sp1_fraction_bits x). Qed.
Print Assumptions G_fraction_bits.

(* float64(int) on the integers the mappings convert *)
Theorem G_f_of_int (i : Z) :
  Z.abs i <= 2 ^ 53 -> finite (f_of_int i) /\ val (f_of_int i) = IZR i.
Proof. exact (f_of_int_correct i). Qed.
Print Assumptions G_f_of_int.

(* int(x) truncates toward zero *)
Theorem G_int_of_f (a : f64) : int_of_f a = Ztrunc (val a).
Proof. exact (int_of_f_R a). Qed.
Print Assumptions G_int_of_f.

(* buildFloat64 (repaired: `if significandPlusOne >= 2 { exponent++; significandPlusOne /= 2 }` before
   the saturation test; build_float64_raw is the function before that repair).
   On the documented domain -1022 <= e <= 1023, 1 <= s < 2: *)
Theorem G_build_float64 (e : Z) (s : f64) :
  -1022 <= e <= 1023 -> finite s -> (1 <= val s < 2)%R ->
  finite (build_float64 e s) /\
  val (build_float64 e s) = (val s * bpow radix2 e)%R /\
  normal_pos (build_float64 e s).
Proof. exact (build_float64_normal e s). Qed.
Print Assumptions G_build_float64.

(* on [1, 2) the repairs change nothing; the unrepaired function has the same value there *)
Theorem G_build_float64_lt2 (e : Z) (s : f64) :
  finite s -> (1 <= val s < 2)%R -> build_float64 e s = build_float64_raw e s.
Proof. exact (build_float64_lt2 e s). Qed.
Print Assumptions G_build_float64_lt2.

(* the repaired case F11: a significand that rounding errors brought below 1 counts as 1 (the bottom of the binade);
   the code before the repair took its fraction bits (all ones), i.e. nearly twice as much *)
Theorem G_build_float64_lt1 (e : Z) (s : f64) :
  finite s -> (val s < 1)%R -> build_float64 e s = build_float64_raw e f64_one.
Proof. exact (build_float64_lt1 e s). Qed.
Print Assumptions G_build_float64_lt1.

Example G_ex_build_float64_below_one :
  let s := f64_of_bits 4607182418800017406 (* 0x3feffffffffffffe = 0.9999999999999998 *) in
  (bits_of_f64 (build_float64 (-1) s), bits_of_f64 (build_float64_f9 (-1) s))
  = (4602678819172646912%N (* 0.5 *), 4607182418800017406%N (* 0.9999999999999998: the defect *)).
Proof. vm_compute. reflexivity. Qed.

Theorem G_build_float64_raw (e : Z) (s : f64) :
  -1022 <= e <= 1023 -> finite s -> (1 <= val s < 2)%R ->
  finite (build_float64_raw e s) /\
  val (build_float64_raw e s) = (val s * bpow radix2 e)%R /\
  normal_pos (build_float64_raw e s).
Proof. exact (build_float64_raw_normal e s). Qed.
Print Assumptions G_build_float64_raw.

(* the repaired case: a significand in [2, 4) still denotes s * 2^e (it is halved, exactly, into the
   next binade) *)
Theorem G_build_float64_two (e : Z) (s : f64) :
  -1022 <= e + 1 <= 1023 -> finite s -> (2 <= val s < 4)%R ->
  finite (build_float64 e s) /\
  val (build_float64 e s) = (val s * bpow radix2 e)%R /\
  normal_pos (build_float64 e s).
Proof. exact (build_float64_two e s). Qed.
Print Assumptions G_build_float64_two.

(* saturation beyond the largest finite binade, for EVERY significand (NaN and infinities included:
   whichever way the test s >= 2 goes, the exponent tested is e or e + 1, both > 1023) *)
Theorem G_build_float64_saturates (e : Z) (s : f64) :
  1023 < e -> build_float64 e s = f64_pinf.
Proof. exact (build_float64_saturates e s). Qed.
Print Assumptions G_build_float64_saturates.

(* ... and at e = 1023 when a finite significand is at least 2 *)
Theorem G_build_float64_saturates_two (s : f64) :
  finite s -> (2 <= val s)%R -> build_float64 1023 s = f64_pinf.
Proof. exact (build_float64_saturates_two s). Qed.
Print Assumptions G_build_float64_saturates_two.

Theorem G_build_float64_roundtrip (x : f64) :
  normal_pos x -> build_float64 (expo x) (sig1 x) = x.
Proof. exact (build_float64_roundtrip x). Qed.
Print Assumptions G_build_float64_roundtrip.

(* ------------------------------------------------------------------ *)
(* 2. approximateLog of the linearly interpolated mapping              *)
(* ------------------------------------------------------------------ *)
(* getExponent(bits) + getSignificandPlusOne(bits) - 1 is (e + m) - 1 with TWO roundings.  Neither is
   exact in general (see G_ex_lin_not_exact_low / _high below): the value is rnd (rnd (e + m) - 1),
   finite, of magnitude at most 1026.  No premise on the oracle: the linear mapping calls no libm
   function here. *)
Theorem G_lin_approx_log_value (L : libm) (x : f64) :
  normal_pos x ->
  finite (approx_log L MLin x) /\
  val (approx_log L MLin x) = rnd (rnd (IZR (expo x) + val (sig1 x)) - 1) /\
  (Rabs (val (approx_log L MLin x)) <= 1026)%R.
Proof. exact (approx_log_lin_R L x). Qed.
Print Assumptions G_lin_approx_log_value.

Theorem G_lin_approx_log_mono (L : libm) (x y : f64) :
  normal_pos x -> normal_pos y -> (val x <= val y)%R ->
  (val (approx_log L MLin x) <= val (approx_log L MLin y))%R.
Proof. exact (approx_log_lin_mono L x y). Qed.
Print Assumptions G_lin_approx_log_mono.

(* ... but it is e + (m - 1) up to 2^-42 (each rounding acts on a real of magnitude < 2^11) *)
Theorem G_lin_approx_log_error (L : libm) (x : f64) :
  normal_pos x ->
  (Rabs (val (approx_log L MLin x) - (IZR (expo x) + (val (sig1 x) - 1))) <= bpow radix2 (-42))%R.
Proof. exact (approx_log_lin_err L x). Qed.
Print Assumptions G_lin_approx_log_error.

(* exact on powers of two *)
Theorem G_lin_approx_log_pow2 (L : libm) (x : f64) :
  normal_pos x -> val (sig1 x) = 1%R -> val (approx_log L MLin x) = IZR (expo x).
Proof. exact (approx_log_lin_pow2 L x). Qed.
Print Assumptions G_lin_approx_log_pow2.

(* ------------------------------------------------------------------ *)
(* 3. Index of the linearly interpolated mapping is monotone           *)
(* ------------------------------------------------------------------ *)
(* premises: non-negative multiplier; the float  approximateLog(v) * multiplier + indexOffset  is
   finite for both values (this also forces multiplier and indexOffset to be finite) *)
Theorem G_lin_index_mono (L : libm) (m : gmap) (x y : f64) :
  gm_kind m = MLin -> (0 <= val (gm_mult m))%R ->
  normal_pos x -> normal_pos y -> (val x <= val y)%R ->
  finite (fadd (fmul (approx_log L MLin x) (gm_mult m)) (gm_off m)) ->
  finite (fadd (fmul (approx_log L MLin y) (gm_mult m)) (gm_off m)) ->
  gm_index L m x <= gm_index L m y.
Proof. exact (lin_index_mono L m x y). Qed.
Print Assumptions G_lin_index_mono.

(* the finiteness premises follow from |multiplier| <= 2^40 and |indexOffset| <= 2^40 *)
Theorem G_lin_index_mono_bounded (L : libm) (m : gmap) (x y : f64) :
  gm_kind m = MLin -> finite (gm_mult m) -> finite (gm_off m) ->
  (0 <= val (gm_mult m) <= bpow radix2 40)%R -> (Rabs (val (gm_off m)) <= bpow radix2 40)%R ->
  normal_pos x -> normal_pos y -> (val x <= val y)%R ->
  gm_index L m x <= gm_index L m y.
Proof. exact (lin_index_mono_bounded L m x y). Qed.
Print Assumptions G_lin_index_mono_bounded.

Theorem G_index_arg_finite (al mult off : f64) :
  finite al -> finite mult -> finite off ->
  (Rabs (val al) <= 1026)%R -> (Rabs (val mult) <= bpow radix2 40)%R -> (Rabs (val off) <= bpow radix2 40)%R ->
  finite (fadd (fmul al mult) off).
Proof. exact (index_arg_fin al mult off). Qed.
Print Assumptions G_index_arg_finite.

(* the common tail: for ANY two finite "approximate logarithms" in order *)
Theorem G_index_tail_mono (ax ay mult off : f64) :
  finite (fadd (fmul ax mult) off) -> finite (fadd (fmul ay mult) off) ->
  (0 <= val mult)%R -> (val ax <= val ay)%R ->
  gofloor (fadd (fmul ax mult) off) <= gofloor (fadd (fmul ay mult) off).
Proof. exact (index_of_mono ax ay mult off). Qed.
Print Assumptions G_index_tail_mono.

(* ------------------------------------------------------------------ *)
(* 4. Index of the logarithmic mapping, relative to a monotone math.Log *)
(* ------------------------------------------------------------------ *)
Theorem G_log_index_mono (L : libm) (m : gmap) (x y : f64) :
  gm_kind m = MLog -> (0 <= val (gm_mult m))%R ->
  (forall a b : f64, finite a -> finite b -> (0 < val a)%R -> (val a <= val b)%R ->
                     (val (l_log L a) <= val (l_log L b))%R) ->
  finite x -> finite y -> (0 < val x)%R -> (val x <= val y)%R ->
  finite (fadd (fmul (l_log L x) (gm_mult m)) (gm_off m)) ->
  finite (fadd (fmul (l_log L y) (gm_mult m)) (gm_off m)) ->
  gm_index L m x <= gm_index L m y.
Proof. exact (log_index_mono L m x y). Qed.
Print Assumptions G_log_index_mono.

Theorem G_log_index_mono_bounded (L : libm) (m : gmap) (x y : f64) :
  gm_kind m = MLog -> finite (gm_mult m) -> finite (gm_off m) ->
  (0 <= val (gm_mult m) <= bpow radix2 40)%R -> (Rabs (val (gm_off m)) <= bpow radix2 40)%R ->
  (forall a b : f64, finite a -> finite b -> (0 < val a)%R -> (val a <= val b)%R ->
                     (val (l_log L a) <= val (l_log L b))%R) ->
  (forall a : f64, finite a -> (0 < val a)%R ->
                   finite (l_log L a) /\ (Rabs (val (l_log L a)) <= 1026)%R) ->
  finite x -> finite y -> (0 < val x)%R -> (val x <= val y)%R ->
  gm_index L m x <= gm_index L m y.
Proof. exact (log_index_mono_bounded L m x y). Qed.
Print Assumptions G_log_index_mono_bounded.

(* ------------------------------------------------------------------ *)
(* 5. cubic mapping: approximateLog and Index are monotone             *)
(* ------------------------------------------------------------------ *)
(* approximateLog = ((A s + B) s + C) s + e by Horner's rule, s = significandPlusOne - 1 (exact),
   A = cA = 6/35, B = cB = -3/5 < 0, C = cC = 10/7 rounded to binary64: six roundings. *)
Theorem G_cub_approx_log_value (L : libm) (x : f64) :
  normal_pos x ->
  finite (approx_log L MCub x) /\
  val (approx_log L MCub x) =
    rnd (rnd (rnd (rnd (rnd (rnd (val cA * (val (sig1 x) - 1)) + val cB) * (val (sig1 x) - 1)) + val cC)
              * (val (sig1 x) - 1)) + IZR (expo x)) /\
  (Rabs (val (approx_log L MCub x)) <= 1026)%R.
Proof. exact (approx_log_cub_value L x). Qed.
Print Assumptions G_cub_approx_log_value.

(* Within one binade this is NOT a composition of monotone steps ((A s + B) is negative and is
   multiplied by the increasing s).  It is monotone nevertheless, for all positive normal floats:
   with d = rnd (rnd ((A s + B) s) + C) one shows, for significands s < s' on the grid 2^-52 Z,
   d - d' <= 0.6 (s' - s) + 1.25 * 2^-52 < (s' - s) + 2^-52 from the rounding-error bounds, hence
   d - d' <= s' - s because d, d' >= 1 (this uses A + B + C = 1 + 2^-54 for the ROUNDED constants) are
   multiples of 2^-52, hence d s <= d' s'.  Across binades: 0 <= polynomial value <= 1. *)
Theorem G_cub_approx_log_mono (L : libm) (x y : f64) :
  normal_pos x -> normal_pos y -> (val x <= val y)%R ->
  (val (approx_log L MCub x) <= val (approx_log L MCub y))%R.
Proof. exact (approx_log_cub_mono L x y). Qed.
Print Assumptions G_cub_approx_log_mono.

Theorem G_cub_index_mono (L : libm) (m : gmap) (x y : f64) :
  gm_kind m = MCub -> (0 <= val (gm_mult m))%R ->
  normal_pos x -> normal_pos y -> (val x <= val y)%R ->
  finite (fadd (fmul (approx_log L MCub x) (gm_mult m)) (gm_off m)) ->
  finite (fadd (fmul (approx_log L MCub y) (gm_mult m)) (gm_off m)) ->
  gm_index L m x <= gm_index L m y.
Proof. exact (cub_index_mono L m x y). Qed.
Print Assumptions G_cub_index_mono.

Theorem G_cub_index_mono_bounded (L : libm) (m : gmap) (x y : f64) :
  gm_kind m = MCub -> finite (gm_mult m) -> finite (gm_off m) ->
  (0 <= val (gm_mult m) <= bpow radix2 40)%R -> (Rabs (val (gm_off m)) <= bpow radix2 40)%R ->
  normal_pos x -> normal_pos y -> (val x <= val y)%R ->
  gm_index L m x <= gm_index L m y.
Proof. exact (cub_index_mono_bounded L m x y). Qed.
Print Assumptions G_cub_index_mono_bounded.

(* ------------------------------------------------------------------ *)
(* 6. approximateInverseLog / LowerBound of the linear mapping         *)
(* ------------------------------------------------------------------ *)
(* premise on the oracle: math.Floor(t) is the float of the true floor.  With n = floor t in
   [-1022, 1023] the result is 2^n * rnd (rnd (t - n) + 1), for EVERY finite t: the significand
   rnd (rnd (t - n) + 1) lies in [1, 2]; it is 2 only when |t| < 1 (so n + 1 <= 1023, no saturation),
   and then the repaired buildFloat64 returns 2^(n+1) = 2 * 2^n.  (Before the repair this needed the
   proviso "significand < 2": G_lower_lin_unrepaired_refuted below.) *)
Theorem G_lower_lin_value (L : libm) (t : f64) :
  finite t -> finite (l_floor L t) -> val (l_floor L t) = IZR (Zfloor (val t)) ->
  -1022 <= Zfloor (val t) <= 1023 ->
  finite (approx_inverse_log L MLin t) /\
  val (approx_inverse_log L MLin t) =
    (rnd (rnd (val t - IZR (Zfloor (val t))) + 1) * bpow radix2 (Zfloor (val t)))%R /\
  normal_pos (approx_inverse_log L MLin t).
Proof. exact (approx_inverse_log_lin_R L t). Qed.
Print Assumptions G_lower_lin_value.

Theorem G_lower_lin_significand_range (r : R) :
  (1 <= rnd (rnd (r - IZR (Zfloor r)) + 1) <= 2)%R.
Proof. exact (lin_sig_range r). Qed.
Print Assumptions G_lower_lin_significand_range.

Theorem G_lower_lin_significand_lt_2 (t : f64) :
  (1 <= Rabs (val t))%R -> (rnd (rnd (val t - IZR (Zfloor (val t))) + 1) < 2)%R.
Proof. exact (lin_sig_lt_2_of_ge_1 t). Qed.
Print Assumptions G_lower_lin_significand_lt_2.

(* no rounding at all when t is a multiple of 2^-52 ... *)
Theorem G_lower_lin_exact (L : libm) (t : f64) (k : Z) :
  finite t -> finite (l_floor L t) -> val (l_floor L t) = IZR (Zfloor (val t)) ->
  -1022 <= Zfloor (val t) <= 1023 ->
  val t = (IZR k * bpow radix2 (-52))%R ->
  finite (approx_inverse_log L MLin t) /\
  val (approx_inverse_log L MLin t) =
    ((1 + (val t - IZR (Zfloor (val t)))) * bpow radix2 (Zfloor (val t)))%R.
Proof. exact (approx_inverse_log_lin_exact L t k). Qed.
Print Assumptions G_lower_lin_exact.

(* ... in particular whenever |t| >= 1 *)
Theorem G_lower_lin_exact_ge_1 (L : libm) (t : f64) :
  finite t -> finite (l_floor L t) -> val (l_floor L t) = IZR (Zfloor (val t)) ->
  -1022 <= Zfloor (val t) <= 1023 -> (1 <= Rabs (val t))%R ->
  finite (approx_inverse_log L MLin t) /\
  val (approx_inverse_log L MLin t) =
    ((1 + (val t - IZR (Zfloor (val t)))) * bpow radix2 (Zfloor (val t)))%R.
Proof. exact (approx_inverse_log_lin_exact_ge_1 L t). Qed.
Print Assumptions G_lower_lin_exact_ge_1.

Theorem G_lower_lin_saturates (L : libm) (t : f64) :
  val (l_floor L t) = IZR (Zfloor (val t)) -> 1023 < Zfloor (val t) ->
  approx_inverse_log L MLin t = f64_pinf.
Proof. exact (approx_inverse_log_lin_saturates L t). Qed.
Print Assumptions G_lower_lin_saturates.

(* LowerBound(i) is approximateInverseLog at t = (float64(i) - indexOffset) / multiplier *)
Theorem G_lower_lin_is (L : libm) (m : gmap) (i : Z) :
  gm_kind m = MLin ->
  gm_lower L m i = approx_inverse_log L MLin (fdiv (fsub (f_of_int i) (gm_off m)) (gm_mult m)).
Proof. exact (gm_lower_lin_eq L m i). Qed.
Print Assumptions G_lower_lin_is.

(* float-level "LowerBound is non-decreasing": approximateInverseLog is monotone in t (the case where
   the significand rounds up to 2 is continuous with the next binade since the repair) ... *)
Theorem G_lower_lin_mono (L : libm) (t t' : f64) :
  finite t -> finite t' -> (val t <= val t')%R ->
  finite (l_floor L t) -> val (l_floor L t) = IZR (Zfloor (val t)) ->
  finite (l_floor L t') -> val (l_floor L t') = IZR (Zfloor (val t')) ->
  -1022 <= Zfloor (val t) -> Zfloor (val t') <= 1023 ->
  (val (approx_inverse_log L MLin t) <= val (approx_inverse_log L MLin t'))%R.
Proof. exact (approx_inverse_log_lin_mono L t t'). Qed.
Print Assumptions G_lower_lin_mono.

(* ... hence LowerBound(i) <= LowerBound(j) for i <= j, positive multiplier, finite arguments of
   approximateInverseLog, exact floors there, floors within [-1022, 1023] *)
Theorem G_lower_lin_index_mono (L : libm) (m : gmap) (i j : Z) :
  gm_kind m = MLin -> Z.abs i <= 2 ^ 53 -> Z.abs j <= 2 ^ 53 -> i <= j ->
  finite (gm_off m) -> (0 < val (gm_mult m))%R ->
  let ti := fdiv (fsub (f_of_int i) (gm_off m)) (gm_mult m) in
  let tj := fdiv (fsub (f_of_int j) (gm_off m)) (gm_mult m) in
  finite ti -> finite tj ->
  finite (l_floor L ti) -> val (l_floor L ti) = IZR (Zfloor (val ti)) ->
  finite (l_floor L tj) -> val (l_floor L tj) = IZR (Zfloor (val tj)) ->
  -1022 <= Zfloor (val ti) -> Zfloor (val tj) <= 1023 ->
  (val (gm_lower L m i) <= val (gm_lower L m j))%R.
Proof. exact (gm_lower_lin_mono L m i j). Qed.
Print Assumptions G_lower_lin_index_mono.

(* refutation witness for the code BEFORE the repair (commit 0e8266b): there is an oracle with an exact
   floor and a finite t (t = -2^-60, floor -1) at which the unrepaired approximateInverseLog,
   buildFloat64_raw (int (floor t)) (t - floor t + 1), returns 1/2, whereas 2^floor t * significand
   = 2^-1 * 2 = 1, which is what the repaired function returns *)
Theorem G_lower_lin_unrepaired_refuted :
  exists (L : libm) (t : f64),
    finite t /\ finite (l_floor L t) /\ val (l_floor L t) = IZR (Zfloor (val t)) /\
    Zfloor (val t) = -1 /\
    val (build_float64_raw (int_of_f (l_floor L t)) (fadd (fsub t (l_floor L t)) f64_one)) = (/ 2)%R /\
    val (approx_inverse_log L MLin t) = 1%R.
Proof. exact lower_lin_unrepaired_witness. Qed.
Print Assumptions G_lower_lin_unrepaired_refuted.

(* ------------------------------------------------------------------ *)
(* examples, computed on the model (floats are given by their bit patterns)
     1.0 = 0x3ff0000000000000 = 4607182418800017408      1.5   = 4609434218613702656
     3.75 = 0x400e000000000000 = 4615626668101337088     1.875 = 4611123068473966592
     2^-1022 = 4503599627370496                          max   = 0x7fefffffffffffff = 9218868437227405311 *)
(* ------------------------------------------------------------------ *)
Example G_ex_decompose_3_75 :
  bits_of_f64 (get_exponent 4615626668101337088) = 4607182418800017408%N /\       (* 1.0 *)
  bits_of_f64 (get_significand_plus_one 4615626668101337088) = 4611123068473966592%N /\ (* 1.875 *)
  bits_of_f64 (build_float64 1 (fb 4611123068473966592)) = 4615626668101337088%N.
Proof. vm_compute. repeat split; reflexivity. Qed.

Example G_ex_decompose_one_and_half :
  bits_of_f64 (get_exponent 4607182418800017408) = 0%N /\                          (* 1.0 -> e = +0.0 *)
  bits_of_f64 (get_significand_plus_one 4607182418800017408) = 4607182418800017408%N /\
  bits_of_f64 (get_exponent 4609434218613702656) = 0%N /\                          (* 1.5 -> e = 0 *)
  bits_of_f64 (get_significand_plus_one 4609434218613702656) = 4609434218613702656%N.
Proof. vm_compute. repeat split; reflexivity. Qed.

(* the ends of the normal range: e = -1022.0 (0xc08ff00000000000) and e = 1023.0 (0x408ff80000000000) *)
Example G_ex_decompose_extremes :
  bits_of_f64 (get_exponent 4503599627370496) = 13875572859742453760%N /\
  bits_of_f64 (get_significand_plus_one 4503599627370496) = 4607182418800017408%N /\
  bits_of_f64 (get_exponent 9218868437227405311) = 4652209618980700160%N /\
  bits_of_f64 (get_significand_plus_one 9218868437227405311) = 4611686018427387903%N /\ (* 2 - 2^-52 *)
  bits_of_f64 (build_float64 (-1022) f64_one) = 4503599627370496%N /\
  bits_of_f64 (build_float64 1023 (fb 4611686018427387903)) = 9218868437227405311%N /\
  build_float64 1024 f64_one = f64_pinf.
Proof. vm_compute. repeat split; reflexivity. Qed.

(* approximateLog (linear): log2-like values 0, 0.5, 1.875, -1022, and 1024 at the largest float
   ((1023 + (2 - 2^-52)) rounds to 1025) *)
Example G_ex_lin_approx_log (L : libm) :
  bits_of_f64 (approx_log L MLin (fb 4607182418800017408)) = 0%N /\
  bits_of_f64 (approx_log L MLin (fb 4609434218613702656)) = 4602678819172646912%N /\   (* 0.5 *)
  bits_of_f64 (approx_log L MLin (fb 4615626668101337088)) = 4611123068473966592%N /\   (* 1.875 *)
  bits_of_f64 (approx_log L MLin (fb 4503599627370496)) = 13875572859742453760%N /\     (* -1022 *)
  bits_of_f64 (approx_log L MLin (fb 9218868437227405311)) = 4652218415073722368%N.     (* 1024 *)
Proof. vm_compute. repeat split; reflexivity. Qed.

(* the two roundings are not exact: x = 2^-3 (1 + 2^-52) has e + (m - 1) = -3 + 2^-52, the model
   (and the implementation) return -3.0; x = 2^1023 (1 + 2^-52) gives 1023.0 *)
Example G_ex_lin_not_exact_low (L : libm) :
  bits_of_f64 (approx_log L MLin (fb 4593671619917905921)) = 13837309855095848960%N.    (* -3.0 *)
Proof. vm_compute. reflexivity. Qed.
Example G_ex_lin_not_exact_high (L : libm) :
  bits_of_f64 (approx_log L MLin (fb 9214364837600034817)) = 4652209618980700160%N.     (* 1023.0 *)
Proof. vm_compute. reflexivity. Qed.

(* approximateLog (cubic) at 1.0, 1.5 (0.5857142857142857), 3.75 (1.90546875), 2^-1022, max *)
Example G_ex_cub_approx_log (L : libm) :
  bits_of_f64 (approx_log L MCub (fb 4607182418800017408)) = 0%N /\
  bits_of_f64 (approx_log L MCub (fb 4609434218613702656)) = 4603450864823053283%N /\
  bits_of_f64 (approx_log L MCub (fb 4615626668101337088)) = 4611260287525113037%N /\
  bits_of_f64 (approx_log L MCub (fb 4503599627370496)) = 13875572859742453760%N /\      (* -1022 *)
  bits_of_f64 (approx_log L MCub (fb 9218868437227405311)) = 4652218415073722368%N.      (* 1024 *)
Proof. vm_compute. repeat split; reflexivity. Qed.

(* the Go floor: 2.5 -> 2, -2.5 -> -3, -2.0 -> -3 (not -2), -0.0 -> 0 *)
Example G_ex_go_floor :
  go_floor (fb 4612811918334230528) = 2 /\ go_floor (fb 13836183955189006336) = -3 /\
  go_floor (fb 13835058055282163712) = -3 /\ go_floor (fb 9223372036854775808) = 0.
Proof. vm_compute. repeat split; reflexivity. Qed.

(* Index with multiplier 32.0 and offset 0.5 at 3.75: floor (1.875 * 32 + 0.5) = 60 *)
Example G_ex_lin_index (L : libm) :
  gm_index L {| gm_kind := MLin; gm_gamma := f64_one; gm_off := fb 4602678819172646912;
                gm_mult := fb 4629700416936869888; gm_min := f64_zero; gm_max := f64_zero |}
           (fb 4615626668101337088) = 60.
Proof. vm_compute. reflexivity. Qed.

(* approximateInverseLog (linear) at t = -2^-60 with the correct floor -1.0: t - (-1) rounds to 1,
   + 1 = 2.0, whose fraction bits are zero: the code before the repair returned 0.5, the repaired
   buildFloat64 returns 1.0 = 2^-1 * 2 *)
Example G_ex_lower_tiny_negative (L : libm) :
  l_floor L (fb 13560338478012563456) = fb 13830554455654793216 ->
  bits_of_f64 (approx_inverse_log L MLin (fb 13560338478012563456)) = 4607182418800017408%N /\  (* 1.0 *)
  bits_of_f64 (build_float64_raw (int_of_f (fb 13830554455654793216))
                 (fadd (fsub (fb 13560338478012563456) (fb 13830554455654793216)) f64_one))
    = 4602678819172646912%N.                                                                  (* 0.5 *)
Proof. intros H. unfold approx_inverse_log. rewrite H. vm_compute. split; reflexivity. Qed.

(* buildFloat64 at the significand 2.0 (0x4000000000000000), 3.0 and just below 2 *)
Example G_ex_build_float64_two :
  bits_of_f64 (build_float64 (-1) c_two) = 4607182418800017408%N /\                 (* 1.0 *)
  bits_of_f64 (build_float64_raw (-1) c_two) = 4602678819172646912%N /\             (* 0.5 *)
  bits_of_f64 (build_float64 0 (fb 4613937818241073152)) = 4613937818241073152%N /\ (* 3.0 -> 3.0 *)
  bits_of_f64 (build_float64 1 (fb 4611686018427387903)) = 4616189618054758399%N /\ (* (2 - 2^-52) * 2 *)
  build_float64 1023 c_two = f64_pinf /\ build_float64 1024 f64_one = f64_pinf.
Proof. vm_compute. repeat split; reflexivity. Qed.

(* ... while at t = 0 (floor 0.0) it is 1.0 *)
Example G_ex_lower_zero (L : libm) :
  l_floor L f64_zero = f64_zero ->
  bits_of_f64 (approx_inverse_log L MLin f64_zero) = 4607182418800017408%N.
Proof. intros H. unfold approx_inverse_log. rewrite H. vm_compute. reflexivity. Qed.
