(* C09: the protobuf forms (ddsketch/pb/ddsketch.proto, the streaming writer
   ddsketch/pb/sketchpb/ddsketch.proto_builder.go, ToProto / EncodeProto / MergeWithProto /
   FromProto of the stores, the mappings and the sketch).  Final statements only; the model is
   Wire/Proto.v and every proof is a reference to Wire/ProtoProofs.v.

   Vocabulary (Wire/Proto.v unless said otherwise):
     pb_store, pb_mapping, pb_sketch   the messages; a map<sint32,double> is the association list of
                                       its entries in wire order
     pb_enc_varint / pb_dec_varint     protobuf base-128 varint on uint64 (at most 10 bytes)
     pb_zigzag / pb_unzigzag32         protowire.EncodeZigZag on int64; decoding of a sint32 field
     pb_enc_fixed64, pb_enc_double     fixed64 little endian; a double is its IEEE bit pattern
     pb_enc_tag f wt, pb_enc_len f p   tag (f << 3) | wt; length-delimited field
     pb_dec_field                      one field (number, value by wire type, remaining bytes)
     stream_store / stream_mapping / stream_sketch, stream_store_ops
                                       the bytes the Go builder emits (for a message; for any
                                       sequence of StoreBuilder calls)
     marshal_store / marshal_mapping / marshal_sketch   the bytes proto.Marshal emits for the
                                       generated types (entry order = list order)
     parse_store / parse_mapping / parse_sketch    the schema parser (any field order, unknown
                                       fields skipped, packed and unpacked doubles, last wins, merging)
     store_content p                   map entries, then the contiguous counts at offset + k, as
                                       (index, exact weight) pairs;  merge_with_proto = MergeWithProto
     to_proto_sparse l                 one entry per bin of l (l = the bins in visiting order)
     to_proto_dense b                  contiguous counts from min key to max key, interior zeros included
   and from Wire/ProtoProofs.v:
     f64_weights l     every weight w of l is a float64 value: rnd64 w = w  (rnd64 = round to binary64)
     pb_nonneg p       every count of the message is >= 0 (as an exact weight)
     store_ok p        keys and offset are int32;  store_small p : fewer than 2^31 entries and counts
     mapping_ok m      the enum value fits 32 bits;  sketch_ok s : the above for the parts present
     store_op_ok op    the int32 condition on one StoreBuilder call;  field_ok f : 1 <= f <= 2^29 - 1
     keys_ok l         every key of l is an int32
   Layer A (Spec/Bins.v, Spec/BinsProofs.v): bins, wf (canonical), pos (weights > 0), bmerge, norm. *)
From Coq Require Import Bool NArith ZArith List Permutation.
From SK Require Import Base.Prelude.
From SK Require Import Base.F64.
From SK Require Import Codec.Codec.
From SK Require Import Spec.Bins.
From SK Require Import Spec.BinsProofs.
From SK Require Import Wire.Proto.
From SK Require Import Wire.ProtoProofs.
From SK Require Store.Dense.
From SK Require Store.DenseProofs.
Import ListNotations.
Local Open Scope Z_scope.

(* ================================================================== *)
(* 1. wire primitives (integers: axiom-free)                           *)
(* ================================================================== *)
Theorem C09_varint_roundtrip : forall (v : N) (rest : list byte),
  (v < W64)%N -> pb_dec_varint (pb_enc_varint v ++ rest) = Some (v, rest).
Proof. exact varint_roundtrip. Qed.
Print Assumptions C09_varint_roundtrip.

Theorem C09_varint_length : forall v : N, (1 <= length (pb_enc_varint v) <= 10)%nat.
Proof. exact enc_varint_length. Qed.
Print Assumptions C09_varint_length.

Theorem C09_varint_bytes : forall (v b : N), (v < W64)%N -> In b (pb_enc_varint v) -> (b < 256)%N.
Proof. exact enc_varint_bytes. Qed.
Print Assumptions C09_varint_bytes.

(* the bit formula uint64(v<<1) ^ uint64(v>>63) is 2v for v >= 0 and -2v-1 for v < 0 *)
Theorem C09_zigzag32_value : forall v : Z,
  idx_ok v -> pb_zigzag v = Z.to_N (if v <? 0 then -2 * v - 1 else 2 * v).
Proof. exact zigzag32_val. Qed.
Print Assumptions C09_zigzag32_value.

Theorem C09_zigzag32_roundtrip : forall v : Z, idx_ok v -> pb_unzigzag32 (pb_zigzag v) = v.
Proof. exact zigzag32_roundtrip. Qed.
Print Assumptions C09_zigzag32_roundtrip.

(* whatever varint a sint32 field carries, the decoded key is an int32 *)
Theorem C09_zigzag32_range : forall n : N, idx_ok (pb_unzigzag32 n).
Proof. exact unzigzag32_range. Qed.
Print Assumptions C09_zigzag32_range.

Theorem C09_fixed64_roundtrip : forall (bits : N) (rest : list byte),
  (bits < W64)%N -> pb_dec_fixed64 (pb_enc_fixed64 bits ++ rest) = Some (bits, rest).
Proof. exact fixed64_roundtrip. Qed.
Print Assumptions C09_fixed64_roundtrip.

(* tag and length framing, with arbitrary trailing bytes *)
Theorem C09_field_varint_framing : forall (fld v : N) (rest : list byte),
  field_ok fld -> (v < W64)%N ->
  pb_dec_field (pb_enc_tag fld WT_VARINT ++ pb_enc_varint v ++ rest) = Some (fld, PVarint v, rest).
Proof. exact dec_field_varint. Qed.
Print Assumptions C09_field_varint_framing.

Theorem C09_field_fixed64_framing : forall (fld bits : N) (rest : list byte),
  field_ok fld -> (bits < W64)%N ->
  pb_dec_field (pb_enc_tag fld WT_I64 ++ pb_enc_fixed64 bits ++ rest) = Some (fld, PI64 bits, rest).
Proof. exact dec_field_fixed64. Qed.
Print Assumptions C09_field_fixed64_framing.

Theorem C09_field_len_framing : forall (fld : N) (payload rest : list byte),
  field_ok fld -> (N.of_nat (length payload) < W64)%N ->
  pb_dec_field (pb_enc_len fld payload ++ rest) = Some (fld, PLen payload, rest).
Proof. exact dec_field_len. Qed.
Print Assumptions C09_field_len_framing.

Theorem C09_len_prefix_take : forall payload rest : list byte,
  pb_take (N.of_nat (length payload)) (payload ++ rest) = Some (payload, rest).
Proof. exact take_app. Qed.
Print Assumptions C09_len_prefix_take.

(* an announced length beyond the end of the buffer is an error *)
Theorem C09_len_prefix_short : forall (l : list byte) (n : N) (acc : list byte),
  (N.of_nat (length l) < n)%N -> pb_take_loop l n acc = None.
Proof. exact take_loop_short. Qed.
Print Assumptions C09_len_prefix_short.

(* ================================================================== *)
(* 2. stream = message (floats as bit patterns: Flocq, real-number axioms only) *)
(* ================================================================== *)
(* every float64, NaN payloads included, crosses as its bit pattern *)
Theorem C09_double_roundtrip : forall (v : f64) (rest : list byte),
  pb_dec_double (pb_enc_double v ++ rest) = Some (v, rest).
Proof. exact double_roundtrip. Qed.
Print Assumptions C09_double_roundtrip.

Theorem C09_stream_equals_message_entry : forall (k : Z) (v : f64),
  idx_ok k -> parse_entry (stream_entry k v) = Some (k, v).
Proof. exact parse_entry_stream. Qed.
Print Assumptions C09_stream_equals_message_entry.

(* ANY sequence of StoreBuilder calls (AddBinCounts / AddContiguousBinCounts /
   SetContiguousBinIndexOffset, in any order and number) read into any accumulator: entries and
   counts are appended in call order, the last offset wins *)
Theorem C09_stream_equals_message_store_calls : forall (ops : list store_op) (a : store_acc),
  Forall store_op_ok ops ->
  parse_store_acc a (stream_store_ops ops) = Some (fold_left store_apply ops a).
Proof. exact parse_store_ops. Qed.
Print Assumptions C09_stream_equals_message_store_calls.

(* Store: the parsed message IS the message (entry order preserved; protobuf cannot tell an absent
   offset from 0 nor an empty list from an absent one, and the message type cannot either: the
   writer emits the offset iff there are contiguous counts or it is not 0) *)
Theorem C09_stream_equals_message_store : forall p : pb_store,
  store_ok p -> parse_store (stream_store p) = Some p.
Proof. exact parse_store_stream. Qed.
Print Assumptions C09_stream_equals_message_store.

Theorem C09_stream_equals_message_mapping : forall m : pb_mapping,
  mapping_ok m -> parse_mapping (stream_mapping m) = Some m.
Proof. exact parse_mapping_stream. Qed.
Print Assumptions C09_stream_equals_message_mapping.

Theorem C09_stream_equals_message : forall s : pb_sketch,
  sketch_ok s -> parse_sketch (stream_sketch s) = Some s.
Proof. exact parse_sketch_stream. Qed.
Print Assumptions C09_stream_equals_message.

(* the other wire form of the same messages, as proto.Marshal writes the generated types (fields by
   number, contiguousBinCounts PACKED, zero scalars omitted, empty list omitted): the parser
   returns the same message *)
Theorem C09_packed_roundtrip : forall (l acc : list f64),
  pb_dec_packed (concat (map pb_enc_double l)) acc = Some (rev l ++ acc).
Proof. exact packed_roundtrip. Qed.
Print Assumptions C09_packed_roundtrip.

Theorem C09_marshal_equals_message_store : forall p : pb_store,
  store_ok p -> store_small p -> parse_store (marshal_store p) = Some p.
Proof. exact parse_store_marshal. Qed.
Print Assumptions C09_marshal_equals_message_store.

Theorem C09_marshal_equals_message_mapping : forall m : pb_mapping,
  mapping_ok m -> parse_mapping (marshal_mapping m) = Some m.
Proof. exact parse_mapping_marshal. Qed.
Print Assumptions C09_marshal_equals_message_mapping.

Theorem C09_marshal_equals_message : forall s : pb_sketch,
  sketch_ok s -> parse_sketch (marshal_sketch s) = Some s.
Proof. exact parse_sketch_marshal. Qed.
Print Assumptions C09_marshal_equals_message.

(* hence both wire forms of a message parse to the same thing *)
Theorem C09_stream_and_marshal_agree : forall s : pb_sketch,
  sketch_ok s -> parse_sketch (stream_sketch s) = parse_sketch (marshal_sketch s).
Proof. intros; etransitivity; [eapply parse_sketch_stream|symmetry; eapply parse_sketch_marshal]; eauto. Qed.
Print Assumptions C09_stream_and_marshal_agree.

(* ================================================================== *)
(* 3. ToProto then MergeWithProto, on Layer A                          *)
(* ================================================================== *)
(* the hypothesis f64_weights holds of every list whose weights are values of float64s
   (rounding: Base/F64Proofs.v, rnd64 (f2q x) = f2q x), in particular of the content of a message *)
Theorem C09_f64_weights_of_floats : forall l : list (Z * W),
  Forall (fun kw => exists x : f64, snd kw = f2q x) l -> f64_weights l.
Proof. exact f64_weights_floats. Qed.
Print Assumptions C09_f64_weights_of_floats.

Theorem C09_f64_weights_of_entries : forall lf : list (Z * f64), f64_weights (entries_content lf).
Proof. exact f64_weights_entries. Qed.
Print Assumptions C09_f64_weights_of_entries.

(* stated on the floats of ANY message with non-negative counts: MergeWithProto is the merge of the
   canonical form of the message's content; weights cross exactly *)
Theorem C09_proto_merge_canon : forall (r : bins) (p : pb_store),
  wf r = true -> pos r -> pb_nonneg p ->
  merge_with_proto r p = bmerge r (bins_of_list (store_content p)).
Proof. exact merge_with_proto_canon. Qed.
Print Assumptions C09_proto_merge_canon.

(* sparse / paginated form, every visiting order l of the bins; dense form (interior zeros skipped) *)
Theorem C09_proto_roundtrip_sparse : forall (b : bins) (l : list (Z * W)),
  wf b = true -> pos b -> f64_weights b -> Permutation b l ->
  merge_with_proto [] (to_proto_sparse l) = b.
Proof. exact proto_roundtrip_sparse. Qed.
Print Assumptions C09_proto_roundtrip_sparse.

Theorem C09_proto_roundtrip_dense : forall b : bins,
  wf b = true -> pos b -> f64_weights b -> merge_with_proto [] (to_proto_dense b) = b.
Proof. exact proto_roundtrip_dense. Qed.
Print Assumptions C09_proto_roundtrip_dense.

Theorem C09_proto_roundtrip : forall (b : bins) (l : list (Z * W)),
  wf b = true -> pos b -> f64_weights b -> Permutation b l ->
  merge_with_proto [] (to_proto_sparse l) = b /\ merge_with_proto [] (to_proto_dense b) = b.
Proof. intros; split; [eapply proto_roundtrip_sparse|eapply proto_roundtrip_dense]; eauto. Qed.
Print Assumptions C09_proto_roundtrip.

(* into a non-empty receiver it is the merge *)
Theorem C09_proto_merge_sparse : forall (r b : bins) (l : list (Z * W)),
  wf r = true -> pos r -> wf b = true -> pos b -> f64_weights b -> Permutation b l ->
  merge_with_proto r (to_proto_sparse l) = bmerge r b.
Proof. exact merge_sparse_into. Qed.
Print Assumptions C09_proto_merge_sparse.

Theorem C09_proto_merge_dense : forall r b : bins,
  wf r = true -> pos r -> wf b = true -> pos b -> f64_weights b ->
  merge_with_proto r (to_proto_dense b) = bmerge r b.
Proof. exact merge_dense_into. Qed.
Print Assumptions C09_proto_merge_dense.

(* a bounded (collapsing) receiver holds norm lim of the exact content: reading a message into it
   and re-normalising is the clamp of the exact merge *)
Theorem C09_proto_merge_bounded_any : forall (lim : limit) (r : bins) (p : pb_store),
  limit_ok lim -> wf r = true -> pos r -> pb_nonneg p ->
  norm lim (merge_with_proto (norm lim r) p) = norm lim (merge_with_proto r p).
Proof. exact merge_with_proto_norm. Qed.
Print Assumptions C09_proto_merge_bounded_any.

Theorem C09_proto_roundtrip_bounded : forall (lim : limit) (r b : bins) (l : list (Z * W)),
  limit_ok lim -> wf r = true -> pos r -> wf b = true -> pos b -> f64_weights b -> Permutation b l ->
  norm lim (merge_with_proto (norm lim r) (to_proto_sparse l)) = norm lim (bmerge r b) /\
  norm lim (merge_with_proto (norm lim r) (to_proto_dense b)) = norm lim (bmerge r b).
Proof. exact proto_roundtrip_bounded. Qed.
Print Assumptions C09_proto_roundtrip_bounded.

(* end to end through the bytes: ToProto, the streaming writer, the parser, MergeWithProto
   (keys_ok: the keys are int32, so that the int32(index) casts are the identity) *)
Theorem C09_proto_roundtrip_wire_sparse : forall (r b : bins) (l : list (Z * W)),
  wf r = true -> pos r -> wf b = true -> pos b -> f64_weights b -> keys_ok b -> Permutation b l ->
  exists p, parse_store (stream_store (to_proto_sparse l)) = Some p /\ merge_with_proto r p = bmerge r b.
Proof. exact wire_roundtrip_sparse. Qed.
Print Assumptions C09_proto_roundtrip_wire_sparse.

Theorem C09_proto_roundtrip_wire_dense : forall r b : bins,
  wf r = true -> pos r -> wf b = true -> pos b -> f64_weights b -> keys_ok b ->
  exists p, parse_store (stream_store (to_proto_dense b)) = Some p /\ merge_with_proto r p = bmerge r b.
Proof. exact wire_roundtrip_dense. Qed.
Print Assumptions C09_proto_roundtrip_wire_dense.

(* the order in which MergeWithProto ranges over the Go map is irrelevant *)
Theorem C09_proto_merge_order : forall (r : bins) (p p' : pb_store),
  wf r = true -> pos r -> pb_nonneg p ->
  Permutation (bin_counts p) (bin_counts p') ->
  contiguous_counts p' = contiguous_counts p -> contiguous_offset p' = contiguous_offset p ->
  merge_with_proto r p' = merge_with_proto r p.
Proof. exact merge_with_proto_order. Qed.
Print Assumptions C09_proto_merge_order.

(* distinct keys: Go's map view (last duplicate wins) is the entry list itself; this is the case of
   every message a store emits *)
Theorem C09_map_view_distinct : forall l : list (Z * f64), NoDup (map fst l) -> pb_map_view l = l.
Proof. exact pb_map_view_nodup. Qed.
Print Assumptions C09_map_view_distinct.

Theorem C09_proto_merge_go_map : forall (r b : bins) (l : list (Z * W)),
  wf b = true -> Permutation b l ->
  merge_with_proto_go r (to_proto_sparse l) = merge_with_proto r (to_proto_sparse l).
Proof. exact merge_with_proto_go_sparse. Qed.
Print Assumptions C09_proto_merge_go_map.

(* ================================================================== *)
(* 4. sparse and contiguous counts add up                              *)
(* ================================================================== *)
Theorem C09_mixed_counts_add : forall (b : bins) (p : pb_store),
  merge_with_proto b p =
  bmerge_list (bmerge_list b (entries_content (bin_counts p)))
              (contig_content (contiguous_offset p) (contiguous_counts p)).
Proof. exact mixed_counts_add. Qed.
Print Assumptions C09_mixed_counts_add.

(* bin by bin: receiver + sum of the entries with that key + the contiguous count at j - offset *)
Theorem C09_mixed_counts_add_get : forall (b : bins) (p : pb_store) (j : Z),
  wf b = true -> pos b -> pb_nonneg p ->
  get (merge_with_proto b p) j =
  wadd (wadd (get b j) (lsum (entries_content (bin_counts p)) j))
       (lsum (contig_content (contiguous_offset p) (contiguous_counts p)) j).
Proof. exact mixed_counts_add_get. Qed.
Print Assumptions C09_mixed_counts_add_get.

Theorem C09_contiguous_weight : forall (l : list f64) (o j : Z),
  lsum (contig_content o l) j =
  if (o <=? j) && (j <? o + Z.of_nat (length l)) then f2q (nth (Z.to_nat (j - o)) l f64_zero) else w0.
Proof. exact lsum_contig. Qed.
Print Assumptions C09_contiguous_weight.

(* ================================================================== *)
(* 5. the dense store model                                            *)
(* ================================================================== *)
Theorem C09_dense_to_proto : forall s : Dense.dense,
  DenseProofs.Inv s ->
  exists r, Dense.to_proto_d s = Some r /\ pb_of_dense_proto r = to_proto_dense (DenseProofs.dabs s).
Proof. exact dense_to_proto. Qed.
Print Assumptions C09_dense_to_proto.

Theorem C09_dense_proto_roundtrip : forall (s : Dense.dense) (r0 : bins),
  DenseProofs.Inv s -> f64_weights (DenseProofs.dabs s) -> wf r0 = true -> pos r0 ->
  exists r, Dense.to_proto_d s = Some r /\
            merge_with_proto [] (pb_of_dense_proto r) = DenseProofs.dabs s /\
            merge_with_proto r0 (pb_of_dense_proto r) = bmerge r0 (DenseProofs.dabs s).
Proof. exact dense_proto_roundtrip. Qed.
Print Assumptions C09_dense_proto_roundtrip.

(* ================================================================== *)
(* Examples: bytes produced by the Go implementation (alpha = 0.1; Add 0.5 x1, 1.0 x2, 2.0 x3.5,
   -4.0 x1.5, 0 x2), read and re-emitted by the model                  *)
(* ================================================================== *)
Definition d_1 : f64 := f64_of_bits 4607182418800017408.       (* 1.0 *)
Definition d_1_5 : f64 := f64_of_bits 4609434218613702656.     (* 1.5 *)
Definition d_2 : f64 := f64_of_bits 4611686018427387904.       (* 2.0 *)
Definition d_3_5 : f64 := f64_of_bits 4615063718147915776.     (* 3.5 *)
Definition gamma_log : f64 := f64_of_bits 4608183218717210852.
Definition gamma_cub : f64 := f64_of_bits 4608172415859992140.

(* DenseStore + LogarithmicMapping: DDSketch.EncodeProto *)
Definition go_dense_stream : list byte := map N.of_nat
  [10; 18; 9; 228; 56; 142; 227; 56; 142; 243; 63; 17; 0; 0; 0; 0; 0; 0; 0; 0; 33; 0; 0; 0; 0; 0; 0; 0; 64;
   26; 11; 17; 0; 0; 0; 0; 0; 0; 248; 63; 24; 12; 18; 74; 17; 0; 0; 0; 0; 0; 0; 240; 63; 17; 0; 0; 0; 0; 0; 0;
   0; 0; 17; 0; 0; 0; 0; 0; 0; 0; 0; 17; 0; 0; 0; 0; 0; 0; 0; 0; 17; 0; 0; 0; 0; 0; 0; 0; 64; 17; 0; 0; 0; 0; 0;
   0; 0; 0; 17; 0; 0; 0; 0; 0; 0; 0; 0; 17; 0; 0; 0; 0; 0; 0; 12; 64; 24; 7]%nat.
(* proto.Marshal(DDSketch.ToProto()) of the same sketch *)
Definition go_dense_marshal : list byte := map N.of_nat
  [10; 9; 9; 228; 56; 142; 227; 56; 142; 243; 63; 18; 68; 18; 64; 0; 0; 0; 0; 0; 0; 240; 63; 0; 0; 0; 0; 0; 0;
   0; 0; 0; 0; 0; 0; 0; 0; 0; 0; 0; 0; 0; 0; 0; 0; 0; 0; 0; 0; 0; 0; 0; 0; 0; 64; 0; 0; 0; 0; 0; 0; 0; 0; 0; 0; 0;
   0; 0; 0; 0; 0; 0; 0; 0; 0; 0; 0; 12; 64; 24; 7; 26; 12; 18; 8; 0; 0; 0; 0; 0; 0; 248; 63; 24; 12; 33; 0; 0; 0;
   0; 0; 0; 0; 64]%nat.
Definition msg_dense : pb_sketch :=
  {| ps_mapping := Some {| pm_gamma := gamma_log; pm_offset := f64_zero; pm_interp := 0 |};
     ps_pos := Some {| bin_counts := [];
                       contiguous_counts := [d_1; f64_zero; f64_zero; f64_zero; d_2; f64_zero; f64_zero; d_3_5];
                       contiguous_offset := -4 |};
     ps_neg := Some {| bin_counts := []; contiguous_counts := [d_1_5]; contiguous_offset := 6 |};
     ps_zero := d_2 |}.

Example C09_ex_dense_stream : stream_sketch msg_dense = go_dense_stream.
Proof. vm_compute. reflexivity. Qed.
Example C09_ex_dense_parse_stream : parse_sketch go_dense_stream = Some msg_dense.
Proof. vm_compute. reflexivity. Qed.
Example C09_ex_dense_marshal : marshal_sketch msg_dense = go_dense_marshal.
Proof. vm_compute. reflexivity. Qed.
Example C09_ex_dense_parse_marshal : parse_sketch go_dense_marshal = Some msg_dense.
Proof. vm_compute. reflexivity. Qed.

(* SparseStore + CubicallyInterpolatedMapping: EncodeProto (map iteration order of that run: 3, -4, 0) *)
Definition go_sparse_stream : list byte := map N.of_nat
  [10; 20; 9; 76; 166; 22; 167; 101; 132; 243; 63; 17; 0; 0; 0; 0; 0; 0; 0; 0; 24; 3; 33; 0; 0; 0; 0; 0; 0; 0;
   64; 26; 13; 10; 11; 8; 12; 17; 0; 0; 0; 0; 0; 0; 248; 63; 18; 39; 10; 11; 8; 6; 17; 0; 0; 0; 0; 0; 0; 12; 64;
   10; 11; 8; 7; 17; 0; 0; 0; 0; 0; 0; 240; 63; 10; 11; 8; 0; 17; 0; 0; 0; 0; 0; 0; 0; 64]%nat.
(* proto.Marshal (deterministic: entries sorted by key) *)
Definition go_sparse_marshal : list byte := map N.of_nat
  [10; 11; 9; 76; 166; 22; 167; 101; 132; 243; 63; 24; 3; 18; 39; 10; 11; 8; 7; 17; 0; 0; 0; 0; 0; 0; 240; 63;
   10; 11; 8; 0; 17; 0; 0; 0; 0; 0; 0; 0; 64; 10; 11; 8; 6; 17; 0; 0; 0; 0; 0; 0; 12; 64; 26; 13; 10; 11; 8; 12;
   17; 0; 0; 0; 0; 0; 0; 248; 63; 33; 0; 0; 0; 0; 0; 0; 0; 64]%nat.
Definition msg_sparse (order : list (Z * f64)) : pb_sketch :=
  {| ps_mapping := Some {| pm_gamma := gamma_cub; pm_offset := f64_zero; pm_interp := 3 |};
     ps_pos := Some {| bin_counts := order; contiguous_counts := []; contiguous_offset := 0 |};
     ps_neg := Some {| bin_counts := [(6, d_1_5)]; contiguous_counts := []; contiguous_offset := 0 |};
     ps_zero := d_2 |}.
Definition order_run : list (Z * f64) := [(3, d_3_5); (-4, d_1); (0, d_2)].
Definition order_sorted : list (Z * f64) := [(-4, d_1); (0, d_2); (3, d_3_5)].

Example C09_ex_sparse_stream : stream_sketch (msg_sparse order_run) = go_sparse_stream.
Proof. vm_compute. reflexivity. Qed.
Example C09_ex_sparse_parse_stream : parse_sketch go_sparse_stream = Some (msg_sparse order_run).
Proof. vm_compute. reflexivity. Qed.
Example C09_ex_sparse_marshal : marshal_sketch (msg_sparse order_sorted) = go_sparse_marshal.
Proof. vm_compute. reflexivity. Qed.
Example C09_ex_sparse_parse_marshal : parse_sketch go_sparse_marshal = Some (msg_sparse order_sorted).
Proof. vm_compute. reflexivity. Qed.

(* an empty sketch: both Store sub-messages are written with length 0, the zero count is written *)
Definition go_empty_stream : list byte := map N.of_nat
  [10; 18; 9; 228; 56; 142; 227; 56; 142; 243; 63; 17; 0; 0; 0; 0; 0; 0; 0; 0; 33; 0; 0; 0; 0; 0; 0; 0; 0;
   26; 0; 18; 0]%nat.
Definition msg_empty : pb_sketch :=
  {| ps_mapping := Some {| pm_gamma := gamma_log; pm_offset := f64_zero; pm_interp := 0 |};
     ps_pos := Some pb_store_empty; ps_neg := Some pb_store_empty; ps_zero := f64_zero |}.
Example C09_ex_empty_stream : stream_sketch msg_empty = go_empty_stream.
Proof. vm_compute. reflexivity. Qed.
Example C09_ex_empty_parse : parse_sketch go_empty_stream = Some msg_empty.
Proof. vm_compute. reflexivity. Qed.

(* Layer A: the three bins, whichever form carried them *)
Definition bins3 : bins := [(-4, w_of_Z 1); (0, w_of_Z 2); (3, Q2Qc (7 # 2))].
Definition bins_neg : bins := [(6, Q2Qc (3 # 2))].
(* (Qc carries a canonicity proof: contents are compared with the decision procedure bins_eqb,
   bins_eqb a b = true <-> a = b, BinsProofs.bins_eqb_eq) *)
Definition stores_are (x : option (bins * bins * f64)) (p n : bins) (z : f64) : bool :=
  match x with
  | Some (p', n', z') => bins_eqb p' p && bins_eqb n' n && (bits_of_f64 z' =? bits_of_f64 z)%N
  | None => false
  end.
Example C09_ex_from_proto_dense :
  stores_are (option_map from_proto_stores (parse_sketch go_dense_stream)) bins3 bins_neg d_2 = true.
Proof. vm_compute. reflexivity. Qed.
Example C09_ex_from_proto_sparse :
  stores_are (option_map from_proto_stores (parse_sketch go_sparse_stream)) bins3 bins_neg d_2 = true.
Proof. vm_compute. reflexivity. Qed.
Example C09_ex_from_proto_marshal :
  stores_are (option_map from_proto_stores (parse_sketch go_sparse_marshal)) bins3 bins_neg d_2 = true /\
  stores_are (option_map from_proto_stores (parse_sketch go_dense_marshal)) bins3 bins_neg d_2 = true.
Proof. vm_compute. split; reflexivity. Qed.
(* ToProto from Layer A emits the implementation's Store bytes *)
Example C09_ex_to_proto_dense :
  stream_store (to_proto_dense bins3) = firstn 74 (skipn 44 go_dense_stream).
Proof. vm_compute. reflexivity. Qed.
Example C09_ex_to_proto_sparse :
  stream_store (to_proto_sparse [(3, Q2Qc (7 # 2)); (-4, w_of_Z 1); (0, w_of_Z 2)]) = skipn 48 go_sparse_stream.
Proof. vm_compute. reflexivity. Qed.

(* a hand-built mixed message: index 1 given sparsely (2.0) and contiguously (1.5 at offset 0 + 1),
   an unknown varint field 9 in between, the entry with value before key: the counts add up *)
Definition mixed_bytes : list byte :=
  pb_enc_len 1 (pb_enc_tag 2 WT_I64 ++ pb_enc_double d_2 ++ pb_enc_tag 1 WT_VARINT ++ pb_enc_varint (pb_zigzag 1))
  ++ pb_enc_tag 9 WT_VARINT ++ pb_enc_varint 300
  ++ pb_enc_len 2 (pb_enc_double d_1 ++ pb_enc_double d_1_5)
  ++ pb_enc_tag 2 WT_I64 ++ pb_enc_double d_3_5.
Example C09_ex_mixed :
  match parse_store mixed_bytes with
  | Some p => bins_eqb (merge_with_proto [] p) [(0, w_of_Z 1); (1, Q2Qc (7 # 2)); (2, Q2Qc (7 # 2))]
  | None => false
  end = true.
Proof. vm_compute. reflexivity. Qed.
(* duplicate wire keys: the association list keeps both, Go's map keeps the last *)
Example C09_ex_map_view : pb_map_view [(1, d_1); (2, d_2); (1, d_3_5)] = [(2, d_2); (1, d_3_5)].
Proof. vm_compute. reflexivity. Qed.
