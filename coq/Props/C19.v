(* Props/C19 — identity of an index mapping through its binary form, and the Equals gate: statements only.
   Models: SK.Wire.Wire ([enc_mapping], [dec_mapping]), SK.Sketch.Sketch ([mapid], [within_tolerance],
   [map_equals], [tol12]), SK.Base.F64 (Flocq binary64, comparisons with Go's NaN semantics).
   Proofs: SK.Sketch.EqualsProofs.  Real-number separation of the constructor gammas: Props/C19real.v.
   Go: ddsketch/mapping/*_mapping.go (Equals, Encode, withinTolerance), index_mapping.go (Decode),
   encoding/flag.go.

   Reading aid:
     mapid                 = {| mk_kind : N (0 log, 1 linear, 3 cubic); mk_gamma : f64; mk_off : f64 |}
     enc_mapping m         = [mk_flag ft_mapping (mk_kind m)] ++ float64LE gamma ++ float64LE offset
     dec_mapping f b       = mapping.Decode(&b, f): DOk m rest | DErr e
     BR x                  = Binary.B2R 53 1024 x, the real value of a float (0 for NaN and infinities)
     f_is_finite x         = x is neither a NaN nor an infinity
     fle / flt             = Go's <= / < (false when a NaN is involved)
     tol12                 = the binary64 nearest to 1e-12 = 4951760157141521 * 2^-92
   Equality of [mapid] values is bit-level: Flocq's binary64 carries the sign of zeros and the payload
   of NaNs ([f64_of_bits (bits_of_f64 v) = v] for every v, Codec/VarfloatProofs.v). *)
From Coq Require Import Bool NArith ZArith List Reals.
From Flocq Require Import Core.Core IEEE754.BinarySingleNaN IEEE754.Binary IEEE754.Bits.
From SK Require Import Codec.Codec.
From SK Require Import Base.Prelude Base.F64 Sketch.Sketch Wire.Wire Sketch.EqualsProofs.
Import ListNotations.

Local Notation BR := (Binary.B2R 53 1024).

(* ================================================================== *)
(* 1. the mapping block                                                *)
(* ================================================================== *)

(* Decode (Encode m) = m on (kind, gamma bits, offset bits), for every float64 offset (NaN payloads
   and signed zeros included), with exactly 16 payload bytes consumed after the flag byte (17 in all). *)
Theorem C19_mapping_encode_decode : forall (m : mapid) (rest : list byte),
  mk_kind m = 0%N \/ mk_kind m = 1%N \/ mk_kind m = 3%N ->
  flt f64_one (mk_gamma m) = true ->
  exists f body,
    enc_mapping m = f :: body /\ f = mk_flag ft_mapping (mk_kind m) /\ length body = 16%nat /\
    dec_mapping f (body ++ rest) = DOk m rest.
Proof. exact mapping_encode_decode. Qed.
Print Assumptions C19_mapping_encode_decode.

(* the same under the decoder's own test "not (gamma <= 1)", which a NaN gamma passes
   (NewLogarithmicMappingWithGamma(NaN, 0) returns no error) *)
Theorem C19_mapping_encode_decode_gen : forall (m : mapid) (rest : list byte),
  mk_kind m = 0%N \/ mk_kind m = 1%N \/ mk_kind m = 3%N ->
  fle (mk_gamma m) f64_one = false ->
  exists f body,
    enc_mapping m = f :: body /\ f = mk_flag ft_mapping (mk_kind m) /\ length body = 16%nat /\
    dec_mapping f (body ++ rest) = DOk m rest.
Proof. exact mapping_encode_decode_gen. Qed.
Print Assumptions C19_mapping_encode_decode_gen.

Theorem C19_mapping_bad_gamma : forall (m : mapid) (rest : list byte),
  mk_kind m = 0%N \/ mk_kind m = 1%N \/ mk_kind m = 3%N ->
  fle (mk_gamma m) f64_one = true ->
  exists f body, enc_mapping m = f :: body /\ dec_mapping f (body ++ rest) = DErr EBadGamma.
Proof. exact mapping_bad_gamma. Qed.
Print Assumptions C19_mapping_bad_gamma.

(* the accepted flag bytes are FlagIndexMappingBase{Logarithmic,Linear,Cubic} = 2, 6, 14 *)
Theorem C19_mapping_flag_values :
  mk_flag ft_mapping 0 = 2%N /\ mk_flag ft_mapping 1 = 6%N /\ mk_flag ft_mapping 3 = 14%N /\
  flag_map_log = 2%N /\ flag_map_lin = 6%N /\ flag_map_cub = 14%N.
Proof. exact mapping_flag_values. Qed.
Print Assumptions C19_mapping_flag_values.

(* Go's Decode switches on the whole flag byte, the model on the subflag of a flag of type "mapping"
   (the only way the block loop calls it): the same test *)
Theorem C19_mapping_flag_char : forall f : byte, (f < 256)%N -> flag_type f = ft_mapping ->
  ((N.shiftr f 2 = 0%N \/ N.shiftr f 2 = 1%N \/ N.shiftr f 2 = 3%N) <-> f = 2%N \/ f = 6%N \/ f = 14%N).
Proof. exact mapping_flag_char. Qed.
Print Assumptions C19_mapping_flag_char.

Theorem C19_unknown_mapping_flag : forall (f : byte) (b : list byte),
  ~ (N.shiftr f 2 = 0%N \/ N.shiftr f 2 = 1%N \/ N.shiftr f 2 = 3%N) ->
  dec_mapping f b = DErr EUnknownMapping.
Proof. exact unknown_mapping_flag. Qed.
Print Assumptions C19_unknown_mapping_flag.

(* a strict prefix of the 16 payload bytes: io.EOF *)
Theorem C19_mapping_truncated : forall (m : mapid) (f : byte) (body p s : list byte),
  mk_kind m = 0%N \/ mk_kind m = 1%N \/ mk_kind m = 3%N ->
  enc_mapping m = f :: body -> body = p ++ s -> s <> [] ->
  dec_mapping f p = DErr EEof.
Proof. exact mapping_truncated. Qed.
Print Assumptions C19_mapping_truncated.

(* more generally any payload shorter than 16 bytes *)
Theorem C19_mapping_short_input : forall (f : byte) (p : list byte),
  N.shiftr f 2 = 0%N \/ N.shiftr f 2 = 1%N \/ N.shiftr f 2 = 3%N ->
  (length p < 16)%nat -> dec_mapping f p = DErr EEof.
Proof. exact mapping_short_input. Qed.
Print Assumptions C19_mapping_short_input.

(* what a successful decode guarantees *)
Theorem C19_mapping_decode_inv : forall (f : byte) (b : list byte) (m : mapid) (rest : list byte),
  dec_mapping f b = DOk m rest ->
  (mk_kind m = 0%N \/ mk_kind m = 1%N \/ mk_kind m = 3%N) /\ mk_kind m = N.shiftr f 2 /\
  fle (mk_gamma m) f64_one = false /\ (16 <= length b)%nat /\ rest = skipn 16 b.
Proof. exact mapping_decode_inv. Qed.
Print Assumptions C19_mapping_decode_inv.

(* ================================================================== *)
(* 2. mappings of different kinds are never equal                      *)
(* ================================================================== *)
Theorem C19_equals_kind : forall a b : mapid, map_equals a b = true -> mk_kind a = mk_kind b.
Proof. exact equals_kind. Qed.
Print Assumptions C19_equals_kind.

Theorem C19_equals_kind_neq : forall a b : mapid, mk_kind a <> mk_kind b -> map_equals a b = false.
Proof. exact equals_kind_neq. Qed.
Print Assumptions C19_equals_kind_neq.

(* ================================================================== *)
(* 3. reflexivity (finite fields)                                      *)
(* ================================================================== *)
Theorem C19_equals_refl : forall m : mapid,
  f_is_finite (mk_gamma m) = true -> f_is_finite (mk_off m) = true -> map_equals m m = true.
Proof. intros m Hg Ho. apply equals_refl. split; assumption. Qed.
Print Assumptions C19_equals_refl.

Theorem C19_within_tolerance_refl : forall x tol : f64,
  f_is_finite x = true -> f_is_finite tol = true -> (0 <= BR tol <= 1)%R ->
  within_tolerance x x tol = true.
Proof. exact within_tolerance_refl. Qed.
Print Assumptions C19_within_tolerance_refl.

(* and only then: a NaN or infinite gamma / offset makes a mapping unequal to itself *)
Theorem C19_equals_refl_iff : forall m : mapid,
  map_equals m m = true <-> f_is_finite (mk_gamma m) = true /\ f_is_finite (mk_off m) = true.
Proof. exact equals_refl_iff. Qed.
Print Assumptions C19_equals_refl_iff.

Theorem C19_equals_nan_gamma : forall a b : mapid, f_is_nan (mk_gamma a) = true -> map_equals a b = false.
Proof. exact equals_nan_gamma. Qed.
Print Assumptions C19_equals_nan_gamma.

(* a finite mapping that went through the wire passes the gate against the original *)
Theorem C19_roundtrip_equals : forall (m : mapid) (rest : list byte),
  mk_kind m = 0%N \/ mk_kind m = 1%N \/ mk_kind m = 3%N ->
  flt f64_one (mk_gamma m) = true ->
  f_is_finite (mk_gamma m) = true /\ f_is_finite (mk_off m) = true ->
  exists f body m', enc_mapping m = f :: body /\ dec_mapping f (body ++ rest) = DOk m' rest /\
                    m' = m /\ map_equals m m' = true /\ map_equals m' m = true.
Proof. exact roundtrip_equals. Qed.
Print Assumptions C19_roundtrip_equals.

(* ================================================================== *)
(* 4. symmetry                                                         *)
(* ================================================================== *)
Theorem C19_within_tolerance_sym : forall x y tol : f64,
  f_is_finite x = true -> f_is_finite y = true ->
  within_tolerance x y tol = within_tolerance y x tol.
Proof. exact within_tolerance_sym. Qed.
Print Assumptions C19_within_tolerance_sym.

Theorem C19_equals_sym : forall a b : mapid,
  f_is_finite (mk_gamma a) = true /\ f_is_finite (mk_off a) = true ->
  f_is_finite (mk_gamma b) = true /\ f_is_finite (mk_off b) = true ->
  map_equals a b = map_equals b a.
Proof. exact equals_sym. Qed.
Print Assumptions C19_equals_sym.

(* the finiteness premises are not needed (infinities and NaNs by cases) *)
Theorem C19_within_tolerance_sym_all : forall x y tol : f64,
  within_tolerance x y tol = within_tolerance y x tol.
Proof. exact within_tolerance_sym_all. Qed.
Print Assumptions C19_within_tolerance_sym_all.

Theorem C19_equals_sym_all : forall a b : mapid, map_equals a b = map_equals b a.
Proof. exact equals_sym_all. Qed.
Print Assumptions C19_equals_sym_all.

(* the comparisons of finite floats depend on the real values only *)
Theorem C19_fle_real : forall a b : f64, f_is_finite a = true -> f_is_finite b = true ->
  fle a b = Rle_bool (BR a) (BR b).
Proof. exact fle_fin. Qed.
Print Assumptions C19_fle_real.

(* ================================================================== *)
(* 5. the gate over the reals                                          *)
(* ================================================================== *)
(* nonzero finite x, y (max not below 2^-900, so that 1e-12 * max is a normal number): the float test
   implies the real inequality with the constant (1 + 1e-15) * 1e-12 *)
Theorem C19_within_tolerance_sound : forall x y : f64,
  f_is_finite x = true -> f_is_finite y = true -> BR x <> 0%R -> BR y <> 0%R ->
  (bpow radix2 (-900) <= Rmax (Rabs (BR x)) (Rabs (BR y)))%R ->
  within_tolerance x y tol12 = true ->
  (Rabs (BR x - BR y) <= (1 + 1 / 10 ^ 15) / 10 ^ 12 * Rmax (Rabs (BR x)) (Rabs (BR y)))%R.
Proof. exact within_tolerance_sound. Qed.
Print Assumptions C19_within_tolerance_sound.

Theorem C19_equals_tolerance_sound : forall a b : mapid,
  f_is_finite (mk_gamma a) = true -> f_is_finite (mk_gamma b) = true ->
  flt f64_one (mk_gamma a) = true -> flt f64_one (mk_gamma b) = true ->
  map_equals a b = true ->
  (Rabs (BR (mk_gamma a) - BR (mk_gamma b)) <= 2 / 10 ^ 12 * Rmax (BR (mk_gamma a)) (BR (mk_gamma b)))%R.
Proof. exact equals_tolerance_sound. Qed.
Print Assumptions C19_equals_tolerance_sound.

(* gammas (> 1) whose real values are more than 1e-9 apart, relatively: never equal — the
   conclusion of C19_sep_log / C19_sep_lin / C19_sep_cub (Props/C19real.v: accuracies 0.1% apart)
   has this shape, for the real gammas of the constructors *)
Theorem C19_equals_separates_float : forall a b : mapid,
  f_is_finite (mk_gamma a) = true -> f_is_finite (mk_gamma b) = true ->
  flt f64_one (mk_gamma a) = true -> flt f64_one (mk_gamma b) = true ->
  (1 / 10 ^ 9 * Rmax (BR (mk_gamma a)) (BR (mk_gamma b)) < Rabs (BR (mk_gamma a) - BR (mk_gamma b)))%R ->
  map_equals a b = false.
Proof. exact equals_separates_float. Qed.
Print Assumptions C19_equals_separates_float.

Theorem C19_within_tolerance_separates : forall x y : f64,
  f_is_finite x = true -> f_is_finite y = true -> BR x <> 0%R -> BR y <> 0%R ->
  (bpow radix2 (-900) <= Rmax (Rabs (BR x)) (Rabs (BR y)))%R ->
  (1 / 10 ^ 9 * Rmax (Rabs (BR x)) (Rabs (BR y)) < Rabs (BR x - BR y))%R ->
  within_tolerance x y tol12 = false.
Proof. exact within_tolerance_separates. Qed.
Print Assumptions C19_within_tolerance_separates.

(* ================================================================== *)
(* examples (vm_compute)                                               *)
(* ================================================================== *)
Local Open Scope N_scope.
(* 4607272490792564818 = 0x3FF051EB851EB852 = 1.02 *)
Definition ex_m (k : N) (gbits obits : N) : mapid :=
  {| mk_kind := k; mk_gamma := f64_of_bits gbits; mk_off := f64_of_bits obits |}.
Definition ex_log102 : mapid := ex_m 0 4607272490792564818 0.
Definition same_bits (a b : mapid) : bool :=
  N.eqb (mk_kind a) (mk_kind b) && N.eqb (bits_of_f64 (mk_gamma a)) (bits_of_f64 (mk_gamma b))
  && N.eqb (bits_of_f64 (mk_off a)) (bits_of_f64 (mk_off b)).
Definition roundtrip_bits (m : mapid) (rest : list byte) : bool :=
  match enc_mapping m with
  | f :: body => match dec_mapping f (body ++ rest) with
                 | DOk m' r => same_bits m m' && (length body =? 16)%nat && (length r =? length rest)%nat
                 | _ => false end
  | [] => false
  end.

Example C19_ex_bytes :
  enc_mapping ex_log102 = [2; 82; 184; 30; 133; 235; 81; 240; 63; 0; 0; 0; 0; 0; 0; 0; 0]%N.
Proof. vm_compute. reflexivity. Qed.
Example C19_ex_decode :
  dec_mapping 2 ([82; 184; 30; 133; 235; 81; 240; 63; 0; 0; 0; 0; 0; 0; 0; 0] ++ [7; 9])%N = DOk ex_log102 [7; 9]%N.
Proof. vm_compute. reflexivity. Qed.
Example C19_ex_roundtrip_kinds :
  roundtrip_bits (ex_m 0 4607272490792564818 0) [1]%N = true /\
  roundtrip_bits (ex_m 1 4607272490792564818 4602678819172646912) [] = true /\      (* offset 0.5 *)
  roundtrip_bits (ex_m 3 4607272490792564818 9223372036854775808) [] = true.        (* offset -0 *)
Proof. vm_compute. repeat split. Qed.
(* NaN offsets keep their payload: quiet 0x7FF8000000000123, signalling 0x7FF0000000000001, negative 0xFFF8000000000000;
   a NaN gamma passes the decoder *)
Example C19_ex_roundtrip_nan :
  roundtrip_bits (ex_m 0 4607272490792564818 9221120237041091875) [] = true /\
  roundtrip_bits (ex_m 1 4607272490792564818 9218868437227405313) [] = true /\
  roundtrip_bits (ex_m 3 4607272490792564818 18444492273895866368) [] = true /\
  roundtrip_bits (ex_m 0 9221120237041090560 0) [] = true.
Proof. vm_compute. repeat split. Qed.
(* quadratic (kind 2) and quartic (kind 4) flags, gamma = 1, truncated payload *)
Example C19_ex_refusals :
  dec_mapping 10 (tl (enc_mapping ex_log102)) = DErr EUnknownMapping /\
  dec_mapping 18 (tl (enc_mapping ex_log102)) = DErr EUnknownMapping /\
  dec_mapping 2 (tl (enc_mapping (ex_m 0 4607182418800017408 0))) = DErr EBadGamma /\
  dec_mapping 2 (firstn 15 (tl (enc_mapping ex_log102))) = DErr EEof /\
  dec_mapping 2 [] = DErr EEof.
Proof. vm_compute. repeat split. Qed.
(* the gate: same mapping; other kind; next float (2.2e-16 apart); 0.9e-12 apart; 1.1e-12 apart;
   1.0200001; gamma of accuracy 0.01 against accuracy 0.01001; offsets 0 / 1e-13 / 2e-12; -0 against 0 *)
Example C19_ex_gate :
  map_equals ex_log102 ex_log102 = true /\
  map_equals ex_log102 (ex_m 1 4607272490792564818 0) = false /\
  map_equals ex_log102 (ex_m 0 4607272490792564819 0) = true /\
  map_equals ex_log102 (ex_m 0 4607272490792568952 0) = true /\
  map_equals ex_log102 (ex_m 0 4607272490792569871 0) = false /\
  map_equals ex_log102 (ex_m 0 4607272491242924781 0) = false /\
  map_equals (ex_m 0 4607273400610671357 0) (ex_m 0 4607273492512418500 0) = false /\
  map_equals ex_log102 (ex_m 0 4607272490792564818 4412443251819771522) = true /\
  map_equals ex_log102 (ex_m 0 4607272490792564818 4431990193862339089) = false /\
  map_equals ex_log102 (ex_m 0 4607272490792564818 9223372036854775808) = true.
Proof. vm_compute. repeat split. Qed.
(* NaN gamma: unequal to itself; infinite offset likewise *)
Example C19_ex_nan_irreflexive :
  map_equals (ex_m 0 9221120237041090560 0) (ex_m 0 9221120237041090560 0) = false /\
  map_equals (ex_m 0 4607272490792564818 9218868437227405312) (ex_m 0 4607272490792564818 9218868437227405312) = false.
Proof. vm_compute. repeat split. Qed.
