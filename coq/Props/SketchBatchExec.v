(* Props/SketchBatchExec — GetValuesAtQuantiles on the EXECUTED sketch (C11/C12 "every quantile answer"): statements only.
   The generic theorems of Props/SketchBatch.v instantiated at the executed single queries
   [plain_quantile rnd fx mt] (all five store kinds) and [sk_quantile rnd fx mt] (exact variant: answer clamped
   into [min, max] of the statistics), proofs in Sketch/SketchBatchExec.v.
   Relation up to which the single query is pure (a paginated store sorts and compacts while answering):
     Rq s s' := SkInv s /\ SkInv s' /\ sk_same s s' /\ sk_abs s' = sk_abs s /\ sk_stats s' = sk_stats s /\ answerable (sk_abs s)
   reflexive only on sketches with the invariant, so the generic theorems are applied over the subset type
   { s | SkInv s /\ answerable (sk_abs s) } and transported back (lift_run).
   Premises: the repaired code (fD4, fD5), [SkInv s], and
     answerable rnd mt (sk_abs s) := forall q, fle 0 q = true -> fle q 1 = true -> a_count (sk_abs s) <> w0 ->
                                     a_quantile rnd (am_of mt) (sk_abs s) (f2q q) <> None
   which is the side condition of Bridge.observers_eq (equal abstractions give equal quantile answers only where
   Layer A answers: when saturating rank arithmetic sends a query to an EMPTY positive store, the executed answer is
   whatever key the empty concrete store hands back).  It holds for an empty sketch, for exact rank arithmetic
   (C12_exec_answerable_exact) and under the premises of Rf_plain_quantile_some (C12_exec_answerable_rounding).
   Errors (EEmpty, EBadQuantile incl. NaN) are covered: the statements are about [snd], whatever the outcome. *)
From Coq Require Import Bool ZArith QArith Qcanon List.
From SK Require Import Base.Prelude Base.F64 Spec.Bins Spec.ASketch Store.Any Stat.Summary
                       Sketch.Sketch Sketch.SketchProofs Sketch.RefineProofs
                       Sketch.SketchBatch Sketch.SketchBatchExec.
Import ListNotations.

(* (1) all answers of a batch are the single answers on the ORIGINAL sketch *)
Theorem C12_exec_batch_answers :
  forall (rnd : Qc -> Qc) (fx : fixes) (mt : mtable), fD4 fx = true -> fD5 fx = true ->
  forall (s : sketch) (qs : list f64) (vs : list Qc),
  SkInv s -> answerable rnd mt (sk_abs s) ->
  snd (quantiles_with (plain_quantile rnd fx mt) s qs) = ROk vs ->
  Forall2 (fun q v => snd (plain_quantile rnd fx mt s q) = ROk v) qs vs.
Proof. exact batch_exec_answers. Qed.
Print Assumptions C12_exec_batch_answers.

(* (2) a refused batch: refused with the error of the first refused single query on the ORIGINAL sketch,
       all those before it answered *)
Theorem C12_exec_batch_refused :
  forall (rnd : Qc -> Qc) (fx : fixes) (mt : mtable), fD4 fx = true -> fD5 fx = true ->
  forall (s : sketch) (qs : list f64) (e : err),
  SkInv s -> answerable rnd mt (sk_abs s) ->
  snd (quantiles_with (plain_quantile rnd fx mt) s qs) = RErr e ->
  exists pre q post, qs = pre ++ q :: post /\ snd (plain_quantile rnd fx mt s q) = RErr e /\
                     Forall (fun q' => exists v, snd (plain_quantile rnd fx mt s q') = ROk v) pre.
Proof. exact batch_exec_refused. Qed.
Print Assumptions C12_exec_batch_refused.

(* the converse: every single query answered => the batch is answered *)
Theorem C12_exec_batch_total :
  forall (rnd : Qc -> Qc) (fx : fixes) (mt : mtable), fD4 fx = true -> fD5 fx = true ->
  forall (s : sketch) (qs : list f64),
  SkInv s -> answerable rnd mt (sk_abs s) ->
  Forall (fun q => exists v, snd (plain_quantile rnd fx mt s q) = ROk v) qs ->
  exists vs, snd (quantiles_with (plain_quantile rnd fx mt) s qs) = ROk vs.
Proof. exact batch_exec_total. Qed.
Print Assumptions C12_exec_batch_total.

(* (3) the sketch handed back: invariant, same mapping and store kinds, same abstraction, same statistics
       (whatever the flags) *)
Theorem C12_exec_batch_keeps :
  forall (rnd : Qc -> Qc) (fx : fixes) (mt : mtable) (s : sketch) (qs : list f64),
  SkInv s -> answerable rnd mt (sk_abs s) ->
  let s' := fst (quantiles_with (plain_quantile rnd fx mt) s qs) in
  SkInv s' /\ sk_same s s' /\ sk_abs s' = sk_abs s /\ sk_stats s' = sk_stats s.
Proof. exact batch_exec_keeps. Qed.
Print Assumptions C12_exec_batch_keeps.

(* never a panic, no premise at all *)
Theorem C12_exec_batch_no_panic :
  forall (rnd : Qc -> Qc) (fx : fixes) (mt : mtable) (s : sketch) (qs : list f64),
  snd (quantiles_with (plain_quantile rnd fx mt) s qs) <> RPanic.
Proof. exact batch_exec_no_panic. Qed.
Print Assumptions C12_exec_batch_no_panic.

(* the exact variant *)
Theorem C12_exec_batch_answers_exact_variant :
  forall (rnd : Qc -> Qc) (fx : fixes) (mt : mtable), fD4 fx = true -> fD5 fx = true ->
  forall (s : sketch) (qs : list f64) (vs : list fval),
  SkInv s -> answerable rnd mt (sk_abs s) ->
  snd (quantiles_with (sk_quantile rnd fx mt) s qs) = ROk vs ->
  Forall2 (fun q v => snd (sk_quantile rnd fx mt s q) = ROk v) qs vs.
Proof. exact batch_exec_answers_sk. Qed.
Print Assumptions C12_exec_batch_answers_exact_variant.

Theorem C12_exec_batch_refused_exact_variant :
  forall (rnd : Qc -> Qc) (fx : fixes) (mt : mtable), fD4 fx = true -> fD5 fx = true ->
  forall (s : sketch) (qs : list f64) (e : err),
  SkInv s -> answerable rnd mt (sk_abs s) ->
  snd (quantiles_with (sk_quantile rnd fx mt) s qs) = RErr e ->
  exists pre q post, qs = pre ++ q :: post /\ snd (sk_quantile rnd fx mt s q) = RErr e /\
                     Forall (fun q' => exists v, snd (sk_quantile rnd fx mt s q') = ROk v) pre.
Proof. exact batch_exec_refused_sk. Qed.
Print Assumptions C12_exec_batch_refused_exact_variant.

Theorem C12_exec_batch_total_exact_variant :
  forall (rnd : Qc -> Qc) (fx : fixes) (mt : mtable), fD4 fx = true -> fD5 fx = true ->
  forall (s : sketch) (qs : list f64),
  SkInv s -> answerable rnd mt (sk_abs s) ->
  Forall (fun q => exists v, snd (sk_quantile rnd fx mt s q) = ROk v) qs ->
  exists vs, snd (quantiles_with (sk_quantile rnd fx mt) s qs) = ROk vs.
Proof. exact batch_exec_total_sk. Qed.
Print Assumptions C12_exec_batch_total_exact_variant.

Theorem C12_exec_batch_keeps_exact_variant :
  forall (rnd : Qc -> Qc) (fx : fixes) (mt : mtable) (s : sketch) (qs : list f64),
  SkInv s -> answerable rnd mt (sk_abs s) ->
  let s' := fst (quantiles_with (sk_quantile rnd fx mt) s qs) in
  SkInv s' /\ sk_same s s' /\ sk_abs s' = sk_abs s /\ sk_stats s' = sk_stats s.
Proof. exact batch_exec_keeps_sk. Qed.
Print Assumptions C12_exec_batch_keeps_exact_variant.

(* the two purity premises of the generic theorems, as proved for the executed query *)
Theorem C12_exec_quantile_keeps :
  forall (rnd : Qc -> Qc) (fx : fixes) (mt : mtable) (s : sketch) (q : f64),
  SkInv s -> answerable rnd mt (sk_abs s) -> Rq rnd mt s (fst (plain_quantile rnd fx mt s q)).
Proof. exact plain_quantile_keeps. Qed.
Print Assumptions C12_exec_quantile_keeps.

Theorem C12_exec_quantile_respects :
  forall (rnd : Qc -> Qc) (fx : fixes) (mt : mtable) (s s' : sketch) (q : f64),
  fD4 fx = true -> fD5 fx = true -> Rq rnd mt s s' ->
  snd (plain_quantile rnd fx mt s q) = snd (plain_quantile rnd fx mt s' q).
Proof. exact plain_quantile_respects. Qed.
Print Assumptions C12_exec_quantile_respects.

Theorem C12_exec_quantile_respects_exact_variant :
  forall (rnd : Qc -> Qc) (fx : fixes) (mt : mtable) (s s' : sketch) (q : f64),
  fD4 fx = true -> fD5 fx = true -> Rq rnd mt s s' ->
  snd (sk_quantile rnd fx mt s q) = snd (sk_quantile rnd fx mt s' q).
Proof. exact sk_quantile_respects. Qed.
Print Assumptions C12_exec_quantile_respects_exact_variant.

(* discharging [answerable] *)
Theorem C12_exec_answerable_empty :
  forall (rnd : Qc -> Qc) (mt : mtable) (a : asketch), a_count a = w0 -> answerable rnd mt a.
Proof. exact answerable_empty. Qed.
Print Assumptions C12_exec_answerable_empty.

Theorem C12_exec_answerable_rounding :
  forall (rnd : Qc -> Qc) (mt : mtable) (s : sketch),
  (forall x y : Qc, (x <= y)%Qc -> (rnd x <= rnd y)%Qc) -> rnd w0 = w0 -> (forall x : Qc, rnd (rnd x) = rnd x) ->
  SkInv s ->
  (plain_count s <> w0 -> (w0 < rnd (plain_count s))%Qc /\ (rnd (wsub (plain_count s) w1) < rnd (plain_count s))%Qc) ->
  answerable rnd mt (sk_abs s).
Proof. exact answerable_of_rnd. Qed.
Print Assumptions C12_exec_answerable_rounding.

Theorem C12_exec_answerable_exact :
  forall (mt : mtable) (s : sketch), SkInv s -> answerable (fun x => x) mt (sk_abs s).
Proof. exact answerable_id. Qed.
Print Assumptions C12_exec_answerable_exact.

(* non-vacuity: a one-bin sparse sketch satisfies the premises; an answered batch, a refused one, an empty sketch *)
Theorem C12_exec_batch_example :
  let rnd := fun x : Qc => x in
  SkInv ex_sk1 /\ answerable rnd ex_mt (sk_abs ex_sk1) /\ fD4 fx_all = true /\ fD5 fx_all = true /\
  snd (quantiles_with (plain_quantile rnd fx_all ex_mt) ex_sk1 [f64_zero; f64_one]) = ROk [w_of_Z 3; w_of_Z 3] /\
  snd (quantiles_with (plain_quantile rnd fx_all ex_mt) ex_sk1 [f64_zero; f64_nan; f64_one]) = RErr EBadQuantile /\
  snd (quantiles_with (plain_quantile rnd fx_all ex_mt) (sk_new ex_mapid KSparse KSparse false) [f64_one]) = RErr EEmpty.
Proof. exact batch_exec_example. Qed.
Print Assumptions C12_exec_batch_example.
