(* Sketch level, second series: statements only.  Every proof is a one-line reference to
   Sketch/SketchProofs2.v.
     C05  quantiles of collapsing sketches (retained-bin accuracy); histories of mixed kinds.
     C12  a_min / a_max of a built sketch are the representatives of the true extremes (clamped for
          collapsing stores); GetSum; the value premises of C12 / C11 restricted to the keys held
          (suffix _on_keys) or to an index interval holding them (suffix _on_range).
     C11  the witness of defect D4 on the Layer B model.
   Layer A results are axiom-free; the I_* theorems and the D4 witness use the binary64 model and
   depend on the four stdlib real-number axioms Flocq brings, nothing else.

   Vocabulary (defined in Sketch/SketchProofs2.v, restated below as checked equations):
     clampk l b k     the key a store of limit l reports for the key k of the exact content b
     retained l b k   k lies in the window [max-n+1, max] / [min, min+n-1] the store keeps
     qsel             what GetValueAtQuantile selects: a negative-store key, the zero bucket, a
                      positive-store key;  a_quantile_sel: a_quantile before the mapping is applied
     repr_c           repr with the key clamped to the retained window
     akey s k         k is a key of the positive or of the negative store of s
     vals_pos_on / vals_nonneg_on / vals_mono_on m s    am_value positive / >= 0 / monotone ON THE KEYS of s
     keys_within s lo hi   every key of s lies in [lo, hi]
     isum l           sum of value * weight (for a list of items: the true weighted sum)
     asum l           sum of |value| * weight;   rsum m l: sum of representative * weight
     aop / astep / arun    Layer A store histories;  abs_run: those of Store/AnyProofs.v *)
From SK Require Import Spec.Bins Spec.BinsProofs Spec.ASketch Sketch.SketchProofs Sketch.RankProofs.
From SK Require Import Sketch.SketchProofs2.
From SK Require Import Store.Any Store.AnyProofs.
From SK Require Import Base.F64 Base.F64Proofs Stat.Summary Sketch.Sketch Sketch.RoundingInstance.
From Coq Require Import Permutation Sorted Qround Qcabs.
Local Open Scope Z_scope.

Example clampk_def l b k :
  clampk l b k = match l with
                 | Exact => k
                 | Lowest n => match max_key b with Some mx => Z.max k (mx - n + 1) | None => k end
                 | Highest n => match min_key b with Some mn => Z.min k (mn + n - 1) | None => k end
                 end := eq_refl.
Example retained_def l b k :
  retained l b k = match l with
                   | Exact => True
                   | Lowest n => forall mx, max_key b = Some mx -> mx - n + 1 <= k
                   | Highest n => forall mn, min_key b = Some mn -> k <= mn + n - 1
                   end := eq_refl.
Example sel_value_def m x :
  sel_value m x = match x with SelNeg k => Qcopp (am_value m k) | SelZero => w0 | SelPos k => am_value m k end
  := eq_refl.
Example a_quantile_sel_def rnd s q :
  a_quantile_sel rnd s q =
  if weqb (a_count s) w0 then None else
  let rank := a_rank rnd s q in
  let negc := total (a_neg s) in
  if wltb rank negc then
    option_map SelNeg (key_at_rank (a_neg s) (rnd (wsub (rnd (wsub negc w1)) rank)))
  else if wltb rank (rnd (wadd (a_zero s) negc)) then Some SelZero
  else option_map SelPos (key_at_rank (a_pos s) (rnd (wsub (rnd (wsub rank (a_zero s))) negc)))
  := eq_refl.
Example clamp_sel_def lp ln s x :
  clamp_sel lp ln s x = match x with
                        | SelNeg k => SelNeg (clampk ln (a_neg s) k)
                        | SelZero => SelZero
                        | SelPos k => SelPos (clampk lp (a_pos s) k)
                        end := eq_refl.
Example sel_retained_def lp ln s x :
  sel_retained lp ln s x = match x with
                           | SelNeg k => retained ln (a_neg s) k
                           | SelZero => True
                           | SelPos k => retained lp (a_pos s) k
                           end := eq_refl.
Example repr_c_def m lp ln s x :
  repr_c m lp ln s x =
  if wleb (Qcabs x) (am_min m) then w0
  else if wltb w0 x then am_value m (clampk lp (a_pos s) (am_index m x))
  else Qcopp (am_value m (clampk ln (a_neg s) (am_index m (Qcopp x)))) := eq_refl.
Example akey_def s k : akey s k = (In k (map fst (a_pos s)) \/ In k (map fst (a_neg s))) := eq_refl.
Example vals_pos_on_def m s : vals_pos_on m s = (forall k, akey s k -> (w0 < am_value m k)%Qc) := eq_refl.
Example vals_nonneg_on_def m s : vals_nonneg_on m s = (forall k, akey s k -> (w0 <= am_value m k)%Qc) := eq_refl.
Example vals_mono_on_def m s :
  vals_mono_on m s = (forall i j, akey s i -> akey s j -> i <= j -> (am_value m i <= am_value m j)%Qc)
  := eq_refl.
Example keys_within_def s lo hi : keys_within s lo hi = (forall k, akey s k -> lo <= k <= hi) := eq_refl.
Example isum_def l : isum l = fold_right (fun vw acc => (fst vw * snd vw + acc)%Qc) w0 l := eq_refl.
Example asum_def l : asum l = fold_right (fun vw acc => (Qcabs (fst vw) * snd vw + acc)%Qc) w0 l := eq_refl.
Example rsum_def m xs : rsum m xs = isum (map (fun a : item => (repr m (fst a), snd a)) xs) := eq_refl.
Example sum_ok_def m a : sum_ok m a = ((am_min m < Qcabs (fst a))%Qc \/ fst a = w0) := eq_refl.
Example aop_ok_def x :
  aop_ok x = match x with
             | AAddW _ c => (w0 <= c)%Qc
             | AMergeL xs => nonneg xs
             | AReweight f => (w0 < f)%Qc
             | AClear => True
             end := eq_refl.
Example astep_def l b x :
  astep l b x = match x with
                | AAddW i c => sadd l b i c
                | AMergeL xs => smerge_list l b xs
                | AReweight f => bscale f b
                | AClear => []
                end := eq_refl.
Example arun_def l b ops : arun l b ops = fold_left (astep l) ops b := eq_refl.

(* ================================================================== *)
(** * C05  collapsing stores: rank lookup, extremes, quantiles         *)
(* ================================================================== *)

(* 1. KeyAtRank of a collapsed store = the clamped KeyAtRank of the exact store, for every rank *)
Theorem C05_key_at_rank_norm l b r :
  limit_ok l -> wf b = true -> pos b ->
  key_at_rank (norm l b) r = option_map (clampk l b) (key_at_rank b r).
Proof. exact (kar_norm l b r). Qed.
Print Assumptions C05_key_at_rank_norm.
Theorem C05_min_key_norm l b :
  limit_ok l -> wf b = true -> pos b -> min_key (norm l b) = option_map (clampk l b) (min_key b).
Proof. exact (min_key_norm l b). Qed.
Print Assumptions C05_min_key_norm.
Theorem C05_max_key_norm l b :
  limit_ok l -> wf b = true -> pos b -> max_key (norm l b) = option_map (clampk l b) (max_key b).
Proof. exact (max_key_norm l b). Qed.
Print Assumptions C05_max_key_norm.
Theorem C05_max_key_clamp_high n b mn mx :
  1 <= n -> wf b = true -> pos b -> min_key b = Some mn -> max_key b = Some mx ->
  max_key (clamp_high n b) = Some (Z.min mx (mn + n - 1)).
Proof. exact (max_key_clamp_high n b mn mx). Qed.
Print Assumptions C05_max_key_clamp_high.
Theorem C05_clampk_retained l b k : retained l b k -> clampk l b k = k.
Proof. exact (clampk_retained l b k). Qed.
Print Assumptions C05_clampk_retained.
Theorem C05_clampk_edge_low n b mx k :
  max_key b = Some mx -> k < mx - n + 1 -> clampk (Lowest n) b k = mx - n + 1.
Proof. exact (clampk_not_retained_low n b mx k). Qed.
Print Assumptions C05_clampk_edge_low.
Theorem C05_clampk_edge_high n b mn k :
  min_key b = Some mn -> mn + n - 1 < k -> clampk (Highest n) b k = mn + n - 1.
Proof. exact (clampk_not_retained_high n b mn k). Qed.
Print Assumptions C05_clampk_edge_high.

(* 2. a_quantile is the value of a selected key; the key is one the sketch holds *)
Theorem C05_quantile_is_value_of_selection rnd m s q :
  a_quantile rnd m s q = option_map (sel_value m) (a_quantile_sel rnd s q).
Proof. exact (a_quantile_sel_value rnd m s q). Qed.
Print Assumptions C05_quantile_is_value_of_selection.
Theorem C05_quantile_selection_is_key rnd s q x :
  a_quantile_sel rnd s q = Some x ->
  match x with
  | SelNeg k => In k (map fst (a_neg s))
  | SelZero => True
  | SelPos k => In k (map fst (a_pos s))
  end.
Proof. exact (a_quantile_sel_key rnd s q x). Qed.
Print Assumptions C05_quantile_selection_is_key.

(* 3. the collapsed sketch selects the clamp of what the exact sketch selects: any rounding operator
   (no premise on it), any q, any pair of limits *)
Theorem C05_collapsing_selection rnd lp ln s q :
  limit_ok lp -> limit_ok ln -> awf s ->
  a_quantile_sel rnd (a_norm lp ln s) q = option_map (clamp_sel lp ln s) (a_quantile_sel rnd s q).
Proof. exact (a_quantile_sel_norm rnd lp ln s q). Qed.
Print Assumptions C05_collapsing_selection.
Theorem C05_collapsing_quantile_clamped rnd m lp ln s q :
  limit_ok lp -> limit_ok ln -> awf s ->
  a_quantile rnd m (a_norm lp ln s) q =
  option_map (fun x => sel_value m (clamp_sel lp ln s x)) (a_quantile_sel rnd s q).
Proof. exact (collapsing_quantile_clamped rnd m lp ln s q). Qed.
Print Assumptions C05_collapsing_quantile_clamped.

(* 4. THE RETAINED-BIN CLAUSE: if the key the exact sketch selects lies in the retained window
   (positive store Lowest n: max - n + 1 <= k; Highest n: k <= min + n - 1; likewise the negative
   store; the zero bucket always), the collapsed sketch gives the same answer *)
Theorem C05_collapsing_quantile_agrees rnd m lp ln s q :
  limit_ok lp -> limit_ok ln -> awf s ->
  (forall x, a_quantile_sel rnd s q = Some x -> sel_retained lp ln s x) ->
  a_quantile rnd m (a_norm lp ln s) q = a_quantile rnd m s q.
Proof. exact (collapsing_quantile_agrees rnd m lp ln s q). Qed.
Print Assumptions C05_collapsing_quantile_agrees.
(* spelled out for a lowest-collapsing positive store *)
Theorem C05_collapsing_quantile_agrees_pos_low rnd m n ln s q k mx :
  1 <= n -> limit_ok ln -> awf s ->
  a_quantile_sel rnd s q = Some (SelPos k) -> max_key (a_pos s) = Some mx -> mx - n + 1 <= k ->
  a_quantile rnd m (a_norm (Lowest n) ln s) q = a_quantile rnd m s q /\
  a_quantile rnd m s q = Some (am_value m k).
Proof.
  intros Hn Ln Hs Hsel Hmx Hk. split.
  - apply collapsing_quantile_agrees; try assumption. intros x Hx. rewrite Hsel in Hx.
    injection Hx as <-. cbn [sel_retained retained]. intros mx' E. rewrite Hmx in E. injection E as <-. exact Hk.
  - rewrite a_quantile_sel_value, Hsel. reflexivity.
Qed.
Print Assumptions C05_collapsing_quantile_agrees_pos_low.

(* 5. the complement: a selection beyond the edge answers the representative of the edge bin *)
Theorem C05_collapsing_quantile_edge_pos_low rnd m n ln s q k mx :
  1 <= n -> limit_ok ln -> awf s ->
  a_quantile_sel rnd s q = Some (SelPos k) -> max_key (a_pos s) = Some mx -> k < mx - n + 1 ->
  a_quantile rnd m (a_norm (Lowest n) ln s) q = Some (am_value m (mx - n + 1)).
Proof. exact (collapsing_quantile_edge_pos_low rnd m n ln s q k mx). Qed.
Print Assumptions C05_collapsing_quantile_edge_pos_low.
Theorem C05_collapsing_quantile_edge_pos_high rnd m n ln s q k mn :
  1 <= n -> limit_ok ln -> awf s ->
  a_quantile_sel rnd s q = Some (SelPos k) -> min_key (a_pos s) = Some mn -> mn + n - 1 < k ->
  a_quantile rnd m (a_norm (Highest n) ln s) q = Some (am_value m (mn + n - 1)).
Proof. exact (collapsing_quantile_edge_pos_high rnd m n ln s q k mn). Qed.
Print Assumptions C05_collapsing_quantile_edge_pos_high.
Theorem C05_collapsing_quantile_edge_neg_low rnd m lp n s q k mx :
  limit_ok lp -> 1 <= n -> awf s ->
  a_quantile_sel rnd s q = Some (SelNeg k) -> max_key (a_neg s) = Some mx -> k < mx - n + 1 ->
  a_quantile rnd m (a_norm lp (Lowest n) s) q = Some (Qcopp (am_value m (mx - n + 1))).
Proof. exact (collapsing_quantile_edge_neg_low rnd m lp n s q k mx). Qed.
Print Assumptions C05_collapsing_quantile_edge_neg_low.
Theorem C05_collapsing_quantile_edge_neg_high rnd m lp n s q k mn :
  limit_ok lp -> 1 <= n -> awf s ->
  a_quantile_sel rnd s q = Some (SelNeg k) -> min_key (a_neg s) = Some mn -> mn + n - 1 < k ->
  a_quantile rnd m (a_norm lp (Highest n) s) q = Some (Qcopp (am_value m (mn + n - 1))).
Proof. exact (collapsing_quantile_edge_neg_high rnd m lp n s q k mn). Qed.
Print Assumptions C05_collapsing_quantile_edge_neg_high.

(* 6. sketches built by adds: the collapsing sketch is the normal form of the exact one, and C01
   carries over for every q whose selection is retained *)
Theorem C05_collapsing_built m lp ln xs s :
  limit_ok lp -> limit_ok ln -> wnonneg xs -> a_add_list m a_new xs = Some s ->
  a_build m lp ln a_new xs = a_norm lp ln s /\ awf s.
Proof. exact (collapsing_built m lp ln xs s). Qed.
Print Assumptions C05_collapsing_built.
Theorem C05_collapsing_quantile_accuracy
  (rnd : Qc -> Qc) (m : amapping) (B : Z) lp ln (xs ys : list Qc) (s : asketch) (q alpha : Qc) :
  (forall x y, (x <= y)%Qc -> (rnd x <= rnd y)%Qc) ->
  (forall z : Z, Z.abs z <= B -> rnd (inj z) = inj z) ->
  (w0 <= am_min m)%Qc ->
  (forall x y, (am_min m < x)%Qc /\ (x <= y)%Qc -> (y <= am_max m)%Qc -> am_index m x <= am_index m y) ->
  limit_ok lp -> limit_ok ln ->
  a_add_list m a_new (map unit_item xs) = Some s ->
  Permutation xs ys -> Sorted Qcle ys -> xs <> [] ->
  Z.of_nat (length xs) <= B -> (w0 <= q)%Qc -> (q <= w1)%Qc ->
  (forall x, (am_min m < x)%Qc -> (x <= am_max m)%Qc ->
             (Qcabs (am_value m (am_index m x) - x) <= alpha * x)%Qc) ->
  (forall x, a_quantile_sel rnd s q = Some x -> sel_retained lp ln s x) ->
  exists (k : nat) (y : Qc),
    (cfloor (q * inj (Z.of_nat (length xs) - 1)) <= Z.of_nat k
     <= cceil (q * inj (Z.of_nat (length xs) - 1))) /\
    (k < length xs)%nat /\
    a_quantile rnd m (a_build m lp ln a_new (map unit_item xs)) q = Some y /\
    (((Qcabs (nth k ys w0) <= am_min m)%Qc /\ y = w0) \/
     (Qcabs (y - nth k ys w0) <= alpha * Qcabs (nth k ys w0))%Qc).
Proof. intros; eapply collapsing_quantile_accuracy; eauto. Qed.
Print Assumptions C05_collapsing_quantile_accuracy.

(* 7. histories: whatever the kinds and limits of the merge arguments, the content of a store of
   limit l is the clamp of the content the same history leaves in an exact store *)
Theorem C05_arun_norm l ops b :
  limit_ok l -> wf b = true -> pos b -> Forall aop_ok ops ->
  arun l (norm l b) ops = norm l (arun Exact b ops).
Proof. exact (arun_norm l ops b). Qed.
Print Assumptions C05_arun_norm.
Theorem C05_arun_is_norm l ops :
  limit_ok l -> Forall aop_ok ops -> arun l [] ops = norm l (arun Exact [] ops).
Proof. exact (arun_is_norm l ops). Qed.
Print Assumptions C05_arun_is_norm.
Theorem C05_arun_exact_canon ops b :
  wf b = true -> pos b -> Forall aop_ok ops -> wf (arun Exact b ops) = true /\ pos (arun Exact b ops).
Proof. exact (arun_exact_canon ops b). Qed.
Print Assumptions C05_arun_exact_canon.
(* ... for the store histories of Props/Refine.v (sop: merge arguments are Layer B stores) *)
Theorem C05_abs_run_norm l ops b :
  limit_ok l -> wf b = true -> pos b -> Forall sop_ok ops ->
  abs_run l (norm l b) ops = norm l (abs_run Exact b ops).
Proof. exact (abs_run_norm l ops b). Qed.
Print Assumptions C05_abs_run_norm.
Theorem C05_abs_run_is_norm l ops :
  limit_ok l -> Forall sop_ok ops -> abs_run l [] ops = norm l (abs_run Exact [] ops).
Proof. exact (abs_run_is_norm l ops). Qed.
Print Assumptions C05_abs_run_is_norm.
(* ... and composed with Rf_st_reachable: every reachable store, executable policies included *)
Theorem C05_reachable_is_norm k ops :
  kind_ok k -> Forall sop_ok ops ->
  exists s, st_run (st_new k) ops = Some s /\ StInv s /\ st_kind s = k /\
            st_abs s = norm (kind_limit k) (abs_run Exact [] ops).
Proof. exact (st_reachable_is_norm k ops). Qed.
Print Assumptions C05_reachable_is_norm.

(* a concrete instance: bins 1 -> 2, 5 -> 3, 7 -> 1; the positive store keeps the 3 highest indexes
   (window [5, 7], edge 5).  q = 1: the exact sketch selects 7, retained, same answer 7;
   q = 0: it selects 1, not retained, the collapsed sketch answers the edge bin 5 *)
Definition exC : asketch :=
  {| a_pos := [(1, w_of_Z 2); (5, w_of_Z 3); (7, w_of_Z 1)]; a_neg := []; a_zero := w0 |}.
Example C05_example_quantile :
  let rnd := fun x : Qc => x in
  limit_ok (Lowest 3) /\ limit_ok Exact /\ awf exC /\
  max_key (a_pos exC) = Some 7 /\
  bins_eqb (a_pos (a_norm (Lowest 3) Exact exC)) [(5, w_of_Z 5); (7, w_of_Z 1)] = true /\
  a_quantile_sel rnd exC w1 = Some (SelPos 7) /\ sel_retained (Lowest 3) Exact exC (SelPos 7) /\
  oq_eqb (a_quantile rnd ex_am (a_norm (Lowest 3) Exact exC) w1) (a_quantile rnd ex_am exC w1) = true /\
  a_quantile_sel rnd exC w0 = Some (SelPos 1) /\ 1 < 7 - 3 + 1 /\
  oq_eqb (a_quantile rnd ex_am exC w0) (Some (w_of_Z 1)) = true /\
  oq_eqb (a_quantile rnd ex_am (a_norm (Lowest 3) Exact exC) w0) (Some (am_value ex_am (7 - 3 + 1))) = true.
Proof.
  cbv zeta. split; [cbn [limit_ok]; lia|]. split; [exact I|].
  split; [apply awfb_awf; vm_compute; reflexivity|]. split; [reflexivity|].
  split; [vm_compute; reflexivity|]. split; [vm_compute; reflexivity|].
  split; [cbn [sel_retained retained]; intros mx E; vm_compute in E; injection E as <-; lia|].
  split; [vm_compute; reflexivity|]. split; [vm_compute; reflexivity|]. split; [lia|].
  split; vm_compute; reflexivity.
Qed.

(* ================================================================== *)
(** * C12  minimum and maximum of a built sketch                       *)
(* ================================================================== *)

(* 8. non-collapsing stores: GetMinValue / GetMaxValue are the representatives of the least / the
   greatest absorbed value (0 when it sits in the zero bucket: repr_def in Props/Rank.v) ... *)
Theorem C12_min_built m xs s a :
  (w0 <= am_min m)%Qc ->
  (forall x y, (am_min m < x)%Qc /\ (x <= y)%Qc -> (y <= am_max m)%Qc -> am_index m x <= am_index m y) ->
  a_add_list m a_new xs = Some s -> wpos xs -> In a xs -> (forall b, In b xs -> (fst a <= fst b)%Qc) ->
  a_min m s = Some (repr m (fst a)).
Proof. intros; eapply min_built; eauto. Qed.
Print Assumptions C12_min_built.
Theorem C12_max_built m xs s a :
  (w0 <= am_min m)%Qc ->
  (forall x y, (am_min m < x)%Qc /\ (x <= y)%Qc -> (y <= am_max m)%Qc -> am_index m x <= am_index m y) ->
  a_add_list m a_new xs = Some s -> wpos xs -> In a xs -> (forall b, In b xs -> (fst b <= fst a)%Qc) ->
  a_max m s = Some (repr m (fst a)).
Proof. intros; eapply max_built; eauto. Qed.
Print Assumptions C12_max_built.
(* ... hence within alpha of the true extremes *)
Theorem C12_min_built_accuracy m xs s a alpha :
  (w0 <= am_min m)%Qc ->
  (forall x y, (am_min m < x)%Qc /\ (x <= y)%Qc -> (y <= am_max m)%Qc -> am_index m x <= am_index m y) ->
  a_add_list m a_new xs = Some s -> wpos xs -> In a xs -> (forall b, In b xs -> (fst a <= fst b)%Qc) ->
  (forall x, (am_min m < x)%Qc -> (x <= am_max m)%Qc ->
             (Qcabs (am_value m (am_index m x) - x) <= alpha * x)%Qc) ->
  exists lo, a_min m s = Some lo /\
    (((Qcabs (fst a) <= am_min m)%Qc /\ lo = w0) \/ (Qcabs (lo - fst a) <= alpha * Qcabs (fst a))%Qc).
Proof. intros; eapply min_built_accuracy; eauto. Qed.
Print Assumptions C12_min_built_accuracy.
Theorem C12_max_built_accuracy m xs s a alpha :
  (w0 <= am_min m)%Qc ->
  (forall x y, (am_min m < x)%Qc /\ (x <= y)%Qc -> (y <= am_max m)%Qc -> am_index m x <= am_index m y) ->
  a_add_list m a_new xs = Some s -> wpos xs -> In a xs -> (forall b, In b xs -> (fst b <= fst a)%Qc) ->
  (forall x, (am_min m < x)%Qc -> (x <= am_max m)%Qc ->
             (Qcabs (am_value m (am_index m x) - x) <= alpha * x)%Qc) ->
  exists hi, a_max m s = Some hi /\
    (((Qcabs (fst a) <= am_min m)%Qc /\ hi = w0) \/ (Qcabs (hi - fst a) <= alpha * Qcabs (fst a))%Qc).
Proof. intros; eapply max_built_accuracy; eauto. Qed.
Print Assumptions C12_max_built_accuracy.

(* 9. collapsing stores: the clamped extreme keys (any awf sketch) ... *)
Theorem C12_min_collapsing m lp ln s :
  limit_ok lp -> limit_ok ln -> awf s ->
  a_min m (a_norm lp ln s) =
  match max_key (a_neg s) with
  | Some k => Some (Qcopp (am_value m (clampk ln (a_neg s) k)))
  | None => if wltb w0 (a_zero s) then Some w0
            else match min_key (a_pos s) with
                 | Some k => Some (am_value m (clampk lp (a_pos s) k)) | None => None end
  end.
Proof. exact (a_min_norm m lp ln s). Qed.
Print Assumptions C12_min_collapsing.
Theorem C12_max_collapsing m lp ln s :
  limit_ok lp -> limit_ok ln -> awf s ->
  a_max m (a_norm lp ln s) =
  match max_key (a_pos s) with
  | Some k => Some (am_value m (clampk lp (a_pos s) k))
  | None => if wltb w0 (a_zero s) then Some w0
            else match min_key (a_neg s) with
                 | Some k => Some (Qcopp (am_value m (clampk ln (a_neg s) k))) | None => None end
  end.
Proof. exact (a_max_norm m lp ln s). Qed.
Print Assumptions C12_max_collapsing.
(* ... for a built sketch: the representative of the true extreme with its key clamped to the
   retained window ([s] = the exact sketch of the same values) ... *)
Theorem C12_min_built_collapsing m lp ln xs s a :
  (w0 <= am_min m)%Qc ->
  (forall x y, (am_min m < x)%Qc /\ (x <= y)%Qc -> (y <= am_max m)%Qc -> am_index m x <= am_index m y) ->
  limit_ok lp -> limit_ok ln ->
  a_add_list m a_new xs = Some s -> wpos xs -> In a xs -> (forall b, In b xs -> (fst a <= fst b)%Qc) ->
  a_min m (a_build m lp ln a_new xs) = Some (repr_c m lp ln s (fst a)).
Proof. intros; eapply min_built_gen; eauto. Qed.
Print Assumptions C12_min_built_collapsing.
Theorem C12_max_built_collapsing m lp ln xs s a :
  (w0 <= am_min m)%Qc ->
  (forall x y, (am_min m < x)%Qc /\ (x <= y)%Qc -> (y <= am_max m)%Qc -> am_index m x <= am_index m y) ->
  limit_ok lp -> limit_ok ln ->
  a_add_list m a_new xs = Some s -> wpos xs -> In a xs -> (forall b, In b xs -> (fst b <= fst a)%Qc) ->
  a_max m (a_build m lp ln a_new xs) = Some (repr_c m lp ln s (fst a)).
Proof. intros; eapply max_built_gen; eauto. Qed.
Print Assumptions C12_max_built_collapsing.
Theorem C12_repr_c_retained m lp ln s x :
  ((am_min m < x)%Qc -> retained lp (a_pos s) (am_index m x)) ->
  ((x < Qcopp (am_min m))%Qc -> retained ln (a_neg s) (am_index m (Qcopp x))) ->
  (w0 <= am_min m)%Qc ->
  repr_c m lp ln s x = repr m x.
Proof. exact (repr_c_retained m lp ln s x). Qed.
Print Assumptions C12_repr_c_retained.
(* ... and the extreme on the side that does not collapse stays exact: lowest-collapsing stores keep a
   positive maximum and a negative minimum, highest-collapsing stores a positive minimum and a
   negative maximum *)
Theorem C12_max_built_lowest m np ln xs s a :
  (w0 <= am_min m)%Qc ->
  (forall x y, (am_min m < x)%Qc /\ (x <= y)%Qc -> (y <= am_max m)%Qc -> am_index m x <= am_index m y) ->
  1 <= np -> limit_ok ln ->
  a_add_list m a_new xs = Some s -> wpos xs -> In a xs -> (forall b, In b xs -> (fst b <= fst a)%Qc) ->
  (am_min m < fst a)%Qc ->
  a_max m (a_build m (Lowest np) ln a_new xs) = Some (repr m (fst a)).
Proof. intros; eapply max_built_lowest; eauto. Qed.
Print Assumptions C12_max_built_lowest.
Theorem C12_min_built_lowest m lp nn xs s a :
  (w0 <= am_min m)%Qc ->
  (forall x y, (am_min m < x)%Qc /\ (x <= y)%Qc -> (y <= am_max m)%Qc -> am_index m x <= am_index m y) ->
  limit_ok lp -> 1 <= nn ->
  a_add_list m a_new xs = Some s -> wpos xs -> In a xs -> (forall b, In b xs -> (fst a <= fst b)%Qc) ->
  (fst a < Qcopp (am_min m))%Qc ->
  a_min m (a_build m lp (Lowest nn) a_new xs) = Some (repr m (fst a)).
Proof. intros; eapply min_built_lowest; eauto. Qed.
Print Assumptions C12_min_built_lowest.
Theorem C12_min_built_highest m np ln xs s a :
  (w0 <= am_min m)%Qc ->
  (forall x y, (am_min m < x)%Qc /\ (x <= y)%Qc -> (y <= am_max m)%Qc -> am_index m x <= am_index m y) ->
  1 <= np -> limit_ok ln ->
  a_add_list m a_new xs = Some s -> wpos xs -> In a xs -> (forall b, In b xs -> (fst a <= fst b)%Qc) ->
  (am_min m < fst a)%Qc ->
  a_min m (a_build m (Highest np) ln a_new xs) = Some (repr m (fst a)).
Proof. intros; eapply min_built_highest; eauto. Qed.
Print Assumptions C12_min_built_highest.
Theorem C12_max_built_highest m lp nn xs s a :
  (w0 <= am_min m)%Qc ->
  (forall x y, (am_min m < x)%Qc /\ (x <= y)%Qc -> (y <= am_max m)%Qc -> am_index m x <= am_index m y) ->
  limit_ok lp -> 1 <= nn ->
  a_add_list m a_new xs = Some s -> wpos xs -> In a xs -> (forall b, In b xs -> (fst b <= fst a)%Qc) ->
  (fst a < Qcopp (am_min m))%Qc ->
  a_max m (a_build m lp (Highest nn) a_new xs) = Some (repr m (fst a)).
Proof. intros; eapply max_built_highest; eauto. Qed.
Print Assumptions C12_max_built_highest.

(* ================================================================== *)
(** * C12  GetSum                                                      *)
(* ================================================================== *)

(* 10. GetSum is the sum over the two stores of Value(key) * weight; the zero bucket contributes 0 *)
Theorem C12_sum_stores m s :
  a_sum m s = (vsum (am_value m) (a_pos s) + vsum (fun k => - am_value m k) (a_neg s))%Qc.
Proof. exact (a_sum_vsum m s). Qed.
Print Assumptions C12_sum_stores.
Example vsum_def g b : vsum g b = fold_right (fun kw acc => (g (fst kw) * snd kw + acc)%Qc) w0 b := eq_refl.
(* of a built sketch: the sum over the input of representative * weight *)
Theorem C12_sum_built m xs s :
  (w0 <= am_min m)%Qc -> a_add_list m a_new xs = Some s -> a_sum m s = rsum m xs.
Proof. intros M0. exact (a_sum_built m M0 xs s). Qed.
Print Assumptions C12_sum_built.
(* any signs: within alpha of the sum of |x_i| w_i (values are beyond the minimum indexable magnitude,
   or exact zeros) *)
Theorem C12_sum_accuracy_abs m alpha xs s :
  (w0 <= am_min m)%Qc ->
  a_add_list m a_new xs = Some s -> wnonneg xs -> (forall a, In a xs -> sum_ok m a) ->
  (forall x, (am_min m < x)%Qc -> (x <= am_max m)%Qc ->
             (Qcabs (am_value m (am_index m x) - x) <= alpha * x)%Qc) ->
  (Qcabs (a_sum m s - isum xs) <= alpha * asum xs)%Qc.
Proof. intros M0. exact (sum_accuracy_abs m M0 alpha xs s). Qed.
Print Assumptions C12_sum_accuracy_abs.
(* same-signed data: within alpha of the true sum *)
Theorem C12_sum_accuracy m alpha xs s :
  (w0 <= am_min m)%Qc ->
  a_add_list m a_new xs = Some s -> wnonneg xs -> (forall a, In a xs -> sum_ok m a) ->
  (forall x, (am_min m < x)%Qc -> (x <= am_max m)%Qc ->
             (Qcabs (am_value m (am_index m x) - x) <= alpha * x)%Qc) ->
  (forall a, In a xs -> (w0 <= fst a)%Qc) \/ (forall a, In a xs -> (fst a <= w0)%Qc) ->
  (Qcabs (a_sum m s - isum xs) <= alpha * Qcabs (isum xs))%Qc.
Proof. intros M0. exact (sum_accuracy m M0 alpha xs s). Qed.
Print Assumptions C12_sum_accuracy.

(* ================================================================== *)
(** * C12 / C11  the value premises on the keys only (W2)              *)
(* ================================================================== *)

(* 11. quantiles: monotone in q, within [a_min, a_max] *)
Theorem C12_quantile_mono_on_keys (rnd : Qc -> Qc) m s q1 q2 y1 y2 :
  (forall x y : Qc, (x <= y)%Qc -> (rnd x <= rnd y)%Qc) -> rnd w0 = w0 ->
  vals_pos_on m s -> vals_mono_on m s ->
  awf s -> (w0 <= q1)%Qc -> (q1 <= q2)%Qc ->
  a_quantile rnd m s q1 = Some y1 -> a_quantile rnd m s q2 = Some y2 -> (y1 <= y2)%Qc.
Proof. intros Hm H0. exact (a_quantile_mono_on_keys rnd m Hm H0 s q1 q2 y1 y2). Qed.
Print Assumptions C12_quantile_mono_on_keys.
Theorem C12_quantile_ge_min_on_keys (rnd : Qc -> Qc) m s q y lo :
  rnd w0 = w0 ->
  vals_pos_on m s -> vals_mono_on m s ->
  awf s -> a_quantile rnd m s q = Some y -> a_min m s = Some lo -> (lo <= y)%Qc.
Proof. intros H0. exact (a_quantile_ge_min_on_keys rnd m H0 s q y lo). Qed.
Print Assumptions C12_quantile_ge_min_on_keys.
Theorem C12_quantile_le_max_on_keys (rnd : Qc -> Qc) m s q y hi :
  (forall x y : Qc, (x <= y)%Qc -> (rnd x <= rnd y)%Qc) -> rnd w0 = w0 ->
  (forall x : Qc, rnd (rnd x) = rnd x) ->
  vals_pos_on m s -> vals_mono_on m s ->
  awf s -> a_quantile rnd m s q = Some y -> a_max m s = Some hi -> (y <= hi)%Qc.
Proof. intros Hm H0 Hi. exact (a_quantile_le_max_on_keys rnd m Hm H0 Hi s q y hi). Qed.
Print Assumptions C12_quantile_le_max_on_keys.
Theorem C12_quantile_bounds_on_keys (rnd : Qc -> Qc) m s q y lo hi :
  (forall x y : Qc, (x <= y)%Qc -> (rnd x <= rnd y)%Qc) -> rnd w0 = w0 ->
  (forall x : Qc, rnd (rnd x) = rnd x) ->
  vals_pos_on m s -> vals_mono_on m s ->
  awf s -> a_quantile rnd m s q = Some y -> a_min m s = Some lo -> a_max m s = Some hi ->
  (lo <= y <= hi)%Qc.
Proof. intros Hm H0 Hi. exact (a_quantile_bounds_on_keys rnd m Hm H0 Hi s q y lo hi). Qed.
Print Assumptions C12_quantile_bounds_on_keys.

(* 12. the same over an index interval [lo, hi] that holds the keys: the form an executed mapping
   satisfies (Value positive and non-decreasing on the index range of the indexable values) *)
Theorem C12_vals_pos_on_range m s lo hi :
  keys_within s lo hi -> (forall i, lo <= i <= hi -> (w0 < am_value m i)%Qc) -> vals_pos_on m s.
Proof. exact (vals_pos_on_range m s lo hi). Qed.
Print Assumptions C12_vals_pos_on_range.
Theorem C12_vals_mono_on_range m s lo hi :
  keys_within s lo hi ->
  (forall i j, lo <= i -> i <= j -> j <= hi -> (am_value m i <= am_value m j)%Qc) -> vals_mono_on m s.
Proof. exact (vals_mono_on_range m s lo hi). Qed.
Print Assumptions C12_vals_mono_on_range.
Theorem C12_vals_pos_nonneg_on m s : vals_pos_on m s -> vals_nonneg_on m s.
Proof. exact (vals_pos_nonneg_on m s). Qed.
Print Assumptions C12_vals_pos_nonneg_on.
Theorem C12_quantile_bounds_on_range (rnd : Qc -> Qc) m lo hi s q y mn mx :
  (forall x y : Qc, (x <= y)%Qc -> (rnd x <= rnd y)%Qc) -> rnd w0 = w0 ->
  (forall x : Qc, rnd (rnd x) = rnd x) ->
  keys_within s lo hi ->
  (forall i, lo <= i <= hi -> (w0 < am_value m i)%Qc) ->
  (forall i j, lo <= i -> i <= j -> j <= hi -> (am_value m i <= am_value m j)%Qc) ->
  awf s -> a_quantile rnd m s q = Some y -> a_min m s = Some mn -> a_max m s = Some mx ->
  (mn <= y <= mx)%Qc.
Proof. exact (a_quantile_bounds_on_range rnd m lo hi s q y mn mx). Qed.
Print Assumptions C12_quantile_bounds_on_range.
Theorem C12_quantile_mono_on_range (rnd : Qc -> Qc) m lo hi s q1 q2 y1 y2 :
  (forall x y : Qc, (x <= y)%Qc -> (rnd x <= rnd y)%Qc) -> rnd w0 = w0 ->
  keys_within s lo hi ->
  (forall i, lo <= i <= hi -> (w0 < am_value m i)%Qc) ->
  (forall i j, lo <= i -> i <= j -> j <= hi -> (am_value m i <= am_value m j)%Qc) ->
  awf s -> (w0 <= q1)%Qc -> (q1 <= q2)%Qc ->
  a_quantile rnd m s q1 = Some y1 -> a_quantile rnd m s q2 = Some y2 -> (y1 <= y2)%Qc.
Proof. exact (a_quantile_mono_on_range rnd m lo hi s q1 q2 y1 y2). Qed.
Print Assumptions C12_quantile_mono_on_range.
(* the keys of a built sketch are indexes of accepted values *)
Theorem C12_built_keys_within m xs s lo hi :
  (w0 <= am_min m)%Qc ->
  (forall x, (am_min m < x)%Qc -> (x <= am_max m)%Qc -> lo <= am_index m x <= hi) ->
  a_add_list m a_new xs = Some s -> wpos xs -> keys_within s lo hi.
Proof. exact (built_keys_within m xs s lo hi). Qed.
Print Assumptions C12_built_keys_within.

(* 13. ForEach / GetSum *)
Theorem C12_items_zero_on_keys m s :
  vals_pos_on m s -> ((exists w, In (w0, w) (a_items m s)) <-> a_zero s <> w0).
Proof. exact (a_items_zero_on_keys m s). Qed.
Print Assumptions C12_items_zero_on_keys.
Theorem C12_items_zero_weight_on_keys m s w :
  vals_pos_on m s -> In (w0, w) (a_items m s) -> w = a_zero s.
Proof. exact (a_items_zero_weight_on_keys m s w). Qed.
Print Assumptions C12_items_zero_weight_on_keys.
Theorem C12_sum_nonneg_on_keys m s :
  vals_nonneg_on m s -> awf s -> a_neg s = [] -> (w0 <= a_sum m s)%Qc.
Proof. exact (a_sum_nonneg_on_keys m s). Qed.
Print Assumptions C12_sum_nonneg_on_keys.
Theorem C12_sum_nonpos_on_keys m s :
  vals_nonneg_on m s -> awf s -> a_pos s = [] -> (a_sum m s <= w0)%Qc.
Proof. exact (a_sum_nonpos_on_keys m s). Qed.
Print Assumptions C12_sum_nonpos_on_keys.

(* 14. C11: absorbed values and weighted quantiles between a_min and a_max *)
Theorem C11_absorbed_between_min_max_on_keys (m : amapping) (xs : list item) (s : asketch) (a : item) :
  (w0 <= am_min m)%Qc ->
  vals_mono_on m s -> vals_nonneg_on m s ->
  a_add_list m a_new xs = Some s -> wpos xs -> In a xs ->
  exists lo hi, a_min m s = Some lo /\ a_max m s = Some hi /\
    (lo <= repr m (fst a))%Qc /\ (repr m (fst a) <= hi)%Qc.
Proof. intros M0. exact (absorbed_between_min_max_on_keys m M0 xs s a). Qed.
Print Assumptions C11_absorbed_between_min_max_on_keys.
Theorem C11_weighted_quantile_between_on_keys
  (m : amapping) (xs ys : list item) (s : asketch) (q : Qc) :
  (w0 <= am_min m)%Qc ->
  (forall x y, (am_min m < x)%Qc /\ (x <= y)%Qc -> (y <= am_max m)%Qc -> am_index m x <= am_index m y) ->
  vals_mono_on m s -> vals_nonneg_on m s ->
  a_add_list m a_new xs = Some s ->
  Permutation xs ys -> StronglySorted vle ys -> wpos ys -> ys <> [] -> (w0 <= q)%Qc -> (q <= w1)%Qc ->
  exists lo hi y, a_min m s = Some lo /\ a_max m s = Some hi /\
    a_quantile idr m s q = Some y /\ (lo <= y)%Qc /\ (y <= hi)%Qc.
Proof. intros; eapply weighted_quantile_between_on_keys; eauto. Qed.
Print Assumptions C11_weighted_quantile_between_on_keys.

(* 15. the executed rounding operator (binary64, round to nearest even): no premise on it *)
Theorem I_C12_quantile_mono_rndQ_on_keys m s q1 q2 y1 y2 :
  vals_pos_on m s -> vals_mono_on m s ->
  awf s -> (w0 <= q1)%Qc -> (q1 <= q2)%Qc ->
  a_quantile rndQ m s q1 = Some y1 -> a_quantile rndQ m s q2 = Some y2 -> (y1 <= y2)%Qc.
Proof. exact (quantile_mono_rndQ_on_keys m s q1 q2 y1 y2). Qed.
Print Assumptions I_C12_quantile_mono_rndQ_on_keys.
Theorem I_C12_quantile_bounds_rndQ_on_keys m s q y lo hi :
  vals_pos_on m s -> vals_mono_on m s ->
  awf s -> a_quantile rndQ m s q = Some y -> a_min m s = Some lo -> a_max m s = Some hi ->
  (lo <= y <= hi)%Qc.
Proof. exact (quantile_bounds_rndQ_on_keys m s q y lo hi). Qed.
Print Assumptions I_C12_quantile_bounds_rndQ_on_keys.
Theorem I_C12_quantile_mono_rnd64_on_keys m s q1 q2 y1 y2 :
  vals_pos_on m s -> vals_mono_on m s ->
  awf s -> dy_sketch s -> small s -> dyadic q1 -> dyadic q2 ->
  (w0 <= q1)%Qc -> (q1 <= q2)%Qc -> (q2 <= w1)%Qc ->
  a_quantile rnd64 m s q1 = Some y1 -> a_quantile rnd64 m s q2 = Some y2 -> (y1 <= y2)%Qc.
Proof. exact (quantile_mono_rnd64_on_keys m s q1 q2 y1 y2). Qed.
Print Assumptions I_C12_quantile_mono_rnd64_on_keys.
Theorem I_C12_quantile_bounds_rnd64_on_keys m s q y lo hi :
  vals_pos_on m s -> vals_mono_on m s ->
  awf s -> dy_sketch s -> small s -> dyadic q -> (w0 <= q)%Qc -> (q <= w1)%Qc ->
  a_quantile rnd64 m s q = Some y -> a_min m s = Some lo -> a_max m s = Some hi ->
  (lo <= y <= hi)%Qc.
Proof. exact (quantile_bounds_rnd64_on_keys m s q y lo hi). Qed.
Print Assumptions I_C12_quantile_bounds_rnd64_on_keys.

(* 16. a mapping table defined on the finite index range [1, 100] only: Value(i) = i inside, 0 outside
   (what f2q makes of an underflowed or infinite Value).  The premises of Props/Sketch.v
   (C12_quantile_bounds: all of Z) are FALSE for it, those of the _on_keys / _on_range theorems hold
   for the sketch exA (keys 1, 5, 2), and the conclusion is observed *)
Definition tbl_am : amapping :=
  {| am_index := fun v => Qnum (this v) / Zpos (Qden (this v));
     am_value := fun i => if (1 <=? i) && (i <=? 100) then w_of_Z i else w0;
     am_min := Q2Qc (1 # 2); am_max := w_of_Z 100 |}.
Definition exA2 : asketch :=
  {| a_pos := [(1, w_of_Z 2); (5, w_of_Z 3)]; a_neg := [(2, w_of_Z 1)]; a_zero := Q2Qc (1 # 2) |}.
Example tbl_am_not_pos : ~ (forall i, (w0 < am_value tbl_am i)%Qc).
Proof. intros H. specialize (H 0). vm_compute in H. discriminate. Qed.
Example tbl_am_not_mono : ~ (forall i j, i <= j -> (am_value tbl_am i <= am_value tbl_am j)%Qc).
Proof. intros H. specialize (H 100 101 ltac:(lia)). vm_compute in H. apply H. reflexivity. Qed.
Example tbl_am_pos_range i : 1 <= i <= 100 -> (w0 < am_value tbl_am i)%Qc.
Proof.
  intros Hi. cbn [am_value tbl_am].
  destruct (Z.leb_spec 1 i); [|lia]. destruct (Z.leb_spec i 100); [|lia]. cbn [andb].
  apply w_of_Z_pos. lia.
Qed.
Example tbl_am_mono_range i j : 1 <= i -> i <= j -> j <= 100 -> (am_value tbl_am i <= am_value tbl_am j)%Qc.
Proof.
  intros H1 H2 H3. cbn [am_value tbl_am].
  destruct (Z.leb_spec 1 i); [|lia]. destruct (Z.leb_spec i 100); [|lia].
  destruct (Z.leb_spec 1 j); [|lia]. destruct (Z.leb_spec j 100); [|lia]. cbn [andb].
  apply w_of_Z_le. exact H2.
Qed.
Example exA2_keys_within : keys_within exA2 1 100.
Proof.
  intros k [Hk|Hk]; cbn [exA2 a_pos a_neg map fst In] in Hk; repeat (destruct Hk as [<-|Hk]; [lia|]);
    contradiction.
Qed.
Example C12_example_on_keys :
  let rnd := fun x : Qc => x in
  vals_pos_on tbl_am exA2 /\ vals_mono_on tbl_am exA2 /\ awf exA2 /\
  oq_eqb (a_min tbl_am exA2) (Some (Qcopp (w_of_Z 2))) = true /\
  oq_eqb (a_max tbl_am exA2) (Some (w_of_Z 5)) = true /\
  oq_eqb (a_quantile rnd tbl_am exA2 w0) (Some (Qcopp (w_of_Z 2))) = true /\
  oq_eqb (a_quantile rnd tbl_am exA2 (Q2Qc (1 # 2))) (Some (w_of_Z 1)) = true /\
  oq_eqb (a_quantile rnd tbl_am exA2 w1) (Some (w_of_Z 5)) = true.
Proof.
  cbv zeta.
  split; [exact (vals_pos_on_range tbl_am exA2 1 100 exA2_keys_within tbl_am_pos_range)|].
  split; [exact (vals_mono_on_range tbl_am exA2 1 100 exA2_keys_within tbl_am_mono_range)|].
  split; [apply awfb_awf; vm_compute; reflexivity|].
  repeat split; vm_compute; reflexivity.
Qed.

(* 17. the premises of the min / max / sum theorems are satisfiable: bins (k-1, k] represented by
   their upper edge, indexable range (1, 1000]: relative accuracy alpha = 1 *)
Definition ex2_m : amapping :=
  {| am_index := cceil; am_value := inj; am_min := inj 1; am_max := inj 1000 |}.
Example ex2_min0 : (w0 <= am_min ex2_m)%Qc.
Proof. apply wleb_le. vm_compute. reflexivity. Qed.
Example ex2_idx_mono x y :
  (am_min ex2_m < x)%Qc /\ (x <= y)%Qc -> (y <= am_max ex2_m)%Qc -> am_index ex2_m x <= am_index ex2_m y.
Proof.
  intros [_ Hxy] _. cbn [am_index ex2_m]. apply cceil_spec.
  eapply Qcle_trans; [exact Hxy|apply cceil_ge].
Qed.
Example ex2_accuracy x :
  (am_min ex2_m < x)%Qc -> (x <= am_max ex2_m)%Qc ->
  (Qcabs (am_value ex2_m (am_index ex2_m x) - x) <= w1 * x)%Qc.
Proof.
  intros H1 _. cbn [am_index am_value am_min ex2_m] in *.
  pose proof (cceil_ge x) as Hge. pose proof (cceil_lt x) as Hlt.
  rewrite RankProofs.inj_minus in Hlt. rewrite Qcabs_pos by RankProofs.qlra.
  change (inj 1) with w1 in *. RankProofs.qlra.
Qed.
(* values 3, -2, 7/2, 1/2 with weights 1, 1/4, 2, 1/3: the least is -2 (bin 2 of the negative store),
   the greatest 7/2 (bin 4), 1/2 sits in the zero bucket *)
Definition ex2_xs : list item :=
  [(inj 3, w1); (inj (-2), Q2Qc (1 # 4)); (Q2Qc (7 # 2), inj 2); (Q2Qc (1 # 2), Q2Qc (1 # 3))].
Example C12_example_min_max :
  wpos ex2_xs /\
  (forall b, In b ex2_xs -> (inj (-2) <= fst b)%Qc) /\ (forall b, In b ex2_xs -> (fst b <= Q2Qc (7 # 2))%Qc) /\
  match a_add_list ex2_m a_new ex2_xs with
  | Some s => oq_eqb (a_min ex2_m s) (Some (repr ex2_m (inj (-2)))) &&
              oq_eqb (a_max ex2_m s) (Some (repr ex2_m (Q2Qc (7 # 2)))) &&
              oq_eqb (a_min ex2_m s) (Some (inj (-2))) && oq_eqb (a_max ex2_m s) (Some (inj 4)) &&
              (* lowest-collapsing positive store of 1 bin: the maximum is still exact, the positive
                 minimum would be the edge *)
              oq_eqb (a_max ex2_m (a_build ex2_m (Lowest 1) (Lowest 1) a_new ex2_xs)) (Some (inj 4))
  | None => false
  end = true.
Proof.
  split; [apply Forall_forall; intros b Hb; cbn [ex2_xs In] in Hb;
          repeat (destruct Hb as [<-|Hb]; [apply wltb_lt; vm_compute; reflexivity|]); contradiction|].
  split; [intros b Hb; cbn [ex2_xs In] in Hb;
          repeat (destruct Hb as [<-|Hb]; [apply wleb_le; vm_compute; reflexivity|]); contradiction|].
  split; [intros b Hb; cbn [ex2_xs In] in Hb;
          repeat (destruct Hb as [<-|Hb]; [apply wleb_le; vm_compute; reflexivity|]); contradiction|].
  vm_compute. reflexivity.
Qed.
(* non-negative data 3, 7/2, 0 with weights 1/2, 2, 5: true sum 17/2, GetSum 3/2 + 8 = 19/2 *)
Definition ex2_pos : list item := [(inj 3, Q2Qc (1 # 2)); (Q2Qc (7 # 2), inj 2); (w0, inj 5)].
Example C12_example_sum :
  wnonneg ex2_pos /\ (forall a, In a ex2_pos -> sum_ok ex2_m a) /\
  (forall a, In a ex2_pos -> (w0 <= fst a)%Qc) /\
  weqb (isum ex2_pos) (Q2Qc (17 # 2)) = true /\
  match a_add_list ex2_m a_new ex2_pos with
  | Some s => weqb (a_sum ex2_m s) (Q2Qc (19 # 2)) &&
              wleb (Qcabs (a_sum ex2_m s - isum ex2_pos)%Qc) (w1 * Qcabs (isum ex2_pos))%Qc
  | None => false
  end = true.
Proof.
  split; [apply Forall_forall; intros b Hb; cbn [ex2_pos In] in Hb;
          repeat (destruct Hb as [<-|Hb]; [apply wleb_le; vm_compute; reflexivity|]); contradiction|].
  split; [intros b Hb; cbn [ex2_pos In] in Hb; destruct Hb as [<-|[<-|[<-|[]]]];
          [left; apply wltb_lt; vm_compute; reflexivity|left; apply wltb_lt; vm_compute; reflexivity|
           right; reflexivity]|].
  split; [intros b Hb; cbn [ex2_pos In] in Hb;
          repeat (destruct Hb as [<-|Hb]; [apply wleb_le; vm_compute; reflexivity|]); contradiction|].
  split; vm_compute; reflexivity.
Qed.

(* a history with a merge argument of another limit (its content is collapsed to 2 bins): on a store
   keeping the 2 lowest indexes the result is the clamp of the exact result *)
Example C05_example_history :
  let ops := [AAddW 3 w1; AMergeL (norm (Lowest 2) [(1, w1); (6, w1); (9, w_of_Z 2)]);
              AReweight (w_of_Z 3); AAddW 1 (Q2Qc (1 # 2))] in
  limit_ok (Highest 2) /\ Forall aop_ok ops /\
  bins_eqb (arun Exact [] ops) [(1, Q2Qc (1 # 2)); (3, w_of_Z 3); (8, w_of_Z 6); (9, w_of_Z 6)] = true /\
  bins_eqb (arun (Highest 2) [] ops) [(1, Q2Qc (1 # 2)); (2, w_of_Z 15)] = true /\
  bins_eqb (arun (Highest 2) [] ops) (norm (Highest 2) (arun Exact [] ops)) = true.
Proof.
  cbv zeta. split; [cbn [limit_ok]; lia|]. split.
  - repeat constructor; cbn [aop_ok]; try (apply wleb_le; vm_compute; reflexivity);
      try (apply wltb_lt; vm_compute; reflexivity).
  - repeat split; vm_compute; reflexivity.
Qed.

(* ================================================================== *)
(** * C11  the legacy rank computation (defect D4)                     *)
(* ================================================================== *)
Example fx_noD4_def : fx_noD4 = {| fD4 := false; fD5 := true; fD7 := true |} := eq_refl.
(* a sketch holding the single value 5 with weight 1/2 (W < 1): before the repair the negative rank
   q*(W-1) sent the query to the EMPTY negative store and the answer was -Value(0) = -1, outside
   [min, max] = [5, 5]; with binary64 rounding as executed and with exact arithmetic alike *)
Theorem C11_weighted_quantile_refuted_legacy :
  exists (mt : mtable) (s : sketch) (q : f64),
    q_in_range q = true /\
    plain_count s = Q2Qc (1 # 2) /\
    st_abs (sk_pos s) = [(5, Q2Qc (1 # 2))] /\ st_abs (sk_neg s) = [] /\ sk_zero s = w0 /\
    plain_min mt s = ROk (w_of_Z 5) /\ plain_max mt s = ROk (w_of_Z 5) /\
    snd (plain_quantile rnd64 fx_noD4 mt s q) = ROk (Qcopp (w_of_Z 1)) /\
    snd (plain_quantile rnd64 fx_all mt s q) = ROk (w_of_Z 5) /\
    snd (plain_quantile (fun x => x) fx_noD4 mt s q) = ROk (Qcopp (w_of_Z 1)) /\
    snd (plain_quantile (fun x => x) fx_all mt s q) = ROk (w_of_Z 5).
Proof. exact weighted_quantile_refuted_legacy. Qed.
Print Assumptions C11_weighted_quantile_refuted_legacy.
