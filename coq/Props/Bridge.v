(* Props/Bridge — the bridges between the proof layers: final statements only; every proof is a
   reference to Sketch/BridgeProofs.v.  Every result depends on the four stdlib real-number axioms
   Flocq brings (ClassicalDedekindReals.sig_forall_dec, sig_not_dec, FunctionalExtensionality.
   functional_extensionality_dep, Classical_Prop.classic) and on nothing else.

   A. [mt_of_gmap L g]: the mapping table ([mtable], Sketch/Sketch.v) of the executed sketch built
      from the bit-exact float model of the index mappings ([gmap] over the oracle record [libm],
      Mapping/Glue.v); it is what model/driver.ml checks the implementation's observed
      Index / Value / Min / MaxIndexableValue against.  Its index is an int32 and non-decreasing on
      the indexable range: for the linear and cubic mappings with no premise on the oracle (from
      G_lin_index_mono_bounded / G_cub_index_mono_bounded), for the logarithmic mapping when math.Log
      is monotone and bounded (G_log_index_mono_bounded).
   B. C01 on the EXECUTED functions with the EXECUTED (binary64) rank arithmetic: plain_add_units
      then plain_quantile rnd64 answers within alpha of an order statistic.  Composition of
      Rf_plain_add (through plain_add_units), Rf_plain_quantile and
      I_C01_quantile_selects_order_statistic_rnd64_f2q.
      WHAT IS NOT DISCHARGED (the libm accuracy gap): the alpha-accuracy of Value(Index(|v|)) with
      respect to |v|.  It stays an explicit premise, asked only at the magnitudes of the values
      that were added, and stated on the float functions gm_value / gm_index of the glue model.
   C. C02 on Layer B: any tree of sk_merge over sketches built by adds (the receiver of any kind,
      collapsing included; every other leaf over any mix of non-collapsing stores) equals the flat
      sketch that received all the adds: same abstraction, same observers.  Composition of
      Rf_sketch_history_refines, Rf_sk_merge, C02_merge_tree, C02_merge_norm, C02_build_norm.
   D. constructor facts of the glue model (C13 / C19).

   Why the premises of A/B are float-level.  Rf_executable_* and I_C01_* ask for "index int32 /
   monotone at EVERY rational of (Min, Max]".  A table that goes through q2f cannot offer that
   outside the binary64 values (q2f of a non-dyadic rational is a double rounding).  The executed
   sketch only passes binary64 values to its table, so the proofs replace the table by
   [snap_mt mt] (index of the rational rounded UP to binary64, [rupQ], a specification operator like
   rndQ): Bridge_snapped_table shows that it satisfies the all-rationals premises as soon as [mt]
   satisfies them on binary64 values, and that plain_add / plain_quantile / repr at binary64 values
   cannot tell the difference.

   Reading aid (notations local to this file):
     finite x   is_finite 53 1024 x = true        val x   B2R 53 1024 x
     normal_pos x   finite x /\ 2^-1022 <= val x *)
From Coq Require Import Bool NArith ZArith QArith Qcanon Qcabs Reals List Permutation Sorted.
From Flocq Require Import Core.Core IEEE754.BinarySingleNaN IEEE754.Binary IEEE754.Bits.
From SK Require Import Base.Prelude Base.F64 Base.F64Proofs Mapping.Glue Mapping.GlueProofs.
From SK Require Import Spec.Bins Spec.BinsProofs Spec.ASketch Store.Any Store.AnyProofs Stat.Summary
                       Sketch.Sketch Sketch.SketchProofs Sketch.RankProofs Sketch.RefineProofs
                       Sketch.RoundingInstance Sketch.BridgeProofs.
Import ListNotations.
Local Open Scope Z_scope.

Local Notation finite x := (is_finite 53 1024 x = true).
Local Notation val x := (B2R 53 1024 x).
Local Notation normal_pos x := (is_finite 53 1024 x = true /\ Rle (bpow radix2 (-1022)) (B2R 53 1024 x)).

(* ---------------- vocabulary ---------------- *)
Example mt_of_gmap_def L g :
  mt_of_gmap L g = {| mt_index := fun q => gm_index L g (q2f q); mt_value := fun i => f2q (gm_value L g i);
                      mt_min := gm_min g; mt_max := gm_max g |} := eq_refl.
Example mt_fok_def mt :
  mt_fok mt = (f_is_finite (mt_min mt) = true /\ f_is_finite (mt_max mt) = true /\ (w0 <= f2q (mt_min mt))%Qc /\
               forall u : f64, f_is_finite u = true -> (f2q (mt_min mt) < f2q u)%Qc -> (f2q u <= f2q (mt_max mt))%Qc ->
                               idx_ok (mt_index mt (f2q u))) := eq_refl.
Example mt_fmono_def mt :
  mt_fmono mt = (forall u w : f64, f_is_finite u = true -> f_is_finite w = true ->
                 (f2q (mt_min mt) < f2q u)%Qc -> (f2q u <= f2q w)%Qc -> (f2q w <= f2q (mt_max mt))%Qc ->
                 mt_index mt (f2q u) <= mt_index mt (f2q w)) := eq_refl.
Example snap_mt_def mt :
  snap_mt mt = {| mt_index := fun q => mt_index mt (rupQ q); mt_value := mt_value mt;
                  mt_min := mt_min mt; mt_max := mt_max mt |} := eq_refl.
Example gm_index_good_def L g :
  gm_index_good L g =
  ((forall x : f64, normal_pos x -> idx_ok (gm_index L g x)) /\
   (forall x y : f64, normal_pos x -> normal_pos y -> (val x <= val y)%R -> gm_index L g x <= gm_index L g y))
  := eq_refl.
Example gm_small_def g :
  gm_small g = (finite (gm_mult g) /\ finite (gm_off g) /\ (0 <= val (gm_mult g) <= bpow radix2 20)%R /\
                (Rabs (val (gm_off g)) <= bpow radix2 20)%R) := eq_refl.
Example gm_range_ok_def g :
  gm_range_ok g = (finite (gm_min g) /\ finite (gm_max g) /\ (bpow radix2 (-1022) <= val (gm_min g))%R) := eq_refl.
Example log_monotone_def L :
  log_monotone L = (forall a b : f64, finite a -> finite b -> (0 < val a)%R -> (val a <= val b)%R ->
                                      (val (l_log L a) <= val (l_log L b))%R) := eq_refl.
Example log_bounded_def L :
  log_bounded L = (forall a : f64, finite a -> (0 < val a)%R ->
                                   finite (l_log L a) /\ (Rabs (val (l_log L a)) <= 1026)%R) := eq_refl.
Example gm_checkb_def g :
  gm_checkb g =
  (f_is_finite (gm_mult g) && f_is_finite (gm_off g) && f_is_finite (gm_min g) && f_is_finite (gm_max g) &&
   fle f64_zero (gm_mult g) && fle (gm_mult g) c_2p20 && fle (fabs (gm_off g)) c_2p20 &&
   fle c_min_normal (gm_min g)) := eq_refl.
Example c_2p20_value : finite c_2p20 /\ val c_2p20 = bpow radix2 20.
Proof. exact (conj c_2p20_fin c_2p20_BR). Qed.
Example acc_gamma_def L k a :
  acc_gamma L k a =
  match k with MLog => fdiv (fadd f64_one a) (fsub f64_one a)
             | MLin => l_pow L (fdiv (fadd f64_one a) (fsub f64_one a)) c_ln2
             | MCub => l_pow L (fdiv (fadd f64_one a) (fsub f64_one a)) c_10ln2_7 end := eq_refl.
Example acc_off_def L k a :
  acc_off L k a = match k with MLin => fdiv f64_one (l_log2 L (acc_gamma L k a)) | _ => f64_zero end := eq_refl.
Example kadds_def l : kadds l = map (fun vc => KAdd (fst vc) (snd vc)) l := eq_refl.
Example q_adds_def l : q_adds l = map (fun vc : f64 * f64 => (f2q (fst vc), f2q (snd vc))) l := eq_refl.
Example b_adds_def t :
  b_adds t = match t with BLeaf _ _ _ l => l | BNode t1 t2 => b_adds t1 ++ b_adds t2 end.
Proof. destruct t; reflexivity. Qed.
Example b_first_def t :
  b_first t = match t with BLeaf kp kn e _ => (kp, kn, e) | BNode t1 _ => b_first t1 end.
Proof. destruct t; reflexivity. Qed.
Example b_eval_def rnd fx mt m t :
  b_eval rnd fx mt m t =
  match t with
  | BLeaf kp kn e l => sk_run rnd fx mt (sk_new m kp kn e) (kadds l)
  | BNode t1 t2 =>
    match b_eval rnd fx mt m t1, b_eval rnd fx mt m t2 with
    | Some s1, Some s2 => match sk_merge s1 s2 with ROk (s', _) => Some s' | _ => None end
    | _, _ => None
    end
  end.
Proof. destruct t; reflexivity. Qed.
Example adds_ok_def l :
  adds_ok l = Forall (fun vc : f64 * f64 => f_is_finite (fst vc) = true /\ f_is_finite (snd vc) = true /\
                                            (w0 <= f2q (snd vc))%Qc) l := eq_refl.
Example b_exact_def t :
  b_exact t = match t with
              | BLeaf kp kn _ l => kind_limit kp = Exact /\ kind_limit kn = Exact /\ adds_ok l
              | BNode t1 t2 => b_exact t1 /\ b_exact t2 end.
Proof. destruct t; reflexivity. Qed.
Example b_ok_def t :
  b_ok t = match t with
           | BLeaf kp kn _ l => kind_ok kp /\ kind_ok kn /\ adds_ok l
           | BNode t1 t2 => b_ok t1 /\ b_exact t2 end.
Proof. destruct t; reflexivity. Qed.

(* ================================================================== *)
(* A. the mapping table of the glue model                              *)
(* ================================================================== *)
(* on a finite non-zero float the table's Index is the glue model's Index (q2f (f2q u) = u) *)
Theorem Bridge_q2f_f2q (u : f64) : finite u -> val u <> 0%R -> q2f (f2q u) = u.
Proof. exact (q2f_f2q u). Qed.
Print Assumptions Bridge_q2f_f2q.
Theorem Bridge_table_index (L : libm) (g : gmap) (u : f64) :
  finite u -> val u <> 0%R -> mt_index (mt_of_gmap L g) (f2q u) = gm_index L g u.
Proof. exact (mt_of_gmap_index L g u). Qed.
Print Assumptions Bridge_table_index.

(* Index is an int32 whatever the "approximate logarithm" al is, as long as |al| <= 1026,
   |multiplier| <= 2^20, |indexOffset| <= 2^20 *)
Theorem Bridge_index_int32 (al mult off : f64) :
  finite al -> finite mult -> finite off ->
  (Rabs (val al) <= 1026)%R -> (Rabs (val mult) <= bpow radix2 20)%R -> (Rabs (val off) <= bpow radix2 20)%R ->
  idx_ok (if fle f64_zero (fadd (fmul al mult) off) then int_of_f (fadd (fmul al mult) off)
          else int_of_f (fadd (fmul al mult) off) - 1).
Proof. exact (index_of_int32 al mult off). Qed.
Print Assumptions Bridge_index_int32.

(* linear and cubic mappings: NO premise on the oracle *)
Theorem Bridge_index_good_lin (L : libm) (g : gmap) : gm_kind g = MLin -> gm_small g -> gm_index_good L g.
Proof. exact (gm_index_good_lin L g). Qed.
Print Assumptions Bridge_index_good_lin.
Theorem Bridge_index_good_cub (L : libm) (g : gmap) : gm_kind g = MCub -> gm_small g -> gm_index_good L g.
Proof. exact (gm_index_good_cub L g). Qed.
Print Assumptions Bridge_index_good_cub.
(* logarithmic mapping: relative to a monotone, bounded math.Log *)
Theorem Bridge_index_good_log (L : libm) (g : gmap) :
  gm_kind g = MLog -> gm_small g -> log_monotone L -> log_bounded L -> gm_index_good L g.
Proof. exact (gm_index_good_log L g). Qed.
Print Assumptions Bridge_index_good_log.

(* the float-level premises of B hold for the table of the glue model *)
Theorem Bridge_gmap_table_ok (L : libm) (g : gmap) :
  gm_range_ok g -> gm_index_good L g -> mt_fok (mt_of_gmap L g) /\ mt_fmono (mt_of_gmap L g).
Proof. exact (gmap_table_ok L g). Qed.
Print Assumptions Bridge_gmap_table_ok.
(* the same from premises on the indexable range only (what a constructor with a large multiplier,
   whose index range is cut by the int32 bounds, can offer) *)
Theorem Bridge_gmap_fok (L : libm) (g : gmap) :
  finite (gm_min g) -> finite (gm_max g) -> (0 <= val (gm_min g))%R ->
  (forall u : f64, finite u -> (val (gm_min g) < val u)%R -> (val u <= val (gm_max g))%R -> idx_ok (gm_index L g u)) ->
  mt_fok (mt_of_gmap L g).
Proof. exact (gmap_fok L g). Qed.
Print Assumptions Bridge_gmap_fok.
Theorem Bridge_gmap_fmono (L : libm) (g : gmap) :
  finite (gm_min g) -> finite (gm_max g) -> (0 <= val (gm_min g))%R ->
  (forall u w : f64, finite u -> finite w -> (val (gm_min g) < val u)%R -> (val u <= val w)%R ->
                     (val w <= val (gm_max g))%R -> gm_index L g u <= gm_index L g w) ->
  mt_fmono (mt_of_gmap L g).
Proof. exact (gmap_fmono L g). Qed.
Print Assumptions Bridge_gmap_fmono.

(* a decidable sufficient condition (finite fields, 0 <= multiplier <= 2^20, |offset| <= 2^20,
   MinIndexableValue >= 2^-1022), for vm_compute on constructed mappings *)
Theorem Bridge_gm_checkb_ok (g : gmap) : gm_checkb g = true -> gm_small g /\ gm_range_ok g.
Proof. exact (gm_checkb_ok g). Qed.
Print Assumptions Bridge_gm_checkb_ok.

(* the link to Rf_* / C01: the snapped table satisfies [mt_ok] and the all-rationals monotonicity
   premise of Rf_executable_quantile_selects_order_statistic / I_C01_*, and the executed functions
   (and [repr] at binary64 values) are the same under both tables *)
Theorem Bridge_snapped_table (mt : mtable) :
  mt_fok mt -> mt_fmono mt ->
  mt_ok (snap_mt mt) /\ (w0 <= f2q (mt_min (snap_mt mt)))%Qc /\
  (forall x y : Qc, (f2q (mt_min (snap_mt mt)) < x)%Qc -> (x <= y)%Qc -> (y <= f2q (mt_max (snap_mt mt)))%Qc ->
                    mt_index (snap_mt mt) x <= mt_index (snap_mt mt) y) /\
  (forall s v c, plain_add (snap_mt mt) s v c = plain_add mt s v c) /\
  (forall s vs, plain_add_units (snap_mt mt) s vs = plain_add_units mt s vs) /\
  (forall rnd fx s q, plain_quantile rnd fx (snap_mt mt) s q = plain_quantile rnd fx mt s q) /\
  (forall v : f64, repr (am_of (snap_mt mt)) (f2q v) = repr (am_of mt) (f2q v)).
Proof. exact (snapped_table mt). Qed.
Print Assumptions Bridge_snapped_table.
(* rupQ: the least binary64 value above a rational; fixes what f2q returns *)
Theorem Bridge_rupQ (x : Qc) (v : f64) :
  (x <= rupQ x)%Qc /\ generic_format radix2 (FLT_exp (-1074) 53) (qR (rupQ x)) /\ rupQ (f2q v) = f2q v /\
  forall y : Qc, (x <= y)%Qc -> (rupQ x <= rupQ y)%Qc.
Proof. exact (conj (rupQ_ge x) (conj (rupQ_format x) (conj (rupQ_f2q v) (rupQ_mono x)))). Qed.
Print Assumptions Bridge_rupQ.

(* ================================================================== *)
(* B. C01 end to end on the executed functions                         *)
(* ================================================================== *)
(* any table: the finite values vs, all of magnitude <= Max, are added with Add (weight 1.0) to a new
   sketch over non-collapsing stores of any kind; for q in [0, 1] GetValueAtQuantile, with binary64
   rank arithmetic, answers y = the representative of the k-th smallest value, k between floor and
   ceiling of q (n - 1); y is within alpha of that value, or the value is at most Min in magnitude
   and y = 0.  No premise on the rounding operator; n <= 2^53. *)
Theorem Bridge_C01_executable_accuracy_rnd64
  (fx : fixes) (mt : mtable) (m : mapid) (kp kn : kind) (exact : bool)
  (vs : list f64) (ys : list Qc) (q : f64) (alpha : Qc) :
  mt_fok mt -> mt_fmono mt ->
  kind_limit kp = Exact -> kind_limit kn = Exact ->
  fD4 fx = true -> fD5 fx = true ->
  Forall (fun v => f_is_finite v = true) vs ->
  (forall v, In v vs -> (Qcabs (f2q v) <= f2q (mt_max mt))%Qc) ->
  Permutation (map f2q vs) ys -> Sorted Qcle ys -> vs <> [] -> Z.of_nat (length vs) <= 2 ^ 53 ->
  fle f64_zero q = true -> fle q f64_one = true ->
  (forall v, In v vs -> (f2q (mt_min mt) < Qcabs (f2q v))%Qc ->
     (Qcabs (mt_value mt (mt_index mt (Qcabs (f2q v))) - Qcabs (f2q v)) <= alpha * Qcabs (f2q v))%Qc) ->
  exists s, plain_add_units mt (sk_new m kp kn exact) vs = ROk s /\ SkInv s /\
  exists (k : nat) (s' : sketch) (y : Qc),
    cfloor (f2q q * inj (Z.of_nat (length vs) - 1)) <= Z.of_nat k <= cceil (f2q q * inj (Z.of_nat (length vs) - 1)) /\
    (k < length vs)%nat /\
    plain_quantile rnd64 fx mt s q = (s', ROk y) /\ SkInv s' /\ sk_abs s' = sk_abs s /\
    y = repr (am_of mt) (nth k ys w0) /\
    (((Qcabs (nth k ys w0) <= f2q (mt_min mt))%Qc /\ y = w0) \/
     (Qcabs (y - nth k ys w0) <= alpha * Qcabs (nth k ys w0))%Qc).
Proof. exact (executable_quantile_accuracy_rnd64 fx mt m kp kn exact vs ys q alpha). Qed.
Print Assumptions Bridge_C01_executable_accuracy_rnd64.

(* the table of the glue model.  Last premise = the libm accuracy gap, NOT discharged *)
Theorem Bridge_C01_gmap_accuracy_rnd64
  (L : libm) (g : gmap) (fx : fixes) (m : mapid) (kp kn : kind) (exact : bool)
  (vs : list f64) (ys : list Qc) (q : f64) (alpha : Qc) :
  gm_range_ok g -> gm_index_good L g ->
  kind_limit kp = Exact -> kind_limit kn = Exact ->
  fD4 fx = true -> fD5 fx = true ->
  Forall (fun v => f_is_finite v = true) vs ->
  (forall v, In v vs -> (Qcabs (f2q v) <= f2q (gm_max g))%Qc) ->
  Permutation (map f2q vs) ys -> Sorted Qcle ys -> vs <> [] -> Z.of_nat (length vs) <= 2 ^ 53 ->
  fle f64_zero q = true -> fle q f64_one = true ->
  (forall v, In v vs -> (f2q (gm_min g) < f2q (fabs v))%Qc ->
     (Qcabs (f2q (gm_value L g (gm_index L g (fabs v))) - f2q (fabs v)) <= alpha * f2q (fabs v))%Qc) ->
  let mt := mt_of_gmap L g in
  exists s, plain_add_units mt (sk_new m kp kn exact) vs = ROk s /\ SkInv s /\
  exists (k : nat) (s' : sketch) (y : Qc),
    cfloor (f2q q * inj (Z.of_nat (length vs) - 1)) <= Z.of_nat k <= cceil (f2q q * inj (Z.of_nat (length vs) - 1)) /\
    (k < length vs)%nat /\
    plain_quantile rnd64 fx mt s q = (s', ROk y) /\ SkInv s' /\ sk_abs s' = sk_abs s /\
    y = repr (am_of mt) (nth k ys w0) /\
    (((Qcabs (nth k ys w0) <= f2q (gm_min g))%Qc /\ y = w0) \/
     (Qcabs (y - nth k ys w0) <= alpha * Qcabs (nth k ys w0))%Qc).
Proof. exact (gmap_quantile_accuracy_rnd64 L g fx m kp kn exact vs ys q alpha). Qed.
Print Assumptions Bridge_C01_gmap_accuracy_rnd64.

(* per kind: for the linear and cubic mappings nothing is asked of the oracle except the accuracy
   premise; the logarithmic mapping also needs a monotone bounded math.Log *)
Theorem Bridge_C01_lin_accuracy_rnd64
  (L : libm) (g : gmap) (fx : fixes) (m : mapid) (kp kn : kind) (exact : bool)
  (vs : list f64) (ys : list Qc) (q : f64) (alpha : Qc) :
  gm_kind g = MLin -> gm_small g -> gm_range_ok g ->
  kind_limit kp = Exact -> kind_limit kn = Exact ->
  fD4 fx = true -> fD5 fx = true ->
  Forall (fun v => f_is_finite v = true) vs ->
  (forall v, In v vs -> (Qcabs (f2q v) <= f2q (gm_max g))%Qc) ->
  Permutation (map f2q vs) ys -> Sorted Qcle ys -> vs <> [] -> Z.of_nat (length vs) <= 2 ^ 53 ->
  fle f64_zero q = true -> fle q f64_one = true ->
  (forall v, In v vs -> (f2q (gm_min g) < f2q (fabs v))%Qc ->
     (Qcabs (f2q (gm_value L g (gm_index L g (fabs v))) - f2q (fabs v)) <= alpha * f2q (fabs v))%Qc) ->
  let mt := mt_of_gmap L g in
  exists s, plain_add_units mt (sk_new m kp kn exact) vs = ROk s /\ SkInv s /\
  exists (k : nat) (s' : sketch) (y : Qc),
    cfloor (f2q q * inj (Z.of_nat (length vs) - 1)) <= Z.of_nat k <= cceil (f2q q * inj (Z.of_nat (length vs) - 1)) /\
    (k < length vs)%nat /\
    plain_quantile rnd64 fx mt s q = (s', ROk y) /\ SkInv s' /\ sk_abs s' = sk_abs s /\
    y = repr (am_of mt) (nth k ys w0) /\
    (((Qcabs (nth k ys w0) <= f2q (gm_min g))%Qc /\ y = w0) \/
     (Qcabs (y - nth k ys w0) <= alpha * Qcabs (nth k ys w0))%Qc).
Proof. exact (gmap_lin_quantile_accuracy_rnd64 L g fx m kp kn exact vs ys q alpha). Qed.
Print Assumptions Bridge_C01_lin_accuracy_rnd64.

Theorem Bridge_C01_cub_accuracy_rnd64
  (L : libm) (g : gmap) (fx : fixes) (m : mapid) (kp kn : kind) (exact : bool)
  (vs : list f64) (ys : list Qc) (q : f64) (alpha : Qc) :
  gm_kind g = MCub -> gm_small g -> gm_range_ok g ->
  kind_limit kp = Exact -> kind_limit kn = Exact ->
  fD4 fx = true -> fD5 fx = true ->
  Forall (fun v => f_is_finite v = true) vs ->
  (forall v, In v vs -> (Qcabs (f2q v) <= f2q (gm_max g))%Qc) ->
  Permutation (map f2q vs) ys -> Sorted Qcle ys -> vs <> [] -> Z.of_nat (length vs) <= 2 ^ 53 ->
  fle f64_zero q = true -> fle q f64_one = true ->
  (forall v, In v vs -> (f2q (gm_min g) < f2q (fabs v))%Qc ->
     (Qcabs (f2q (gm_value L g (gm_index L g (fabs v))) - f2q (fabs v)) <= alpha * f2q (fabs v))%Qc) ->
  let mt := mt_of_gmap L g in
  exists s, plain_add_units mt (sk_new m kp kn exact) vs = ROk s /\ SkInv s /\
  exists (k : nat) (s' : sketch) (y : Qc),
    cfloor (f2q q * inj (Z.of_nat (length vs) - 1)) <= Z.of_nat k <= cceil (f2q q * inj (Z.of_nat (length vs) - 1)) /\
    (k < length vs)%nat /\
    plain_quantile rnd64 fx mt s q = (s', ROk y) /\ SkInv s' /\ sk_abs s' = sk_abs s /\
    y = repr (am_of mt) (nth k ys w0) /\
    (((Qcabs (nth k ys w0) <= f2q (gm_min g))%Qc /\ y = w0) \/
     (Qcabs (y - nth k ys w0) <= alpha * Qcabs (nth k ys w0))%Qc).
Proof. exact (gmap_cub_quantile_accuracy_rnd64 L g fx m kp kn exact vs ys q alpha). Qed.
Print Assumptions Bridge_C01_cub_accuracy_rnd64.

Theorem Bridge_C01_log_accuracy_rnd64
  (L : libm) (g : gmap) (fx : fixes) (m : mapid) (kp kn : kind) (exact : bool)
  (vs : list f64) (ys : list Qc) (q : f64) (alpha : Qc) :
  gm_kind g = MLog -> log_monotone L -> log_bounded L -> gm_small g -> gm_range_ok g ->
  kind_limit kp = Exact -> kind_limit kn = Exact ->
  fD4 fx = true -> fD5 fx = true ->
  Forall (fun v => f_is_finite v = true) vs ->
  (forall v, In v vs -> (Qcabs (f2q v) <= f2q (gm_max g))%Qc) ->
  Permutation (map f2q vs) ys -> Sorted Qcle ys -> vs <> [] -> Z.of_nat (length vs) <= 2 ^ 53 ->
  fle f64_zero q = true -> fle q f64_one = true ->
  (forall v, In v vs -> (f2q (gm_min g) < f2q (fabs v))%Qc ->
     (Qcabs (f2q (gm_value L g (gm_index L g (fabs v))) - f2q (fabs v)) <= alpha * f2q (fabs v))%Qc) ->
  let mt := mt_of_gmap L g in
  exists s, plain_add_units mt (sk_new m kp kn exact) vs = ROk s /\ SkInv s /\
  exists (k : nat) (s' : sketch) (y : Qc),
    cfloor (f2q q * inj (Z.of_nat (length vs) - 1)) <= Z.of_nat k <= cceil (f2q q * inj (Z.of_nat (length vs) - 1)) /\
    (k < length vs)%nat /\
    plain_quantile rnd64 fx mt s q = (s', ROk y) /\ SkInv s' /\ sk_abs s' = sk_abs s /\
    y = repr (am_of mt) (nth k ys w0) /\
    (((Qcabs (nth k ys w0) <= f2q (gm_min g))%Qc /\ y = w0) \/
     (Qcabs (y - nth k ys w0) <= alpha * Qcabs (nth k ys w0))%Qc).
Proof. exact (gmap_log_quantile_accuracy_rnd64 L g fx m kp kn exact vs ys q alpha). Qed.
Print Assumptions Bridge_C01_log_accuracy_rnd64.

(* accuracy of the representative of one value from the accuracy of the table at its magnitude *)
Theorem Bridge_repr_accuracy_at (m : amapping) (alpha x : Qc) :
  ((am_min m < Qcabs x)%Qc ->
   (Qcabs (am_value m (am_index m (Qcabs x)) - Qcabs x) <= alpha * Qcabs x)%Qc) ->
  ((Qcabs x <= am_min m)%Qc /\ repr m x = 0%Qc) \/
  (Qcabs (repr m x - x) <= alpha * Qcabs x)%Qc.
Proof. exact (repr_accuracy_at m alpha x). Qed.
Print Assumptions Bridge_repr_accuracy_at.

(* ================================================================== *)
(* C. merge trees of executable sketches                               *)
(* ================================================================== *)
(* THE PACKAGED STATEMENT: shared mapping table and identity ([map_equals m m] excludes a NaN /
   infinite gamma or offset), finite values, finite weights >= 0; the tree and the single sketch
   that receives all the adds in order (kinds and statistics flag of the tree's receiver) never
   panic, have the same Layer A abstraction (the exact content of all the adds, normalised by the
   receiver's limits: the identity for a non-collapsing receiver), hence the same count, emptiness,
   min, max, ForEach content and, wherever Layer A defines it (or both refuse), the same answer to
   every quantile query under any rounding operator *)
Theorem Bridge_C02_merge_tree (rnd : Qc -> Qc) (fx : fixes) (mt : mtable) (m : mapid) (t : btree) :
  mt_ok mt -> map_equals m m = true -> b_ok t ->
  let kp := fst (fst (b_first t)) in let kn := snd (fst (b_first t)) in let e := snd (b_first t) in
  exists st sf,
    b_eval rnd fx mt m t = Some st /\
    sk_run rnd fx mt (sk_new m kp kn e) (kadds (b_adds t)) = Some sf /\
    SkInv st /\ SkInv sf /\ sk_abs st = sk_abs sf /\
    sk_abs st = a_norm (kind_limit kp) (kind_limit kn) (a_build (am_of mt) Exact Exact a_new (q_adds (b_adds t))) /\
    plain_count st = plain_count sf /\ plain_is_empty st = plain_is_empty sf /\
    plain_min mt st = plain_min mt sf /\ plain_max mt st = plain_max mt sf /\
    (exists st' sf' l, sk_foreach mt st = Some (st', l) /\ sk_foreach mt sf = Some (sf', l)) /\
    (forall rnd' fx' q, fD4 fx' = true -> fD5 fx' = true ->
       a_quantile rnd' (am_of mt) (sk_abs st) (f2q q) <> None \/ plain_count st = w0 \/
         (fle f64_zero q && fle q f64_one) = false ->
       snd (plain_quantile rnd' fx' mt st q) = snd (plain_quantile rnd' fx' mt sf q)).
Proof. exact (merge_tree_observers rnd fx mt m t). Qed.
Print Assumptions Bridge_C02_merge_tree.

(* with the mapping identity and the kinds of stores of both results *)
Theorem Bridge_C02_merge_tree_refines (rnd : Qc -> Qc) (fx : fixes) (mt : mtable) (m : mapid) (t : btree) :
  mt_ok mt -> map_equals m m = true -> b_ok t ->
  let kp := fst (fst (b_first t)) in let kn := snd (fst (b_first t)) in let e := snd (b_first t) in
  exists st sf,
    b_eval rnd fx mt m t = Some st /\
    sk_run rnd fx mt (sk_new m kp kn e) (kadds (b_adds t)) = Some sf /\
    SkInv st /\ SkInv sf /\ sk_map st = m /\ sk_map sf = m /\
    st_kind (sk_pos st) = kp /\ st_kind (sk_neg st) = kn /\ st_kind (sk_pos sf) = kp /\ st_kind (sk_neg sf) = kn /\
    sk_abs st = sk_abs sf /\
    sk_abs st = a_norm (kind_limit kp) (kind_limit kn) (a_build (am_of mt) Exact Exact a_new (q_adds (b_adds t))).
Proof. exact (fun Hmt Hmm => merge_tree_refines rnd fx mt m Hmt Hmm t). Qed.
Print Assumptions Bridge_C02_merge_tree_refines.

(* all leaves non-collapsing: exactly the flat content, exact limits *)
Theorem Bridge_C02_merge_tree_exact (rnd : Qc -> Qc) (fx : fixes) (mt : mtable) (m : mapid) (t : btree) :
  mt_ok mt -> map_equals m m = true -> b_exact t ->
  exists s, b_eval rnd fx mt m t = Some s /\ SkInv s /\ sk_map s = m /\ sk_lp s = Exact /\ sk_ln s = Exact /\
            sk_abs s = a_build (am_of mt) Exact Exact a_new (q_adds (b_adds t)).
Proof. exact (fun Hmt Hmm => b_exact_spec rnd fx mt m Hmt Hmm t). Qed.
Print Assumptions Bridge_C02_merge_tree_exact.

(* the Layer A image of a list of adds is a_build (what C02_merge_tree talks about) *)
Theorem Bridge_a_run_kadds am lp ln l a : a_run am lp ln a (kadds l) = a_build am lp ln a (q_adds l).
Proof. exact (a_run_kadds am lp ln l a). Qed.
Print Assumptions Bridge_a_run_kadds.

(* two executable sketches with the same abstraction answer every observer alike *)
Theorem Bridge_observers_eq (mt : mtable) (s1 s2 : sketch) :
  SkInv s1 -> SkInv s2 -> sk_abs s1 = sk_abs s2 ->
  plain_count s1 = plain_count s2 /\ plain_is_empty s1 = plain_is_empty s2 /\
  plain_min mt s1 = plain_min mt s2 /\ plain_max mt s1 = plain_max mt s2 /\
  (exists s1' s2' l, sk_foreach mt s1 = Some (s1', l) /\ sk_foreach mt s2 = Some (s2', l)) /\
  (forall rnd fx q, fD4 fx = true -> fD5 fx = true ->
     a_quantile rnd (am_of mt) (sk_abs s1) (f2q q) <> None \/ plain_count s1 = w0 \/
       (fle f64_zero q && fle q f64_one) = false ->
     snd (plain_quantile rnd fx mt s1 q) = snd (plain_quantile rnd fx mt s2 q)).
Proof. exact (observers_eq mt s1 s2). Qed.
Print Assumptions Bridge_observers_eq.

(* ================================================================== *)
(* D. constructors of the glue model                                   *)
(* ================================================================== *)
Theorem Bridge_with_gamma_none_iff (L : libm) (k : mkind) (g off : f64) :
  with_gamma L k g off = None <-> fle g f64_one = true.
Proof. exact (with_gamma_none_iff L k g off). Qed.
Print Assumptions Bridge_with_gamma_none_iff.

Theorem Bridge_with_gamma_fields (L : libm) (k : mkind) (g off : f64) (m : gmap) :
  with_gamma L k g off = Some m ->
  gm_kind m = k /\ gm_gamma m = g /\ gm_off m = off /\
  gm_mult m = fdiv f64_one (match k with MLog => l_log L g | _ => l_log2 L g end).
Proof. exact (with_gamma_fields L k g off m). Qed.
Print Assumptions Bridge_with_gamma_fields.

Theorem Bridge_with_accuracy_is_with_gamma (L : libm) (k : mkind) (a : f64) :
  with_accuracy L k a =
  if fle a f64_zero || fle f64_one a then None else with_gamma L k (acc_gamma L k a) (acc_off L k a).
Proof. exact (with_accuracy_is_with_gamma L k a). Qed.
Print Assumptions Bridge_with_accuracy_is_with_gamma.

(* refused exactly when the test  a <= 0 || a >= 1  fires OR the gamma computed from a is <= 1
   (e.g. 0 < a < 2^-54: 1 + a and 1 - a round to 1; see Bridge_ex_ctor_refusals).  The equivalence
   with the first test alone does NOT hold. *)
Theorem Bridge_with_accuracy_none_iff (L : libm) (k : mkind) (a : f64) :
  with_accuracy L k a = None <->
  (fle a f64_zero || fle f64_one a) = true \/ fle (acc_gamma L k a) f64_one = true.
Proof. exact (with_accuracy_none_iff L k a). Qed.
Print Assumptions Bridge_with_accuracy_none_iff.
Theorem Bridge_with_accuracy_refuses (L : libm) (k : mkind) (a : f64) :
  (fle a f64_zero || fle f64_one a) = true -> with_accuracy L k a = None.
Proof. exact (with_accuracy_refuses L k a). Qed.
Print Assumptions Bridge_with_accuracy_refuses.

(* NaN: both tests are comparisons, both are false on NaN; the logarithmic constructor returns a
   mapping whose gamma is NaN, whatever the oracle (the Go code has the same two tests) *)
Theorem Bridge_with_accuracy_nan_accepted (L : libm) (a : f64) :
  f_is_nan a = true -> exists m, with_accuracy L MLog a = Some m /\ f_is_nan (gm_gamma m) = true.
Proof. exact (with_accuracy_nan_accepted L a). Qed.
Print Assumptions Bridge_with_accuracy_nan_accepted.

(* C19: rebuilding from the reported gamma and offset gives the same mapping, field for field *)
Theorem Bridge_with_accuracy_rebuild (L : libm) (k : mkind) (a : f64) (m : gmap) :
  with_accuracy L k a = Some m -> gm_kind m = k /\ with_gamma L k (gm_gamma m) (gm_off m) = Some m.
Proof. exact (with_accuracy_rebuild L k a m). Qed.
Print Assumptions Bridge_with_accuracy_rebuild.
Theorem Bridge_with_gamma_rebuild (L : libm) (k : mkind) (g off : f64) (m : gmap) :
  with_gamma L k g off = Some m -> with_gamma L (gm_kind m) (gm_gamma m) (gm_off m) = Some m.
Proof. exact (with_gamma_rebuild L k g off m). Qed.
Print Assumptions Bridge_with_gamma_rebuild.

(* ================================================================== *)
(* the hypotheses are satisfiable: a stub oracle, alpha = 0.01          *)
(* ================================================================== *)
(* bx_L: math.Floor from Flocq operations (truncate, compare, convert back); math.Log a constant
   function (monotone and bounded); Exp, Exp2, Log2, Pow answer the arguments the constructors and
   RelativeAccuracy pass for alpha = 0.01.  bx_lin / bx_cub / bx_log: the three mappings
   with_accuracy bx_L _ 0.01 returns. *)
Example Bridge_ex_oracle :
  bx_L = {| l_log := fun _ => fb 4581422021096572285;
            l_exp := fun x => if feq x c_exp_overflow then fb 9216230289645164774
                              else if flt x f64_zero then f64_zero
                              else if flt (fb 4652007308841189376) x then f64_pinf else bx_g0;
            l_exp2 := fun x => if flt x f64_zero then f64_zero else f64_pinf;
            l_log2 := fun x => if feq x bx_glin then fb 4581422021096572306 else fb 4583892649534350114;
            l_pow := fun x y => if feq y c_ln2 then bx_glin else if feq y c_10ln2_7 then bx_gcub else bx_g0;
            l_cbrt := fun x => x; l_sqrt := b64_sqrt mode_NE; l_floor := bx_floor |} := eq_refl.
Example Bridge_ex_constructed :
  map (fun k => option_map (fun g => (bits_of_f64 (gm_gamma g), bits_of_f64 (gm_off g), bits_of_f64 (gm_mult g),
                                      bits_of_f64 (gm_min g), bits_of_f64 (gm_max g)))
                           (with_accuracy bx_L k bx_alpha)) [MLin; MCub; MLog]
  = [Some (4607245288818281240, 4632233457158529878, 4632233457158529878, 4594581438024445, 9216167229727615264);
     Some (4607272501073408450, 0, 4630122465203820771, 4594581438024445, 9216167229727615264);
     Some (4607273400610671357, 0, 4632233457158529904, 4594581438024445, 9216167229727615264)]%N.
Proof. exact bx_constructed. Qed.
(* premises of A, by vm_compute (multipliers 49.99..., 35.00..., 49.99...) *)
Example Bridge_ex_checks : gm_checkb bx_lin = true /\ gm_checkb bx_cub = true /\ gm_checkb bx_log = true.
Proof. exact bx_checks. Qed.
Example Bridge_ex_log_oracle : log_monotone bx_L /\ log_bounded bx_L.
Proof. exact bx_log_oracle. Qed.
(* hence, through the theorems of A *)
Example Bridge_ex_tables_ok :
  (mt_fok (mt_of_gmap bx_L bx_lin) /\ mt_fmono (mt_of_gmap bx_L bx_lin)) /\
  (mt_fok (mt_of_gmap bx_L bx_cub) /\ mt_fmono (mt_of_gmap bx_L bx_cub)) /\
  (mt_fok (mt_of_gmap bx_L bx_log) /\ mt_fmono (mt_of_gmap bx_L bx_log)).
Proof. exact bx_tables_ok. Qed.
Print Assumptions Bridge_ex_tables_ok.

(* premises of B on a non-trivial state: 3.75, 100, 0.5, -3.75, 0.001, -100, 2.5, 0 added to a
   sketch over the linear mapping, any non-collapsing kinds, any q in [0, 1]; the accuracy premise
   is decided by computation on the glue model at the six magnitudes, alpha = 0.01 *)
Example Bridge_ex_values :
  map (fun v => this (f2q v)) bx_vs
  = [15 # 4; 100 # 1; 1 # 2; -15 # 4; 1152921504606847 # 1152921504606846976; -100 # 1; 5 # 2; 0 # 1]%Q /\
  map bits_of_f64 bx_sorted = map bits_of_f64 [nth 5 bx_vs f64_zero; nth 3 bx_vs f64_zero; nth 7 bx_vs f64_zero;
                                               nth 4 bx_vs f64_zero; nth 2 bx_vs f64_zero; nth 6 bx_vs f64_zero;
                                               nth 0 bx_vs f64_zero; nth 1 bx_vs f64_zero].
Proof. vm_compute. split; reflexivity. Qed.
Example Bridge_ex_accuracy_premise : forallb (acc_okb bx_L bx_lin (f2q bx_alpha)) bx_vs = true.
Proof. vm_compute. reflexivity. Qed.
Example Bridge_ex_quantile_by_theorem (q : f64) (kp kn : kind) (exact : bool) :
  kind_limit kp = Exact -> kind_limit kn = Exact ->
  fle f64_zero q = true -> fle q f64_one = true ->
  exists s, plain_add_units bx_mt (sk_new bx_map kp kn exact) bx_vs = ROk s /\ SkInv s /\
  exists (k : nat) (s' : sketch) (y : Qc),
    cfloor (f2q q * inj 7) <= Z.of_nat k <= cceil (f2q q * inj 7) /\ (k < 8)%nat /\
    plain_quantile rnd64 fx_all bx_mt s q = (s', ROk y) /\
    (((Qcabs (nth k (map f2q bx_sorted) w0) <= f2q (gm_min bx_lin))%Qc /\ y = w0) \/
     (Qcabs (y - nth k (map f2q bx_sorted) w0) <= f2q bx_alpha * Qcabs (nth k (map f2q bx_sorted) w0))%Qc).
Proof. exact (bx_quantile_by_theorem q kp kn exact). Qed.
Print Assumptions Bridge_ex_quantile_by_theorem.
(* and by computation: q = 0, 0.5, 1 answer Value(Index(.)) of -100, 0.001, 100:
   -100.30..., 0.0010029..., 100.30... *)
Example Bridge_ex_quantile_computed :
  match plain_add_units bx_mt (sk_new bx_map KDense KPag false) bx_vs with
  | ROk s => map (fun q => match snd (plain_quantile rnd64 fx_all bx_mt s q) with
                           | ROk y => Some (bits_of_f64 (q2f y)) | _ => None end)
                 [f64_zero; fb 4602678819172646912; f64_one]
  | _ => []
  end = [Some 13860169471689488064; Some 4562281069595096390; Some 4636797434834712256]%N.
Proof. exact bx_quantile_computed. Qed.

(* D by computation: 0, 1, -0.5 are refused by the first test, 2^-60 by the gamma test, 0.01 is accepted *)
Example Bridge_ex_ctor_refusals :
  map (fun a => match with_accuracy bx_L MLog (fb a) with Some _ => true | None => false end)
      [0; 4607182418800017408; 13826050856027422720; 4336965041462968320; 4576918229304087675]%N
  = [false; false; false; false; true] /\
  (fle (fb 4336965041462968320) f64_zero || fle f64_one (fb 4336965041462968320)) = false.
Proof. split; [exact bx_ctor_refusals|vm_compute; reflexivity]. Qed.
