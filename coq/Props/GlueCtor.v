(* Props/GlueCtor — the constructors of the linearly interpolated mapping of the bit-exact model
   (SK.Mapping.Glue: with_gamma, with_accuracy at kind MLin) under explicit ACCURACY HYPOTHESES ON THE ORACLE:
   every per-mapping premise of Props/GlueAcc.v (reasonable, exp (1/mult) <= g0, value_factor_ok, in_range) and
   of Props/Bridge.v (gm_small, gm_range_ok, the accuracy premise of Bridge_C01_lin_accuracy_rnd64) becomes a
   consequence.  Statements only; proofs: SK.Mapping.GlueCtor.

   The hypotheses (plain definitions of GlueCtor; u53 = 2^-53; k is a real number of units, 0 <= k <= 64):
     log2_accurate L k     forall x, finite x -> 1 <= val x <= 2 ->
                             finite (l_log2 L x) /\ |val (l_log2 L x) - ln (val x) / ln 2| <= k u53
                           ABSOLUTE error on [1, 2].  A relative-error hypothesis would be FALSE for Go:
                           math.Log2 is Log(frac)*(1/Ln2) + exp with frac in [1/2, 1), which cancels near 1
                           (measured: relative error 2^-34.7 at gamma = 1 + 1.4e-6, the gamma of accuracy 1e-6).
                           It is harmless: only exp (1/multiplier) matters, and that sees the absolute error.
     exp_accurate L k      forall x, finite x -> 0 <= val x -> exp (val x) <= 1.5 * 2^1023 ->
                             finite (l_exp L x) /\ |val (l_exp L x) - exp (val x)| <= k u53 exp (val x)
     pow_accurate L k      forall x y, finite x -> finite y -> 1 <= val x <= 4 -> 0 <= val y <= 2 ->
                             finite (l_pow L x y) /\ |val (l_pow L x y) - (val x)^(val y)| <= k u53 (val x)^(val y)
     exp2_underflow_ok L   forall x, finite x -> val x <= -1100 -> finite (l_exp2 L x) /\ |val (l_exp2 L x)| <= 2^-1022
     exp2_sane L           forall x, finite x -> finite (l_exp2 L x) \/ l_exp2 L x = +Inf
                           (the constructor calls math.Exp2 at (MinInt32 - off)/mult + 1 <= -2047 and at
                            (MaxInt32 - off)/mult - 1 >= 2046 only: nothing is asked in between)
     floor_exact L         as in Props/GlueAcc.v
     libm_ok L k           = 0 <= k <= 64 and the six hypotheses above (a Record; fields lo_k, lo_log2, ...)
   Other definitions: lmin = 1.99e-6; multf L g = fdiv f64_one (l_log2 L g); adjf L g = l_pow L g c_inv_ln2;
     min_f, max_f = the two expressions of the constructor; mk_lin L g off = the record with_gamma builds;
     gammaf L a = l_pow L (fdiv (fadd 1 a) (fsub 1 a)) c_ln2; acc_map L a = mk_lin L (gammaf L a) (multf L (gammaf L a));
     Gell L g = exp (val (l_log2 L g)); g0_of L g = Gell L g * (1 + 4 u53) (the real bound of the bin ratio used
     by GA_lin_value_accuracy); q34 = 2^-34; R2F r = the binary64 nearest to the real r; L_ideal = the oracle
     that rounds the exact results.  reasonable, in_range, value_factor_ok, q38, q35: Props/GlueAcc.v;
     gm_small, gm_range_ok, mt_of_gmap ...: Props/Bridge.v.

   RANGE.  relativeAccuracy a with 10^-6 <= val a <= 0.3.  Above about 0.46 the multiplier drops below 1 (outside
   [reasonable]); below 10^-6 the margin x - ln (1+x) ~ 2 a^2 that keeps LowerBound(Index v) a normal float just
   above MinIndexableValue is smaller than the 2^-40 + 2^-41 of the float errors bounded in GlueAccuracy. *)
From Coq Require Import Bool NArith ZArith QArith Qcanon Qcabs Reals List Permutation Sorted.
From Flocq Require Import Core.Core IEEE754.BinarySingleNaN IEEE754.Binary IEEE754.Bits.
From SK Require Import Base.Prelude Base.F64 Base.F64Proofs Mapping.Glue Mapping.GlueProofs Mapping.GlueAccuracy.
From SK.Real Require Import RBasics MapGeneric Binade MapLin.
From SK Require Import Spec.Bins Spec.BinsProofs Spec.ASketch Store.Any Store.AnyProofs Stat.Summary
                       Sketch.Sketch Sketch.SketchProofs Sketch.RankProofs Sketch.RefineProofs
                       Sketch.RoundingInstance Sketch.BridgeProofs.
From SK Require Import Mapping.GlueCtor.
Import ListNotations.
Local Open Scope R_scope.

Local Notation finite x := (is_finite 53 1024 x = true).
Local Notation val x := (B2R 53 1024 x).
Local Notation normal_pos x := (is_finite 53 1024 x = true /\ Rle (bpow radix2 (-1022)) (B2R 53 1024 x)).

(* ------------------------------------------------------------------ *)
(* 0. numerics (no external tool: chains of 60 squarings of rational bounds) *)
(* ------------------------------------------------------------------ *)
Theorem GC_ln2 :
  3196577161300663913 / 4611686018427387904 <= ln 2 <= 799144290325165979 / 1152921504606846976.
Proof. exact ln2_enclosure. Qed.
Print Assumptions GC_ln2.

(* math.Ln2 and 1/math.Ln2 as binary64 constants, exp (expOverflow) = 2^1023.5 up to 10^-4 *)
Theorem GC_constants :
  val c_ln2 = c_ln2r /\ ln 2 * (1 - / 18014398509481984) <= c_ln2r <= ln 2 /\
  val c_inv_ln2 = c_inv_ln2r /\ 1 - / 4503599627370496 <= c_inv_ln2r * ln 2 <= 1 /\
  val c_exp_overflow = c_ovr /\ exp c_ovr <= pow2 1023 * (14143 / 10000).
Proof.
  exact (conj c_ln2_BR (conj c_ln2r_close (conj c_inv_ln2_BR (conj c_inv_ln2r_close (conj c_exp_overflow_BR exp_c_ov))))).
Qed.
Print Assumptions GC_constants.

Theorem GC_ln_cubic (x : R) : 0 <= x -> ln (1 + x) <= x - x ^ 2 / 2 + x ^ 3 / 3.
Proof. exact (ln_cubic x). Qed.
Print Assumptions GC_ln_cubic.

(* ------------------------------------------------------------------ *)
(* 1. NewLinearlyInterpolatedMappingWithGamma (gamma, indexOffset)     *)
(* ------------------------------------------------------------------ *)
(* gamma with 1.99e-6 <= log2 gamma and gamma^(1/ln 2) <= 1.86 (that is 1 + 1.4e-6 <= gamma <= 1.537),
   |indexOffset| <= 2^11 * multiplier *)
Theorem GC_with_gamma_lin (L : libm) (k : R) (g off : f64) :
  libm_ok L k -> finite g ->
  lmin <= ln (val g) / ln 2 -> exp (ln (val g) / ln 2) <= 186 / 100 -> 1 <= val g <= 2 ->
  finite off -> Rabs (val off) <= 2048 * val (multf L g) ->
  let m := mk_lin L g off in
  with_gamma L MLin g off = Some m /\ reasonable MLin m /\
  (finite (gm_min m) /\ finite (gm_max m) /\ bpow radix2 (-1022) <= val (gm_min m)) /\
  exp (1 / val (gm_mult m)) <= g0_of L g <= 4 /\
  exp (ln (val g) / ln 2) * (1 - k * u53) <= g0_of L g <= exp (ln (val g) / ln 2) * (1 + (2 * k + 5) * u53) /\
  value_factor_ok L m (g0_of L g) ((k + 9) * u53).
Proof. exact (with_gamma_lin_summary L k g off). Qed.
Print Assumptions GC_with_gamma_lin.

(* C3 for WithGamma: every finite v in (MinIndexableValue, MaxIndexableValue] is a normal float whose index
   and the next one are in range *)
Theorem GC_with_gamma_lin_range (L : libm) (k : R) (g off v : f64) :
  libm_ok L k -> finite g ->
  lmin <= ln (val g) / ln 2 -> exp (ln (val g) / ln 2) <= 186 / 100 -> 1 <= val g <= 2 ->
  finite off -> Rabs (val off) <= 2048 * val (multf L g) ->
  let m := mk_lin L g off in
  finite v -> val (gm_min m) < val v -> val v <= val (gm_max m) ->
  normal_pos v /\ GlueAccuracy.in_range m (gm_index L m v) /\ GlueAccuracy.in_range m (gm_index L m v + 1).
Proof. intros HL Fg Hl He Hg1 Fo Bo. exact (mk_lin_in_range L k HL g Fg Hl He Hg1 off Fo Bo v). Qed.
Print Assumptions GC_with_gamma_lin_range.

(* containment and accuracy on the whole indexable range, no per-mapping premise *)
Theorem GC_with_gamma_lin_accuracy (L : libm) (k : R) (g off v : f64) :
  libm_ok L k -> finite g ->
  lmin <= ln (val g) / ln 2 -> exp (ln (val g) / ln 2) <= 186 / 100 -> 1 <= val g <= 2 ->
  finite off -> Rabs (val off) <= 2048 * val (multf L g) ->
  let m := mk_lin L g off in
  finite v -> val (gm_min m) < val v -> val v <= val (gm_max m) ->
  let i := gm_index L m v in
  normal_pos v /\ GlueAccuracy.in_range m i /\ GlueAccuracy.in_range m (i + 1) /\ finite (gm_value L m i) /\
  val (gm_lower L m i) <= val v * (1 + q38) /\ val v <= val (gm_lower L m (i + 1)) * (1 + q38) /\
  Rabs (val (gm_value L m i) - val v) <= (alpha_of (g0_of L g) + (k + 9) * u53 + q35) * val v.
Proof. intros HL Fg Hl He Hg1 Fo Bo. exact (with_gamma_lin_accuracy L k HL g Fg Hl He Hg1 off Fo Bo v). Qed.
Print Assumptions GC_with_gamma_lin_accuracy.

(* ------------------------------------------------------------------ *)
(* 2. NewLinearlyInterpolatedMapping (relativeAccuracy)                *)
(* ------------------------------------------------------------------ *)
(* C1: the constructor succeeds, the mapping is reasonable / small / range_ok, g0 is within (13 + 7k) 2^-53 of
   the ideal (1+a)/(1-a) (the adjusted gamma gamma0_lin (gamma_lin_ctor a) of SK.Real.Ctor), alpha_of g0 is a up
   to (7 + 4k) 2^-53, and the factor of Value is 1 + alpha_of g0 up to (k + 9) 2^-53 *)
Theorem GC_with_accuracy_lin (L : libm) (k : R) (a : f64) :
  libm_ok L k -> finite a -> / 1000000 <= val a <= 3 / 10 ->
  let m := acc_map L a in
  let g0 := g0_of L (gammaf L a) in
  let gp := (1 + val a) / (1 - val a) in
  with_accuracy L MLin a = Some m /\ gm_kind m = MLin /\ reasonable MLin m /\ gm_small m /\ gm_range_ok m /\
  exp (1 / val (gm_mult m)) <= g0 <= 4 /\
  gp * (1 - (9 + 4 * k) * u53) <= g0 <= gp * (1 + (13 + 7 * k) * u53) /\
  alpha_of g0 <= val a + (7 + 4 * k) * u53 /\
  value_factor_ok L m g0 ((k + 9) * u53).
Proof. exact (with_accuracy_lin_summary L k a). Qed.
Print Assumptions GC_with_accuracy_lin.

(* C2 + C3, the headline: for every finite v in (MinIndexableValue, MaxIndexableValue]:
   normal, indexes in range, Value finite, containment, and |Value (Index v) - v| <= (a + 2^-34) v *)
Theorem GC_with_accuracy_lin_accuracy (L : libm) (k : R) (a v : f64) :
  libm_ok L k -> finite a -> / 1000000 <= val a <= 3 / 10 ->
  let m := acc_map L a in
  finite v -> val (gm_min m) < val v -> val v <= val (gm_max m) ->
  let i := gm_index L m v in
  normal_pos v /\ GlueAccuracy.in_range m i /\ GlueAccuracy.in_range m (i + 1) /\ finite (gm_value L m i) /\
  val (gm_lower L m i) <= val v * (1 + q38) /\ val v <= val (gm_lower L m (i + 1)) * (1 + q38) /\
  Rabs (val (gm_value L m i) - val v) <= (val a + q34) * val v.
Proof. intros HL Fa Ba. exact (with_accuracy_lin_accuracy L k HL a Fa Ba v). Qed.
Print Assumptions GC_with_accuracy_lin_accuracy.

(* the index is an int32 on all positive normal floats *)
Theorem GC_with_accuracy_lin_int32 (L : libm) (k : R) (a v : f64) :
  libm_ok L k -> finite a -> / 1000000 <= val a <= 3 / 10 ->
  normal_pos v -> idx_ok (gm_index L (acc_map L a) v).
Proof.
  intros HL Fa Ba.
  exact (proj1 (gm_index_good_lin L (acc_map L a) eq_refl (acc_map_small L k HL a Fa Ba)) v).
Qed.
Print Assumptions GC_with_accuracy_lin_int32.

(* the Qc form: the last premise of Bridge_C01_lin_accuracy_rnd64 *)
Theorem GC_with_accuracy_lin_accuracy_Qc (L : libm) (k : R) (a : f64) (alpha : Qc) (v : f64) :
  libm_ok L k -> finite a -> / 1000000 <= val a <= 3 / 10 ->
  let m := acc_map L a in
  val a + q34 <= qR alpha ->
  finite v -> (f2q (gm_min m) < f2q v)%Qc -> (f2q v <= f2q (gm_max m))%Qc ->
  (Qcabs (f2q (gm_value L m (gm_index L m v)) - f2q v) <= alpha * f2q v)%Qc.
Proof. intros HL Fa Ba. exact (acc_map_accuracy_Qc L k HL a Fa Ba alpha v). Qed.
Print Assumptions GC_with_accuracy_lin_accuracy_Qc.

(* C01 end to end: the executed plain_add / plain_quantile on the mapping built by
   NewLinearlyInterpolatedMapping (a) answer within alpha of an order statistic, for every rational
   alpha >= a + 2^-34, under the hypotheses on the oracle only *)
Theorem GC_C01_lin_end_to_end
  (L : libm) (k : R) (a : f64) (fx : fixes) (m : mapid) (kp kn : kind) (exact : bool)
  (vs : list f64) (ys : list Qc) (q : f64) (alpha : Qc) :
  libm_ok L k -> finite a -> / 1000000 <= val a <= 3 / 10 ->
  let g := acc_map L a in
  with_accuracy L MLin a = Some g ->
  val a + q34 <= qR alpha ->
  kind_limit kp = Exact -> kind_limit kn = Exact ->
  fD4 fx = true -> fD5 fx = true ->
  Forall (fun v => f_is_finite v = true) vs ->
  (forall v, In v vs -> (Qcabs (f2q v) <= f2q (gm_max g))%Qc) ->
  Permutation (map f2q vs) ys -> Sorted Qcle ys -> vs <> [] -> (Z.of_nat (length vs) <= 2 ^ 53)%Z ->
  fle f64_zero q = true -> fle q f64_one = true ->
  let mt := mt_of_gmap L g in
  exists s, plain_add_units mt (sk_new m kp kn exact) vs = ROk s /\ SkInv s /\
  exists (kk : nat) (s' : sketch) (y : Qc),
    (cfloor (f2q q * inj (Z.of_nat (length vs) - 1)) <= Z.of_nat kk <= cceil (f2q q * inj (Z.of_nat (length vs) - 1)))%Z /\
    (kk < length vs)%nat /\
    plain_quantile rnd64 fx mt s q = (s', ROk y) /\ SkInv s' /\ sk_abs s' = sk_abs s /\
    y = repr (am_of mt) (nth kk ys w0) /\
    (((Qcabs (nth kk ys w0) <= f2q (gm_min g))%Qc /\ y = w0) \/
     (Qcabs (y - nth kk ys w0) <= alpha * Qcabs (nth kk ys w0))%Qc).
Proof.
  intros HL Fa Ba g _. exact (C01_lin_end_to_end L k HL a Fa Ba fx m kp kn exact vs ys q alpha).
Qed.
Print Assumptions GC_C01_lin_end_to_end.

(* ------------------------------------------------------------------ *)
(* 3. the hypotheses are satisfiable                                   *)
(* ------------------------------------------------------------------ *)
(* the binary64 nearest to a real *)
Theorem GC_R2F (r : R) : Rabs r <= IZR f64max_Z ->
  finite (R2F r) /\ val (R2F r) = round radix2 (FLT_exp (-1074) 53) ZnearestE r.
Proof. exact (R2F_correct r). Qed.
Print Assumptions GC_R2F.

(* the oracle that rounds the exact results (math.Floor from Flocq's round-to-integral) satisfies every
   hypothesis with k = 1 *)
Theorem GC_ideal_oracle : libm_ok L_ideal 1.
Proof. exact L_ideal_ok. Qed.
Print Assumptions GC_ideal_oracle.

Theorem GC_ideal_instance (a v : f64) :
  finite a -> / 1000000 <= val a <= 3 / 10 ->
  let m := acc_map L_ideal a in
  with_accuracy L_ideal MLin a = Some m /\
  (finite v -> val (gm_min m) < val v -> val v <= val (gm_max m) ->
   Rabs (val (gm_value L_ideal m (gm_index L_ideal m v)) - val v) <= (val a + q34) * val v).
Proof. exact (ideal_instance a v). Qed.
Print Assumptions GC_ideal_instance.
