(* Props/GlueLog — the LOGARITHMIC mapping (the library's default: NewDefaultMapping = NewLogarithmicMapping) of the
   bit-exact model (SK.Mapping.Glue, kind MLog: Index = Go-floor (fl (fl (math.Log v * multiplier) + indexOffset)),
   LowerBound(i) = math.Exp (fl (fl (i - indexOffset) / multiplier)), Value = LowerBound * (1 + RelativeAccuracy()),
   RelativeAccuracy() = 1 - 2/(1 + gamma), multiplier = 1 / math.Log gamma) under explicit ACCURACY HYPOTHESES ON
   math.Log AND math.Exp: containment, bin ratio and accuracy of Value (Index v) on the whole indexable range of the
   constructed mapping, the premises of Props/Bridge.v, and C01 end to end.  Statements only; proofs: SK.Mapping.GlueLog.
   Every theorem quantifies over ALL binary64 values satisfying its premises.

   WHY NOT THE GENERIC SECTION OF Props/GlueAcc.v.  Its slots (absolute 2^-42 forward, relative 2^-45 backward) and
   [reasonable] (multiplier >= 1) do not fit: |ln v| goes up to 709.8, so k ulps of math.Log cost k 2^-53 709.8 in the
   exponent, and the multiplier is below 1 as soon as gamma > e (a > 0.462).  The argument is redone with a budget that
   scales with lam = |ln v| (equivalently with |index - indexOffset| / multiplier) and with |indexOffset| / multiplier:
     eps_lo k m lam = 2^-53 ((k + 6) lam + omega m + 3 k + 20)      containment, both sides
     eps_acc k m lam = 2^-53 (2 (k + 6) lam + 2 omega m + 12 k + 71)  accuracy excess over alpha_of gamma
     eps_a k lam = 2^-53 (2 (k + 6) lam + 12 k + 73)                 accuracy excess over a (indexOffset = 0)
   omega m = |indexOffset| / multiplier.  Uniformly on the indexable range (lam <= 709.8, k <= 64): eps_a <= 2^-36.
   (The factor 2 in front of lam is 1 + alpha < 2: Value = LowerBound (1 + alpha) carries the excess of LowerBound.)
   Measured on the real code, k = 1: worst excess 1.13e-13 (a = 1.04e-3, v = 2.25e-308), at most 0.13 of eps_a;
   worst containment excess at most 0.14 of eps_lo.

   The hypotheses (plain definitions of GlueLog; u53 = 2^-53, u1075 = 2^-1075; k a real number of units, 0 <= k <= 64):
     log_accurate L k        forall x, finite x -> 0 < val x ->
                               finite (l_log L x) /\ |val (l_log L x) - ln (val x)| <= k u53 |ln (val x)| + k u1075
                             RELATIVE error (math.Log is relatively accurate near 1; it is math.Log2 that cancels)
     exp_accurate_full L k   forall x, finite x -> -709 <= val x -> exp (val x) <= 1.5 * 2^1023 ->
                               finite (l_exp L x) /\ |val (l_exp L x) - exp (val x)| <= k u53 exp (val x) + k u1075
                             (down to -709: LowerBound (Index v) may be a subnormal number just below 2^-1022 when v is
                              just above MinIndexableValue; the u1075 terms make both statements true of a correctly
                              rounded function with k = 1)
     exp_underflow_ok L      forall x, finite x -> val x <= -1000 -> finite (l_exp L x) /\ |val (l_exp L x)| <= 2^-1022
     exp_sane L              forall x, finite x -> finite (l_exp L x) \/ l_exp L x = +Inf
                             (the constructor calls math.Exp at (MinInt32 - off)/mult + 1 <= -2047 and at
                              (MaxInt32 - off)/mult - 1: nothing else is asked there)
     logm_ok L k             = 0 <= k <= 64 and the four hypotheses above (a Record; fields lg_k, lg_log, lg_exp, ...)
   NOT derivable from accuracy, needed only by the sketch (C01 end to end): log_monotone L (Props/Bridge.v).
   log_bounded L (Props/Bridge.v) IS a consequence (GL_log_bounded).

   Other definitions: log_reasonable m = gm_kind m = MLog /\ finite mult /\ finite off /\ 1/8 <= mult <= 2^20 /\
     |off| <= 2^11 mult;  tau m j = (j - off)/mult;  index_float, lower_arg: Props/GlueAcc.v;
     exp_range m j = -709 <= val (lower_arg m j) /\ exp (val (lower_arg m j)) <= 1.5 * 2^1023 (the float handed to
     math.Exp by LowerBound(j) is where math.Exp is accurate; PROVED for j = Index v on the indexable range; for j + 1 it
     can fail: LowerBound (Index v + 1) = +Inf on the real code for v near MaxIndexableValue, e.g.
     NewLogarithmicMapping(0.01): Index(MaxIndexableValue = 1.2585752536124683e308) = 35470, LowerBound(35471) = +Inf);
     multf_log L g = fdiv 1 (l_log L g); min_f_log, max_f_log = the two expressions of the constructor;
     mk_log L g off = the record with_gamma builds; acc_map_log L a = mk_log L (g0f a) 0 with
     g0f a = fdiv (fadd 1 a) (fsub 1 a); lmin = 1.99e-6; q36 = 2^-36; q20 = 2^-20; L_ideal_log = the oracle that rounds
     the exact ln and exp.  value_factor_ok, alpha_of: Props/GlueAcc.v; gm_small, gm_range_ok, mt_of_gmap: Props/Bridge.v.

   RANGE.  relativeAccuracy a with 10^-6 <= val a <= 0.99; gamma with 1.99e-6 <= ln gamma, gamma <= 256 and
   |indexOffset| <= 2^11 multiplier for NewLogarithmicMappingWithGamma. *)
From Coq Require Import Bool NArith ZArith QArith Qcanon Qcabs Reals List Permutation Sorted.
From Flocq Require Import Core.Core IEEE754.BinarySingleNaN IEEE754.Binary IEEE754.Bits.
From SK Require Import Base.Prelude Base.F64 Base.F64Proofs Mapping.Glue Mapping.GlueProofs Mapping.GlueAccuracy.
From SK.Real Require Import RBasics MapGeneric MapLog.
From SK Require Import Spec.Bins Spec.BinsProofs Spec.ASketch Store.Any Store.AnyProofs Stat.Summary
                       Sketch.Sketch Sketch.SketchProofs Sketch.RankProofs Sketch.RefineProofs
                       Sketch.RoundingInstance Sketch.BridgeProofs.
From SK Require Import Mapping.GlueCtor Mapping.GlueLog.
Import ListNotations.
Local Open Scope R_scope.

Local Notation finite x := (is_finite 53 1024 x = true).
Local Notation val x := (B2R 53 1024 x).
Local Notation normal_pos x := (is_finite 53 1024 x = true /\ Rle (bpow radix2 (-1022)) (B2R 53 1024 x)).

(* ------------------------------------------------------------------ *)
(* 0. the hypotheses and the error budgets, spelled out                *)
(* ------------------------------------------------------------------ *)
Example log_accurate_def L k :
  log_accurate L k = (forall x : f64, finite x -> 0 < val x ->
     finite (l_log L x) /\ Rabs (val (l_log L x) - ln (val x)) <= k * u53 * Rabs (ln (val x)) + k * u1075) := eq_refl.
Example exp_accurate_full_def L k :
  exp_accurate_full L k = (forall x : f64, finite x -> -709 <= val x -> exp (val x) <= pow2 1023 * (3 / 2) ->
     finite (l_exp L x) /\ Rabs (val (l_exp L x) - exp (val x)) <= k * u53 * exp (val x) + k * u1075) := eq_refl.
Example exp_underflow_ok_def L :
  exp_underflow_ok L = (forall x : f64, finite x -> val x <= -1000 ->
     finite (l_exp L x) /\ Rabs (val (l_exp L x)) <= bpow radix2 (-1022)) := eq_refl.
Example exp_sane_def L :
  exp_sane L = (forall x : f64, finite x -> finite (l_exp L x) \/ l_exp L x = f64_pinf) := eq_refl.
Example u1075_def : u1075 = bpow radix2 (-1075) := eq_refl.
Example log_reasonable_def m :
  log_reasonable m = (gm_kind m = MLog /\ finite (gm_mult m) /\ finite (gm_off m) /\
                      / 8 <= val (gm_mult m) <= 1048576 /\ Rabs (val (gm_off m)) <= 2048 * val (gm_mult m)) := eq_refl.
Example exp_range_def m j :
  exp_range m j = (-709 <= val (lower_arg m j) /\ exp (val (lower_arg m j)) <= pow2 1023 * (3 / 2)) := eq_refl.
Example omega_def m : omega m = Rabs (val (gm_off m)) / val (gm_mult m) := eq_refl.
Example eps_lo_def k m lam : eps_lo k m lam = u53 * ((k + 6) * lam + omega m + 3 * k + 20) := eq_refl.
Example eps_acc_def k m lam : eps_acc k m lam = u53 * (2 * (k + 6) * lam + 2 * omega m + 12 * k + 71) := eq_refl.
Example eps_a_def k lam : eps_a k lam = u53 * (2 * (k + 6) * lam + 12 * k + 73) := eq_refl.
Example q36_def : q36 = / 68719476736 := eq_refl.

(* |rnd x - x| <= 2^-53 |x| + 2^-1075, for every real x *)
Theorem GL_round_error (x : R) :
  Rabs (round radix2 (FLT_exp (-1074) 53) ZnearestE x - x) <= u53 * Rabs x + u1075.
Proof. exact (rndR_err_sub x). Qed.
Print Assumptions GL_round_error.

(* the logarithm of a finite positive float; of a positive normal float *)
Theorem GL_ln_float_bound (x : f64) : finite x -> 0 < val x -> -745 <= ln (val x) <= 7098 / 10.
Proof. exact (ln_float_bound x). Qed.
Print Assumptions GL_ln_float_bound.

Theorem GL_ln_normal_bound (x : f64) : normal_pos x -> -7084 / 10 <= ln (val x) <= 7098 / 10.
Proof. exact (ln_normal_bound x). Qed.
Print Assumptions GL_ln_normal_bound.

(* log_bounded (a premise of Bridge_C01_log_accuracy_rnd64) follows from accuracy *)
Theorem GL_log_bounded (L : libm) (k : R) : logm_ok L k -> log_bounded L.
Proof. exact (log_bounded_of_accurate L k). Qed.
Print Assumptions GL_log_bounded.

(* ------------------------------------------------------------------ *)
(* 1. Index and LowerBound of a logarithmic mapping against ln and exp *)
(* ------------------------------------------------------------------ *)
(* the float whose Go floor is Index v, against ln v * multiplier + indexOffset *)
Theorem GL_index_float (L : libm) (k : R) (m : gmap) (v : f64) :
  logm_ok L k -> log_reasonable m -> finite v -> 0 < val v ->
  finite (index_float L m v) /\
  Rabs (val (index_float L m v) - (ln (val v) * val (gm_mult m) + val (gm_off m)))
    <= val (gm_mult m) * (u53 * ((k + 3) * Rabs (ln (val v)) + omega m) + 25 * u100).
Proof. intros HL Hm. exact (lg_index_float_err L k HL m Hm v). Qed.
Print Assumptions GL_index_float.

(* tau (Index v) <= ln v + D and ln v - D <= tau (Index v + 1), D = 2^-53 ((k+3) |ln v| + omega) + 25 * 2^-100 *)
Theorem GL_index_brackets (L : libm) (k : R) (m : gmap) (v : f64) :
  logm_ok L k -> log_reasonable m -> finite v -> 0 < val v ->
  let i := gm_index L m v in
  let D := u53 * ((k + 3) * Rabs (ln (val v)) + omega m) + 25 * u100 in
  tau m i <= ln (val v) + D /\ ln (val v) - D <= tau m i + 1 / val (gm_mult m) /\
  Rabs (IZR i) <= 2794 * val (gm_mult m) + 1.
Proof. intros HL Hm. exact (lg_index_brackets L k HL m Hm v). Qed.
Print Assumptions GL_index_brackets.

(* the float argument of math.Exp in LowerBound(j): two roundings, relative to tau j itself (NOT to |j| + |off|) *)
Theorem GL_lower_arg (m : gmap) (j : Z) :
  log_reasonable m -> (Z.abs j <= 2 ^ 53)%Z ->
  finite (lower_arg m j) /\
  Rabs (val (lower_arg m j) - tau m j) <= (2 * u53 + u53 * u53) * Rabs (tau m j) + 10 * u100.
Proof. intros Hm. exact (lg_lower_arg_err m Hm j). Qed.
Print Assumptions GL_lower_arg.

Theorem GL_lower_value (L : libm) (k : R) (m : gmap) (j : Z) :
  logm_ok L k -> log_reasonable m -> (Z.abs j <= 2 ^ 53)%Z -> exp_range m j ->
  finite (gm_lower L m j) /\
  exp (val (lower_arg m j)) * (1 - 3 * (k * u53)) <= val (gm_lower L m j)
    <= exp (val (lower_arg m j)) * (1 + 3 * (k * u53)).
Proof. intros HL Hm. exact (lg_lower_val L k HL m Hm j). Qed.
Print Assumptions GL_lower_value.

(* T1. containment, and the bin of v has ratio exp (1/multiplier), all up to eps_lo (|ln v|) *)
Theorem GL_containment (L : libm) (k : R) (m : gmap) (v : f64) :
  logm_ok L k -> log_reasonable m -> finite v -> 0 < val v ->
  let i := gm_index L m v in
  let e := eps_lo k m (Rabs (ln (val v))) in
  (exp_range m i ->
     finite (gm_lower L m i) /\ 0 < val (gm_lower L m i) /\ val (gm_lower L m i) <= val v * (1 + e) /\
     val v <= val (gm_lower L m i) * exp (1 / val (gm_mult m)) * (1 + e)) /\
  (exp_range m (i + 1) ->
     finite (gm_lower L m (i + 1)) /\ val v <= val (gm_lower L m (i + 1)) * (1 + e)).
Proof. intros HL Hm. exact (lg_containment L k HL m Hm v). Qed.
Print Assumptions GL_containment.

(* T2. bin ratio, any index *)
Theorem GL_bin_ratio (L : libm) (k : R) (m : gmap) (j : Z) :
  logm_ok L k -> log_reasonable m -> (Z.abs j < 2 ^ 53)%Z -> exp_range m j -> exp_range m (j + 1) ->
  val (gm_lower L m (j + 1)) <= val (gm_lower L m j) * exp (1 / val (gm_mult m)) * (1 + (6 * k + 2860) * u53).
Proof. intros HL Hm. exact (lg_bin_ratio L k HL m Hm j). Qed.
Print Assumptions GL_bin_ratio.

(* the algebra of Value = LowerBound * (1 + alpha) with explicit excesses *)
Theorem GL_accuracy_algebra (v lo F Val g e eF eR : R) :
  0 < v -> 0 < lo -> 1 < g -> 0 <= e <= / 4194304 -> 0 <= eF <= / 4194304 -> 0 <= eR <= / 4194304 ->
  lo <= v * (1 + e) -> v <= lo * g * (1 + e) ->
  1 <= F -> Rabs (F - (1 + alpha_of g)) <= eF ->
  Rabs (Val - lo * F) <= eR * (lo * F) ->
  Rabs (Val - v) <= (alpha_of g + (2 * e + eF + 2 * eR) * (1 + q20)) * v.
Proof. exact (accuracy_algebra2 v lo F Val g e eF eR). Qed.
Print Assumptions GL_accuracy_algebra.

(* T3. |Value (Index v) - v| for any logarithmic mapping whose Value factor is 1 + alpha_of g0 up to eF *)
Theorem GL_value_accuracy (L : libm) (k : R) (m : gmap) (g0 eF : R) (v : f64) :
  logm_ok L k -> log_reasonable m ->
  exp (1 / val (gm_mult m)) <= g0 -> 0 <= eF <= / 4194304 -> value_factor_ok L m g0 eF ->
  finite v -> 0 < val v ->
  let i := gm_index L m v in
  exp_range m i -> finite (gm_value L m i) ->
  Rabs (val (gm_value L m i) - val v)
    <= (alpha_of g0 + (2 * eps_lo k m (Rabs (ln (val v))) + eF + 8 * u53) * (1 + q20)) * val v.
Proof. intros HL Hm. exact (lg_value_accuracy L k HL m Hm g0 eF v). Qed.
Print Assumptions GL_value_accuracy.

(* ------------------------------------------------------------------ *)
(* 2. NewLogarithmicMappingWithGamma (gamma, indexOffset)              *)
(* ------------------------------------------------------------------ *)
(* the constructor succeeds; multiplier = 1/ln gamma up to (k+3) ulps, bin ratio bound, range facts, and the
   factor of Value is 1 + alpha_of gamma up to 4 ulps (RelativeAccuracy() makes no call to the oracle) *)
Theorem GL_with_gamma_log (L : libm) (k : R) (g off : f64) :
  logm_ok L k -> finite g -> lmin <= ln (val g) -> 1 <= val g <= 256 ->
  finite off -> Rabs (val off) <= 2048 * val (multf_log L g) ->
  let m := mk_log L g off in
  with_gamma L MLog g off = Some m /\ log_reasonable m /\
  (finite (gm_min m) /\ finite (gm_max m) /\ bpow radix2 (-1022) <= val (gm_min m)) /\
  bpow radix2 (-1022) * val g * (1 - u53) <= val (gm_min m) /\
  val (gm_max m) <= bpow radix2 1023 * (7072 / 10000) * (1 + / val g) /\
  / 8 <= val (gm_mult m) <= 524288 /\
  ln (val g) * (1 - (k + 2) * u53) <= 1 / val (gm_mult m) <= ln (val g) * (1 + (k + 3) * u53) /\
  exp (1 / val (gm_mult m)) <= val g * (1 + 6 * (k + 3) * u53) /\
  value_factor_ok L m (val g) (4 * u53).
Proof. exact (with_gamma_log_summary L k g off). Qed.
Print Assumptions GL_with_gamma_log.

(* every finite v in (MinIndexableValue, MaxIndexableValue] is a normal float, its index is an int32, and
   LowerBound (Index v) calls math.Exp where it is accurate *)
Theorem GL_with_gamma_log_range (L : libm) (k : R) (g off v : f64) :
  logm_ok L k -> finite g -> lmin <= ln (val g) -> 1 <= val g <= 256 ->
  finite off -> Rabs (val off) <= 2048 * val (multf_log L g) ->
  let m := mk_log L g off in
  finite v -> val (gm_min m) < val v -> val v <= val (gm_max m) ->
  normal_pos v /\ exp_range m (gm_index L m v) /\ (-2147483648 <= gm_index L m v <= 2147483647)%Z.
Proof. intros HL Fg Hl Hg1 Fo Bo. exact (mk_log_in_range L k HL g Fg Hl Hg1 off Fo Bo v). Qed.
Print Assumptions GL_with_gamma_log_range.

(* containment and accuracy on the whole indexable range, no per-mapping premise *)
Theorem GL_with_gamma_log_accuracy (L : libm) (k : R) (g off v : f64) :
  logm_ok L k -> finite g -> lmin <= ln (val g) -> 1 <= val g <= 256 ->
  finite off -> Rabs (val off) <= 2048 * val (multf_log L g) ->
  let m := mk_log L g off in
  finite v -> val (gm_min m) < val v -> val v <= val (gm_max m) ->
  let i := gm_index L m v in
  let lam := Rabs (ln (val v)) in
  normal_pos v /\ exp_range m i /\ (-2147483648 <= i <= 2147483647)%Z /\ finite (gm_value L m i) /\
  finite (gm_lower L m i) /\
  val (gm_lower L m i) <= val v * (1 + eps_lo k m lam) /\
  val v <= val (gm_lower L m i) * exp (1 / val (gm_mult m)) * (1 + eps_lo k m lam) /\
  (exp_range m (i + 1) ->
     finite (gm_lower L m (i + 1)) /\ val v <= val (gm_lower L m (i + 1)) * (1 + eps_lo k m lam)) /\
  Rabs (val (gm_value L m i) - val v) <= (alpha_of (val g) + eps_acc k m lam) * val v.
Proof. intros HL Fg Hl Hg1 Fo Bo. exact (with_gamma_log_accuracy L k HL g Fg Hl Hg1 off Fo Bo v). Qed.
Print Assumptions GL_with_gamma_log_accuracy.

(* ------------------------------------------------------------------ *)
(* 3. NewLogarithmicMapping (relativeAccuracy) = NewDefaultMapping      *)
(* ------------------------------------------------------------------ *)
(* the constructor succeeds with indexOffset = 0; the mapping is log_reasonable / small / range_ok; gamma is the
   ideal (1+a)/(1-a) up to 4 ulps, alpha_of gamma is a up to 2 ulps, exp (1/multiplier) <= gamma (1 + 6 (k+3) ulps) *)
Theorem GL_with_accuracy_log (L : libm) (k : R) (a : f64) :
  logm_ok L k -> finite a -> / 1000000 <= val a <= 99 / 100 ->
  let m := acc_map_log L a in
  let gp := (1 + val a) / (1 - val a) in
  with_accuracy L MLog a = Some m /\ gm_kind m = MLog /\ gm_off m = f64_zero /\
  log_reasonable m /\ gm_small m /\ gm_range_ok m /\
  gp * (1 - 4 * u53) <= val (gm_gamma m) <= gp * (1 + 4 * u53) /\
  alpha_of (val (gm_gamma m)) <= val a + 2 * u53 /\
  exp (1 / val (gm_mult m)) <= val (gm_gamma m) * (1 + 6 * (k + 3) * u53) /\
  value_factor_ok L m (val (gm_gamma m)) (4 * u53).
Proof. exact (with_accuracy_log_summary L k a). Qed.
Print Assumptions GL_with_accuracy_log.

(* THE HEADLINE: for every finite v in (MinIndexableValue, MaxIndexableValue]: normal, index an int32, math.Exp
   called where it is accurate, Value finite, containment with e = 2^-53 ((k+6) |ln v| + 3k + 20), and
   |Value (Index v) - v| <= (a + eps_a k |ln v|) v <= (a + 2^-36) v *)
Theorem GL_with_accuracy_log_accuracy (L : libm) (k : R) (a v : f64) :
  logm_ok L k -> finite a -> / 1000000 <= val a <= 99 / 100 ->
  let m := acc_map_log L a in
  finite v -> val (gm_min m) < val v -> val v <= val (gm_max m) ->
  let i := gm_index L m v in
  let lam := Rabs (ln (val v)) in
  let e := u53 * ((k + 6) * lam + 3 * k + 20) in
  normal_pos v /\ exp_range m i /\ (-2147483648 <= i <= 2147483647)%Z /\
  finite (gm_value L m i) /\ finite (gm_lower L m i) /\
  val (gm_lower L m i) <= val v * (1 + e) /\
  val v <= val (gm_lower L m i) * exp (1 / val (gm_mult m)) * (1 + e) /\
  (exp_range m (i + 1) ->
     finite (gm_lower L m (i + 1)) /\ val v <= val (gm_lower L m (i + 1)) * (1 + e)) /\
  Rabs (val (gm_value L m i) - val v) <= (val a + eps_a k lam) * val v /\
  Rabs (val (gm_value L m i) - val v) <= (val a + q36) * val v.
Proof. intros HL Fa Ba. exact (with_accuracy_log_accuracy L k HL a Fa Ba v). Qed.
Print Assumptions GL_with_accuracy_log_accuracy.

(* the Qc form: the last premise of Bridge_C01_log_accuracy_rnd64 *)
Theorem GL_with_accuracy_log_accuracy_Qc (L : libm) (k : R) (a : f64) (alpha : Qc) (v : f64) :
  logm_ok L k -> finite a -> / 1000000 <= val a <= 99 / 100 ->
  let m := acc_map_log L a in
  val a + q36 <= qR alpha ->
  finite v -> (f2q (gm_min m) < f2q v)%Qc -> (f2q v <= f2q (gm_max m))%Qc ->
  (Qcabs (f2q (gm_value L m (gm_index L m v)) - f2q v) <= alpha * f2q v)%Qc.
Proof. intros HL Fa Ba. exact (acc_map_log_accuracy_Qc L k HL a Fa Ba alpha v). Qed.
Print Assumptions GL_with_accuracy_log_accuracy_Qc.

(* C01 end to end for the default mapping: the executed plain_add / plain_quantile on the mapping built by
   NewLogarithmicMapping (a) answer within alpha of an order statistic, for every rational alpha >= a + 2^-36, under
   hypotheses on the oracle only: accuracy of math.Log and math.Exp, and monotonicity of math.Log *)
Theorem GL_C01_log_end_to_end
  (L : libm) (k : R) (a : f64) (fx : fixes) (m : mapid) (kp kn : kind) (exact : bool)
  (vs : list f64) (ys : list Qc) (q : f64) (alpha : Qc) :
  logm_ok L k -> log_monotone L -> finite a -> / 1000000 <= val a <= 99 / 100 ->
  let g := acc_map_log L a in
  with_accuracy L MLog a = Some g ->
  val a + q36 <= qR alpha ->
  kind_limit kp = Exact -> kind_limit kn = Exact ->
  fD4 fx = true -> fD5 fx = true ->
  Forall (fun v => f_is_finite v = true) vs ->
  (forall v, In v vs -> (Qcabs (f2q v) <= f2q (gm_max g))%Qc) ->
  Permutation (map f2q vs) ys -> Sorted Qcle ys -> vs <> [] -> (Z.of_nat (length vs) <= 2 ^ 53)%Z ->
  fle f64_zero q = true -> fle q f64_one = true ->
  let mt := mt_of_gmap L g in
  exists s, plain_add_units mt (sk_new m kp kn exact) vs = ROk s /\ SkInv s /\
  exists (kk : nat) (s' : sketch) (y : Qc),
    (cfloor (f2q q * inj (Z.of_nat (length vs) - 1)) <= Z.of_nat kk <= cceil (f2q q * inj (Z.of_nat (length vs) - 1)))%Z /\
    (kk < length vs)%nat /\
    plain_quantile rnd64 fx mt s q = (s', ROk y) /\ SkInv s' /\ sk_abs s' = sk_abs s /\
    y = repr (am_of mt) (nth kk ys w0) /\
    (((Qcabs (nth kk ys w0) <= f2q (gm_min g))%Qc /\ y = w0) \/
     (Qcabs (y - nth kk ys w0) <= alpha * Qcabs (nth kk ys w0))%Qc).
Proof.
  intros HL Hmono Fa Ba g _ Ha. exact (C01_log_end_to_end L k HL a Fa Ba fx m kp kn exact vs ys q alpha Hmono Ha).
Qed.
Print Assumptions GL_C01_log_end_to_end.

(* ------------------------------------------------------------------ *)
(* 4. the hypotheses are satisfiable                                   *)
(* ------------------------------------------------------------------ *)
Example L_ideal_log_def :
  l_log L_ideal_log = (fun x => R2F (ln (val x))) /\
  l_exp L_ideal_log = (fun x => if Rle_dec (exp (val x)) (pow2 1023 * (3 / 2)) then R2F (exp (val x)) else f64_pinf).
Proof. split; reflexivity. Qed.

(* the oracle that rounds the exact ln and exp satisfies every hypothesis with k = 1, and is monotone *)
Theorem GL_ideal_oracle : logm_ok L_ideal_log 1.
Proof. exact L_ideal_log_ok. Qed.
Print Assumptions GL_ideal_oracle.

Theorem GL_ideal_oracle_monotone : log_monotone L_ideal_log.
Proof. exact L_ideal_log_monotone. Qed.
Print Assumptions GL_ideal_oracle_monotone.

Theorem GL_ideal_instance (a v : f64) :
  finite a -> / 1000000 <= val a <= 99 / 100 ->
  let m := acc_map_log L_ideal_log a in
  with_accuracy L_ideal_log MLog a = Some m /\
  (finite v -> val (gm_min m) < val v -> val v <= val (gm_max m) ->
   Rabs (val (gm_value L_ideal_log m (gm_index L_ideal_log m v)) - val v)
     <= (val a + u53 * (14 * Rabs (ln (val v)) + 85)) * val v).
Proof. exact (ideal_log_instance a v). Qed.
Print Assumptions GL_ideal_instance.
