(* Props/ProtoEdit — a caller editing a protobuf message it was handed (C09: the message forms; C14: what ToProto hands
   out is a value): statements only.  Model: Wire/ProtoEdit.v (pb_sketch_scale: every count multiplied by a binary64
   factor, as `p.ZeroCount *= f` etc. do in Go; the extracted function runs against the implementation at every
   `kpscale`, and the edited message keeps being compared at `kpobs` / `kfromproto`).
     pb_map_view l   = what a Go map holds after proto.Unmarshal of the entries l (last duplicate wins)
     store_content p = the (index, weight) pairs MergeWithProto feeds to AddWithCount
     grid53 k w      = w is z / 2^k with |z| <= 2^53;  gridv k z = z / 2^k *)
From Coq Require Import Bool ZArith QArith Qcanon Qcabs List.
From SK Require Import Base.Prelude Base.F64 Spec.Bins Wire.Proto Wire.ProtoEdit Wire.ProtoEditProofs Sketch.MiscProofs.
Import ListNotations.
Local Open Scope Z_scope.

Theorem C09_edit_commutes_with_map_view (f : f64) (l : list (Z * f64)) :
  pb_map_view (map (fun kv => (fst kv, fmul (snd kv) f)) l) = map (fun kv => (fst kv, fmul (snd kv) f)) (pb_map_view l).
Proof. exact (pb_map_view_scale f l). Qed.
Print Assumptions C09_edit_commutes_with_map_view.

Theorem C09_edit_keeps_shape (f : f64) (s : pb_store) :
  map fst (bin_counts (pb_store_scale f s)) = map fst (bin_counts s) /\
  length (contiguous_counts (pb_store_scale f s)) = length (contiguous_counts s) /\
  contiguous_offset (pb_store_scale f s) = contiguous_offset s.
Proof. exact (pb_store_scale_shape f s). Qed.
Print Assumptions C09_edit_keeps_shape.

Theorem C09_edit_keeps_mapping (f : f64) (m : pb_sketch) : ps_mapping (pb_sketch_scale f m) = ps_mapping m.
Proof. exact (pb_sketch_scale_mapping f m). Qed.
Print Assumptions C09_edit_keeps_mapping.

(* on the grid where binary64 products are exact, the edited message means the store with every weight multiplied *)
Theorem C09_edit_content_on_grid (k j : Z) (g : Qc) (l : list (Z * W)) :
  0 <= k -> 0 <= j -> k + j <= 1074 -> grid53 j g ->
  Forall (fun kw => grid53 k (snd kw) /\ (Qcabs (snd kw * g) <= gridv (k + j) (2 ^ 53))%Qc) l ->
  store_content (pb_store_scale (q2f g) (to_proto_sparse l)) = map (fun kw => (fst kw, (snd kw * g)%Qc)) l.
Proof. exact (scaled_message_content k j g l). Qed.
Print Assumptions C09_edit_content_on_grid.

(* non-vacuity: weights 3/2 and 5 at indexes 7 and -2, factor 1/2 *)
Example C09_edit_example :
  map (fun kw => (fst kw, this (snd kw)))
      (store_content (pb_store_scale (q2f (gridv 1 1)) (to_proto_sparse [(7, gridv 1 3); (-2, gridv 0 5)]))) =
  [(7, (3 # 4)%Q); (-2, (5 # 2)%Q)].
Proof. vm_compute. reflexivity. Qed.
