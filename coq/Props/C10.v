(* C10: the exact summary statistics (ddsketch/stat/summary.go, and how the wrapper
   DDSketchWithExactSummaryStatistics uses them), on the EXACT instance [xs_*] of Stat/Summary.v:
   the algorithm as written, run in ideal arithmetic.  Statements only; the proofs are in
   Stat/SummaryProofs.v (stdlib, axiom-free).

   Vocabulary (all defined in Stat/SummaryProofs.v):
     stats_of l     fold of Add(v, c) over the list l of (value, weight) pairs, from NewSummaryStatistics()
     tw l, ws l     Σ c_i and Σ v_i c_i ;  vals l = the values ;  lmin / lmax : option (least / greatest element)
     emin / emax    None ↦ +Inf / -Inf, Some m ↦ m
     WF s           s has the shape every history produces: finite count and sum, compensation 0,
                    simple sum = sum, (min, max) = (+Inf, -Inf) or finite with min <= max
     sop, run       histories (Add, Merge with the result of another history, Reweight, Rescale, Clear,
                    AddToCount, AddToSum) and their execution
     flatten h      the abstract content of a history: the (value, weight) pairs, plus the offsets that raw
                    AddToCount / AddToSum contribute to count and sum;  den a = the statistics it denotes
     ok_h           no Rescale by 0 (the only side condition of the history theorem)
     nn_h           weights >= 0, reweight / rescale factors > 0
     pure_h         no raw AddToCount / AddToSum *)
From SK Require Import Base.Prelude Base.F64 Stat.Summary Stat.SummaryProofs.
From SK Require Sketch.Sketch.
Open Scope Qc_scope.

(* ---- 1. the compensation term stays 0 ---- *)
(* one compensated step from a state with ANY finite compensation k: the new compensation
   (velvel - sum) - tmp is 0 and the new sum is exactly sum + (v - k) *)
Theorem swc_exact : forall (s : xsummary) (a k v : Qc),
  g_sum s = FFin a -> g_comp s = FFin k ->
  g_sum_with_comp fval xadd xsub s (FFin v) =
  {| g_count := g_count s; g_sum := FFin (a + (v - k)); g_comp := FFin w0; g_simple := g_simple s;
     g_min := g_min s; g_max := g_max s |}.
Proof. exact SummaryProofs.swc_exact. Qed.
Print Assumptions swc_exact.

Theorem comp_zero_add : forall (s : xsummary) (v c : Qc), Fin s -> g_comp (xs_add s (FFin v) (FFin c)) = FFin w0.
Proof. exact SummaryProofs.comp_zero_add. Qed.
Print Assumptions comp_zero_add.

Theorem comp_zero_merge : forall s o : xsummary, Fin s -> Fin o -> g_comp (xs_merge s o) = FFin w0.
Proof. exact SummaryProofs.comp_zero_merge. Qed.
Print Assumptions comp_zero_merge.

(* after every history (no side condition at all): compensation 0, Sum() = sum = simple sum *)
Theorem comp_zero : forall h : list sop,
  g_comp (run h xs_new) = FFin w0 /\ xs_get_sum (run h xs_new) = g_sum (run h xs_new) /\
  g_simple (run h xs_new) = g_sum (run h xs_new).
Proof. exact SummaryProofs.comp_zero. Qed.
Print Assumptions comp_zero.

(* "after every operation": every prefix of a history is a history *)
Theorem comp_zero_prefix : forall h1 h2 : list sop,
  g_comp (run h1 xs_new) = FFin w0 /\ g_comp (run (h1 ++ h2) xs_new) = FFin w0.
Proof. exact SummaryProofs.comp_zero_prefix. Qed.
Print Assumptions comp_zero_prefix.

Theorem run_Fin : forall h : list sop, Fin (run h xs_new).
Proof. exact SummaryProofs.run_Fin. Qed.
Print Assumptions run_Fin.

Theorem WF_facts : forall s : xsummary, WF s -> g_comp s = FFin w0 /\ xs_get_sum s = g_sum s /\ g_simple s = g_sum s.
Proof. exact SummaryProofs.WF_facts. Qed.
Print Assumptions WF_facts.

(* ---- 2. count = total weight, sum = weighted sum, min / max = extrema of ALL added values ---- *)
Theorem count_is_total_weight : forall l : list (Qc * Qc),
  g_count (stats_of l) = FFin (tw l) /\ g_sum (stats_of l) = FFin (ws l) /\
  xs_get_sum (stats_of l) = FFin (ws l) /\
  g_min (stats_of l) = emin (lmin (vals l)) /\ g_max (stats_of l) = emax (lmax (vals l)).
Proof. exact SummaryProofs.count_is_total_weight. Qed.
Print Assumptions count_is_total_weight.

Theorem minmax_empty : g_min (stats_of []) = FInf false /\ g_max (stats_of []) = FInf true.
Proof. exact SummaryProofs.minmax_empty. Qed.
Print Assumptions minmax_empty.

(* whatever the weights: Add(value, 0) still folds value into min / max *)
Theorem minmax_nonempty : forall l : list (Qc * Qc), l <> [] ->
  exists m M, g_min (stats_of l) = FFin m /\ g_max (stats_of l) = FFin M /\
              In m (vals l) /\ In M (vals l) /\ (forall v, In v (vals l) -> m <= v <= M).
Proof. exact SummaryProofs.minmax_nonempty. Qed.
Print Assumptions minmax_nonempty.

Theorem minmax_positive : forall l : list (Qc * Qc), l <> [] -> Forall (fun vc => w0 < snd vc) l ->
  exists m M cm cM, g_min (stats_of l) = FFin m /\ g_max (stats_of l) = FFin M /\
              In (m, cm) l /\ w0 < cm /\ In (M, cM) l /\ w0 < cM /\ (forall v c, In (v, c) l -> m <= v <= M).
Proof. exact SummaryProofs.minmax_positive. Qed.
Print Assumptions minmax_positive.

Theorem lmin_spec : forall (l : list Qc) (m : Qc), lmin l = Some m -> In m l /\ forall x, In x l -> m <= x.
Proof. exact SummaryProofs.lmin_spec. Qed.
Print Assumptions lmin_spec.
Theorem lmax_spec : forall (l : list Qc) (m : Qc), lmax l = Some m -> In m l /\ forall x, In x l -> x <= m.
Proof. exact SummaryProofs.lmax_spec. Qed.
Print Assumptions lmax_spec.
Theorem lmin_none : forall l : list Qc, lmin l = None <-> l = [].
Proof. exact SummaryProofs.lmin_none. Qed.
Print Assumptions lmin_none.
Theorem lmax_none : forall l : list Qc, lmax l = None <-> l = [].
Proof. exact SummaryProofs.lmax_none. Qed.
Print Assumptions lmax_none.

(* ---- 3. merge is union (all six fields) ---- *)
Theorem merge_is_union : forall l1 l2 : list (Qc * Qc), xs_merge (stats_of l1) (stats_of l2) = stats_of (l1 ++ l2).
Proof. exact SummaryProofs.merge_is_union. Qed.
Print Assumptions merge_is_union.

Theorem merge_new_r : forall s : xsummary, WF s -> xs_merge s xs_new = s.
Proof. exact SummaryProofs.merge_new_r. Qed.
Print Assumptions merge_new_r.

Theorem merge_new_l : forall s : xsummary, WF s -> xs_merge xs_new s = s.
Proof. exact SummaryProofs.merge_new_l. Qed.
Print Assumptions merge_new_l.

(* ---- 4. reweight ---- *)
Theorem reweight_algebra : forall (f : Qc) (l : list (Qc * Qc)), f <> w0 ->
  xs_reweight (stats_of l) (FFin f) = stats_of (map (fun '(v, c) => (v, f * c)) l).
Proof. exact SummaryProofs.reweight_algebra. Qed.
Print Assumptions reweight_algebra.

Theorem reweight_fields : forall (f : Qc) (l : list (Qc * Qc)), f <> w0 ->
  g_count (xs_reweight (stats_of l) (FFin f)) = FFin (f * tw l) /\
  g_sum (xs_reweight (stats_of l) (FFin f)) = FFin (f * ws l) /\
  g_min (xs_reweight (stats_of l) (FFin f)) = g_min (stats_of l) /\
  g_max (xs_reweight (stats_of l) (FFin f)) = g_max (stats_of l).
Proof. exact SummaryProofs.reweight_fields. Qed.
Print Assumptions reweight_fields.

Theorem reweight_one : forall s : xsummary, WF s -> xs_reweight s (FFin w1) = s.
Proof. exact SummaryProofs.reweight_one. Qed.
Print Assumptions reweight_one.

Theorem reweight_zero : forall s : xsummary, WF s -> xs_reweight s (FFin w0) = xs_new.
Proof. exact SummaryProofs.reweight_zero. Qed.
Print Assumptions reweight_zero.

(* ---- 5. rescale ---- *)
(* any non-zero factor: the statistics of the list with rescaled values (for f < 0 the map is
   decreasing, so the new min is f * old max and conversely: rescale_neg_fields) *)
Theorem rescale_algebra : forall (f : Qc) (l : list (Qc * Qc)), f <> w0 ->
  xs_rescale (stats_of l) (FFin f) = stats_of (map (fun '(v, c) => (f * v, c)) l).
Proof. exact SummaryProofs.rescale_algebra. Qed.
Print Assumptions rescale_algebra.

Theorem rescale_pos_fields : forall (f : Qc) (l : list (Qc * Qc)), w0 < f ->
  g_count (xs_rescale (stats_of l) (FFin f)) = FFin (tw l) /\
  g_sum (xs_rescale (stats_of l) (FFin f)) = FFin (f * ws l) /\
  g_min (xs_rescale (stats_of l) (FFin f)) = emin (option_map (Qcmult f) (lmin (vals l))) /\
  g_max (xs_rescale (stats_of l) (FFin f)) = emax (option_map (Qcmult f) (lmax (vals l))).
Proof. exact SummaryProofs.rescale_pos_fields. Qed.
Print Assumptions rescale_pos_fields.

Theorem rescale_neg_fields : forall (f : Qc) (l : list (Qc * Qc)), f < w0 ->
  g_count (xs_rescale (stats_of l) (FFin f)) = FFin (tw l) /\
  g_sum (xs_rescale (stats_of l) (FFin f)) = FFin (f * ws l) /\
  g_min (xs_rescale (stats_of l) (FFin f)) = emin (option_map (Qcmult f) (lmax (vals l))) /\
  g_max (xs_rescale (stats_of l) (FFin f)) = emax (option_map (Qcmult f) (lmin (vals l))).
Proof. exact SummaryProofs.rescale_neg_fields. Qed.
Print Assumptions rescale_neg_fields.

Theorem rescale_zero : forall l : list (Qc * Qc), tw l <> w0 ->
  g_count (xs_rescale (stats_of l) (FFin w0)) = FFin (tw l) /\
  g_sum (xs_rescale (stats_of l) (FFin w0)) = FFin w0 /\
  g_min (xs_rescale (stats_of l) (FFin w0)) = FFin w0 /\ g_max (xs_rescale (stats_of l) (FFin w0)) = FFin w0.
Proof. exact SummaryProofs.rescale_zero. Qed.
Print Assumptions rescale_zero.

(* ---- 6. empty exactly when nothing with positive weight was absorbed ---- *)
Theorem empty_iff : forall l : list (Qc * Qc), Forall (fun vc => w0 <= snd vc) l ->
  (g_count (stats_of l) = FFin w0 <-> Forall (fun vc => snd vc = w0) l).
Proof. exact SummaryProofs.empty_iff. Qed.
Print Assumptions empty_iff.

Theorem nonempty_positive : forall l : list (Qc * Qc),
  Forall (fun vc => w0 < snd vc) l -> l <> [] -> g_count (stats_of l) <> FFin w0.
Proof. exact SummaryProofs.nonempty_positive. Qed.
Print Assumptions nonempty_positive.

Theorem empty_iff_history : forall h : list sop, nn_h h ->
  (g_count (run h xs_new) = FFin w0 <->
   Forall (fun vc => snd vc = w0) (fl_items (flatten h)) /\ fl_cnt (flatten h) = w0).
Proof. exact SummaryProofs.empty_iff_history. Qed.
Print Assumptions empty_iff_history.

(* ---- 7. the quantile clamp ---- *)
Theorem clamp_bounds : forall v mn mx : Qc, mn <= mx -> mn <= clamp v mn mx <= mx.
Proof. exact SummaryProofs.clamp_bounds. Qed.
Print Assumptions clamp_bounds.

Theorem clamp_id : forall v mn mx : Qc, mn <= v <= mx -> clamp v mn mx = v.
Proof. exact SummaryProofs.clamp_id. Qed.
Print Assumptions clamp_id.

(* on the model's clamp (Sketch.clamp_stats, over the bit-exact summary t): the answer lies between the
   exact minimum and maximum and otherwise equals the plain sketch's answer v *)
Theorem quantile_clamp : forall (t : summary) (v mn mx : Qc),
  f2v (su_min t) = FFin mn -> f2v (su_max t) = FFin mx -> mn <= mx ->
  exists r, Sketch.clamp_stats t v = FFin r /\ mn <= r <= mx /\ (mn <= v <= mx -> r = v).
Proof. exact SummaryProofs.quantile_clamp. Qed.
Print Assumptions quantile_clamp.

(* ---- 8. decoding the statistics ---- *)
(* Encode's conditional emission followed by the decoder's AddToCount / AddToSum / Add(min, 0) / Add(max, 0)
   on a receiver r is MergeWith; into a fresh summary it is the identity *)
Theorem decode_is_merge : forall src r : xsummary, WF src -> WF r -> enc_dec src r = xs_merge r src.
Proof. exact SummaryProofs.decode_is_merge. Qed.
Print Assumptions decode_is_merge.

Theorem decode_roundtrip : forall src : xsummary, WF src -> enc_dec src xs_new = src.
Proof. exact SummaryProofs.decode_roundtrip. Qed.
Print Assumptions decode_roundtrip.

Theorem decode_statistics : forall (l : list (Qc * Qc)) (r : xsummary), l <> [] -> WF r ->
  exists n sm mn mx,
    g_count (stats_of l) = FFin n /\ xs_get_sum (stats_of l) = FFin sm /\
    g_min (stats_of l) = FFin mn /\ g_max (stats_of l) = FFin mx /\
    run (decode_ops n sm mn mx) xs_new = stats_of l /\
    run (decode_ops n sm mn mx) r = xs_merge r (stats_of l).
Proof. exact SummaryProofs.decode_statistics. Qed.
Print Assumptions decode_statistics.

(* ---- 9. exact across every operation, after any history ---- *)
Theorem run_is_flatten : forall h : list sop, ok_h h -> run h xs_new = den (flatten h).
Proof. exact SummaryProofs.run_is_flatten. Qed.
Print Assumptions run_is_flatten.

Theorem den_closed : forall a : flat,
  den a = {| g_count := FFin (tw (fl_items a) + fl_cnt a); g_sum := FFin (ws (fl_items a) + fl_sum a);
             g_comp := FFin w0; g_simple := FFin (ws (fl_items a) + fl_sum a);
             g_min := emin (lmin (vals (fl_items a))); g_max := emax (lmax (vals (fl_items a))) |}.
Proof. exact SummaryProofs.den_closed. Qed.
Print Assumptions den_closed.

Theorem run_is_stats_of_flatten : forall h : list sop, ok_h h -> pure_h h ->
  run h xs_new = stats_of (fl_items (flatten h)).
Proof. exact SummaryProofs.run_is_stats_of_flatten. Qed.
Print Assumptions run_is_stats_of_flatten.

Theorem nn_ok : forall h : list sop, nn_h h -> ok_h h.
Proof. exact SummaryProofs.nn_ok. Qed.
Print Assumptions nn_ok.

(* ---- a concrete history of 6 operations ---- *)
Definition q (n : Z) (d : positive) : Qc := Q2Qc (n # d).
Definition h6 : list sop :=
  [SAdd (q 2 1) (q 3 1); SAdd (q (-1) 1) (q 1 1); SMerge [SAdd (q 5 1) (q 2 1); SAdd (q 7 1) (q 0 1)];
   SReweight (q 1 2); SRescale (q (-2) 1); SAdd (q 1 1) (q 1 2)].
Example h6_run :
  run h6 xs_new =
  {| g_count := FFin (q 7 2); g_sum := FFin (q (-29) 2); g_comp := FFin w0; g_simple := FFin (q (-29) 2);
     g_min := FFin (q (-14) 1); g_max := FFin (q 2 1) |}.
Proof. apply xs_eqb_eq. vm_compute. reflexivity. Qed.
(* ... and it agrees with the statistics of its flattened content, by computation *)
Example h6_flatten :
  xs_eqb (run h6 xs_new) (stats_of (fl_items (flatten h6))) = true /\
  map (fun vc => (this (fst vc), this (snd vc))) (fl_items (flatten h6)) =
  [((-4 # 1)%Q, (3 # 2)%Q); ((2 # 1)%Q, (1 # 2)%Q); ((-10 # 1)%Q, (1 # 1)%Q); ((-14 # 1)%Q, (0 # 1)%Q); ((1 # 1)%Q, (1 # 2)%Q)].
Proof. vm_compute. split; reflexivity. Qed.
