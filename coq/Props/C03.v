(* Props/C03 — the index mappings over R (ideal arithmetic): statements only.
   Definitions and proofs: SK.Real.{RBasics,MapGeneric,Binade,MapLog,MapLin,MapCub,Ctor}.
   Notation reminder (all are plain definitions, unfold them to read the statements):
     floorZ x            = Int_part x                      (floor, Z-valued)
     pow2 e              = powerRZ 2 e
     bval e s            = pow2 e * (1 + s)                (the real denoted by the pair (e,s))
     bexp v, bsig v      = floorZ (ln v / ln 2),  v / pow2 (bexp v) - 1
     Pcub s              = 6/35 s^3 - 3/5 s^2 + 10/7 s
     L_lin v, L_cub v    = IZR (bexp v) + bsig v,  IZR (bexp v) + Pcub (bsig v)
     mult_log g          = 1 / ln g;      mult_log2 g = ln 2 / ln g
     idx_K g o v         = floorZ (L_K v * mult_K g + o)
     lower_K g o i       = L_K^-1 ((IZR i - o) / mult_K g)
                           (exp; 2^floor t * (1 + frac t); 2^floor t * (1 + Pcub^-1 (frac t)),
                            Pcub^-1 from the intermediate value theorem)
     value_K g o a i     = lower_K g o i * (1 + a)
     gamma0_lin g        = Rpower g (1 / ln 2);   gamma0_cub g = Rpower g (7 / (10 * ln 2))
     alpha_of g0         = (g0 - 1) / (g0 + 1)
     gamma0_ctor a       = (1 + a) / (1 - a)
     gamma_{log,lin,cub}_ctor a = gamma0_ctor a, Rpower (gamma0_ctor a) (ln 2),
                                  Rpower (gamma0_ctor a) (10 * ln 2 / 7)
     relacc_{log,lin,cub} g     = the three RelativeAccuracy() formulas. *)
From Coq Require Import Reals ZArith.
From SK.Real Require Import RBasics MapGeneric Binade MapLog MapLin MapCub Ctor.
Open Scope R_scope.

(* ------------------------------------------------------------------ *)
(** * binade decomposition (used by the two interpolated kinds)        *)

Theorem C03_binade_exists : forall v : R,
  0 < v -> 0 <= bsig v < 1 /\ v = bval (bexp v) (bsig v).
Proof. exact bdecomp. Qed.
Print Assumptions C03_binade_exists.

Theorem C03_binade_unique : forall (e : Z) (s : R),
  0 <= s < 1 -> bexp (bval e s) = e /\ bsig (bval e s) = s.
Proof. intros e s Hs; split; [apply bexp_bval | apply bsig_bval]; exact Hs. Qed.
Print Assumptions C03_binade_unique.

Theorem C03_bval_lex : forall (e1 e2 : Z) (s1 s2 : R),
  0 <= s1 < 1 -> 0 <= s2 < 1 ->
  (e1 < e2)%Z \/ (e1 = e2 /\ s1 < s2) -> bval e1 s1 < bval e2 s2.
Proof. exact bval_lex. Qed.
Print Assumptions C03_bval_lex.

Theorem C03_bval_carry : forall e : Z, bval e 1 = bval (e + 1) 0.
Proof. exact bval_carry. Qed.
Print Assumptions C03_bval_carry.

(* ------------------------------------------------------------------ *)
(** * logarithmic mapping                                              *)

Theorem C03_log_L_incr : forall x y : R, 0 < x -> x < y -> ln x < ln y.
Proof. exact L_log_incr. Qed.
Print Assumptions C03_log_L_incr.

Theorem C03_log_growth : forall x y : R, 0 < x -> x <= y -> ln y - ln x = 1 * (ln y - ln x).
Proof. exact L_log_growth. Qed.
Print Assumptions C03_log_growth.

Theorem C03_log_idx_mono : forall gamma o x y : R,
  1 < gamma -> 0 < x -> x <= y -> (idx_log gamma o x <= idx_log gamma o y)%Z.
Proof. exact idx_log_mono. Qed.
Print Assumptions C03_log_idx_mono.

Theorem C03_log_lower_char : forall (gamma o : R) (i : Z),
  0 < lower_log gamma o i /\
  ln (lower_log gamma o i) = (IZR i - o) / mult_log gamma /\
  (forall w : R, 0 < w -> ln w = (IZR i - o) / mult_log gamma -> w = lower_log gamma o i).
Proof.
  intros gamma o i; split; [apply lower_log_pos | split; [apply L_lower_log | apply lower_log_unique]].
Qed.
Print Assumptions C03_log_lower_char.

Theorem C03_log_containment : forall gamma o v : R,
  1 < gamma -> 0 < v ->
  lower_log gamma o (idx_log gamma o v) <= v < lower_log gamma o (idx_log gamma o v + 1).
Proof. exact containment_log. Qed.
Print Assumptions C03_log_containment.

Theorem C03_log_idx_unique : forall (gamma o v : R) (i : Z),
  1 < gamma -> 0 < v ->
  lower_log gamma o i <= v < lower_log gamma o (i + 1) -> idx_log gamma o v = i.
Proof. exact idx_log_unique. Qed.
Print Assumptions C03_log_idx_unique.

Theorem C03_log_bin_ratio : forall (gamma o : R) (i : Z),
  1 < gamma -> lower_log gamma o (i + 1) / lower_log gamma o i <= gamma.
Proof. exact bin_ratio_log. Qed.
Print Assumptions C03_log_bin_ratio.

Theorem C03_log_accuracy : forall gamma o v : R,
  1 < gamma -> 0 < v ->
  Rabs (value_log gamma o (alpha_of gamma) (idx_log gamma o v) - v) <= alpha_of gamma * v.
Proof. exact accuracy_log. Qed.
Print Assumptions C03_log_accuracy.

Theorem C03_log_lower_value_incr : forall (gamma o a : R) (i j : Z),
  1 < gamma -> -1 < a -> (i < j)%Z ->
  lower_log gamma o i < lower_log gamma o j /\ value_log gamma o a i < value_log gamma o a j.
Proof. intros gamma o a i j Hg Ha Hij; split; [apply lower_log_incr | apply value_log_incr]; assumption. Qed.
Print Assumptions C03_log_lower_value_incr.

Theorem C03_log_int32 : forall gamma o v : R,
  1 < gamma ->
  exp ((- 2 ^ 31 - o) / mult_log gamma + 1) <= v ->
  v <= exp ((2 ^ 31 - 1 - o) / mult_log gamma - 1) ->
  (- 2 ^ 31 <= idx_log gamma o v <= 2 ^ 31 - 1)%Z.
Proof. exact idx_log_int32. Qed.
Print Assumptions C03_log_int32.

(* ------------------------------------------------------------------ *)
(** * linearly interpolated mapping                                    *)

(** the function on R agrees with the pair form for every representation, s = 1 included *)
Theorem C03_lin_pair : forall (e : Z) (s : R), 0 <= s <= 1 -> L_lin (bval e s) = IZR e + s.
Proof. exact L_lin_bval. Qed.
Print Assumptions C03_lin_pair.

Theorem C03_lin_L_incr : forall x y : R, 0 < x -> x < y -> L_lin x < L_lin y.
Proof. exact L_lin_incr. Qed.
Print Assumptions C03_lin_L_incr.

Theorem C03_lin_growth : forall x y : R, 0 < x -> x <= y -> ln y - ln x <= L_lin y - L_lin x.
Proof. exact L_lin_growth. Qed.
Print Assumptions C03_lin_growth.

(** within one binade, on pairs (the statement of the prototype) *)
Theorem C03_lin_growth_binade : forall (e : Z) (s t : R),
  0 <= s -> s <= t -> t <= 1 ->
  ln (bval e t) - ln (bval e s) <= (IZR e + t) - (IZR e + s).
Proof. exact llin_growth_binade. Qed.
Print Assumptions C03_lin_growth_binade.

Theorem C03_lin_idx_mono : forall gamma o : R, 1 < gamma -> forall x y : R,
  0 < x -> x <= y -> (idx_lin gamma o x <= idx_lin gamma o y)%Z.
Proof. exact idx_lin_mono. Qed.
Print Assumptions C03_lin_idx_mono.

Theorem C03_lin_lower_char : forall (gamma o : R) (i : Z),
  0 < lower_lin gamma o i /\
  L_lin (lower_lin gamma o i) = (IZR i - o) / mult_log2 gamma /\
  (forall w : R, 0 < w -> L_lin w = (IZR i - o) / mult_log2 gamma -> w = lower_lin gamma o i).
Proof.
  intros gamma o i; split; [apply lower_lin_pos | split; [apply L_lower_lin | apply lower_lin_unique]].
Qed.
Print Assumptions C03_lin_lower_char.

(** [lower_lin] is the Go approximateInverseLog: 2^floor t * (1 + (t - floor t)) *)
Theorem C03_lin_lower_formula : forall (gamma o : R) (i : Z),
  let t := (IZR i - o) / mult_log2 gamma in
  lower_lin gamma o i = pow2 (floorZ t) * (1 + (t - IZR (floorZ t))).
Proof. intros gamma o i; reflexivity. Qed.
Print Assumptions C03_lin_lower_formula.

Theorem C03_lin_containment : forall gamma o : R, 1 < gamma -> forall v : R,
  0 < v ->
  lower_lin gamma o (idx_lin gamma o v) <= v < lower_lin gamma o (idx_lin gamma o v + 1).
Proof. exact containment_lin. Qed.
Print Assumptions C03_lin_containment.

Theorem C03_lin_idx_unique : forall gamma o : R, 1 < gamma -> forall (v : R) (i : Z),
  0 < v -> lower_lin gamma o i <= v < lower_lin gamma o (i + 1) -> idx_lin gamma o v = i.
Proof. exact idx_lin_unique. Qed.
Print Assumptions C03_lin_idx_unique.

Theorem C03_lin_bin_ratio : forall gamma o : R, 1 < gamma -> forall i : Z,
  lower_lin gamma o (i + 1) / lower_lin gamma o i <= Rpower gamma (1 / ln 2).
Proof. exact bin_ratio_lin. Qed.
Print Assumptions C03_lin_bin_ratio.

Theorem C03_lin_accuracy : forall gamma o : R, 1 < gamma -> forall v : R,
  0 < v ->
  Rabs (value_lin gamma o (alpha_of (gamma0_lin gamma)) (idx_lin gamma o v) - v)
    <= alpha_of (gamma0_lin gamma) * v.
Proof. exact accuracy_lin. Qed.
Print Assumptions C03_lin_accuracy.

Theorem C03_lin_lower_value_incr : forall (gamma o a : R) (i j : Z),
  1 < gamma -> -1 < a -> (i < j)%Z ->
  lower_lin gamma o i < lower_lin gamma o j /\ value_lin gamma o a i < value_lin gamma o a j.
Proof. intros gamma o a i j Hg Ha Hij; split; [apply lower_lin_incr | apply value_lin_incr]; assumption. Qed.
Print Assumptions C03_lin_lower_value_incr.

Theorem C03_lin_int32 : forall gamma o : R, 1 < gamma -> forall v : R,
  Rpower 2 ((- 2 ^ 31 - o) / mult_log2 gamma + 1) <= v ->
  v <= Rpower 2 ((2 ^ 31 - 1 - o) / mult_log2 gamma - 1) ->
  (- 2 ^ 31 <= idx_lin gamma o v <= 2 ^ 31 - 1)%Z.
Proof. exact idx_lin_int32. Qed.
Print Assumptions C03_lin_int32.

(* ------------------------------------------------------------------ *)
(** * cubically interpolated mapping                                   *)

Theorem C03_cubic_fact : forall s : R,
  0 <= s -> 10 / 7 <= (3 * (6 / 35) * s ^ 2 + 2 * (- 3 / 5) * s + 10 / 7) * (1 + s).
Proof. exact cubic_fact. Qed.
Print Assumptions C03_cubic_fact.

Theorem C03_cub_pair : forall (e : Z) (s : R),
  0 <= s <= 1 -> L_cub (bval e s) = IZR e + (6 / 35 * s ^ 3 + - 3 / 5 * s ^ 2 + 10 / 7 * s).
Proof. exact L_cub_bval. Qed.
Print Assumptions C03_cub_pair.

Theorem C03_cub_L_incr : forall x y : R, 0 < x -> x < y -> L_cub x < L_cub y.
Proof. exact L_cub_incr. Qed.
Print Assumptions C03_cub_L_incr.

Theorem C03_cub_growth : forall x y : R,
  0 < x -> x <= y -> 10 / 7 * (ln y - ln x) <= L_cub y - L_cub x.
Proof. exact L_cub_growth. Qed.
Print Assumptions C03_cub_growth.

(** within one binade: g(s) = P s - (10/7) ln (1+s) is non-decreasing on [0, oo) *)
Theorem C03_cub_growth_binade : forall s t : R,
  0 <= s -> s <= t -> 10 / 7 * (ln (1 + t) - ln (1 + s)) <= Pcub t - Pcub s.
Proof. exact Pcub_growth. Qed.
Print Assumptions C03_cub_growth_binade.

Theorem C03_cub_idx_mono : forall gamma o : R, 1 < gamma -> forall x y : R,
  0 < x -> x <= y -> (idx_cub gamma o x <= idx_cub gamma o y)%Z.
Proof. exact idx_cub_mono. Qed.
Print Assumptions C03_cub_idx_mono.

Theorem C03_cub_lower_char : forall (gamma o : R) (i : Z),
  0 < lower_cub gamma o i /\
  L_cub (lower_cub gamma o i) = (IZR i - o) / mult_log2 gamma /\
  (forall w : R, 0 < w -> L_cub w = (IZR i - o) / mult_log2 gamma -> w = lower_cub gamma o i).
Proof.
  intros gamma o i; split; [apply lower_cub_pos | split; [apply L_lower_cub | apply lower_cub_unique]].
Qed.
Print Assumptions C03_cub_lower_char.

Theorem C03_cub_containment : forall gamma o : R, 1 < gamma -> forall v : R,
  0 < v ->
  lower_cub gamma o (idx_cub gamma o v) <= v < lower_cub gamma o (idx_cub gamma o v + 1).
Proof. exact containment_cub. Qed.
Print Assumptions C03_cub_containment.

Theorem C03_cub_idx_unique : forall gamma o : R, 1 < gamma -> forall (v : R) (i : Z),
  0 < v -> lower_cub gamma o i <= v < lower_cub gamma o (i + 1) -> idx_cub gamma o v = i.
Proof. exact idx_cub_unique. Qed.
Print Assumptions C03_cub_idx_unique.

Theorem C03_cub_bin_ratio : forall gamma o : R, 1 < gamma -> forall i : Z,
  lower_cub gamma o (i + 1) / lower_cub gamma o i <= Rpower gamma (7 / (10 * ln 2)).
Proof. exact bin_ratio_cub. Qed.
Print Assumptions C03_cub_bin_ratio.

Theorem C03_cub_accuracy : forall gamma o : R, 1 < gamma -> forall v : R,
  0 < v ->
  Rabs (value_cub gamma o (alpha_of (gamma0_cub gamma)) (idx_cub gamma o v) - v)
    <= alpha_of (gamma0_cub gamma) * v.
Proof. exact accuracy_cub. Qed.
Print Assumptions C03_cub_accuracy.

Theorem C03_cub_lower_value_incr : forall (gamma o a : R) (i j : Z),
  1 < gamma -> -1 < a -> (i < j)%Z ->
  lower_cub gamma o i < lower_cub gamma o j /\ value_cub gamma o a i < value_cub gamma o a j.
Proof. intros gamma o a i j Hg Ha Hij; split; [apply lower_cub_incr | apply value_cub_incr]; assumption. Qed.
Print Assumptions C03_cub_lower_value_incr.

Theorem C03_cub_int32 : forall gamma o : R, 1 < gamma -> forall v : R,
  Rpower 2 ((- 2 ^ 31 - o) / mult_log2 gamma + 1) <= v ->
  v <= Rpower 2 ((2 ^ 31 - 1 - o) / mult_log2 gamma - 1) ->
  (- 2 ^ 31 <= idx_cub gamma o v <= 2 ^ 31 - 1)%Z.
Proof. exact idx_cub_int32. Qed.
Print Assumptions C03_cub_int32.

(* ------------------------------------------------------------------ *)
(** * constructors and RelativeAccuracy()                               *)

Theorem C03_ctor_gamma_gt1 : forall a : R, 0 < a < 1 ->
  1 < gamma_log_ctor a /\ 1 < gamma_lin_ctor a /\ 1 < gamma_cub_ctor a.
Proof.
  intros a Ha; split; [apply gamma_log_ctor_gt1 | split; [apply gamma_lin_ctor_gt1 | apply gamma_cub_ctor_gt1]];
    exact Ha.
Qed.
Print Assumptions C03_ctor_gamma_gt1.

Theorem C03_relacc_log_ctor : forall a : R, 0 < a < 1 ->
  1 - 2 / (1 + (1 + a) / (1 - a)) = a.
Proof. exact relacc_log_ctor. Qed.
Print Assumptions C03_relacc_log_ctor.

Theorem C03_relacc_lin_ctor : forall a : R, 0 < a < 1 ->
  1 - 2 / (1 + exp (ln (Rpower ((1 + a) / (1 - a)) (ln 2)) / ln 2)) = a.
Proof. exact relacc_lin_ctor. Qed.
Print Assumptions C03_relacc_lin_ctor.

Theorem C03_relacc_cub_ctor : forall a : R, 0 < a < 1 ->
  1 - 2 / (1 + exp (7 / 10 * (ln (Rpower ((1 + a) / (1 - a)) (10 * ln 2 / 7)) / ln 2))) = a.
Proof. exact relacc_cub_ctor. Qed.
Print Assumptions C03_relacc_cub_ctor.

(** RelativeAccuracy() is alpha_of (adjusted gamma), for EVERY gamma > 1 (not only built ones) *)
Theorem C03_relacc_alpha : forall gamma : R, 1 < gamma ->
  relacc_log gamma = alpha_of gamma /\
  relacc_lin gamma = alpha_of (gamma0_lin gamma) /\
  relacc_cub gamma = alpha_of (gamma0_cub gamma).
Proof.
  intros gamma Hg; split; [apply relacc_log_alpha | split; [apply relacc_lin_alpha | apply relacc_cub_alpha]];
    exact Hg.
Qed.
Print Assumptions C03_relacc_alpha.

(** accuracy with Value(i) = LowerBound(i) * (1 + RelativeAccuracy()), any gamma > 1, any offset *)
Theorem C03_log_accuracy_relacc : forall gamma o v : R,
  1 < gamma -> 0 < v ->
  Rabs (value_log gamma o (relacc_log gamma) (idx_log gamma o v) - v) <= relacc_log gamma * v.
Proof. exact accuracy_log_relacc. Qed.
Print Assumptions C03_log_accuracy_relacc.

Theorem C03_lin_accuracy_relacc : forall gamma o v : R,
  1 < gamma -> 0 < v ->
  Rabs (value_lin gamma o (relacc_lin gamma) (idx_lin gamma o v) - v) <= relacc_lin gamma * v.
Proof. exact accuracy_lin_relacc. Qed.
Print Assumptions C03_lin_accuracy_relacc.

Theorem C03_cub_accuracy_relacc : forall gamma o v : R,
  1 < gamma -> 0 < v ->
  Rabs (value_cub gamma o (relacc_cub gamma) (idx_cub gamma o v) - v) <= relacc_cub gamma * v.
Proof. exact accuracy_cub_relacc. Qed.
Print Assumptions C03_cub_accuracy_relacc.

(** end to end: the mapping built for alpha is alpha-accurate *)
Theorem C03_log_accuracy_ctor : forall a o v : R, 0 < a < 1 -> 0 < v ->
  Rabs (value_log (gamma_log_ctor a) o a (idx_log (gamma_log_ctor a) o v) - v) <= a * v.
Proof. exact accuracy_log_ctor. Qed.
Print Assumptions C03_log_accuracy_ctor.

Theorem C03_lin_accuracy_ctor : forall a o v : R, 0 < a < 1 -> 0 < v ->
  Rabs (value_lin (gamma_lin_ctor a) o a (idx_lin (gamma_lin_ctor a) o v) - v) <= a * v.
Proof. exact accuracy_lin_ctor. Qed.
Print Assumptions C03_lin_accuracy_ctor.

Theorem C03_cub_accuracy_ctor : forall a o v : R, 0 < a < 1 -> 0 < v ->
  Rabs (value_cub (gamma_cub_ctor a) o a (idx_cub (gamma_cub_ctor a) o v) - v) <= a * v.
Proof. exact accuracy_cub_ctor. Qed.
Print Assumptions C03_cub_accuracy_ctor.
