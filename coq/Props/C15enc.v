(* C15, the encoding clause: "a cleared sketch or store is indistinguishable from a new one" ON THE WIRE.
   The harness compares Encode of a cleared sketch with Encode of a freshly constructed one, byte for byte;
   Props/Refine.v (Rf_st_clear, Rf_st_clear_like_new, Rf_sk_clear) covers content, kind and later histories,
   this file covers the bytes. Statements only; the proofs are in Wire/ClearEncProofs.v.
   All five store kinds (dense, collapsing-lowest, collapsing-highest, sparse, buffered-paginated), every flag
   type the encoder is given (positive / negative side), both variants of the sketch (plain, exact summary
   statistics), the mapping embedded or omitted. What Clear RETAINS (the dense store's offset, the paginated
   store's page table and trigger: see C15enc_ex_clear_is_not_new below) does not reach the wire:
     - a cleared store emits no byte at all, like a new one (C15_store_clear_encodes_nothing);
     - a cleared sketch emits the mapping block and nothing else, like a new one (C15_sketch_clear_bytes);
     - the same holds for what the encoder hands back (the paginated encoder compacts and returns the
       compacted store), so encoding a cleared sketch twice gives the same bytes (.._encodes_again).
   The invariants StInv / SkInv are the hypotheses C15 quantifies over; the proofs do not use them (the
   .._nothing / .._bytes forms are stated without).
   Vocabulary: sk_is_exact (Wire/ClearEncProofs.v), restated below as a checked equation; StInv, st_kind, SkInv
   as in Props/Refine.v.
   Only the four axioms of the stdlib real numbers (through Flocq, in the codec the statements mention) appear. *)
From Coq Require Import Bool NArith ZArith List.
From Flocq Require Import IEEE754.BinarySingleNaN IEEE754.Binary IEEE754.Bits.
From SK Require Import Codec.Codec.
From SK Require Codec.Varfloat.
From SK Require Import Base.Prelude Base.F64 Spec.Bins Spec.BinsProofs Store.Any Stat.Summary Sketch.Sketch.
From SK Require Import Store.AnyProofs Sketch.RefineProofs.
From SK Require Import Wire.Wire Wire.ClearEncProofs.
Import ListNotations.
Close Scope Z_scope.
Close Scope N_scope.
Open Scope nat_scope.
Open Scope list_scope.

(* ---------------- vocabulary ---------------- *)
Example sk_is_exact_def s : sk_is_exact s = match sk_stats s with Some _ => true | None => false end := eq_refl.
Example enc_store_type : (enc_store : store -> N -> store * list byte) = enc_store := eq_refl.
Example enc_sketch_type : (enc_sketch : sketch -> bool -> sketch * list byte) = enc_sketch := eq_refl.

(* ================================================================== *)
(* Stores                                                              *)
(* ================================================================== *)
(* (1) the bytes of a cleared store are the bytes of a new store of the same kind; [t] is the flag type the
       sketch passes (ft_positive / ft_negative), any value *)
Theorem C15_store_clear_encodes_like_new :
  forall (s : store) (t : N), StInv s ->
  snd (enc_store (st_clear s) t) = snd (enc_store (st_new (st_kind s)) t).
Proof. exact enc_store_clear_like_new. Qed.
Print Assumptions C15_store_clear_encodes_like_new.

(* explicitly: no byte, for a cleared store and for a new one *)
Theorem C15_store_clear_encodes_nothing : forall (s : store) (t : N), snd (enc_store (st_clear s) t) = [].
Proof. exact enc_store_clear_empty. Qed.
Print Assumptions C15_store_clear_encodes_nothing.
Theorem C15_store_new_encodes_nothing : forall (k : kind) (t : N), snd (enc_store (st_new k) t) = [].
Proof. exact enc_store_new_empty. Qed.
Print Assumptions C15_store_new_encodes_nothing.

(* the store the encoder returns (compacted, for the paginated kind) encodes to nothing again *)
Theorem C15_store_clear_encodes_again :
  forall (s : store) (t t' : N), snd (enc_store (fst (enc_store (st_clear s) t)) t') = [].
Proof. exact enc_store_clear_again. Qed.
Print Assumptions C15_store_clear_encodes_again.

(* ================================================================== *)
(* Sketch, both variants, the mapping embedded (omit = false) or not    *)
(* ================================================================== *)
(* (2) the bytes of a cleared sketch are the bytes of the new sketch with the same mapping identity, store
       kinds and variant *)
Theorem C15_sketch_clear_encodes_like_new :
  forall (s : sketch) (omit : bool), SkInv s ->
  snd (enc_sketch (sk_clear s) omit) =
  snd (enc_sketch (sk_new (sk_map s) (st_kind (sk_pos s)) (st_kind (sk_neg s)) (sk_is_exact s)) omit).
Proof. exact enc_sketch_clear_like_new. Qed.
Print Assumptions C15_sketch_clear_encodes_like_new.

(* explicitly: the mapping block alone; no statistics block (count 0, sum 0, min +inf, max -inf are the
   neutral values the encoder omits), no zero count, no bins *)
Theorem C15_sketch_clear_bytes :
  forall (s : sketch) (omit : bool),
  snd (enc_sketch (sk_clear s) omit) = if omit then [] else enc_mapping (sk_map s).
Proof. exact enc_sketch_clear_bytes. Qed.
Print Assumptions C15_sketch_clear_bytes.
Theorem C15_sketch_new_bytes :
  forall (m : mapid) (kp kn : kind) (exact omit : bool),
  snd (enc_sketch (sk_new m kp kn exact) omit) = if omit then [] else enc_mapping m.
Proof. exact enc_sketch_new_bytes. Qed.
Print Assumptions C15_sketch_new_bytes.

(* Encode returns the sketch with its stores reorganised; encoding that again gives the same bytes *)
Theorem C15_sketch_clear_encodes_again :
  forall (s : sketch) (omit omit' : bool),
  snd (enc_sketch (fst (enc_sketch (sk_clear s) omit)) omit') = if omit' then [] else enc_mapping (sk_map s).
Proof. exact enc_sketch_clear_again. Qed.
Print Assumptions C15_sketch_clear_encodes_again.

(* ================================================================== *)
(* (3) Concrete runs                                                   *)
(* ================================================================== *)
(* 3 -> 1, 5 -> 2, 70 -> 2 in a store of each kind (the collapsing ones keep two bins) *)
Definition c15_content : list (Z * W) := [(3%Z, w1); (5%Z, wadd w1 w1); (70%Z, wadd w1 w1)].
Definition c15_store (k : kind) : store :=
  match st_add_list (st_new k) c15_content with Some s => s | None => st_new k end.
Definition c15_kinds : list kind := [KDense; KSparse; KPag; KLow 2; KHigh 2].

(* before Clear: the three layouts are in use (index deltas and counts for the array-backed and the sparse
   stores; two pages of 32 contiguous counts for the paginated store, 3 -> 1 and 5 -> 2 in page 0, 70 -> 2 in
   page 2; contiguous counts for the collapsing-highest store) *)
Example C15enc_ex_bytes_before :
  map (fun k => snd (enc_store (c15_store k) ft_positive)) c15_kinds =
  [[5; 3; 6; 2; 4; 3; 130; 1; 3];
   [5; 3; 6; 2; 4; 3; 130; 1; 3];
   [13; 32; 0; 2; 0; 0; 0; 2; 0; 3; 0; 0; 0; 0; 0; 0; 0; 0; 0; 0; 0; 0; 0; 0; 0; 0; 0; 0; 0; 0; 0; 0; 0; 0; 0; 0;
    13; 32; 128; 1; 2; 0; 0; 0; 0; 0; 0; 3; 0; 0; 0; 0; 0; 0; 0; 0; 0; 0; 0; 0; 0; 0; 0; 0; 0; 0; 0; 0; 0; 0; 0; 0; 0];
   [5; 2; 138; 1; 4; 2; 3];
   [13; 2; 6; 2; 2; 132; 64]]%N.
Proof. vm_compute. reflexivity. Qed.

(* after Clear: the bytes of a new store of the same kind, and not the bytes before *)
Example C15enc_ex_store_clear_like_new :
  forallb (fun k =>
    let before := snd (enc_store (c15_store k) ft_positive) in
    let cleared := snd (enc_store (st_clear (c15_store k)) ft_positive) in
    let fresh := snd (enc_store (st_new k) ft_positive) in
    (if list_eq_dec N.eq_dec cleared fresh then true else false)
    && (if list_eq_dec N.eq_dec cleared before then false else true))
  c15_kinds = true.
Proof. vm_compute. reflexivity. Qed.
Example C15enc_ex_store_clear_bytes :
  map (fun k => snd (enc_store (st_clear (c15_store k)) ft_positive)) c15_kinds = [[]; []; []; []; []]
  /\ map (fun k => snd (enc_store (st_new k) ft_positive)) c15_kinds = [[]; []; []; []; []].
Proof. split; vm_compute; reflexivity. Qed.

(* the theorems are not about equal states: the cleared dense stores keep their offset, the cleared
   paginated store keeps its table of 8 (length-0) pages; a new store has offset 0 and no page table *)
Definition c15_retained (s : store) : Z * nat :=
  match s with SD d => (offset d, 0) | SS _ => (0%Z, 0) | SP p => (trigger p, length (pages p)) end.
Example C15enc_ex_clear_is_not_new :
  map (fun k => c15_retained (st_clear (c15_store k))) c15_kinds
    = [((-28)%Z, 0); (0%Z, 0); (64%Z, 8); (69%Z, 0); (3%Z, 0)]
  /\ map (fun k => c15_retained (st_new k)) c15_kinds
    = [(0%Z, 0); (0%Z, 0); (64%Z, 0); (0%Z, 0); (0%Z, 0)].
Proof. split; vm_compute; reflexivity. Qed.

(* a sketch of either variant: paginated positive store, dense negative store, zero count 1, statistics of
   one Add(2.5) (count 1, sum 2.5, min 2.5, max 2.5); mapping: logarithmic, gamma = 1.02, offset 0 *)
Definition c15_map : mapid := {| mk_kind := 0%N; mk_gamma := f64_of_bits 4607272490792564818; mk_off := f64_zero |}.
Definition c15_sketch (exact : bool) : sketch :=
  {| sk_map := c15_map; sk_pos := c15_store KPag; sk_neg := c15_store KDense; sk_zero := w1;
     sk_stats := if exact then Some (su_add su_new (f64_of_bits 4612811918334230528) f64_one) else None |}.
Definition c15_mapping_block : list byte := [2; 82; 184; 30; 133; 235; 81; 240; 63; 0; 0; 0; 0; 0; 0; 0; 0]%N.

(* before Clear: statistics blocks (exact variant only), zero count, mapping, two pages, the negative bins *)
Definition c15_pages_block : list byte :=
  [13; 32; 0; 2; 0; 0; 0; 2; 0; 3; 0; 0; 0; 0; 0; 0; 0; 0; 0; 0; 0; 0; 0; 0; 0; 0; 0; 0; 0; 0; 0; 0; 0; 0; 0; 0;
   13; 32; 128; 1; 2; 0; 0; 0; 0; 0; 0; 3; 0; 0; 0; 0; 0; 0; 0; 0; 0; 0; 0; 0; 0; 0; 0; 0; 0; 0; 0; 0; 0; 0; 0; 0; 0]%N.
Definition c15_plain_before : list byte :=
  [4; 2]%N ++ c15_mapping_block ++ c15_pages_block ++ [7; 3; 6; 2; 4; 3; 130; 1; 3]%N.
Definition c15_stats_before : list byte :=
  [160; 2; 132; 0; 0; 0; 0; 0; 0; 4; 64; 136; 0; 0; 0; 0; 0; 0; 4; 64; 140; 0; 0; 0; 0; 0; 0; 4; 64]%N.
Example C15enc_ex_sketch_bytes_before :
  snd (enc_sketch (c15_sketch false) false) = c15_plain_before
  /\ snd (enc_sketch (c15_sketch true) false) = c15_stats_before ++ c15_plain_before.
Proof. split; vm_compute; reflexivity. Qed.

(* after Clear: the mapping block alone (nothing when the mapping is omitted), as for the new sketch *)
Example C15enc_ex_sketch_clear_like_new :
  forall exact : bool,
  snd (enc_sketch (sk_clear (c15_sketch exact)) false) = c15_mapping_block
  /\ snd (enc_sketch (sk_new c15_map KPag KDense exact) false) = c15_mapping_block
  /\ snd (enc_sketch (sk_clear (c15_sketch exact)) true) = []
  /\ snd (enc_sketch (sk_new c15_map KPag KDense exact) true) = []
  /\ snd (enc_sketch (c15_sketch exact) false) <> snd (enc_sketch (sk_clear (c15_sketch exact)) false)
  /\ sk_is_exact (c15_sketch exact) = exact.
Proof. intros [|]; repeat split; vm_compute; try reflexivity; discriminate. Qed.
