(* C07_raw: the documentation-only decoder with the codec's (w+1)-1 applied exactly once.
   [Grammar.ref_decode = sem o ref_parse] applies it twice (once in dec_vf, once in [sem], which is the
   meaning of a stream BEFORE serialisation); [GrammarRaw.ref_decode_raw = sem_raw o ref_parse] reads the
   parsed weights directly. Statements only; proofs in Wire/GrammarRawProofs.v. No premise on the weights. *)
From Coq Require Import Bool NArith ZArith List.
From Flocq Require Import IEEE754.BinarySingleNaN IEEE754.Binary IEEE754.Bits.
From SK Require Import Codec.Codec.
From SK Require Codec.Varfloat.
From SK Require Import Base.Prelude Base.F64 Spec.Bins Spec.BinsProofs.
From SK Require Import Wire.Grammar Wire.GrammarRaw Wire.WireProofs Wire.GrammarRawProofs.
Import ListNotations.
Close Scope Z_scope.
Close Scope N_scope.
Open Scope nat_scope.
Open Scope list_scope.

Theorem C07_raw_bins : forall bb : bin_block, bins_of_block_raw (wire_bins bb) = bins_of_block bb.
Proof. exact bins_raw_wire. Qed.
Print Assumptions C07_raw_bins.

Theorem C07_raw_sem_block : forall (c : content) (b : block), sem_block_raw c (wire_block b) = sem_block c b.
Proof. exact sem_block_raw_wire. Qed.
Print Assumptions C07_raw_sem_block.

Theorem C07_raw_sem : forall st : stream, sem_raw (wire_stream st) = sem st.
Proof. exact sem_raw_wire. Qed.
Print Assumptions C07_raw_sem.

(* G1 in the form wanted: every well-formed stream, whatever its weights *)
Theorem C07_raw_decode_serialize : forall st : stream, wf_stream st ->
  ref_decode_raw (serialize st) = Some (sem st).
Proof. exact ref_decode_raw_serialize. Qed.
Print Assumptions C07_raw_decode_serialize.

(* G2: decoding a concatenation = merging *)
Theorem C07_raw_decode_concat : forall a b : stream, wf_stream a -> wf_stream b ->
  ref_decode_raw (serialize a ++ serialize b) = Some (fold_left sem_block b (sem a)).
Proof. exact ref_decode_raw_concat. Qed.
Print Assumptions C07_raw_decode_concat.

Theorem C07_raw_decode_concat_bins : forall a b : stream, wf_stream a -> wf_stream b ->
  exists c, ref_decode_raw (serialize a ++ serialize b) = Some c /\
    c_pos c = bmerge_list (c_pos (sem a)) (stream_pos_bins b) /\
    c_neg c = bmerge_list (c_neg (sem a)) (stream_neg_bins b) /\
    c_zero c = fold_left wadd (stream_zero b) (c_zero (sem a)) /\
    c_map c = last_mapping (c_map (sem a)) b.
Proof. exact ref_decode_raw_concat_bins. Qed.
Print Assumptions C07_raw_decode_concat_bins.

Theorem C07_raw_decode_stable : forall st : stream, wf_stream st -> stable_stream st ->
  ref_decode_raw (serialize st) = ref_decode (serialize st).
Proof. exact ref_decode_raw_stable. Qed.
Print Assumptions C07_raw_decode_stable.

Theorem C07_raw_decode_exact : forall st : stream, wf_stream st -> exact_stream st ->
  ref_decode_raw (serialize st) = ref_decode (serialize st).
Proof. exact ref_decode_raw_exact. Qed.
Print Assumptions C07_raw_decode_exact.

Theorem C07_raw_decode_truncation : forall (st : stream) (b : block) (p s : list byte), wf_stream st -> wf_block b ->
  ser_block b = p ++ s -> s <> [] -> p <> [] -> ref_decode_raw (serialize st ++ p) = None.
Proof. exact ref_decode_raw_truncation. Qed.
Print Assumptions C07_raw_decode_truncation.

(* a weight that does NOT cross the wire unchanged: 0.1 (0x3FB999999999999A); (0.1+1)-1 = 0x3FB99999999999A0.
   The raw reference decoder gives the documented meaning; here the double transform of [ref_decode] happens
   to give the same content ((w+1)-1 is stable on this value) *)
Definition f_tenth : f64 := f64_of_bits 4591870180066957722.
Definition f_gamma : f64 := f64_of_bits 4607272490792564818.
Definition ex_raw : stream :=
  [BZeroCount f_tenth; BCount f_tenth; BMapping 0 f_gamma (f64_of_bits 0);
   BStore false (ContiguousCounts 7%Z (-2)%Z [f_tenth; f64_of_bits 4611686018427387904])].
Example C07_raw_ex :
  content_sig (ref_decode_raw (serialize ex_raw)) = content_sig (Some (sem ex_raw))
  /\ content_sig (ref_decode_raw (serialize ex_raw)) =
     Some ([(5%Z, 2%Q); (7%Z, (225179981368525 # 2251799813685248)%Q)], [], (225179981368525 # 2251799813685248)%Q,
           Some (0%N, 4607272490792564818%N, 0%N), ([4591870180066957728%N], [], [], []))
  /\ bits_of_f64 (wire_f f_tenth) = 4591870180066957728%N
  /\ content_sig (ref_decode (serialize ex_raw)) = content_sig (ref_decode_raw (serialize ex_raw)).
Proof. vm_compute. repeat split; reflexivity. Qed.
