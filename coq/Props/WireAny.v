(* C06 / C07 / C08 for receivers and sources of ALL FIVE store kinds (dense, collapsing-lowest,
   collapsing-highest, sparse, buffered-paginated; any pair for the two sides of a sketch).
   Statements only; the proofs are in Wire/WireAnyProofs.v, on top of Wire/WireProofs.v (grammar, codec) and
   Store/AnyProofs.v (StInv, st_abs, st_kind, st_limit: the refinement of the five kinds with the executable
   policies). Vocabulary (defined in WireAnyProofs.v, restated below as checked equations):
     store_refines_idx abs good oki okw step   the interface [store_refines] of WireProofs.v with an index
                              predicate: the array-backed stores are specified on int32 indexes only
     idx_stream st            every ACCUMULATED index of every bins block of st is an int32 (deltas, strides
                              and first indexes are arbitrary int64: zero, negative, large)
     nonneg_stream_w st       every weight the varfloat codec carries, (w+1)-1, is >= 0
     ds_inv d                 both stores of the receiver satisfy StInv; plain decoder (no exact statistics)
     absorbed s s' xs         s' (same kind as s, StInv) holds the content of s plus the bins xs, in three
                              equivalent forms: bin by bin [smerge_list (st_limit s)], the exact merge
                              re-normalised [norm (st_limit s) (bmerge_list ..)] (clamped for a bounded
                              receiver), the Layer A merge with the canonical form of xs
     store_stream neg st xs   st = well-formed admissible bins blocks of side neg, raw content xs
     store_wire_ok s          the weights of s cross the wire exactly (wexact; integers < 2^53 do), the
                              list lengths fit an uvarint64
   Only the four axioms of the stdlib real numbers (through Flocq) appear. *)
From Coq Require Import Bool NArith ZArith List.
From Flocq Require Import IEEE754.BinarySingleNaN IEEE754.Binary IEEE754.Bits.
From SK Require Import Codec.Codec.
From SK Require Codec.Varfloat.
From SK Require Import Base.Prelude Base.F64 Spec.Bins Spec.BinsProofs Store.Any Stat.Summary Sketch.Sketch.
From SK Require Store.DenseProofs Store.PaginatedProofs.
From SK Require Import Store.AnyProofs.
From SK Require Import Wire.Grammar Wire.GrammarRaw Wire.Wire Wire.WireProofs Wire.WireAnyProofs.
Import ListNotations.
Close Scope Z_scope.
Close Scope N_scope.
Open Scope nat_scope.
Open Scope list_scope.

(* ---------------- vocabulary ---------------- *)
Example store_refines_idx_def abs good oki okw step :
  store_refines_idx abs good oki okw step =
  ((forall s i c, good s -> oki i -> okw c -> exists s', st_addw s i c = Some s' /\ good s' /\ abs s' = step (abs s) i c)
   /\ (forall s i, good s -> oki i -> exists s', st_add s i = Some s' /\ good s' /\ abs s' = step (abs s) i w1)
   /\ (forall s sub b, good s -> dec_bins s sub b = dec_bins_generic s sub b)) := eq_refl.
Example nonneg_w_def c : nonneg_w c = (w0 <= c)%Qc := eq_refl.
Example good_k_def k s : good_k k s = (StInv s /\ st_kind s = k) := eq_refl.
Example generic_kind_def k : generic_kind k = (k <> KPag) := eq_refl.
Example idx_stream_def st :
  idx_stream st = Forall (fun b => match b with BStore _ bb => Forall idx_ok (map fst (bins_of_block bb)) | _ => True end) st
  := eq_refl.
Example nonneg_stream_w_def st :
  nonneg_stream_w st =
  Forall (fun b => match b with BStore _ bb => Forall (fun x => (w0 <= wire_w x)%Qc) (bins_weights bb) | _ => True end) st
  := eq_refl.
Example ds_inv_def d : ds_inv d = (StInv (ds_pos d) /\ StInv (ds_neg d) /\ ds_stats d = None) := eq_refl.
Example ds_generic_def d :
  ds_generic d = (st_kind (ds_pos d) <> KPag /\ st_kind (ds_neg d) <> KPag) := eq_refl.
Example absorbed_def s s' xs :
  absorbed s s' xs =
  (StInv s' /\ st_kind s' = st_kind s /\
   st_abs s' = smerge_list (st_limit s) (st_abs s) xs /\
   st_abs s' = norm (st_limit s) (bmerge_list (st_abs s) xs) /\
   st_abs s' = norm (st_limit s) (bmerge (st_abs s) (bins_of_list xs))) := eq_refl.
Example store_stream_def neg st xs :
  store_stream neg st xs =
  (Forall (fun b => exists bb, b = BStore neg bb) st /\ wf_stream st /\
   Forall (fun b => match b with BStore _ bb => PaginatedProofs.adds_ok (bins_of_block bb) | _ => True end) st /\
   concat (map (fun b => match b with BStore _ bb => bins_of_block bb | _ => [] end) st) = xs) := eq_refl.
Example adds_ok_def l :
  PaginatedProofs.adds_ok l = Forall (fun kw => idx_ok (fst kw) /\ (w0 <= snd kw)%Qc) l := eq_refl.
Example store_wire_ok_def s :
  store_wire_ok s =
  match s with
  | SD d => Forall (fun ic => wexact (snd ic)) (dense_cells d)
  | SS m => (N.of_nat (length m) < W64)%N /\ Forall (fun ic => wexact (snd ic)) m
  | SP p => (N.of_nat (length (buffer (compact pgrow8 worth32 ZSort.sort p))) < W64)%N /\
            Forall (Forall wexact) (pages (compact pgrow8 worth32 ZSort.sort p))
  end := eq_refl.
Example pag_blocks_def neg p :
  pag_blocks neg p =
  (match buffer p with [] => [] | _ => [BStore neg (IndexDeltas (id_deltas 0 (buffer p)))] end)
  ++ concat (map (fun op : nat * list W =>
                    match snd op with
                    | [] => []
                    | _ => [BStore neg (ContiguousCounts (index_of (minPage p + Z.of_nat (fst op)) 0) 1 (map q2f (snd op)))]
                    end) (combine (seq 0 (length (pages p))) (pages p))) := eq_refl.

(* ================================================================== *)
(* C07: the implementation's decoder accepts the documented grammar    *)
(* ================================================================== *)
(* the generic interface with an index predicate; [store_refines] is the instance "every index" *)
Theorem C07_any_store_refines_idx_all :
  forall (abs : store -> bins) (good : store -> Prop) (okw : W -> Prop) (step : bins -> Z -> W -> bins),
  store_refines abs good okw step <-> store_refines_idx abs good (fun _ => True) okw step.
Proof. exact store_refines_idx_all. Qed.
Print Assumptions C07_any_store_refines_idx_all.

(* dense, collapsing-lowest, collapsing-highest (any capacity) and sparse stores refine the interface:
   abs = st_abs, good = StInv at kind k, indexes int32, weights >= 0, step = sadd of the kind's limit *)
Theorem C07_any_refines : forall k : kind, generic_kind k ->
  store_refines_idx st_abs (good_k k) idx_ok nonneg_w (sadd (kind_limit k)).
Proof. exact any_refines. Qed.
Print Assumptions C07_any_refines.

Theorem C07_any_generic_decoder_accepts_bins :
  forall (abs : store -> bins) (good : store -> Prop) (oki : Z -> Prop) (okw : W -> Prop)
         (step : bins -> Z -> W -> bins) (bb : bin_block) (s : store),
  store_refines_idx abs good oki okw step -> wf_bins bb -> good s ->
  Forall (fun kw => oki (fst kw) /\ okw (snd kw)) (bins_of_block bb) ->
  exists s', (forall rest, dec_bins s (fst (ser_bins bb) * 4)%N (snd (ser_bins bb) ++ rest) = DOk s' rest)
             /\ good s' /\ abs s' = steps step (abs s) (bins_of_block bb).
Proof. exact generic_idx_dec_bins. Qed.
Print Assumptions C07_any_generic_decoder_accepts_bins.

(* one bins block of any of the three layouts, receiver of ANY of the five kinds (the paginated store's
   specialised decoders for index deltas and contiguous counts included) *)
Theorem C07_any_decoder_accepts_bins : forall (bb : bin_block) (s : store),
  wf_bins bb -> StInv s -> PaginatedProofs.adds_ok (bins_of_block bb) ->
  exists s', (forall rest, dec_bins s (fst (ser_bins bb) * 4)%N (snd (ser_bins bb) ++ rest) = DOk s' rest)
             /\ StInv s' /\ st_kind s' = st_kind s
             /\ st_abs s' = smerge_list (st_limit s) (st_abs s) (bins_of_block bb).
Proof. exact any_dec_bins. Qed.
Print Assumptions C07_any_decoder_accepts_bins.

Theorem C07_any_pag_decoder_accepts_bins : forall (bb : bin_block) (p : pag),
  wf_bins bb -> PaginatedProofs.PInv p -> PaginatedProofs.adds_ok (bins_of_block bb) ->
  exists p', (forall rest, dec_bins_pag p (fst (ser_bins bb) * 4)%N (snd (ser_bins bb) ++ rest) = DOk (SP p') rest)
             /\ PaginatedProofs.PInv p'
             /\ PaginatedProofs.pabs p' = bmerge_list (PaginatedProofs.pabs p) (bins_of_block bb).
Proof. exact pag_dec_bins. Qed.
Print Assumptions C07_any_pag_decoder_accepts_bins.

(* a zero count in a contiguous block allocates its page and leaves the content unchanged *)
Theorem C07_any_pag_contiguous_zero : forall (p : pag) (i : Z), PaginatedProofs.PInv p -> idx_ok i ->
  PaginatedProofs.pabs (p_dec_contiguous pgrow8 p [(i, w0)]) = PaginatedProofs.pabs p /\
  existing_page (p_dec_contiguous pgrow8 p [(i, w0)]) (page_index i) <> None.
Proof. exact pag_dec_contiguous_zero. Qed.
Print Assumptions C07_any_pag_contiguous_zero.

(* G3, receivers made of dense / collapsing / sparse stores (any pair): blocks in any order, repeated blocks
   and indexes, any of the three layouts, zero / negative / large strides: st is arbitrary *)
Theorem C07_any_decoder_accepts_grammar : forall (wx : wfixes) (st : stream) (d : dsketch),
  fD2 wx = true -> ds_generic d ->
  wf_stream st -> idx_stream st -> nonneg_stream_w st -> maps_chain (ds_map d) st -> ds_inv d ->
  last_mapid (ds_map d) st <> None ->
  exists d', dec_sketch_into wx d (serialize st) = DOk d' [] /\ ds_generic d' /\
             absorbed (ds_pos d) (ds_pos d') (stream_pos_bins st) /\
             absorbed (ds_neg d) (ds_neg d') (stream_neg_bins st) /\
             ds_zero d' = fold_left wadd (stream_zero st) (ds_zero d) /\
             ds_map d' = last_mapid (ds_map d) st /\ ds_stats d' = None.
Proof. exact any_decoder_accepts_grammar. Qed.
Print Assumptions C07_any_decoder_accepts_grammar.

(* G3, all five kinds, any pair for the two sides *)
Theorem C07_any_decoder_accepts_grammar_all : forall (wx : wfixes) (st : stream) (d : dsketch),
  fD2 wx = true ->
  wf_stream st -> idx_stream st -> nonneg_stream_w st -> maps_chain (ds_map d) st -> ds_inv d ->
  last_mapid (ds_map d) st <> None ->
  exists d', dec_sketch_into wx d (serialize st) = DOk d' [] /\
             absorbed (ds_pos d) (ds_pos d') (stream_pos_bins st) /\
             absorbed (ds_neg d) (ds_neg d') (stream_neg_bins st) /\
             ds_zero d' = fold_left wadd (stream_zero st) (ds_zero d) /\
             ds_map d' = last_mapid (ds_map d) st /\ ds_stats d' = None.
Proof. exact any_decoder_accepts_grammar_all. Qed.
Print Assumptions C07_any_decoder_accepts_grammar_all.

(* G4: BufferedPaginatedStore.Encode compacts, then emits one IndexDeltas block for the buffer (if not
   empty) and one ContiguousCounts block (first = index_of (minPage + off) 0, stride 1) per allocated page *)
Theorem C07_any_enc_pag_grammar : forall (p : pag) (neg : bool),
  enc_pag p (ty_of neg) =
  (compact pgrow8 worth32 ZSort.sort p, serialize (pag_blocks neg (compact pgrow8 worth32 ZSort.sort p))).
Proof. exact enc_pag_grammar. Qed.
Print Assumptions C07_any_enc_pag_grammar.

Theorem C07_any_enc_pag_keeps_content : forall (p : pag) (neg : bool), PaginatedProofs.PInv p ->
  PaginatedProofs.PInv (fst (enc_pag p (ty_of neg))) /\
  PaginatedProofs.pabs (fst (enc_pag p (ty_of neg))) = PaginatedProofs.pabs p.
Proof. exact enc_pag_keeps_content. Qed.
Print Assumptions C07_any_enc_pag_keeps_content.

Theorem C07_any_pag_blocks_stream : forall (neg : bool) (p : pag), PaginatedProofs.PInv p ->
  (N.of_nat (length (buffer p)) < W64)%N /\ Forall (Forall wexact) (pages p) ->
  store_stream neg (pag_blocks neg p) (PaginatedProofs.unit_bins (buffer p) ++ page_cells p).
Proof. exact pag_blocks_stream. Qed.
Print Assumptions C07_any_pag_blocks_stream.

(* the documentation-only decoder reads the content of the paginated store back *)
Theorem C07_any_enc_pag_ref_decode : forall p : pag, PaginatedProofs.PInv p -> store_wire_ok (SP p) ->
  exists c, ref_decode_raw (snd (enc_pag p ft_positive)) = Some c /\ c_pos c = PaginatedProofs.pabs p /\ c_neg c = [].
Proof. exact enc_pag_ref_decode. Qed.
Print Assumptions C07_any_enc_pag_ref_decode.
Theorem C07_any_enc_pag_ref_decode_neg : forall p : pag, PaginatedProofs.PInv p -> store_wire_ok (SP p) ->
  exists c, ref_decode_raw (snd (enc_pag p ft_negative)) = Some c /\ c_neg c = PaginatedProofs.pabs p /\ c_pos c = [].
Proof. exact enc_pag_ref_decode_neg. Qed.
Print Assumptions C07_any_enc_pag_ref_decode_neg.

(* G4, every kind: Encode emits admissible bins blocks whose canonical content is the content of the store *)
Theorem C07_any_enc_store_grammar : forall (s : store) (neg : bool), StInv s -> store_wire_ok s ->
  exists s' st xs, enc_store s (ty_of neg) = (s', serialize st) /\
                   StInv s' /\ st_kind s' = st_kind s /\ st_abs s' = st_abs s /\
                   store_stream neg st xs /\ bins_of_list xs = st_abs s.
Proof. exact enc_store_stream. Qed.
Print Assumptions C07_any_enc_store_grammar.

(* ================================================================== *)
(* C06: decoding = merging                                             *)
(* ================================================================== *)
(* decoding into a non-empty receiver adds the documented content [sem st] of the stream to it *)
Theorem C06_any_decode_is_merge : forall (wx : wfixes) (st : stream) (d : dsketch),
  fD2 wx = true ->
  wf_stream st -> idx_stream st -> nonneg_stream_w st -> maps_chain (ds_map d) st -> ds_inv d ->
  last_mapid (ds_map d) st <> None ->
  exists d', dec_sketch_into wx d (serialize st) = DOk d' [] /\ ds_inv d' /\
             st_abs (ds_pos d') = norm (st_limit (ds_pos d)) (bmerge (st_abs (ds_pos d)) (c_pos (sem st))) /\
             st_abs (ds_neg d') = norm (st_limit (ds_neg d)) (bmerge (st_abs (ds_neg d)) (c_neg (sem st))) /\
             ds_zero d' = wadd (ds_zero d) (c_zero (sem st)).
Proof. exact any_decode_is_merge. Qed.
Print Assumptions C06_any_decode_is_merge.

(* decoding [serialize a ++ serialize b] = decoding b into the result of decoding a *)
Theorem C06_any_concat_is_merge : forall (wx : wfixes) (a b : stream) (d : dsketch),
  fD2 wx = true ->
  wf_stream a -> wf_stream b -> idx_stream a -> idx_stream b -> nonneg_stream_w a -> nonneg_stream_w b ->
  maps_chain (ds_map d) (a ++ b) -> ds_inv d -> last_mapid (ds_map d) a <> None ->
  exists d1 d2, dec_sketch_into wx d (serialize a) = DOk d1 []
             /\ dec_sketch_into wx d1 (serialize b) = DOk d2 []
             /\ dec_sketch_into wx d (serialize a ++ serialize b) = DOk d2 []
             /\ absorbed (ds_pos d) (ds_pos d1) (stream_pos_bins a) /\ absorbed (ds_neg d) (ds_neg d1) (stream_neg_bins a)
             /\ absorbed (ds_pos d1) (ds_pos d2) (stream_pos_bins b) /\ absorbed (ds_neg d1) (ds_neg d2) (stream_neg_bins b).
Proof. exact any_decode_concat. Qed.
Print Assumptions C06_any_concat_is_merge.

(* Encode of a store of ANY kind, decoded (store-level loop) into a store of ANY kind *)
Theorem C06_any_store_roundtrip : forall (s r : store) (neg : bool), StInv s -> store_wire_ok s -> StInv r ->
  exists s' bytes r', enc_store s (ty_of neg) = (s', bytes) /\
    StInv s' /\ st_kind s' = st_kind s /\ st_abs s' = st_abs s /\
    dec_store_all (S (length bytes)) r bytes = DOk r' [] /\
    StInv r' /\ st_kind r' = st_kind r /\
    st_abs r' = smerge_list (st_limit r) (st_abs r) (st_abs s) /\
    st_abs r' = norm (st_limit r) (bmerge (st_abs r) (st_abs s)).
Proof. exact any_store_roundtrip. Qed.
Print Assumptions C06_any_store_roundtrip.

(* DDSketch.Encode (plain sketch) then DecodeAndMergeWith, any store kinds on both sides of source and target *)
Theorem C06_any_sketch_roundtrip : forall (wx : wfixes) (s : sketch) (d : dsketch),
  fD2 wx = true -> sk_stats s = None ->
  StInv (sk_pos s) -> StInv (sk_neg s) -> store_wire_ok (sk_pos s) -> store_wire_ok (sk_neg s) ->
  wexact (sk_zero s) -> map_valid (sk_map s) -> ds_inv d ->
  match ds_map d with Some m0 => map_equals m0 (sk_map s) = true | None => True end ->
  exists s' d', enc_sketch s false = (s', snd (enc_sketch s false)) /\
    sk_map s' = sk_map s /\ sk_zero s' = sk_zero s /\ sk_stats s' = None /\
    StInv (sk_pos s') /\ StInv (sk_neg s') /\ st_abs (sk_pos s') = st_abs (sk_pos s) /\ st_abs (sk_neg s') = st_abs (sk_neg s) /\
    dec_sketch_into wx d (snd (enc_sketch s false)) = DOk d' [] /\ ds_inv d' /\
    st_kind (ds_pos d') = st_kind (ds_pos d) /\ st_kind (ds_neg d') = st_kind (ds_neg d) /\
    st_abs (ds_pos d') = smerge_list (st_limit (ds_pos d)) (st_abs (ds_pos d)) (st_abs (sk_pos s)) /\
    st_abs (ds_pos d') = norm (st_limit (ds_pos d)) (bmerge (st_abs (ds_pos d)) (st_abs (sk_pos s))) /\
    st_abs (ds_neg d') = smerge_list (st_limit (ds_neg d)) (st_abs (ds_neg d)) (st_abs (sk_neg s)) /\
    st_abs (ds_neg d') = norm (st_limit (ds_neg d)) (bmerge (st_abs (ds_neg d)) (st_abs (sk_neg s))) /\
    ds_zero d' = wadd (ds_zero d) (sk_zero s) /\ ds_map d' = Some (sk_map s).
Proof. exact any_sketch_roundtrip. Qed.
Print Assumptions C06_any_sketch_roundtrip.

(* ================================================================== *)
(* C08: truncated and malformed input                                  *)
(* ================================================================== *)
Theorem C08_any_bins_truncation : forall (bb : bin_block) (s : store) (p t : list byte),
  wf_bins bb -> StInv s -> PaginatedProofs.adds_ok (bins_of_block bb) ->
  snd (ser_bins bb) = p ++ t -> t <> [] ->
  dec_bins s (fst (ser_bins bb) * 4)%N p = DErr EEof.
Proof. exact any_dec_bins_trunc. Qed.
Print Assumptions C08_any_bins_truncation.

(* complete blocks, then a block cut strictly inside: io.EOF, never a panic (repaired code: fD2, fD3),
   receivers of any kinds *)
Theorem C08_any_truncation : forall (wx : wfixes) (st : stream) (b : block) (d : dsketch) (p t : list byte),
  fD2 wx = true -> fD3 wx = true ->
  wf_stream st -> idx_stream st -> nonneg_stream_w st -> maps_chain (ds_map d) st -> ds_inv d ->
  wf_block b -> kind_ok_block b -> idx_block b -> okw_block nonneg_w b ->
  ser_block b = p ++ t -> t <> [] -> p <> [] ->
  dec_sketch_into wx d (serialize st ++ p) = DErr EEof.
Proof. exact any_truncation. Qed.
Print Assumptions C08_any_truncation.

Theorem C08_any_mapping_mismatch :
  forall (wx : wfixes) (st : stream) (d : dsketch) (kd : N) (g o : f64) (m0 : mapid) (rest : list byte),
  fD2 wx = true ->
  wf_stream st -> idx_stream st -> nonneg_stream_w st -> maps_chain (ds_map d) st -> ds_inv d ->
  last_mapid (ds_map d) st = Some m0 ->
  WireProofs.kind_ok kd -> fle g f64_one = false -> map_equals m0 (map_of kd g o) = false ->
  dec_sketch_into wx d (serialize st ++ ser_block (BMapping kd g o) ++ rest) = DErr EMismatch.
Proof. exact any_mapping_mismatch. Qed.
Print Assumptions C08_any_mapping_mismatch.

Theorem C08_any_missing_mapping : forall (wx : wfixes) (st : stream) (d : dsketch),
  fD2 wx = true ->
  wf_stream st -> idx_stream st -> nonneg_stream_w st -> maps_chain (ds_map d) st -> ds_inv d ->
  last_mapid (ds_map d) st = None ->
  dec_sketch_into wx d (serialize st) = DErr EMissingMapping.
Proof. exact any_missing_mapping. Qed.
Print Assumptions C08_any_missing_mapping.

(* on EVERY prefix of the serialisation (n bytes: complete, cut at a block boundary, cut inside a block)
   the decoder answers with a sketch, io.EOF or "missing index mapping" *)
Theorem C08_any_decoder_total_cases : forall (wx : wfixes) (st : stream) (d : dsketch) (n : nat),
  fD2 wx = true -> fD3 wx = true ->
  wf_stream st -> idx_stream st -> nonneg_stream_w st -> maps_chain (ds_map d) st -> ds_inv d ->
  (exists d', dec_sketch_into wx d (firstn n (serialize st)) = DOk d' [] /\ ds_inv d')
  \/ dec_sketch_into wx d (firstn n (serialize st)) = DErr EEof
  \/ dec_sketch_into wx d (firstn n (serialize st)) = DErr EMissingMapping.
Proof. exact any_decoder_total. Qed.
Print Assumptions C08_any_decoder_total_cases.

(* never a panic, whatever the kinds of the two stores of the receiver *)
Theorem C08_any_decoder_total : forall (wx : wfixes) (st : stream) (d : dsketch) (n : nat),
  fD2 wx = true -> fD3 wx = true ->
  wf_stream st -> idx_stream st -> nonneg_stream_w st -> maps_chain (ds_map d) st -> ds_inv d ->
  dec_sketch_into wx d (firstn n (serialize st)) <> DPanic.
Proof. exact any_decoder_no_panic. Qed.
Print Assumptions C08_any_decoder_total.

(* ================================================================== *)
(* Executable examples: one stream, the three layouts, receivers of the five kinds *)
(* ================================================================== *)
Definition xb (b : N) : f64 := f64_of_bits b.
Definition x_0 := xb 0.
Definition x_1 := xb 4607182418800017408.
Definition x_2 := xb 4611686018427387904.
Definition x_gamma := xb 4607272490792564818.    (* 1.02 *)
Definition wxR : wfixes := {| fD2 := true; fD3 := true |}.
Definition x_map : mapid := {| mk_kind := 0; mk_gamma := x_gamma; mk_off := x_0 |}.
(* positive: 3 -> 1, 5 -> 2 (index deltas and counts), then 9 -> 1, 5 -> 1 (index deltas, one negative);
   negative: -7 -> 1, -5 -> 2 (contiguous counts, stride 2) *)
Definition ex_any : stream :=
  [BStore false (IndexDeltasAndCounts [(3%Z, x_1); (2%Z, x_2)]);
   BStore false (IndexDeltas [9%Z; (-4)%Z]);
   BStore true (ContiguousCounts (-7)%Z 2%Z [x_1; x_2])].
Definition into (k : kind) := dec_sketch_into wxR (ds_fresh (Some x_map) k false) (serialize ex_any).

Example C07_any_ex_bytes : serialize ex_any = [5; 2; 6; 2; 4; 3; 9; 2; 18; 7; 15; 2; 13; 4; 2; 3]%N.
Proof. vm_compute. reflexivity. Qed.
Example C07_any_ex_dense : any_sig (into KDense) =
  inl ([(3%Z, 1%Q); (5%Z, 3%Q); (9%Z, 1%Q)], [((-7)%Z, 1%Q); ((-5)%Z, 2%Q)], 0%Q, Some (0%N, 4607272490792564818%N, 0%N), []).
Proof. vm_compute. reflexivity. Qed.
Example C07_any_ex_sparse : any_sig (into KSparse) =
  inl ([(3%Z, 1%Q); (5%Z, 3%Q); (9%Z, 1%Q)], [((-7)%Z, 1%Q); ((-5)%Z, 2%Q)], 0%Q, Some (0%N, 4607272490792564818%N, 0%N), []).
Proof. vm_compute. reflexivity. Qed.
Example C07_any_ex_paginated : any_sig (into KPag) =
  inl ([(3%Z, 1%Q); (5%Z, 3%Q); (9%Z, 1%Q)], [((-7)%Z, 1%Q); ((-5)%Z, 2%Q)], 0%Q, Some (0%N, 4607272490792564818%N, 0%N), []).
Proof. vm_compute. reflexivity. Qed.
(* two bins at most: the lowest indexes fold into the edge bin max - 2 + 1 *)
Example C07_any_ex_collapsing_lowest : any_sig (into (KLow 2)) =
  inl ([(8%Z, 4%Q); (9%Z, 1%Q)], [((-6)%Z, 1%Q); ((-5)%Z, 2%Q)], 0%Q, Some (0%N, 4607272490792564818%N, 0%N), []).
Proof. vm_compute. reflexivity. Qed.
(* two bins at most: the highest indexes fold into the edge bin min + 2 - 1 *)
Example C07_any_ex_collapsing_highest : any_sig (into (KHigh 2)) =
  inl ([(3%Z, 1%Q); (4%Z, 4%Q)], [((-7)%Z, 1%Q); ((-6)%Z, 2%Q)], 0%Q, Some (0%N, 4607272490792564818%N, 0%N), []).
Proof. vm_compute. reflexivity. Qed.
(* every strict prefix cut inside a block is refused with io.EOF by every kind of receiver; a cut at a block
   boundary (0, 6, 10 bytes) decodes the complete blocks *)
Example C08_any_ex_truncation :
  forallb (fun k =>
    forallb (fun n => match dec_sketch_into wxR (ds_fresh (Some x_map) k false) (firstn n (serialize ex_any)) with
                      | DErr EEof => negb (Nat.eqb n 0 || Nat.eqb n 6 || Nat.eqb n 10)
                      | DOk _ [] => Nat.eqb n 0 || Nat.eqb n 6 || Nat.eqb n 10
                      | _ => false end)
            (seq 0 (length (serialize ex_any))))
    [KDense; KSparse; KPag; KLow 2; KHigh 2] = true.
Proof. vm_compute. reflexivity. Qed.
(* BufferedPaginatedStore.Encode then decode into each kind *)
Definition ex_pag_src : store :=
  match st_add_list (st_new KPag) [(3%Z, w1); (5%Z, wadd w1 w1); (70%Z, wadd w1 w1)] with Some s => s | None => st_new KPag end.
Example C06_any_ex_pag_roundtrip :
  map (fun k => match dec_store_all 100 (st_new k) (snd (enc_store ex_pag_src ft_positive)) with
                | DOk r [] => Some (qbins (st_abs r)) | _ => None end)
      [KDense; KSparse; KPag; KLow 2; KHigh 2]
  = [Some [(3%Z, 1%Q); (5%Z, 2%Q); (70%Z, 2%Q)]; Some [(3%Z, 1%Q); (5%Z, 2%Q); (70%Z, 2%Q)];
     Some [(3%Z, 1%Q); (5%Z, 2%Q); (70%Z, 2%Q)]; Some [(69%Z, 3%Q); (70%Z, 2%Q)]; Some [(3%Z, 1%Q); (4%Z, 4%Q)]].
Proof. vm_compute. reflexivity. Qed.
