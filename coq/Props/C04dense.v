(* C04, plain dense store (ddsketch/store/dense_store.go, model Store/Dense.v with lim = Exact):
   the final statements only.  Every proof is a reference to Store/DenseProofs.v.
     Inv s    representation invariant (lim s = Exact, cells >= 0, zero outside [minI, maxI],
              count = sum of the window, sentinels when empty, window inside the array and
              positive at both ends when non-empty, int32 indexes)
     dget s i weight stored for index i  (= bins[i - offset], 0 outside the array)
     dabs s   the Layer A content (canonical association list) of the store
   [grow] is any array growth policy with d <= grow d; [fixD1] is irrelevant for Exact.
   Option results: [None] = the Go code would panic, so "exists s', f ... = Some s'" is the
   no-panic statement. *)
From SK Require Import Store.Dense Store.DenseProofs.
Local Open Scope Z_scope.

Definition grow_ok (grow : Z -> Z) : Prop := forall d, d <= grow d.

(* ---------------- B: invariant ---------------- *)
Theorem C04_inv_new : Inv (new_dense Exact).
Proof. exact Inv_new. Qed.
Print Assumptions C04_inv_new.

Theorem C04_inv_clear : forall s, lim s = Exact -> Inv (clear_d s) /\ dabs (clear_d s) = [].
Proof. exact clear_d_spec. Qed.
Print Assumptions C04_inv_clear.

Theorem C04_inv_count_is_sum_of_cells : forall s, Inv s -> count s = sumW (bins s).
Proof. exact Inv_count_bins. Qed.
Print Assumptions C04_inv_count_is_sum_of_cells.

Theorem C04_inv_empty_all_zero : forall s, Inv s -> count s = w0 -> forall i, dget s i = w0.
Proof. exact Inv_all_zero. Qed.
Print Assumptions C04_inv_empty_all_zero.

(* the abstraction is canonical and reads the cells *)
Theorem C04_abs_wf : forall s, wf (dabs s) = true.
Proof. exact dabs_wf. Qed.
Print Assumptions C04_abs_wf.

Theorem C04_abs_get : forall s i, Inv s -> get (dabs s) i = dget s i.
Proof. exact get_dabs. Qed.
Print Assumptions C04_abs_get.

(* ---------------- D: operations ---------------- *)
Theorem C04_add_with_count :
  forall grow fixD1, grow_ok grow ->
  forall s i c, Inv s -> idx_ok i -> (w0 < c)%Qc ->
  exists s', add_with_count grow fixD1 s i c = Some s' /\ Inv s' /\ dabs s' = badd (dabs s) i c.
Proof. exact add_with_count_spec. Qed.
Print Assumptions C04_add_with_count.

Theorem C04_add_with_count_zero :
  forall grow fixD1 s i, add_with_count grow fixD1 s i w0 = Some s.
Proof. exact add_with_count_zero. Qed.
Print Assumptions C04_add_with_count_zero.

Theorem C04_foreach : forall s, Inv s -> foreach s = Some (dabs s).
Proof. exact foreach_spec. Qed.
Print Assumptions C04_foreach.

Theorem C04_foreach_abs : forall s, Inv s -> exists l, foreach s = Some l /\ bins_of_list l = dabs s.
Proof. exact foreach_abs. Qed.
Print Assumptions C04_foreach_abs.

Theorem C04_total : forall s, Inv s -> total_d s = total (dabs s).
Proof. exact total_d_spec. Qed.
Print Assumptions C04_total.

Theorem C04_is_empty : forall s, Inv s -> is_empty s = is_emptyb (dabs s).
Proof. exact is_empty_spec. Qed.
Print Assumptions C04_is_empty.

Theorem C04_min_index : forall s, Inv s -> min_index_d s = min_key (dabs s).
Proof. exact min_index_d_spec. Qed.
Print Assumptions C04_min_index.

Theorem C04_max_index : forall s, Inv s -> max_index_d s = max_key (dabs s).
Proof. exact max_index_d_spec. Qed.
Print Assumptions C04_max_index.

(* any rank, negative or beyond the total included *)
Theorem C04_key_at_rank :
  forall s r, Inv s -> count s <> w0 -> key_at_rank (dabs s) r = Some (key_at_rank_d s r).
Proof. exact key_at_rank_d_spec. Qed.
Print Assumptions C04_key_at_rank.

(* MergeWith, argument of the same Go type; the model is functional, the argument is not modified *)
Theorem C04_merge :
  forall grow fixD1, grow_ok grow ->
  forall s o, Inv s -> Inv o ->
  exists s', merge_dense grow fixD1 s o = Some s' /\ Inv s' /\ dabs s' = bmerge (dabs s) (dabs o).
Proof. exact merge_dense_spec. Qed.
Print Assumptions C04_merge.

(* the generic path: a sequence of AddWithCount over any list of (int32 index, weight >= 0) *)
Theorem C04_merge_list :
  forall grow fixD1, grow_ok grow ->
  forall l s, Inv s -> bins_ok l ->
  exists s', add_list grow fixD1 s l = Some s' /\ Inv s' /\ dabs s' = bmerge_list (dabs s) l.
Proof. exact add_list_spec. Qed.
Print Assumptions C04_merge_list.

Theorem C04_merge_fallback :
  forall grow fixD1, grow_ok grow ->
  forall s o l, Inv s -> is_empty o = false -> same_type (lim s) (lim o) = false ->
  foreach o = Some l -> bins_ok l ->
  exists s', merge_dense grow fixD1 s o = Some s' /\ Inv s' /\ dabs s' = bmerge_list (dabs s) l.
Proof. exact merge_dense_fallback. Qed.
Print Assumptions C04_merge_fallback.

Theorem C04_reweight_refused : forall s w, (w <= w0)%Qc -> reweight_d s w = None.
Proof. exact reweight_d_refused. Qed.
Print Assumptions C04_reweight_refused.

Theorem C04_reweight_one : forall s, reweight_d s w1 = Some (Some s).
Proof. exact reweight_d_one. Qed.
Print Assumptions C04_reweight_one.

Theorem C04_reweight :
  forall s w, Inv s -> (w0 < w)%Qc ->
  exists s', reweight_d s w = Some (Some s') /\ Inv s' /\ dabs s' = bscale w (dabs s).
Proof. exact reweight_d_spec. Qed.
Print Assumptions C04_reweight.

(* a cleared store is indistinguishable from a new one (the stale offset never leaks) *)
Theorem C04_clear_like_new :
  forall grow fixD1, grow_ok grow ->
  forall s l, lim s = Exact -> bins_ok l ->
  exists s1 s2, add_list grow fixD1 (clear_d s) l = Some s1 /\
                add_list grow fixD1 (new_dense Exact) l = Some s2 /\
                Inv s1 /\ Inv s2 /\ dabs s1 = dabs s2.
Proof. exact clear_like_new. Qed.
Print Assumptions C04_clear_like_new.

(* ---------------- E: histories ---------------- *)
(* op = OAdd i c | OClear | OReweight w | OMerge o;  op_ok: int32 index and c >= 0, w > 0, Inv o;
   run = the store, arun = the same history on Layer A (badd0, [], bscale, bmerge) *)
Theorem C04_history :
  forall grow fixD1, grow_ok grow ->
  forall ops, Forall op_ok ops ->
  exists s, run grow fixD1 (new_dense Exact) ops = Some s /\ Inv s /\ dabs s = arun [] ops.
Proof. exact run_refines. Qed.
Print Assumptions C04_history.

(* ---------------- a concrete store: the hypotheses are not vacuous ---------------- *)
Lemma grow63_ok : grow_ok grow63.
Proof. intros d. unfold grow63. lia. Qed.

Definition ex_adds : list (Z * W) :=
  [(5, w_of_Z 2); (-3, w_of_Z 1); (100, Q2Qc (1 # 2)); (5, w_of_Z 1); (7, w0); (-200, w_of_Z 4)].
Definition ex_store : option dense := add_list grow63 true (new_dense Exact) ex_adds.

(* the boolean parts of Inv, by computation on the store the model builds *)
Example ex_store_check : match ex_store with Some s => inv_checkb s | None => false end = true.
Proof. vm_compute. reflexivity. Qed.
Example ex_store_inv : exists s, ex_store = Some s /\ Inv s.
Proof.
  pose proof ex_store_check as H. destruct ex_store as [s|]; [|discriminate].
  exists s. split; [reflexivity|]. now apply inv_checkb_sound.
Qed.
(* its content and geometry (the array was grown and re-centred twice) *)
Example ex_store_content :
  option_map (fun s => (map (fun kw => (fst kw, this (snd kw))) (dabs s), this (count s), minI s, maxI s))
             ex_store
  = Some ([(-200, Qmake 4 1); (-3, Qmake 1 1); (5, Qmake 3 1); (100, Qmake 1 2)], Qmake 17 2, -200, 100).
Proof. vm_compute. reflexivity. Qed.
Example ex_store_foreach :
  match ex_store with Some s => option_map (map fst) (foreach s) | None => None end
  = Some [-200; -3; 5; 100].
Proof. vm_compute. reflexivity. Qed.
(* and through the theorem *)
Lemma ex_adds_ok : bins_ok ex_adds.
Proof.
  intros k w H. cbn [ex_adds In] in H.
  repeat (destruct H as [H|H];
          [inversion H; subst; split;
           [unfold idx_ok, MinInt32, MaxInt32; lia|apply wleb_le; vm_compute; reflexivity]|]).
  contradiction.
Qed.
Example ex_store_by_theorem :
  exists s, ex_store = Some s /\ Inv s /\ dabs s = bmerge_list [] ex_adds.
Proof.
  destruct (C04_merge_list grow63 true grow63_ok ex_adds (new_dense Exact) C04_inv_new ex_adds_ok)
    as (s & E & I & A).
  exists s. rewrite dabs_new in A. auto.
Qed.
Print Assumptions ex_store_by_theorem.
Print Assumptions ex_store_inv.
