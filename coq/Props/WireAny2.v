(* C06 / C07 / C08, second layer: BOTH variants of the sketch (plain, exact summary statistics) as producer
   and as consumer, the mapping embedded or omitted, receivers of all five store kinds.
   Statements only; the proofs are in Wire/WireAnyProofs2.v, on top of Wire/WireAnyProofs.v.
   Vocabulary (defined in WireAnyProofs2.v, restated below as checked equations):
     ds_inv_x d               both stores of the receiver satisfy StInv; plain OR exact decoder
     stats_block t b          what a block does to the receiver's statistics: nothing for the plain decoder
                              (None); AddToCount((w+1)-1) / AddToSum / Add(x, 0) / Add(x, 0) for the exact one
     stats_stream t st        the same along a stream
     absorbed_x d d' st       d' holds d plus the documented content of st ([absorbed] of WireAnyProofs.v on
                              both stores, zero count, last mapping, statistics)
     ds_final d'              the checks DecodeAndMergeWith makes after the block loop: "missing index mapping";
                              exact variant: "missing exact summary statistics" (count = 0 on a non-empty sketch)
     stats_blocks t           the statistics blocks DDSketchWithExactSummaryStatistics.Encode emits: count
                              (varfloat64), sum, min, max (float64 LE), each omitted at its neutral value
     x_sketch_stream ...      statistics, zero count, mapping (unless omitted), positive store, negative store
     su_absorb r src          the receiver's statistics after decoding the statistics of src: the binary64
                              instance of SummaryProofs.enc_dec (C10), the count through the varfloat codec
     sketch_src_ok s          premises on an encoded sketch: StInv of both stores, weights and zero count cross
                              the wire exactly (integers < 2^53 do), mapping of a supported kind with gamma > 1
     holds_merge d d' s       d' = d merged with s: both stores (clamped to the receiver's limits), zero count
     no_array s               s is a sparse or a paginated store
   Only the four axioms of the stdlib real numbers (through Flocq) appear. *)
From Coq Require Import Bool NArith ZArith List.
From Flocq Require Import IEEE754.BinarySingleNaN IEEE754.Binary IEEE754.Bits.
From SK Require Import Codec.Codec.
From SK Require Codec.Varfloat.
From SK Require Import Base.Prelude Base.F64 Spec.Bins Spec.BinsProofs Store.Any Stat.Summary Sketch.Sketch.
From SK Require Store.DenseProofs Store.PaginatedProofs.
From SK Require Import Store.AnyProofs.
From SK Require Import Wire.Grammar Wire.GrammarRaw Wire.Wire Wire.WireProofs Wire.WireAnyProofs Wire.WireAnyProofs2.
Import ListNotations.
Close Scope Z_scope.
Close Scope N_scope.
Open Scope nat_scope.
Open Scope list_scope.

(* ---------------- vocabulary ---------------- *)
Example ds_inv_x_def d : ds_inv_x d = (StInv (ds_pos d) /\ StInv (ds_neg d)) := eq_refl.
Example stats_block_def t b :
  stats_block t b =
  match t with
  | None => None
  | Some t => Some match b with
                   | BCount w => su_add_to_count t (fsub (fadd w f64_one) f64_one)
                   | BSum x => su_add_to_sum t x
                   | BMin x => su_add t x f64_zero
                   | BMax x => su_add t x f64_zero
                   | _ => t
                   end
  end := eq_refl.
Example stats_stream_def t st : stats_stream t st = fold_left stats_block st t := eq_refl.
Example absorbed_x_def d d' st :
  absorbed_x d d' st =
  (absorbed (ds_pos d) (ds_pos d') (stream_pos_bins st) /\
   absorbed (ds_neg d) (ds_neg d') (stream_neg_bins st) /\
   ds_zero d' = fold_left wadd (stream_zero st) (ds_zero d) /\
   ds_map d' = last_mapid (ds_map d) st /\
   ds_stats d' = stats_stream (ds_stats d) st) := eq_refl.
Example ds_final_def d' :
  ds_final d' =
  match ds_map d' with
  | None => DErr EMissingMapping
  | Some _ => match ds_stats d' with
              | Some t => if feq (su_count t) f64_zero && negb (ds_plain_empty d') then DErr EMissingStats else DOk d' []
              | None => DOk d' []
              end
  end := eq_refl.
(* the model's DecodeAndMergeWith is the block loop followed by exactly these checks *)
Example dec_sketch_into_def wx d b :
  dec_sketch_into wx d b =
  match dec_blocks wx (S (length b)) d b with
  | DOk s' rest =>
    match ds_map s' with
    | None => DErr EMissingMapping
    | Some _ => match ds_stats s' with
                | Some t => if feq (su_count t) f64_zero && negb (ds_plain_empty s') then DErr EMissingStats else DOk s' rest
                | None => DOk s' rest
                end
    end
  | r => r
  end := eq_refl.
Example known_flag_def f :
  known_flag f =
  (((flag_type f = ft_positive \/ flag_type f = ft_negative) /\
    (flag_sub f = sub_idx_deltas_counts \/ flag_sub f = sub_idx_deltas \/ flag_sub f = sub_contiguous))
   \/ (flag_type f = ft_mapping /\ WireProofs.kind_ok (N.shiftr f 2))
   \/ f = flag_zero_count \/ f = flag_count \/ f = flag_sum \/ f = flag_min \/ f = flag_max) := eq_refl.
Example stats_blocks_def t :
  stats_blocks t =
  match t with
  | None => []
  | Some t =>
    (if feq (su_count t) f64_zero then [] else [BCount (su_count t)])
    ++ (if feq (su_get_sum t) f64_zero then [] else [BSum (su_get_sum t)])
    ++ (if feq (su_min t) f64_pinf then [] else [BMin (su_min t)])
    ++ (if feq (su_max t) f64_ninf then [] else [BMax (su_max t)])
  end := eq_refl.
Example x_sketch_stream_def t m z omit stp stn :
  x_sketch_stream t m z omit stp stn =
  stats_blocks t ++ (if weqb z w0 then [] else [BZeroCount (q2f z)])
  ++ (if omit then [] else [BMapping (mk_kind m) (mk_gamma m) (mk_off m)]) ++ stp ++ stn := eq_refl.
Example su_absorb_def r src :
  su_absorb r src =
  (let r1 := if feq (su_count src) f64_zero then r else su_add_to_count r (fsub (fadd (su_count src) f64_one) f64_one) in
   let r2 := if feq (su_get_sum src) f64_zero then r1 else su_add_to_sum r1 (su_get_sum src) in
   let r3 := if feq (su_min src) f64_pinf then r2 else su_add r2 (su_min src) f64_zero in
   if feq (su_max src) f64_ninf then r3 else su_add r3 (su_max src) f64_zero) := eq_refl.
Example stats_absorb_def r src :
  stats_absorb r src = match r, src with Some r, Some src => Some (su_absorb r src) | _, _ => r end := eq_refl.
Example sketch_src_ok_def s :
  sketch_src_ok s =
  (StInv (sk_pos s) /\ StInv (sk_neg s) /\ store_wire_ok (sk_pos s) /\ store_wire_ok (sk_neg s) /\
   wexact (sk_zero s) /\ (WireProofs.kind_ok (mk_kind (sk_map s)) /\ fle (mk_gamma (sk_map s)) f64_one = false)) := eq_refl.
Example map_compatible_def d s :
  map_compatible d s = match ds_map d with Some m0 => map_equals m0 (sk_map s) = true | None => True end := eq_refl.
Example holds_merge_def d d' s :
  holds_merge d d' s =
  (StInv (ds_pos d') /\ StInv (ds_neg d') /\
   st_kind (ds_pos d') = st_kind (ds_pos d) /\ st_kind (ds_neg d') = st_kind (ds_neg d) /\
   st_abs (ds_pos d') = smerge_list (st_limit (ds_pos d)) (st_abs (ds_pos d)) (st_abs (sk_pos s)) /\
   st_abs (ds_pos d') = norm (st_limit (ds_pos d)) (bmerge (st_abs (ds_pos d)) (st_abs (sk_pos s))) /\
   st_abs (ds_neg d') = smerge_list (st_limit (ds_neg d)) (st_abs (ds_neg d)) (st_abs (sk_neg s)) /\
   st_abs (ds_neg d') = norm (st_limit (ds_neg d)) (bmerge (st_abs (ds_neg d)) (st_abs (sk_neg s))) /\
   ds_zero d' = wadd (ds_zero d) (sk_zero s)) := eq_refl.
Example no_array_def s : no_array s = match s with SD _ => False | _ => True end := eq_refl.
Example stat_field_def t get neutral tr :
  stat_field t get neutral tr =
  match t with None => [] | Some t => if feq (get t) neutral then [] else [tr (get t)] end := eq_refl.

(* ================================================================== *)
(* C07: both variants of the decoder accept the documented grammar     *)
(* ================================================================== *)
(* G3 for the plain AND the exact decoder, receivers of any kinds: the block loop absorbs the stream; the
   result is what the final checks of DecodeAndMergeWith make of it *)
Theorem C07_x_decoder_accepts_grammar : forall (wx : wfixes), fD2 wx = true -> forall (st : stream) (d : dsketch),
  wf_stream st -> idx_stream st -> nonneg_stream_w st -> maps_chain (ds_map d) st -> ds_inv_x d ->
  exists d', dec_sketch_into wx d (serialize st) = ds_final d' /\ absorbed_x d d' st.
Proof. exact x_decoder_accepts_grammar. Qed.
Print Assumptions C07_x_decoder_accepts_grammar.

(* the statistics blocks of an encoded exact sketch, decoded by the exact variant *)
Theorem C07_x_stats_blocks_absorbed : forall r src : option summary,
  stats_stream r (stats_blocks src) = stats_absorb r src.
Proof. exact stats_stream_blocks. Qed.
Print Assumptions C07_x_stats_blocks_absorbed.

(* (a) producer side, BOTH variants, any store kinds, mapping embedded or omitted: Encode emits
   [x_sketch_stream]: for the exact variant the plain blocks preceded by count / sum / min / max *)
Theorem C07_x_enc_sketch_grammar : forall (s : sketch) (omit : bool),
  StInv (sk_pos s) -> StInv (sk_neg s) -> store_wire_ok (sk_pos s) -> store_wire_ok (sk_neg s) ->
  exists p' n' stp stn xp xn,
    enc_sketch s omit = (with_stores s p' n',
                         serialize (x_sketch_stream (sk_stats s) (sk_map s) (sk_zero s) omit stp stn)) /\
    StInv p' /\ st_kind p' = st_kind (sk_pos s) /\ st_abs p' = st_abs (sk_pos s) /\
    StInv n' /\ st_kind n' = st_kind (sk_neg s) /\ st_abs n' = st_abs (sk_neg s) /\
    store_stream false stp xp /\ bins_of_list xp = st_abs (sk_pos s) /\
    store_stream true stn xn /\ bins_of_list xn = st_abs (sk_neg s).
Proof. exact enc_sketch_x_grammar. Qed.
Print Assumptions C07_x_enc_sketch_grammar.

(* the decoder written from the documentation alone reads back the content AND the statistics of the
   encoding of either variant, any store kinds *)
Theorem C07_x_enc_sketch_ref_decode : forall (s : sketch) (omit : bool), sketch_src_ok s ->
  exists c, ref_decode_raw (snd (enc_sketch s omit)) = Some c /\
    c_pos c = st_abs (sk_pos s) /\ c_neg c = st_abs (sk_neg s) /\ c_zero c = sk_zero s /\
    c_map c = (if omit then None else Some (mapid_triple (sk_map s))) /\
    c_count c = stat_field (sk_stats s) su_count f64_zero (fun x => fsub (fadd x f64_one) f64_one) /\
    c_sum c = stat_field (sk_stats s) su_get_sum f64_zero (fun x => x) /\
    c_min c = stat_field (sk_stats s) su_min f64_pinf (fun x => x) /\
    c_max c = stat_field (sk_stats s) su_max f64_ninf (fun x => x).
Proof. exact enc_sketch_ref_decode_x. Qed.
Print Assumptions C07_x_enc_sketch_ref_decode.

(* (c) "A plain sketch decoder accepts the encoding of a sketch with exact summary statistics and ignores
   the statistics blocks": s is of either variant *)
Theorem C07_x_exact_into_plain : forall (wx : wfixes) (s : sketch) (omit : bool) (d : dsketch),
  fD2 wx = true -> sketch_src_ok s -> ds_inv_x d -> map_compatible d s ->
  ds_stats d = None -> (omit = true -> ds_map d <> None) ->
  exists d', dec_sketch_into wx d (snd (enc_sketch s omit)) = DOk d' [] /\ holds_merge d d' s /\
             ds_map d' = (if omit then ds_map d else Some (sk_map s)) /\ ds_stats d' = None.
Proof. exact x_into_plain. Qed.
Print Assumptions C07_x_exact_into_plain.

(* ... and ends with the same bins, zero count and mapping as on the plain encoding of the same content *)
Theorem C07_x_plain_ignores_statistics : forall (wx : wfixes) (s : sketch) (t : summary) (omit : bool) (d : dsketch),
  fD2 wx = true -> sketch_src_ok s -> ds_inv_x d -> map_compatible d s ->
  ds_stats d = None -> (omit = true -> ds_map d <> None) ->
  exists d1 d2,
    dec_sketch_into wx d (snd (enc_sketch (with_stats s (Some t)) omit)) = DOk d1 [] /\
    dec_sketch_into wx d (snd (enc_sketch (with_stats s None) omit)) = DOk d2 [] /\
    st_abs (ds_pos d1) = st_abs (ds_pos d2) /\ st_abs (ds_neg d1) = st_abs (ds_neg d2) /\
    st_kind (ds_pos d1) = st_kind (ds_pos d2) /\ st_kind (ds_neg d1) = st_kind (ds_neg d2) /\
    ds_zero d1 = ds_zero d2 /\ ds_map d1 = ds_map d2 /\ ds_stats d1 = None /\ ds_stats d2 = None /\
    holds_merge d d1 s.
Proof. exact x_plain_ignores_statistics. Qed.
Print Assumptions C07_x_plain_ignores_statistics.

(* (d) the code before the repair (fD2 = false: the plain decoder skipped 8 bytes after the count flag, whose
   payload is a varfloat64): a valid exact-summary encoding, produced by Encode, is refused *)
Theorem C07_x_exact_into_plain_refuted_legacy :
  exists (s : sketch) (d : dsketch),
    sketch_src_ok s /\ ds_inv_x d /\ map_compatible d s /\ ds_stats d = None /\ sk_stats s <> None /\
    (exists d', dec_sketch_into {| fD2 := true; fD3 := true |} d (snd (enc_sketch s false)) = DOk d' []) /\
    dec_sketch_into {| fD2 := false; fD3 := true |} d (snd (enc_sketch s false)) = DErr EUnknownFlag.
Proof. exact exact_into_plain_refuted_legacy. Qed.
Print Assumptions C07_x_exact_into_plain_refuted_legacy.

(* ================================================================== *)
(* C06: round trips of both variants, the mapping embedded or omitted  *)
(* ================================================================== *)
(* Encode of either variant, DecodeAndMergeWith of either variant, any store kinds on the four sides *)
Theorem C06_x_roundtrip : forall (wx : wfixes) (s : sketch) (omit : bool) (d : dsketch),
  fD2 wx = true -> sketch_src_ok s -> ds_inv_x d -> map_compatible d s ->
  exists d', dec_sketch_into wx d (snd (enc_sketch s omit)) = ds_final d' /\ holds_merge d d' s /\
             ds_map d' = (if omit then ds_map d else Some (sk_map s)) /\
             ds_stats d' = stats_absorb (ds_stats d) (sk_stats s).
Proof. exact x_roundtrip. Qed.
Print Assumptions C06_x_roundtrip.

(* the long form, with the sketch Encode leaves behind (as C06_any_sketch_roundtrip) *)
Theorem C06_x_sketch_roundtrip : forall (wx : wfixes) (s : sketch) (omit : bool) (d : dsketch),
  fD2 wx = true ->
  StInv (sk_pos s) -> StInv (sk_neg s) -> store_wire_ok (sk_pos s) -> store_wire_ok (sk_neg s) ->
  wexact (sk_zero s) -> map_valid (sk_map s) -> ds_inv_x d ->
  match ds_map d with Some m0 => map_equals m0 (sk_map s) = true | None => True end ->
  exists s' d', enc_sketch s omit = (s', snd (enc_sketch s omit)) /\
    sk_map s' = sk_map s /\ sk_zero s' = sk_zero s /\ sk_stats s' = sk_stats s /\
    StInv (sk_pos s') /\ StInv (sk_neg s') /\ st_abs (sk_pos s') = st_abs (sk_pos s) /\ st_abs (sk_neg s') = st_abs (sk_neg s) /\
    dec_sketch_into wx d (snd (enc_sketch s omit)) = ds_final d' /\ ds_inv_x d' /\
    st_kind (ds_pos d') = st_kind (ds_pos d) /\ st_kind (ds_neg d') = st_kind (ds_neg d) /\
    st_abs (ds_pos d') = smerge_list (st_limit (ds_pos d)) (st_abs (ds_pos d)) (st_abs (sk_pos s)) /\
    st_abs (ds_pos d') = norm (st_limit (ds_pos d)) (bmerge (st_abs (ds_pos d)) (st_abs (sk_pos s))) /\
    st_abs (ds_neg d') = smerge_list (st_limit (ds_neg d)) (st_abs (ds_neg d)) (st_abs (sk_neg s)) /\
    st_abs (ds_neg d') = norm (st_limit (ds_neg d)) (bmerge (st_abs (ds_neg d)) (st_abs (sk_neg s))) /\
    ds_zero d' = wadd (ds_zero d) (sk_zero s) /\
    ds_map d' = (if omit then ds_map d else Some (sk_map s)) /\
    ds_stats d' = stats_absorb (ds_stats d) (sk_stats s).
Proof. exact x_sketch_roundtrip. Qed.
Print Assumptions C06_x_sketch_roundtrip.

(* (b) exact producer, exact consumer: bins and zero count merged, the four statistics absorbed by
   AddToCount / AddToSum / Add(min, 0) / Add(max, 0); the only refusal left is "missing exact summary
   statistics" (total count 0 with a non-empty content) *)
Theorem C06_x_exact_roundtrip : forall (wx : wfixes) (s : sketch) (t : summary) (omit : bool) (d : dsketch) (t0 : summary),
  fD2 wx = true -> sketch_src_ok s -> ds_inv_x d -> map_compatible d s ->
  sk_stats s = Some t -> ds_stats d = Some t0 -> (omit = true -> ds_map d <> None) ->
  exists d', dec_sketch_into wx d (snd (enc_sketch s omit))
             = (if feq (su_count (su_absorb t0 t)) f64_zero && negb (ds_plain_empty d')
                then DErr EMissingStats else DOk d' []) /\
             holds_merge d d' s /\ ds_map d' = (if omit then ds_map d else Some (sk_map s)) /\
             ds_stats d' = Some (su_absorb t0 t).
Proof. exact x_exact_roundtrip. Qed.
Print Assumptions C06_x_exact_roundtrip.

(* (4) the mapping omitted and supplied by the receiver: the receiver keeps its own (Equals) mapping *)
Theorem C06_x_omit_roundtrip : forall (wx : wfixes) (s : sketch) (d : dsketch) (m0 : mapid),
  fD2 wx = true -> sketch_src_ok s -> ds_inv_x d ->
  ds_map d = Some m0 -> map_equals m0 (sk_map s) = true -> ds_stats d = None ->
  exists d', dec_sketch_into wx d (snd (enc_sketch s true)) = DOk d' [] /\ holds_merge d d' s /\
             ds_map d' = Some m0 /\ ds_stats d' = None.
Proof. exact x_omit_roundtrip. Qed.
Print Assumptions C06_x_omit_roundtrip.
(* ... and none supplied: refused, whichever variants are on the two sides *)
Theorem C06_x_omit_missing_mapping : forall (wx : wfixes) (s : sketch) (d : dsketch),
  fD2 wx = true -> sketch_src_ok s -> ds_inv_x d -> ds_map d = None ->
  dec_sketch_into wx d (snd (enc_sketch s true)) = DErr EMissingMapping.
Proof. exact x_omit_missing_mapping. Qed.
Print Assumptions C06_x_omit_missing_mapping.

(* (5) Encode does not change the observable state: no premise on the weights (the paginated stores compact
   while encoding; every other field is returned as it was) *)
Theorem C06_x_encode_keeps_state : forall (s : sketch) (omit : bool), StInv (sk_pos s) -> StInv (sk_neg s) ->
  let s' := fst (enc_sketch s omit) in
  StInv (sk_pos s') /\ StInv (sk_neg s') /\
  st_kind (sk_pos s') = st_kind (sk_pos s) /\ st_kind (sk_neg s') = st_kind (sk_neg s) /\
  st_abs (sk_pos s') = st_abs (sk_pos s) /\ st_abs (sk_neg s') = st_abs (sk_neg s) /\
  sk_zero s' = sk_zero s /\ sk_map s' = sk_map s /\ sk_stats s' = sk_stats s.
Proof. exact enc_sketch_keeps_state. Qed.
Print Assumptions C06_x_encode_keeps_state.

(* "encoding only appends to the caller's buffer": [enc_sketch] has no buffer argument. Every Go encoder does
   [*b = append( *b, ...)]; with the buffer made explicit that way the clause is the list identity below: a
   remark about the model's shape, NOT evidence about the code (the oracle of c06.py checks prefixes on the
   real encoder) *)
Example enc_sketch_into_def buf s omit :
  enc_sketch_into buf s omit = (fst (enc_sketch s omit), buf ++ snd (enc_sketch s omit)) := eq_refl.
Remark C06_x_remark_encode_into_appends : forall (buf : list byte) (s : sketch) (omit : bool),
  firstn (length buf) (snd (enc_sketch_into buf s omit)) = buf /\
  skipn (length buf) (snd (enc_sketch_into buf s omit)) = snd (enc_sketch s omit).
Proof. exact enc_sketch_into_appends. Qed.

(* ================================================================== *)
(* C08: unknown flags at every block boundary; no silent truncation; totality *)
(* ================================================================== *)
(* (1) a valid stream, then a byte that is not a defined flag, then anything: one of the three "unknown"
   errors; plain or exact decoder, receivers of any kinds. The four statistics flags are defined flags for
   both decoders ([known_flag]). Repaired code (fD3: before the repair an unknown bins layout was reported
   as success) *)
Theorem C08_x_unknown_flag_at_boundary : forall (wx : wfixes), fD2 wx = true -> fD3 wx = true ->
  forall (st : stream) (d : dsketch) (f : byte) (tl : list byte),
  wf_stream st -> idx_stream st -> nonneg_stream_w st -> maps_chain (ds_map d) st -> ds_inv_x d ->
  ~ known_flag f ->
  exists e, dec_sketch_into wx d (serialize st ++ f :: tl) = DErr e /\
            (e = EUnknownFlag \/ e = EUnknownBins \/ e = EUnknownMapping).
Proof. exact x_unknown_flag_at_boundary. Qed.
Print Assumptions C08_x_unknown_flag_at_boundary.
(* flags of the sketch-feature type: "unknown encoding flag" *)
Theorem C08_x_unknown_feature_flag_at_boundary : forall (wx : wfixes), fD2 wx = true ->
  forall (st : stream) (d : dsketch) (f : byte) (tl : list byte),
  wf_stream st -> idx_stream st -> nonneg_stream_w st -> maps_chain (ds_map d) st -> ds_inv_x d ->
  ~ known_flag f -> flag_type f = 0%N ->
  dec_sketch_into wx d (serialize st ++ f :: tl) = DErr EUnknownFlag.
Proof. exact x_unknown_feature_flag_at_boundary. Qed.
Print Assumptions C08_x_unknown_feature_flag_at_boundary.

(* C08_any_truncation for both variants of the decoder *)
Theorem C08_x_truncation : forall (wx : wfixes), fD2 wx = true -> fD3 wx = true ->
  forall (st : stream) (b : block) (d : dsketch) (p t : list byte),
  wf_stream st -> idx_stream st -> nonneg_stream_w st -> maps_chain (ds_map d) st -> ds_inv_x d ->
  wf_block b -> kind_ok_block b -> idx_block b -> okw_block nonneg_w b ->
  ser_block b = p ++ t -> t <> [] -> p <> [] ->
  dec_sketch_into wx d (serialize st ++ p) = DErr EEof.
Proof. exact x_truncation. Qed.
Print Assumptions C08_x_truncation.

(* every prefix (n bytes) of a valid encoding: the complete blocks st1 followed by the final checks, or io.EOF *)
Theorem C08_x_prefix_cases : forall (wx : wfixes), fD2 wx = true -> fD3 wx = true ->
  forall (st : stream) (d : dsketch) (n : nat),
  wf_stream st -> idx_stream st -> nonneg_stream_w st -> maps_chain (ds_map d) st -> ds_inv_x d ->
  (exists st1 st2 d', st = st1 ++ st2 /\ firstn n (serialize st) = serialize st1 /\
                      dec_sketch_into wx d (firstn n (serialize st)) = ds_final d' /\ absorbed_x d d' st1)
  \/ dec_sketch_into wx d (firstn n (serialize st)) = DErr EEof.
Proof. exact x_prefix_cases. Qed.
Print Assumptions C08_x_prefix_cases.

(* (2) "No truncated input is ever reported as success while holding content that differs from its complete
   blocks": success on the first n bytes => n is a block boundary (the bytes are the serialisation of a prefix
   st1 of the blocks) and the receiver holds exactly d plus the content of st1 *)
Theorem C08_x_no_silent_truncation : forall (wx : wfixes), fD2 wx = true -> fD3 wx = true ->
  forall (st : stream) (d : dsketch) (n : nat) (d' : dsketch) (rest : list byte),
  wf_stream st -> idx_stream st -> nonneg_stream_w st -> maps_chain (ds_map d) st -> ds_inv_x d ->
  dec_sketch_into wx d (firstn n (serialize st)) = DOk d' rest ->
  rest = [] /\
  exists st1 st2, st = st1 ++ st2 /\ firstn n (serialize st) = serialize st1 /\ absorbed_x d d' st1.
Proof. exact x_no_silent_truncation. Qed.
Print Assumptions C08_x_no_silent_truncation.

Theorem C08_x_prefix_no_panic : forall (wx : wfixes), fD2 wx = true -> fD3 wx = true ->
  forall (st : stream) (d : dsketch) (n : nat),
  wf_stream st -> idx_stream st -> nonneg_stream_w st -> maps_chain (ds_map d) st -> ds_inv_x d ->
  dec_sketch_into wx d (firstn n (serialize st)) <> DPanic.
Proof. exact x_prefix_no_panic. Qed.
Print Assumptions C08_x_prefix_no_panic.

(* (6) ARBITRARY bytes into receivers made of sparse and paginated stores (any pair), either variant of the
   decoder, repaired or not: never a panic. In the model: the map and the page list accept every int64
   index, [st_addw] / [st_add] never fail on them. The Go paginated store allocates its page table as a
   slice spanning the page range: see the report for byte strings on which the model and the code differ *)
Theorem C08_x_decoder_total_no_array : forall (wx : wfixes) (d : dsketch) (b : list byte),
  no_array (ds_pos d) /\ no_array (ds_neg d) -> dec_sketch_into wx d b <> DPanic.
Proof. exact decoder_total_na. Qed.
Print Assumptions C08_x_decoder_total_no_array.
Theorem C08_x_decoder_total_sparse_paginated : forall (wx : wfixes) (d : dsketch) (b : list byte),
  (st_kind (ds_pos d) = KSparse \/ st_kind (ds_pos d) = KPag) ->
  (st_kind (ds_neg d) = KSparse \/ st_kind (ds_neg d) = KPag) ->
  dec_sketch_into wx d b <> DPanic.
Proof. exact decoder_total_kinds. Qed.
Print Assumptions C08_x_decoder_total_sparse_paginated.

(* ================================================================== *)
(* Executable examples                                                 *)
(* ================================================================== *)
Definition xb (b : N) : f64 := f64_of_bits b.
Definition x_0 := xb 0.
Definition x_1 := xb 4607182418800017408.
Definition x_2 := xb 4611686018427387904.
Definition x_3 := xb 4613937818241073152.
Definition x_5 := xb 4617315517961601024.
Definition x_m1 := xb 13830554455654793216.
Definition x_gamma := xb 4607272490792564818.    (* 1.02 *)
Definition wxR : wfixes := {| fD2 := true; fD3 := true |}.
Definition x_map : mapid := {| mk_kind := 0; mk_gamma := x_gamma; mk_off := x_0 |}.
Definition kinds5 := [KDense; KSparse; KPag; KLow 2; KHigh 2].

(* ---- a stream of the grammar: statistics blocks interleaved with the others, the three bins layouts,
        a negative delta, a stride of 2; total count 3, sum 5, min -1, max 2 ---- *)
Definition ex_x : stream :=
  [BCount x_3; BSum x_5; BZeroCount x_2; BMapping 0 x_gamma x_0;
   BStore false (IndexDeltasAndCounts [(3%Z, x_1); (2%Z, x_2)]);
   BMin x_m1;
   BStore false (IndexDeltas [9%Z; (-4)%Z]);
   BStore true (ContiguousCounts (-7)%Z 2%Z [x_1; x_2]); BMax x_2].
(* the premises of the C08_x / C07_x stream theorems hold for it, with receivers of every kind and variant *)
Example C08_x_ex_stream_premises : wf_stream ex_x /\ idx_stream ex_x /\ nonneg_stream_w ex_x /\ maps_chain None ex_x.
Proof. apply admissibleb_ok. vm_compute. reflexivity. Qed.
Example C08_x_ex_receiver_premises : forall exact : bool,
  Forall (fun k => ds_inv_x (ds_fresh None k exact)) kinds5.
Proof.
  intros exact. unfold kinds5.
  repeat (apply Forall_cons; [apply fresh_inv_x; cbn; try exact I; discriminate|]). apply Forall_nil.
Qed.
Example C08_x_ex_bytes : serialize ex_x =
  [160; 4; 132; 0; 0; 0; 0; 0; 0; 20; 64; 4; 3; 2; 82; 184; 30; 133; 235; 81; 240; 63; 0; 0; 0; 0; 0; 0; 0; 0;
   5; 2; 6; 2; 4; 3; 136; 0; 0; 0; 0; 0; 0; 240; 191; 9; 2; 18; 7; 15; 2; 13; 4; 2; 3; 140; 0; 0; 0; 0; 0; 0; 0; 64]%N.
Proof. vm_compute. reflexivity. Qed.
(* C07_x_decoder_accepts_grammar: the exact decoder absorbs the statistics, the plain one ignores them *)
Example C07_x_ex_exact_decoder : map (fun k => x_sig (dec_sketch_into wxR (ds_fresh None k true) (serialize ex_x))) [KPag; KLow 2] =
  [inl ([(3%Z, 1%Q); (5%Z, 3%Q); (9%Z, 1%Q)], [((-7)%Z, 1%Q); ((-5)%Z, 2%Q)], 2%Q, Some (0%N, 4607272490792564818%N, 0%N),
        Some (4613937818241073152%N, 4617315517961601024%N, 13830554455654793216%N, 4611686018427387904%N), []);
   inl ([(8%Z, 4%Q); (9%Z, 1%Q)], [((-6)%Z, 1%Q); ((-5)%Z, 2%Q)], 2%Q, Some (0%N, 4607272490792564818%N, 0%N),
        Some (4613937818241073152%N, 4617315517961601024%N, 13830554455654793216%N, 4611686018427387904%N), [])].
Proof. vm_compute. reflexivity. Qed.
Example C07_x_ex_plain_decoder : x_sig (dec_sketch_into wxR (ds_fresh None KPag false) (serialize ex_x)) =
  inl ([(3%Z, 1%Q); (5%Z, 3%Q); (9%Z, 1%Q)], [((-7)%Z, 1%Q); ((-5)%Z, 2%Q)], 2%Q, Some (0%N, 4607272490792564818%N, 0%N), None, []).
Proof. vm_compute. reflexivity. Qed.

(* C08_x_unknown_flag_at_boundary. The decidable form of [known_flag]; 14 of the 256 bytes are defined flags *)
Example C08_x_ex_known_flagb : forall f, known_flagb f = false -> ~ known_flag f.
Proof. exact known_flagb_false. Qed.
Example C08_x_ex_known_flags : length (filter known_flagb (map N.of_nat (seq 0 256))) = 14.
Proof. vm_compute. reflexivity. Qed.
(* sixteen undefined flags (all four flag types) substituted at EVERY one of the ten block boundaries of ex_x,
   receivers of the five kinds, both variants of the decoder *)
Example C08_x_ex_unknown_flag_every_boundary :
  forallb (fun k => forallb (fun exact => forallb (fun i => forallb (fun f =>
     if known_flagb f then false else
     match dec_sketch_into wxR (ds_fresh None k exact) (serialize (firstn i ex_x) ++ f :: [1; 2; 3]%N) with
     | DErr EUnknownFlag | DErr EUnknownBins | DErr EUnknownMapping => true | _ => false end)
     [0; 8; 12; 16; 17; 19; 33; 35; 10; 18; 22; 128; 144; 164; 200; 255]%N) (seq 0 (S (length ex_x)))) [false; true]) kinds5 = true.
Proof. vm_compute. reflexivity. Qed.
(* all 256 bytes after the complete stream, paginated receiver, both variants *)
Example C08_x_ex_unknown_flag_sweep :
  forallb (fun exact => forallb (fun f =>
     if known_flagb f then true else
     match dec_sketch_into wxR (ds_fresh None KPag exact) (serialize ex_x ++ f :: [1; 2; 3]%N) with
     | DErr EUnknownFlag | DErr EUnknownBins | DErr EUnknownMapping => true | _ => false end)
     (map N.of_nat (seq 0 256))) [false; true] = true.
Proof. vm_compute. reflexivity. Qed.

(* C08_x_no_silent_truncation / C08_x_prefix_cases: the block boundaries of ex_x are at 0 2 11 13 30 36 45 49 55 64
   bytes. For receivers of the five kinds and both variants, all 65 prefixes: success exactly at the boundaries
   from the mapping block on; "missing index mapping" at the boundaries before it; io.EOF everywhere else *)
Example C08_x_ex_boundaries :
  map (fun i => length (serialize (firstn i ex_x))) (seq 0 (S (length ex_x))) = [0; 2; 11; 13; 30; 36; 45; 49; 55; 64].
Proof. vm_compute. reflexivity. Qed.
Definition cuts (sel : dres dsketch -> bool) (k : kind) (exact : bool) : list nat :=
  filter (fun n => sel (dec_sketch_into wxR (ds_fresh None k exact) (firstn n (serialize ex_x)))) (seq 0 (S (length (serialize ex_x)))).
Example C08_x_ex_no_silent_truncation :
  map (fun k => map (fun exact =>
    (cuts (fun r => match r with DOk _ [] => true | _ => false end) k exact,
     cuts (fun r => match r with DErr EMissingMapping => true | _ => false end) k exact,
     cuts (fun r => match r with DErr EEof => false | DErr EMissingMapping => false | DOk _ [] => false | _ => true end) k exact))
    [false; true]) kinds5
  = repeat (repeat ([30; 36; 45; 49; 55; 64], [0; 2; 11; 13], []) 2) 5.
Proof. vm_compute. reflexivity. Qed.
(* and the content at a boundary is the content of the complete blocks: after 45 bytes (six blocks) *)
Example C08_x_ex_cut_content :
  x_sig (dec_sketch_into wxR (ds_fresh None KDense true) (firstn 45 (serialize ex_x))) =
  x_sig (dec_sketch_into wxR (ds_fresh None KDense true) (serialize (firstn 6 ex_x)))
  /\ x_sig (dec_sketch_into wxR (ds_fresh None KDense true) (firstn 45 (serialize ex_x))) =
     inl ([(3%Z, 1%Q); (5%Z, 2%Q)], [], 2%Q, Some (0%N, 4607272490792564818%N, 0%N),
          Some (4613937818241073152%N, 4617315517961601024%N, 13830554455654793216%N, 13830554455654793216%N), []).
Proof. vm_compute. split; reflexivity. Qed.

(* ---- a sketch with exact summary statistics: Add(2.0, 5); Add(-1.0, 5); Add(0.0, 2); positive store dense
        {3:1, 5:2, 70:2}; negative store paginated, -38 -7 -7 buffered, the page [-64,-33] holding -40:3 ---- *)
Definition ex_exact : sketch := wit_sketch (Some wit_stats).
Definition ex_plain : sketch := wit_sketch None.
Example C06_x_ex_src_premises : sketch_src_ok ex_exact /\ sketch_src_ok ex_plain.
Proof. split; apply wit_src_ok. Qed.
Example C06_x_ex_stats : su_sig (sk_stats ex_exact) =
  Some (4622945017495814144%N, 4617315517961601024%N, 13830554455654793216%N, 4611686018427387904%N).   (* 12, 5, -1, 2 *)
Proof. vm_compute. reflexivity. Qed.
(* C07_x_enc_sketch_grammar: count, sum, min, max, zero count, mapping, positive store (index deltas and counts),
   negative store (index deltas for the buffer, one page of contiguous counts) *)
Example C07_x_ex_encode_blocks : option_map (map block_sig) (ref_parse (snd (enc_sketch ex_exact false))) =
  Some [(3%N, 0%N, (0%N, [], [4622945017495814144%N])); (4%N, 0%N, (0%N, [], [4617315517961601024%N]));
        (5%N, 0%N, (0%N, [], [13830554455654793216%N])); (6%N, 0%N, (0%N, [], [4611686018427387904%N]));
        (0%N, 0%N, (0%N, [], [4611686018427387904%N])); (1%N, 0%N, (0%N, [], [4607272490792564818%N; 0%N]));
        (2%N, 0%N, (1%N, [3%Z; 2%Z; 65%Z], [4607182418800017408%N; 4611686018427387904%N; 4611686018427387904%N]));
        (2%N, 1%N, (2%N, [(-7)%Z; 0%Z], []));
        (2%N, 1%N, (3%N, [(-64)%Z; 1%Z],
          [0; 0; 0; 0; 0; 0; 0; 0; 0; 0; 0; 0; 0; 0; 0; 0; 0; 0; 0; 0; 0; 0; 0; 0; 4613937818241073152; 0; 4607182418800017408; 0; 0; 0; 0; 0]%N))].
Proof. vm_compute. reflexivity. Qed.
(* the plain encoding of the same content is the same bytes without the 30 bytes of the four statistics blocks *)
Example C07_x_ex_plain_is_suffix : skipn 30 (snd (enc_sketch ex_exact false)) = snd (enc_sketch ex_plain false)
  /\ length (snd (enc_sketch ex_exact false)) = 98.
Proof. vm_compute. split; reflexivity. Qed.
(* C07_x_enc_sketch_ref_decode *)
Example C07_x_ex_ref_decode : content_sig (ref_decode_raw (snd (enc_sketch ex_exact false))) =
  Some ([(3%Z, 1%Q); (5%Z, 2%Q); (70%Z, 2%Q)], [((-40)%Z, 3%Q); ((-38)%Z, 1%Q); ((-7)%Z, 2%Q)], 2%Q,
        Some (0%N, 4607272490792564818%N, 0%N),
        ([4622945017495814144%N], [4617315517961601024%N], [13830554455654793216%N], [4611686018427387904%N])).
Proof. vm_compute. reflexivity. Qed.
(* C06_x_exact_roundtrip into fresh exact receivers of the five kinds: bins (clamped for the bounded ones), zero
   count, mapping, and the four statistics bit for bit *)
Example C06_x_ex_exact_roundtrip :
  map (fun k => x_sig (dec_sketch_into wxR (ds_fresh None k true) (snd (enc_sketch ex_exact false)))) kinds5 =
  map (fun pn => inl (fst pn, snd pn, 2%Q, Some (0%N, 4607272490792564818%N, 0%N),
                      Some (4622945017495814144%N, 4617315517961601024%N, 13830554455654793216%N, 4611686018427387904%N), []))
      [([(3%Z, 1%Q); (5%Z, 2%Q); (70%Z, 2%Q)], [((-40)%Z, 3%Q); ((-38)%Z, 1%Q); ((-7)%Z, 2%Q)]);
       ([(3%Z, 1%Q); (5%Z, 2%Q); (70%Z, 2%Q)], [((-40)%Z, 3%Q); ((-38)%Z, 1%Q); ((-7)%Z, 2%Q)]);
       ([(3%Z, 1%Q); (5%Z, 2%Q); (70%Z, 2%Q)], [((-40)%Z, 3%Q); ((-38)%Z, 1%Q); ((-7)%Z, 2%Q)]);
       ([(69%Z, 3%Q); (70%Z, 2%Q)], [((-8)%Z, 4%Q); ((-7)%Z, 2%Q)]);
       ([(3%Z, 1%Q); (4%Z, 4%Q)], [((-40)%Z, 3%Q); ((-39)%Z, 3%Q)])].
Proof. vm_compute. reflexivity. Qed.
(* C07_x_exact_into_plain / C07_x_plain_ignores_statistics: plain receivers, the exact and the plain encoding *)
Example C07_x_ex_exact_into_plain :
  map (fun k => x_sig (dec_sketch_into wxR (ds_fresh None k false) (snd (enc_sketch ex_exact false)))) kinds5 =
  map (fun k => x_sig (dec_sketch_into wxR (ds_fresh None k false) (snd (enc_sketch ex_plain false)))) kinds5
  /\ x_sig (dec_sketch_into wxR (ds_fresh None KPag false) (snd (enc_sketch ex_exact false))) =
     inl ([(3%Z, 1%Q); (5%Z, 2%Q); (70%Z, 2%Q)], [((-40)%Z, 3%Q); ((-38)%Z, 1%Q); ((-7)%Z, 2%Q)], 2%Q,
          Some (0%N, 4607272490792564818%N, 0%N), None, []).
Proof. vm_compute. split; reflexivity. Qed.
(* the code before the repair on the same bytes (the witness of C07_x_exact_into_plain_refuted_legacy) *)
Example C07_x_ex_legacy :
  map (fun k => x_sig (dec_sketch_into {| fD2 := false; fD3 := true |} (ds_fresh None k false) (snd (enc_sketch ex_exact false)))) kinds5 =
  [inr (Some EUnknownFlag); inr (Some EUnknownFlag); inr (Some EUnknownFlag); inr (Some EUnknownFlag); inr (Some EUnknownFlag)].
Proof. vm_compute. reflexivity. Qed.
(* decoding into a non-empty exact receiver = merging, statistics included: twice the same sketch *)
Example C06_x_ex_decode_twice :
  match dec_sketch_into wxR (ds_fresh None KSparse true) (snd (enc_sketch ex_exact false)) with
  | DOk d1 [] => x_sig (dec_sketch_into wxR d1 (snd (enc_sketch ex_exact false)))
  | _ => inr None
  end =
  inl ([(3%Z, 2%Q); (5%Z, 4%Q); (70%Z, 4%Q)], [((-40)%Z, 6%Q); ((-38)%Z, 2%Q); ((-7)%Z, 4%Q)], 4%Q,
       Some (0%N, 4607272490792564818%N, 0%N),
       Some (4627448617123184640%N, 4621819117588971520%N, 13830554455654793216%N, 4611686018427387904%N), []).   (* 24, 10, -1, 2 *)
Proof. vm_compute. reflexivity. Qed.
(* C06_x_omit_roundtrip / C06_x_omit_missing_mapping: the mapping omitted (17 bytes shorter) *)
Example C06_x_ex_omit :
  length (snd (enc_sketch ex_exact true)) = 81
  /\ map (fun ex => x_sig (dec_sketch_into wxR (ds_fresh None KPag ex) (snd (enc_sketch ex_exact true)))) [false; true]
     = [inr (Some EMissingMapping); inr (Some EMissingMapping)]
  /\ map (fun k => x_sig (dec_sketch_into wxR (ds_fresh (Some x_map) k false) (snd (enc_sketch ex_exact true)))) kinds5
     = map (fun k => x_sig (dec_sketch_into wxR (ds_fresh None k false) (snd (enc_sketch ex_exact false)))) kinds5
  /\ x_sig (dec_sketch_into wxR (ds_fresh (Some x_map) KPag true) (snd (enc_sketch ex_exact true)))
     = x_sig (dec_sketch_into wxR (ds_fresh None KPag true) (snd (enc_sketch ex_exact false))).
Proof. vm_compute. repeat split; reflexivity. Qed.
(* C06_x_encode_keeps_state: Encode compacts the paginated negative store (the buffered -38 moves to its
   page): the representation changes, the content does not; encoding again gives the same bytes *)
Example C06_x_ex_encode_keeps_state :
  (match sk_neg ex_exact with SP p => buffer p | _ => [] end) = [(-38)%Z; (-7)%Z; (-7)%Z]
  /\ (match sk_neg (fst (enc_sketch ex_exact false)) with SP p => buffer p | _ => [] end) = [(-7)%Z; (-7)%Z]
  /\ qbins (st_abs (sk_neg (fst (enc_sketch ex_exact false)))) = qbins (st_abs (sk_neg ex_exact))
  /\ qbins (st_abs (sk_pos (fst (enc_sketch ex_exact false)))) = qbins (st_abs (sk_pos ex_exact))
  /\ snd (enc_sketch (fst (enc_sketch ex_exact false)) false) = snd (enc_sketch ex_exact false).
Proof. vm_compute. repeat split; reflexivity. Qed.

(* C08_x_decoder_total_sparse_paginated: an index far outside int32 (2^62) is absorbed by a sparse receiver;
   int32 extremes by the exact variant are refused only for the missing statistics *)
Definition ex_far : stream :=
  [BMapping 0 x_gamma x_0; BStore false (ContiguousCounts 0%Z 1%Z [x_1]); BStore false (ContiguousCounts 4611686018427387904%Z 1%Z [x_1])].
Example C08_x_ex_far_bytes : serialize ex_far =
  [2; 82; 184; 30; 133; 235; 81; 240; 63; 0; 0; 0; 0; 0; 0; 0; 0; 13; 1; 0; 2; 2;
   13; 1; 128; 128; 128; 128; 128; 128; 128; 128; 128; 2; 2]%N.
Proof. vm_compute. reflexivity. Qed.
Example C08_x_ex_far_sparse : x_sig (dec_sketch_into wxR (ds_fresh None KSparse false) (serialize ex_far)) =
  inl ([(0%Z, 1%Q); (4611686018427387904%Z, 1%Q)], [], 0%Q, Some (0%N, 4607272490792564818%N, 0%N), None, []).
Proof. vm_compute. reflexivity. Qed.
