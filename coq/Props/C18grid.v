(* C18 (continued): "... and every value for which the (v+1)-1 transform is exact".
   Props/C18.v section k states the integers below 2^53; here the dyadic grid the rest of the
   development uses for weights: every non-negative binary64 value z / 2^k with 0 <= k <= 52 and
   z + 2^k <= 2^53 (the integers are the case k = 0) goes through the transform, hence through
   EncodeVarfloat64 / DecodeVarfloat64, unchanged; the bound on z + 2^k cannot be dropped.
   Statements only; the proofs are in Codec/VarfloatGrid.v (Flocq; only the four stdlib axioms of
   the real numbers). *)
From Coq Require Import Bool NArith ZArith QArith Qcanon List Reals.
From Flocq Require Import Core.Core IEEE754.Binary IEEE754.Bits IEEE754.BinarySingleNaN.
From SK Require Import Codec.Codec Codec.Varfloat Codec.CodecProofs Codec.VarfloatProofs Codec.VarfloatGrid.
From SK Require Base.Prelude Base.F64 Base.F64Proofs Sketch.MiscProofs.
Import ListNotations.

(* ---- l. (v+1)-1 is exact on the grid z / 2^k, 0 <= k <= 52, 0 <= z, z + 2^k <= 2^53 ---- *)
Theorem varfloat_exact_grid : forall (v : f64) (z k : Z),
  (0 <= k <= 52)%Z -> (0 <= z)%Z -> (z + 2 ^ k <= 2 ^ 53)%Z ->
  Binary.is_finite 53 1024 v = true -> Binary.Bsign 53 1024 v = false ->
  Binary.B2R 53 1024 v = (IZR z / IZR (2 ^ k))%R ->
  fsub (fadd v f64_one) f64_one = v.
Proof. exact VarfloatGrid.varfloat_exact_grid. Qed.
Print Assumptions varfloat_exact_grid.

(* the same with the value written z * 2^-k *)
Theorem varfloat_exact_grid_bpow : forall (v : f64) (z k : Z),
  (0 <= k <= 52)%Z -> (0 <= z)%Z -> (z + 2 ^ k <= 2 ^ 53)%Z ->
  Binary.is_finite 53 1024 v = true -> Binary.Bsign 53 1024 v = false ->
  Binary.B2R 53 1024 v = (IZR z * bpow radix2 (- k))%R ->
  fsub (fadd v f64_one) f64_one = v.
Proof. exact VarfloatGrid.varfloat_exact_grid_bpow. Qed.
Print Assumptions varfloat_exact_grid_bpow.

Theorem varfloat_grid_roundtrip : forall (v : f64) (z k : Z) (rest : list byte),
  (0 <= k <= 52)%Z -> (0 <= z)%Z -> (z + 2 ^ k <= 2 ^ 53)%Z ->
  Binary.is_finite 53 1024 v = true -> Binary.Bsign 53 1024 v = false ->
  Binary.B2R 53 1024 v = (IZR z / IZR (2 ^ k))%R ->
  dec_vf (enc_vf v ++ rest) = Ok v rest.
Proof. exact VarfloatGrid.varfloat_grid_roundtrip. Qed.
Print Assumptions varfloat_grid_roundtrip.

(* ---- m. the same for the exact weights of the model: v = q2f (gridv k z), gridv k z = z / 2^k in Qc ---- *)
Theorem varfloat_exact_gridq : forall k z : Z,
  (0 <= k <= 52)%Z -> (0 <= z)%Z -> (z + 2 ^ k <= 2 ^ 53)%Z ->
  F64.f2q (F64.fsub (F64.fadd (F64.q2f (MiscProofs.gridv k z)) F64.f64_one) F64.f64_one)
  = MiscProofs.gridv k z.
Proof. exact VarfloatGrid.varfloat_exact_gridq. Qed.
Print Assumptions varfloat_exact_gridq.

(* equality of floats (the codec's fadd / fsub / f64_one and the model's are the same Flocq operations) *)
Theorem varfloat_exact_gridq_float : forall k z : Z,
  (0 <= k <= 52)%Z -> (0 <= z)%Z -> (z + 2 ^ k <= 2 ^ 53)%Z ->
  fsub (fadd (F64.q2f (MiscProofs.gridv k z)) f64_one) f64_one = F64.q2f (MiscProofs.gridv k z).
Proof. exact VarfloatGrid.varfloat_exact_gridq_float. Qed.
Print Assumptions varfloat_exact_gridq_float.

Theorem varfloat_gridq_roundtrip : forall (k z : Z) (rest : list byte),
  (0 <= k <= 52)%Z -> (0 <= z)%Z -> (z + 2 ^ k <= 2 ^ 53)%Z ->
  dec_vf (enc_vf (F64.q2f (MiscProofs.gridv k z)) ++ rest) = Ok (F64.q2f (MiscProofs.gridv k z)) rest.
Proof. exact VarfloatGrid.varfloat_gridq_roundtrip. Qed.
Print Assumptions varfloat_gridq_roundtrip.

Theorem F64_ops_eq : F64.fadd = fadd /\ F64.fsub = fsub /\ F64.f64_one = f64_one.
Proof. exact VarfloatGrid.F64_ops_eq. Qed.
Print Assumptions F64_ops_eq.

(* ---- n. the bound is needed ---- *)
(* v = 2^-53 (0x3CA0000000000000) = 1 / 2^53 is on the grid k = 53, where z + 2^k = 2^53 + 1:
   v + 1 rounds to 1 and the decoder returns +0 *)
Example varfloat_inexact_2m53 :
  bits_of_f64 (f64_of_bits 4368491638549381120) = 4368491638549381120%N /\
  bits_of_f64 (fsub (fadd (f64_of_bits 4368491638549381120) f64_one) f64_one) = 0%N /\
  fsub (fadd (f64_of_bits 4368491638549381120) f64_one) f64_one <> f64_of_bits 4368491638549381120.
Proof. exact VarfloatGrid.varfloat_inexact_2m53. Qed.
Print Assumptions varfloat_inexact_2m53.

(* k = 1 <= 52 but z = 2^53 - 1, z + 2^k = 2^53 + 1: v = 2^52 - 1/2 (0x432FFFFFFFFFFFFF) comes back as
   2^52 - 1 (0x432FFFFFFFFFFFFE) *)
Example varfloat_inexact_2p52mh :
  bits_of_f64 (f64_of_bits 4841369599423283199) = 4841369599423283199%N /\
  bits_of_f64 (fsub (fadd (f64_of_bits 4841369599423283199) f64_one) f64_one) = 4841369599423283198%N /\
  fsub (fadd (f64_of_bits 4841369599423283199) f64_one) f64_one <> f64_of_bits 4841369599423283199.
Proof. exact VarfloatGrid.varfloat_inexact_2p52mh. Qed.
Print Assumptions varfloat_inexact_2p52mh.

(* ---- o. the premises are inhabited ---- *)
(* 0.75 = 3 / 2^2 = 0x3FE8000000000000 *)
Example varfloat_grid_0_75 :
  Binary.is_finite 53 1024 (f64_of_bits 4604930618986332160) = true /\
  Binary.Bsign 53 1024 (f64_of_bits 4604930618986332160) = false /\
  Binary.B2R 53 1024 (f64_of_bits 4604930618986332160) = (IZR 3 / IZR (2 ^ 2))%R /\
  bits_of_f64 (fsub (fadd (f64_of_bits 4604930618986332160) f64_one) f64_one) = 4604930618986332160%N /\
  forall rest, dec_vf (enc_vf (f64_of_bits 4604930618986332160) ++ rest)
               = Ok (f64_of_bits 4604930618986332160) rest.
Proof. exact VarfloatGrid.varfloat_grid_0_75. Qed.
Print Assumptions varfloat_grid_0_75.

(* 2^-52 = 1 / 2^52 = 0x3CB0000000000000: the finest grid *)
Example varfloat_grid_2m52 :
  Binary.is_finite 53 1024 (f64_of_bits 4372995238176751616) = true /\
  Binary.Bsign 53 1024 (f64_of_bits 4372995238176751616) = false /\
  Binary.B2R 53 1024 (f64_of_bits 4372995238176751616) = (IZR 1 / IZR (2 ^ 52))%R /\
  bits_of_f64 (fsub (fadd (f64_of_bits 4372995238176751616) f64_one) f64_one) = 4372995238176751616%N /\
  forall rest, dec_vf (enc_vf (f64_of_bits 4372995238176751616) ++ rest)
               = Ok (f64_of_bits 4372995238176751616) rest.
Proof. exact VarfloatGrid.varfloat_grid_2m52. Qed.
Print Assumptions varfloat_grid_2m52.

(* the weight 3/4 is the float 0x3FE8000000000000 *)
Example varfloat_gridq_0_75 :
  bits_of_f64 (F64.q2f (MiscProofs.gridv 2 3)) = 4604930618986332160%N /\
  F64.f2q (F64.fsub (F64.fadd (F64.q2f (MiscProofs.gridv 2 3)) F64.f64_one) F64.f64_one)
  = MiscProofs.gridv 2 3.
Proof. exact VarfloatGrid.varfloat_gridq_0_75. Qed.
Print Assumptions varfloat_gridq_0_75.
