(* Props/GlueHi — the interpolated mappings of the bit-exact model (SK.Mapping.Glue, kinds MLin and MCub) in the
   COARSE range of relative accuracies, under explicit ACCURACY HYPOTHESES ON THE ORACLE only.
   Statements only; proofs: SK.Mapping.GlueHi.

   Props/GlueCtor.v stops at a = 0.3 (linear) and Props/GlueCub.v at a = 0.32 (cubic): there the multiplier
   1 / math.Log2 (gamma) is at least 1 ([reasonable]), gamma <= 2 and the bin ratio g0 <= 2.  Here:
     NewLinearlyInterpolatedMapping (a)   0.3  <= val a <= 0.99     (multiplier down to 0.189, gamma up to 39.2)
     NewCubicallyInterpolatedMapping (a)  0.32 <= val a <= 0.99     (multiplier down to 0.132, gamma up to 189)
   and, joined with the earlier files, the whole ranges [1e-6, 0.99] and [2.5e-6, 0.99] (section 6).

   1. the kind-generic argument for a multiplier in [1/16, 2^20] ([reasonable_hi]), in the single-index form:
      nothing is asked of Index v + 1 (LowerBound (Index v + 1) is +Inf near MaxIndexableValue for a coarse mapping);
      containment from above and the bin ratio are stated where the neighbour is in range.  No bound on g0.
   2. hypotheses [libm_hi_ok L k] (u53 = 2^-53):
        log2_accurate_hi L k   forall x, finite x -> 1 <= val x <= 256 ->
                                 finite (l_log2 L x) /\ |val (l_log2 L x) - ln (val x) / ln 2| <= k u53 * 8
                               (the arguments actually passed: gamma = g0^(ln 2) <= 39.2, resp. g0^(10 ln 2 / 7) <= 189)
        pow_accurate_hi L k    forall x y, finite x, y -> 1 <= val x <= 256 -> 0 <= val y <= 2 ->
                                 finite (l_pow L x y) /\ |val (l_pow L x y) - x^y| <= k u53 x^y
                               (math.Pow ((1+a)/(1-a), Ln2 | 10 Ln2/7) with base <= 199.0000001, and
                                math.Pow (gamma, 1/Ln2 | 7/(10 Ln2)) with base <= 189)
        exp_accurate L k, exp2_underflow_ok L, exp2_sane L, floor_exact L:   as in Props/GlueCtor.v
                               (math.Exp is called at math.Log2 (gamma) <= 5.3, resp. 0.7 math.Log2 (gamma), and at expOverflow)
        0 <= k <= 64
      [libm_cub_hi_ok L k kc] adds sqrt_accurate L, cbrt_accurate L kc, 0 <= kc <= 32 of Props/GlueCub.v.
   3. New*MappingWithGamma for gamma with bin ratio exp (kap log2 gamma) in [1.85, 200] (cubic: [1.91, 200]).
   4. New*Mapping (a): every finite v in (MinIndexableValue, MaxIndexableValue] is a normal float, Index v is in range,
      Value (Index v) is finite, LowerBound (Index v) <= v (1 + 2^-38), v <= LowerBound (Index v) (1+a)/(1-a) (1 + 2^-35),
      |Value (Index v) - v| <= (a + 2^-34) v.
   5. the Qc form (last premise of Bridge_C01_lin_accuracy_rnd64 / Bridge_C01_cub_accuracy_rnd64), gm_small, gm_range_ok,
      C01 end to end.
   Definitions (plain, in GlueHi): reasonable_hi; q36 = 2^-36, q42 = 2^-42;
     adjh_of L cadj g = l_pow L g cadj; minh_of / maxh_of: the two expressions of the constructor; mk_hi_of L kd cadj g off:
     the record with_gamma builds (= mk_lin L g off for (MLin, c_inv_ln2), = mk_cub L g off for (MCub, c_7_10ln2));
     factorh_of; Gh_of L kap g = exp (kap * val (l_log2 L g)); g0h_of = Gh_of * (1 + 40 u53);
     g0_lin_hi L g = exp (val (l_log2 L g)) * (1 + 40 u53); g0_cub_hi L g = exp (0.7 val (l_log2 L g)) * (1 + 40 u53);
     kind_hi / acc_hi: the records of what distinguishes the two kinds (kap = 1/c, exponents, ideal pair, margins). *)
From Coq Require Import Bool NArith ZArith QArith Qcanon Qcabs Reals List Permutation Sorted.
From Flocq Require Import Core.Core IEEE754.BinarySingleNaN IEEE754.Binary IEEE754.Bits.
From SK Require Import Base.Prelude Base.F64 Base.F64Proofs Mapping.Glue Mapping.GlueProofs Mapping.GlueAccuracy.
From SK.Real Require Import RBasics MapGeneric Binade MapLin.
From SK.Real Require MapCub.
From SK Require Import Spec.Bins Spec.BinsProofs Spec.ASketch Store.Any Store.AnyProofs Stat.Summary
                       Sketch.Sketch Sketch.SketchProofs Sketch.RankProofs Sketch.RefineProofs
                       Sketch.RoundingInstance Sketch.BridgeProofs.
From SK Require Import Mapping.GlueCtor Mapping.GlueCub Mapping.GlueHi.
Import ListNotations.
Local Open Scope R_scope.

Local Notation finite x := (is_finite 53 1024 x = true).
Local Notation val x := (B2R 53 1024 x).
Local Notation normal_pos x := (is_finite 53 1024 x = true /\ Rle (bpow radix2 (-1022)) (B2R 53 1024 x)).

(* ------------------------------------------------------------------ *)
(* 1. the generic argument for a multiplier in [1/16, 2^20]            *)
(* ------------------------------------------------------------------ *)
Theorem GH_reasonable_hi_def (k : mkind) (m : gmap) :
  reasonable_hi k m <->
  gm_kind m = k /\ finite (gm_mult m) /\ finite (gm_off m) /\
  / 16 <= val (gm_mult m) <= 1048576 /\ Rabs (val (gm_off m)) <= 2048 * val (gm_mult m).
Proof. reflexivity. Qed.
Print Assumptions GH_reasonable_hi_def.

Theorem GH_reasonable_is_hi (k : mkind) (m : gmap) : reasonable k m -> reasonable_hi k m.
Proof. exact (reasonable_is_hi k m). Qed.
Print Assumptions GH_reasonable_is_hi.

(* the index brackets the ideal logarithm up to 2^-40, whatever the multiplier in [1/16, 2^20] *)
Theorem GH_gen_index_brackets (L : libm) (k : mkind) (Lr : R -> R) (m : gmap) (v : f64) :
  forward_ok L k Lr -> reasonable_hi k m -> normal_pos v ->
  let i := gm_index L m v in
  (IZR i - val (gm_off m)) / val (gm_mult m) <= Lr (val v) + q40 /\
  Lr (val v) - q40 <= (IZR i + 1 - val (gm_off m)) / val (gm_mult m) /\
  Rabs (IZR i) <= 4096 * val (gm_mult m) + 1.
Proof. intros H1 H2. exact (hi_index_brackets L k Lr H1 m H2 v). Qed.
Print Assumptions GH_gen_index_brackets.

(* the bin of v in terms of its own lower bound: only Index v has to be in range *)
Theorem GH_gen_bin_of_v (L : libm) (k : mkind) (Lr Linvr : R -> R) (c : R) (m : gmap) (v : f64) :
  LogLike Lr Linvr c -> 1 <= c -> forward_ok L k Lr -> inverse_ok L k Linvr -> reasonable_hi k m ->
  normal_pos v ->
  let i := gm_index L m v in
  GlueAccuracy.in_range m i ->
  (finite (gm_lower L m i) /\ bpow radix2 (-1022) <= val (gm_lower L m i) /\
   val (gm_lower L m i) <= val v * (1 + q38)) /\
  val v <= val (gm_lower L m i) * exp (1 / (c * val (gm_mult m))) * (1 + q38).
Proof.
  intros H1 H2 H3 H4 H5 Hv i Ri.
  exact (conj (hi_lower_le L k Lr Linvr c H1 H2 H3 H4 m H5 v Hv Ri) (hi_v_le_lower L k Lr Linvr c H1 H2 H3 H4 m H5 v Hv Ri)).
Qed.
Print Assumptions GH_gen_bin_of_v.

(* containment from above where the neighbour bound is finite *)
Theorem GH_gen_v_le_next (L : libm) (k : mkind) (Lr Linvr : R -> R) (c : R) (m : gmap) (v : f64) :
  LogLike Lr Linvr c -> 1 <= c -> forward_ok L k Lr -> inverse_ok L k Linvr -> reasonable_hi k m ->
  normal_pos v ->
  let i := gm_index L m v in
  GlueAccuracy.in_range m (i + 1) -> val v <= val (gm_lower L m (i + 1)) * (1 + q38).
Proof. intros H1 H2 H3 H4 H5. exact (hi_v_le_next L k Lr Linvr c H1 H2 H3 H4 m H5 v). Qed.
Print Assumptions GH_gen_v_le_next.

Theorem GH_gen_bin_ratio (L : libm) (k : mkind) (Lr Linvr : R -> R) (c : R) (m : gmap) (i : Z) :
  LogLike Lr Linvr c -> 1 <= c -> inverse_ok L k Linvr -> reasonable_hi k m ->
  (Z.abs i < 2 ^ 53)%Z -> GlueAccuracy.in_range m i -> GlueAccuracy.in_range m (i + 1) ->
  val (gm_lower L m (i + 1)) <= val (gm_lower L m i) * exp (1 / (c * val (gm_mult m))) * (1 + q38).
Proof. intros H1 H2 H4 H5. exact (hi_bin_ratio L k Lr Linvr c H1 H2 H4 m H5 i). Qed.
Print Assumptions GH_gen_bin_ratio.

(* |Value (Index v) - v| <= (alpha_of g0 + eF + 2^-36) v for EVERY g0 above the ideal bin ratio (no g0 <= 4) *)
Theorem GH_gen_value_accuracy (L : libm) (k : mkind) (Lr Linvr : R -> R) (c : R) (m : gmap) (g0 eF : R) (v : f64) :
  LogLike Lr Linvr c -> 1 <= c -> forward_ok L k Lr -> inverse_ok L k Linvr -> reasonable_hi k m ->
  exp (1 / (c * val (gm_mult m))) <= g0 -> 0 <= eF <= / 8388608 -> value_factor_ok L m g0 eF ->
  normal_pos v ->
  let i := gm_index L m v in
  GlueAccuracy.in_range m i -> finite (gm_value L m i) ->
  Rabs (val (gm_value L m i) - val v) <= (alpha_of g0 + eF + q36) * val v.
Proof. intros H1 H2 H3 H4 H5. exact (hi_value_accuracy L k Lr Linvr c H1 H2 H3 H4 m H5 g0 eF v). Qed.
Print Assumptions GH_gen_value_accuracy.

Theorem GH_gen_value_accuracy_Qc (L : libm) (k : mkind) (Lr Linvr : R -> R) (c : R) (m : gmap) (g0 eF : R)
  (alpha : Qc) (v : f64) :
  LogLike Lr Linvr c -> 1 <= c -> forward_ok L k Lr -> inverse_ok L k Linvr -> reasonable_hi k m ->
  exp (1 / (c * val (gm_mult m))) <= g0 -> 0 <= eF <= / 8388608 -> value_factor_ok L m g0 eF ->
  alpha_of g0 + eF + q36 <= qR alpha ->
  normal_pos v ->
  let i := gm_index L m v in
  GlueAccuracy.in_range m i -> finite (gm_value L m i) ->
  (Qcabs (f2q (gm_value L m i) - f2q v) <= alpha * f2q v)%Qc.
Proof. intros H1 H2 H3 H4 H5. exact (hi_value_accuracy_Qc L k Lr Linvr c H1 H2 H3 H4 m H5 g0 eF alpha v). Qed.
Print Assumptions GH_gen_value_accuracy_Qc.

(* ------------------------------------------------------------------ *)
(* 2. numerics, hypotheses                                             *)
(* ------------------------------------------------------------------ *)
Theorem GH_numerics :
  230 <= exp 6 /\ exp (44 / 100) <= 179 / 100 /\ ln (9 / 5) <= 651 / 1000 /\ ln (19 / 10) <= 6432 / 10000.
Proof. exact (conj exp6_ge (conj exp_045 (conj ln_18 ln_19))). Qed.
Print Assumptions GH_numerics.

(* the margins at the two ends of the float range: the ideal logarithm of a value above 2^-1022 * A exceeds
   -1022 + c ln A by 0.149 (linear, A >= 1.8) resp. 0.005 (cubic, A >= 1.9); it stays below 1023.9 up to 1.5 * 2^1023 *)
Theorem GH_margins (A v : R) :
  (9 / 5 <= A -> bpow radix2 (-1022) * A <= v -> IZR (-1022) + 1 * ln A + 149 / 1000 <= L_lin v) /\
  (19 / 10 <= A -> bpow radix2 (-1022) * A <= v -> IZR (-1022) + 10 / 7 * ln A + 5 / 1000 <= MapCub.L_cub v) /\
  (0 < v -> v <= bpow radix2 1023 * (3 / 2) -> L_lin v <= 1023 + 9 / 10) /\
  (0 < v -> v <= bpow radix2 1023 * (3 / 2) -> MapCub.L_cub v <= 1023 + 9 / 10).
Proof. exact (conj (lin_low_margin A v) (conj (cub_low_margin A v) (conj (lin_up_margin v) (cub_up_margin v)))). Qed.
Print Assumptions GH_margins.

Theorem GH_libm_hi_ok_intro (L : libm) (k : R) :
  0 <= k <= 64 ->
  (forall x : f64, finite x -> 1 <= val x <= 256 ->
     finite (l_log2 L x) /\ Rabs (val (l_log2 L x) - ln (val x) / ln 2) <= k * u53 * 8) ->
  (forall x : f64, finite x -> 0 <= val x -> exp (val x) <= pow2 1023 * (3 / 2) ->
     finite (l_exp L x) /\ Rabs (val (l_exp L x) - exp (val x)) <= k * u53 * exp (val x)) ->
  (forall x y : f64, finite x -> finite y -> 1 <= val x <= 256 -> 0 <= val y <= 2 ->
     finite (l_pow L x y) /\
     Rabs (val (l_pow L x y) - Rpower (val x) (val y)) <= k * u53 * Rpower (val x) (val y)) ->
  (forall x : f64, finite x -> val x <= -1100 ->
     finite (l_exp2 L x) /\ Rabs (val (l_exp2 L x)) <= bpow radix2 (-1022)) ->
  (forall x : f64, finite x -> finite (l_exp2 L x) \/ l_exp2 L x = f64_pinf) ->
  (forall u : f64, finite u -> finite (l_floor L u) /\ val (l_floor L u) = IZR (Zfloor (val u))) ->
  libm_hi_ok L k.
Proof. intros H1 H2 H3 H4 H5 H6 H7. constructor; assumption. Qed.
Print Assumptions GH_libm_hi_ok_intro.

(* with k <= 8 the hypotheses of Props/GlueCtor.v and Props/GlueCub.v (fine mappings) follow, with 8 k for k *)
Theorem GH_libm_hi_lo (L : libm) (k : R) : libm_hi_ok L k -> k <= 8 -> libm_ok L (8 * k).
Proof. exact (libm_hi_lo L k). Qed.
Print Assumptions GH_libm_hi_lo.
Theorem GH_libm_cub_hi_lo (L : libm) (k kc : R) : libm_cub_hi_ok L k kc -> k <= 8 -> libm_cub_ok L (8 * k) kc.
Proof. exact (libm_cub_hi_lo L k kc). Qed.
Print Assumptions GH_libm_cub_hi_lo.

Theorem GH_libm_cub_hi_ok_intro (L : libm) (k kc : R) :
  libm_hi_ok L k -> 0 <= kc <= 32 -> sqrt_accurate L -> cbrt_accurate L kc -> libm_cub_hi_ok L k kc.
Proof. intros H1 H2 H3 H4. constructor; assumption. Qed.
Print Assumptions GH_libm_cub_hi_ok_intro.

(* what distinguishes the two kinds, discharged *)
Theorem GH_lin_kind (L : libm) (k : R) : libm_hi_ok L k ->
  kind_hi L MLin 1 1 c_inv_ln2 (fun l => l) L_lin Linv_lin (9 / 5) (185 / 100) (149 / 1000) /\
  acc_hi L MLin 1 (185 / 100) c_ln2 (multf L) (3 / 10).
Proof. intros HL. exact (conj (lin_kind_hi L k HL) (lin_acc_hi L)). Qed.
Print Assumptions GH_lin_kind.
Theorem GH_cub_kind (L : libm) (k kc : R) : libm_cub_hi_ok L k kc ->
  kind_hi L MCub (7 / 10) (10 / 7) c_7_10ln2 (fmul c_07) MapCub.L_cub MapCub.Linv_cub (19 / 10) (191 / 100) (5 / 1000) /\
  acc_hi L MCub (10 / 7) (191 / 100) c_10ln2_7 (fun _ => f64_zero) (32 / 100).
Proof. intros HL. exact (conj (cub_kind_hi' L k kc HL) (cub_acc_hi L)). Qed.
Print Assumptions GH_cub_kind.

(* ------------------------------------------------------------------ *)
(* 3. New*MappingWithGamma, coarse                                     *)
(* ------------------------------------------------------------------ *)
Theorem GH_with_gamma_lin (L : libm) (k : R) (g off : f64) :
  libm_hi_ok L k -> finite g -> 1 <= val g <= 256 ->
  185 / 100 <= exp (ln (val g) / ln 2) <= 200 ->
  finite off -> Rabs (val off) <= 2048 * val (multf L g) ->
  let m := mk_lin L g off in
  with_gamma L MLin g off = Some m /\ reasonable_hi MLin m /\
  (finite (gm_min m) /\ finite (gm_max m) /\ bpow radix2 (-1022) <= val (gm_min m)) /\
  / 16 <= val (gm_mult m) <= 4 /\
  exp (1 / val (gm_mult m)) <= g0_lin_hi L g /\
  exp (ln (val g) / ln 2) * (1 - 8 * (k * u53)) <= exp (val (l_log2 L g)) <= exp (ln (val g) / ln 2) * (1 + 16 * (k * u53)) /\
  value_factor_ok L m (g0_lin_hi L g) ((k + 64) * u53).
Proof. intros HL Fg Hg HG Fo Bo. exact (with_gamma_lin_hi_summary L k HL g Fg Hg HG off Fo Bo). Qed.
Print Assumptions GH_with_gamma_lin.

Theorem GH_with_gamma_lin_accuracy (L : libm) (k : R) (g off v : f64) :
  libm_hi_ok L k -> finite g -> 1 <= val g <= 256 ->
  185 / 100 <= exp (ln (val g) / ln 2) <= 200 ->
  finite off -> Rabs (val off) <= 2048 * val (multf L g) ->
  let m := mk_lin L g off in
  finite v -> val (gm_min m) < val v -> val v <= val (gm_max m) ->
  let i := gm_index L m v in
  normal_pos v /\ GlueAccuracy.in_range m i /\ finite (gm_value L m i) /\
  val (gm_lower L m i) <= val v * (1 + q38) /\
  val v <= val (gm_lower L m i) * exp (1 / val (gm_mult m)) * (1 + q38) /\
  Rabs (val (gm_value L m i) - val v) <= (alpha_of (g0_lin_hi L g) + (k + 64) * u53 + q36) * val v.
Proof. intros HL Fg Hg HG Fo Bo. exact (with_gamma_lin_hi_accuracy L k HL g Fg Hg HG off Fo Bo v). Qed.
Print Assumptions GH_with_gamma_lin_accuracy.

Theorem GH_with_gamma_lin_upper (L : libm) (k : R) (g off v : f64) :
  libm_hi_ok L k -> finite g -> 1 <= val g <= 256 ->
  185 / 100 <= exp (ln (val g) / ln 2) <= 200 ->
  finite off -> Rabs (val off) <= 2048 * val (multf L g) ->
  let m := mk_lin L g off in
  finite v -> val (gm_min m) < val v -> val v <= val (gm_max m) ->
  let i := gm_index L m v in
  GlueAccuracy.in_range m (i + 1) -> val v <= val (gm_lower L m (i + 1)) * (1 + q38).
Proof. intros HL Fg Hg HG Fo Bo. exact (with_gamma_lin_hi_upper L k HL g Fg Hg HG off Fo Bo v). Qed.
Print Assumptions GH_with_gamma_lin_upper.

Theorem GH_with_gamma_cub (L : libm) (k kc : R) (g off : f64) :
  libm_cub_hi_ok L k kc -> finite g -> 1 <= val g <= 256 ->
  191 / 100 <= exp (7 / 10 * (ln (val g) / ln 2)) <= 200 ->
  finite off -> Rabs (val off) <= 2048 * val (multf L g) ->
  let m := mk_cub L g off in
  with_gamma L MCub g off = Some m /\ reasonable_hi MCub m /\
  (finite (gm_min m) /\ finite (gm_max m) /\ bpow radix2 (-1022) <= val (gm_min m)) /\
  / 16 <= val (gm_mult m) <= 4 /\
  exp (1 / (10 / 7 * val (gm_mult m))) <= g0_cub_hi L g /\
  exp (7 / 10 * (ln (val g) / ln 2)) * (1 - 8 * (k * u53)) <= exp (7 / 10 * val (l_log2 L g))
    <= exp (7 / 10 * (ln (val g) / ln 2)) * (1 + 16 * (k * u53)) /\
  value_factor_ok L m (g0_cub_hi L g) ((k + 64) * u53).
Proof. intros HL Fg Hg HG Fo Bo. exact (with_gamma_cub_hi_summary L k kc HL g Fg Hg HG off Fo Bo). Qed.
Print Assumptions GH_with_gamma_cub.

Theorem GH_with_gamma_cub_accuracy (L : libm) (k kc : R) (g off v : f64) :
  libm_cub_hi_ok L k kc -> finite g -> 1 <= val g <= 256 ->
  191 / 100 <= exp (7 / 10 * (ln (val g) / ln 2)) <= 200 ->
  finite off -> Rabs (val off) <= 2048 * val (multf L g) ->
  let m := mk_cub L g off in
  finite v -> val (gm_min m) < val v -> val v <= val (gm_max m) ->
  let i := gm_index L m v in
  normal_pos v /\ GlueAccuracy.in_range m i /\ finite (gm_value L m i) /\
  val (gm_lower L m i) <= val v * (1 + q38) /\
  val v <= val (gm_lower L m i) * exp (1 / (10 / 7 * val (gm_mult m))) * (1 + q38) /\
  Rabs (val (gm_value L m i) - val v) <= (alpha_of (g0_cub_hi L g) + (k + 64) * u53 + q36) * val v.
Proof. intros HL Fg Hg HG Fo Bo. exact (with_gamma_cub_hi_accuracy L k kc HL g Fg Hg HG off Fo Bo v). Qed.
Print Assumptions GH_with_gamma_cub_accuracy.

Theorem GH_with_gamma_cub_upper (L : libm) (k kc : R) (g off v : f64) :
  libm_cub_hi_ok L k kc -> finite g -> 1 <= val g <= 256 ->
  191 / 100 <= exp (7 / 10 * (ln (val g) / ln 2)) <= 200 ->
  finite off -> Rabs (val off) <= 2048 * val (multf L g) ->
  let m := mk_cub L g off in
  finite v -> val (gm_min m) < val v -> val v <= val (gm_max m) ->
  let i := gm_index L m v in
  GlueAccuracy.in_range m (i + 1) -> val v <= val (gm_lower L m (i + 1)) * (1 + q38).
Proof. intros HL Fg Hg HG Fo Bo. exact (with_gamma_cub_hi_upper L k kc HL g Fg Hg HG off Fo Bo v). Qed.
Print Assumptions GH_with_gamma_cub_upper.

(* ------------------------------------------------------------------ *)
(* 4. New*Mapping (relativeAccuracy), coarse: the headlines            *)
(* ------------------------------------------------------------------ *)
Theorem GH_with_accuracy_lin (L : libm) (k : R) (a : f64) :
  libm_hi_ok L k -> finite a -> 3 / 10 <= val a <= 99 / 100 ->
  let m := acc_map L a in
  let gp := (1 + val a) / (1 - val a) in
  with_accuracy L MLin a = Some m /\ gm_kind m = MLin /\ reasonable_hi MLin m /\
  (finite (gm_min m) /\ finite (gm_max m) /\ bpow radix2 (-1022) <= val (gm_min m)) /\
  (finite (gm_mult m) /\ finite (gm_off m) /\ / 16 <= val (gm_mult m) <= 4 /\ Rabs (val (gm_off m)) <= 8192) /\
  Rabs (ln (val (gm_gamma m)) / ln 2 - ln gp) <= 15 * u53 + 3 * (k * u53) /\
  g0_lin_hi L (gm_gamma m) <= gp * (1 + 72 * u53 + 23 * (k * u53)) /\
  alpha_of (g0_lin_hi L (gm_gamma m)) <= val a + (36 * u53 + 12 * (k * u53)).
Proof. intros HL Fa Ba. exact (with_accuracy_lin_hi_summary L k HL a Fa Ba). Qed.
Print Assumptions GH_with_accuracy_lin.

Theorem GH_with_accuracy_lin_accuracy (L : libm) (k : R) (a v : f64) :
  libm_hi_ok L k -> finite a -> 3 / 10 <= val a <= 99 / 100 ->
  let m := acc_map L a in
  finite v -> val (gm_min m) < val v -> val v <= val (gm_max m) ->
  let i := gm_index L m v in
  normal_pos v /\ GlueAccuracy.in_range m i /\ finite (gm_value L m i) /\
  val (gm_lower L m i) <= val v * (1 + q38) /\
  val v <= val (gm_lower L m i) * ((1 + val a) / (1 - val a)) * (1 + q35) /\
  Rabs (val (gm_value L m i) - val v) <= (val a + q34) * val v.
Proof. intros HL Fa Ba. exact (with_accuracy_lin_hi_accuracy L k HL a Fa Ba v). Qed.
Print Assumptions GH_with_accuracy_lin_accuracy.

Theorem GH_with_accuracy_lin_upper (L : libm) (k : R) (a v : f64) :
  libm_hi_ok L k -> finite a -> 3 / 10 <= val a <= 99 / 100 ->
  let m := acc_map L a in
  finite v -> val (gm_min m) < val v -> val v <= val (gm_max m) ->
  let i := gm_index L m v in
  GlueAccuracy.in_range m (i + 1) -> val v <= val (gm_lower L m (i + 1)) * (1 + q38).
Proof. intros HL Fa Ba. exact (with_accuracy_lin_hi_upper L k HL a Fa Ba v). Qed.
Print Assumptions GH_with_accuracy_lin_upper.

Theorem GH_with_accuracy_cub (L : libm) (k kc : R) (a : f64) :
  libm_cub_hi_ok L k kc -> finite a -> 32 / 100 <= val a <= 99 / 100 ->
  let m := acc_mapc L a in
  let gp := (1 + val a) / (1 - val a) in
  with_accuracy L MCub a = Some m /\ gm_kind m = MCub /\ reasonable_hi MCub m /\
  (finite (gm_min m) /\ finite (gm_max m) /\ bpow radix2 (-1022) <= val (gm_min m)) /\
  (finite (gm_mult m) /\ finite (gm_off m) /\ / 16 <= val (gm_mult m) <= 4 /\ Rabs (val (gm_off m)) <= 8192) /\
  Rabs (7 / 10 * (ln (val (gm_gamma m)) / ln 2) - ln gp) <= 15 * u53 + 3 * (k * u53) /\
  g0_cub_hi L (gm_gamma m) <= gp * (1 + 72 * u53 + 23 * (k * u53)) /\
  alpha_of (g0_cub_hi L (gm_gamma m)) <= val a + (36 * u53 + 12 * (k * u53)).
Proof. intros HL Fa Ba. exact (with_accuracy_cub_hi_summary L k kc HL a Fa Ba). Qed.
Print Assumptions GH_with_accuracy_cub.

Theorem GH_with_accuracy_cub_accuracy (L : libm) (k kc : R) (a v : f64) :
  libm_cub_hi_ok L k kc -> finite a -> 32 / 100 <= val a <= 99 / 100 ->
  let m := acc_mapc L a in
  finite v -> val (gm_min m) < val v -> val v <= val (gm_max m) ->
  let i := gm_index L m v in
  normal_pos v /\ GlueAccuracy.in_range m i /\ finite (gm_value L m i) /\
  val (gm_lower L m i) <= val v * (1 + q38) /\
  val v <= val (gm_lower L m i) * ((1 + val a) / (1 - val a)) * (1 + q35) /\
  Rabs (val (gm_value L m i) - val v) <= (val a + q34) * val v.
Proof. intros HL Fa Ba. exact (with_accuracy_cub_hi_accuracy L k kc HL a Fa Ba v). Qed.
Print Assumptions GH_with_accuracy_cub_accuracy.

Theorem GH_with_accuracy_cub_upper (L : libm) (k kc : R) (a v : f64) :
  libm_cub_hi_ok L k kc -> finite a -> 32 / 100 <= val a <= 99 / 100 ->
  let m := acc_mapc L a in
  finite v -> val (gm_min m) < val v -> val v <= val (gm_max m) ->
  let i := gm_index L m v in
  GlueAccuracy.in_range m (i + 1) -> val v <= val (gm_lower L m (i + 1)) * (1 + q38).
Proof. intros HL Fa Ba. exact (with_accuracy_cub_hi_upper L k kc HL a Fa Ba v). Qed.
Print Assumptions GH_with_accuracy_cub_upper.

(* ------------------------------------------------------------------ *)
(* 5. the whole range of accuracies; the premises of Props/Bridge.v     *)
(* ------------------------------------------------------------------ *)
Theorem GH_with_accuracy_lin_full (L : libm) (k : R) (a v : f64) :
  libm_hi_ok L k -> k <= 8 -> finite a -> / 1000000 <= val a <= 99 / 100 ->
  let m := acc_map L a in
  with_accuracy L MLin a = Some m /\
  (finite v -> val (gm_min m) < val v -> val v <= val (gm_max m) ->
   let i := gm_index L m v in
   normal_pos v /\ GlueAccuracy.in_range m i /\ finite (gm_value L m i) /\
   val (gm_lower L m i) <= val v * (1 + q38) /\
   Rabs (val (gm_value L m i) - val v) <= (val a + q34) * val v).
Proof.
  intros HL K8 Fa Ba m.
  exact (conj (with_accuracy_lin_full_eq L k HL K8 a Fa Ba) (with_accuracy_lin_full_accuracy L k HL K8 a Fa Ba v)).
Qed.
Print Assumptions GH_with_accuracy_lin_full.

Theorem GH_with_accuracy_cub_full (L : libm) (k kc : R) (a v : f64) :
  libm_cub_hi_ok L k kc -> k <= 8 -> finite a -> / 400000 <= val a <= 99 / 100 ->
  let m := acc_mapc L a in
  with_accuracy L MCub a = Some m /\
  (finite v -> val (gm_min m) < val v -> val v <= val (gm_max m) ->
   let i := gm_index L m v in
   normal_pos v /\ GlueAccuracy.in_range m i /\ finite (gm_value L m i) /\
   val (gm_lower L m i) <= val v * (1 + q38) /\
   val v <= val (gm_lower L m i) * ((1 + val a) / (1 - val a)) * (1 + q35) /\
   Rabs (val (gm_value L m i) - val v) <= (val a + q34) * val v).
Proof.
  intros HL K8 Fa Ba m.
  exact (conj (with_accuracy_cub_full_eq L k kc HL K8 a Fa Ba) (with_accuracy_cub_full_accuracy L k kc HL K8 a Fa Ba v)).
Qed.
Print Assumptions GH_with_accuracy_cub_full.

(* the Qc forms: the last premises of Bridge_C01_lin_accuracy_rnd64 / Bridge_C01_cub_accuracy_rnd64 *)
Theorem GH_lin_accuracy_Qc (L : libm) (k : R) (a : f64) (alpha : Qc) (v : f64) :
  libm_hi_ok L k -> k <= 8 -> finite a -> / 1000000 <= val a <= 99 / 100 ->
  let g := acc_map L a in
  val a + q34 <= qR alpha ->
  finite v -> (f2q (gm_min g) < f2q v)%Qc -> (f2q v <= f2q (gm_max g))%Qc ->
  (Qcabs (f2q (gm_value L g (gm_index L g v)) - f2q v) <= alpha * f2q v)%Qc.
Proof. intros HL K8 Fa Ba. exact (acc_map_full_accuracy_Qc L k HL K8 a Fa Ba alpha v). Qed.
Print Assumptions GH_lin_accuracy_Qc.

Theorem GH_cub_accuracy_Qc (L : libm) (k kc : R) (a : f64) (alpha : Qc) (v : f64) :
  libm_cub_hi_ok L k kc -> k <= 8 -> finite a -> / 400000 <= val a <= 99 / 100 ->
  let g := acc_mapc L a in
  val a + q34 <= qR alpha ->
  finite v -> (f2q (gm_min g) < f2q v)%Qc -> (f2q v <= f2q (gm_max g))%Qc ->
  (Qcabs (f2q (gm_value L g (gm_index L g v)) - f2q v) <= alpha * f2q v)%Qc.
Proof. intros HL K8 Fa Ba. exact (acc_mapc_full_accuracy_Qc L k kc HL K8 a Fa Ba alpha v). Qed.
Print Assumptions GH_cub_accuracy_Qc.

(* the other per-mapping premises: kind, gm_small (hence Index is an int32 and monotone: Bridge_index_good_lin /
   Bridge_index_good_cub, through Bridge_index_int32), gm_range_ok *)
Theorem GH_lin_bridge_premises (L : libm) (k : R) (a : f64) :
  libm_hi_ok L k -> k <= 8 -> finite a -> / 1000000 <= val a <= 99 / 100 ->
  let g := acc_map L a in gm_kind g = MLin /\ gm_small g /\ gm_range_ok g /\ gm_index_good L g.
Proof.
  intros HL K8 Fa Ba g.
  exact (conj (acc_map_full_kind L a) (conj (acc_map_full_small L k HL K8 a Fa Ba)
        (conj (acc_map_full_range_ok L k HL K8 a Fa Ba)
              (gm_index_good_lin L g (acc_map_full_kind L a) (acc_map_full_small L k HL K8 a Fa Ba))))).
Qed.
Print Assumptions GH_lin_bridge_premises.

Theorem GH_cub_bridge_premises (L : libm) (k kc : R) (a : f64) :
  libm_cub_hi_ok L k kc -> k <= 8 -> finite a -> / 400000 <= val a <= 99 / 100 ->
  let g := acc_mapc L a in gm_kind g = MCub /\ gm_small g /\ gm_range_ok g /\ gm_index_good L g.
Proof.
  intros HL K8 Fa Ba g.
  exact (conj (acc_mapc_full_kind L a) (conj (acc_mapc_full_small L k kc HL K8 a Fa Ba)
        (conj (acc_mapc_full_range_ok L k kc HL K8 a Fa Ba)
              (gm_index_good_cub L g (acc_mapc_full_kind L a) (acc_mapc_full_small L k kc HL K8 a Fa Ba))))).
Qed.
Print Assumptions GH_cub_bridge_premises.

(* C01 end to end, 1e-6 <= a <= 0.99: plain_add of the values then plain_quantile (binary64 rank arithmetic) answers
   within alpha of an order statistic, for every rational alpha >= a + 2^-34, under the hypotheses on the oracle ONLY *)
Theorem GH_C01_lin_end_to_end (L : libm) (k : R) (a : f64)
  (fx : fixes) (m : mapid) (kp kn : kind) (exact : bool)
  (vs : list f64) (ys : list Qc) (q : f64) (alpha : Qc) :
  libm_hi_ok L k -> k <= 8 -> finite a -> / 1000000 <= val a <= 99 / 100 ->
  let g := acc_map L a in
  val a + q34 <= qR alpha ->
  kind_limit kp = Exact -> kind_limit kn = Exact ->
  fD4 fx = true -> fD5 fx = true ->
  Forall (fun v => f_is_finite v = true) vs ->
  (forall v, In v vs -> (Qcabs (f2q v) <= f2q (gm_max g))%Qc) ->
  Permutation (map f2q vs) ys -> Sorted Qcle ys -> vs <> [] -> (Z.of_nat (length vs) <= 2 ^ 53)%Z ->
  fle f64_zero q = true -> fle q f64_one = true ->
  let mt := mt_of_gmap L g in
  exists s, plain_add_units mt (sk_new m kp kn exact) vs = ROk s /\ SkInv s /\
  exists (kk : nat) (s' : sketch) (y : Qc),
    (cfloor (f2q q * inj (Z.of_nat (length vs) - 1)) <= Z.of_nat kk <= cceil (f2q q * inj (Z.of_nat (length vs) - 1)))%Z /\
    (kk < length vs)%nat /\
    plain_quantile rnd64 fx mt s q = (s', ROk y) /\ SkInv s' /\ sk_abs s' = sk_abs s /\
    y = repr (am_of mt) (nth kk ys w0) /\
    (((Qcabs (nth kk ys w0) <= f2q (gm_min g))%Qc /\ y = w0) \/
     (Qcabs (y - nth kk ys w0) <= alpha * Qcabs (nth kk ys w0))%Qc).
Proof.
  intros HL K8 Fa Ba g. exact (C01_lin_full_end_to_end L k HL K8 a Fa Ba fx m kp kn exact vs ys q alpha).
Qed.
Print Assumptions GH_C01_lin_end_to_end.

Theorem GH_C01_cub_end_to_end (L : libm) (k kc : R) (a : f64)
  (fx : fixes) (m : mapid) (kp kn : kind) (exact : bool)
  (vs : list f64) (ys : list Qc) (q : f64) (alpha : Qc) :
  libm_cub_hi_ok L k kc -> k <= 8 -> finite a -> / 400000 <= val a <= 99 / 100 ->
  let g := acc_mapc L a in
  val a + q34 <= qR alpha ->
  kind_limit kp = Exact -> kind_limit kn = Exact ->
  fD4 fx = true -> fD5 fx = true ->
  Forall (fun v => f_is_finite v = true) vs ->
  (forall v, In v vs -> (Qcabs (f2q v) <= f2q (gm_max g))%Qc) ->
  Permutation (map f2q vs) ys -> Sorted Qcle ys -> vs <> [] -> (Z.of_nat (length vs) <= 2 ^ 53)%Z ->
  fle f64_zero q = true -> fle q f64_one = true ->
  let mt := mt_of_gmap L g in
  exists s, plain_add_units mt (sk_new m kp kn exact) vs = ROk s /\ SkInv s /\
  exists (kk : nat) (s' : sketch) (y : Qc),
    (cfloor (f2q q * inj (Z.of_nat (length vs) - 1)) <= Z.of_nat kk <= cceil (f2q q * inj (Z.of_nat (length vs) - 1)))%Z /\
    (kk < length vs)%nat /\
    plain_quantile rnd64 fx mt s q = (s', ROk y) /\ SkInv s' /\ sk_abs s' = sk_abs s /\
    y = repr (am_of mt) (nth kk ys w0) /\
    (((Qcabs (nth kk ys w0) <= f2q (gm_min g))%Qc /\ y = w0) \/
     (Qcabs (y - nth kk ys w0) <= alpha * Qcabs (nth kk ys w0))%Qc).
Proof.
  intros HL K8 Fa Ba g. exact (C01_cub_full_end_to_end L k kc HL K8 a Fa Ba fx m kp kn exact vs ys q alpha).
Qed.
Print Assumptions GH_C01_cub_end_to_end.

(* ------------------------------------------------------------------ *)
(* 6. the hypotheses are satisfiable                                   *)
(* ------------------------------------------------------------------ *)
Theorem GH_ideal_oracle : libm_hi_ok L_ideal 1 /\ libm_cub_hi_ok L_ideal_c 1 1.
Proof. exact (conj L_ideal_hi_ok L_ideal_c_hi_ok). Qed.
Print Assumptions GH_ideal_oracle.

Theorem GH_ideal_instance_lin (a v : f64) :
  finite a -> / 1000000 <= val a <= 99 / 100 ->
  let m := acc_map L_ideal a in
  with_accuracy L_ideal MLin a = Some m /\
  (finite v -> val (gm_min m) < val v -> val v <= val (gm_max m) ->
   Rabs (val (gm_value L_ideal m (gm_index L_ideal m v)) - val v) <= (val a + q34) * val v).
Proof. exact (ideal_instance_lin_full a v). Qed.
Print Assumptions GH_ideal_instance_lin.

Theorem GH_ideal_instance_cub (a v : f64) :
  finite a -> / 400000 <= val a <= 99 / 100 ->
  let m := acc_mapc L_ideal_c a in
  with_accuracy L_ideal_c MCub a = Some m /\
  (finite v -> val (gm_min m) < val v -> val v <= val (gm_max m) ->
   Rabs (val (gm_value L_ideal_c m (gm_index L_ideal_c m v)) - val v) <= (val a + q34) * val v).
Proof. exact (ideal_instance_cub_full a v). Qed.
Print Assumptions GH_ideal_instance_cub.

(* relativeAccuracy 0.5 (bits 0x3fe0000000000000) is inside the coarse range *)
Example GH_ex_half (v : f64) :
  let a := fb 4602678819172646912 in
  let m := acc_map L_ideal a in
  with_accuracy L_ideal MLin a = Some m /\
  (finite v -> val (gm_min m) < val v -> val v <= val (gm_max m) ->
   Rabs (val (gm_value L_ideal m (gm_index L_ideal m v)) - val v) <= (/ 2 + q34) * val v).
Proof. exact (ex_half_lin v). Qed.
Print Assumptions GH_ex_half.

Example GH_ex_half_cub (v : f64) :
  let a := fb 4602678819172646912 in
  let m := acc_mapc L_ideal_c a in
  with_accuracy L_ideal_c MCub a = Some m /\
  (finite v -> val (gm_min m) < val v -> val v <= val (gm_max m) ->
   Rabs (val (gm_value L_ideal_c m (gm_index L_ideal_c m v)) - val v) <= (/ 2 + q34) * val v).
Proof. exact (ex_half_cub v). Qed.
Print Assumptions GH_ex_half_cub.
