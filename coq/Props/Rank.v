(* C01 / C11: the central accuracy theorem of the sketch on the Layer A model (Spec/ASketch.v),
   statements only.  Every proof is a one-line reference to Sketch/RankProofs.v; every result is
   axiom-free.  All hypotheses (on the rounding operator, on the index mapping, on the input) are
   explicit premises.

   Vocabulary (defined in Sketch/RankProofs.v, restated below as checked equations):
     inj z          the integer z as a weight                 cfloor / cceil   floor / ceiling
     item           a value with its weight                   unit_item x      (x, 1)
     a_add_list     absorb a list of items with a_add (Exact stores); None if one is rejected
     repr m x       the representative the sketch answers for the value x
     wsum l         total weight of a list of items           wpos l   all weights > 0
     vle            items ordered by value                    intw l   positive integer weights
     idr            the identity as rounding operator (exact rank arithmetic) *)
From SK Require Import Spec.Bins Spec.BinsProofs Spec.ASketch Sketch.RankProofs.
From Coq Require Import Permutation Sorted Qround Qcabs.
Local Open Scope Qc_scope.

Example inj_def z : inj z = Q2Qc (inject_Z z) := eq_refl.
Example cfloor_def x : cfloor x = Qfloor (this x) := eq_refl.
Example cceil_def x : cceil x = Qceiling (this x) := eq_refl.
Example unit_item_def x : unit_item x = (x, w1) := eq_refl.
Example a_add_list_nil m s : a_add_list m s [] = Some s := eq_refl.
Example a_add_list_cons m s a tl :
  a_add_list m s (a :: tl) =
  match a_add m Exact Exact s (fst a) (snd a) with
  | AAdded s' => a_add_list m s' tl
  | _ => None
  end := eq_refl.
Example repr_def m x :
  repr m x = if wleb (Qcabs x) (am_min m) then 0
             else if wltb 0 x then am_value m (am_index m x)
             else - am_value m (am_index m (- x)) := eq_refl.
Example wsum_def l : wsum l = fold_right (fun a s => wadd (snd a) s) w0 l := eq_refl.
Example wpos_def l : wpos l = Forall (fun a : item => w0 < snd a) l := eq_refl.
Example vle_def a b : vle a b = (fst a <= fst b) := eq_refl.
Example intw_def l :
  intw l = Forall (fun a : item => exists z : Z, (0 < z)%Z /\ snd a = inj z) l := eq_refl.
Example idr_def x : idr x = x := eq_refl.

(* ------------------------------------------------------------------ *)
(* 1. the bracket lemma: rounding never moves the rank across the      *)
(*    floor or the ceiling of the exact rank q*(n-1)                   *)
(* ------------------------------------------------------------------ *)
Theorem C01_rank_bracket (rnd : Qc -> Qc) (B n : Z) (q : Qc) :
  (forall x y, x <= y -> rnd x <= rnd y) ->
  (forall z : Z, (Z.abs z <= B)%Z -> rnd (inj z) = inj z) ->
  (1 <= n <= B)%Z -> 0 <= q -> q <= 1 ->
  let r := q * inj (n - 1) in
  let rho := rnd (q * rnd (inj (n - 1))) in
  (0 <= cfloor r)%Z /\ (cceil r <= n - 1)%Z /\
  inj (cfloor r) <= rho /\ rho <= inj (cceil r) /\
  (cfloor r <= cfloor rho)%Z /\ (cceil rho <= cceil r)%Z.
Proof. intros; eapply rank_bracket; eauto. Qed.
Print Assumptions C01_rank_bracket.

(* ------------------------------------------------------------------ *)
(* 2. selection inside a store                                         *)
(* ------------------------------------------------------------------ *)
(* unit weights on a sorted list of indices: the element at position floor r *)
Theorem C01_key_at_rank_sorted_units (l : list Z) (r : Qc) (d : Z) :
  StronglySorted Z.le l -> l <> [] -> r < inj (Z.of_nat (length l)) ->
  key_at_rank (bins_of_list (map (fun i => (i, w1)) l)) r = Some (nth (Z.to_nat (cfloor r)) l d).
Proof. exact (key_at_rank_sorted_units l r d). Qed.
Print Assumptions C01_key_at_rank_sorted_units.

(* arbitrary positive weights: a rank inside the cumulative interval of an entry selects its key
   (with clamping below the first and above the last entry) *)
Theorem C11_key_at_rank_split l1 k c l2 (r : Qc) :
  pos (l1 ++ (k, c) :: l2) ->
  (forall k', In k' (map fst l1) -> (k' <= k)%Z) ->
  (forall k', In k' (map fst l2) -> (k <= k')%Z) ->
  (total l1 <= r \/ l1 = []) ->
  (r < wadd (total l1) c \/ l2 = []) ->
  key_at_rank (bins_of_list (l1 ++ (k, c) :: l2)) r = Some k.
Proof. exact (kar_split l1 k c l2 r). Qed.
Print Assumptions C11_key_at_rank_split.

(* ------------------------------------------------------------------ *)
(* 3. THEOREM A (C01): unit weights                                    *)
(* ------------------------------------------------------------------ *)
(* values with |x| <= am_max are all accepted *)
Theorem C01_accepts (m : amapping) (xs : list item) (s : asketch) :
  (forall a, In a xs -> Qcabs (fst a) <= am_max m) -> exists s', a_add_list m s xs = Some s'.
Proof. exact (a_add_list_total m xs s). Qed.
Print Assumptions C01_accepts.

Theorem C01_quantile_selects_order_statistic
  (rnd : Qc -> Qc) (m : amapping) (B : Z) (xs ys : list Qc) (s : asketch) (q : Qc) :
  (forall x y, x <= y -> rnd x <= rnd y) ->
  (forall z : Z, (Z.abs z <= B)%Z -> rnd (inj z) = inj z) ->
  0 <= am_min m ->
  (forall x y, am_min m < x /\ x <= y -> y <= am_max m -> (am_index m x <= am_index m y)%Z) ->
  a_add_list m a_new (map unit_item xs) = Some s ->
  Permutation xs ys -> Sorted Qcle ys -> xs <> [] ->
  (Z.of_nat (length xs) <= B)%Z -> 0 <= q -> q <= 1 ->
  exists k : nat,
    (cfloor (q * inj (Z.of_nat (length xs) - 1)) <= Z.of_nat k
     <= cceil (q * inj (Z.of_nat (length xs) - 1)))%Z /\
    (k < length xs)%nat /\
    a_quantile rnd m s q = Some (repr m (nth k ys 0)).
Proof. intros; eapply quantile_selects_order_statistic; eauto. Qed.
Print Assumptions C01_quantile_selects_order_statistic.

(* the same with the range condition as premise *)
Theorem C01_quantile_selects_order_statistic_inrange
  (rnd : Qc -> Qc) (m : amapping) (B : Z) (xs ys : list Qc) (q : Qc) :
  (forall x y, x <= y -> rnd x <= rnd y) ->
  (forall z : Z, (Z.abs z <= B)%Z -> rnd (inj z) = inj z) ->
  0 <= am_min m ->
  (forall x y, am_min m < x /\ x <= y -> y <= am_max m -> (am_index m x <= am_index m y)%Z) ->
  (forall x, In x xs -> Qcabs x <= am_max m) ->
  Permutation xs ys -> Sorted Qcle ys -> xs <> [] ->
  (Z.of_nat (length xs) <= B)%Z -> 0 <= q -> q <= 1 ->
  exists s, a_add_list m a_new (map unit_item xs) = Some s /\
  exists k : nat,
    (cfloor (q * inj (Z.of_nat (length xs) - 1)) <= Z.of_nat k
     <= cceil (q * inj (Z.of_nat (length xs) - 1)))%Z /\
    (k < length xs)%nat /\
    a_quantile rnd m s q = Some (repr m (nth k ys 0)).
Proof. intros; eapply quantile_selects_order_statistic_inrange; eauto. Qed.
Print Assumptions C01_quantile_selects_order_statistic_inrange.

(* relative accuracy alpha of the mapping carries over to the answer *)
Theorem C01_quantile_accuracy
  (rnd : Qc -> Qc) (m : amapping) (B : Z) (xs ys : list Qc) (s : asketch) (q alpha : Qc) :
  (forall x y, x <= y -> rnd x <= rnd y) ->
  (forall z : Z, (Z.abs z <= B)%Z -> rnd (inj z) = inj z) ->
  0 <= am_min m ->
  (forall x y, am_min m < x /\ x <= y -> y <= am_max m -> (am_index m x <= am_index m y)%Z) ->
  a_add_list m a_new (map unit_item xs) = Some s ->
  Permutation xs ys -> Sorted Qcle ys -> xs <> [] ->
  (Z.of_nat (length xs) <= B)%Z -> 0 <= q -> q <= 1 ->
  (forall x, am_min m < x -> x <= am_max m ->
             Qcabs (am_value m (am_index m x) - x) <= alpha * x) ->
  exists (k : nat) (y : Qc),
    (cfloor (q * inj (Z.of_nat (length xs) - 1)) <= Z.of_nat k
     <= cceil (q * inj (Z.of_nat (length xs) - 1)))%Z /\
    (k < length xs)%nat /\
    a_quantile rnd m s q = Some y /\
    ((Qcabs (nth k ys 0) <= am_min m /\ y = 0) \/
     Qcabs (y - nth k ys 0) <= alpha * Qcabs (nth k ys 0)).
Proof. intros; eapply quantile_accuracy; eauto. Qed.
Print Assumptions C01_quantile_accuracy.

(* q = 0 selects the minimum, q = 1 the maximum *)
Theorem C01_quantile_0_min
  (rnd : Qc -> Qc) (m : amapping) (B : Z) (xs ys : list Qc) (s : asketch) :
  (forall x y, x <= y -> rnd x <= rnd y) ->
  (forall z : Z, (Z.abs z <= B)%Z -> rnd (inj z) = inj z) ->
  0 <= am_min m ->
  (forall x y, am_min m < x /\ x <= y -> y <= am_max m -> (am_index m x <= am_index m y)%Z) ->
  a_add_list m a_new (map unit_item xs) = Some s ->
  Permutation xs ys -> Sorted Qcle ys -> xs <> [] -> (Z.of_nat (length xs) <= B)%Z ->
  a_quantile rnd m s 0 = Some (repr m (nth 0 ys 0)) /\
  In (nth 0 ys 0) xs /\ forall x, In x xs -> nth 0 ys 0 <= x.
Proof. intros; eapply quantile_0_min; eauto. Qed.
Print Assumptions C01_quantile_0_min.

Theorem C01_quantile_1_max
  (rnd : Qc -> Qc) (m : amapping) (B : Z) (xs ys : list Qc) (s : asketch) :
  (forall x y, x <= y -> rnd x <= rnd y) ->
  (forall z : Z, (Z.abs z <= B)%Z -> rnd (inj z) = inj z) ->
  0 <= am_min m ->
  (forall x y, am_min m < x /\ x <= y -> y <= am_max m -> (am_index m x <= am_index m y)%Z) ->
  a_add_list m a_new (map unit_item xs) = Some s ->
  Permutation xs ys -> Sorted Qcle ys -> xs <> [] -> (Z.of_nat (length xs) <= B)%Z ->
  a_quantile rnd m s 1 = Some (repr m (nth (length xs - 1) ys 0)) /\
  In (nth (length xs - 1) ys 0) xs /\ forall x, In x xs -> x <= nth (length xs - 1) ys 0.
Proof. intros; eapply quantile_1_max; eauto. Qed.
Print Assumptions C01_quantile_1_max.

(* ------------------------------------------------------------------ *)
(* 4. THEOREM B (C11): weighted values                                 *)
(* ------------------------------------------------------------------ *)
(* exact rank arithmetic, arbitrary positive rational weights (total possibly < 1):
   the answer represents the value a of a split ys = l1 ++ a :: l2 of the sorted input with
   C - 1 <= q*(W-1) < C + c,  C = weight before a, c = weight of a *)
Theorem C11_weighted_quantile_exact
  (m : amapping) (xs ys : list item) (s : asketch) (q : Qc) :
  0 <= am_min m ->
  (forall x y, am_min m < x /\ x <= y -> y <= am_max m -> (am_index m x <= am_index m y)%Z) ->
  a_add_list m a_new xs = Some s ->
  Permutation xs ys -> StronglySorted vle ys -> wpos ys -> ys <> [] -> 0 <= q -> q <= 1 ->
  exists l1 a l2,
    ys = l1 ++ a :: l2 /\
    a_quantile idr m s q = Some (repr m (fst a)) /\
    wsum l1 - 1 <= q * (wsum ys - 1) /\
    q * (wsum ys - 1) < wsum l1 + snd a.
Proof. intros; eapply weighted_quantile_exact; eauto. Qed.
Print Assumptions C11_weighted_quantile_exact.

(* by position: C_j = weight of the first j values of the sorted list *)
Theorem C11_weighted_quantile_exact_nth
  (m : amapping) (xs ys : list item) (s : asketch) (q : Qc) (d : item) :
  0 <= am_min m ->
  (forall x y, am_min m < x /\ x <= y -> y <= am_max m -> (am_index m x <= am_index m y)%Z) ->
  a_add_list m a_new xs = Some s ->
  Permutation xs ys -> StronglySorted vle ys -> wpos ys -> ys <> [] -> 0 <= q -> q <= 1 ->
  exists j : nat,
    (j < length ys)%nat /\
    a_quantile idr m s q = Some (repr m (fst (nth j ys d))) /\
    wsum (firstn j ys) - 1 <= q * (wsum ys - 1) /\
    q * (wsum ys - 1) < wsum (firstn (S j) ys).
Proof. intros; eapply weighted_quantile_exact_nth; eauto. Qed.
Print Assumptions C11_weighted_quantile_exact_nth.

(* rounded rank arithmetic, positive integer weights of total n <= B *)
Theorem C11_weighted_quantile_integer
  (rnd : Qc -> Qc) (m : amapping) (B : Z) (xs ys : list item) (s : asketch) (q : Qc) (n : Z) :
  (forall x y, x <= y -> rnd x <= rnd y) ->
  (forall z : Z, (Z.abs z <= B)%Z -> rnd (inj z) = inj z) ->
  0 <= am_min m ->
  (forall x y, am_min m < x /\ x <= y -> y <= am_max m -> (am_index m x <= am_index m y)%Z) ->
  a_add_list m a_new xs = Some s ->
  Permutation xs ys -> StronglySorted vle ys -> intw ys -> ys <> [] ->
  wsum ys = inj n -> (n <= B)%Z -> 0 <= q -> q <= 1 ->
  exists l1 a l2 (k : Z),
    ys = l1 ++ a :: l2 /\
    a_quantile rnd m s q = Some (repr m (fst a)) /\
    (cfloor (q * inj (n - 1)) <= k <= cceil (q * inj (n - 1)))%Z /\
    wsum l1 <= inj k /\ inj k < wsum l1 + snd a.
Proof. intros; eapply weighted_quantile_integer; eauto. Qed.
Print Assumptions C11_weighted_quantile_integer.

(* the answer always represents an absorbed value; from the positive store if all are positive *)
Theorem C11_weighted_quantile_absorbed
  (m : amapping) (xs ys : list item) (s : asketch) (q : Qc) :
  0 <= am_min m ->
  (forall x y, am_min m < x /\ x <= y -> y <= am_max m -> (am_index m x <= am_index m y)%Z) ->
  a_add_list m a_new xs = Some s ->
  Permutation xs ys -> StronglySorted vle ys -> wpos ys -> ys <> [] -> 0 <= q -> q <= 1 ->
  exists a, In a xs /\ a_quantile idr m s q = Some (repr m (fst a)).
Proof. intros; eapply weighted_quantile_absorbed; eauto. Qed.
Print Assumptions C11_weighted_quantile_absorbed.

Theorem C11_weighted_quantile_all_positive
  (m : amapping) (xs ys : list item) (s : asketch) (q : Qc) :
  0 <= am_min m ->
  (forall x y, am_min m < x /\ x <= y -> y <= am_max m -> (am_index m x <= am_index m y)%Z) ->
  a_add_list m a_new xs = Some s ->
  Permutation xs ys -> StronglySorted vle ys -> wpos ys -> ys <> [] -> 0 <= q -> q <= 1 ->
  (forall a, In a xs -> am_min m < fst a) ->
  exists a, In a xs /\ a_quantile idr m s q = Some (am_value m (am_index m (fst a))).
Proof. intros; eapply weighted_quantile_all_positive; eauto. Qed.
Print Assumptions C11_weighted_quantile_all_positive.

(* a_min <= answer <= a_max (bin representatives non-decreasing and non-negative) *)
Theorem C11_weighted_quantile_between
  (m : amapping) (xs ys : list item) (s : asketch) (q : Qc) :
  0 <= am_min m ->
  (forall x y, am_min m < x /\ x <= y -> y <= am_max m -> (am_index m x <= am_index m y)%Z) ->
  (forall i j, (i <= j)%Z -> am_value m i <= am_value m j) ->
  (forall i, 0 <= am_value m i) ->
  a_add_list m a_new xs = Some s ->
  Permutation xs ys -> StronglySorted vle ys -> wpos ys -> ys <> [] -> 0 <= q -> q <= 1 ->
  exists lo hi y, a_min m s = Some lo /\ a_max m s = Some hi /\
    a_quantile idr m s q = Some y /\ lo <= y /\ y <= hi.
Proof. intros; eapply weighted_quantile_between; eauto. Qed.
Print Assumptions C11_weighted_quantile_between.

(* every absorbed value is represented between a_min and a_max *)
Theorem C11_absorbed_between_min_max (m : amapping) (xs : list item) (s : asketch) (a : item) :
  0 <= am_min m ->
  (forall i j, (i <= j)%Z -> am_value m i <= am_value m j) ->
  (forall i, 0 <= am_value m i) ->
  a_add_list m a_new xs = Some s -> wpos xs -> In a xs ->
  exists lo hi, a_min m s = Some lo /\ a_max m s = Some hi /\
    lo <= repr m (fst a) /\ repr m (fst a) <= hi.
Proof. intros; eapply absorbed_between_min_max; eauto. Qed.
Print Assumptions C11_absorbed_between_min_max.

(* ------------------------------------------------------------------ *)
(* 5. a concrete instance (the premises are satisfiable)               *)
(* ------------------------------------------------------------------ *)
(* bins (k-1, k], represented by their upper edge; exact rounding *)
Definition ex_m : amapping :=
  {| am_index := cceil; am_value := inj; am_min := 0; am_max := inj 1000 |}.
Definition ex_xs : list Qc := [inj 3; inj (-2); inj 7; Q2Qc (1 # 2)].
Definition ex_ys : list Qc := [inj (-2); Q2Qc (1 # 2); inj 3; inj 7].
Definition ex_q : Qc := Q2Qc (1 # 2).

Example ex_idx_mono x y :
  am_min ex_m < x /\ x <= y -> y <= am_max ex_m -> (am_index ex_m x <= am_index ex_m y)%Z.
Proof.
  intros [_ Hxy] _. cbn [am_index ex_m]. apply cceil_spec.
  eapply Qcle_trans; [exact Hxy|apply cceil_ge].
Qed.
Example ex_perm : Permutation ex_xs ex_ys.
Proof.
  unfold ex_xs, ex_ys.
  apply (Permutation_cons_app [inj (-2); Q2Qc (1 # 2)] [inj 7]). cbn [app].
  apply perm_skip. apply perm_swap.
Qed.
Example ex_sorted : Sorted Qcle ex_ys.
Proof. unfold ex_ys. repeat constructor; vm_compute; discriminate. Qed.

(* Theorem A on the instance: n = 4, q = 1/2, q*(n-1) = 3/2, so k is 1 or 2 *)
Example ex_A :
  exists s, a_add_list ex_m a_new (map unit_item ex_xs) = Some s /\
  exists k : nat, (1 <= Z.of_nat k <= 2)%Z /\
    a_quantile idr ex_m s ex_q = Some (repr ex_m (nth k ex_ys 0)).
Proof.
  destruct (C01_quantile_selects_order_statistic_inrange idr ex_m 10 ex_xs ex_ys ex_q)
    as [s [Hs [k [K1 [_ K3]]]]].
  - intros x y H. exact H.
  - intros z _. reflexivity.
  - apply Qcle_refl.
  - exact ex_idx_mono.
  - intros x Hx. cbn [ex_xs In] in Hx.
    destruct Hx as [<-|[<-|[<-|[<-|[]]]]]; vm_compute; discriminate.
  - exact ex_perm.
  - exact ex_sorted.
  - discriminate.
  - vm_compute. discriminate.
  - vm_compute. discriminate.
  - vm_compute. discriminate.
  - exists s. split; [exact Hs|]. exists k. split; [|exact K3].
    assert (E1 : cfloor (ex_q * inj (Z.of_nat (length ex_xs) - 1)) = 1%Z) by (vm_compute; reflexivity).
    assert (E2 : cceil (ex_q * inj (Z.of_nat (length ex_xs) - 1)) = 2%Z) by (vm_compute; reflexivity).
    rewrite E1, E2 in K1. exact K1.
Qed.
(* what the sketch actually computes: the representative 1 of the value 1/2 = ys[1] *)
Example ex_A_value :
  match a_add_list ex_m a_new (map unit_item ex_xs) with
  | Some s => option_map this (a_quantile idr ex_m s ex_q)
  | None => None
  end = Some (1 # 1)%Q
  /\ this (repr ex_m (nth 1 ex_ys 0)) = (1 # 1)%Q.
Proof. split; vm_compute; reflexivity. Qed.

(* Theorem B on a weighted instance: weights 1/2, 1/4, 2, 1/3 (W = 37/12), q = 1/2:
   q*(W-1) = 25/24; sorted cumulative weights 0, 1/4, 7/12, 13/12, 37/12; the answer is the
   representative 3 of the value 3 = ys[2], and 7/12 - 1 <= 25/24 < 13/12 *)
Definition ex_wxs : list item :=
  [(inj 3, Q2Qc (1 # 2)); (inj (-2), Q2Qc (1 # 4)); (inj 7, inj 2); (Q2Qc (1 # 2), Q2Qc (1 # 3))].
Definition ex_wys : list item :=
  [(inj (-2), Q2Qc (1 # 4)); (Q2Qc (1 # 2), Q2Qc (1 # 3)); (inj 3, Q2Qc (1 # 2)); (inj 7, inj 2)].
Example ex_B :
  match a_add_list ex_m a_new ex_wxs with
  | Some s => option_map this (a_quantile idr ex_m s ex_q)
  | None => None
  end = Some (3 # 1)%Q
  /\ this (repr ex_m (fst (nth 2 ex_wys (0, w1)))) = (3 # 1)%Q
  /\ wleb (wsum (firstn 2 ex_wys) - 1) (ex_q * (wsum ex_wys - 1)) = true
  /\ wltb (ex_q * (wsum ex_wys - 1)) (wsum (firstn 3 ex_wys)) = true.
Proof. repeat split; vm_compute; reflexivity. Qed.

(* ------------------------------------------------------------------ *)
(* 6. why Theorem B has no rounded version for fractional weights      *)
(* ------------------------------------------------------------------ *)
(* rnd_half (round half up to an integer) satisfies every hypothesis considered for the rounding
   operator: monotone, exact on all integers, error at most 1/2 ... *)
Theorem C11_rnd_half_mono x y : x <= y -> rnd_half x <= rnd_half y.
Proof. exact (rnd_half_mono x y). Qed.
Print Assumptions C11_rnd_half_mono.
Theorem C11_rnd_half_int (z : Z) : rnd_half (inj z) = inj z.
Proof. exact (rnd_half_int z). Qed.
Print Assumptions C11_rnd_half_int.
Theorem C11_rnd_half_err x : Qcabs (rnd_half x - x) <= Q2Qc (1 # 2).
Proof. exact (rnd_half_err x). Qed.
Print Assumptions C11_rnd_half_err.
(* ... and yet, on the values 0, 1, 2 with weights 49/100, 99/10, 11/100 (W = 21/2) and q = 19/20
   the rounded arithmetic answers the representative 2 of ys[2] although
   C_2 - 1 = 939/100 > q*(W-1) = 361/40; exact arithmetic answers ys[1] *)
Definition cx_ys : list item :=
  [(0, Q2Qc (49 # 100)); (inj 1, Q2Qc (99 # 10)); (inj 2, Q2Qc (11 # 100))].
Definition cx_q : Qc := Q2Qc (19 # 20).
Example cx_rounded :
  match a_add_list ex_m a_new cx_ys with
  | Some s => (option_map this (a_quantile rnd_half ex_m s cx_q),
               option_map this (a_quantile idr ex_m s cx_q))
  | None => (None, None)
  end = (Some (2 # 1)%Q, Some (1 # 1)%Q)
  /\ this (repr ex_m (fst (nth 2 cx_ys (0, w1)))) = (2 # 1)%Q
  /\ wltb (cx_q * (wsum cx_ys - 1)) (wsum (firstn 2 cx_ys) - 1) = true.
Proof. repeat split; vm_compute; reflexivity. Qed.
