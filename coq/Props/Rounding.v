(* Props/Rounding — the executable binary64 rounding operator satisfies the abstract hypotheses
   on [rnd : Qc -> Qc] assumed by Props/Rank, Props/Sketch, Props/C20 ...: statements only.
   Model: SK.Base.F64 ([f2q], [q2f], [rnd64], [exactb]).  Definitions used in the statements and
   all proofs: SK.Base.F64Proofs.

   Reading aid (all plain definitions, unfold them to read the statements):
     qR q          = Q2R (this q)                         the rational q as a real number
     dyadic q      = exists n k : Z, 0 <= k /\ q = Q2Qc (inject_Z n / inject_Z (2 ^ k))
     dyadic_den q  = Zpos (Qden (this q)) = 2 ^ Z.log2 (Zpos (Qden (this q)))
                                                          the test [q2f] performs on its argument
     f64max_Z      = (2^53 - 1) * 2^971                   the largest finite binary64
     f64max        = Q2Qc (inject_Z f64max_Z)
     in_range q    = - f64max <= q /\ q <= f64max         (Qc order)
     round radix2 (FLT_exp (-1074) 53) ZnearestE          Flocq's round to nearest even, binary64
                                                          format with gradual underflow
     rndQ q        = the Qc whose value is  round ... (qR q)  for ANY rational q; a specification
                     operator (goes through R, not executable)

   How the abstract premises are discharged.
     rnd w0 = w0                      R_rnd64_w0          (unconditional)
     forall x, rnd (rnd x) = rnd x    R_rnd64_idem        (unconditional)
     rnd (inj z) = inj z, |z| <= B    R_rnd64_int         (B = 2^53)
     x <= y -> rnd x <= rnd y         R_rnd64_mono        for dyadic x y in range.  [rnd64] is NOT
        monotone on all of Qc (outside the range q2f overflows to an infinity and f2q returns 0;
        see Example R_ex_overflow), so the universally quantified premise is discharged for the
        total operator [rndQ] (R_rndQ_mono, R_rndQ_int, R_rndQ_w0, R_rndQ_idem), and R_rnd64_rndQ
        states that the executable [rnd64] IS [rndQ] on every dyadic argument in range.  By the
        closure theorems (R_dyadic_plus ... R_dyadic_rnd64), every argument the sketch model passes to the rounding
        operator (sums, differences, products of float values and of results of rnd64) is dyadic. *)
From Coq Require Import Bool ZArith QArith Qcanon Qreals Reals.
From Flocq Require Import Core.Core Relative IEEE754.BinarySingleNaN IEEE754.Binary IEEE754.Bits.
From SK Require Import Base.Prelude Base.F64 Base.F64Proofs.

(* ------------------------------------------------------------------ *)
(* bridge Qc <-> R                                                     *)
(* ------------------------------------------------------------------ *)
Theorem R_qR_inj (x y : Qc) : qR x = qR y -> x = y.
Proof. exact (qR_inj x y). Qed.
Print Assumptions R_qR_inj.

Theorem R_qR_le (x y : Qc) : (x <= y)%Qc <-> (qR x <= qR y)%R.
Proof. exact (qR_le x y). Qed.
Print Assumptions R_qR_le.

Theorem R_qR_ops (x y : Qc) (z : Z) :
  qR (x + y) = (qR x + qR y)%R /\ qR (x - y) = (qR x - qR y)%R /\
  qR (x * y) = (qR x * qR y)%R /\ qR (- x) = (- qR x)%R /\ qR (Q2Qc (inject_Z z)) = IZR z.
Proof.
  exact (conj (qR_plus x y) (conj (qR_minus x y) (conj (qR_mult x y) (conj (qR_opp x) (qR_of_Z z))))).
Qed.
Print Assumptions R_qR_ops.

(* the two forms of "dyadic" *)
Theorem R_dyadic_iff (q : Qc) : dyadic q <-> dyadic_den q.
Proof. exact (dyadic_iff q). Qed.
Print Assumptions R_dyadic_iff.

(* ------------------------------------------------------------------ *)
(* 1. exact value of a finite float                                    *)
(* ------------------------------------------------------------------ *)
Theorem R_f2q_B2R (x : f64) :
  is_finite 53 1024 x = true -> qR (f2q x) = B2R 53 1024 x.
Proof. exact (f2q_B2R x). Qed.
Print Assumptions R_f2q_B2R.

(* ------------------------------------------------------------------ *)
(* 2. q2f is round to nearest even                                     *)
(* ------------------------------------------------------------------ *)
Theorem R_q2f_correct (q : Qc) :
  dyadic q ->
  (Rabs (round radix2 (FLT_exp (-1074) 53) ZnearestE (qR q)) < bpow radix2 1024)%R ->
  is_finite 53 1024 (q2f q) = true /\
  B2R 53 1024 (q2f q) = round radix2 (FLT_exp (-1074) 53) ZnearestE (qR q).
Proof. exact (q2f_correct q). Qed.
Print Assumptions R_q2f_correct.

Theorem R_rnd64_round (q : Qc) :
  dyadic q ->
  (Rabs (round radix2 (FLT_exp (-1074) 53) ZnearestE (qR q)) < bpow radix2 1024)%R ->
  qR (rnd64 q) = round radix2 (FLT_exp (-1074) 53) ZnearestE (qR q).
Proof. exact (rnd64_R q). Qed.
Print Assumptions R_rnd64_round.

(* the no-overflow premise follows from |q| <= largest finite float *)
Theorem R_in_range_Rabs (q : Qc) : in_range q <-> (Rabs (qR q) <= IZR f64max_Z)%R.
Proof. exact (in_range_Rabs q). Qed.
Print Assumptions R_in_range_Rabs.

Theorem R_no_overflow (q : Qc) :
  in_range q ->
  (Rabs (round radix2 (FLT_exp (-1074) 53) ZnearestE (qR q)) < bpow radix2 1024)%R.
Proof. exact (no_overflow q). Qed.
Print Assumptions R_no_overflow.

Theorem R_in_range_of_Z_bound (q : Qc) (b : Z) :
  b <= f64max_Z -> (- Q2Qc (inject_Z b) <= q)%Qc -> (q <= Q2Qc (inject_Z b))%Qc -> in_range q.
Proof. exact (in_range_of_Z_bound q b). Qed.
Print Assumptions R_in_range_of_Z_bound.

Theorem R_rnd64_round_in_range (q : Qc) :
  dyadic q -> in_range q ->
  qR (rnd64 q) = round radix2 (FLT_exp (-1074) 53) ZnearestE (qR q).
Proof. exact (rnd64_R_in_range q). Qed.
Print Assumptions R_rnd64_round_in_range.

Theorem R_in_range_rnd64 (q : Qc) : dyadic q -> in_range q -> in_range (rnd64 q).
Proof. exact (in_range_rnd64 q). Qed.
Print Assumptions R_in_range_rnd64.

(* ------------------------------------------------------------------ *)
(* 3. monotonicity                                                     *)
(* ------------------------------------------------------------------ *)
Theorem R_rnd64_mono (x y : Qc) :
  dyadic x -> dyadic y -> in_range x -> in_range y ->
  (x <= y)%Qc -> (rnd64 x <= rnd64 y)%Qc.
Proof. exact (rnd64_mono x y). Qed.
Print Assumptions R_rnd64_mono.

Theorem R_rnd64_mono_gen (x y : Qc) :
  dyadic x -> dyadic y ->
  (Rabs (round radix2 (FLT_exp (-1074) 53) ZnearestE (qR x)) < bpow radix2 1024)%R ->
  (Rabs (round radix2 (FLT_exp (-1074) 53) ZnearestE (qR y)) < bpow radix2 1024)%R ->
  (x <= y)%Qc -> (rnd64 x <= rnd64 y)%Qc.
Proof. exact (rnd64_mono_gen x y). Qed.
Print Assumptions R_rnd64_mono_gen.

Theorem R_rnd64_nonneg (q : Qc) : dyadic q -> in_range q -> (w0 <= q)%Qc -> (w0 <= rnd64 q)%Qc.
Proof. exact (rnd64_nonneg q). Qed.
Print Assumptions R_rnd64_nonneg.

Theorem R_rnd64_opp (q : Qc) : dyadic q -> in_range q -> rnd64 (- q) = (- rnd64 q)%Qc.
Proof. exact (rnd64_opp q). Qed.
Print Assumptions R_rnd64_opp.

(* ------------------------------------------------------------------ *)
(* 4. integers up to 2^53 are fixed                                    *)
(* ------------------------------------------------------------------ *)
Theorem R_rnd64_int (z : Z) :
  Z.abs z <= 2 ^ 53 -> rnd64 (Q2Qc (inject_Z z)) = Q2Qc (inject_Z z).
Proof. exact (rnd64_int z). Qed.
Print Assumptions R_rnd64_int.

Theorem R_rnd64_w0 : rnd64 w0 = w0.
Proof. exact rnd64_w0. Qed.
Print Assumptions R_rnd64_w0.

(* any representable dyadic rational is fixed *)
Theorem R_rnd64_fix (q : Qc) :
  dyadic q -> generic_format radix2 (FLT_exp (-1074) 53) (qR q) ->
  (Rabs (qR q) < bpow radix2 1024)%R -> rnd64 q = q.
Proof. exact (rnd64_fix q). Qed.
Print Assumptions R_rnd64_fix.

(* ------------------------------------------------------------------ *)
(* 5. idempotence; float values are fixed points                       *)
(* ------------------------------------------------------------------ *)
Theorem R_rnd64_idem (q : Qc) : rnd64 (rnd64 q) = rnd64 q.
Proof. exact (rnd64_idem q). Qed.
Print Assumptions R_rnd64_idem.

Theorem R_rnd64_exact (q : Qc) (x : f64) :
  is_finite 53 1024 x = true -> q = f2q x -> rnd64 q = q.
Proof. exact (rnd64_exact q x). Qed.
Print Assumptions R_rnd64_exact.

Theorem R_rnd64_f2q (x : f64) : rnd64 (f2q x) = f2q x.
Proof. exact (rnd64_f2q x). Qed.
Print Assumptions R_rnd64_f2q.

Theorem R_exactb_rnd64 (q : Qc) : exactb (rnd64 q) = true.
Proof. exact (exactb_rnd64 q). Qed.
Print Assumptions R_exactb_rnd64.

(* ------------------------------------------------------------------ *)
(* 6. closure of the dyadic rationals                                  *)
(* ------------------------------------------------------------------ *)
Theorem R_dyadic_plus (x y : Qc) : dyadic x -> dyadic y -> dyadic (x + y).
Proof. exact (dyadic_plus x y). Qed.
Print Assumptions R_dyadic_plus.

Theorem R_dyadic_minus (x y : Qc) : dyadic x -> dyadic y -> dyadic (x - y).
Proof. exact (dyadic_minus x y). Qed.
Print Assumptions R_dyadic_minus.

Theorem R_dyadic_mult (x y : Qc) : dyadic x -> dyadic y -> dyadic (x * y).
Proof. exact (dyadic_mult x y). Qed.
Print Assumptions R_dyadic_mult.

Theorem R_dyadic_opp (x : Qc) : dyadic x -> dyadic (- x).
Proof. exact (dyadic_opp x). Qed.
Print Assumptions R_dyadic_opp.

Theorem R_dyadic_of_Z (z : Z) : dyadic (Q2Qc (inject_Z z)).
Proof. exact (dyadic_of_Z z). Qed.
Print Assumptions R_dyadic_of_Z.

Theorem R_dyadic_f2q (x : f64) : dyadic (f2q x).
Proof. exact (dyadic_f2q x). Qed.
Print Assumptions R_dyadic_f2q.

Theorem R_dyadic_rnd64 (q : Qc) : dyadic (rnd64 q).
Proof. exact (dyadic_rnd64 q). Qed.
Print Assumptions R_dyadic_rnd64.

Theorem R_dyadic_closed :
  (forall x y : Qc, dyadic x -> dyadic y -> dyadic (x + y)) /\
  (forall x y : Qc, dyadic x -> dyadic y -> dyadic (x - y)) /\
  (forall x y : Qc, dyadic x -> dyadic y -> dyadic (x * y)) /\
  (forall x : Qc, dyadic x -> dyadic (- x)) /\
  (forall z : Z, dyadic (Q2Qc (inject_Z z))) /\
  (forall x : f64, dyadic (f2q x)) /\
  (forall q : Qc, dyadic (rnd64 q)).
Proof.
  exact (conj dyadic_plus (conj dyadic_minus (conj dyadic_mult (conj dyadic_opp
          (conj dyadic_of_Z (conj dyadic_f2q dyadic_rnd64)))))).
Qed.
Print Assumptions R_dyadic_closed.

(* ------------------------------------------------------------------ *)
(* 7. error bounds                                                     *)
(* ------------------------------------------------------------------ *)
Theorem R_rnd64_err (q : Qc) :
  dyadic q -> in_range q ->
  (Rabs (qR (rnd64 q) - qR q) <= / 2 * ulp radix2 (FLT_exp (-1074) 53) (qR q))%R.
Proof. exact (rnd64_err_ulp q). Qed.
Print Assumptions R_rnd64_err.

(* relative form, normal range: |rnd64 q - q| <= 2^-53 |q| *)
Theorem R_rnd64_err_rel (q : Qc) :
  dyadic q -> in_range q -> (bpow radix2 (-1022) <= Rabs (qR q))%R ->
  (Rabs (qR (rnd64 q) - qR q) <= bpow radix2 (-53) * Rabs (qR q))%R.
Proof. exact (rnd64_err_rel q). Qed.
Print Assumptions R_rnd64_err_rel.

(* ------------------------------------------------------------------ *)
(* 8. the total specification operator rndQ                            *)
(* ------------------------------------------------------------------ *)
Theorem R_rndQ_round (q : Qc) :
  qR (rndQ q) = round radix2 (FLT_exp (-1074) 53) ZnearestE (qR q).
Proof. exact (rndQ_R q). Qed.
Print Assumptions R_rndQ_round.

Theorem R_rnd64_rndQ (q : Qc) : dyadic q -> in_range q -> rnd64 q = rndQ q.
Proof. exact (rnd64_rndQ q). Qed.
Print Assumptions R_rnd64_rndQ.

Theorem R_rndQ_mono (x y : Qc) : (x <= y)%Qc -> (rndQ x <= rndQ y)%Qc.
Proof. exact (rndQ_mono x y). Qed.
Print Assumptions R_rndQ_mono.

Theorem R_rndQ_int (z : Z) : Z.abs z <= 2 ^ 53 -> rndQ (Q2Qc (inject_Z z)) = Q2Qc (inject_Z z).
Proof. exact (rndQ_int z). Qed.
Print Assumptions R_rndQ_int.

Theorem R_rndQ_w0 : rndQ w0 = w0.
Proof. exact rndQ_w0. Qed.
Print Assumptions R_rndQ_w0.

Theorem R_rndQ_idem (q : Qc) : rndQ (rndQ q) = rndQ q.
Proof. exact (rndQ_idem q). Qed.
Print Assumptions R_rndQ_idem.

Theorem R_dyadic_rndQ (q : Qc) : dyadic (rndQ q).
Proof. exact (dyadic_rndQ q). Qed.
Print Assumptions R_dyadic_rndQ.

(* the abstract premises of Props/Rank, Props/Sketch, Props/C20, all at once, for rndQ *)
Theorem R_rndQ_premises :
  (forall x y : Qc, (x <= y)%Qc -> (rndQ x <= rndQ y)%Qc) /\
  (forall z : Z, Z.abs z <= 2 ^ 53 -> rndQ (Q2Qc (inject_Z z)) = Q2Qc (inject_Z z)) /\
  rndQ w0 = w0 /\
  (forall x : Qc, rndQ (rndQ x) = rndQ x) /\
  (forall q : Qc, dyadic q -> in_range q -> rnd64 q = rndQ q).
Proof. exact (conj rndQ_mono (conj rndQ_int (conj rndQ_w0 (conj rndQ_idem rnd64_rndQ)))). Qed.
Print Assumptions R_rndQ_premises.

(* ------------------------------------------------------------------ *)
(* examples (computed on the executable operator)                      *)
(* ------------------------------------------------------------------ *)
Example R_ex_five_eighths : rnd64 (Q2Qc (5 # 8)) = Q2Qc (5 # 8).
Proof. apply Qc_decomp. vm_compute. reflexivity. Qed.

Example R_ex_2p53_plus_1 :
  rnd64 (Q2Qc (inject_Z (2 ^ 53 + 1))) = Q2Qc (inject_Z (2 ^ 53)).
Proof. apply Qc_decomp. vm_compute. reflexivity. Qed.

(* ties to even: 2^53 + 3 is half way between 2^53 + 2 and 2^53 + 4 *)
Example R_ex_2p53_plus_3 :
  rnd64 (Q2Qc (inject_Z (2 ^ 53 + 3))) = Q2Qc (inject_Z (2 ^ 53 + 4)).
Proof. apply Qc_decomp. vm_compute. reflexivity. Qed.

Example R_ex_neg : rnd64 (Q2Qc (- (2 ^ 53 + 1) # 1)) = Q2Qc (- (2 ^ 53) # 1).
Proof. apply Qc_decomp. vm_compute. reflexivity. Qed.

Example R_ex_w0 : rnd64 w0 = w0.
Proof. apply Qc_decomp. vm_compute. reflexivity. Qed.

(* 1 + 2^-60 rounds to 1; 1 + 2^-52 is a float *)
Example R_ex_one_plus_tiny :
  rnd64 (Q2Qc (inject_Z (2 ^ 60 + 1) / inject_Z (2 ^ 60))) = w1 /\
  rnd64 (Q2Qc (inject_Z (2 ^ 52 + 1) / inject_Z (2 ^ 52))) =
    Q2Qc (inject_Z (2 ^ 52 + 1) / inject_Z (2 ^ 52)).
Proof. split; apply Qc_decomp; vm_compute; reflexivity. Qed.

(* the largest float is fixed; 2^1024 overflows and f2q of the infinity is 0: outside
   [in_range] the operator is neither monotone nor the rounding *)
Example R_ex_max : rnd64 f64max = f64max.
Proof. apply Qc_decomp. vm_compute. reflexivity. Qed.

Example R_ex_overflow : rnd64 (Q2Qc (inject_Z (2 ^ 1024))) = w0.
Proof. apply Qc_decomp. vm_compute. reflexivity. Qed.

(* gradual underflow: 2^-1074 is the smallest positive float, 2^-1075 is a tie and goes to 0,
   3 * 2^-1075 is a tie and goes to 2^-1073 *)
Example R_ex_min_subnormal :
  rnd64 (Q2Qc (1 # 2 ^ 1074)) = Q2Qc (1 # 2 ^ 1074).
Proof. apply Qc_decomp. vm_compute. reflexivity. Qed.

Example R_ex_underflow_tie : rnd64 (Q2Qc (1 # 2 ^ 1075)) = w0.
Proof. apply Qc_decomp. vm_compute. reflexivity. Qed.

Example R_ex_underflow_tie3 : rnd64 (Q2Qc (3 # 2 ^ 1075)) = Q2Qc (1 # 2 ^ 1073).
Proof. apply Qc_decomp. vm_compute. reflexivity. Qed.

Example R_ex_exactb :
  exactb (Q2Qc (5 # 8)) = true /\ exactb (Q2Qc (inject_Z (2 ^ 53 + 1))) = false.
Proof. vm_compute. split; reflexivity. Qed.
