(* Sketch level: main results, statements only. Every proof is a one-line reference to
   Sketch/SketchProofs.v.
     C12 coherence, C02 mergeability, C16 reweighting: Layer A (Spec/ASketch.v), axiom-free.
     C13 rejection: Layer B (Sketch/Sketch.v) over Flocq binary64; the float facts used depend on
         the four stdlib real-number axioms Flocq brings, nothing else.

   Vocabulary (defined in SketchProofs.v, restated below as checked equations):
     awf s        canonical positive sketch       am_ok m      0 <= am_min <= am_max
     a_addx       a_add where a refused value leaves the sketch as it is (what the code does)
     a_build      fold of a_addx over a list of (value, weight); a_build_strict: None on a refusal
     wnonneg l    every weight of l is >= 0        accepted m l every value of l is in [-max, max]
     a_norm       both stores put in the normal form of their limit
     wsum l       sum of the weights of a list of (value, weight)
     mtree/flatten/eval   a merge tree, its leaves in order, the sketch it computes *)
From SK Require Import Spec.Bins Spec.BinsProofs Spec.ASketch Sketch.SketchProofs.
From SK Require Import Base.F64 Store.Any Stat.Summary Sketch.Sketch.

Example awf_def s :
  awf s = (wf (a_pos s) = true /\ wf (a_neg s) = true /\ pos (a_pos s) /\ pos (a_neg s) /\ (w0 <= a_zero s)%Qc)
  := eq_refl.
Example am_ok_def m : am_ok m = ((w0 <= am_min m)%Qc /\ (am_min m <= am_max m)%Qc) := eq_refl.
Example a_addx_def m lp ln s v c :
  a_addx m lp ln s v c = match a_add m lp ln s v c with AAdded s' => s' | _ => s end := eq_refl.
Example a_build_def m lp ln s l :
  a_build m lp ln s l = fold_left (fun acc vc => a_addx m lp ln acc (fst vc) (snd vc)) l s := eq_refl.
Example a_build_strict_def m lp ln s l :
  a_build_strict m lp ln s l =
  fold_left (fun acc vc => match acc with
                           | Some s0 => match a_add m lp ln s0 (fst vc) (snd vc) with AAdded s' => Some s' | _ => None end
                           | None => None end) l (Some s) := eq_refl.
Example wnonneg_def l : wnonneg l = Forall (fun vc => (w0 <= snd vc)%Qc) l := eq_refl.
Example accepted_def m l :
  accepted m l = Forall (fun vc => (Qcopp (am_max m) <= fst vc <= am_max m)%Qc) l := eq_refl.
Example a_norm_def lp ln s :
  a_norm lp ln s = {| a_pos := norm lp (a_pos s); a_neg := norm ln (a_neg s); a_zero := a_zero s |} := eq_refl.
Example wsum_def l : wsum l = fold_right (fun vw acc => wadd (snd vw) acc) w0 l := eq_refl.
Example flatten_def t :
  flatten t = match t with Leaf l => l | Node t1 t2 => flatten t1 ++ flatten t2 end.
Proof. destruct t; reflexivity. Qed.
Example eval_def m t :
  eval m t = match t with
             | Leaf l => a_build m Exact Exact a_new l
             | Node t1 t2 => a_merge Exact Exact (eval m t1) (eval m t2)
             end.
Proof. destruct t; reflexivity. Qed.
Example scale_weights_def f l : scale_weights f l = map (fun vc => (fst vc, wmul f (snd vc))) l := eq_refl.
Example q_in_range_def q : q_in_range q = (fle f64_zero q && fle q f64_one) := eq_refl.

(* the running concrete instances *)
Definition qh : Qc := Q2Qc (1 # 2).
Definition q32 : Qc := Q2Qc (3 # 2).
Definition q35 : Qc := Q2Qc (3 # 5).
(* bins 1 -> 2, 5 -> 3 on the positive side, 2 -> 1 on the negative side, zero weight 1/2 *)
Definition exA : asketch :=
  {| a_pos := [(1, w_of_Z 2); (5, w_of_Z 3)]; a_neg := [(2, w_of_Z 1)]; a_zero := qh |}.
Definition exB : asketch := {| a_pos := [(5, q32); (7, w_of_Z 1)]; a_neg := []; a_zero := w0 |}.
Example exA_awf : awf exA. Proof. apply awfb_awf. vm_compute; reflexivity. Qed.
Example exB_awf : awf exB. Proof. apply awfb_awf. vm_compute; reflexivity. Qed.

(* ================================================================== *)
(** * C12 coherence                                                    *)
(* ================================================================== *)

(* 1. adding *)
Theorem C12_add_awf m lp ln s v c s' :
  awf s -> (w0 <= c)%Qc -> a_add m lp ln s v c = AAdded s' -> awf s'.
Proof. exact (a_add_awf m lp ln s v c s'). Qed.
Print Assumptions C12_add_awf.
Theorem C12_add_count m lp ln s v c s' :
  a_add m lp ln s v c = AAdded s' -> a_count s' = wadd (a_count s) c.
Proof. exact (a_add_count m lp ln s v c s'). Qed.
Print Assumptions C12_add_count.
Theorem C12_add_accepted_iff m lp ln s v c :
  am_ok m ->
  ((exists s', a_add m lp ln s v c = AAdded s') <-> (Qcopp (am_max m) <= v <= am_max m)%Qc).
Proof. exact (a_add_accepted_iff m lp ln s v c). Qed.
Print Assumptions C12_add_accepted_iff.

(* 2. emptiness *)
Theorem C12_is_empty_iff s : awf s -> (a_is_empty s = true <-> a_count s = w0).
Proof. exact (a_is_empty_iff s). Qed.
Print Assumptions C12_is_empty_iff.
Theorem C12_new_count : a_count a_new = w0.
Proof. exact a_count_new. Qed.
Print Assumptions C12_new_count.
Theorem C12_new_awf : awf a_new.
Proof. exact awf_new. Qed.
Print Assumptions C12_new_awf.
Theorem C12_count_nonneg s : awf s -> (w0 <= a_count s)%Qc.
Proof. exact (a_count_nonneg s). Qed.
Print Assumptions C12_count_nonneg.

(* 3. ForEach / GetSum *)
Theorem C12_items_weights_pos m s : awf s -> Forall (fun vw => (w0 < snd vw)%Qc) (a_items m s).
Proof. exact (a_items_weights_pos m s). Qed.
Print Assumptions C12_items_weights_pos.
Theorem C12_items_total m s : wsum (a_items m s) = a_count s.
Proof. exact (a_items_total m s). Qed.
Print Assumptions C12_items_total.
Theorem C12_items_zero m s :
  (forall i, (w0 < am_value m i)%Qc) ->
  ((exists w, In (w0, w) (a_items m s)) <-> a_zero s <> w0).
Proof. exact (a_items_zero m s). Qed.
Print Assumptions C12_items_zero.
Theorem C12_items_zero_weight m s w :
  (forall i, (w0 < am_value m i)%Qc) -> In (w0, w) (a_items m s) -> w = a_zero s.
Proof. exact (a_items_zero_weight m s w). Qed.
Print Assumptions C12_items_zero_weight.
Theorem C12_sum_def m s :
  a_sum m s = fold_left (fun acc vw => Qcplus acc (Qcmult (fst vw) (snd vw))) (a_items m s) w0.
Proof. exact (a_sum_def m s). Qed.
Print Assumptions C12_sum_def.
Theorem C12_sum_nonneg m s :
  (forall i, (w0 < am_value m i)%Qc) -> awf s -> a_neg s = [] -> (w0 <= a_sum m s)%Qc.
Proof. exact (a_sum_nonneg m s). Qed.
Print Assumptions C12_sum_nonneg.
Theorem C12_sum_nonpos m s :
  (forall i, (w0 < am_value m i)%Qc) -> awf s -> a_pos s = [] -> (a_sum m s <= w0)%Qc.
Proof. exact (a_sum_nonpos m s). Qed.
Print Assumptions C12_sum_nonpos.

(* 4. quantiles: monotone in q, within [a_min, a_max] *)
Theorem C12_rank_nonneg rnd s q : (w0 <= a_rank rnd s q)%Qc.
Proof. exact (a_rank_nonneg rnd s q). Qed.
Print Assumptions C12_rank_nonneg.
Theorem C12_rank_mono (rnd : Qc -> Qc) s q1 q2 :
  (forall x y : Qc, (x <= y)%Qc -> (rnd x <= rnd y)%Qc) -> rnd w0 = w0 ->
  (w0 <= q1)%Qc -> (q1 <= q2)%Qc -> (a_rank rnd s q1 <= a_rank rnd s q2)%Qc.
Proof. intros Hm H0. exact (a_rank_mono rnd Hm H0 s q1 q2). Qed.
Print Assumptions C12_rank_mono.
Theorem C12_quantile_mono (rnd : Qc -> Qc) m s q1 q2 y1 y2 :
  (forall x y : Qc, (x <= y)%Qc -> (rnd x <= rnd y)%Qc) -> rnd w0 = w0 ->
  (forall i, (w0 < am_value m i)%Qc) ->
  (forall i j, i <= j -> (am_value m i <= am_value m j)%Qc) ->
  awf s -> (w0 <= q1)%Qc -> (q1 <= q2)%Qc ->
  a_quantile rnd m s q1 = Some y1 -> a_quantile rnd m s q2 = Some y2 -> (y1 <= y2)%Qc.
Proof. intros Hm H0 Hv Hvm. exact (a_quantile_mono rnd m Hm H0 Hv Hvm s q1 q2 y1 y2). Qed.
Print Assumptions C12_quantile_mono.
Theorem C12_quantile_ge_min (rnd : Qc -> Qc) m s q y lo :
  rnd w0 = w0 ->
  (forall i, (w0 < am_value m i)%Qc) ->
  (forall i j, i <= j -> (am_value m i <= am_value m j)%Qc) ->
  awf s -> a_quantile rnd m s q = Some y -> a_min m s = Some lo -> (lo <= y)%Qc.
Proof. intros H0 Hv Hvm. exact (a_quantile_ge_min rnd m H0 Hv Hvm s q y lo). Qed.
Print Assumptions C12_quantile_ge_min.
Theorem C12_quantile_le_max (rnd : Qc -> Qc) m s q y hi :
  (forall x y : Qc, (x <= y)%Qc -> (rnd x <= rnd y)%Qc) -> rnd w0 = w0 ->
  (forall x : Qc, rnd (rnd x) = rnd x) ->
  (forall i, (w0 < am_value m i)%Qc) ->
  (forall i j, i <= j -> (am_value m i <= am_value m j)%Qc) ->
  awf s -> a_quantile rnd m s q = Some y -> a_max m s = Some hi -> (y <= hi)%Qc.
Proof. intros Hm H0 Hi Hv Hvm. exact (a_quantile_le_max rnd m Hm H0 Hi Hv Hvm s q y hi). Qed.
Print Assumptions C12_quantile_le_max.
Theorem C12_quantile_bounds (rnd : Qc -> Qc) m s q y lo hi :
  (forall x y : Qc, (x <= y)%Qc -> (rnd x <= rnd y)%Qc) -> rnd w0 = w0 ->
  (forall x : Qc, rnd (rnd x) = rnd x) ->
  (forall i, (w0 < am_value m i)%Qc) ->
  (forall i j, i <= j -> (am_value m i <= am_value m j)%Qc) ->
  awf s -> a_quantile rnd m s q = Some y -> a_min m s = Some lo -> a_max m s = Some hi ->
  (lo <= y <= hi)%Qc.
Proof. intros Hm H0 Hi Hv Hvm. exact (a_quantile_bounds rnd m Hm H0 Hi Hv Hvm s q y lo hi). Qed.
Print Assumptions C12_quantile_bounds.

(* 5. never None on a non-empty sketch, as long as rounding separates the count from its
   predecessor and from 0 (exact arithmetic: always; binary64: counts below 2^53) *)
Theorem C12_quantile_some (rnd : Qc -> Qc) m s q :
  (forall x y : Qc, (x <= y)%Qc -> (rnd x <= rnd y)%Qc) -> rnd w0 = w0 ->
  (forall x : Qc, rnd (rnd x) = rnd x) ->
  awf s -> a_count s <> w0 -> (w0 <= q)%Qc -> (q <= w1)%Qc ->
  (w0 < rnd (a_count s))%Qc -> (rnd (wsub (a_count s) w1) < rnd (a_count s))%Qc ->
  exists y, a_quantile rnd m s q = Some y.
Proof. intros Hm H0 Hi. exact (a_quantile_some rnd m Hm H0 Hi s q). Qed.
Print Assumptions C12_quantile_some.

(* adding 9 with weight 3/2 to a sketch whose positive store keeps the 2 highest bins: the bins
   1 and 5 collapse into 8, nothing is lost *)
Example C12_example_add :
  awf exA /\ (w0 <= q32)%Qc /\
  match a_add ex_am (Lowest 2) Exact exA (w_of_Z 9) q32 with
  | AAdded s' =>
    asketch_eqb s' {| a_pos := [(8, w_of_Z 5); (9, q32)]; a_neg := [(2, w_of_Z 1)]; a_zero := qh |}
    && weqb (a_count s') (wadd (a_count exA) q32) && awfb s'
  | _ => false
  end = true /\
  a_is_empty exA = false /\ weqb (a_count exA) (Q2Qc (13 # 2)) = true.
Proof.
  split; [exact exA_awf|]. split; [apply wleb_le; vm_compute; reflexivity|].
  repeat split; vm_compute; reflexivity.
Qed.
(* ForEach reports 0 -> 1/2, 1 -> 2, 5 -> 3, -2 -> 1; the weights sum to the count 13/2 *)
Example C12_example_items :
  map (fun vw => (this (fst vw), this (snd vw))) (a_items ex_am exA)
  = [(0%Q, 1 # 2); (1%Q, 2%Q); (5%Q, 3%Q); ((-2)%Q, 1%Q)] /\
  weqb (wsum (a_items ex_am exA)) (a_count exA) = true /\
  weqb (a_sum ex_am exA) (w_of_Z 15) = true /\ a_zero exA <> w0.
Proof.
  split; [vm_compute; reflexivity|]. split; [vm_compute; reflexivity|].
  split; [vm_compute; reflexivity|]. apply weqb_neq. vm_compute; reflexivity.
Qed.
(* exact arithmetic satisfies every hypothesis on the rounding, the toy mapping those on the values;
   the quantiles 0, 1/5, 1/2, 1 of exA are -2, 0, 1, 5, within [a_min, a_max] = [-2, 5] *)
Example C12_example_quantile :
  let rnd := fun x : Qc => x in
  (forall x y : Qc, (x <= y)%Qc -> (rnd x <= rnd y)%Qc) /\ rnd w0 = w0 /\
  (forall x : Qc, rnd (rnd x) = rnd x) /\
  (forall i, (w0 < am_value ex_am i)%Qc) /\
  (forall i j, i <= j -> (am_value ex_am i <= am_value ex_am j)%Qc) /\
  awf exA /\ a_count exA <> w0 /\
  (w0 < rnd (a_count exA))%Qc /\ (rnd (wsub (a_count exA) w1) < rnd (a_count exA))%Qc /\
  oq_eqb (a_quantile rnd ex_am exA w0) (Some (Qcopp (w_of_Z 2))) = true /\
  oq_eqb (a_quantile rnd ex_am exA (Q2Qc (1 # 5))) (Some w0) = true /\
  oq_eqb (a_quantile rnd ex_am exA qh) (Some (w_of_Z 1)) = true /\
  oq_eqb (a_quantile rnd ex_am exA w1) (Some (w_of_Z 5)) = true /\
  oq_eqb (a_min ex_am exA) (Some (Qcopp (w_of_Z 2))) = true /\
  oq_eqb (a_max ex_am exA) (Some (w_of_Z 5)) = true.
Proof.
  cbv zeta. split; [intros x y H; exact H|]. split; [reflexivity|]. split; [reflexivity|].
  split; [exact ex_am_pos|]. split; [exact ex_am_mono|]. split; [exact exA_awf|].
  split; [apply weqb_neq; vm_compute; reflexivity|].
  split; [apply wltb_lt; vm_compute; reflexivity|].
  split; [apply wltb_lt; vm_compute; reflexivity|].
  repeat split; vm_compute; reflexivity.
Qed.
(* the extra premises of C12_quantile_some cannot be dropped: with a saturating rounding (monotone,
   idempotent, fixing 0) the non-empty sketch holding only zeros of weight 3 answers None at q = 1 *)
Example C12_example_quantile_saturating :
  let s := {| a_pos := []; a_neg := []; a_zero := w_of_Z 3 |} in
  (forall x y : Qc, (x <= y)%Qc -> (rnd_sat x <= rnd_sat y)%Qc) /\ rnd_sat w0 = w0 /\
  (forall x : Qc, rnd_sat (rnd_sat x) = rnd_sat x) /\
  awf s /\ a_count s <> w0 /\ a_quantile rnd_sat ex_am s w1 = None /\
  oq_eqb (a_quantile (fun x => x) ex_am s w1) (Some w0) = true.
Proof.
  cbv zeta. split; [exact rnd_sat_mono|]. split; [exact rnd_sat_0|]. split; [exact rnd_sat_idem|].
  split; [apply awfb_awf; vm_compute; reflexivity|].
  split; [apply weqb_neq; vm_compute; reflexivity|]. split; vm_compute; reflexivity.
Qed.

(* ================================================================== *)
(** * C02 mergeability                                                 *)
(* ================================================================== *)

(* 6. merging exact sketches *)
Theorem C02_merge_awf s o : awf s -> awf o -> awf (a_merge Exact Exact s o).
Proof. exact (a_merge_awf s o). Qed.
Print Assumptions C02_merge_awf.
Theorem C02_merge_awf_gen lp ln s o : awf s -> awf o -> awf (a_merge lp ln s o).
Proof. exact (a_merge_awf_gen lp ln s o). Qed.
Print Assumptions C02_merge_awf_gen.
Theorem C02_merge_count lp ln s o : a_count (a_merge lp ln s o) = wadd (a_count s) (a_count o).
Proof. exact (a_merge_count lp ln s o). Qed.
Print Assumptions C02_merge_count.
Theorem C02_merge_comm s o : awf s -> awf o -> a_merge Exact Exact s o = a_merge Exact Exact o s.
Proof. exact (a_merge_comm s o). Qed.
Print Assumptions C02_merge_comm.
Theorem C02_merge_assoc a b c :
  awf a -> awf b -> awf c ->
  a_merge Exact Exact (a_merge Exact Exact a b) c = a_merge Exact Exact a (a_merge Exact Exact b c).
Proof. exact (a_merge_assoc a b c). Qed.
Print Assumptions C02_merge_assoc.
Theorem C02_merge_new_r s : a_merge Exact Exact s a_new = s.
Proof. exact (a_merge_new_r s). Qed.
Print Assumptions C02_merge_new_r.
Theorem C02_merge_new_l s : awf s -> a_merge Exact Exact a_new s = s.
Proof. exact (a_merge_new_l s). Qed.
Print Assumptions C02_merge_new_l.

(* 7. adds commute with merges; any merge tree equals the single sketch *)
Theorem C02_add_merge m s o v c :
  awf s -> awf o -> (w0 <= c)%Qc ->
  a_add m Exact Exact (a_merge Exact Exact s o) v c =
  match a_add m Exact Exact s v c with
  | AAdded s' => AAdded (a_merge Exact Exact s' o)
  | r => r
  end.
Proof. exact (a_add_merge m s o v c). Qed.
Print Assumptions C02_add_merge.
Theorem C02_add_merge_accepted m s o v c s' :
  awf s -> awf o -> (w0 <= c)%Qc -> a_add m Exact Exact s v c = AAdded s' ->
  a_add m Exact Exact (a_merge Exact Exact s o) v c = AAdded (a_merge Exact Exact s' o).
Proof. exact (a_add_merge_accepted m s o v c s'). Qed.
Print Assumptions C02_add_merge_accepted.
Theorem C02_merge_tree m t :
  wnonneg (flatten t) ->
  eval m t = a_build m Exact Exact a_new (flatten t) /\ awf (eval m t).
Proof. exact (merge_tree m t). Qed.
Print Assumptions C02_merge_tree.
Theorem C02_merge_tree_strict m t :
  am_ok m -> accepted m (flatten t) -> wnonneg (flatten t) ->
  eval_strict m t = a_build_strict m Exact Exact a_new (flatten t) /\ eval_strict m t = Some (eval m t).
Proof. exact (merge_tree_strict m t). Qed.
Print Assumptions C02_merge_tree_strict.
Theorem C02_merge_tree_shape m t t' :
  wnonneg (flatten t) -> flatten t = flatten t' -> eval m t = eval m t'.
Proof. exact (merge_tree_shape m t t'). Qed.
Print Assumptions C02_merge_tree_shape.
Theorem C02_build_strict_accepted m lp ln s l :
  am_ok m -> accepted m l -> a_build_strict m lp ln s l = Some (a_build m lp ln s l).
Proof. exact (a_build_strict_accepted m lp ln s l). Qed.
Print Assumptions C02_build_strict_accepted.

(* 8. collapsing limits: merging into (adding to) a normalised sketch = normalising the exact result *)
Theorem C02_merge_norm lp ln s o :
  limit_ok lp -> limit_ok ln -> awf s -> awf o ->
  a_merge lp ln (a_norm lp ln s) o = a_norm lp ln (a_merge Exact Exact s o).
Proof. exact (a_merge_norm lp ln s o). Qed.
Print Assumptions C02_merge_norm.
Theorem C02_merge_norm_pos lp ln s o :
  limit_ok lp -> limit_ok ln -> awf s -> awf o ->
  a_pos (a_merge lp ln (a_norm lp ln s) o) = norm lp (bmerge (a_pos s) (a_pos o)).
Proof. exact (a_merge_norm_pos lp ln s o). Qed.
Print Assumptions C02_merge_norm_pos.
Theorem C02_merge_norm_neg lp ln s o :
  limit_ok lp -> limit_ok ln -> awf s -> awf o ->
  a_neg (a_merge lp ln (a_norm lp ln s) o) = norm ln (bmerge (a_neg s) (a_neg o)).
Proof. exact (a_merge_norm_neg lp ln s o). Qed.
Print Assumptions C02_merge_norm_neg.
Theorem C02_build_norm m lp ln s l :
  limit_ok lp -> limit_ok ln -> awf s -> wnonneg l ->
  a_build m lp ln (a_norm lp ln s) l = a_norm lp ln (a_build m Exact Exact s l).
Proof. exact (a_build_norm m lp ln s l). Qed.
Print Assumptions C02_build_norm.

Definition ex_tree : mtree :=
  Node (Leaf [(w_of_Z 3, w1); (Qcopp (w_of_Z 2), qh)])
       (Node (Leaf [(w0, w1)]) (Leaf [(w_of_Z 3, w_of_Z 2); (w_of_Z 7, q32)])).
Example C02_example :
  awf exA /\ awf exB /\
  asketch_eqb (a_merge Exact Exact exA exB)
    {| a_pos := [(1, w_of_Z 2); (5, Q2Qc (9 # 2)); (7, w_of_Z 1)]; a_neg := [(2, w_of_Z 1)]; a_zero := qh |} = true /\
  asketch_eqb (a_merge Exact Exact exB exA) (a_merge Exact Exact exA exB) = true /\
  am_ok ex_am /\ accepted ex_am (flatten ex_tree) /\ wnonneg (flatten ex_tree) /\
  asketch_eqb (eval ex_am ex_tree)
    {| a_pos := [(3, w_of_Z 3); (7, q32)]; a_neg := [(2, qh)]; a_zero := w1 |} = true /\
  asketch_eqb (eval ex_am ex_tree) (a_build ex_am Exact Exact a_new (flatten ex_tree)) = true /\
  limit_ok (Lowest 2) /\
  bins_eqb (a_pos (a_merge (Lowest 2) Exact (a_norm (Lowest 2) Exact exA) exB))
           [(6, Q2Qc (13 # 2)); (7, w_of_Z 1)] = true.
Proof.
  split; [exact exA_awf|]. split; [exact exB_awf|].
  split; [vm_compute; reflexivity|]. split; [vm_compute; reflexivity|].
  split; [exact ex_am_ok|]. split; [apply acceptedb_accepted; vm_compute; reflexivity|].
  split; [apply wnonnegb_wnonneg; vm_compute; reflexivity|].
  split; [vm_compute; reflexivity|]. split; [vm_compute; reflexivity|].
  split; [cbn [limit_ok]; lia|]. vm_compute; reflexivity.
Qed.

(* ================================================================== *)
(** * C16 reweighting                                                  *)
(* ================================================================== *)

Theorem C16_reweight_awf f s : (w0 < f)%Qc -> awf s -> awf (a_reweight f s).
Proof. exact (a_reweight_awf f s). Qed.
Print Assumptions C16_reweight_awf.
Theorem C16_reweight_count f s : a_count (a_reweight f s) = wmul f (a_count s).
Proof. exact (a_reweight_count f s). Qed.
Print Assumptions C16_reweight_count.
Theorem C16_reweight_1 s : a_reweight w1 s = s.
Proof. exact (a_reweight_1 s). Qed.
Print Assumptions C16_reweight_1.
Theorem C16_reweight_reweight f g s : a_reweight f (a_reweight g s) = a_reweight (wmul f g) s.
Proof. exact (a_reweight_reweight f g s). Qed.
Print Assumptions C16_reweight_reweight.
Theorem C16_reweight_add m lp ln f s v c :
  (w0 < f)%Qc ->
  a_add m lp ln (a_reweight f s) v (wmul f c) =
  match a_add m lp ln s v c with
  | AAdded s' => AAdded (a_reweight f s')
  | r => r
  end.
Proof. exact (a_reweight_add m lp ln f s v c). Qed.
Print Assumptions C16_reweight_add.
Theorem C16_reweight_addx m lp ln f s v c :
  (w0 < f)%Qc -> a_reweight f (a_addx m lp ln s v c) = a_addx m lp ln (a_reweight f s) v (wmul f c).
Proof. exact (a_reweight_addx m lp ln f s v c). Qed.
Print Assumptions C16_reweight_addx.
Theorem C16_reweight_merge lp ln f s o :
  (w0 < f)%Qc -> a_reweight f (a_merge lp ln s o) = a_merge lp ln (a_reweight f s) (a_reweight f o).
Proof. exact (a_reweight_merge lp ln f s o). Qed.
Print Assumptions C16_reweight_merge.
Theorem C16_reweight_equals_scaled_adds m lp ln f l :
  (w0 < f)%Qc -> a_reweight f (a_build m lp ln a_new l) = a_build m lp ln a_new (scale_weights f l).
Proof. exact (reweight_equals_scaled_adds m lp ln f l). Qed.
Print Assumptions C16_reweight_equals_scaled_adds.
Theorem C16_max_reweight m f s : (w0 < f)%Qc -> a_max m (a_reweight f s) = a_max m s.
Proof. exact (a_max_reweight m f s). Qed.
Print Assumptions C16_max_reweight.
Theorem C16_min_reweight m f s : (w0 < f)%Qc -> a_min m (a_reweight f s) = a_min m s.
Proof. exact (a_min_reweight m f s). Qed.
Print Assumptions C16_min_reweight.
Theorem C16_is_empty_reweight f s : (w0 < f)%Qc -> a_is_empty (a_reweight f s) = a_is_empty s.
Proof. exact (a_is_empty_reweight f s). Qed.
Print Assumptions C16_is_empty_reweight.

Example C16_example :
  (w0 < q32)%Qc /\ awf exA /\
  asketch_eqb (a_reweight q32 exA)
    {| a_pos := [(1, w_of_Z 3); (5, Q2Qc (9 # 2))]; a_neg := [(2, q32)]; a_zero := Q2Qc (3 # 4) |} = true /\
  weqb (a_count (a_reweight q32 exA)) (wmul q32 (a_count exA)) = true /\
  asketch_eqb (a_reweight q32 (a_build ex_am (Lowest 2) Exact a_new (flatten ex_tree)))
              (a_build ex_am (Lowest 2) Exact a_new (scale_weights q32 (flatten ex_tree))) = true.
Proof.
  split; [apply wltb_lt; vm_compute; reflexivity|]. split; [exact exA_awf|].
  repeat split; vm_compute; reflexivity.
Qed.
(* quantiles are NOT invariant under reweighting, even in exact arithmetic: the rank is
   q * (count - 1), and count - 1 does not scale. Bins 1 -> 1, 2 -> 1 at q = 3/5: the answer moves
   from bin 1 to bin 2 when every weight is multiplied by 3 *)
Example C16_quantile_not_invariant :
  let s := {| a_pos := [(1, w_of_Z 1); (2, w_of_Z 1)]; a_neg := []; a_zero := w0 |} in
  awf s /\ (w0 < w_of_Z 3)%Qc /\
  oq_eqb (a_quantile (fun x => x) ex_am s q35) (Some (w_of_Z 1)) = true /\
  oq_eqb (a_quantile (fun x => x) ex_am (a_reweight (w_of_Z 3) s) q35) (Some (w_of_Z 2)) = true.
Proof.
  cbv zeta. split; [apply awfb_awf; vm_compute; reflexivity|].
  split; [apply wltb_lt; vm_compute; reflexivity|]. split; vm_compute; reflexivity.
Qed.

(* ================================================================== *)
(** * C13 rejection (Layer B, binary64 arguments)                      *)
(* ================================================================== *)

(* 10. DDSketch.AddWithCount: the tests, in the order of the code; no flag is involved *)
Theorem C13_plain_add_neg_count mt s v c :
  plain_add mt s v c = RErr ENegCount <-> flt c f64_zero = true.
Proof. exact (plain_add_neg_count mt s v c). Qed.
Print Assumptions C13_plain_add_neg_count.
Theorem C13_plain_add_too_high mt s v c :
  plain_add mt s v c = RErr ETooHigh <->
  flt c f64_zero = false /\ flt (mt_min mt) v = true /\ flt (mt_max mt) v = true.
Proof. exact (plain_add_too_high mt s v c). Qed.
Print Assumptions C13_plain_add_too_high.
Theorem C13_plain_add_too_high_max mt s v c :
  fle (mt_min mt) (mt_max mt) = true ->
  (plain_add mt s v c = RErr ETooHigh <-> flt c f64_zero = false /\ flt (mt_max mt) v = true).
Proof. exact (plain_add_too_high_max mt s v c). Qed.
Print Assumptions C13_plain_add_too_high_max.
Theorem C13_plain_add_too_low mt s v c :
  plain_add mt s v c = RErr ETooLow <->
  flt c f64_zero = false /\ flt (mt_min mt) v = false /\
  flt v (fneg (mt_min mt)) = true /\ flt v (fneg (mt_max mt)) = true.
Proof. exact (plain_add_too_low mt s v c). Qed.
Print Assumptions C13_plain_add_too_low.
Theorem C13_plain_add_nan mt s v c :
  plain_add mt s v c = RErr ENaN <->
  flt c f64_zero = false /\ flt (mt_min mt) v = false /\
  flt v (fneg (mt_min mt)) = false /\ f_is_nan v = true.
Proof. exact (plain_add_nan mt s v c). Qed.
Print Assumptions C13_plain_add_nan.
Theorem C13_plain_add_nan_value mt s v c :
  f_is_nan v = true ->
  plain_add mt s v c = if flt c f64_zero then RErr ENegCount else RErr ENaN.
Proof. exact (plain_add_nan_value mt s v c). Qed.
Print Assumptions C13_plain_add_nan_value.
Theorem C13_plain_add_errors mt s v c e :
  plain_add mt s v c = RErr e -> e = ENegCount \/ e = ETooHigh \/ e = ETooLow \/ e = ENaN.
Proof. exact (plain_add_errors mt s v c e). Qed.
Print Assumptions C13_plain_add_errors.
Theorem C13_plain_add_panic mt s v c :
  plain_add mt s v c = RPanic ->
  (flt (mt_min mt) v = true /\ st_addw (sk_pos s) (mt_index mt (f2q v)) (f2q c) = None) \/
  (flt v (fneg (mt_min mt)) = true /\ st_addw (sk_neg s) (mt_index mt (f2q (fneg v))) (f2q c) = None).
Proof. exact (plain_add_panic mt s v c). Qed.
Print Assumptions C13_plain_add_panic.
Theorem C13_plain_add_table mt s v c :
  (flt c f64_zero = true /\ plain_add mt s v c = RErr ENegCount) \/
  (flt c f64_zero = false /\ flt (mt_min mt) v = true /\ flt (mt_max mt) v = true /\
   plain_add mt s v c = RErr ETooHigh) \/
  (flt c f64_zero = false /\ flt (mt_min mt) v = false /\ flt v (fneg (mt_min mt)) = true /\
   flt v (fneg (mt_max mt)) = true /\ plain_add mt s v c = RErr ETooLow) \/
  (flt c f64_zero = false /\ flt (mt_min mt) v = false /\ flt v (fneg (mt_min mt)) = false /\
   f_is_nan v = true /\ plain_add mt s v c = RErr ENaN) \/
  (flt c f64_zero = false /\ f_is_nan v = false /\
   ((exists s', plain_add mt s v c = ROk s') \/ plain_add mt s v c = RPanic)).
Proof. exact (plain_add_table mt s v c). Qed.
Print Assumptions C13_plain_add_table.

(* both variants, Add (unit = true) / AddWithCount (unit = false); needs fD7 only *)
Theorem C13_sk_add_err fx mt s v c unit e :
  fD7 fx = true -> (sk_add fx mt s v c unit = RErr e <-> plain_add mt s v c = RErr e).
Proof. exact (sk_add_err fx mt s v c unit e). Qed.
Print Assumptions C13_sk_add_err.
Theorem C13_sk_add_panic fx mt s v c unit :
  fD7 fx = true -> (sk_add fx mt s v c unit = RPanic <-> plain_add mt s v c = RPanic).
Proof. exact (sk_add_panic fx mt s v c unit). Qed.
Print Assumptions C13_sk_add_panic.
Theorem C13_sk_add_ok fx mt s v c unit s' :
  fD7 fx = true -> sk_add fx mt s v c unit = ROk s' ->
  exists s0, plain_add mt s v c = ROk s0 /\
    match sk_stats s with
    | None => s' = s0
    | Some t => s' = if negb unit && feq c f64_zero then s0 else with_stats s0 (Some (su_add t v c))
    end.
Proof. exact (sk_add_ok fx mt s v c unit s'). Qed.
Print Assumptions C13_sk_add_ok.
Theorem C13_sk_add_neg_count fx mt s v c unit :
  fD7 fx = true -> (sk_add fx mt s v c unit = RErr ENegCount <-> flt c f64_zero = true).
Proof. exact (sk_add_neg_count fx mt s v c unit). Qed.
Print Assumptions C13_sk_add_neg_count.
Theorem C13_sk_add_too_high fx mt s v c unit :
  fD7 fx = true ->
  (sk_add fx mt s v c unit = RErr ETooHigh <->
   flt c f64_zero = false /\ flt (mt_min mt) v = true /\ flt (mt_max mt) v = true).
Proof. exact (sk_add_too_high fx mt s v c unit). Qed.
Print Assumptions C13_sk_add_too_high.
Theorem C13_sk_add_too_low fx mt s v c unit :
  fD7 fx = true ->
  (sk_add fx mt s v c unit = RErr ETooLow <->
   flt c f64_zero = false /\ flt (mt_min mt) v = false /\
   flt v (fneg (mt_min mt)) = true /\ flt v (fneg (mt_max mt)) = true).
Proof. exact (sk_add_too_low fx mt s v c unit). Qed.
Print Assumptions C13_sk_add_too_low.
Theorem C13_sk_add_nan fx mt s v c unit :
  fD7 fx = true ->
  (sk_add fx mt s v c unit = RErr ENaN <->
   flt c f64_zero = false /\ flt (mt_min mt) v = false /\
   flt v (fneg (mt_min mt)) = false /\ f_is_nan v = true).
Proof. exact (sk_add_nan fx mt s v c unit). Qed.
Print Assumptions C13_sk_add_nan.
Theorem C13_sk_add_nan_value fx mt s v c unit :
  fD7 fx = true -> f_is_nan v = true ->
  sk_add fx mt s v c unit = if flt c f64_zero then RErr ENegCount else RErr ENaN.
Proof. exact (sk_add_nan_value fx mt s v c unit). Qed.
Print Assumptions C13_sk_add_nan_value.
(* D7 before the repair: a NaN value with weight 0 was accepted by the exact variant *)
Theorem C13_sk_add_legacy_refuted :
  exists (mt : mtable) (s : sketch) (v c : f64),
    f_is_nan v = true /\ feq c f64_zero = true /\ flt c f64_zero = false /\
    sk_add fx_noD7 mt s v c false = ROk s /\
    sk_add fx_all mt s v c false = RErr ENaN.
Proof. exact sk_add_legacy_refuted. Qed.
Print Assumptions C13_sk_add_legacy_refuted.

(* 11. GetValueAtQuantile; needs fD5 only *)
Theorem C13_plain_quantile_bad rnd fx mt s q :
  fD5 fx = true ->
  (snd (plain_quantile rnd fx mt s q) = RErr EBadQuantile <-> negb (q_in_range q) = true).
Proof. exact (plain_quantile_bad rnd fx mt s q). Qed.
Print Assumptions C13_plain_quantile_bad.
Theorem C13_plain_quantile_nan rnd fx mt s q :
  fD5 fx = true -> f_is_nan q = true -> plain_quantile rnd fx mt s q = (s, RErr EBadQuantile).
Proof. exact (plain_quantile_nan rnd fx mt s q). Qed.
Print Assumptions C13_plain_quantile_nan.
Theorem C13_plain_quantile_empty rnd fx mt s q :
  fD5 fx = true ->
  (snd (plain_quantile rnd fx mt s q) = RErr EEmpty <-> q_in_range q = true /\ plain_count s = w0).
Proof. exact (plain_quantile_empty rnd fx mt s q). Qed.
Print Assumptions C13_plain_quantile_empty.
Theorem C13_plain_quantile_errors rnd fx mt s q e :
  snd (plain_quantile rnd fx mt s q) = RErr e ->
  (e = EBadQuantile \/ e = EEmpty) /\ fst (plain_quantile rnd fx mt s q) = s.
Proof. exact (plain_quantile_errors rnd fx mt s q e). Qed.
Print Assumptions C13_plain_quantile_errors.
Theorem C13_plain_quantile_no_panic rnd fx mt s q : snd (plain_quantile rnd fx mt s q) <> RPanic.
Proof. exact (plain_quantile_no_panic rnd fx mt s q). Qed.
Print Assumptions C13_plain_quantile_no_panic.
Theorem C13_sk_quantile_err rnd fx mt s q e :
  snd (sk_quantile rnd fx mt s q) = RErr e <-> snd (plain_quantile rnd fx mt s q) = RErr e.
Proof. exact (sk_quantile_err rnd fx mt s q e). Qed.
Print Assumptions C13_sk_quantile_err.
Theorem C13_sk_quantile_bad rnd fx mt s q :
  fD5 fx = true ->
  (snd (sk_quantile rnd fx mt s q) = RErr EBadQuantile <-> negb (q_in_range q) = true).
Proof. exact (sk_quantile_bad rnd fx mt s q). Qed.
Print Assumptions C13_sk_quantile_bad.
Theorem C13_sk_quantile_nan rnd fx mt s q :
  fD5 fx = true -> f_is_nan q = true -> sk_quantile rnd fx mt s q = (s, RErr EBadQuantile).
Proof. exact (sk_quantile_nan rnd fx mt s q). Qed.
Print Assumptions C13_sk_quantile_nan.
Theorem C13_sk_quantile_empty rnd fx mt s q :
  fD5 fx = true ->
  (snd (sk_quantile rnd fx mt s q) = RErr EEmpty <-> q_in_range q = true /\ plain_count s = w0).
Proof. exact (sk_quantile_empty rnd fx mt s q). Qed.
Print Assumptions C13_sk_quantile_empty.
(* D5 before the repair: a NaN quantile was answered *)
Theorem C13_plain_quantile_legacy_refuted :
  exists (mt : mtable) (s : sketch) (q : f64),
    f_is_nan q = true /\
    snd (plain_quantile (fun x => x) fx_noD5 mt s q) = ROk (w_of_Z 3) /\
    snd (plain_quantile (fun x => x) fx_all mt s q) = RErr EBadQuantile.
Proof. exact plain_quantile_legacy_refuted. Qed.
Print Assumptions C13_plain_quantile_legacy_refuted.

(* 12. MergeWith / Reweight; no flag *)
Theorem C13_merge_mismatch s o :
  sk_merge s o = RErr EMismatch <-> map_equals (sk_map s) (sk_map o) = false.
Proof. exact (sk_merge_mismatch s o). Qed.
Print Assumptions C13_merge_mismatch.
Theorem C13_merge_errors s o e : sk_merge s o = RErr e -> e = EMismatch.
Proof. exact (sk_merge_errors s o e). Qed.
Print Assumptions C13_merge_errors.
Theorem C13_reweight_nonpositive s w : fle w f64_zero = true -> sk_reweight s w = RErr EBadFactor.
Proof. exact (sk_reweight_nonpositive s w). Qed.
Print Assumptions C13_reweight_nonpositive.
Theorem C13_reweight_bad_factor s w :
  f_is_finite w = true -> (sk_reweight s w = RErr EBadFactor <-> fle w f64_zero = true).
Proof. exact (sk_reweight_bad_factor s w). Qed.
Print Assumptions C13_reweight_bad_factor.
Theorem C13_reweight_bad_factor_gen s w :
  sk_reweight s w = RErr EBadFactor <->
  fle w f64_zero = true \/ (feq w f64_one = false /\ wleb (f2q w) w0 = true).
Proof. exact (sk_reweight_bad_factor_gen s w). Qed.
Print Assumptions C13_reweight_bad_factor_gen.
Theorem C13_reweight_errors s w e : sk_reweight s w = RErr e -> e = EBadFactor.
Proof. exact (sk_reweight_errors s w e). Qed.
Print Assumptions C13_reweight_errors.

(* 13. weight 0: an accepted AddWithCount(v, 0) changes nothing; needs fD7 *)
Theorem C13_st_addw_zero st i : st_addw st i w0 = Some st.
Proof. exact (st_addw_zero st i). Qed.
Print Assumptions C13_st_addw_zero.
Theorem C13_plain_add_weight0 mt s v c s' :
  feq c f64_zero = true -> plain_add mt s v c = ROk s' -> s' = s.
Proof. exact (plain_add_weight0 mt s v c s'). Qed.
Print Assumptions C13_plain_add_weight0.
Theorem C13_sk_add_weight0 fx mt s v c s' :
  fD7 fx = true -> feq c f64_zero = true -> sk_add fx mt s v c false = ROk s' -> s' = s.
Proof. exact (sk_add_weight0 fx mt s v c s'). Qed.
Print Assumptions C13_sk_add_weight0.
Theorem C13_sk_add_weight0_obs fx mt s v c unit s' :
  fD7 fx = true -> feq c f64_zero = true -> sk_add fx mt s v c unit = ROk s' ->
  sk_map s' = sk_map s /\ sk_pos s' = sk_pos s /\ sk_neg s' = sk_neg s /\ sk_zero s' = sk_zero s.
Proof. exact (sk_add_weight0_obs fx mt s v c unit s'). Qed.
Print Assumptions C13_sk_add_weight0_obs.

(* a concrete sketch: dense positive store with bins 1 -> 2, 5 -> 3, sparse negative store with
   2 -> 1, zero weight 1/2; indexable range (2^-10, 1024]; both variants *)
Definition f64_of (b : N) : f64 := f64_of_bits b.
Definition f_2p5 := f64_of 4612811918334230528.     (* 2.5 *)
Definition f_2 := f64_of 4611686018427387904.       (* 2 *)
Definition f_half := f64_of 4602678819172646912.    (* 0.5 *)
Definition f_2048 := f64_of 4656722014701092864.    (* 2048 *)
Definition f_m2048 := f64_of 13880094051555868672.  (* -2048 *)
Definition f_m1 := f64_of 13830554455654793216.     (* -1 *)
Definition ex_mt2 : mtable :=
  {| mt_index := fun q => Qnum (this q) / Zpos (Qden (this q)); mt_value := fun i => w_of_Z (Z.max 1 i);
     mt_min := f64_of 4562146422526312448; mt_max := f64_of 4652218415073722368 |}.
Definition ex_pos : store :=
  match st_addw (st_new KDense) 1 (w_of_Z 2) with
  | Some p => match st_addw p 5 (w_of_Z 3) with Some p' => p' | None => SS [] end
  | None => SS []
  end.
Definition ex_sk (exact : bool) : sketch :=
  {| sk_map := ex_mapid; sk_pos := ex_pos; sk_neg := SS [(2, w1)]; sk_zero := qh;
     sk_stats := if exact then Some su_new else None |}.
Definition is_ok {A} (r : result A) : bool := match r with ROk _ => true | _ => false end.
Definition is_err {A} (r : result A) (e : err) : bool :=
  match r with RErr e' => match e, e' with
                          | ENegCount, ENegCount | ETooHigh, ETooHigh | ETooLow, ETooLow | ENaN, ENaN
                          | EBadQuantile, EBadQuantile | EEmpty, EEmpty | EMismatch, EMismatch
                          | EBadFactor, EBadFactor => true
                          | _, _ => false end
  | _ => false end.
Example C13_example :
  fD7 fx_all = true /\ fD5 fx_all = true /\
  weqb (plain_count (ex_sk false)) (Q2Qc (13 # 2)) = true /\
  fle (mt_min ex_mt2) (mt_max ex_mt2) = true /\
  (* every row of the table, both variants *)
  forallb (fun x =>
    is_err (sk_add fx_all ex_mt2 (ex_sk x) f_2p5 f_m1 false) ENegCount &&
    is_err (sk_add fx_all ex_mt2 (ex_sk x) f_2048 f64_one false) ETooHigh &&
    is_err (sk_add fx_all ex_mt2 (ex_sk x) f_m2048 f64_one false) ETooLow &&
    is_err (sk_add fx_all ex_mt2 (ex_sk x) f64_nan f64_one false) ENaN &&
    is_err (sk_add fx_all ex_mt2 (ex_sk x) f64_nan f64_zero false) ENaN &&
    is_ok (sk_add fx_all ex_mt2 (ex_sk x) f_2p5 f64_one false) &&
    is_ok (sk_add fx_all ex_mt2 (ex_sk x) f_2p5 f64_one true) &&
    is_ok (sk_add fx_all ex_mt2 (ex_sk x) f64_zero f_half false) &&
    (* quantiles *)
    is_err (snd (sk_quantile (fun q => q) fx_all ex_mt2 (ex_sk x) f64_nan)) EBadQuantile &&
    is_err (snd (sk_quantile (fun q => q) fx_all ex_mt2 (ex_sk x) f_2)) EBadQuantile &&
    is_err (snd (sk_quantile (fun q => q) fx_all ex_mt2 (sk_new ex_mapid KDense KSparse x) f_half)) EEmpty &&
    is_ok (snd (sk_quantile (fun q => q) fx_all ex_mt2 (ex_sk x) f_half)) &&
    (* merge, reweight *)
    is_err (sk_merge (ex_sk x) (sk_new {| mk_kind := 0%N; mk_gamma := f_2; mk_off := f64_zero |} KDense KSparse x)) EMismatch &&
    is_ok (sk_merge (ex_sk x) (ex_sk x)) &&
    is_err (sk_reweight (ex_sk x) f_m1) EBadFactor &&
    is_err (sk_reweight (ex_sk x) f64_zero) EBadFactor &&
    is_ok (sk_reweight (ex_sk x) f_2p5)) [false; true] = true /\
  (* weight 0 is accepted and changes nothing *)
  feq f64_zero f64_zero = true /\
  sk_add fx_all ex_mt2 (ex_sk false) f_2p5 f64_zero false = ROk (ex_sk false) /\
  sk_add fx_all ex_mt2 (ex_sk true) f_2p5 f64_zero false = ROk (ex_sk true).
Proof. repeat split; vm_compute; reflexivity. Qed.
