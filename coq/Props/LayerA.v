(* Layer A: main results on the abstract bin stores (Spec/Bins.v), statements only.
   Every proof is a one-line reference to Spec/BinsProofs.v; every result is axiom-free.

   Vocabulary (defined in BinsProofs.v, restated below as checked equations):
     pos b     all weights of b are > 0          nonneg l   all weights of l are >= 0
     lsum l j  total weight a raw list l puts on index j
     cum b j   sum of the contents of b at indices <= j     cum_up b j   ... at indices >= j
     olift f   lifts f : Z -> Z -> Z to options (None is neutral)
     limit_ok  the bin limit of a collapsing store is >= 1 *)
From SK Require Import Spec.Bins Spec.BinsProofs.
From Coq Require Import Permutation.

Example pos_def b : pos b = Forall (fun kw => (w0 < snd kw)%Qc) b := eq_refl.
Example nonneg_def l : nonneg l = Forall (fun kw => (w0 <= snd kw)%Qc) l := eq_refl.
Example lsum_def l j :
  lsum l j = fold_right (fun kw s => if j =? fst kw then wadd (snd kw) s else s) w0 l := eq_refl.
Example cum_def b j :
  cum b j = fold_right (fun kw s => if fst kw <=? j then wadd (snd kw) s else s) w0 b := eq_refl.
Example cum_up_def b j :
  cum_up b j = fold_right (fun kw s => if j <=? fst kw then wadd (snd kw) s else s) w0 b := eq_refl.
Example limit_ok_def l :
  limit_ok l = match l with Exact => True | Lowest n => 1 <= n | Highest n => 1 <= n end := eq_refl.

(* the running concrete instance: three bins, weights 2, 3, 1 at indices 1, 5, 9 *)
Definition ex3 : bins := [(1, w_of_Z 2); (5, w_of_Z 3); (9, w_of_Z 1)].
Definition ex2 : bins := [(5, w_of_Z 4); (12, w_of_Z 2)].
Example ex3_wf : wf ex3 = true. Proof. vm_compute; reflexivity. Qed.
Example ex3_pos : pos ex3. Proof. apply posb_pos. vm_compute; reflexivity. Qed.
Example ex2_wf : wf ex2 = true. Proof. vm_compute; reflexivity. Qed.
Example ex2_pos : pos ex2. Proof. apply posb_pos. vm_compute; reflexivity. Qed.

(* ------------------------------------------------------------------ *)
(* 1. extensionality: a canonical store is determined by its content   *)
(* ------------------------------------------------------------------ *)
Theorem A1_ext a b :
  wf a = true -> wf b = true -> (forall i, get a i = get b i) -> a = b.
Proof. exact (bins_ext a b). Qed.
Print Assumptions A1_ext.

(* ------------------------------------------------------------------ *)
(* 2. add                                                              *)
(* ------------------------------------------------------------------ *)
Theorem A2_wf_badd b i c :
  wf b = true -> pos b -> (w0 < c)%Qc -> wf (badd b i c) = true.
Proof. exact (wf_badd b i c). Qed.
Print Assumptions A2_wf_badd.
Theorem A2_pos_badd b i c : pos b -> (w0 < c)%Qc -> pos (badd b i c).
Proof. exact (pos_badd b i c). Qed.
Print Assumptions A2_pos_badd.
Theorem A2_get_badd b i c j :
  wf b = true -> get (badd b i c) j = if j =? i then wadd (get b j) c else get b j.
Proof. exact (get_badd b i c j). Qed.
Print Assumptions A2_get_badd.
Theorem A2_wf_badd0 b i c :
  wf b = true -> pos b -> (w0 <= c)%Qc -> wf (badd0 b i c) = true.
Proof. exact (wf_badd0 b i c). Qed.
Print Assumptions A2_wf_badd0.
Theorem A2_get_badd0 b i c j :
  wf b = true -> get (badd0 b i c) j = if j =? i then wadd (get b j) c else get b j.
Proof. exact (get_badd0 b i c j). Qed.
Print Assumptions A2_get_badd0.

Example A2_example :
  wf ex3 = true /\ pos ex3 /\ (w0 < w_of_Z 4)%Qc /\
  badd ex3 5 (w_of_Z 4) = [(1, w_of_Z 2); (5, w_of_Z 7); (9, w_of_Z 1)] /\
  badd ex3 3 (w_of_Z 4) = [(1, w_of_Z 2); (3, w_of_Z 4); (5, w_of_Z 3); (9, w_of_Z 1)] /\
  badd0 ex3 3 w0 = ex3.
Proof.
  split; [exact ex3_wf|]. split; [exact ex3_pos|].
  split; [vm_compute; reflexivity|]. repeat split; vm_compute; reflexivity.
Qed.

(* ------------------------------------------------------------------ *)
(* 3. merge                                                            *)
(* ------------------------------------------------------------------ *)
Theorem A3_get_bmerge_list a l j :
  wf a = true -> pos a -> nonneg l ->
  get (bmerge_list a l) j = wadd (get a j) (lsum l j).
Proof. exact (get_bmerge_list a l j). Qed.
Print Assumptions A3_get_bmerge_list.
Theorem A3_wf_bmerge_list a l :
  wf a = true -> pos a -> nonneg l -> wf (bmerge_list a l) = true /\ pos (bmerge_list a l).
Proof. exact (wf_pos_bmerge_list a l). Qed.
Print Assumptions A3_wf_bmerge_list.
Theorem A3_get_bmerge a b j :
  wf a = true -> pos a -> wf b = true -> pos b ->
  get (bmerge a b) j = wadd (get a j) (get b j).
Proof. exact (get_bmerge a b j). Qed.
Print Assumptions A3_get_bmerge.
Theorem A3_bmerge_comm a b :
  wf a = true -> pos a -> wf b = true -> pos b -> bmerge a b = bmerge b a.
Proof. exact (bmerge_comm a b). Qed.
Print Assumptions A3_bmerge_comm.
Theorem A3_bmerge_assoc a b c :
  wf a = true -> pos a -> wf b = true -> pos b -> wf c = true -> pos c ->
  bmerge (bmerge a b) c = bmerge a (bmerge b c).
Proof. exact (bmerge_assoc a b c). Qed.
Print Assumptions A3_bmerge_assoc.
Theorem A3_bmerge_nil_r a : bmerge a [] = a.
Proof. exact (bmerge_nil_r a). Qed.
Print Assumptions A3_bmerge_nil_r.
Theorem A3_bmerge_nil_l a : wf a = true -> bmerge [] a = a.
Proof. exact (bmerge_nil_l_gen a). Qed.
Print Assumptions A3_bmerge_nil_l.
Theorem A3_bins_of_list_perm l l' :
  nonneg l -> Permutation l l' -> bins_of_list l = bins_of_list l'.
Proof. exact (bins_of_list_perm l l'). Qed.
Print Assumptions A3_bins_of_list_perm.
Theorem A3_bmerge_list_perm a l l' :
  wf a = true -> pos a -> nonneg l -> Permutation l l' -> bmerge_list a l = bmerge_list a l'.
Proof. exact (bmerge_list_perm a l l'). Qed.
Print Assumptions A3_bmerge_list_perm.

Example A3_example :
  wf ex3 = true /\ pos ex3 /\ wf ex2 = true /\ pos ex2 /\
  bmerge ex3 ex2 = [(1, w_of_Z 2); (5, w_of_Z 7); (9, w_of_Z 1); (12, w_of_Z 2)] /\
  bmerge ex2 ex3 = bmerge ex3 ex2 /\
  Permutation [(9, w_of_Z 1); (1, w_of_Z 2); (5, w_of_Z 3)] ex3 /\
  bins_of_list [(9, w_of_Z 1); (1, w_of_Z 2); (5, w_of_Z 3)] = ex3.
Proof.
  split; [exact ex3_wf|]. split; [exact ex3_pos|]. split; [exact ex2_wf|]. split; [exact ex2_pos|].
  split; [vm_compute; reflexivity|]. split; [vm_compute; reflexivity|]. split.
  - change ex3 with ([(1, w_of_Z 2); (5, w_of_Z 3)] ++ [(9, w_of_Z 1)]).
    apply Permutation_cons_append.
  - vm_compute; reflexivity.
Qed.

(* ------------------------------------------------------------------ *)
(* 4. total                                                            *)
(* ------------------------------------------------------------------ *)
Theorem A4_total_badd b i c : total (badd b i c) = wadd (total b) c.
Proof. exact (total_badd b i c). Qed.
Print Assumptions A4_total_badd.
Theorem A4_total_bmerge a b : total (bmerge a b) = wadd (total a) (total b).
Proof. exact (total_bmerge a b). Qed.
Print Assumptions A4_total_bmerge.
Theorem A4_total_bscale f b : total (bscale f b) = wmul f (total b).
Proof. exact (total_bscale f b). Qed.
Print Assumptions A4_total_bscale.
Theorem A4_total_eq0_iff b : pos b -> (total b = w0 <-> b = []).
Proof. exact (total_eq0_iff b). Qed.
Print Assumptions A4_total_eq0_iff.
Theorem A4_is_emptyb_iff b : is_emptyb b = true <-> b = [].
Proof. exact (is_emptyb_iff b). Qed.
Print Assumptions A4_is_emptyb_iff.

Example A4_example :
  pos ex3 /\ total ex3 = w_of_Z 6 /\ total (bmerge ex3 ex2) = w_of_Z 12 /\ is_emptyb ex3 = false.
Proof. split; [exact ex3_pos|]. repeat split; vm_compute; reflexivity. Qed.

(* ------------------------------------------------------------------ *)
(* 5. scale                                                            *)
(* ------------------------------------------------------------------ *)
Theorem A5_wf_bscale f b : (w0 < f)%Qc -> wf b = true -> wf (bscale f b) = true.
Proof. exact (wf_bscale f b). Qed.
Print Assumptions A5_wf_bscale.
Theorem A5_pos_bscale f b : (w0 < f)%Qc -> pos b -> pos (bscale f b).
Proof. exact (pos_bscale f b). Qed.
Print Assumptions A5_pos_bscale.
Theorem A5_get_bscale f b j : get (bscale f b) j = wmul f (get b j).
Proof. exact (get_bscale f b j). Qed.
Print Assumptions A5_get_bscale.
Theorem A5_bscale_badd f b i c : bscale f (badd b i c) = badd (bscale f b) i (wmul f c).
Proof. exact (bscale_badd f b i c). Qed.
Print Assumptions A5_bscale_badd.
Theorem A5_bscale_bmerge f a b :
  (w0 < f)%Qc -> bscale f (bmerge a b) = bmerge (bscale f a) (bscale f b).
Proof. exact (bscale_bmerge f a b). Qed.
Print Assumptions A5_bscale_bmerge.
Theorem A5_bscale_1 b : bscale w1 b = b.
Proof. exact (bscale_1 b). Qed.
Print Assumptions A5_bscale_1.
Theorem A5_bscale_bscale f g b : bscale f (bscale g b) = bscale (wmul f g) b.
Proof. exact (bscale_bscale f g b). Qed.
Print Assumptions A5_bscale_bscale.
Theorem A5_min_key_bscale f b : min_key (bscale f b) = min_key b.
Proof. exact (min_key_bscale f b). Qed.
Print Assumptions A5_min_key_bscale.
Theorem A5_max_key_bscale f b : max_key (bscale f b) = max_key b.
Proof. exact (max_key_bscale f b). Qed.
Print Assumptions A5_max_key_bscale.

Example A5_example :
  (w0 < Q2Qc (1 # 2))%Qc /\ wf ex3 = true /\
  bins_eqb (bscale (Q2Qc (1 # 2)) ex3) [(1, w1); (5, Q2Qc (3 # 2)); (9, Q2Qc (1 # 2))] = true /\
  bins_eqb (bscale (Q2Qc (1 # 2)) (bmerge ex3 ex2))
           (bmerge (bscale (Q2Qc (1 # 2)) ex3) (bscale (Q2Qc (1 # 2)) ex2)) = true.
Proof. split; [vm_compute; reflexivity|]. split; [exact ex3_wf|]. split; vm_compute; reflexivity. Qed.

(* ------------------------------------------------------------------ *)
(* 6. min / max                                                        *)
(* ------------------------------------------------------------------ *)
Theorem A6_min_key_iff b k :
  wf b = true ->
  (min_key b = Some k <-> get b k <> w0 /\ forall j, j < k -> get b j = w0).
Proof. exact (min_key_iff b k). Qed.
Print Assumptions A6_min_key_iff.
Theorem A6_max_key_iff b k :
  wf b = true ->
  (max_key b = Some k <-> get b k <> w0 /\ forall j, k < j -> get b j = w0).
Proof. exact (max_key_iff b k). Qed.
Print Assumptions A6_max_key_iff.
Theorem A6_min_key_badd b i c : min_key (badd b i c) = olift Z.min (Some i) (min_key b).
Proof. exact (min_key_badd b i c). Qed.
Print Assumptions A6_min_key_badd.
Theorem A6_max_key_badd b i c :
  wf b = true -> max_key (badd b i c) = olift Z.max (Some i) (max_key b).
Proof. exact (max_key_badd b i c). Qed.
Print Assumptions A6_max_key_badd.
Theorem A6_min_key_bmerge a b :
  wf a = true -> pos a -> wf b = true -> pos b ->
  min_key (bmerge a b) = olift Z.min (min_key a) (min_key b).
Proof. exact (min_key_bmerge a b). Qed.
Print Assumptions A6_min_key_bmerge.
Theorem A6_max_key_bmerge a b :
  wf a = true -> pos a -> wf b = true -> pos b ->
  max_key (bmerge a b) = olift Z.max (max_key a) (max_key b).
Proof. exact (max_key_bmerge a b). Qed.
Print Assumptions A6_max_key_bmerge.

Example A6_example :
  wf ex3 = true /\ min_key ex3 = Some 1 /\ max_key ex3 = Some 9 /\
  max_key (badd ex3 20 w1) = Some 20 /\ min_key (bmerge ex2 ex3) = Some 1.
Proof. split; [exact ex3_wf|]. repeat split; vm_compute; reflexivity. Qed.

(* ------------------------------------------------------------------ *)
(* 7. key_at_rank                                                      *)
(* ------------------------------------------------------------------ *)
(* cum really is the running sum of the contents *)
Theorem A7_cum_step b j : wf b = true -> cum b j = wadd (cum b (j - 1)) (get b j).
Proof. exact (cum_step b j). Qed.
Print Assumptions A7_cum_step.
Theorem A7_cum_below b mn j : wf b = true -> min_key b = Some mn -> j < mn -> cum b j = w0.
Proof.
  intros Hwf Hmn Hj. unfold cum. apply gsum_get0; [|exact Hwf].
  intros i Hi. apply Z.leb_le in Hi. apply (min_key_spec b mn Hwf Hmn). lia.
Qed.
Print Assumptions A7_cum_below.

(* characterisation: the least index whose cumulative weight exceeds the rank, else the last key *)
Theorem A7_key_at_rank_spec b r :
  wf b = true -> pos b -> b <> [] -> (w0 <= r)%Qc ->
  exists k, key_at_rank b r = Some k /\ get b k <> w0 /\
    (((r < cum b k)%Qc /\ forall j, j < k -> (cum b j <= r)%Qc) \/
     (max_key b = Some k /\ forall j, (cum b j <= r)%Qc)).
Proof. exact (key_at_rank_spec b r). Qed.
Print Assumptions A7_key_at_rank_spec.
Theorem A7_key_at_rank_neg b r : pos b -> (r < w0)%Qc -> key_at_rank b r = min_key b.
Proof. exact (key_at_rank_neg b r). Qed.
Print Assumptions A7_key_at_rank_neg.
Theorem A7_key_at_rank_ge_total b r :
  wf b = true -> pos b -> (total b <= r)%Qc -> key_at_rank b r = max_key b.
Proof. exact (key_at_rank_ge_total b r). Qed.
Print Assumptions A7_key_at_rank_ge_total.
Theorem A7_key_at_rank_none b r : key_at_rank b r = None <-> b = [].
Proof. exact (key_at_rank_none b r). Qed.
Print Assumptions A7_key_at_rank_none.
Theorem A7_key_at_rank_key b r k : wf b = true -> key_at_rank b r = Some k -> get b k <> w0.
Proof. exact (key_at_rank_key b r k). Qed.
Print Assumptions A7_key_at_rank_key.
Theorem A7_key_at_rank_mono b r1 r2 k1 k2 :
  wf b = true -> (r1 <= r2)%Qc ->
  key_at_rank b r1 = Some k1 -> key_at_rank b r2 = Some k2 -> k1 <= k2.
Proof. exact (key_at_rank_mono b r1 r2 k1 k2). Qed.
Print Assumptions A7_key_at_rank_mono.
Theorem A7_key_at_rank_bscale f b r :
  (w0 < f)%Qc -> key_at_rank (bscale f b) (wmul f r) = key_at_rank b r.
Proof. exact (key_at_rank_bscale f b r). Qed.
Print Assumptions A7_key_at_rank_bscale.

Example A7_example :
  wf ex3 = true /\ pos ex3 /\ ex3 <> [] /\
  cum ex3 0 = w0 /\ cum ex3 1 = w_of_Z 2 /\ cum ex3 5 = w_of_Z 5 /\ cum ex3 100 = w_of_Z 6 /\
  key_at_rank ex3 (w_of_Z 1) = Some 1 /\ key_at_rank ex3 (w_of_Z 2) = Some 5 /\
  key_at_rank ex3 (w_of_Z 5) = Some 9 /\ key_at_rank ex3 (w_of_Z 100) = Some 9 /\
  key_at_rank ex3 (Q2Qc (-1 # 2)) = Some 1.
Proof.
  split; [exact ex3_wf|]. split; [exact ex3_pos|]. split; [discriminate|].
  repeat split; vm_compute; reflexivity.
Qed.

(* ------------------------------------------------------------------ *)
(* 8. collapsing                                                       *)
(* ------------------------------------------------------------------ *)
(* ---- lowest bins collapse ---- *)
Theorem A8_get_clamp_low n b mx j :
  wf b = true -> pos b -> max_key b = Some mx ->
  get (clamp_low n b) j =
    let e := mx - n + 1 in
    if j <? e then w0 else if j =? e then cum b e else get b j.
Proof. exact (get_clamp_low n b mx j). Qed.
Print Assumptions A8_get_clamp_low.
Theorem A8_wf_clamp_low n b : pos b -> wf (clamp_low n b) = true /\ pos (clamp_low n b).
Proof. intros Hp. split; [exact (wf_clamp_low n b Hp)|exact (pos_clamp_low n b Hp)]. Qed.
Print Assumptions A8_wf_clamp_low.
Theorem A8_total_clamp_low n b : total (clamp_low n b) = total b.
Proof. exact (total_clamp_low n b). Qed.
Print Assumptions A8_total_clamp_low.
Theorem A8_clamp_low_range n b mx j :
  1 <= n -> wf b = true -> pos b -> max_key b = Some mx ->
  get (clamp_low n b) j <> w0 -> mx - n + 1 <= j <= mx.
Proof. exact (clamp_low_range n b mx j). Qed.
Print Assumptions A8_clamp_low_range.
Theorem A8_max_key_clamp_low n b :
  1 <= n -> wf b = true -> pos b -> max_key (clamp_low n b) = max_key b.
Proof. exact (max_key_clamp_low n b). Qed.
Print Assumptions A8_max_key_clamp_low.
Theorem A8_clamp_low_length n b :
  1 <= n -> wf b = true -> pos b -> Z.of_nat (length (clamp_low n b)) <= n.
Proof. exact (clamp_low_length n b). Qed.
Print Assumptions A8_clamp_low_length.
Theorem A8_clamp_low_span n b mn mx :
  1 <= n -> wf b = true -> pos b ->
  min_key (clamp_low n b) = Some mn -> max_key (clamp_low n b) = Some mx -> mx - mn + 1 <= n.
Proof. exact (clamp_low_span n b mn mx). Qed.
Print Assumptions A8_clamp_low_span.
Theorem A8_clamp_low_idem n b :
  1 <= n -> wf b = true -> pos b -> clamp_low n (clamp_low n b) = clamp_low n b.
Proof. exact (clamp_low_idem n b). Qed.
Print Assumptions A8_clamp_low_idem.
Theorem A8_clamp_low_absorb n a b :
  1 <= n -> wf a = true -> pos a -> pos b ->
  clamp_low n (bmerge (clamp_low n a) b) = clamp_low n (bmerge a b).
Proof. exact (clamp_low_absorb n a b). Qed.
Print Assumptions A8_clamp_low_absorb.
Theorem A8_clamp_low_bscale n f b :
  (w0 < f)%Qc -> clamp_low n (bscale f b) = bscale f (clamp_low n b).
Proof. exact (clamp_low_bscale n f b). Qed.
Print Assumptions A8_clamp_low_bscale.

(* ---- highest bins collapse ---- *)
Theorem A8_get_clamp_high n b mn j :
  wf b = true -> pos b -> min_key b = Some mn ->
  get (clamp_high n b) j =
    let e := mn + n - 1 in
    if e <? j then w0 else if j =? e then cum_up b e else get b j.
Proof. exact (get_clamp_high n b mn j). Qed.
Print Assumptions A8_get_clamp_high.
Theorem A8_wf_clamp_high n b : pos b -> wf (clamp_high n b) = true /\ pos (clamp_high n b).
Proof. intros Hp. split; [exact (wf_clamp_high n b Hp)|exact (pos_clamp_high n b Hp)]. Qed.
Print Assumptions A8_wf_clamp_high.
Theorem A8_total_clamp_high n b : total (clamp_high n b) = total b.
Proof. exact (total_clamp_high n b). Qed.
Print Assumptions A8_total_clamp_high.
Theorem A8_clamp_high_range n b mn j :
  1 <= n -> wf b = true -> pos b -> min_key b = Some mn ->
  get (clamp_high n b) j <> w0 -> mn <= j <= mn + n - 1.
Proof. exact (clamp_high_range n b mn j). Qed.
Print Assumptions A8_clamp_high_range.
Theorem A8_min_key_clamp_high n b :
  1 <= n -> wf b = true -> pos b -> min_key (clamp_high n b) = min_key b.
Proof. exact (min_key_clamp_high n b). Qed.
Print Assumptions A8_min_key_clamp_high.
Theorem A8_clamp_high_length n b :
  1 <= n -> wf b = true -> pos b -> Z.of_nat (length (clamp_high n b)) <= n.
Proof. exact (clamp_high_length n b). Qed.
Print Assumptions A8_clamp_high_length.
Theorem A8_clamp_high_span n b mn mx :
  1 <= n -> wf b = true -> pos b ->
  min_key (clamp_high n b) = Some mn -> max_key (clamp_high n b) = Some mx -> mx - mn + 1 <= n.
Proof. exact (clamp_high_span n b mn mx). Qed.
Print Assumptions A8_clamp_high_span.
Theorem A8_clamp_high_idem n b :
  1 <= n -> wf b = true -> pos b -> clamp_high n (clamp_high n b) = clamp_high n b.
Proof. exact (clamp_high_idem n b). Qed.
Print Assumptions A8_clamp_high_idem.
Theorem A8_clamp_high_absorb n a b :
  1 <= n -> wf a = true -> pos a -> pos b ->
  clamp_high n (bmerge (clamp_high n a) b) = clamp_high n (bmerge a b).
Proof. exact (clamp_high_absorb n a b). Qed.
Print Assumptions A8_clamp_high_absorb.
Theorem A8_clamp_high_bscale n f b :
  (w0 < f)%Qc -> clamp_high n (bscale f b) = bscale f (clamp_high n b).
Proof. exact (clamp_high_bscale n f b). Qed.
Print Assumptions A8_clamp_high_bscale.

(* ---- the normal form of a store of limit l ---- *)
Theorem A8_wf_norm l b : wf b = true -> pos b -> wf (norm l b) = true /\ pos (norm l b).
Proof. intros Hwf Hp. split; [exact (wf_norm l b Hwf Hp)|exact (pos_norm l b Hp)]. Qed.
Print Assumptions A8_wf_norm.
Theorem A8_total_norm l b : total (norm l b) = total b.
Proof. exact (total_norm l b). Qed.
Print Assumptions A8_total_norm.
Theorem A8_norm_idem l b :
  limit_ok l -> wf b = true -> pos b -> norm l (norm l b) = norm l b.
Proof. exact (norm_idem l b). Qed.
Print Assumptions A8_norm_idem.
Theorem A8_norm_absorb l a b :
  limit_ok l -> wf a = true -> pos a -> pos b ->
  norm l (bmerge (norm l a) b) = norm l (bmerge a b).
Proof. exact (norm_absorb l a b). Qed.
Print Assumptions A8_norm_absorb.
Theorem A8_norm_bscale l f b : (w0 < f)%Qc -> norm l (bscale f b) = bscale f (norm l b).
Proof. exact (norm_bscale l f b). Qed.
Print Assumptions A8_norm_bscale.
Theorem A8_norm_length l b :
  wf b = true -> pos b ->
  match l with
  | Exact => True
  | Lowest n | Highest n => 1 <= n -> Z.of_nat (length (norm l b)) <= n
  end.
Proof. exact (norm_length l b). Qed.
Print Assumptions A8_norm_length.

(* ---- stepwise semantics = clamp of the exact content ---- *)
Theorem A8_sadd_norm l a i c :
  limit_ok l -> wf a = true -> pos a -> (w0 <= c)%Qc ->
  sadd l (norm l a) i c = norm l (badd0 a i c).
Proof. exact (sadd_norm l a i c). Qed.
Print Assumptions A8_sadd_norm.
Theorem A8_smerge_list_norm l a xs :
  limit_ok l -> wf a = true -> pos a -> nonneg xs ->
  smerge_list l (norm l a) xs = norm l (bmerge_list a xs).
Proof. exact (smerge_list_norm l a xs). Qed.
Print Assumptions A8_smerge_list_norm.
Theorem A8_smerge_list_from_empty l xs :
  limit_ok l -> nonneg xs -> smerge_list l [] xs = norm l (bins_of_list xs).
Proof. exact (smerge_list_from_empty l xs). Qed.
Print Assumptions A8_smerge_list_from_empty.

Example A8_example :
  wf ex3 = true /\ pos ex3 /\ pos ex2 /\ 1 <= 2 /\ limit_ok (Lowest 2) /\
  clamp_low 2 ex3 = [(8, w_of_Z 5); (9, w_of_Z 1)] /\
  clamp_high 2 ex3 = [(1, w_of_Z 2); (2, w_of_Z 4)] /\
  clamp_low 5 ex3 = [(5, w_of_Z 5); (9, w_of_Z 1)] /\
  clamp_low 2 (bmerge (clamp_low 2 ex3) ex2) = [(11, w_of_Z 10); (12, w_of_Z 2)] /\
  clamp_low 2 (bmerge ex3 ex2) = [(11, w_of_Z 10); (12, w_of_Z 2)] /\
  smerge_list (Lowest 2) [] [(9, w_of_Z 1); (1, w_of_Z 2); (5, w_of_Z 3); (1, w0)]
    = [(8, w_of_Z 5); (9, w_of_Z 1)] /\
  smerge_list (Highest 2) [] [(9, w_of_Z 1); (1, w_of_Z 2); (5, w_of_Z 3); (1, w0)]
    = [(1, w_of_Z 2); (2, w_of_Z 4)].
Proof.
  split; [exact ex3_wf|]. split; [exact ex3_pos|]. split; [exact ex2_pos|].
  split; [lia|]. split; [vm_compute; discriminate|].
  repeat split; vm_compute; reflexivity.
Qed.
